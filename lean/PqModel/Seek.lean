namespace PqModel.Seek

/-! # FilePages.SeekToRow / ReadPage at page granularity (C08)

A column chunk is the list of the row counts of its data pages (`Chunk.rows`), whether the chunk
metadata records a dictionary page offset (`Chunk.dict`, Go `f.dictOffset > 0`) and the data pages
whose checksum does not match their body (`Chunk.bad`: `ReadPage` consumes such a page and fails
with ErrCorrupted). Stream positions are counted in data pages instead of bytes: `St.pos` is the
page the section reader / bufio reader will actually decode next, `St.index` is what the code
*believes* that page to be (`f.index`). The cached page is `St.last = some (lastPageIndex, page
actually cached)`. `St.lost` is `f.desync` (set by a failed `ReadPage`); the code before the
repairs has no such field, there it is a ghost that nothing reads.

* MIRROR (the Go code before the repairs): `seekAsis`, `readLoop`, `readPage`, `stepAsis`.
* MIRROR of the repaired code (the `fix:` commits on FilePages.SeekToRow/ReadPage): `seekFixed`,
  `stepFixed` (`ReadPage` differs only by setting `desync` on failure).
* SPEC (written from the property statement): `SpecOK`, `RunOK` — a reader is a row counter whose
  position is undefined (`none`) between a failed read and the next seek.

Not modelled (tied by L1 only): byte offsets and the in-buffer Discard (all three ways of moving
the stream are `pos := t`), data pages that do not start on a row boundary (the writer of this
library never produces them), pages with zero rows, negative row indexes, encryption ordinals,
reference counts of the cached page, failures other than a consumed page with a wrong checksum. -/

structure Chunk where
  rows : List Nat    -- row count of every data page, in file order
  dict : Bool        -- f.dictOffset > 0
  bad  : List Nat := []  -- data pages whose checksum does not match
deriving Repr, DecidableEq

structure St where
  hasIndex : Bool             -- f.chunk.offsetIndex.Load() != nil
  index : Nat                 -- f.index: believed index of the next page in the stream
  pos   : Nat                 -- actual stream position, in data pages
  skip  : Nat                 -- f.skip
  last  : Option (Nat × Nat)  -- (f.lastPageIndex, page actually held by f.lastPage)
  serve : Bool                -- f.serveLastPage
  lost  : Bool := false       -- f.desync: a ReadPage failed since the last seek
deriving Repr, DecidableEq

inductive Op where
  | seek (k : Nat)
  | readPage
  | loadIndex                 -- FileColumnChunk.OffsetIndex() on a file opened with SkipPageIndex
deriving Repr, DecidableEq

inductive Out where
  | ok
  | err
  | eof
  | page (p start len : Nat)  -- rows start..start+len-1, cut from data page p
  | corrupt                   -- ReadPage failed: checksum mismatch (ErrCorrupted)
deriving Repr, DecidableEq

/-- pages[i].FirstRowIndex -/
def firstRow (rows : List Nat) (i : Nat) : Nat := (rows.take i).sum

/-- `sort.Search(len(pages), pages[i].FirstRowIndex > k) - 1` as a linear scan -/
def findPage (rows : List Nat) (k : Nat) : Nat → Nat → Nat
  | 0, acc => acc
  | fuel + 1, acc =>
    if acc + 1 < rows.length ∧ firstRow rows (acc + 1) ≤ k then findPage rows k fuel (acc + 1) else acc

def target (rows : List Nat) (k : Nat) : Nat := findPage rows k rows.length 0

/-- `FilePages.init` -/
def init (hasIndex : Bool) : St :=
  { hasIndex := hasIndex, index := 0, pos := 0, skip := 0, last := none, serve := false, lost := false }

/-- MIRROR of `FilePages.SeekToRow` before the repairs.
    No offset index: rewind to dataOffset, `skip = rowIndex`, `index = 0|1`; empty page list;
    target and skip; cached-page shortcut (returns before touching the stream and never clears
    the flag); believed position equals the target; move the stream (Discard / Seek+Reset, all
    `pos := t` here). -/
def seekAsis (c : Chunk) (s : St) (k : Nat) : St × Out :=
  if s.hasIndex = false then
    ({ s with pos := 0, skip := k, index := if c.dict then 1 else 0 }, .ok)
  else if c.rows.isEmpty then
    if k = 0 then ({ s with skip := 0 }, .ok) else (s, .err)
  else
    let t := target c.rows k
    let s := { s with skip := k - firstRow c.rows t }
    match s.last with
    | some (li, _) =>
      if t = li then ({ s with serve := true }, .ok)
      else if s.index = t then (s, .ok) else ({ s with index := t, pos := t }, .ok)
    | none => if s.index = t then (s, .ok) else ({ s with index := t, pos := t }, .ok)

/-- the `desync` block of the repaired `SeekToRow`: after a failed read drop the page cache -/
def resync (s : St) : St :=
  if s.lost then { s with lost := false, last := none, serve := false } else s

/-- MIRROR of the repaired `SeekToRow`: after a failed `ReadPage` (`desync`) the cache is dropped
    and the `index == target` shortcut is not taken; every successful seek clears
    `serveLastPage`; the cached page is served only when the stream is positioned right behind it
    (`f.index == target+1`), otherwise the page is read again from the stream; the no-index path
    numbers data pages from 0 like the index path does. -/
def seekFixed (c : Chunk) (s0 : St) (k : Nat) : St × Out :=
  let desync := s0.lost
  let s := resync s0
  if s.hasIndex = false then
    ({ s with pos := 0, skip := k, index := 0, serve := false }, .ok)
  else if c.rows.isEmpty then
    if k = 0 then ({ s with skip := 0 }, .ok) else (s, .err)
  else
    let t := target c.rows k
    let s := { s with skip := k - firstRow c.rows t, serve := false }
    match s.last with
    | some (li, _) =>
      if t = li ∧ s.index = t + 1 then ({ s with serve := true }, .ok)
      else if s.index = t ∧ desync = false then (s, .ok) else ({ s with index := t, pos := t }, .ok)
    | none => if s.index = t ∧ desync = false then (s, .ok) else ({ s with index := t, pos := t }, .ok)

/-- MIRROR of the `for` loop of `FilePages.ReadPage`: decode the page under the stream (EOF when
    there is none; a page whose checksum does not match is consumed and the read fails, leaving
    `index` and the cache alone), cache it with the believed index, then return it, skip it
    entirely or return its tail. -/
def readLoop (rows bad : List Nat) : Nat → St → St × Out
  | 0, s => (s, .eof)
  | fuel + 1, s =>
    match rows[s.pos]? with
    | none => (s, .eof)
    | some nr =>
      if s.pos ∈ bad then ({ s with pos := s.pos + 1, lost := true }, .corrupt) else
      let s' := { s with last := some (s.index, s.pos), index := s.index + 1, pos := s.pos + 1 }
      if s.skip = 0 then (s', .page s.pos (firstRow rows s.pos) nr)
      else if nr ≤ s.skip then readLoop rows bad fuel { s' with skip := s.skip - nr }
      else ({ s' with skip := 0 }, .page s.pos (firstRow rows s.pos + s.skip) (nr - s.skip))

/-- MIRROR of `FilePages.ReadPage`; the first branch is the cached-page preamble. -/
def readPage (rows bad : List Nat) (s : St) : St × Out :=
  match s.serve, s.last with
  | true, some (li, lp) =>
    let s := { s with serve := false, index := li + 1 }
    let nr := rows.getD lp 0
    if s.skip < nr then ({ s with skip := 0 }, .page lp (firstRow rows lp + s.skip) (nr - s.skip))
    else readLoop rows bad (rows.length + 1) { s with skip := s.skip - nr }
  | _, _ => readLoop rows bad (rows.length + 1) s

def stepAsis (c : Chunk) (s : St) : Op → St × Out
  | .seek k => seekAsis c s k
  | .readPage => readPage c.rows c.bad s
  | .loadIndex => ({ s with hasIndex := true }, .ok)

def stepFixed (c : Chunk) (s : St) : Op → St × Out
  | .seek k => seekFixed c s k
  | .readPage => readPage c.rows c.bad s
  | .loadIndex => ({ s with hasIndex := true }, .ok)

/-- run a history, collecting the state and output after every op -/
def run (step : St → Op → St × Out) : St → List Op → List (St × Out)
  | _, [] => []
  | s, op :: ops => let r := step s op; r :: run step r.1 ops

def outs (step : St → Op → St × Out) (s : St) (ops : List Op) : List Out :=
  (run step s ops).map (·.2)

/-! ### SPEC: a sequential reader is a row counter -/

def total (c : Chunk) : Nat := c.rows.sum

/-- One step of the reference reader standing before row `n` (`none`: a read failed and no seek
    has happened since, the position is undefined). A seek moves it to `k` (it may be refused only
    when `k` is beyond the last row, and then nothing changes). A read delivers the rest of the
    page that contains row `n` — never from a corrupted page —, EOF exactly when no row is left, or
    fails, which it may only do when a corrupted page starts at or before row `n` (and must do when
    row `n` lies in one); after a failure the position is undefined. -/
def SpecOK (c : Chunk) (n : Option Nat) (op : Op) (n' : Option Nat) (out : Out) : Prop :=
  match op with
  | .seek k => (out = .ok ∧ n' = some k) ∨ (out = .err ∧ n' = n ∧ total c < k)
  | .loadIndex => out = .ok ∧ n' = n
  | .readPage =>
    match n with
    | none => n' = none
    | some n =>
      match out with
      | .corrupt => n' = none ∧ ∃ q ∈ c.bad, q < c.rows.length ∧ firstRow c.rows q ≤ n
      | .eof => total c ≤ n ∧ n' = some n
      | .page p st len => n < total c ∧ p = target c.rows n ∧ p ∉ c.bad ∧ st = n ∧
          len = firstRow c.rows (p + 1) - n ∧ n' = some (firstRow c.rows (p + 1)) ∧
          n < firstRow c.rows (p + 1) ∧ firstRow c.rows (p + 1) ≤ total c
      | _ => False

inductive RunOK (c : Chunk) : Option Nat → List Op → List Out → Prop where
  | nil (n) : RunOK c n [] []
  | cons {n op n' out ops os} : SpecOK c n op n' out → RunOK c n' ops os → RunOK c n (op :: ops) (out :: os)

/-! ### the findings on the mirror of the unchanged code -/

def c10 : Chunk := { rows := List.replicate 10 10, dict := false }

/-- history A: the cached-page shortcut leaves the stream where the previous seek put it -/
def histA : List Op := [.seek 20, .readPage, .seek 70, .seek 25, .readPage, .readPage]
/-- history B: a stale `serveLastPage` survives the next seek -/
def histB : List Op := [.seek 20, .readPage, .seek 25, .seek 72, .readPage]
/-- history C: page numbers of the no-index path count the dictionary page; the offset index is
    loaded lazily afterwards (file opened with SkipPageIndex, then `ColumnChunk.OffsetIndex()`) -/
def c10d : Chunk := { rows := List.replicate 10 10, dict := true }
def histC : List Op := [.seek 5, .readPage, .loadIndex, .seek 12, .readPage]
/-- history D: page 1 fails its checksum; the retry seek into it takes the `index == target`
    shortcut although the stream is already behind that page -/
def c3bad : Chunk := { rows := [100, 100, 100], dict := false, bad := [1] }
def histD : List Op := [.readPage, .readPage, .seek 150, .readPage]

example : outs (stepAsis c10) (init true) histA = [.ok, .page 2 20 10, .ok, .ok, .page 2 25 5, .page 7 70 10] := by decide
example : outs (stepFixed c10) (init true) histA = [.ok, .page 2 20 10, .ok, .ok, .page 2 25 5, .page 3 30 10] := by decide
example : outs (stepAsis c10) (init true) histB = [.ok, .page 2 20 10, .ok, .ok, .page 2 22 8] := by decide
example : outs (stepFixed c10) (init true) histB = [.ok, .page 2 20 10, .ok, .ok, .page 7 72 8] := by decide
example : outs (stepAsis c10d) (init false) histC = [.ok, .page 0 5 5, .ok, .ok, .page 0 2 8] := by decide
example : outs (stepFixed c10d) (init false) histC = [.ok, .page 0 5 5, .ok, .ok, .page 1 12 8] := by decide
example : outs (stepAsis c3bad) (init true) histD = [.page 0 0 100, .corrupt, .ok, .page 2 250 50] := by decide
example : outs (stepFixed c3bad) (init true) histD = [.page 0 0 100, .corrupt, .ok, .corrupt] := by decide

/-! ### arithmetic of `firstRow` and `target` -/

theorem firstRow_succ : ∀ (rows : List Nat) (i : Nat) (nr : Nat), rows[i]? = some nr →
    firstRow rows (i + 1) = firstRow rows i + nr
  | [], i, nr, h => by simp at h
  | r :: rs, 0, nr, h => by
    simp at h; subst h; simp [firstRow]
  | r :: rs, i + 1, nr, h => by
    have h' : rs[i]? = some nr := by simpa using h
    have ih := firstRow_succ rs i nr h'
    simp only [firstRow, List.take_succ_cons, List.sum_cons] at ih ⊢
    omega

theorem firstRow_all (rows : List Nat) : ∀ i, rows.length ≤ i → firstRow rows i = rows.sum := by
  intro i hi; simp [firstRow, List.take_of_length_le hi]

theorem firstRow_le_sum (rows : List Nat) : ∀ i, firstRow rows i ≤ rows.sum := by
  intro i
  induction rows generalizing i with
  | nil => simp [firstRow]
  | cons r rs ih =>
    cases i with
    | zero => simp [firstRow]
    | succ i => have := ih i; simp only [firstRow, List.take_succ_cons, List.sum_cons] at this ⊢; omega

theorem firstRow_zero (rows : List Nat) : firstRow rows 0 = 0 := by simp [firstRow]

theorem firstRow_step_le (rows : List Nat) (i : Nat) : firstRow rows i ≤ firstRow rows (i + 1) := by
  rcases Nat.lt_or_ge i rows.length with h | h
  · have := firstRow_succ rows i rows[i] (by simp [List.getElem?_eq_getElem h]); omega
  · rw [firstRow_all rows i h, firstRow_all rows (i + 1) (by omega)]; exact Nat.le_refl _

theorem firstRow_mono (rows : List Nat) {i j : Nat} (h : i ≤ j) : firstRow rows i ≤ firstRow rows j := by
  induction j with
  | zero => have : i = 0 := by omega
            subst this; exact Nat.le_refl _
  | succ j ih =>
    rcases Nat.lt_or_ge i (j + 1) with h1 | h1
    · exact Nat.le_trans (ih (by omega)) (firstRow_step_le rows j)
    · have : i = j + 1 := by omega
      subst this; exact Nat.le_refl _

theorem getElem?_of_lt (rows : List Nat) {i : Nat} (h : i < rows.length) : rows[i]? = some (rows.getD i 0) := by
  simp [List.getD, List.getElem?_eq_getElem h]

theorem findPage_spec (rows : List Nat) (k : Nat) : ∀ fuel acc, firstRow rows acc ≤ k →
    (acc < rows.length ∨ acc = 0) →
    firstRow rows (findPage rows k fuel acc) ≤ k ∧
      (findPage rows k fuel acc < rows.length ∨ findPage rows k fuel acc = 0)
  | 0, acc, h, hb => ⟨h, hb⟩
  | fuel + 1, acc, h, hb => by
    simp only [findPage]
    split
    · rename_i hc
      exact findPage_spec rows k fuel (acc + 1) hc.2 (Or.inl hc.1)
    · exact ⟨h, hb⟩

/-- the scan stops only at the last page or in front of a page that starts after `k` -/
theorem findPage_max (rows : List Nat) (k : Nat) : ∀ fuel acc, rows.length ≤ acc + 1 + fuel →
    findPage rows k fuel acc + 1 < rows.length → k < firstRow rows (findPage rows k fuel acc + 1)
  | 0, acc, hf, h => by simp only [findPage] at h ⊢; omega
  | fuel + 1, acc, hf, h => by
    simp only [findPage] at h ⊢
    split
    · rename_i hc
      rw [if_pos hc] at h
      exact findPage_max rows k fuel (acc + 1) (by omega) h
    · rename_i hc
      rw [if_neg hc] at h
      rcases Nat.lt_or_ge k (firstRow rows (acc + 1)) with h1 | h1
      · exact h1
      · exact absurd ⟨h, h1⟩ hc

theorem target_spec (rows : List Nat) (k : Nat) :
    firstRow rows (target rows k) ≤ k ∧ (target rows k < rows.length ∨ target rows k = 0) :=
  findPage_spec rows k rows.length 0 (by simp [firstRow]) (Or.inr rfl)

/-- row `k` lies inside page `target k` whenever it exists -/
theorem target_upper (rows : List Nat) (k : Nat) (hk : k < rows.sum) :
    k < firstRow rows (target rows k + 1) := by
  rcases Nat.lt_or_ge (target rows k + 1) rows.length with h | h
  · exact findPage_max rows k rows.length 0 (by omega) h
  · rw [firstRow_all rows _ h]; exact hk

/-- the page containing a row is unique (pages are non-empty) -/
theorem target_unique (rows : List Nat) (k p : Nat) (hk : k < rows.sum)
    (h1 : firstRow rows p ≤ k) (h2 : k < firstRow rows (p + 1)) : target rows k = p := by
  have a1 := (target_spec rows k).1
  have a2 := target_upper rows k hk
  rcases Nat.lt_trichotomy (target rows k) p with h | h | h
  · have := firstRow_mono rows (show target rows k + 1 ≤ p by omega); omega
  · exact h
  · have := firstRow_mono rows (show p + 1 ≤ target rows k by omega); omega

/-! ### invariants and the abstraction -/

/-- what `ReadPage` relies on: only the actual stream position and the actually cached page
    (which was read successfully, hence is not a corrupted one) -/
def RInv (rows bad : List Nat) (s : St) : Prop :=
  s.pos ≤ rows.length ∧
  (∀ li lp, s.last = some (li, lp) → lp < rows.length ∧ lp ∉ bad) ∧
  (s.serve = true → ∃ li lp, s.last = some (li, lp) ∧ s.pos = lp + 1)

/-- believed and actual page numbers agree -/
def Agree (s : St) : Prop :=
  s.index = s.pos ∧ ∀ li lp, s.last = some (li, lp) → li = lp

/-- the next row this reader will deliver (meaningful while `lost = false`) -/
def next (rows : List Nat) (s : St) : Nat :=
  match s.serve, s.last with
  | true, some (_, lp) => firstRow rows lp + s.skip
  | _, _ => firstRow rows s.pos + s.skip

/-- abstraction: the reader's row position, undefined between a failed read and the next seek -/
def npos (rows : List Nat) (s : St) : Option Nat := if s.lost then none else some (next rows s)

/-- outcome of a read that starts before row `start`, `lost0` being `desync` before the read -/
def ReadOK (rows bad : List Nat) (lost0 : Bool) (start : Nat) (r : St × Out) : Prop :=
  RInv rows bad r.1 ∧ r.1.serve = false ∧
  match r.2 with
  | .page p st len => r.1.lost = lost0 ∧ p ∉ bad ∧ st = start ∧ 0 < len ∧ next rows r.1 = st + len ∧
      st + len ≤ rows.sum ∧ firstRow rows p ≤ st ∧ st + len = firstRow rows (p + 1)
  | .eof => r.1.lost = lost0 ∧ rows.sum ≤ start ∧ next rows r.1 = start
  | .corrupt => r.1.lost = true ∧ ∃ q ∈ bad, q < rows.length ∧ firstRow rows q ≤ start
  | _ => False

theorem readLoop_spec (rows bad : List Nat) (hpos : ∀ r ∈ rows, 0 < r) :
    ∀ (fuel : Nat) (s : St), s.pos ≤ rows.length → s.serve = false →
      (∀ li lp, s.last = some (li, lp) → lp < rows.length ∧ lp ∉ bad) →
      rows.length - s.pos < fuel →
      ReadOK rows bad s.lost (firstRow rows s.pos + s.skip) (readLoop rows bad fuel s)
  | 0, s, _, _, _, hf => by omega
  | fuel + 1, s, hi, hs, hl, hf => by
    simp only [readLoop]
    cases hr : rows[s.pos]? with
    | none =>
      have hge : rows.length ≤ s.pos := by
        rcases Nat.lt_or_ge s.pos rows.length with h | h
        · simp [List.getElem?_eq_getElem h] at hr
        · exact h
      refine ⟨⟨hi, hl, by simp [hs]⟩, hs, ?_⟩
      simp only [next, hs]
      rw [firstRow_all rows s.pos hge]
      exact ⟨trivial, by omega, by cases s.last <;> trivial⟩
    | some nr =>
      have hlt : s.pos < rows.length := by
        rcases Nat.lt_or_ge s.pos rows.length with h | h
        · exact h
        · simp [List.getElem?_eq_none h] at hr
      have hnr : 0 < nr := hpos nr (List.mem_of_getElem? hr)
      have hfs := firstRow_succ rows s.pos nr hr
      have hle := firstRow_le_sum rows (s.pos + 1)
      simp only []
      by_cases hb : s.pos ∈ bad
      · rw [if_pos hb]
        refine ⟨⟨by simp; omega, hl, by simp [hs]⟩, by simp [hs], ?_⟩
        exact ⟨rfl, s.pos, hb, hlt, by omega⟩
      · rw [if_neg hb]
        split
        · rename_i h0
          refine ⟨⟨by simp; omega, ?_, by simp [hs]⟩, by simp [hs], ?_⟩
          · intro li lp h; simp at h; obtain ⟨_, rfl⟩ := h; exact ⟨hlt, hb⟩
          · simp only [next, hs]
            simp [h0]
            exact ⟨hb, by omega⟩
        · split
          · rename_i h0 hle'
            have := readLoop_spec rows bad hpos fuel
              { s with last := some (s.index, s.pos), index := s.index + 1, pos := s.pos + 1, skip := s.skip - nr }
              (by simp; omega) (by simp [hs])
              (by intro li lp h; simp at h; obtain ⟨_, rfl⟩ := h; exact ⟨hlt, hb⟩) (by simp; omega)
            have he : firstRow rows (s.pos + 1) + (s.skip - nr) = firstRow rows s.pos + s.skip := by omega
            simpa [he] using this
          · rename_i h0 hgt
            refine ⟨⟨by simp; omega, ?_, by simp [hs]⟩, by simp [hs], ?_⟩
            · intro li lp h; simp at h; obtain ⟨_, rfl⟩ := h; exact ⟨hlt, hb⟩
            · simp only [next, hs]
              simp
              exact ⟨hb, by omega⟩

theorem readPage_spec (rows bad : List Nat) (hpos : ∀ r ∈ rows, 0 < r) (s : St) (h : RInv rows bad s) :
    ReadOK rows bad s.lost (next rows s) (readPage rows bad s) := by
  obtain ⟨hi, hl, hsv⟩ := h
  unfold readPage
  cases hs : s.serve with
  | false =>
    have := readLoop_spec rows bad hpos (rows.length + 1) s hi hs hl (by omega)
    have hn : next rows s = firstRow rows s.pos + s.skip := by simp [next, hs]
    cases hlast : s.last <;> simpa [hn] using this
  | true =>
    obtain ⟨li, lp, hlast, hidx⟩ := hsv hs
    obtain ⟨hlp, hlb⟩ := hl li lp hlast
    have hn : next rows s = firstRow rows lp + s.skip := by simp [next, hs, hlast]
    rw [hn]
    simp only [hlast]
    have hget := getElem?_of_lt rows hlp
    generalize rows.getD lp 0 = nr at hget
    have hnr : 0 < nr := hpos _ (List.mem_of_getElem? hget)
    have hfs := firstRow_succ rows lp _ hget
    have hle := firstRow_le_sum rows (lp + 1)
    split
    · rename_i hlt
      refine ⟨⟨hi, ?_, by simp⟩, by simp, ?_⟩
      · intro a b hab
        simp at hab
        obtain ⟨_, rfl⟩ := hab
        exact ⟨hlp, hlb⟩
      · simp only [next]
        simp
        rw [hidx]
        exact ⟨hlb, by omega⟩
    · rename_i hge
      have := readLoop_spec rows bad hpos (rows.length + 1)
        { s with serve := false, index := li + 1, skip := s.skip - nr }
        hi (by simp)
        (by
          intro a b hab
          have hab' : s.last = some (a, b) := hab
          exact hl a b hab')
        (by simp; omega)
      have he : firstRow rows s.pos + (s.skip - nr) = firstRow rows lp + s.skip := by
        rw [hidx]; omega
      simpa [he, hlast] using this

/-- `ReadPage` keeps believed and actual page numbers in step as long as it does not fail -/
theorem readLoop_agree (rows bad : List Nat) : ∀ (fuel : Nat) (s : St), (s.lost = false → Agree s) →
    (readLoop rows bad fuel s).1.lost = false → Agree (readLoop rows bad fuel s).1
  | 0, s, h, hl => h hl
  | fuel + 1, s, h, hl => by
    simp only [readLoop] at hl ⊢
    cases hr : rows[s.pos]? with
    | none => rw [hr] at hl; exact h hl
    | some nr =>
      rw [hr] at hl
      simp only [] at hl ⊢
      by_cases hb : s.pos ∈ bad
      · rw [if_pos hb] at hl; simp at hl
      · rw [if_neg hb] at hl ⊢
        split
        · rename_i h0
          rw [if_pos h0] at hl
          obtain ⟨h1, h2⟩ := h hl
          refine ⟨by simp; omega, ?_⟩
          intro li lp hh; simp at hh; omega
        · rename_i h0
          rw [if_neg h0] at hl
          split
          · rename_i h1'
            rw [if_pos h1'] at hl
            apply readLoop_agree rows bad fuel _ _ hl
            intro hl'
            obtain ⟨h1, h2⟩ := h hl'
            refine ⟨by simp; omega, ?_⟩
            intro li lp hh; simp at hh; omega
          · rename_i h1'
            rw [if_neg h1'] at hl
            obtain ⟨h1, h2⟩ := h hl
            refine ⟨by simp; omega, ?_⟩
            intro li lp hh; simp at hh; omega

theorem readPage_agree (rows bad : List Nat) (s : St) (hr : RInv rows bad s) (h : s.lost = false → Agree s)
    (hl : (readPage rows bad s).1.lost = false) : Agree (readPage rows bad s).1 := by
  obtain ⟨_, _, hsv⟩ := hr
  unfold readPage at hl ⊢
  cases hs : s.serve with
  | false =>
    rw [hs] at hl
    have : (readLoop rows bad (rows.length + 1) s).1.lost = false := by
      cases hlast : s.last <;> simpa [hlast] using hl
    have := readLoop_agree rows bad (rows.length + 1) s h this
    cases hlast : s.last <;> simpa using this
  | true =>
    obtain ⟨li, lp, hlast, hidx⟩ := hsv hs
    rw [hs, hlast] at hl
    simp only [hlast] at hl ⊢
    split
    · rename_i hlt
      rw [if_pos hlt] at hl
      obtain ⟨h1, h2⟩ := h hl
      have hli := h2 li lp hlast
      refine ⟨by simp; omega, ?_⟩
      intro a b hab
      simp at hab
      obtain ⟨h3, h4⟩ := hab
      omega
    · rename_i hlt
      rw [if_neg hlt] at hl
      apply readLoop_agree rows bad _ _ _ hl
      intro hl'
      obtain ⟨h1, h2⟩ := h hl'
      have hli := h2 li lp hlast
      refine ⟨by simp; omega, ?_⟩
      intro a b hab
      simp at hab
      obtain ⟨h3, h4⟩ := hab
      omega

theorem readPage_hasIndex (rows bad : List Nat) (s : St) : (readPage rows bad s).1.hasIndex = s.hasIndex := by
  have loop : ∀ fuel (s : St), (readLoop rows bad fuel s).1.hasIndex = s.hasIndex := by
    intro fuel
    induction fuel with
    | zero => intro s; rfl
    | succ fuel ih =>
      intro s
      simp only [readLoop]
      cases rows[s.pos]? with
      | none => rfl
      | some nr =>
        simp only []
        split
        · rfl
        · split
          · rfl
          · split
            · rw [ih]
            · rfl
  unfold readPage
  split
  · simp only []
    split
    · rfl
    · rw [loop]
  · rw [loop]

/-- a reader that had lost its position stays lost through a read -/
theorem readOK_lost (rows bad : List Nat) (start : Nat) (r : St × Out) (h : ReadOK rows bad true start r) :
    r.1.lost = true := by
  obtain ⟨_, _, h3⟩ := h
  cases ho : r.2 with
  | ok => simp [ho] at h3
  | err => simp [ho] at h3
  | eof => simp only [ho] at h3; exact h3.1
  | page p st len => simp only [ho] at h3; exact h3.1
  | corrupt => simp only [ho] at h3; exact h3.1

/-- a read only loses the position on a chunk that has pages -/
theorem readOK_lost_rows (rows bad : List Nat) (l0 : Bool) (start : Nat) (r : St × Out)
    (h : ReadOK rows bad l0 start r) (hl : r.1.lost = true) : l0 = true ∨ rows ≠ [] := by
  obtain ⟨_, _, h3⟩ := h
  cases ho : r.2 with
  | ok => simp [ho] at h3
  | err => simp [ho] at h3
  | eof => simp only [ho] at h3; exact Or.inl (by rw [← h3.1]; exact hl)
  | page p st len => simp only [ho] at h3; exact Or.inl (by rw [← h3.1]; exact hl)
  | corrupt =>
    simp only [ho] at h3
    obtain ⟨_, q, _, hq, _⟩ := h3
    refine Or.inr ?_
    intro hnil
    simp [hnil] at hq

/-- a read from a defined position is a step of the reference reader -/
theorem readOK_spec (c : Chunk) (n : Nat) (r : St × Out) (h : ReadOK c.rows c.bad false n r) :
    SpecOK c (some n) .readPage (npos c.rows r.1) r.2 := by
  obtain ⟨_, _, h3⟩ := h
  have htot : total c = c.rows.sum := rfl
  unfold SpecOK
  cases ho : r.2 with
  | ok => simp [ho] at h3
  | err => simp [ho] at h3
  | corrupt =>
    simp only [ho] at h3
    simp only [npos, h3.1]
    exact ⟨rfl, h3.2⟩
  | eof =>
    simp only [ho] at h3
    simp only [npos, h3.1]
    exact ⟨by omega, by simp [h3.2.2]⟩
  | page p st len =>
    simp only [ho] at h3
    obtain ⟨e0, eb, e1, e2, e3, e4, e5, e6⟩ := h3
    subst e1
    have ht : target c.rows st = p := target_unique c.rows st p (by omega) e5 (by omega)
    simp only [npos, e0]
    refine ⟨by omega, ht.symm, eb, trivial, by omega, ?_, by omega, by omega⟩
    simp [e3, e6]

/-! ### the repaired seek -/

/-- the body of the repaired `SeekToRow` behind the `desync` block -/
def seekCore (c : Chunk) (desync : Bool) (s : St) (k : Nat) : St × Out :=
  if s.hasIndex = false then
    ({ s with pos := 0, skip := k, index := 0, serve := false }, .ok)
  else if c.rows.isEmpty then
    if k = 0 then ({ s with skip := 0 }, .ok) else (s, .err)
  else
    let t := target c.rows k
    let s := { s with skip := k - firstRow c.rows t, serve := false }
    match s.last with
    | some (li, _) =>
      if t = li ∧ s.index = t + 1 then ({ s with serve := true }, .ok)
      else if s.index = t ∧ desync = false then (s, .ok) else ({ s with index := t, pos := t }, .ok)
    | none => if s.index = t ∧ desync = false then (s, .ok) else ({ s with index := t, pos := t }, .ok)

theorem seekFixed_eq (c : Chunk) (s : St) (k : Nat) : seekFixed c s k = seekCore c s.lost (resync s) k := rfl

/-- invariant of the repaired reader -/
def SInv (c : Chunk) (s : St) : Prop :=
  RInv c.rows c.bad s ∧ (s.lost = false → Agree s) ∧ (s.lost = true → c.rows ≠ [])

theorem seekCore_spec (c : Chunk) (d : Bool) (s : St) (k : Nat) (hr : RInv c.rows c.bad s)
    (hlost : s.lost = false) (hd0 : d = false → Agree s) (hd1 : d = true → s.last = none ∧ c.rows ≠ []) :
    (RInv c.rows c.bad (seekCore c d s k).1 ∧ (seekCore c d s k).1.lost = false ∧ Agree (seekCore c d s k).1) ∧
    (((seekCore c d s k).2 = .ok ∧ next c.rows (seekCore c d s k).1 = k) ∨
     ((seekCore c d s k).2 = .err ∧ (seekCore c d s k).1 = s ∧ c.rows = [] ∧ total c < k)) := by
  obtain ⟨hidx, hlast, hserve⟩ := hr
  unfold seekCore
  split
  · -- no offset index
    refine ⟨⟨⟨by simp, hlast, by simp⟩, hlost, ⟨rfl, ?_⟩⟩, Or.inl ⟨rfl, ?_⟩⟩
    · cases d with
      | false => exact (hd0 rfl).2
      | true => intro li lp hl; simp [(hd1 rfl).1] at hl
    · simp [next, firstRow_zero]
  · split
    · rename_i he
      have hnil : c.rows = [] := by simpa using he
      have hdf : d = false := by
        cases d with
        | false => rfl
        | true => exact absurd hnil (hd1 rfl).2
      obtain ⟨hpos, hag⟩ := hd0 hdf
      split
      · rename_i hk
        refine ⟨⟨⟨hidx, hlast, hserve⟩, hlost, ⟨hpos, hag⟩⟩, Or.inl ⟨rfl, ?_⟩⟩
        have hnone : s.last = none := by
          cases hl : s.last with
          | none => rfl
          | some p => have := (hlast p.1 p.2 (by simp [hl])).1; simp [hnil] at this
        simp [next, hnone, hnil, firstRow, hk]
      · rename_i hk
        refine ⟨⟨⟨hidx, hlast, hserve⟩, hlost, ⟨hpos, hag⟩⟩, Or.inr ⟨rfl, rfl, hnil, ?_⟩⟩
        simp [total, hnil]; omega
    · have ht := target_spec c.rows k
      generalize hT : target c.rows k = t at ht
      have htn : t ≤ c.rows.length := by omega
      simp only []
      cases hl : s.last with
      | none =>
        simp only []
        split
        · rename_i he
          obtain ⟨he1, he2⟩ := he
          obtain ⟨hpos, hag⟩ := hd0 he2
          refine ⟨⟨⟨hidx, by simp [hl], by simp⟩, hlost, ⟨hpos, by simp [hl]⟩⟩, Or.inl ⟨rfl, ?_⟩⟩
          simp [next, ← hpos, he1]; omega
        · refine ⟨⟨⟨htn, by simp [hl], by simp⟩, hlost, ⟨rfl, by simp [hl]⟩⟩, Or.inl ⟨rfl, ?_⟩⟩
          simp [next]; omega
      | some p =>
        obtain ⟨li, lp⟩ := p
        have hdf : d = false := by
          cases d with
          | false => rfl
          | true => have := (hd1 rfl).1; simp [hl] at this
        obtain ⟨hpos, hag⟩ := hd0 hdf
        have hll := hlast li lp hl
        have hli : li = lp := hag li lp hl
        subst hli
        simp only []
        split
        · rename_i he
          obtain ⟨he1, he2⟩ := he
          subst he1
          refine ⟨⟨⟨hidx, by simpa [hl] using hlast, fun _ => ⟨t, t, by simp [hl], by show s.pos = t + 1; omega⟩⟩,
            hlost, ⟨hpos, by simpa [hl] using hag⟩⟩, Or.inl ⟨rfl, ?_⟩⟩
          simp [next, hl]; omega
        · split
          · rename_i he
            obtain ⟨he1, _⟩ := he
            refine ⟨⟨⟨hidx, by simpa [hl] using hlast, by simp⟩, hlost, ⟨hpos, by simpa [hl] using hag⟩⟩, Or.inl ⟨rfl, ?_⟩⟩
            simp [next, ← hpos, he1]; omega
          · refine ⟨⟨⟨htn, by simpa [hl] using hlast, by simp⟩, hlost, ⟨rfl, by simpa [hl] using hag⟩⟩, Or.inl ⟨rfl, ?_⟩⟩
            simp [next]; omega

theorem seekFixed_spec (c : Chunk) (s : St) (k : Nat) (h : SInv c s) :
    SInv c (seekFixed c s k).1 ∧
    (((seekFixed c s k).2 = .ok ∧ (seekFixed c s k).1.lost = false ∧ next c.rows (seekFixed c s k).1 = k) ∨
     ((seekFixed c s k).2 = .err ∧ (seekFixed c s k).1 = s ∧ total c < k)) := by
  obtain ⟨hr, hag, hne⟩ := h
  rw [seekFixed_eq]
  cases hl : s.lost with
  | false =>
    have hres : resync s = s := by simp [resync, hl]
    rw [hres]
    obtain ⟨⟨h1, h2, h3⟩, h4⟩ := seekCore_spec c false s k hr hl (fun _ => hag hl) (by intro h; cases h)
    refine ⟨⟨h1, fun _ => h3, fun h => by rw [h2] at h; cases h⟩, ?_⟩
    rcases h4 with ⟨a, b⟩ | ⟨a, b, _, d⟩
    · exact Or.inl ⟨a, h2, b⟩
    · exact Or.inr ⟨a, b, d⟩
  | true =>
    have hrows := hne hl
    have hres : resync s = { s with lost := false, last := none, serve := false } := by simp [resync, hl]
    rw [hres]
    obtain ⟨hidx, _, _⟩ := hr
    obtain ⟨⟨h1, h2, h3⟩, h4⟩ := seekCore_spec c true { s with lost := false, last := none, serve := false } k
      ⟨hidx, by simp, by simp⟩ rfl (by intro h; cases h) (fun _ => ⟨rfl, hrows⟩)
    refine ⟨⟨h1, fun _ => h3, fun h => by rw [h2] at h; cases h⟩, ?_⟩
    rcases h4 with ⟨a, b⟩ | ⟨_, _, d, _⟩
    · exact Or.inl ⟨a, h2, b⟩
    · exact absurd d hrows

theorem init_inv (c : Chunk) (hi : Bool) : SInv c (init hi) := by
  simp [SInv, RInv, Agree, init]

theorem stepFixed_inv (c : Chunk) (hpos : ∀ r ∈ c.rows, 0 < r) (s : St) (op : Op) (h : SInv c s) :
    SInv c (stepFixed c s op).1 := by
  cases op with
  | seek k => exact (seekFixed_spec c s k h).1
  | readPage =>
    have hr := readPage_spec c.rows c.bad hpos s h.1
    refine ⟨hr.1, fun hl => readPage_agree c.rows c.bad s h.1 h.2.1 hl, fun hl => ?_⟩
    rcases readOK_lost_rows c.rows c.bad s.lost _ _ hr hl with h1 | h1
    · exact h.2.2 h1
    · exact h1
  | loadIndex => exact h

theorem npos_of_lost_false (rows : List Nat) (s : St) (h : s.lost = false) : npos rows s = some (next rows s) := by
  simp [npos, h]

/-- every step of the repaired reader is a step of the reference reader -/
theorem stepFixed_spec (c : Chunk) (hpos : ∀ r ∈ c.rows, 0 < r) (s : St) (op : Op) (h : SInv c s) :
    SpecOK c (npos c.rows s) op (npos c.rows (stepFixed c s op).1) (stepFixed c s op).2 := by
  cases op with
  | seek k =>
    rcases (seekFixed_spec c s k h).2 with ⟨h1, h2, h3⟩ | ⟨h1, h2, h3⟩
    · refine Or.inl ⟨h1, ?_⟩
      show npos c.rows (seekFixed c s k).1 = some k
      rw [npos_of_lost_false _ _ h2, h3]
    · refine Or.inr ⟨h1, ?_, h3⟩
      show npos c.rows (seekFixed c s k).1 = npos c.rows s
      rw [h2]
  | readPage =>
    have hr := readPage_spec c.rows c.bad hpos s h.1
    cases hl : s.lost with
    | false =>
      rw [npos_of_lost_false _ _ hl]
      rw [hl] at hr
      exact readOK_spec c _ _ hr
    | true =>
      rw [hl] at hr
      have := readOK_lost _ _ _ _ hr
      show SpecOK c (npos c.rows s) .readPage (npos c.rows (readPage c.rows c.bad s).1) _
      simp [npos, hl, this, SpecOK]
  | loadIndex => exact ⟨rfl, rfl⟩

/-! ### the code before the repairs, away from the paths on which it goes wrong -/

/-- the op does not take a path on which the unchanged code goes wrong: no seek after a failed
    read; a seek (with offset index) does not target the page recorded as cached; the offset index
    is not loaded lazily after the no-index path numbered the pages of a chunk with a dictionary -/
def safeOp (c : Chunk) (s : St) : Op → Bool
  | .seek k => !s.lost && (!s.hasIndex || (match s.last with
      | some (li, _) => target c.rows k != li
      | none => true))
  | .readPage => true
  | .loadIndex => !c.dict || s.hasIndex

def SafeOp (c : Chunk) (s : St) (op : Op) : Prop := safeOp c s op = true

theorem safeOp_seek (c : Chunk) (s : St) (k : Nat) (h : SafeOp c s (.seek k)) :
    s.lost = false ∧ (s.hasIndex = true → ∀ li lp, s.last = some (li, lp) → target c.rows k ≠ li) := by
  simp only [SafeOp, safeOp, Bool.and_eq_true, Bool.not_eq_true', Bool.or_eq_true] at h
  refine ⟨h.1, ?_⟩
  intro hi li lp hl
  have h2 := h.2
  simp [hi, hl] at h2
  exact h2

theorem safeOp_load (c : Chunk) (s : St) (h : SafeOp c s .loadIndex) : c.dict = false ∨ s.hasIndex = true := by
  simp [SafeOp, safeOp] at h
  exact h

/-- invariant of the unchanged reader along safe histories: the flag is never set, and (while no
    read has failed) page numbers agree whenever they can ever be looked at (there is an offset
    index, or one may still be loaded because the chunk has no dictionary) -/
def AInv (c : Chunk) (s : St) : Prop :=
  RInv c.rows c.bad s ∧ s.serve = false ∧
  (s.lost = false → (s.hasIndex = true ∨ c.dict = false) → Agree s)

theorem seekAsis_spec (c : Chunk) (s : St) (k : Nat) (h : AInv c s) (hs : SafeOp c s (.seek k)) :
    AInv c (seekAsis c s k).1 ∧
    (((seekAsis c s k).2 = .ok ∧ (seekAsis c s k).1.lost = false ∧ next c.rows (seekAsis c s k).1 = k) ∨
     ((seekAsis c s k).2 = .err ∧ (seekAsis c s k).1 = s ∧ total c < k)) := by
  obtain ⟨⟨hidx, hlast, hserve⟩, hsv, hagree0⟩ := h
  obtain ⟨hlost, hsafe0⟩ := safeOp_seek c s k hs
  have hagree := hagree0 hlost
  unfold seekAsis
  split
  · rename_i hni
    refine ⟨⟨⟨by simp, hlast, by simp [hsv]⟩, hsv, ?_⟩, Or.inl ⟨rfl, hlost, ?_⟩⟩
    · intro _ hp
      have hdict : c.dict = false := by
        rcases hp with hp | hp
        · simp [hni] at hp
        · exact hp
      obtain ⟨_, hag⟩ := hagree (Or.inr hdict)
      exact ⟨by simp [hdict], hag⟩
    · simp [next, hsv, firstRow_zero]
  · rename_i hi
    have hi' : s.hasIndex = true := by simpa using hi
    obtain ⟨hpos, hag⟩ := hagree (Or.inl hi')
    split
    · rename_i he
      have hnil : c.rows = [] := by simpa using he
      split
      · rename_i hk
        refine ⟨⟨⟨hidx, hlast, hserve⟩, hsv, hagree0⟩, Or.inl ⟨rfl, hlost, ?_⟩⟩
        simp [next, hsv, hnil, firstRow, hk]
      · rename_i hk
        refine ⟨⟨⟨hidx, hlast, hserve⟩, hsv, hagree0⟩, Or.inr ⟨rfl, rfl, ?_⟩⟩
        simp [total, hnil]; omega
    · have ht := target_spec c.rows k
      have hsafe := hsafe0 hi'
      generalize hT : target c.rows k = t at ht hsafe
      have htn : t ≤ c.rows.length := by omega
      simp only []
      cases hl : s.last with
      | none =>
        simp only []
        split
        · rename_i he
          refine ⟨⟨⟨hidx, by simp [hl], by simp [hsv]⟩, hsv, fun _ _ => ⟨hpos, by simp [hl]⟩⟩, Or.inl ⟨rfl, hlost, ?_⟩⟩
          simp [next, hsv, ← hpos, he]; omega
        · refine ⟨⟨⟨htn, by simp [hl], by simp [hsv]⟩, hsv, fun _ _ => ⟨rfl, by simp [hl]⟩⟩, Or.inl ⟨rfl, hlost, ?_⟩⟩
          simp [next, hsv]; omega
      | some p =>
        obtain ⟨li, lp⟩ := p
        have hne := hsafe li lp hl
        simp only []
        split
        · rename_i he; exact absurd he hne
        · split
          · rename_i he
            refine ⟨⟨⟨hidx, by simpa [hl] using hlast, by simp [hsv]⟩, hsv, fun _ _ => ⟨hpos, by simpa [hl] using hag⟩⟩, Or.inl ⟨rfl, hlost, ?_⟩⟩
            simp [next, hsv, ← hpos, he]; omega
          · refine ⟨⟨⟨htn, by simpa [hl] using hlast, by simp [hsv]⟩, hsv, fun _ _ => ⟨rfl, by simpa [hl] using hag⟩⟩, Or.inl ⟨rfl, hlost, ?_⟩⟩
            simp [next, hsv]; omega

theorem init_ainv (c : Chunk) (hi : Bool) : AInv c (init hi) := by
  simp [AInv, RInv, Agree, init]

theorem stepAsis_inv (c : Chunk) (hpos : ∀ r ∈ c.rows, 0 < r) (s : St) (op : Op) (h : AInv c s)
    (hs : SafeOp c s op) : AInv c (stepAsis c s op).1 := by
  cases op with
  | seek k => exact (seekAsis_spec c s k h hs).1
  | readPage =>
    have hr := readPage_spec c.rows c.bad hpos s h.1
    refine ⟨hr.1, hr.2.1, ?_⟩
    intro hl hp
    have : (readPage c.rows c.bad s).1.hasIndex = s.hasIndex := readPage_hasIndex c.rows c.bad s
    simp only [stepAsis] at hp hl
    rw [this] at hp
    exact readPage_agree c.rows c.bad s h.1 (fun hl0 => h.2.2 hl0 hp) hl
  | loadIndex =>
    obtain ⟨⟨h1, h2, h3⟩, h4, h5⟩ := h
    refine ⟨⟨h1, h2, h3⟩, h4, fun hl _ => ?_⟩
    have hp : s.hasIndex = true ∨ c.dict = false := by
      rcases safeOp_load c s hs with hs | hs
      · exact Or.inr hs
      · exact Or.inl hs
    exact h5 hl hp

theorem stepAsis_spec (c : Chunk) (hpos : ∀ r ∈ c.rows, 0 < r) (s : St) (op : Op) (h : AInv c s)
    (hs : SafeOp c s op) :
    SpecOK c (npos c.rows s) op (npos c.rows (stepAsis c s op).1) (stepAsis c s op).2 := by
  cases op with
  | seek k =>
    rcases (seekAsis_spec c s k h hs).2 with ⟨h1, h2, h3⟩ | ⟨h1, h2, h3⟩
    · refine Or.inl ⟨h1, ?_⟩
      show npos c.rows (seekAsis c s k).1 = some k
      rw [npos_of_lost_false _ _ h2, h3]
    · refine Or.inr ⟨h1, ?_, h3⟩
      show npos c.rows (seekAsis c s k).1 = npos c.rows s
      rw [h2]
  | readPage =>
    have hr := readPage_spec c.rows c.bad hpos s h.1
    cases hl : s.lost with
    | false =>
      rw [npos_of_lost_false _ _ hl]
      rw [hl] at hr
      exact readOK_spec c _ _ hr
    | true =>
      rw [hl] at hr
      have := readOK_lost _ _ _ _ hr
      show SpecOK c (npos c.rows s) .readPage (npos c.rows (readPage c.rows c.bad s).1) _
      simp [npos, hl, this, SpecOK]
  | loadIndex => exact ⟨rfl, rfl⟩

/-! ### histories -/

/-- every op of the history is admissible (`ok`) in the state it is applied to -/
def AllOk (step : St → Op → St × Out) (ok : St → Op → Bool) : St → List Op → Bool
  | _, [] => true
  | s, op :: ops => ok s op && AllOk step ok (step s op).1 ops

/-- a step-wise refinement lifts to whole histories -/
theorem run_refines (c : Chunk) (step : St → Op → St × Out) (I : St → Prop) (ok : St → Op → Bool)
    (hinv : ∀ s op, I s → ok s op = true → I (step s op).1)
    (hspec : ∀ s op, I s → ok s op = true →
      SpecOK c (npos c.rows s) op (npos c.rows (step s op).1) (step s op).2) :
    ∀ (ops : List Op) (s : St), I s → AllOk step ok s ops = true →
      RunOK c (npos c.rows s) ops (outs step s ops)
  | [], s, _, _ => RunOK.nil _
  | op :: ops, s, hI, hok => by
    simp only [AllOk, Bool.and_eq_true] at hok
    have ih := run_refines c step I ok hinv hspec ops (step s op).1 (hinv s op hI hok.1) hok.2
    exact RunOK.cons (hspec s op hI hok.1) ih

theorem allOk_true (step : St → Op → St × Out) : ∀ (ops : List Op) (s : St),
    AllOk step (fun _ _ => true) s ops = true
  | [], _ => rfl
  | op :: ops, s => by simp [AllOk, allOk_true step ops]

theorem npos_init (rows : List Nat) (hi : Bool) : npos rows (init hi) = some 0 := by
  simp [npos, next, init, firstRow_zero]

/-- states the repaired reader can be in -/
inductive ReachFixed (c : Chunk) (hi : Bool) : St → Prop where
  | init : ReachFixed c hi (init hi)
  | step {s : St} (op : Op) : ReachFixed c hi s → ReachFixed c hi (stepFixed c s op).1

theorem reachFixed_inv (c : Chunk) (hpos : ∀ r ∈ c.rows, 0 < r) (hi : Bool) (s : St)
    (h : ReachFixed c hi s) : SInv c s := by
  induction h with
  | init => exact init_inv c hi
  | step op _ ih => exact stepFixed_inv c hpos _ op ih

/-- decidable check of a trace against the reference reader (sound for `RunOK`) -/
def checkRun (c : Chunk) : Option Nat → List Op → List Out → Bool
  | _, [], [] => true
  | _, .seek k :: ops, .ok :: os => checkRun c (some k) ops os
  | n, .seek k :: ops, .err :: os => decide (total c < k) && checkRun c n ops os
  | n, .loadIndex :: ops, .ok :: os => checkRun c n ops os
  | none, .readPage :: ops, _ :: os => checkRun c none ops os
  | some n, .readPage :: ops, .corrupt :: os =>
    c.bad.any (fun q => decide (q < c.rows.length ∧ firstRow c.rows q ≤ n)) && checkRun c none ops os
  | some n, .readPage :: ops, .eof :: os => decide (total c ≤ n) && checkRun c (some n) ops os
  | some n, .readPage :: ops, .page p st len :: os =>
    decide (n < total c ∧ p = target c.rows n ∧ p ∉ c.bad ∧ st = n ∧ len = firstRow c.rows (p + 1) - n) &&
    checkRun c (some (firstRow c.rows (p + 1))) ops os
  | _, _, _ => false

theorem runOK_check (c : Chunk) : ∀ (n : Option Nat) (ops : List Op) (os : List Out),
    RunOK c n ops os → checkRun c n ops os = true := by
  intro n ops os h
  induction h with
  | nil n => cases n <;> rfl
  | @cons n op n' out ops os h1 _ ih =>
    cases op with
    | seek k =>
      rcases h1 with ⟨rfl, rfl⟩ | ⟨rfl, rfl, h3⟩
      · simpa [checkRun] using ih
      · simp [checkRun, h3, ih]
    | loadIndex =>
      obtain ⟨rfl, rfl⟩ := h1
      simpa [checkRun] using ih
    | readPage =>
      cases n with
      | none =>
        simp only [SpecOK] at h1
        subst h1
        simpa [checkRun] using ih
      | some n =>
        simp only [SpecOK] at h1
        cases out with
        | ok => exact absurd h1 (by simp)
        | err => exact absurd h1 (by simp)
        | corrupt =>
          obtain ⟨rfl, q, hq, h2, h3⟩ := h1
          simp only [checkRun, Bool.and_eq_true]
          exact ⟨List.any_eq_true.mpr ⟨q, hq, by simp [h2, h3]⟩, ih⟩
        | eof =>
          obtain ⟨h2, rfl⟩ := h1
          simp [checkRun, h2, ih]
        | page p st len =>
          obtain ⟨a, b, d, e, f, rfl, _, _⟩ := h1
          simp only [checkRun, Bool.and_eq_true]
          exact ⟨by simp [a, ← b, d, e, f], ih⟩

end PqModel.Seek
