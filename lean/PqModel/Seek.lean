namespace PqModel.Seek

/-! Spike: FilePages.SeekToRow / ReadPage at page granularity (offset-index path, v2 pages). -/

structure St where
  index : Nat                 -- f.index: believed index of the next page in the stream
  pos   : Nat                 -- actual stream position, in pages
  skip  : Nat                 -- f.skip
  last  : Option (Nat × Nat)  -- (f.lastPageIndex, page actually cached in f.lastPage)
  serve : Bool                -- f.serveLastPage
deriving Repr, DecidableEq

def firstRow (rows : List Nat) (i : Nat) : Nat := (rows.take i).sum

/-- sort.Search(len, firstRow(i) > k) - 1, as a linear scan -/
def findPage (rows : List Nat) (k : Nat) : Nat → Nat → Nat
  | 0, acc => acc
  | fuel + 1, acc => if acc + 1 < rows.length ∧ firstRow rows (acc + 1) ≤ k then findPage rows k fuel (acc + 1) else acc

def target (rows : List Nat) (k : Nat) : Nat := findPage rows k rows.length 0

inductive Out where
  | eof
  | rows (start len : Nat)
deriving Repr, DecidableEq

/-- the code as it stands (F11): the cached-page shortcut returns before touching the stream -/
def seekBuggy (rows : List Nat) (s : St) (k : Nat) : St :=
  let t := target rows k
  let s := { s with skip := k - firstRow rows t }
  match s.last with
  | some (li, _) =>
    if t = li then { s with serve := true }
    else if s.index = t then s else { s with index := t, pos := t }
  | none => if s.index = t then s else { s with index := t, pos := t }

/-- repaired seek: clear the flag; when serving the cached page, park the stream on the next page -/
def seekFixed (rows : List Nat) (s : St) (k : Nat) : St :=
  let t := target rows k
  let s := { s with skip := k - firstRow rows t, serve := false }
  match s.last with
  | some (li, _) =>
    if t = li then
      (if s.index = t + 1 then { s with serve := true } else { s with serve := true, index := t + 1, pos := t + 1 })
    else if s.index = t then s else { s with index := t, pos := t }
  | none => if s.index = t then s else { s with index := t, pos := t }

/-- read loop over the stream (after the cached-page preamble) -/
def readLoop (rows : List Nat) : Nat → St → St × Out
  | 0, s => (s, .eof)
  | fuel + 1, s =>
    match rows[s.pos]? with
    | none => (s, .eof)
    | some nr =>
      let s' := { s with last := some (s.index, s.pos), index := s.index + 1, pos := s.pos + 1 }
      if s.skip = 0 then (s', .rows (firstRow rows s.pos) nr)
      else if nr ≤ s.skip then readLoop rows fuel { s' with skip := s.skip - nr }
      else ({ s' with skip := 0 }, .rows (firstRow rows s.pos + s.skip) (nr - s.skip))

def readPage (rows : List Nat) (s : St) : St × Out :=
  match s.serve, s.last with
  | true, some (li, lp) =>
    let s := { s with serve := false, index := li + 1 }
    let nr := rows.getD lp 0
    if s.skip < nr then ({ s with skip := 0 }, .rows (firstRow rows lp + s.skip) (nr - s.skip))
    else readLoop rows (rows.length + 1) { s with skip := s.skip - nr }
  | _, _ => readLoop rows (rows.length + 1) s

def init : St := { index := 0, pos := 0, skip := 0, last := none, serve := false }

-- F11 on the model of the unchanged code: pages of 10 rows
def pages10 : List Nat := List.replicate 10 10
def afterBuggy : St × Out :=
  let s := seekBuggy pages10 init 20
  let (s, _) := readPage pages10 s
  let s := seekBuggy pages10 s 70
  let s := seekBuggy pages10 s 25
  let (s, _) := readPage pages10 s       -- rows 25..29
  readPage pages10 s                      -- should be rows 30..39
example : afterBuggy.2 = .rows 70 10 := by decide
def afterFixed : St × Out :=
  let s := seekFixed pages10 init 20
  let (s, _) := readPage pages10 s
  let s := seekFixed pages10 s 70
  let s := seekFixed pages10 s 25
  let (s, _) := readPage pages10 s
  readPage pages10 s
example : afterFixed.2 = .rows 30 10 := by decide

/-! ### refinement proof for the repaired seek -/

theorem firstRow_succ : ∀ (rows : List Nat) (i : Nat) (nr : Nat), rows[i]? = some nr →
    firstRow rows (i + 1) = firstRow rows i + nr
  | [], i, nr, h => by simp at h
  | r :: rs, 0, nr, h => by
    simp at h; subst h; simp [firstRow]
  | r :: rs, i + 1, nr, h => by
    have h' : rs[i]? = some nr := by simpa using h
    have ih := firstRow_succ rs i nr h'
    simp only [firstRow, List.take_succ_cons, List.sum_cons] at ih ⊢
    omega

theorem firstRow_all (rows : List Nat) : ∀ i, rows.length ≤ i → firstRow rows i = rows.sum := by
  intro i hi; simp [firstRow, List.take_of_length_le hi]

theorem firstRow_mono (rows : List Nat) : ∀ i, firstRow rows i ≤ rows.sum := by
  intro i
  induction rows generalizing i with
  | nil => simp [firstRow]
  | cons r rs ih =>
    cases i with
    | zero => simp [firstRow]
    | succ i => have := ih i; simp only [firstRow, List.take_succ_cons, List.sum_cons] at this ⊢; omega

def SInv (rows : List Nat) (s : St) : Prop :=
  s.pos = s.index ∧ s.index ≤ rows.length ∧
  (∀ li lp, s.last = some (li, lp) → li = lp ∧ lp < rows.length) ∧
  (s.serve = true → ∃ li lp, s.last = some (li, lp) ∧ s.index = li + 1)

/-- abstraction: the next row this reader will deliver -/
def next (rows : List Nat) (s : St) : Nat :=
  match s.serve, s.last with
  | true, some (li, _) => firstRow rows li + s.skip
  | _, _ => firstRow rows s.index + s.skip

theorem findPage_spec (rows : List Nat) (k : Nat) : ∀ fuel acc, firstRow rows acc ≤ k →
    (acc < rows.length ∨ acc = 0) →
    firstRow rows (findPage rows k fuel acc) ≤ k ∧
      (findPage rows k fuel acc < rows.length ∨ findPage rows k fuel acc = 0)
  | 0, acc, h, hb => ⟨h, hb⟩
  | fuel + 1, acc, h, hb => by
    simp only [findPage]
    split
    · rename_i hc
      exact findPage_spec rows k fuel (acc + 1) hc.2 (Or.inl hc.1)
    · exact ⟨h, hb⟩

theorem target_spec (rows : List Nat) (k : Nat) :
    firstRow rows (target rows k) ≤ k ∧ (target rows k < rows.length ∨ target rows k = 0) :=
  findPage_spec rows k rows.length 0 (by simp [firstRow]) (Or.inr rfl)

theorem seekFixed_spec (rows : List Nat) (s : St) (k : Nat) (h : SInv rows s) :
    SInv rows (seekFixed rows s k) ∧ next rows (seekFixed rows s k) = k := by
  obtain ⟨hpos, hidx, hlast, hserve⟩ := h
  have ht := target_spec rows k
  generalize hT : target rows k = t at ht
  have htn : t ≤ rows.length := by omega
  unfold seekFixed
  simp only [hT]
  cases hl : s.last with
  | none =>
    simp only []
    split
    · rename_i he
      refine ⟨⟨hpos, hidx, by simp [hl], by simp⟩, ?_⟩
      simp [next, he]; omega
    · refine ⟨⟨rfl, htn, by simp [hl], by simp⟩, ?_⟩
      simp [next]; omega
  | some p =>
    obtain ⟨li, lp⟩ := p
    have hll := hlast li lp hl
    simp only []
    split
    · rename_i he
      subst he
      split
      · rename_i hi
        refine ⟨⟨hpos, hidx, by simpa [hl] using hll, fun _ => ⟨t, lp, by simp [hl], hi⟩⟩, ?_⟩
        simp [next, hl]; omega
      · refine ⟨⟨rfl, (by show t + 1 ≤ rows.length; omega), by simpa [hl] using hll, fun _ => ⟨t, lp, by simp [hl], rfl⟩⟩, ?_⟩
        simp [next, hl]; omega
    · split
      · rename_i he
        refine ⟨⟨hpos, hidx, by simpa [hl] using hll, by simp⟩, ?_⟩
        simp [next, he]; omega
      · refine ⟨⟨rfl, htn, by simpa [hl] using hll, by simp⟩, ?_⟩
        simp [next]; omega

def Spec (rows : List Nat) (start : Nat) (r : St × Out) : Prop :=
  SInv rows r.1 ∧
  match r.2 with
  | .rows st len => st = start ∧ 0 < len ∧ next rows r.1 = st + len ∧ st + len ≤ rows.sum
  | .eof => rows.sum ≤ start

theorem readLoop_spec (rows : List Nat) (hpos : ∀ r ∈ rows, 0 < r) :
    ∀ (fuel : Nat) (s : St), s.pos = s.index → s.index ≤ rows.length → s.serve = false →
      (∀ li lp, s.last = some (li, lp) → li = lp ∧ lp < rows.length) →
      rows.length - s.pos < fuel →
      Spec rows (firstRow rows s.pos + s.skip) (readLoop rows fuel s)
  | 0, s, _, _, _, _, hf => by omega
  | fuel + 1, s, hp, hi, hs, hl, hf => by
    simp only [readLoop]
    cases hr : rows[s.pos]? with
    | none =>
      have hge : rows.length ≤ s.pos := by
        rcases Nat.lt_or_ge s.pos rows.length with h | h
        · simp [List.getElem?_eq_getElem h] at hr
        · exact h
      refine ⟨⟨hp, hi, hl, by simp [hs]⟩, ?_⟩
      simp only []
      rw [firstRow_all rows s.pos hge]; omega
    | some nr =>
      have hlt : s.pos < rows.length := by
        rcases Nat.lt_or_ge s.pos rows.length with h | h
        · exact h
        · simp [List.getElem?_eq_none h] at hr
      have hnr : 0 < nr := hpos nr (List.mem_of_getElem? hr)
      have hfs := firstRow_succ rows s.pos nr hr
      have hmono := firstRow_mono rows (s.pos + 1)
      simp only []
      split
      · rename_i h0
        refine ⟨⟨by simp [hp], by simp; omega, ?_, by simp [hs]⟩, ?_⟩
        · intro li lp h; simp at h; omega
        · simp only [next, hs]
          simp [h0]
          rw [← hp]; omega
      · split
        · rename_i h0 hle
          have := readLoop_spec rows hpos fuel
            { s with last := some (s.index, s.pos), index := s.index + 1, pos := s.pos + 1, skip := s.skip - nr }
            (by simp [hp]) (by simp; omega) (by simp [hs]) (by intro li lp h; simp at h; omega) (by simp; omega)
          have he : firstRow rows (s.pos + 1) + (s.skip - nr) = firstRow rows s.pos + s.skip := by omega
          simpa [he] using this
        · rename_i h0 hgt
          refine ⟨⟨by simp [hp], by simp; omega, ?_, by simp [hs]⟩, ?_⟩
          · intro li lp h; simp at h; omega
          · simp only [next, hs]
            simp
            rw [← hp]; omega

theorem readPage_spec (rows : List Nat) (hpos : ∀ r ∈ rows, 0 < r) (s : St) (h : SInv rows s) :
    Spec rows (next rows s) (readPage rows s) := by
  obtain ⟨hp, hi, hl, hsv⟩ := h
  unfold readPage
  cases hs : s.serve with
  | false =>
    have := readLoop_spec rows hpos (rows.length + 1) s hp hi hs hl (by omega)
    have hn : next rows s = firstRow rows s.pos + s.skip := by simp [next, hs, hp]
    cases hlast : s.last <;> simpa [hn] using this
  | true =>
    obtain ⟨li, lp, hlast, hidx⟩ := hsv hs
    obtain ⟨hEq, hlp⟩ := hl li lp hlast
    subst hEq
    have hn : next rows s = firstRow rows li + s.skip := by simp [next, hs, hlast]
    rw [hn]
    simp only [hlast]
    have hget : rows[li]? = some (rows.getD li 0) := by
      simp [List.getD, List.getElem?_eq_getElem hlp]
    generalize rows.getD li 0 = nr at hget
    have hnr : 0 < nr := hpos _ (List.mem_of_getElem? hget)
    have hfs := firstRow_succ rows li _ hget
    have hmono := firstRow_mono rows (li + 1)
    split
    · rename_i hlt
      refine ⟨⟨by simp; omega, by simp; omega, ?_, by simp⟩, ?_⟩
      · intro a b hab
        simp at hab
        omega
      · simp only [next]
        simp
        omega
    · rename_i hge
      have := readLoop_spec rows hpos (rows.length + 1)
        { s with serve := false, index := li + 1, skip := s.skip - nr }
        (by simp; omega) (by simp; omega) (by simp)
        (by
          intro a b hab
          have : s.last = some (a, b) := by simpa using hab
          rw [hlast] at this
          simp at this
          omega)
        (by simp; omega)
      have he : firstRow rows s.pos + (s.skip - nr) = firstRow rows li + s.skip := by
        rw [hp, hidx]; omega
      simpa [he, hlast] using this

/-- C08 core (page level, offset-index path, repaired seek): after `seek k`, successive reads deliver
    consecutive row ranges starting exactly at `k`; EOF only at the end. -/
theorem seek_then_read (rows : List Nat) (hpos : ∀ r ∈ rows, 0 < r) (s : St) (h : SInv rows s) (k : Nat) :
    Spec rows k (readPage rows (seekFixed rows s k)) := by
  have hs := seekFixed_spec rows s k h
  have := readPage_spec rows hpos _ hs.1
  rwa [hs.2] at this

theorem init_inv (rows : List Nat) : SInv rows init := by
  simp [SInv, init]

#print axioms seek_then_read

end PqModel.Seek
