import PqModel.AsyncFair

/-! Termination of `Close` (page.go:163-184) in the asyncPages transition system of `Async.lean`.

While the consumer is inside `Close` (`cpc = closing`: `init` and `done` are closed, the consumer
ranges over `read`) the only cycle of the transition system is

    top --bodyOffer--> send --closeRecv--> top

taken when the producer's `select` (page.go:308-322) chooses `read <-` (the range loop of `Close`
is a ready receiver) although its `<-done` case is ready as well. Every other step decreases the
ranking function `psi` (producer program counter, pending send, seek buffered in the 1-slot
channel, pending `continue` of the loop body); a `closeRecv` raises it by at most 2. Hence a `Close`
that has received `r` page items has lasted at most `9 + 3·r` steps, and a `Close` that never returns
receives infinitely many items, i.e. the select starves its ready `done` case forever.

Weak fairness is NOT enough: `selDone` is enabled only while the producer is in the select
(`ppc = send`), not while it runs the loop body, so it is never *continuously* enabled (`spinRun`). -/
namespace PqModel.Async

def isCloseEnd : Ev → Bool
  | .closeEnd => true
  | _ => false

def isCloseRecv : Ev → Bool
  | .closeRecv => true
  | _ => false

/-- number of items the range loop of `Close` received from the producer's select -/
def recvs (es : List Ev) : Nat := (es.filter isCloseRecv).length

/-- steps of the producer goroutine alone (no rendezvous) -/
def isProducerEv : Ev → Bool
  | .initPass | .initDone | .pollTake _ _ | .pollEmpty | .bodyCont | .bodyOffer _ _ | .selTake _ _
  | .selDone => true
  | _ => false

/-- a seek buffered in the 1-slot channel costs one more round of the producer (`selTake`/`pollTake`,
    then the `continue` of the loop body, then a new offer) -/
def seekPending (g : G) : Nat := if g.seekCh.isSome then 3 else 0

/-- the ranking function of a closing state -/
def psi (U : Under) (g : G) : Nat :=
  match g.ppc with
  | .waitInit => 6 + seekPending g
  | .poll => 5 + seekPending g
  | .top => 3 + seekPending g + (if (body U g.loc).2 = none then 1 else 0)
  | .send _ => 2 + seekPending g
  | .final => 1
  | .exited => 0

theorem psi_le {U g} : psi U g ≤ 9 := by
  simp only [psi, seekPending]
  split <;> (try split) <;> (try split) <;> omega

/-- every step taken while the consumer is in `Close`, other than the return of `Close`, keeps it
    there and decreases the rank, except `closeRecv`, which raises it by at most 2. (No invariant
    of the reachable states is needed.) -/
theorem psi_step {U g e g'} (hcl : g.cpc = .closing) (h : Step U g e g') (he : isCloseEnd e = false) :
    g'.cpc = .closing ∧
      (if isCloseRecv e then psi U g' ≤ psi U g + 2 else psi U g' + 1 ≤ psi U g) := by
  cases h
  case readBegin h1 => rw [hcl] at h1; cases h1
  case handoff h1 _ => rw [hcl] at h1; cases h1
  case deliver h1 _ => rw [hcl] at h1; cases h1
  case drop h1 _ => rw [hcl] at h1; cases h1
  case readClosed h1 => rw [hcl] at h1; cases h1
  case seekPollDrain h1 _ => rw [hcl] at h1; cases h1
  case seekPollBump h1 _ => rw [hcl] at h1; cases h1
  case seekSend h1 => rw [hcl] at h1; cases h1
  case seekClosed h1 => rw [hcl] at h1; cases h1
  case closeBegin h1 => rw [hcl] at h1; cases h1
  case closeRecv it _ h2 =>
    refine ⟨hcl, ?_⟩
    simp only [isCloseRecv, psi, seekPending, h2]
    simp
    phi_arith
  case closeFinal _ h2 =>
    refine ⟨hcl, ?_⟩
    simp [isCloseRecv, psi, h2]
  case closeEnd => simp [isCloseEnd] at he
  case closeAgain h1 => rw [hcl] at h1; cases h1
  case initPass h1 _ =>
    refine ⟨hcl, ?_⟩
    simp only [isCloseRecv, psi, seekPending, h1]
    simp
    phi_arith
  case initDone h1 _ =>
    refine ⟨hcl, ?_⟩
    simp only [isCloseRecv, psi, seekPending, h1]
    simp
    omega
  case pollTake k v h1 h2 =>
    refine ⟨hcl, ?_⟩
    simp only [isCloseRecv, psi, seekPending, h1, h2]
    simp
    split <;> omega
  case pollEmpty h1 h2 =>
    refine ⟨hcl, ?_⟩
    simp only [isCloseRecv, psi, seekPending, h1, h2]
    simp
    split <;> omega
  case bodyCont l h1 h2 =>
    refine ⟨hcl, ?_⟩
    obtain ⟨l2, r, h3⟩ := body_none_then_some h2
    simp only [isCloseRecv, psi, seekPending, h1, h2, h3]
    simp
  case bodyOffer l r h1 h2 =>
    refine ⟨hcl, ?_⟩
    simp only [isCloseRecv, psi, seekPending, h1, h2]
    simp
    phi_arith
  case selTake it k v h1 h2 =>
    refine ⟨hcl, ?_⟩
    simp only [isCloseRecv, psi, seekPending, h1, h2]
    simp
    split <;> omega
  case selDone it h1 _ =>
    refine ⟨hcl, ?_⟩
    simp only [isCloseRecv, psi, seekPending, h1]
    simp

/-- bounded form: a `Close` that has not returned yet and has received `r` items has lasted at most
    `psi g + 3·r ≤ 9 + 3·r` steps -/
theorem close_bounded {U g es g'} (hcl : g.cpc = .closing) (hp : Path U g es g')
    (hne : ∀ e ∈ es, isCloseEnd e = false) :
    es.length + psi U g' ≤ psi U g + 3 * recvs es ∧ g'.cpc = .closing := by
  induction hp with
  | nil => simp [recvs, hcl]
  | @cons g e g1 es g2 s p ih =>
    obtain ⟨hc1, hpsi⟩ := psi_step hcl s (hne e List.mem_cons_self)
    obtain ⟨i1, i2⟩ := ih hc1 (fun e he => hne e (List.mem_cons_of_mem _ he))
    refine ⟨?_, i2⟩
    simp only [recvs, List.filter_cons, List.length_cons] at i1 ⊢
    by_cases hr : isCloseRecv e = true
    · simp only [hr, if_true, List.length_cons] at hpsi ⊢; omega
    · simp only [hr] at hpsi ⊢; simp at hpsi ⊢; omega

theorem Run.prefix_filter_le {U} (ρ : Run U) (p : Ev → Bool) (N : Nat)
    (hN : ∀ n, N ≤ n → p (ρ.ev n) = false) (n : Nat) :
    ((ρ.prefixEvents n).filter p).length ≤ N := by
  induction n with
  | zero => simp [Run.prefixEvents]
  | succ n ih =>
    simp only [Run.prefixEvents, List.filter_append, List.length_append] at ih ⊢
    by_cases hn : N ≤ n
    · simp [hN n hn]; exact ih
    · have : (ρ.prefixEvents n).length = n := ρ.prefix_length n
      have hle : (List.filter p (ρ.prefixEvents n)).length ≤ n := by
        have := List.length_filter_le p (ρ.prefixEvents n); omega
      have h1 : (List.filter p [ρ.ev n]).length ≤ 1 := by
        have := List.length_filter_le p [ρ.ev n]; simpa using this
      omega

theorem Run.reachable {U} (ρ : Run U) (hr : Reachable U (ρ.st 0)) (n : Nat) : Reachable U (ρ.st n) := by
  obtain ⟨es0, p0⟩ := hr
  exact ⟨_, p0.append (ρ.prefix_path n)⟩

/-- in an infinite run in which `Close` receives no item from index `N` on, `Close` returns before
    index `10 + 3·N` -/
theorem close_returns_of_fin_recvs {U} (ρ : Run U) (hcl : (ρ.st 0).cpc = .closing) (N : Nat)
    (hN : ∀ n, N ≤ n → isCloseRecv (ρ.ev n) = false) :
    ∃ n, n < 10 + 3 * N ∧ ρ.ev n = .closeEnd := by
  apply Classical.byContradiction
  intro hno
  have hne : ∀ e ∈ ρ.prefixEvents (10 + 3 * N), isCloseEnd e = false := by
    intro e he
    obtain ⟨m, hm, rfl⟩ := ρ.prefix_mem _ e he
    cases hd : isCloseEnd (ρ.ev m)
    · rfl
    · exfalso; apply hno; refine ⟨m, hm, ?_⟩
      revert hd; cases ρ.ev m <;> simp [isCloseEnd]
  have hb := (close_bounded hcl (ρ.prefix_path _) hne).1
  have hl := ρ.prefix_length (10 + 3 * N)
  have hd := ρ.prefix_filter_le isCloseRecv N hN (10 + 3 * N)
  have := psi_le (U := U) (g := ρ.st 0)
  simp only [recvs] at hb
  omega

/-! ### the `done` case of the select -/

/-- `selDone` is enabled: the producer is in the select of page.go:308-322 and `done` is closed -/
def DoneReady (g : G) : Prop := (∃ it, g.ppc = .send it) ∧ g.doneClosed = true

theorem selDone_enabled_iff {U g} : (∃ g', Step U g .selDone g') ↔ DoneReady g := by
  constructor
  · rintro ⟨g', h⟩
    cases h
    case selDone it h1 h2 => exact ⟨⟨it, h1⟩, h2⟩
  · rintro ⟨⟨it, h1⟩, h2⟩
    exact ⟨_, .selDone h1 h2⟩

theorem closeRecv_pre {U g g'} (h : Step U g .closeRecv g') :
    g.cpc = .closing ∧ ∃ it, g.ppc = .send it := by
  cases h
  case closeRecv it h1 h2 => exact ⟨h1, it, h2⟩

theorem selDone_post {U g g'} (h : Step U g .selDone g') : g'.ppc = .final := by
  cases h; rfl

/-- after `selDone` the only step is the rendezvous on the final item … -/
theorem closing_final_step {U g e g'} (hcl : g.cpc = .closing) (hp : g.ppc = .final)
    (h : Step U g e g') : e = .closeFinal ∧ g'.cpc = .closing ∧ g'.ppc = .exited := by
  cases h <;> first
    | (rename_i h1; rw [hcl] at h1; cases h1; done)
    | (rename_i h1 _; rw [hcl] at h1; cases h1; done)
    | (rename_i h1; rw [hp] at h1; cases h1; done)
    | (rename_i h1 _; rw [hp] at h1; cases h1; done)
    | (rename_i h1 h2; rw [hp] at h2; cases h2; done)
    | exact ⟨rfl, hcl, rfl⟩

/-- … and then the end of the range loop -/
theorem closing_exited_step {U g e g'} (hcl : g.cpc = .closing) (hp : g.ppc = .exited)
    (h : Step U g e g') : e = .closeEnd := by
  cases h <;> first
    | (rename_i h1; rw [hcl] at h1; cases h1; done)
    | (rename_i h1 _; rw [hcl] at h1; cases h1; done)
    | (rename_i h1; rw [hp] at h1; cases h1; done)
    | (rename_i h1 _; rw [hp] at h1; cases h1; done)
    | (rename_i h1 h2; rw [hp] at h2; cases h2; done)
    | rfl

theorem Run.closing_forever {U} (ρ : Run U) (hcl : (ρ.st 0).cpc = .closing)
    (hno : ∀ n, ρ.ev n ≠ .closeEnd) (n : Nat) : (ρ.st n).cpc = .closing := by
  induction n with
  | zero => exact hcl
  | succ n ih =>
    refine (psi_step ih (ρ.step n) ?_).1
    have := hno n
    revert this; cases ρ.ev n <;> simp [isCloseEnd]

/-- strong fairness of the `done` case is enough -/
theorem close_returns_of_fair_done {U} (ρ : Run U) (hr : Reachable U (ρ.st 0))
    (hcl : (ρ.st 0).cpc = .closing)
    (hf : (∀ N, ∃ n, N ≤ n ∧ DoneReady (ρ.st n)) → ∃ n, ρ.ev n = .selDone) :
    ∃ n, ρ.ev n = .closeEnd := by
  apply Classical.byContradiction
  intro hno
  have hno' : ∀ n, ρ.ev n ≠ .closeEnd := fun n h => hno ⟨n, h⟩
  have hcn := ρ.closing_forever hcl hno'
  by_cases hA : ∃ N, ∀ n, N ≤ n → ¬ DoneReady (ρ.st n)
  · obtain ⟨N, hN⟩ := hA
    have hrec : ∀ n, N ≤ n → isCloseRecv (ρ.ev n) = false := by
      intro n hn
      cases hq : isCloseRecv (ρ.ev n)
      · rfl
      · exfalso
        have hs := ρ.step n
        have hev : ρ.ev n = .closeRecv := by
          revert hq; cases ρ.ev n <;> simp [isCloseRecv]
        rw [hev] at hs
        obtain ⟨h1, it, h2⟩ := closeRecv_pre hs
        have hc := (data_reachable (ρ.reachable hr n)).1
        exact hN n hn ⟨⟨it, h2⟩, (hc.closing_done (Or.inl h1)).1⟩
    obtain ⟨n, _, hn⟩ := close_returns_of_fin_recvs ρ hcl N hrec
    exact hno ⟨n, hn⟩
  · have hB : ∀ N, ∃ n, N ≤ n ∧ DoneReady (ρ.st n) := by
      intro N
      apply Classical.byContradiction
      intro hc
      exact hA ⟨N, fun n hn hd => hc ⟨n, hn, hd⟩⟩
    obtain ⟨n, hn⟩ := hf hB
    have hs := ρ.step n
    rw [hn] at hs
    have hfin : (ρ.st (n + 1)).ppc = .final := selDone_post hs
    obtain ⟨_, _, hex⟩ := closing_final_step (hcn (n + 1)) hfin (ρ.step (n + 1))
    exact hno ⟨n + 2, closing_exited_step (hcn (n + 2)) hex (ρ.step (n + 2))⟩

/-! ### `Close` can always complete -/

theorem step_done_mono {U g e g'} (h : Step U g e g') (hd : g.doneClosed = true) :
    g'.doneClosed = true := by
  cases h <;> first | exact hd | rfl

/-- in a closing state with `done` closed some step other than `closeRecv` is enabled -/
theorem closing_progress {U g} (hcl : g.cpc = .closing) (hd : g.doneClosed = true) :
    ∃ e g', Step U g e g' ∧ isCloseRecv e = false := by
  rcases hpp : g.ppc with _ | _ | _ | it | _ | _
  · exact ⟨_, _, .initDone hpp hd, rfl⟩
  · rcases hs : g.seekCh with _ | ⟨k, v⟩
    · exact ⟨_, _, .pollEmpty hpp hs, rfl⟩
    · exact ⟨_, _, .pollTake hpp hs, rfl⟩
  · rcases hb : body U g.loc with ⟨l, _ | r⟩
    · exact ⟨_, _, .bodyCont hpp hb, rfl⟩
    · exact ⟨_, _, .bodyOffer hpp hb, rfl⟩
  · exact ⟨_, _, .selDone hpp hd, rfl⟩
  · exact ⟨_, _, .closeFinal hcl hpp, rfl⟩
  · exact ⟨_, _, .closeEnd hcl hpp, rfl⟩

theorem close_can_complete_aux {U} (n : Nat) : ∀ g, psi U g ≤ n → g.cpc = .closing →
    g.doneClosed = true →
    ∃ es g', Path U g (es ++ [.closeEnd]) g' ∧ es.length ≤ n ∧
      (∀ e ∈ es, isCloseRecv e = false) ∧ g'.cpc = .closed := by
  induction n with
  | zero =>
    intro g hn hcl hd
    have hp : g.ppc = .exited := by
      rcases hpp : g.ppc with _ | _ | _ | it | _ | _ <;> simp [psi, hpp] at hn
      rfl
    exact ⟨[], _, .cons (.closeEnd hcl hp) .nil, by simp, by simp, rfl⟩
  | succ n ih =>
    intro g hn hcl hd
    obtain ⟨e, g1, s, hq⟩ := closing_progress (U := U) hcl hd
    by_cases hce : isCloseEnd e = true
    · have hev : e = .closeEnd := by
        revert hce; cases e <;> simp [isCloseEnd]
      subst hev
      refine ⟨[], g1, .cons s .nil, by simp, by simp, ?_⟩
      cases s; rfl
    · have hce' : isCloseEnd e = false := by simpa using hce
      obtain ⟨hc1, hpsi⟩ := psi_step hcl s hce'
      simp only [hq] at hpsi
      obtain ⟨es, g', p, hl, hnr, hcd⟩ := ih g1 (by simp at hpsi; omega) hc1 (step_done_mono s hd)
      refine ⟨e :: es, g', .cons s p, by simp; omega, ?_, hcd⟩
      intro x hx
      simp only [List.mem_cons] at hx
      rcases hx with rfl | hx
      · exact hq
      · exact hnr x hx

/-! ### weak fairness is not enough: the spinning run -/

/-- the schedule that always lets the select choose `read <-`: one step -/
def spin (U : Under) (g : G) : G :=
  match g.ppc with
  | .top =>
    match (body U g.loc).2 with
    | some r => { g with loc := (body U g.loc).1, ppc := .send ⟨r, g.pver, g.nprod⟩, nprod := g.nprod + 1 }
    | none => { g with loc := (body U g.loc).1 }
  | .send it => { g with ppc := .top, released := it.id :: g.released }
  | _ => g

def spinEv (U : Under) (g : G) : Ev :=
  match g.ppc with
  | .top =>
    match (body U g.loc).2 with
    | some r => .bodyOffer r g.pver
    | none => .bodyCont
  | _ => .closeRecv

def Spinning (g : G) : Prop := g.cpc = .closing ∧ (g.ppc = .top ∨ ∃ it, g.ppc = .send it)

theorem spin_step {U g} (h : Spinning g) : Step U g (spinEv U g) (spin U g) ∧ Spinning (spin U g) := by
  obtain ⟨hcl, hp | ⟨it, hp⟩⟩ := h
  · rcases hb : body U g.loc with ⟨l, _ | r⟩
    · have := Step.bodyCont (U := U) hp hb
      simp only [spinEv, spin, hp, hb]
      rw [hp] at this
      exact ⟨this, hcl, Or.inl rfl⟩
    · have := Step.bodyOffer (U := U) hp hb
      simp only [spinEv, spin, hp, hb]
      exact ⟨this, hcl, Or.inr ⟨_, rfl⟩⟩
  · have := Step.closeRecv (U := U) hcl hp
    simp only [spinEv, spin, hp]
    exact ⟨this, hcl, Or.inl rfl⟩

def spinSt (U : Under) (g0 : G) : Nat → G
  | 0 => g0
  | n + 1 => spin U (spinSt U g0 n)

theorem spinSt_spinning {U g0} (h : Spinning g0) (n : Nat) : Spinning (spinSt U g0 n) := by
  induction n with
  | zero => exact h
  | succ n ih => exact (spin_step ih).2

/-- the run in which the producer's select never takes its `done` case -/
def spinRun (U : Under) (g0 : G) (h : Spinning g0) : Run U :=
  { st := spinSt U g0
    ev := fun n => spinEv U (spinSt U g0 n)
    step := fun n => (spin_step (spinSt_spinning h n)).1 }

/-- while the producer runs its loop body during `Close` nothing else is enabled -/
theorem closing_top_only {U g e g'} (hcl : g.cpc = .closing) (hp : g.ppc = .top)
    (h : Step U g e g') : e = spinEv U g := by
  cases h <;> first
    | (rename_i h1; rw [hcl] at h1; cases h1; done)
    | (rename_i h1 _; rw [hcl] at h1; cases h1; done)
    | (rename_i h1; rw [hp] at h1; cases h1; done)
    | (rename_i h1 _; rw [hp] at h1; cases h1; done)
    | (rename_i h1 h2; rw [hp] at h2; cases h2; done)
    | (rename_i h1 h2; simp [spinEv, hp, h2]; done)

/-- the loop body is reached again and again -/
theorem spin_top_again {U g0} (h : Spinning g0) (N : Nat) :
    ∃ n, N ≤ n ∧ n ≤ N + 1 ∧ (spinSt U g0 n).ppc = .top := by
  rcases (spinSt_spinning (U := U) h N).2 with hp | ⟨it, hp⟩
  · exact ⟨N, Nat.le_refl _, by omega, hp⟩
  · refine ⟨N + 1, by omega, Nat.le_refl _, ?_⟩
    simp only [spinSt, spin, hp]

/-- the state right after `Close` was called on a fresh reader and the producer passed its two
    initial selects: reachable whatever the wrapped reader is -/
def closingTop : G :=
  { init with cpc := .closing, initClosed := true, doneClosed := true, ppc := .top }

theorem closingTop_reachable {U} : Reachable U closingTop :=
  ⟨[.closeBegin, .initPass, .pollEmpty],
    .cons (.closeBegin rfl) (.cons (.initPass rfl rfl) (.cons (.pollEmpty rfl rfl) .nil))⟩

theorem closingTop_spinning : Spinning closingTop := ⟨rfl, Or.inl rfl⟩

/-! ### fairness notions (what the theorems of `Props/C15Close.lean` assume or refute) -/

def Enabled (U : Under) (g : G) (e : Ev) : Prop := ∃ g', Step U g e g'

/-- WEAK fairness for every transition label: no transition is enabled continuously from some index
    on without being taken. (The finest weak fairness one can ask of a scheduler; it implies weak
    fairness of each goroutine as a whole.) -/
def WeakFair {U} (ρ : Run U) : Prop :=
  ∀ e N, ∃ n, N ≤ n ∧ (ρ.ev n = e ∨ ¬ Enabled U (ρ.st n) e)

/-- the producer goroutine takes steps of its own again and again -/
def ProducerRuns {U} (ρ : Run U) : Prop := ∀ N, ∃ n, N ≤ n ∧ isProducerEv (ρ.ev n) = true

/-- STRONG fairness of the `done` case of the producer's select (page.go:318-321), in its weakest
    form: if the case is ready at infinitely many indices, it is taken at least once -/
def SelectFairDone {U} (ρ : Run U) : Prop :=
  (∀ N, ∃ n, N ≤ n ∧ DoneReady (ρ.st n)) → ∃ n, ρ.ev n = .selDone

theorem spinEv_ne {U g} : spinEv U g ≠ .closeEnd ∧ spinEv U g ≠ .selDone := by
  unfold spinEv
  split
  · split <;> simp
  · simp

theorem spinRun_weakFair {U g0} (h : Spinning g0) : WeakFair (spinRun U g0 h) := by
  intro e N
  obtain ⟨n, h1, _, h3⟩ := spin_top_again (U := U) h N
  refine ⟨n, h1, ?_⟩
  by_cases hen : Enabled U (spinSt U g0 n) e
  · left
    obtain ⟨g', s⟩ := hen
    exact (closing_top_only (spinSt_spinning h n).1 h3 s).symm
  · right; exact hen

theorem spinRun_producer {U g0} (h : Spinning g0) : ProducerRuns (spinRun U g0 h) := by
  intro N
  obtain ⟨n, h1, _, h3⟩ := spin_top_again (U := U) h N
  refine ⟨n, h1, ?_⟩
  show isProducerEv (spinEv U (spinSt U g0 n)) = true
  simp only [spinEv, h3]
  split <;> rfl

/-- the run from index `k` on -/
def Run.drop {U} (ρ : Run U) (k : Nat) : Run U :=
  { st := fun n => ρ.st (n + k)
    ev := fun n => ρ.ev (n + k)
    step := fun n => by
      have := ρ.step (n + k)
      rwa [show n + k + 1 = n + 1 + k by omega] at this }

theorem closeBegin_post {U g g'} (h : Step U g .closeBegin g') : g'.cpc = .closing := by
  cases h; rfl

theorem closeEnd_post {U g g'} (h : Step U g .closeEnd g') : g'.cpc = .closed ∧ g'.ppc = .exited := by
  cases h
  case closeEnd h1 h2 => exact ⟨rfl, h2⟩

end PqModel.Async
