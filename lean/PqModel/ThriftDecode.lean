import PqModel.ThriftSkipProofs
import PqModel.ThriftSkipFuel

/-! MIRROR of the TYPED Thrift decoder of `encoding/thrift` over the bytes-backed compact reader
    (the decoder `OpenFile` runs on the footer: `thrift.Unmarshal(protocol, footer, &format.FileMetaData)`):

    * `decode.go:112-170` `DecodeFuncOf` dispatch on the Go type, `decodeFuncStructFieldOf` (enum -> int32),
      `decodeFuncPtrOf` and `Null[T].DecodeFunc` (null.go:57-66) which are transparent for what is read;
    * `decode.go:172-239` the scalar decoders `decodeBool/Int8/Int16/Int32/Int64/Float64/String/Bytes`
      over `compactBytesReader.ReadBool/ReadInt8/…/ReadBytes/ReadString` (compact.go:399-458);
    * `decode.go:241-289` `decodeFuncSliceOf` and its twin `Slice[T].DecodeFunc` (list.go:53-96): `ReadList`,
      TRUE -> BOOL, element type test (non-strict: `skipListItems`), **allocation of the announced size**,
      element loop;
    * `decode.go:405-520` `structDecoder.decode`: the `ReadField` loop, delta ids (int16 wraparound),
      field lookup, unknown / type-mismatched field -> `skip`, coalesced bool fields, `field.decode`,
      the required-field check after STOP;
    * `union.go:226-290` `unionDecoder.decode`: the same loop with `known` = "a member has this id", the type
      test against STRUCT and no required set - run here as the struct loop over the members taken as
      optional struct-typed fields.

    The Go decoder is driven by the reflected Go type; here by a SCHEMA DESCRIPTION `Ty` (field id, required
    flag, type), which the harness derives by reflection from the real `format` types. Values are read with
    their range checks and dropped: the mirror keeps the read offset, the error class, the set of field ids
    seen, and the size handed to `make` / `reflect.MakeSlice`. The sparse id-indexed table `dec.fields` is a
    list searched by id, the `seen` bitmap a list of ids. Non-strict mode (what `Unmarshal` and `OpenFile`
    use). Not mirrored: maps and sets (package format has none), the `Strict` flag, decoding into a reused
    (non-nil) target, the `clearUnseen` pass (it reads nothing). -/
namespace PqModel.ThriftDecode
open PqModel.IoFault (Bytes)
open PqModel.ThriftSkip

/-- schema description: what `DecodeFuncOf` makes of a Go type. A field is (id, required, type). -/
inductive Ty where
  | bool | i8 | i16 | i32 | i64 | double | binary
  | list (e : Ty)
  | struct (fs : List (Int × Bool × Ty))
  | union (ms : List (Int × Ty))

abbrev FieldD := Int × Bool × Ty

/-- MIRROR thrift.go:132-177 `TypeOf` (BOOL = FALSE = 2) -/
def wire : Ty → Nat
  | .bool => 2 | .i8 => 3 | .i16 => 4 | .i32 => 5 | .i64 => 6 | .double => 7 | .binary => 8
  | .list _ => 9 | .struct _ => 12 | .union _ => 12

/-- error classes of the typed decoder: those of the reader and the walk, `MissingField`, and the
    environment refusing an allocation of `n` elements (see `mem` below) -/
inductive TErr where
  | sk (e : SkErr)
  | missing (id : Int)
  | oom (n : Nat)
  deriving DecidableEq, Repr

abbrev TR := Except TErr Nat

/-- `dontExpectEOF` / `with(…)` only rewrite io.EOF -/
def mapE (fe : SkErr → SkErr) : TErr → TErr
  | .sk e => .sk (fe e)
  | e => e

/-- a reader primitive (or the skip walk) followed by the rest -/
def lift {α} (r : PR α) (fe : SkErr → SkErr) (k : α → Nat → TR) : TR :=
  match r with
  | .error e => .error (.sk (fe e))
  | .ok (a, p) => k a p

def seqT (r : TR) (fe : SkErr → SkErr) (k : Nat → TR) : TR :=
  match r with
  | .error e => .error (mapE fe e)
  | .ok p => k p

/-- MIRROR compact.go:434-458 `ReadBytes` / `ReadString`: `ReadLength`, bounds check, advance -/
def readBinary (d : Bytes) (pos : Nat) : PR Unit :=
  seq (readUvarint maxInt32 d pos) id fun n p =>
    if p + n > d.length then .error .ueof else .ok ((), p + n)

/-- MIRROR compact.go:492-515 `ReadField` with the id kept: `none` = STOP, else
    (type, id as read, Delta flag) -/
def readFieldT (d : Bytes) (pos : Nat) : PR (Option (Nat × Int × Bool)) :=
  seq (readByte d pos) id fun b p =>
    if b == 0 then .ok (none, p)
    else if b.toNat / 16 != 0 then
      .ok ((if b.toNat % 16 == 0 then none else some (b.toNat % 16, ((b.toNat / 16 : Nat) : Int), true)), p)
    else seq (readInt16 d p) dontExpectEOF fun i q => .ok (some (b.toNat, i, false), q)

/-- int16 wraparound of `f.ID += lastFieldID` (decode.go:436-439) -/
def wrap16 (x : Int) : Int := (x + 32768) % 65536 - 32768

/-- `dec.fields[int(f.ID) - int(dec.minID)]` with `decode != nil` (decode.go:441-445) -/
def lookup (fs : List FieldD) (id : Int) : Option FieldD := fs.find? fun fd => fd.1 == id

/-- MIRROR decode.go:484-497: the required field of lowest index (= lowest id) that was not seen -/
def firstMissing (fs : List FieldD) (seen : List Int) : Option Int :=
  fs.foldl (fun acc fd =>
    if fd.2.1 && !seen.contains fd.1 then
      (match acc with
       | none => some fd.1
       | some a => some (if fd.1 < a then fd.1 else a))
    else acc) none

/-- the allocator: `mem = some m` refuses a slice of more than `m` elements, `none` grants everything -/
def over (mem : Option Nat) (n : Nat) : Bool :=
  match mem with
  | some m => decide (m < n)
  | none => false

inductive DTask where
  | val (t : Ty)                                  -- the DecodeFunc of a type
  | elems (t : Ty) (n : Nat)                      -- element loop of a list, `n` to go
  | fields (fs : List FieldD) (first : Bool) (last : Int) (seen : List Int)
                                                  -- loop of structDecoder.decode; first = (numFields == 0)

/-- MIRROR (see the header). Every call spends one unit of fuel; the walk it falls back to
    (`skipT`) runs on the same fuel. -/
def decT (mem : Option Nat) (d : Bytes) : Nat → DTask → Nat → TR
  | 0, _, _ => .error (.sk .fuel)
  | f + 1, .val t, pos =>
    match t with
    | .bool => lift (readByte d pos) id fun _ p => .ok p
    | .i8 => lift (readByte d pos) id fun _ p => .ok p
    | .i16 => lift (readInt16 d pos) id fun _ p => .ok p
    | .i32 => lift (readInt32 d pos) id fun _ p => .ok p
    | .i64 => lift (readInt64 d pos) id fun _ p => .ok p
    | .double => lift (readFloat d pos) id fun _ p => .ok p
    | .binary => lift (readBinary d pos) id fun _ p => .ok p
    | .list e =>
      lift (readList d pos) id fun l p =>
        if wire e ≠ (if l.1 = 1 then 2 else l.1) then
          lift (skipT d f (.items (if l.1 = 1 then 2 else l.1) l.2) p) id fun _ q => .ok q
        else if over mem l.2 then .error (.oom l.2)
        else decT mem d f (.elems e l.2) p
    | .struct fs => decT mem d f (.fields fs true 0 []) pos
    | .union ms => decT mem d f (.fields (ms.map fun m => (m.1, false, m.2)) true 0 []) pos
  | _ + 1, .elems _ 0, pos => .ok pos
  | f + 1, .elems t (n + 1), pos =>
    seqT (decT mem d f (.val t) pos) dontExpectEOF fun p => decT mem d f (.elems t n) p
  | f + 1, .fields fs first last seen, pos =>
    lift (readFieldT d pos) (if first then id else dontExpectEOF) fun h p =>
      match h with
      | none =>
        (match firstMissing fs seen with
         | some id => .error (.missing id)
         | none => .ok p)
      | some (ty, raw, delta) =>
        let fid := if delta then wrap16 (raw + last) else raw
        match lookup fs fid with
        | none =>
          lift (skipT d f (.val ty) p) dontExpectEOF fun _ q => decT mem d f (.fields fs false fid seen) q
        | some fd =>
          if ty ≠ wire fd.2.2 ∧ ¬(ty = 1 ∧ wire fd.2.2 = 2) then
            lift (skipT d f (.val ty) p) dontExpectEOF fun _ q => decT mem d f (.fields fs false fid seen) q
          else if ty = 1 ∨ ty = 2 then decT mem d f (.fields fs false fid (fid :: seen)) p
          else
            seqT (decT mem d f (.val fd.2.2) p) dontExpectEOF fun q =>
              decT mem d f (.fields fs false fid (fid :: seen)) q

/-- fuel for an input: the walk's bound, doubled for the two extra wrappers per nesting level -/
def fuelD (d : Bytes) : Nat := 2 * fuelFor d

/-- MIRROR `NewDecoder(r).Decode(&v)` for a struct type `fs` on a fresh reader over `d`: the offset after
    the struct (`r.BytesRead()`) -/
def decStruct (mem : Option Nat) (fs : List FieldD) (d : Bytes) : TR :=
  decT mem d (fuelD d) (.fields fs true 0 []) 0

/-- MIRROR decode.go:26-38 `Unmarshal`: decode, then no trailing bytes -/
inductive UErr where
  | dec (e : TErr)
  | trailing (n : Nat)
  deriving DecidableEq, Repr

def unmarshal (mem : Option Nat) (fs : List FieldD) (d : Bytes) : Except UErr Unit :=
  match decStruct mem fs d with
  | .error e => .error (.dec e)
  | .ok n => if d.length - n != 0 then .error (.trailing (d.length - n)) else .ok ()

end PqModel.ThriftDecode
