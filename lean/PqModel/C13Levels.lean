import PqModel.PageLoad

/-! # The checksum a writer stores: which bytes of a page it covers (levels included)

MIRROR `(*writerBuffers).crc32` (writer.go:1940-1945) and the two places that put its result into a
page header (`writeDataPage` writer.go:2569-2571, `writeDictionaryPage` writer.go:2682-2684), with the
order in which `writePage` stores the three buffers (repetitions, definitions, page).

For a data page V2 the level bytes live in `wb.repetitions` / `wb.definitions`, OUTSIDE `wb.page`
(`prependLevelsToDataPageV1` moves them into `wb.page` only for V1, and `compress` only touches
`wb.page`): the stored body of a V2 page is `rep ‖ def ‖ values` and the values section can be empty
while the body is not (every value null, or only empty lists). The mirror carries one flag for the
variant a held-out seed used: "the values section is empty, so nothing was encoded, return 0".

SPEC (parquet.thrift, `PageHeader.crc`): the CRC-32 of the page as stored in the file; for a data
page V2 over the concatenation of repetition levels, definition levels and (possibly compressed)
values — `coveredRange` states that range in byte offsets of the body.

Not modelled: how the level bytes are produced (RLE/bit-packing hybrid: C04), compression. -/
namespace PqModel.C13Levels
open PqModel.Crc PqModel.PageLoad

/-- `writerBuffers` at the moment `crc32()` is called: for V2 `page` is the (possibly compressed)
    values section; for V1 and dictionary pages `repetitions = definitions = []` -/
structure Buffers where
  repetitions : Bytes
  definitions : Bytes
  page : Bytes
  deriving DecidableEq, Repr

/-- what is stored after the page header (`writePage`: repetitions, definitions, page in this order) -/
def Buffers.body (b : Buffers) : Bytes := b.repetitions ++ b.definitions ++ b.page

/-- MIRROR `writerBuffers.size` writer.go:1947-1949 (becomes `CompressedPageSize`) -/
def Buffers.size (b : Buffers) : Nat := b.repetitions.length + b.definitions.length + b.page.length

/-- which `writerBuffers.crc32` is mirrored -/
structure WImpl where
  /-- the slipped variant: `if len(wb.page) == 0 { return 0 }` in front of the three updates -/
  zeroWhenValuesEmpty : Bool
  deriving DecidableEq, Repr

/-- MIRROR of the tree under verification -/
def wcurrent : WImpl := { zeroWhenValuesEmpty := false }
/-- the variant of seed C13-7a (regression facts only) -/
def wslipped : WImpl := { zeroWhenValuesEmpty := true }

/-- MIRROR `(*writerBuffers).crc32` writer.go:1940-1945 -/
def writerCrc (w : WImpl) (b : Buffers) : BitVec 32 :=
  if w.zeroWhenValuesEmpty && b.page.isEmpty then 0#32 else
  let c := crc32Update 0#32 b.repetitions     -- checksum = crc32.Update(checksum, crc32.IEEETable, wb.repetitions)
  let c := crc32Update c b.definitions        -- checksum = crc32.Update(checksum, crc32.IEEETable, wb.definitions)
  crc32Update c b.page                        -- checksum = crc32.Update(checksum, crc32.IEEETable, wb.page)

/-- MIRROR the header fields `writeDataPage` / `writeDictionaryPage` fill from the buffers:
    `CompressedPageSize = int32(buf.size())`, `CRC = int32(buf.crc32())` (a zero CRC is then not
    written: `PageLoad.Header.crc`) -/
def writerHeader (w : WImpl) (kind : PageKind) (b : Buffers) (dictEncoded : Bool := false) : Header :=
  { kind, compressedSize := b.size, crc := writerCrc w b, dictEncoded }

/-- SPEC: byte range `[lo, hi)` of the stored body of a data page V2 that the CRC covers, given the
    header's `repetition_levels_byte_length`, `definition_levels_byte_length` and the length of the
    values section: everything, the levels first. -/
def coveredRange (repLen defLen valuesLen : Nat) : Nat × Nat := (0, repLen + defLen + valuesLen)

/-- SPEC: the level section of a V2 body in the same coordinates -/
def levelRange (repLen defLen : Nat) : Nat × Nat := (0, repLen + defLen)

/-- SPEC: the CRC the format asks for -/
def specCrc (b : Buffers) : BitVec 32 := crc32 b.body

theorem body_length (b : Buffers) : b.body.length = b.size := by
  simp [Buffers.body, Buffers.size, Nat.add_assoc]

theorem writerCrc_current (b : Buffers) : writerCrc wcurrent b = crc32 b.body := by
  simp only [writerCrc, wcurrent, Bool.false_and, Buffers.body]
  rw [crc32Update_append, crc32Update_append, List.append_assoc]; rfl

end PqModel.C13Levels
