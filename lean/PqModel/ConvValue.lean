import PqModel.Plain

/-! # Value type conversions of `Convert` (property C12, part "value")

`convertToType(targetType, sourceType)` (convert.go:98-111) is installed by `Convert` for every target
column whose type differs from the source column's (`!EqualTypes`, convert.go:445-447) — for EVERY
pair of types, no pair is refused when the conversion is built; it runs
`targetType.ConvertValue(v, sourceType)` over the values of the column and stops at the first error.

MIRROR: `convertValue tgt src v` transliterates the eight `ConvertValue` methods of the physical
types + `*stringType` (type_boolean.go:67-91, type_int32.go:74-98, type_int64.go:74-98,
type_int96.go:63-87, type_float.go:75-99, type_double.go:67-91, type_byte_array.go:83-102,
type_fixed_len_byte_array.go:125-149, type_string.go:89-121) and the `convertXToY` functions they
dispatch to (convert.go:1219-1577, deprecated/int96.go:12-29,74-81).

Values are bit patterns as in `Plain.lean`: a `Nat` below `2^(8k)` for INT32/INT64/INT96/FLOAT/DOUBLE
(floats are IEEE bit patterns), `Bool`, and `List UInt8` for BYTE_ARRAY / FIXED_LEN_BYTE_ARRAY.

SPEC of the standard library (not library code, written from the Go documentation, tied by L2):
`parseInt` (strconv.ParseInt(s, 10, bits)), `parseBool` (strconv.ParseBool), `appendInt`
(strconv.AppendInt(_, 10)), `hexDecode` / `hexEncode` (encoding/hex incl. its write beyond a short
destination), `bigBytes` (big.Int.SetString(s, 10) then Bytes()).

The numeric conversions are modelled on bit patterns: `f32to64` (exact), `f64to32` (round to nearest
even, overflow, gradual underflow, NaN quieting), `intToFloat` (Go `floatN(i)`), `floatToInt` (Go
`intN(f)` AS COMPILED ON amd64: the Go specification leaves NaN and out-of-range operands to the
implementation; the mirror returns the SSE "integer indefinite"). These four are tied by L2 on the
amd64 build and have only a partial round-trip theorem (`float_double_round_trip_partial`).
Not modelled here (`Res.unmodelled`): FLOAT/DOUBLE/INT96 -> STRING and STRING -> FLOAT/DOUBLE
(strconv float formatting and parsing), DATE/TIME/TIMESTAMP logical sources and targets. -/
namespace PqModel.ConvValue
open PqModel.Plain (Bytes leBytes leVal)

inductive Kind
  | boolean | int32 | int64 | int96 | float | double | byteArray | flba (n : Nat)
  deriving DecidableEq

/-- a column type as `ConvertValue` looks at it: `typ.Kind()` (+ `Length()`), and whether the
    dynamic type is `*stringType` (the type switch in front of every method) -/
structure Ty where
  kind : Kind
  isString : Bool
  deriving DecidableEq

inductive Val
  | bool (b : Bool)
  | i32 (x : Nat) | i64 (x : Nat) | i96 (x : Nat)
  | f32 (x : Nat) | f64 (x : Nat)
  | bytes (b : Bytes)
  | fixed (b : Bytes)
  /-- the null value (`kind = 0`, `u64 = 0`, `ptr = nil`) -/
  | null
  deriving DecidableEq

/-- `Value.Kind()` (of a non-null value; a null value has no kind: boolean is a placeholder) -/
def Val.kind : Val → Kind
  | .null => .boolean
  | .bool _ => .boolean | .i32 _ => .int32 | .i64 _ => .int64 | .i96 _ => .int96
  | .f32 _ => .float | .f64 _ => .double | .bytes _ => .byteArray | .fixed b => .flba b.length

/-- the bit pattern fits the kind -/
def Val.wf : Val → Bool
  | .i32 x | .f32 x => decide (x < 2 ^ 32)
  | .i64 x | .f64 x => decide (x < 2 ^ 64)
  | .i96 x => decide (x < 2 ^ 96)
  | _ => true

inductive Res
  | ok (v : Val)
  /-- an error wrapping ErrInvalidConversion -/
  | invalid
  /-- run-time panic (index out of range) -/
  | panics
  /-- the pair is outside this mirror -/
  | unmodelled
  deriving DecidableEq

/-! ## helpers shared by the `convertXToY` functions -/

/-- `c := make([]byte, size); copy(c, b)` -/
def padTo (size : Nat) (b : Bytes) : Bytes := (b ++ List.replicate (size - b.length) 0).take size

/-- convertByteArrayToFixedLenByteArray / convertInt96ToFixedLenByteArray (convert.go:1360-1370,
    1490-1500): `if len(b) < size { c := make(size); copy(c, b); b = c } else { b = b[:size] }` -/
def fitTo (size : Nat) (b : Bytes) : Bytes :=
  if b.length < size then b ++ List.replicate (size - b.length) 0 else b.take size

/-- `v.byte()` of a boolean -/
def boolByte (b : Bool) : Nat := if b then 1 else 0

/-- Go `intM(x)` of a signed `intK` bit pattern (sign extension), `k ≤ m` bits -/
def sext (k m x : Nat) : Nat := if x < 2 ^ (k - 1) then x else x + (2 ^ m - 2 ^ k)

/-- the signed number a `k`-bit pattern stands for -/
def toInt (k x : Nat) : Int := if x < 2 ^ (k - 1) then (x : Int) else (x : Int) - (2 ^ k : Nat)

/-- deprecated.Int32ToInt96 (int96.go:12-19): words 1 and 2 are 0xFFFFFFFF when negative -/
def int32ToInt96 (x : Nat) : Nat :=
  (if x < 2 ^ 31 then 0 else 0xFFFFFFFF * 2 ^ 64 + 0xFFFFFFFF * 2 ^ 32) + x

/-- deprecated.Int64ToInt96 (int96.go:22-29): word 2 is 0xFFFFFFFF when negative,
    word 1 = uint32(value >> 32), word 0 = uint32(value) -/
def int64ToInt96 (x : Nat) : Nat :=
  (if x < 2 ^ 63 then 0 else 0xFFFFFFFF * 2 ^ 64) + (x / 2 ^ 32 % 2 ^ 32) * 2 ^ 32 + x % 2 ^ 32

/-- `float64(float32)` on bit patterns (exact; a signalling NaN comes out quiet: CVTSS2SD) -/
def f32to64 (x : Nat) : Nat :=
  let s := x / 2 ^ 31
  let e := x / 2 ^ 23 % 256
  let m := x % 2 ^ 23
  if e = 255 then s * 2 ^ 63 + 2047 * 2 ^ 52 + (if m = 0 then 0 else m * 2 ^ 29 ||| 2 ^ 51)
  else if e = 0 then
    if m = 0 then s * 2 ^ 63
    else
      let k := Nat.log2 m
      s * 2 ^ 63 + (k + 874) * 2 ^ 52 + (m - 2 ^ k) * 2 ^ (52 - k)
  else s * 2 ^ 63 + (e + 896) * 2 ^ 52 + m * 2 ^ 29

/-- round `M / 2^sh` to nearest, ties to even -/
def rne (M sh : Nat) : Nat :=
  if sh = 0 then M
  else
    let q := M / 2 ^ sh
    let r := M % 2 ^ sh
    if r > 2 ^ (sh - 1) ∨ (r = 2 ^ (sh - 1) ∧ q % 2 = 1) then q + 1 else q

/-- `float32(float64)` on bit patterns (CVTSD2SS: round to nearest even, overflow to infinity,
    gradual underflow, NaN payload truncated and made quiet) -/
def f64to32 (x : Nat) : Nat :=
  let s := x / 2 ^ 63
  let e := x / 2 ^ 52 % 2048
  let m := x % 2 ^ 52
  if e = 2047 then s * 2 ^ 31 + 0x7F800000 + (if m = 0 then 0 else m / 2 ^ 29 ||| 2 ^ 22)
  else if e = 0 then s * 2 ^ 31
  else if 897 ≤ e then s * 2 ^ 31 + min ((e - 896) * 2 ^ 23 + (rne (2 ^ 52 + m) 29 - 2 ^ 23)) 0x7F800000
  else s * 2 ^ 31 + rne (2 ^ 52 + m) (926 - e)

/-- Go `floatN(i)` of a signed integer given as sign and magnitude: exact when the magnitude has at
    most `p + 1` significant bits, else round to nearest even (`p` = mantissa bits, `bias` = the
    exponent field of 1.0, `sbit` = position of the sign bit) -/
def intToFloat (p bias sbit : Nat) (neg : Bool) (M : Nat) : Nat :=
  (if neg then 2 ^ sbit else 0) +
  if M = 0 then 0
  else
    let k := Nat.log2 M
    if k ≤ p then (k + bias) * 2 ^ p + (M * 2 ^ (p - k) - 2 ^ p)
    else (k + bias) * 2 ^ p + (rne M (k - p) - 2 ^ p)

/-- sign and magnitude of a `w`-bit two's complement pattern -/
def signMag (w x : Nat) : Bool × Nat := if x < 2 ^ (w - 1) then (false, x) else (true, 2 ^ w - x)

/-- Go `intW(f)` as compiled on amd64 (CVTTSS2SL/CVTTSD2SL/...SQ: truncate toward zero; NaN,
    infinities and out-of-range values give the "integer indefinite" 0x80..0). The float is given
    by its fields: sign, exponent field `e` (all ones = `emax`), mantissa `m` of `p` bits; `off` =
    bias + p. -/
def floatToInt (w p emax off : Nat) (s e m : Nat) : Nat :=
  if e = emax then 2 ^ (w - 1)
  else
    let M := if e = 0 then m else 2 ^ p + m
    let e1 := if e = 0 then 1 else e
    let T := if off ≤ e1 then M * 2 ^ (e1 - off) else M / 2 ^ (off - e1)
    if s = 0 then (if T < 2 ^ (w - 1) then T else 2 ^ (w - 1))
    else (if T ≤ 2 ^ (w - 1) then (2 ^ w - T) % 2 ^ w else 2 ^ (w - 1))

def f32ToInt (w x : Nat) : Nat := floatToInt w 23 255 150 (x / 2 ^ 31) (x / 2 ^ 23 % 256) (x % 2 ^ 23)
def f64ToInt (w x : Nat) : Nat := floatToInt w 52 2047 1075 (x / 2 ^ 63) (x / 2 ^ 52 % 2048) (x % 2 ^ 52)
def intToF32 (w x : Nat) : Nat := intToFloat 23 127 31 (signMag w x).1 (signMag w x).2
def intToF64 (w x : Nat) : Nat := intToFloat 52 1023 63 (signMag w x).1 (signMag w x).2

/-- parquet.go:115-122 -/
def isZero (b : Bytes) : Bool := b.all (· == 0)

/-! ## standard library, from its documentation -/

def isDigit (c : UInt8) : Bool := 48 ≤ c.toNat && c.toNat ≤ 57

/-- value of a string of decimal digits; none if empty or another byte occurs
    (base 10 given explicitly: no underscores, no prefix) -/
def digitsVal : Bytes → Option Nat
  | [] => none
  | cs => if cs.all isDigit then some (cs.foldl (fun acc c => acc * 10 + (c.toNat - 48)) 0) else none

/-- sign and magnitude of `[+-]?[0-9]+` (strconv.ParseInt and big.Int.SetString share the grammar) -/
def signedDigits : Bytes → Option (Bool × Nat)
  | [] => none
  | c :: cs =>
    if c = 45 then (digitsVal cs).map (fun n => (true, n))
    else if c = 43 then (digitsVal cs).map (fun n => (false, n))
    else (digitsVal (c :: cs)).map (fun n => (false, n))

/-- strconv.ParseInt(s, 10, bits): the two's complement pattern, none on syntax or range error -/
def parseInt (bits : Nat) (s : Bytes) : Option Nat :=
  match signedDigits s with
  | none => none
  | some (false, n) => if n < 2 ^ (bits - 1) then some n else none
  | some (true, n) => if n ≤ 2 ^ (bits - 1) then some ((2 ^ bits - n) % 2 ^ bits) else none

/-- `trueBytes` / `falseBytes` (convert.go:1213-1214) -/
def trueBytes : Bytes := [116, 114, 117, 101]
def falseBytes : Bytes := [102, 97, 108, 115, 101]

/-- strconv.ParseBool: "1" "t" "T" "TRUE" "true" "True" / "0" "f" "F" "FALSE" "false" "False" -/
def parseBool (s : Bytes) : Option Bool :=
  if s = [49] ∨ s = [116] ∨ s = [84] ∨ s = [84, 82, 85, 69] ∨ s = trueBytes ∨ s = [84, 114, 117, 101] then some true
  else if s = [48] ∨ s = [102] ∨ s = [70] ∨ s = [70, 65, 76, 83, 69] ∨ s = falseBytes ∨ s = [70, 97, 108, 115, 101] then some false
  else none

/-- decimal digits, least significant first -/
def decLE : Nat → Nat → List Nat
  | 0, _ => []
  | f + 1, n => if n < 10 then [n] else n % 10 :: decLE f (n / 10)

def decBytes (n : Nat) : Bytes := ((decLE (n + 1) n).reverse).map (fun d => UInt8.ofNat (48 + d))


/-- strconv.AppendInt(nil, x, 10) of a signed `bits`-bit pattern -/
def appendInt (bits x : Nat) : Bytes :=
  if x < 2 ^ (bits - 1) then decBytes x else 45 :: decBytes (2 ^ bits - x)

def hexVal (c : UInt8) : Option Nat :=
  let n := c.toNat
  if 48 ≤ n ∧ n ≤ 57 then some (n - 48)
  else if 97 ≤ n ∧ n ≤ 102 then some (n - 87)
  else if 65 ≤ n ∧ n ≤ 70 then some (n - 55)
  else none

def hexChar (n : Nat) : UInt8 := UInt8.ofNat (if n < 10 then 48 + n else 87 + n)

/-- hex.Encode -/
def hexEncode : Bytes → Bytes
  | [] => []
  | b :: bs => hexChar (b.toNat / 16) :: hexChar (b.toNat % 16) :: hexEncode bs

inductive HexRes
  | ok (b : Bytes) | err | panics
  deriving DecidableEq

/-- hex.Decode(dst, src) with `room` bytes left in `dst` (encoding/hex: pairs are decoded in order,
    an invalid character is an error, `dst[i] = ...` past the end of `dst` panics, a trailing
    single character is an error); `ok` carries the bytes written -/
def hexDecodeGo : Nat → Bytes → HexRes
  | _, [] => .ok []
  | _, [_] => .err
  | room, p :: q :: rest =>
    match hexVal p, hexVal q with
    | some a, some b =>
      match room with
      | 0 => .panics
      | room + 1 =>
        match hexDecodeGo room rest with
        | .ok out => .ok (UInt8.ofNat (a * 16 + b) :: out)
        | r => r
    | _, _ => .err

/-- big-endian base-256 digits of `n`, least significant first, no leading zeros -/
def natLE : Nat → Nat → Bytes
  | 0, _ => []
  | f + 1, n => if n = 0 then [] else UInt8.ofNat (n % 256) :: natLE f (n / 256)

/-- big.Int.Bytes(): big-endian magnitude without leading zeros -/
def bigBytes (n : Nat) : Bytes := (natLE (n + 1) n).reverse

/-! ## the `convertXToY` functions that do more than one line -/

/-- convertStringToInt96 (convert.go:1533-1551): `SetString(s, 10)`, then `i.Bytes()` — the
    BIG-endian magnitude — is copied to the front of a 12-byte buffer that is then read as three
    little-endian words; the sign is not looked at -/
def convertStringToInt96 (s : Bytes) : Res :=
  match signedDigits s with
  | none => .invalid
  | some (_, n) => .ok (.i96 (leVal (padTo 12 (bigBytes n))))

/-- convertStringToFixedLenByteArray (convert.go:1569-1577): `c := make([]byte, size);
    hex.Decode(c, b)` -/
def convertStringToFixedLenByteArray (size : Nat) (s : Bytes) : Res :=
  match hexDecodeGo size s with
  | .ok out => .ok (.fixed (padTo size out))
  | .err => .invalid
  | .panics => .panics

/-! ## `ConvertValue`, one function per target type -/

/-- the bytes `v.byteArray()` yields for a value of a pointer kind -/
def ptrBytes : Val → Option Bytes
  | .bytes b | .fixed b => some b
  | .i96 x => some (leBytes 12 x)
  | _ => none

/-- type_boolean.go:67-91 -/
def toBoolean (src : Ty) (v : Val) : Res :=
  if src.isString then
    match v with
    | .bytes s => match parseBool s with | some b => .ok (.bool b) | none => .invalid
    | _ => .unmodelled
  else match v with
    | .bool b => .ok (.bool b)
    | .i32 x | .i64 x | .i96 x => .ok (.bool (x != 0))
    | .f32 x => .ok (.bool (x % 2 ^ 31 != 0))   -- `v.float() != 0`: -0 is 0, NaN is not
    | .f64 x => .ok (.bool (x % 2 ^ 63 != 0))
    | .bytes b | .fixed b => .ok (.bool (!isZero b))
    | .null => .unmodelled

/-- type_int32.go:74-98 -/
def toInt32 (src : Ty) (v : Val) : Res :=
  if src.isString then
    match v with
    | .bytes s => match parseInt 32 s with | some x => .ok (.i32 x) | none => .invalid
    | _ => .unmodelled
  else match v with
    | .bool b => .ok (.i32 (boolByte b))
    | .i32 x => .ok (.i32 x)
    | .i64 x => .ok (.i32 (x % 2 ^ 32))      -- int32(v.int64())
    | .i96 x => .ok (.i32 (x % 2 ^ 32))      -- int32(i[0])
    | .f32 x => .ok (.i32 (f32ToInt 32 x))   -- int32(v.float())
    | .f64 x => .ok (.i32 (f64ToInt 32 x))
    | .bytes b | .fixed b => .ok (.i32 (leVal (padTo 4 b)))
    | .null => .unmodelled

/-- type_int64.go:74-98 -/
def toInt64 (src : Ty) (v : Val) : Res :=
  if src.isString then
    match v with
    | .bytes s => match parseInt 64 s with | some x => .ok (.i64 x) | none => .invalid
    | _ => .unmodelled
  else match v with
    | .bool b => .ok (.i64 (boolByte b))
    | .i32 x => .ok (.i64 (sext 32 64 x))
    | .i64 x => .ok (.i64 x)
    | .i96 x => .ok (.i64 (x % 2 ^ 64))      -- int64(i[1])<<32 | int64(i[0])
    | .f32 x => .ok (.i64 (f32ToInt 64 x))
    | .f64 x => .ok (.i64 (f64ToInt 64 x))
    | .bytes b | .fixed b => .ok (.i64 (leVal (padTo 8 b)))
    | .null => .unmodelled

/-- type_int96.go:63-87 -/
def toInt96 (src : Ty) (v : Val) : Res :=
  if src.isString then
    match v with
    | .bytes s => convertStringToInt96 s
    | _ => .unmodelled
  else match v with
    | .bool b => .ok (.i96 (boolByte b))
    | .i32 x => .ok (.i96 (int32ToInt96 x))
    | .i64 x => .ok (.i96 (int64ToInt96 x))
    | .i96 x => .ok (.i96 x)
    | .f32 _ | .f64 _ => .invalid             -- convertFloatToInt96 / convertDoubleToInt96
    | .bytes b | .fixed b => .ok (.i96 (leVal (padTo 12 b)))
    | .null => .unmodelled

/-- type_float.go:75-99 -/
def toFloat (src : Ty) (v : Val) : Res :=
  if src.isString then .unmodelled
  else match v with
    | .bool b => .ok (.f32 (if b then 0x3F800000 else 0))
    | .i32 x => .ok (.f32 (intToF32 32 x))   -- float32(v.int32())
    | .i64 x => .ok (.f32 (intToF32 64 x))
    | .f64 x => .ok (.f32 (f64to32 x))
    | .i96 _ => .invalid                      -- convertInt96ToFloat
    | .f32 x => .ok (.f32 x)
    | .bytes b | .fixed b => .ok (.f32 (leVal (padTo 4 b)))
    | .null => .unmodelled

/-- type_double.go:67-91 -/
def toDouble (src : Ty) (v : Val) : Res :=
  if src.isString then .unmodelled
  else match v with
    | .bool b => .ok (.f64 (if b then 0x3FF0000000000000 else 0))
    | .i32 x => .ok (.f64 (intToF64 32 x))
    | .i64 x => .ok (.f64 (intToF64 64 x))
    | .i96 _ => .invalid                      -- convertInt96ToDouble
    | .f32 x => .ok (.f64 (f32to64 x))
    | .f64 x => .ok (.f64 x)
    | .bytes b | .fixed b => .ok (.f64 (leVal (padTo 8 b)))
    | .null => .unmodelled

/-- type_byte_array.go:83-102 (no `*stringType` case: a string source is a BYTE_ARRAY source;
    a FIXED_LEN_BYTE_ARRAY value is returned as it is, kind included) -/
def toByteArray (_src : Ty) (v : Val) : Res :=
  match v with
  | .bool b => .ok (.bytes [UInt8.ofNat (boolByte b)])
  | .i32 x | .f32 x => .ok (.bytes (leBytes 4 x))
  | .i64 x | .f64 x => .ok (.bytes (leBytes 8 x))
  | .i96 x => .ok (.bytes (leBytes 12 x))
  | .bytes b => .ok (.bytes b)
  | .fixed b => .ok (.fixed b)
  | .null => .unmodelled

/-- type_fixed_len_byte_array.go:125-149 -/
def toFixed (size : Nat) (src : Ty) (v : Val) : Res :=
  if src.isString then
    match v with
    | .bytes s => convertStringToFixedLenByteArray size s
    | _ => .unmodelled
  else match v with
    | .bool b => .ok (.fixed (padTo size [UInt8.ofNat (boolByte b)]))
    | .i32 x | .f32 x => .ok (.fixed (padTo size (leBytes 4 x)))
    | .i64 x | .f64 x => .ok (.fixed (padTo size (leBytes 8 x)))
    | .i96 x => .ok (.fixed (fitTo size (leBytes 12 x)))
    | .bytes b | .fixed b => .ok (.fixed (fitTo size b))
    | .null => .unmodelled

/-- type_string.go:89-121 (`*stringType` as the target; date and time sources are not modelled) -/
def toString (_src : Ty) (v : Val) : Res :=
  match v with
  | .bool b => .ok (.bytes (if b then trueBytes else falseBytes))
  | .i32 x => .ok (.bytes (appendInt 32 x))
  | .i64 x => .ok (.bytes (appendInt 64 x))
  | .i96 _ | .f32 _ | .f64 _ => .unmodelled
  | .bytes b => .ok (.bytes b)
  | .fixed b => .ok (.bytes (hexEncode b))
  | .null => .unmodelled

/-- `targetType.ConvertValue(v, sourceType)` for a non-null value of the source column -/
def convertNonNull (tgt src : Ty) (v : Val) : Res :=
  if tgt.isString then toString src v
  else match tgt.kind with
    | .boolean => toBoolean src v
    | .int32 => toInt32 src v
    | .int64 => toInt64 src v
    | .int96 => toInt96 src v
    | .float => toFloat src v
    | .double => toDouble src v
    | .byteArray => toByteArray src v
    | .flba n => toFixed n src v

/-- the branches `return val, nil` of the nine methods: the value comes back untouched -/
def returnsVal (tgt src : Ty) : Bool :=
  if tgt.isString then decide (src.kind = .byteArray)
  else match tgt.kind, src.kind with
    | .byteArray, .byteArray | .byteArray, .flba _ => true
    | .flba _, _ => false
    | k, k' => !src.isString && decide (k = k')

/-- what the accessors (`v.byte()`, `v.int32()`, `v.float()`, `v.byteArray()`: `u64 = 0`,
    `ptr = nil`) read from a NULL value in a column of kind `k`. `v.int96()` = `makeInt96(nil)`
    slices `b[:12]` of an empty slice and panics: `none`. -/
def nullAs : Kind → Option Val
  | .boolean => some (.bool false)
  | .int32 => some (.i32 0) | .int64 => some (.i64 0)
  | .int96 => none
  | .float => some (.f32 0) | .double => some (.f64 0)
  | .byteArray => some (.bytes []) | .flba _ => some (.fixed [])

/-- `targetType.ConvertValue(v, sourceType)` as convertToType calls it: on EVERY value of the
    column, the nulls of an optional column included (nothing in convert.go:98-111 or in the
    methods looks at `IsNull`) -/
def convertValue (tgt src : Ty) (v : Val) : Res :=
  match v with
  | .null =>
    if returnsVal tgt src then .ok .null
    else match nullAs src.kind with
      | some z => convertNonNull tgt src z
      | none =>   -- INT96 source
        if tgt.isString then .unmodelled
        else match tgt.kind with
          | .boolean | .int32 | .int64 => .panics        -- v.int96()
          | .float | .double => .invalid                -- error before the value is read
          | .byteArray => .ok (.bytes [])               -- v.byteArray() = empty
          | .flba n => .ok (.fixed (fitTo n []))
          | .int96 => .ok .null
  | v => convertNonNull tgt src v

/-- convertToType (convert.go:98-111): the values of one column in order, first error wins -/
def convertToType (tgt src : Ty) : List Val → Except Res (List Val)
  | [] => .ok []
  | v :: vs =>
    match convertValue tgt src v with
    | .ok w => (convertToType tgt src vs).map (w :: ·)
    | r => .error r

/-- the value lies in a column of type `t` -/
def Val.inTy (v : Val) (t : Ty) : Bool :=
  v.wf && decide (v ≠ .null) && decide (v.kind = t.kind) && (!t.isString || decide (t.kind = .byteArray))

/-! ## lemmas -/

theorem padTo_length (n : Nat) (b : Bytes) : (padTo n b).length = n := by
  simp [padTo]; omega

theorem padTo_self (b : Bytes) : padTo b.length b = b := by simp [padTo]

theorem fitTo_eq_padTo (n : Nat) (b : Bytes) : fitTo n b = padTo n b := by
  unfold fitTo padTo
  split
  · rw [List.take_of_length_le]; simp; omega
  · rename_i h
    have h' : n ≤ b.length := by omega
    rw [List.take_append_of_le_length h']

theorem padTo_of_le {n : Nat} {b : Bytes} (h : b.length ≤ n) :
    padTo n b = b ++ List.replicate (n - b.length) 0 := by
  unfold padTo; rw [List.take_of_length_le]; simp; omega

theorem leVal_append_zeros : ∀ (b : Bytes) (k : Nat), leVal (b ++ List.replicate k 0) = leVal b
  | [], 0 => rfl
  | [], k + 1 => by
    have := leVal_append_zeros [] k
    simp only [List.nil_append] at this
    simp [List.replicate_succ, leVal, this]
  | c :: b, k => by simp [leVal, leVal_append_zeros b k]

/-- reading back `size ≥ k` bytes of a `k`-byte little-endian value -/
theorem leVal_padTo_leBytes {k size x : Nat} (hx : x < 2 ^ (8 * k)) (hs : k ≤ size) :
    leVal (padTo size (leBytes k x)) = x := by
  rw [padTo_of_le (by rw [PqModel.Plain.leBytes_length]; exact hs), leVal_append_zeros,
    PqModel.Plain.leVal_leBytes k x hx]

theorem take_padTo {k size : Nat} {b : Bytes} (hb : b.length = k) (hs : k ≤ size) :
    (padTo size b).take k = b := by
  rw [padTo_of_le (by omega), List.take_append_of_le_length (by omega), List.take_of_length_le (by omega)]

/-! ### decimal text: `ParseInt(AppendInt(x)) = x` -/

theorem decLE_lt : ∀ (f n : Nat), ∀ d ∈ decLE f n, d < 10
  | 0, _, d, h => by simp [decLE] at h
  | f + 1, n, d, h => by
    simp only [decLE] at h
    split at h
    · simp at h; omega
    · rcases List.mem_cons.mp h with rfl | h
      · omega
      · exact decLE_lt f (n / 10) d h

theorem decLE_ne_nil (f n : Nat) : decLE (f + 1) n ≠ [] := by
  simp only [decLE]; split <;> simp

theorem decLE_val : ∀ (f n : Nat), n < f → (decLE f n).foldr (fun d acc => acc * 10 + d) 0 = n
  | 0, _, h => by omega
  | f + 1, n, h => by
    simp only [decLE]
    split
    · simp
    · have := decLE_val f (n / 10) (by omega)
      simp only [List.foldr_cons, this]; omega

def decChar (d : Nat) : UInt8 := UInt8.ofNat (48 + d)

theorem decChar_toNat {d : Nat} (h : d < 10) : (decChar d).toNat = 48 + d := by
  simp only [decChar, UInt8.toNat_ofNat']; omega

theorem decText_val : ∀ l : List Nat, (∀ d ∈ l, d < 10) →
    (l.reverse.map decChar).foldl (fun acc c => acc * 10 + (c.toNat - 48)) 0 =
      l.foldr (fun d acc => acc * 10 + d) 0
  | [], _ => rfl
  | d :: l, h => by
    have hd : d < 10 := h d (by simp)
    have ih := decText_val l (fun x hx => h x (by simp [hx]))
    simp only [List.reverse_cons, List.map_append, List.foldl_append, ih, List.map_cons, List.map_nil,
      List.foldl_cons, List.foldl_nil, List.foldr_cons, decChar_toNat hd]
    omega

theorem decText_digits (l : List Nat) (h : ∀ d ∈ l, d < 10) : (l.reverse.map decChar).all isDigit = true := by
  simp only [List.all_eq_true, List.mem_map, List.mem_reverse]
  rintro c ⟨d, hd, rfl⟩
  have := decChar_toNat (h d hd)
  have := h d hd
  simp [isDigit, *]; omega

theorem decBytes_eq (n : Nat) : decBytes n = (decLE (n + 1) n).reverse.map decChar := rfl

theorem digitsVal_decBytes (n : Nat) : digitsVal (decBytes n) = some n := by
  have hl := decLE_lt (n + 1) n
  have hne : decBytes n ≠ [] := by
    rw [decBytes_eq]; simp [decLE_ne_nil]
  have hall := decText_digits _ hl
  have hval := decText_val _ hl
  rw [decLE_val (n + 1) n (by omega)] at hval
  rw [← decBytes_eq] at hall hval
  unfold digitsVal
  split
  · rename_i he; exact absurd he hne
  · simp [hall, hval]

theorem signedDigits_decBytes (n : Nat) : signedDigits (decBytes n) = some (false, n) := by
  have hd := digitsVal_decBytes n
  have hall : (decBytes n).all isDigit = true := by
    rw [decBytes_eq]; exact decText_digits _ (decLE_lt (n + 1) n)
  cases hb : decBytes n with
  | nil => rw [hb] at hd; simp [digitsVal] at hd
  | cons c cs =>
    rw [hb] at hd hall
    have hc : isDigit c = true := by simp only [List.all_cons, Bool.and_eq_true] at hall; exact hall.1
    have h45 : c ≠ 45 := by intro e; subst e; simp [isDigit] at hc
    have h43 : c ≠ 43 := by intro e; subst e; simp [isDigit] at hc
    simp [signedDigits, h45, h43, hd]

theorem signedDigits_neg (n : Nat) : signedDigits (45 :: decBytes n) = some (true, n) := by
  simp [signedDigits, digitsVal_decBytes]

theorem parseInt_appendInt32 (x : Nat) (h : x < 2 ^ 32) : parseInt 32 (appendInt 32 x) = some x := by
  by_cases hx : x < 2 ^ 31
  · have e : appendInt 32 x = decBytes x := by simp [appendInt, hx]
    simp only [parseInt, e, signedDigits_decBytes]
    simp; omega
  · have e : appendInt 32 x = 45 :: decBytes (2 ^ 32 - x) := by simp [appendInt, hx]
    simp only [parseInt, e, signedDigits_neg]
    simp; omega

theorem parseInt_appendInt64 (x : Nat) (h : x < 2 ^ 64) : parseInt 64 (appendInt 64 x) = some x := by
  by_cases hx : x < 2 ^ 63
  · have e : appendInt 64 x = decBytes x := by simp [appendInt, hx]
    simp only [parseInt, e, signedDigits_decBytes]
    simp; omega
  · have e : appendInt 64 x = 45 :: decBytes (2 ^ 64 - x) := by simp [appendInt, hx]
    simp only [parseInt, e, signedDigits_neg]
    simp; omega

/-! ### INT32 -> DOUBLE -> INT32 -/

/-- magnitude `M ≤ 2^31` (sign given) -> double -> int32: the magnitude comes back -/
theorem f64ToInt_intToFloat (neg : Bool) (M : Nat) (h0 : M ≠ 0) (hM : M ≤ 2 ^ 31)
    (hpos : neg = false → M < 2 ^ 31) :
    f64ToInt 32 (intToFloat 52 1023 63 neg M) = if neg then (2 ^ 32 - M) % 2 ^ 32 else M := by
  have hk1 : 2 ^ M.log2 ≤ M := Nat.log2_self_le h0
  have hk2 : M < 2 ^ (M.log2 + 1) := Nat.lt_log2_self
  have hk : M.log2 ≤ 31 := by
    have : M.log2 < 32 := (Nat.log2_lt h0).mpr (by omega)
    omega
  generalize hkk : M.log2 = k at *
  -- P = M * 2^(52-k) lies in [2^52, 2^53)
  have hpow : 2 ^ k * 2 ^ (52 - k) = 2 ^ 52 := by rw [← Nat.pow_add]; congr 1; omega
  have hpos2 : 0 < 2 ^ (52 - k) := Nat.two_pow_pos _
  have hP1 : 2 ^ 52 ≤ M * 2 ^ (52 - k) := by rw [← hpow]; exact Nat.mul_le_mul_right _ hk1
  have hP2 : M * 2 ^ (52 - k) < 2 ^ 53 := by
    have : 2 ^ (k + 1) * 2 ^ (52 - k) = 2 ^ 53 := by rw [← Nat.pow_add]; congr 1; omega
    rw [← this]; exact Nat.mul_lt_mul_of_pos_right hk2 hpos2
  have hdiv : M * 2 ^ (52 - k) / 2 ^ (52 - k) = M := Nat.mul_div_cancel M hpos2
  unfold intToFloat
  simp only [h0, if_false, hkk, show k ≤ 52 by omega, if_true]
  generalize hPP : M * 2 ^ (52 - k) = P at *
  cases neg with
  | false =>
    have hM' := hpos rfl
    simp only [Bool.false_eq_true, if_false, Nat.zero_add]
    unfold f64ToInt floatToInt
    have f1 : ((k + 1023) * 2 ^ 52 + (P - 2 ^ 52)) / 2 ^ 63 = 0 := by omega
    have f2 : ((k + 1023) * 2 ^ 52 + (P - 2 ^ 52)) / 2 ^ 52 % 2048 = k + 1023 := by omega
    have f3 : ((k + 1023) * 2 ^ 52 + (P - 2 ^ 52)) % 2 ^ 52 = P - 2 ^ 52 := by omega
    simp only [f1, f2, f3]
    have e1 : ¬ (k + 1023 = 2047) := by omega
    have e2 : ¬ (k + 1023 = 0) := by omega
    have e3 : ¬ (1075 ≤ k + 1023) := by omega
    have e4 : 1075 - (k + 1023) = 52 - k := by omega
    have e5 : 2 ^ 52 + (P - 2 ^ 52) = P := by omega
    simp only [e1, e2, e3, e4, e5, if_false, if_true, hdiv]
    simp; omega
  | true =>
    simp only [if_true]
    unfold f64ToInt floatToInt
    have f1 : (2 ^ 63 + ((k + 1023) * 2 ^ 52 + (P - 2 ^ 52))) / 2 ^ 63 = 1 := by omega
    have f2 : (2 ^ 63 + ((k + 1023) * 2 ^ 52 + (P - 2 ^ 52))) / 2 ^ 52 % 2048 = k + 1023 := by omega
    have f3 : (2 ^ 63 + ((k + 1023) * 2 ^ 52 + (P - 2 ^ 52))) % 2 ^ 52 = P - 2 ^ 52 := by omega
    simp only [f1, f2, f3]
    have e1 : ¬ (k + 1023 = 2047) := by omega
    have e2 : ¬ (k + 1023 = 0) := by omega
    have e3 : ¬ (1075 ≤ k + 1023) := by omega
    have e4 : 1075 - (k + 1023) = 52 - k := by omega
    have e5 : 2 ^ 52 + (P - 2 ^ 52) = P := by omega
    simp only [e1, e2, e3, e4, e5, if_false, hdiv]
    simp; omega

/-- INT32 -> DOUBLE -> INT32 on bit patterns: `float64(int32)` is exact and `int32(float64)` reads it back -/
theorem int32_double_round_trip (x : Nat) (h : x < 2 ^ 32) : f64ToInt 32 (intToF64 32 x) = x := by
  unfold intToF64 signMag
  by_cases hx : x < 2 ^ 31
  · by_cases h0 : x = 0
    · subst h0; simp [intToFloat, f64ToInt, floatToInt]
    · have := f64ToInt_intToFloat false x h0 (by omega) (fun _ => hx)
      simpa [hx] using this
  · have := f64ToInt_intToFloat true (2 ^ 32 - x) (by omega) (by omega) (by intro h; cases h)
    have hx' : ¬ x < 2 ^ (32 - 1) := by simpa using hx
    simp only [hx', if_false]
    rw [this]; simp; omega

end PqModel.ConvValue
