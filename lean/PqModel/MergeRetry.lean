import PqModel.Merge

/-! # C09 — MIRROR of the retry loop of `bufferedRowReader.read` (merge.go:1019-1035) and its effect

A `RowReader` may answer `(0, nil)` ("less rows than requested and no error", row.go:141). In the
refill-size stream of a `Buf` such an answer is the entry `0`. `read` reads again, at most 100 more
times, then gives up with `io.ErrNoProgress`. `Buf.readE` transliterates this; `Buf.read`
(Merge.lean) is the same function on a stream without zero entries, where it clamps an entry to 1.

`readE_squash`: as long as no more than 100 zero entries follow each other, `readE` on a stream with
zero entries is `read` on the stream with the zero entries removed, so every theorem about sessions
over all refill streams covers sources that answer `(0, nil)`; `readE_stall`: 101 zero entries in a
row end in `io.ErrNoProgress`, no row is lost or invented. The code before the retry existed is
mirrored in MergeZero.lean (a stale row is re-emitted: the seeded change C09-3b removes the loop). -/
namespace PqModel.Merge

inductive ReadRes where
  | rows (b : Buf)
  | eof
  | noProgress

/-- 0 = rows, 1 = io.EOF, 2 = io.ErrNoProgress -/
def ReadRes.kind : ReadRes → Nat
  | .rows _ => 0
  | .eof => 1
  | .noProgress => 2

def ReadRes.buf? : ReadRes → Option Buf
  | .rows b => some b
  | _ => none

/-- merge.go:1024-1031: consume `(0, nil)` answers; the fuel is the number of `ReadRows` calls `read`
    makes at most (1 + 100 retries); `none` = all of them answered `(0, nil)` -/
def skipZeros : Nat → List Nat → Option (List Nat)
  | 0, _ => none
  | _ + 1, [] => some []
  | f + 1, s :: rest => if s = 0 then skipZeros f rest else some (s :: rest)

/-- merge.go:1010-1041 over a source whose refill-stream entry `0` is a `(0, nil)` answer
    (an exhausted source answers `(0, io.EOF)` whatever the stream says) -/
def Buf.readE (b : Buf) : ReadRes :=
  match b.src with
  | [] => .eof
  | _ :: _ =>
    match skipZeros 101 b.sizes with
    | none => .noProgress
    | some sizes =>
      match ({ b with sizes := sizes } : Buf).read with
      | some b' => .rows b'
      | none => .eof

/-- number of leading `(0, nil)` answers -/
def zeroRun : List Nat → Nat
  | 0 :: rest => zeroRun rest + 1
  | _ => 0

/-- the refill stream without its `(0, nil)` answers -/
def squashSizes (sizes : List Nat) : List Nat := sizes.filter (fun s => s != 0)

def Buf.squash (b : Buf) : Buf := { b with sizes := squashSizes b.sizes }

/-- no source stalls: never more than 100 `(0, nil)` answers in a row -/
def NoStall : List Nat → Prop
  | [] => True
  | s :: rest => zeroRun (s :: rest) ≤ 100 ∧ NoStall rest

theorem skipZeros_some : ∀ (f : Nat) (sizes : List Nat), zeroRun sizes < f →
    ∃ r, skipZeros f sizes = some r ∧ squashSizes r = squashSizes sizes ∧ r.head?.all (· ≠ 0) ∧
      (∃ z, sizes = List.replicate z 0 ++ r)
  | 0, _, h => by omega
  | f + 1, [], _ => ⟨[], rfl, rfl, by simp, 0, by simp⟩
  | f + 1, s :: rest, h => by
    simp only [skipZeros]
    split
    · rename_i hs
      subst hs
      have : zeroRun rest < f := by simp only [zeroRun] at h; omega
      obtain ⟨r, h1, h2, h3, z, h4⟩ := skipZeros_some f rest this
      refine ⟨r, h1, ?_, h3, z + 1, ?_⟩
      · rw [h2]; simp [squashSizes]
      · rw [h4]; simp [List.replicate_succ]
    · rename_i hs
      exact ⟨s :: rest, rfl, rfl, by simpa using hs, 0, by simp⟩

theorem skipZeros_none : ∀ (f : Nat) (sizes : List Nat), f ≤ zeroRun sizes → skipZeros f sizes = none
  | 0, _, _ => rfl
  | f + 1, [], h => by simp [zeroRun] at h
  | f + 1, s :: rest, h => by
    simp only [skipZeros]
    cases s with
    | zero =>
      simp only [if_true]
      exact skipZeros_none f rest (by simp only [zeroRun] at h; omega)
    | succ s => simp [zeroRun] at h

/-- `Buf.read` looks at the head of the stream and keeps its tail: it commutes with removing the
    zero entries behind a non-zero head -/
theorem read_squash_head (b : Buf) (hh : b.sizes.head?.all (· ≠ 0)) :
    (b.squash).read = b.read.map Buf.squash := by
  unfold Buf.read
  cases hsrc : b.src with
  | nil => simp [Buf.squash, hsrc]
  | cons x xs =>
    cases hs : b.sizes with
    | nil => simp [Buf.squash, hsrc, hs, squashSizes, Buf.nextCap]
    | cons s rest =>
      have hs0 : s ≠ 0 := by simpa [hs] using hh
      have : squashSizes (s :: rest) = s :: squashSizes rest := by simp [squashSizes, hs0]
      simp [Buf.squash, hsrc, hs, this, Buf.nextCap]

/-- **(0, nil) answers are invisible**: if at most 100 of them follow each other at the head of the
    stream, `read` (with its retry loop) behaves as `Buf.read` on the stream without them -/
theorem readE_squash (b : Buf) (h : zeroRun b.sizes ≤ 100) :
    match b.readE with
    | .rows b' => b.squash.read = some b'.squash
    | .eof => b.squash.read = none
    | .noProgress => False := by
  rcases b with ⟨src, sizes, win, cap, full⟩
  cases src with
  | nil => simp [Buf.readE, Buf.read, Buf.squash]
  | cons x xs =>
    obtain ⟨r, h1, h2, h3, _⟩ := skipZeros_some 101 sizes (by simp only at h; omega)
    simp only [Buf.readE, h1]
    have hb : ({ src := x :: xs, sizes := r, win := win, cap := cap, full := full } : Buf).squash =
        ({ src := x :: xs, sizes := sizes, win := win, cap := cap, full := full } : Buf).squash := by
      simp [Buf.squash, h2]
    have := read_squash_head { src := x :: xs, sizes := r, win := win, cap := cap, full := full } h3
    rw [hb] at this
    cases hr : ({ src := x :: xs, sizes := r, win := win, cap := cap, full := full } : Buf).read with
    | none => simp [this, hr]
    | some b' => simp [this, hr]

/-- a source that answers `(0, nil)` 101 times in a row: `io.ErrNoProgress`, the buffer is untouched -/
theorem readE_stall (b : Buf) (h : 101 ≤ zeroRun b.sizes) (hsrc : b.src ≠ []) : b.readE = .noProgress := by
  unfold Buf.readE
  cases hs : b.src with
  | nil => exact absurd hs hsrc
  | cons x xs => simp [skipZeros_none 101 b.sizes h]

/-- the hypothesis travels with the stream: what `read` leaves is a suffix -/
theorem NoStall.tail : ∀ {sizes : List Nat}, NoStall sizes → NoStall sizes.tail
  | [], _ => trivial
  | _ :: _, h => h.2

theorem NoStall.head {sizes : List Nat} (h : NoStall sizes) : zeroRun sizes ≤ 100 := by
  cases sizes with
  | nil => simp [zeroRun]
  | cons s rest => exact h.1

/-- non-vacuity and the three outcomes on concrete streams -/
example : NoStall [0, 0, 3, 0, 1] := by simp [NoStall, zeroRun]
example : ((Buf.fresh [⟨1, 0, 0⟩, ⟨2, 0, 1⟩, ⟨3, 0, 2⟩] [0, 0, 2, 0, 1]).readE.buf?.map
    (fun b' => (b'.win.map (·.key), b'.sizes))) = some ([1, 2], [0, 1]) := by decide
example : (Buf.fresh [] [0, 0, 2]).readE.kind = 1 := by decide
example : (Buf.fresh [⟨1, 0, 0⟩] (List.replicate 101 0 ++ [5])).readE.kind = 2 := by decide
example : (Buf.fresh [⟨1, 0, 0⟩] (List.replicate 100 0 ++ [5])).readE.kind = 0 := by decide

end PqModel.Merge
