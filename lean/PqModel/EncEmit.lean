import PqModel.Aad

/-! # Which bytes reach the sink raw and which go through `encryptModule` (C18, leak part)

MIRROR of the encryption branches of `writer.go`: for a file of a given structure and an
encryption configuration, `emit` lists every region the writer hands to the destination, in file
order, with the way it gets there: raw, or sealed by `encryptModule` under a key and for a module
(whose AAD is `Module.aad`). The branch conditions are transliterated (`c.encKey != nil`,
`key := pageIndexKey(column); key != nil`, `w.encryption != nil`, `enc.cfg.EncryptedFooter`),
including what they do when the footer key is missing. The write sites the function is built from
are re-extracted from the source by factgen (family `encwrites`) and compared with `siteOf` in
`Props/FactsCheckC18.lean`: a new raw write in these functions breaks the build.

What is abstract: the content of a region is a tag (`Content`), not bytes; `ColMeta` keeps the
fields of `format.ColumnMetaData` that matter for confidentiality. -/
namespace PqModel.EncEmit
open PqModel.Aad

/-- the fields of `EncryptionConfig` / `WriterConfig` the branches look at -/
structure EncCfg where
  enabled : Bool            -- `config.Encryption != nil`
  footerKeySet : Bool       -- `cfg.FooterKey != nil` (the code never validates it up front)
  hasColKey : Nat → Bool    -- `cfg.ColumnKeys[path]` present
  encFooter : Bool          -- `cfg.EncryptedFooter`
  deferredBloom : Bool      -- `config.DeferredBloomFiltersBuffers != nil`

inductive KeyRef where
  | footer
  | column (col : Nat)
deriving DecidableEq, Repr

/-- encrypt.go:153-160 `columnKeyFor` as seen by the tests `c.encKey != nil` (writer.go:1188,
    2496, 2588, 2376; concurrent row groups: newConcurrentRowGroupWriter): `none` = nil key = the
    PLAINTEXT branch is taken. -/
def keyOf (cfg : EncCfg) (col : Nat) : Option KeyRef :=
  if !cfg.enabled then none
  else if cfg.hasColKey col then some (.column col)
  else if cfg.footerKeySet then some .footer else none

/-- writer.go:1319-1336 `pageIndexKey`: by the variant of `CryptoMetadata` that writeRowGroup set
    (1700-1715: column-key variant iff `ColumnKeys[path]` exists) -/
def pageIndexKey (cfg : EncCfg) (col : Nat) : Option KeyRef :=
  if !cfg.enabled then none
  else if cfg.hasColKey col then some (.column col)      -- EncryptionWithColumnKey → columnKeyFor(path)
  else if cfg.footerKeySet then some .footer else none    -- EncryptionWithFooterKey → cfg.FooterKey

/-- confidentiality-relevant view of `format.ColumnMetaData` -/
structure ColMeta where
  typ : Nat
  codec : Nat
  numValues : Nat
  encodings : List Nat
  path : List Nat
  stats : Option (Bytes × Bytes)          -- min / max (and null count)
  encodingStats : List (Nat × Nat × Nat)
  sizeHistograms : List Nat               -- SizeStatistics
  dataPageOffset : Nat
  dictPageOffset : Nat
  bloomOffset : Nat
  bloomLength : Nat
deriving DecidableEq, Repr

def ColMeta.zero : ColMeta :=
  { typ := 0, codec := 0, numValues := 0, encodings := [], path := [], stats := none, encodingStats := [],
    sizeHistograms := [], dataPageOffset := 0, dictPageOffset := 0, bloomOffset := 0, bloomLength := 0 }

/-- the struct tells something about the values of the column -/
def ColMeta.sensitive (m : ColMeta) : Bool :=
  m.stats.isSome || !m.encodingStats.isEmpty || !m.sizeHistograms.isEmpty

structure ChunkS where
  dict : Bool
  pages : Nat
  bloom : Bool
  md : ColMeta

/-- structure of a file: row groups × columns -/
structure FileS where
  rgs : List (List ChunkS)

inductive Content where
  | magic
  | tail                                  -- footer length + magic
  | pageHeader (rg col page : Nat)        -- thrift PageHeader: sizes, encoding, PAGE STATISTICS
  | pageBody (rg col page : Nat)          -- levels and values
  | dictHeader (rg col : Nat)
  | dictBody (rg col : Nat)               -- the dictionary values
  | bloomHeader (rg col : Nat)
  | bloomBits (rg col : Nat)
  | columnIndex (rg col : Nat)            -- per-page min/max/null counts
  | offsetIndex (rg col : Nat)            -- page locations
  | columnMeta (rg col : Nat) (m : ColMeta)   -- a ColumnMetaData struct with these field values
  | footerRest                            -- schema, row-group sizes, key/value metadata, crypto metadata of the chunks
  | cryptoMeta                            -- FileCryptoMetaData / EncryptionAlgorithm: AAD prefix, file identifier
  | signature                             -- nonce ‖ tag over the plaintext footer
deriving DecidableEq, Repr

/-- the column whose values, statistics or index entries the region carries -/
def Content.column : Content → Option Nat
  | .pageHeader _ c _ | .pageBody _ c _ | .dictHeader _ c | .dictBody _ c
  | .bloomHeader _ c | .bloomBits _ c | .columnIndex _ c | .offsetIndex _ c => some c
  | .columnMeta _ c m => if m.sensitive then some c else none
  | _ => none

structure Piece where
  content : Content
  sealed : Option (KeyRef × Module)   -- none = written raw
deriving DecidableEq, Repr

/-- `if key != nil { envelope := encryptModule(key, aad(m), plain); Write(envelope) } else { Write(plain) }` -/
def viaKey (k : Option KeyRef) (c : Content) (m : Module) : Piece := ⟨c, k.map (·, m)⟩

def raw (c : Content) : Piece := ⟨c, none⟩

/-- writer.go:1589-1594 + 2560-2625 (dictionary page), 2494-2560 (data pages, in the page buffer,
    copied verbatim at 1611): site names in `siteOf` -/
def chunkPieces (cfg : EncCfg) (rg col : Nat) (ch : ChunkS) : List Piece :=
  let k := keyOf cfg col
  (if ch.dict then [viaKey k (.dictHeader rg col) (.dictPageHeader rg col), viaKey k (.dictBody rg col) (.dictPage rg col)] else []) ++
  (List.range ch.pages).flatMap (fun p =>
    [viaKey k (.pageHeader rg col p) (.dataPageHeader rg col p), viaKey k (.pageBody rg col p) (.dataPage rg col p)])

/-- writer.go:2371-2425 `writeBloomFilter` (to the file, or to the deferred buffer copied raw by
    writeDeferredBloomFilters 1284-1303: the buffer already holds the envelopes) -/
def bloomPieces (cfg : EncCfg) (rg col : Nat) (ch : ChunkS) : List Piece :=
  if ch.bloom then
    [viaKey (keyOf cfg col) (.bloomHeader rg col) (.bloomHeader rg col), viaKey (keyOf cfg col) (.bloomBits rg col) (.bloomBits rg col)]
  else []

def enumFrom {α} : Nat → List α → List (Nat × α)
  | _, [] => []
  | i, x :: xs => (i, x) :: enumFrom (i + 1) xs

/-- per row group: every column's dictionary and pages, then every column's bloom filter (unless deferred) -/
def rowGroupPieces (cfg : EncCfg) (rg : Nat) (chunks : List ChunkS) : List Piece :=
  (enumFrom 0 chunks).flatMap (fun jc => chunkPieces cfg rg jc.1 jc.2) ++
  (if cfg.deferredBloom then [] else (enumFrom 0 chunks).flatMap (fun jc => bloomPieces cfg rg jc.1 jc.2))

/-- writer.go:1338-1396: column indexes of all chunks, then offset indexes of all chunks -/
def indexPieces (cfg : EncCfg) (fs : FileS) : List Piece :=
  (enumFrom 0 fs.rgs).flatMap (fun ic => (enumFrom 0 ic.2).map (fun jc =>
    viaKey (pageIndexKey cfg jc.1) (.columnIndex ic.1 jc.1) (.columnIndex ic.1 jc.1))) ++
  (enumFrom 0 fs.rgs).flatMap (fun ic => (enumFrom 0 ic.2).map (fun jc =>
    viaKey (pageIndexKey cfg jc.1) (.offsetIndex ic.1 jc.1) (.offsetIndex ic.1 jc.1)))

/-- the copy of the column metadata that stays in a plaintext footer: writeRowGroup zeroes the
    footer's copy (`c.MetaData = format.ColumnMetaData{}` on `columns[i]`), and
    writeDeferredBloomFilters later stores the bloom filter offset and length in it (1289-1301) -/
def redact (cfg : EncCfg) (ch : ChunkS) : ColMeta :=
  if cfg.deferredBloom && ch.bloom then { ColMeta.zero with bloomOffset := ch.md.bloomOffset, bloomLength := ch.md.bloomLength }
  else ColMeta.zero

/-- the metadata of the chunks as they travel with the footer -/
def footerPieces (cfg : EncCfg) (fs : FileS) : List Piece :=
  if !cfg.enabled then
    -- 1482-1490: `encoder.Encode(&w.fileMetaData)` raw
    raw .footerRest :: (enumFrom 0 fs.rgs).flatMap (fun ic => (enumFrom 0 ic.2).map (fun jc => raw (.columnMeta ic.1 jc.1 jc.2.md)))
  else if cfg.encFooter then
    -- 1415-1447: FileCryptoMetaData raw, then ONE envelope under the footer key holding the whole
    -- FileMetaData (a nil footer key makes encryptModule fail: nothing more is written)
    if cfg.footerKeySet then
      raw .cryptoMeta :: viaKey (some .footer) .footerRest .footer ::
        (enumFrom 0 fs.rgs).flatMap (fun ic => (enumFrom 0 ic.2).map (fun jc => viaKey (some .footer) (.columnMeta ic.1 jc.1 jc.2.md) .footer))
    else []
  else
    -- 1450-1476: FileMetaData raw (EncryptionAlgorithm inside), each chunk with the redacted copy raw
    -- and the full struct sealed inline (1716-1737, key = columnKeyFor(path)), then the signature
    if cfg.footerKeySet then
      raw .footerRest :: raw .cryptoMeta ::
        (enumFrom 0 fs.rgs).flatMap (fun ic => (enumFrom 0 ic.2).flatMap (fun jc =>
          [raw (.columnMeta ic.1 jc.1 (redact cfg jc.2)), viaKey (keyOf cfg jc.1) (.columnMeta ic.1 jc.1 jc.2.md) (.columnMeta ic.1 jc.1)])) ++
        [raw .signature]
    else []

/-- everything the writer hands to the destination, in file order -/
def emit (fs : FileS) (cfg : EncCfg) : List Piece :=
  raw .magic ::
  (enumFrom 0 fs.rgs).flatMap (fun ic => rowGroupPieces cfg ic.1 ic.2) ++
  (if cfg.deferredBloom then (enumFrom 0 fs.rgs).flatMap (fun ic => (enumFrom 0 ic.2).flatMap (fun jc => bloomPieces cfg ic.1 jc.1 jc.2)) else []) ++
  indexPieces cfg fs ++ footerPieces cfg fs ++ [raw .tail]

/-- the write site of writer.go that puts a region in the file (names as factgen produces them) -/
def siteOf (sealed : Bool) : Content → String
  | .magic => "writer.writeFileHeader:w.writer.WriteString(magic)"
  | .tail => "writer.writeFileFooter:w.writer.Write(w.footer[:])"
  | .pageHeader .. => if sealed then "ColumnWriter.writeDataPage:output.Write(encHdr)" else "ColumnWriter.writeDataPage:output.Write(data)"
  | .pageBody .. => if sealed then "ColumnWriter.writeDataPage:output.Write(encBody)" else "ColumnWriter.writeDataPage:output.Write(data)"
  | .dictHeader .. => if sealed then "ColumnWriter.writeDictionaryPage:output.Write(encHdr)" else "ColumnWriter.writeDictionaryPage:output.Write(c.header.buffer.Bytes())"
  | .dictBody .. => if sealed then "ColumnWriter.writeDictionaryPage:output.Write(encBody)" else "ColumnWriter.writeDictionaryPage:output.Write(buf.page)"
  | .bloomHeader .. => if sealed then "ColumnWriter.writeBloomFilter:w.Write(encHdr)" else "ColumnWriter.writeBloomFilter:e.Encode(&h)"
  | .bloomBits .. => if sealed then "ColumnWriter.writeBloomFilter:w.Write(encBits)" else "ColumnWriter.writeBloomFilter:w.Write(filterBytes)"
  | .columnIndex .. => if sealed then "writer.writeFileFooter:w.writer.Write(envelope)" else "writer.writeFileFooter:encoder.Encode(&columnIndexes[j])"
  | .offsetIndex .. => if sealed then "writer.writeFileFooter:w.writer.Write(envelope)" else "writer.writeFileFooter:encoder.Encode(&offsetIndexes[j])"
  | .columnMeta .. | .footerRest => if sealed then "writer.writeFileFooter:w.writer.Write(encFooter)" else "writer.writeFileFooter:w.writer.Write(footerBytes)"
  | .cryptoMeta => "writer.writeFileFooter:encoder.Encode(&cryptoMeta)"
  | .signature => "writer.writeFileFooter:w.writer.Write(sig)"

/-! ## lemmas -/

/-- the sealed module that belongs to a region, and the column it belongs to -/
def Content.modCol : Content → Option (Module × Nat)
  | .pageHeader rg c p => some (.dataPageHeader rg c p, c)
  | .pageBody rg c p => some (.dataPage rg c p, c)
  | .dictHeader rg c => some (.dictPageHeader rg c, c)
  | .dictBody rg c => some (.dictPage rg c, c)
  | .bloomHeader rg c => some (.bloomHeader rg c, c)
  | .bloomBits rg c => some (.bloomBits rg c, c)
  | .columnIndex rg c => some (.columnIndex rg c, c)
  | .offsetIndex rg c => some (.offsetIndex rg c, c)
  | .columnMeta rg c _ => some (.columnMeta rg c, c)
  | _ => none

/-- the five ways a region reaches the file -/
inductive Shape (cfg : EncCfg) : Piece → Prop where
  /-- framing and structure: never carries values -/
  | framing (c : Content) (h : c = .magic ∨ c = .tail ∨ c = .footerRest ∨ c = .cryptoMeta ∨ c = .signature) : Shape cfg (raw c)
  /-- a writer without encryption writes the column metadata as it is -/
  | plainMeta (rg col : Nat) (m : ColMeta) (h : cfg.enabled = false) : Shape cfg (raw (.columnMeta rg col m))
  /-- plaintext-footer mode: the redacted copy -/
  | redacted (rg col : Nat) (ch : ChunkS) : Shape cfg (raw (.columnMeta rg col (redact cfg ch)))
  /-- a module of column `col`, through the key test of that column -/
  | keyed (col : Nat) (c : Content) (m : Module) (h : c.modCol = some (m, col)) : Shape cfg (viaKey (keyOf cfg col) c m)
  /-- encrypted-footer mode: part of the one footer envelope, under the footer key -/
  | inFooter (c : Content) (h : c = .footerRest ∨ ∃ rg col m, c = .columnMeta rg col m) (hf : cfg.encFooter = true) :
      Shape cfg (viaKey (some .footer) c .footer)

def All (P : Piece → Prop) (l : List Piece) : Prop := ∀ p ∈ l, P p

theorem all_nil {P} : All P [] := fun _ h => nomatch h

theorem all_cons {P} {p : Piece} {l : List Piece} (hp : P p) (hl : All P l) : All P (p :: l) := by
  intro q hq
  rcases List.mem_cons.1 hq with rfl | h
  · exact hp
  · exact hl q h

theorem all_append {P} {a b : List Piece} (ha : All P a) (hb : All P b) : All P (a ++ b) := by
  intro q hq
  rcases List.mem_append.1 hq with h | h
  · exact ha q h
  · exact hb q h

theorem all_flatMap {P} {α} {l : List α} {f : α → List Piece} (h : ∀ x ∈ l, All P (f x)) : All P (l.flatMap f) := by
  intro q hq
  obtain ⟨x, hx, hq⟩ := List.mem_flatMap.1 hq
  exact h x hx q hq

theorem all_map {P} {α} {l : List α} {f : α → Piece} (h : ∀ x ∈ l, P (f x)) : All P (l.map f) := by
  intro q hq
  obtain ⟨x, hx, rfl⟩ := List.mem_map.1 hq
  exact h x hx

theorem pageIndexKey_eq (cfg : EncCfg) (col : Nat) : pageIndexKey cfg col = keyOf cfg col := rfl

theorem keyOf_isSome {cfg : EncCfg} (he : cfg.enabled = true) (hk : cfg.footerKeySet = true) (col : Nat) :
    (keyOf cfg col).isSome := by
  unfold keyOf; simp [he, hk]; split <;> simp

theorem redact_not_sensitive (cfg : EncCfg) (ch : ChunkS) : (redact cfg ch).sensitive = false := by
  unfold redact; split <;> simp [ColMeta.sensitive, ColMeta.zero]

theorem chunkPieces_shape (cfg : EncCfg) (rg col : Nat) (ch : ChunkS) : All (Shape cfg) (chunkPieces cfg rg col ch) := by
  unfold chunkPieces
  apply all_append
  · split
    · exact all_cons (.keyed col _ _ rfl) (all_cons (.keyed col _ _ rfl) all_nil)
    · exact all_nil
  · exact all_flatMap (fun p _ => all_cons (.keyed col _ _ rfl) (all_cons (.keyed col _ _ rfl) all_nil))

theorem bloomPieces_shape (cfg : EncCfg) (rg col : Nat) (ch : ChunkS) : All (Shape cfg) (bloomPieces cfg rg col ch) := by
  unfold bloomPieces
  split
  · exact all_cons (.keyed col _ _ rfl) (all_cons (.keyed col _ _ rfl) all_nil)
  · exact all_nil

theorem footerPieces_shape (cfg : EncCfg) (fs : FileS) : All (Shape cfg) (footerPieces cfg fs) := by
  unfold footerPieces
  split
  · rename_i h
    have h : cfg.enabled = false := by simpa using h
    exact all_cons (.framing _ (by simp)) (all_flatMap (fun ic _ => all_map (fun jc _ => .plainMeta _ _ _ h)))
  · split
    · rename_i hf
      split
      · refine all_cons (.framing _ (by simp)) (all_cons (.inFooter _ (Or.inl rfl) hf) ?_)
        exact all_flatMap (fun ic _ => all_map (fun jc _ => .inFooter _ (Or.inr ⟨_, _, _, rfl⟩) hf))
      · exact all_nil
    · split
      · refine all_cons (.framing _ (by simp)) (all_cons (.framing _ (by simp)) (all_append ?_ (all_cons (.framing _ (by simp)) all_nil)))
        exact all_flatMap (fun ic _ => all_flatMap (fun jc _ => all_cons (.redacted _ _ _) (all_cons (.keyed jc.1 _ _ rfl) all_nil)))
      · exact all_nil

/-- every region the writer emits has one of the five shapes -/
theorem emit_shape (fs : FileS) (cfg : EncCfg) : All (Shape cfg) (emit fs cfg) := by
  unfold emit
  refine all_cons (.framing _ (by simp)) ?_
  refine all_append (all_append (all_append (all_append ?_ ?_) ?_) (footerPieces_shape cfg fs)) (all_cons (.framing _ (by simp)) all_nil)
  · refine all_flatMap (fun ic _ => ?_)
    unfold rowGroupPieces
    refine all_append (all_flatMap (fun jc _ => chunkPieces_shape cfg _ _ _)) ?_
    split
    · exact all_nil
    · exact all_flatMap (fun jc _ => bloomPieces_shape cfg _ _ _)
  · split
    · exact all_flatMap (fun ic _ => all_flatMap (fun jc _ => bloomPieces_shape cfg _ _ _))
    · exact all_nil
  · unfold indexPieces
    exact all_append
      (all_flatMap (fun ic _ => all_map (fun jc _ => by rw [pageIndexKey_eq]; exact .keyed jc.1 _ _ rfl)))
      (all_flatMap (fun ic _ => all_map (fun jc _ => by rw [pageIndexKey_eq]; exact .keyed jc.1 _ _ rfl)))

/-- a region's column is the column of its module -/
theorem column_of_modCol {c : Content} {col : Nat} (h : c.column = some col) : ∃ m, c.modCol = some (m, col) := by
  cases c <;> simp [Content.column] at h <;> first
    | (subst h; exact ⟨_, rfl⟩)
    | (obtain ⟨_, rfl⟩ := h; exact ⟨_, rfl⟩)

end PqModel.EncEmit
