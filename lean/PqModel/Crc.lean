namespace PqModel.Crc

/-! CRC-32 (IEEE, reflected): bit-serial register, burst detection (width ≤ 32), and the byte-wise
    algorithm proven equal to the bit-serial one. Spec side (written from the CRC definition). -/

def P : BitVec 32 := 0xEDB88320#32

def stepBit (s : BitVec 32) (c : Bool) : BitVec 32 :=
  (s >>> 1) ^^^ (if (s.getLsbD 0 != c) then P else 0#32)

def L (d : BitVec 32) : BitVec 32 := stepBit d false

def run (s : BitVec 32) (bits : List Bool) : BitVec 32 := bits.foldl stepBit s

def crcBits (bits : List Bool) : BitVec 32 := ~~~ (run 0xFFFFFFFF#32 bits)

def iter (f : α → α) : Nat → α → α
  | 0, x => x
  | n + 1, x => iter f n (f x)

def xorBits : List Bool → List Bool → List Bool
  | a :: as, b :: bs => (a != b) :: xorBits as bs
  | as, [] => as
  | [], _ => []

/-! ### xor algebra on BitVec 32 by extensionality -/

theorem bv_ext {a b : BitVec 32} (h : ∀ i, i < 32 → a.getLsbD i = b.getLsbD i) : a = b :=
  BitVec.eq_of_getLsbD_eq (fun i hi => h i hi)

theorem stepBit_linear (s d : BitVec 32) (c e : Bool) :
    stepBit (s ^^^ d) (c != e) = stepBit s c ^^^ stepBit d e := by
  apply bv_ext
  intro i _
  unfold stepBit
  simp only [BitVec.getLsbD_xor, BitVec.getLsbD_ushiftRight]
  cases s.getLsbD 0 <;> cases d.getLsbD 0 <;> cases c <;> cases e <;>
    simp <;> cases s.getLsbD (1 + i) <;> cases d.getLsbD (1 + i) <;> cases P.getLsbD i <;> rfl

theorem stepBit_zero_false : stepBit 0#32 false = 0#32 := by decide
theorem stepBit_zero_true : stepBit 0#32 true = P := by decide

theorem L_linear (a b : BitVec 32) : L (a ^^^ b) = L a ^^^ L b := by
  have := stepBit_linear a b false false
  simpa [L] using this

theorem L_zero : L 0#32 = 0#32 := stepBit_zero_false

theorem iterL_linear : ∀ (n : Nat) (a b : BitVec 32), iter L n (a ^^^ b) = iter L n a ^^^ iter L n b
  | 0, _, _ => rfl
  | n + 1, a, b => by simp only [iter, L_linear, iterL_linear n]

theorem iterL_zero : ∀ n, iter L n 0#32 = 0#32
  | 0 => rfl
  | n + 1 => by simp only [iter, L_zero, iterL_zero n]

theorem L_inj0 (d : BitVec 32) (h : L d = 0#32) : d = 0#32 := by
  unfold L stepBit at h
  have hbit : ∀ i, ((d >>> 1) ^^^ (if (d.getLsbD 0 != false) then P else 0#32)).getLsbD i = false := by
    intro i; rw [h]; simp
  cases h0 : d.getLsbD 0
  · apply bv_ext
    intro i hi
    cases i with
    | zero => simpa using h0
    | succ i =>
      have := hbit i
      have h0' : d[0] = false := by simpa using h0
      simp [h0', BitVec.getLsbD_ushiftRight] at this
      simpa [Nat.add_comm] using this
  · have := hbit 31
    have h0' : d[0] = true := by simpa using h0
    simp [h0', P] at this

theorem iterL_inj0 : ∀ (n : Nat) (d : BitVec 32), iter L n d = 0#32 → d = 0#32
  | 0, _, h => h
  | n + 1, d, h => L_inj0 d (iterL_inj0 n (L d) h)

theorem xor_assoc' (a b c : BitVec 32) : a ^^^ b ^^^ c = a ^^^ (b ^^^ c) := BitVec.xor_assoc a b c

/-- superposition: the run from `s` is the free evolution of `s` plus the run from zero -/
theorem run_split : ∀ (e : List Bool) (s : BitVec 32), run s e = iter L e.length s ^^^ run 0#32 e
  | [], s => by simp [run, iter]
  | b :: e, s => by
    have h1 : run s (b :: e) = run (stepBit s b) e := rfl
    have h2 : run 0#32 (b :: e) = run (stepBit 0#32 b) e := rfl
    have hs : stepBit s b = L s ^^^ stepBit 0#32 b := by
      have := stepBit_linear s 0#32 false b
      simpa [L] using this
    rw [h1, h2, run_split e (stepBit s b), run_split e (stepBit 0#32 b), hs, iterL_linear]
    simp only [List.length_cons, iter]
    rw [xor_assoc']

theorem run_append (s : BitVec 32) (a b : List Bool) : run s (a ++ b) = run (run s a) b := by
  simp [run, List.foldl_append]

/-- flipping bits by pattern `e` changes the run by the zero-state response to `e` -/
theorem run_xor : ∀ (a e : List Bool) (s : BitVec 32), e.length = a.length →
    run s (xorBits a e) = run s a ^^^ run 0#32 e
  | [], [], s, _ => by simp [run, xorBits]
  | a :: as, b :: bs, s, h => by
    have hl : bs.length = as.length := by simpa using h
    have h1 : run s (xorBits (a :: as) (b :: bs)) = run (stepBit s (a != b)) (xorBits as bs) := rfl
    have hs : stepBit s (a != b) = stepBit s a ^^^ stepBit 0#32 b := by
      have := stepBit_linear s 0#32 a b
      simpa using this
    rw [h1, run_xor as bs _ hl, hs]
    have h2 : run s (a :: as) = run (stepBit s a) as := rfl
    have h3 : run 0#32 (b :: bs) = run (stepBit 0#32 b) bs := rfl
    rw [h2, h3, run_split as (stepBit s a ^^^ stepBit 0#32 b), run_split as (stepBit s a),
      run_split bs (stepBit 0#32 b), iterL_linear, hl]
    apply bv_ext; intro i _
    simp only [BitVec.getLsbD_xor]
    cases (iter L as.length (stepBit s a)).getLsbD i <;> cases (iter L as.length (stepBit 0#32 b)).getLsbD i <;>
      cases (run 0#32 as).getLsbD i <;> cases (run 0#32 bs).getLsbD i <;> rfl
  | [], _ :: _, _, h => by simp at h
  | _ :: _, [], _, h => by simp at h

/-! ### independence certificate -/

def vs : List (BitVec 32) := [0xEDB88320#32, 0x76DC4190#32, 0x3B6E20C8#32, 0x1DB71064#32, 0x0EDB8832#32, 0x076DC419#32, 0xEE0E612C#32, 0x77073096#32, 0x3B83984B#32, 0xF0794F05#32, 0x958424A2#32, 0x4AC21251#32, 0xC8D98A08#32, 0x646CC504#32, 0x32366282#32, 0x191B3141#32, 0xE1351B80#32, 0x709A8DC0#32, 0x384D46E0#32, 0x1C26A370#32, 0x0E1351B8#32, 0x0709A8DC#32, 0x0384D46E#32, 0x01C26A37#32, 0xED59B63B#32, 0x9B14583D#32, 0xA032AF3E#32, 0x5019579F#32, 0xC5B428EF#32, 0x8F629757#32, 0xAA09C88B#32, 0xB8BC6765#32]
def rs : List (BitVec 32) := [0x64428D55#32, 0xD663CBFF#32, 0x0F7368AA#32, 0x87B9B455#32, 0xA79E577F#32, 0x378DA6EA#32, 0x9BC6D375#32, 0xA9A1E4EF#32, 0x30927F22#32, 0x18493F91#32, 0xE866129D#32, 0x9071841B#32, 0x2C7A4F58#32, 0x963D27AC#32, 0x4B1E93D6#32, 0xA58F49EB#32, 0xB68529A0#32, 0x5B4294D0#32, 0x2DA14A68#32, 0x16D0A534#32, 0x8B68529A#32, 0xC5B4294D#32, 0x869899F3#32, 0xA70EC1AC#32, 0xD38760D6#32, 0xE9C3B06B#32, 0x10A35560#32, 0x8851AAB0#32, 0x4428D558#32, 0x22146AAC#32, 0x910A3556#32, 0xC8851AAB#32]

/-- parity of the number of set bits -/
def parityAux (v : BitVec 32) : Nat → Bool
  | 0 => false
  | n + 1 => parityAux v n != v.getLsbD n

def parity (v : BitVec 32) : Bool := parityAux v 32

theorem parityAux_xor (a b : BitVec 32) : ∀ n, parityAux (a ^^^ b) n = (parityAux a n != parityAux b n)
  | 0 => rfl
  | n + 1 => by
    simp only [parityAux, parityAux_xor a b n, BitVec.getLsbD_xor]
    cases parityAux a n <;> cases parityAux b n <;> cases a.getLsbD n <;> cases b.getLsbD n <;> rfl

theorem parity_xor (a b : BitVec 32) : parity (a ^^^ b) = (parity a != parity b) := parityAux_xor a b 32

def phi (j : Nat) (x : BitVec 32) : Bool := parity (rs[j]! &&& x)

theorem phi_xor (j : Nat) (a b : BitVec 32) : phi j (a ^^^ b) = (phi j a != phi j b) := by
  unfold phi
  have : rs[j]! &&& (a ^^^ b) = (rs[j]! &&& a) ^^^ (rs[j]! &&& b) := by
    apply bv_ext; intro i _
    simp only [BitVec.getLsbD_and, BitVec.getLsbD_xor]
    cases (rs[j]!).getLsbD i <;> cases a.getLsbD i <;> cases b.getLsbD i <;> rfl
  rw [this, parity_xor]

theorem phi_zero (j : Nat) : phi j 0#32 = false := by
  unfold phi
  have : rs[j]! &&& 0#32 = 0#32 := by
    apply bv_ext; intro i _; simp
  rw [this]; decide

def orbitOk : Bool := (List.range 32).all fun i => vs[i]! == iter L i P
def certOk : Bool :=
  (List.range 32).all fun i => (List.range 32).all fun j => phi j (vs[i]!) == (i == j)

theorem orbit_ok : orbitOk = true := by decide +kernel
theorem cert_ok : certOk = true := by decide +kernel

theorem orbit_at {i : Nat} (hi : i < 32) : iter L i P = vs[i]! := by
  have := orbit_ok
  unfold orbitOk at this
  have h := (List.all_eq_true.mp this) i (by simp [hi])
  exact (eq_of_beq h).symm

theorem cert_at {i j : Nat} (hi : i < 32) (hj : j < 32) : phi j (vs[i]!) = (i == j) := by
  have := cert_ok
  unfold certOk at this
  have h := (List.all_eq_true.mp ((List.all_eq_true.mp this) i (by simp [hi]))) j (by simp [hj])
  exact eq_of_beq h

/-- zero-state response, unrolled one step -/
theorem run0_cons (b : Bool) (e : List Bool) :
    run 0#32 (b :: e) = (if b then iter L e.length P else 0#32) ^^^ run 0#32 e := by
  have h : run 0#32 (b :: e) = run (stepBit 0#32 b) e := rfl
  rw [h, run_split]
  cases b
  · simp [stepBit_zero_false, iterL_zero]
  · simp [stepBit_zero_true]

/-- the dual functionals read off the error bits -/
theorem phi_run0 : ∀ (e : List Bool), e.length ≤ 32 → ∀ j, j < 32 →
    phi j (run 0#32 e) = (if j < e.length then e[e.length - 1 - j]! else false)
  | [], _, j, _ => by simp [run, phi_zero]
  | b :: e, hl, j, hj => by
    have hl' : e.length ≤ 32 := by simp at hl; omega
    have hlt : e.length < 32 := by simp at hl; omega
    rw [run0_cons, phi_xor, phi_run0 e hl' j hj]
    have hv : phi j (if b then iter L e.length P else 0#32) = (b && (e.length == j)) := by
      cases b
      · simp [phi_zero]
      · simp only [if_true, Bool.true_and]
        rw [orbit_at hlt, cert_at hlt hj]
    rw [hv]
    simp only [List.length_cons]
    by_cases h1 : j < e.length
    · have hne : (e.length == j) = false := by simp; omega
      have h2 : j < e.length + 1 := by omega
      simp only [hne, Bool.and_false, h1, h2, if_true]
      have : e.length + 1 - 1 - j = (e.length - 1 - j) + 1 := by omega
      rw [this]
      simp
    · by_cases h3 : j = e.length
      · subst h3
        simp
      · have hne : (e.length == j) = false := by simp; omega
        have h2 : ¬ j < e.length + 1 := by omega
        simp [hne, h1, h2]

theorem run0_ne_zero (e : List Bool) (hl : e.length ≤ 31) : run 0#32 (true :: e) ≠ 0#32 := by
  intro h
  have := phi_run0 (true :: e) (by simp; omega) e.length (by omega)
  rw [h, phi_zero] at this
  simp at this

theorem not_inj (a b : BitVec 32) (h : a ≠ b) : ~~~a ≠ ~~~b := by
  intro hab
  apply h
  have := congrArg (fun x => ~~~x) hab
  simpa using this

theorem xor_eq_self_iff (a d : BitVec 32) (h : a ^^^ d = a) : d = 0#32 := by
  apply bv_ext; intro i hi
  have := congrArg (fun x => x.getLsbD i) h
  simp only [BitVec.getLsbD_xor] at this
  cases ha : a.getLsbD i <;> cases hd : d.getLsbD i <;> simp [ha, hd] at this ⊢

/-- C13 core: any burst error of width ≤ 32 (first flipped bit at the burst start) changes the CRC. -/
theorem crc_burst (pre mid post e : List Bool) (he : (true :: e).length = mid.length)
    (hw : (true :: e).length ≤ 32) :
    crcBits (pre ++ xorBits mid (true :: e) ++ post) ≠ crcBits (pre ++ mid ++ post) := by
  apply not_inj
  intro h
  rw [List.append_assoc, List.append_assoc, run_append, run_append, run_append, run_append,
    run_xor mid (true :: e) _ he, run_split post, run_split post (run (run _ pre) mid), iterL_linear] at h
  have h2 : iter L post.length (run 0#32 (true :: e)) = 0#32 := by
    apply xor_eq_self_iff (iter L post.length (run (run 0xFFFFFFFF#32 pre) mid) ^^^ run 0#32 post)
    have hac : ∀ (x r d : BitVec 32), (x ^^^ r) ^^^ d = x ^^^ d ^^^ r := by
      intro x r d
      apply bv_ext; intro i _
      simp only [BitVec.getLsbD_xor]
      cases x.getLsbD i <;> cases r.getLsbD i <;> cases d.getLsbD i <;> rfl
    rw [hac, h]
  exact run0_ne_zero e (by simp at hw; omega) (iterL_inj0 _ _ h2)

/-! ## Byte level

`crc32` below is the byte-wise reflected CRC-32/IEEE (xor the byte into the low 8 bits of the register,
shift 8 times; init and final xor 0xFFFFFFFF) — the textbook algorithm `hash/crc32` tabulates
(`simpleMakeTable`/`simpleUpdate`; the slicing-8 and CLMUL kernels Go actually runs on amd64 are tied to
it by the L2 check `C13/crc`, not proved). `crc32_eq_crcBits` connects it to the bit-serial register the
burst theorem is about; bits of a byte enter least-significant first. -/

/-- one shift of the register: `crc = crc>>1 ^ (poly if crc&1 == 1)` -/
def shift1 (s : BitVec 32) : BitVec 32 := (s >>> 1) ^^^ (if s.getLsbD 0 then P else 0#32)
/-- bytewise update: xor the byte into the low 8 bits, 8 shifts -/
def updByte (s : BitVec 32) (b : UInt8) : BitVec 32 := iter shift1 8 (s ^^^ b.toBitVec.setWidth 32)
/-- bits of a byte, least significant first (transmission order of the reflected CRC) -/
def byteBits (b : UInt8) : List Bool := (List.range 8).map (fun i => b.toBitVec.getLsbD i)
def bytesToBits : List UInt8 → List Bool
  | [] => []
  | b :: bs => byteBits b ++ bytesToBits bs
/-- `crc32.Update(crc, crc32.IEEETable, data)` -/
def crc32Update (crc : BitVec 32) (data : List UInt8) : BitVec 32 := ~~~ (data.foldl updByte (~~~ crc))
/-- `crc32.ChecksumIEEE(data)` -/
def crc32 (data : List UInt8) : BitVec 32 := crc32Update 0#32 data

theorem shift1_eq_L : shift1 = L := by
  funext s
  simp [shift1, L, stepBit]

def byteTableOk : Bool :=
  (List.range 256).all fun n => iter L 8 (BitVec.ofNat 32 n) == run 0#32 (byteBits (UInt8.ofNat n))

theorem byteTable_ok : byteTableOk = true := by decide +kernel

theorem byte_response (b : UInt8) : iter L 8 (b.toBitVec.setWidth 32) = run 0#32 (byteBits b) := by
  have := byteTable_ok
  unfold byteTableOk at this
  have h := (List.all_eq_true.mp this) b.toNat (by simp; exact b.toNat_lt)
  have h1 : UInt8.ofNat b.toNat = b := by simp
  have h2 : BitVec.ofNat 32 b.toNat = b.toBitVec.setWidth 32 := by
    apply BitVec.eq_of_toNat_eq
    simp
  rw [h1, h2] at h
  exact eq_of_beq h

theorem byteBits_length (b : UInt8) : (byteBits b).length = 8 := by simp [byteBits]

theorem updByte_eq_run (s : BitVec 32) (b : UInt8) : updByte s b = run s (byteBits b) := by
  unfold updByte
  rw [shift1_eq_L, iterL_linear, byte_response, run_split (byteBits b) s, byteBits_length]

theorem foldl_updByte_eq_run : ∀ (data : List UInt8) (s : BitVec 32),
    data.foldl updByte s = run s (bytesToBits data)
  | [], s => by simp [bytesToBits, run]
  | b :: bs, s => by
    simp only [List.foldl_cons, bytesToBits, run_append]
    rw [foldl_updByte_eq_run bs, updByte_eq_run]

theorem crc32_eq_crcBits (data : List UInt8) : crc32 data = crcBits (bytesToBits data) := by
  unfold crc32 crc32Update crcBits
  rw [foldl_updByte_eq_run]
  congr

/-- `writerBuffers.crc32` (writer.go:1880-1885) chains `Update` over rep, def, page: same as one pass over the concatenation -/
theorem crc32Update_append (crc : BitVec 32) (a b : List UInt8) :
    crc32Update (crc32Update crc a) b = crc32Update crc (a ++ b) := by
  simp [crc32Update, List.foldl_append]

def AllFalse (l : List Bool) : Prop := ∀ b ∈ l, b = false

theorem run_allFalse : ∀ (l : List Bool) (s : BitVec 32), AllFalse l → run s l = iter L l.length s
  | [], s, _ => rfl
  | b :: l, s, h => by
    have hb : b = false := h b (by simp)
    subst hb
    have h1 : run s (false :: l) = run (L s) l := rfl
    rw [h1, run_allFalse l _ (fun x hx => h x (by simp [hx]))]
    rfl

theorem run0_allFalse (l : List Bool) (h : AllFalse l) : run 0#32 l = 0#32 := by
  rw [run_allFalse _ _ h, iterL_zero]

theorem split_first_true : ∀ (E : List Bool), (∃ k : Nat, E[k]? = some true) →
    ∃ A e, E = A ++ true :: e ∧ AllFalse A
  | [], h => by obtain ⟨k, hk⟩ := h; simp at hk
  | true :: E, _ => ⟨[], E, rfl, by intro b hb; simp at hb⟩
  | false :: E, h => by
    obtain ⟨k, hk⟩ := h
    cases k with
    | zero => simp at hk
    | succ k =>
      obtain ⟨A, e, hE, hA⟩ := split_first_true E ⟨k, by simpa using hk⟩
      refine ⟨false :: A, e, by simp [hE], ?_⟩
      intro b hb
      simp at hb
      cases hb with
      | inl h => exact h
      | inr h => exact hA b h

/-- zero-state response to an error pattern that is non-zero and fits a 32-bit window -/
theorem run0_window (E : List Bool) (lo : Nat) (hne : ∃ k : Nat, E[k]? = some true)
    (hw : ∀ k : Nat, E[k]? = some true → lo ≤ k ∧ k < lo + 32) : run 0#32 E ≠ 0#32 := by
  obtain ⟨A, e, rfl, hA⟩ := split_first_true E hne
  have h0 := hw A.length (by simp)
  have hdrop : AllFalse (e.drop 31) := by
    intro b hb
    cases b with
    | false => rfl
    | true =>
      exfalso
      obtain ⟨k, hk⟩ := List.getElem?_of_mem hb
      have hk' : e[31 + k]? = some true := by simpa [List.getElem?_drop] using hk
      have := hw (A.length + (1 + (31 + k))) (by
        rw [List.getElem?_append_right (by omega)]
        have : A.length + (1 + (31 + k)) - A.length = (31 + k) + 1 := by omega
        rw [this]
        simpa using hk')
      omega
  have hsplit : A ++ true :: e = A ++ ((true :: e.take 31) ++ e.drop 31) := by
    simp [List.take_append_drop]
  rw [hsplit, run_append, run_append, run0_allFalse A hA, run_allFalse _ _ hdrop]
  intro h
  exact run0_ne_zero (e.take 31) (by simp; omega) (iterL_inj0 _ _ h)

theorem xorBits_length : ∀ (a e : List Bool), e.length = a.length → (xorBits a e).length = a.length
  | [], [], _ => rfl
  | a :: as, b :: bs, h => by
    simp only [xorBits, List.length_cons]
    rw [xorBits_length as bs (by simpa using h)]
  | [], _ :: _, h => by simp at h
  | _ :: _, [], h => by simp at h

/-- C13 core, general form: xor-ing into the message any non-zero error pattern whose set bits all
    lie in one window of 32 consecutive bit positions changes the CRC. -/
theorem crcBits_window (a E : List Bool) (hlen : E.length = a.length) (lo : Nat)
    (hne : ∃ k : Nat, E[k]? = some true) (hw : ∀ k : Nat, E[k]? = some true → lo ≤ k ∧ k < lo + 32) :
    crcBits (xorBits a E) ≠ crcBits a := by
  apply not_inj
  intro h
  rw [run_xor a E _ hlen] at h
  exact run0_window E lo hne hw (xor_eq_self_iff _ _ h)


/-! ### bytes: xor masks, bit addressing -/

def xorBytes : List UInt8 → List UInt8 → List UInt8
  | a :: as, b :: bs => (a ^^^ b) :: xorBytes as bs
  | as, [] => as
  | [], _ => []

/-- bit `k` of a byte string in CRC transmission order: byte `k / 8`, bit `k % 8` counted from the
    least significant bit (the reflected CRC shifts the low bit of every byte in first). -/
def bitAt (bs : List UInt8) (k : Nat) : Bool := (bs.getD (k / 8) 0).toBitVec.getLsbD (k % 8)

theorem byteBits_eq (b : UInt8) : byteBits b =
    [b.toBitVec.getLsbD 0, b.toBitVec.getLsbD 1, b.toBitVec.getLsbD 2, b.toBitVec.getLsbD 3,
     b.toBitVec.getLsbD 4, b.toBitVec.getLsbD 5, b.toBitVec.getLsbD 6, b.toBitVec.getLsbD 7] := by
  simp [byteBits, List.range, List.range.loop]

theorem byteBits_xor (a b : UInt8) : byteBits (a ^^^ b) = xorBits (byteBits a) (byteBits b) := by
  simp [byteBits_eq, xorBits]

theorem xorBits_append : ∀ (a1 e1 a2 e2 : List Bool), e1.length = a1.length →
    xorBits (a1 ++ a2) (e1 ++ e2) = xorBits a1 e1 ++ xorBits a2 e2
  | [], [], a2, e2, _ => by simp [xorBits]
  | a :: as, b :: bs, a2, e2, h => by
    simp only [List.cons_append, xorBits]
    rw [xorBits_append as bs a2 e2 (by simpa using h)]
  | [], _ :: _, _, _, h => by simp at h
  | _ :: _, [], _, _, h => by simp at h

theorem bytesToBits_length : ∀ (bs : List UInt8), (bytesToBits bs).length = 8 * bs.length
  | [] => rfl
  | b :: bs => by simp [bytesToBits, byteBits_length, bytesToBits_length bs]; omega

theorem bytesToBits_append : ∀ (a b : List UInt8), bytesToBits (a ++ b) = bytesToBits a ++ bytesToBits b
  | [], b => rfl
  | x :: a, b => by simp [bytesToBits, bytesToBits_append a b]

theorem bytesToBits_xor : ∀ (d e : List UInt8), e.length = d.length →
    bytesToBits (xorBytes d e) = xorBits (bytesToBits d) (bytesToBits e)
  | [], [], _ => by simp [xorBytes, bytesToBits, xorBits]
  | a :: as, b :: bs, h => by
    simp only [xorBytes, bytesToBits]
    rw [xorBits_append _ _ _ _ (by simp [byteBits_length]), byteBits_xor,
      bytesToBits_xor as bs (by simpa using h)]
  | [], _ :: _, h => by simp at h
  | _ :: _, [], h => by simp at h

theorem byteBits_getElem? (b : UInt8) (k : Nat) (hk : k < 8) :
    (byteBits b)[k]? = some (b.toBitVec.getLsbD k) := by
  simp [byteBits, hk]

theorem bytesToBits_getElem? : ∀ (bs : List UInt8) (k : Nat), k < 8 * bs.length →
    (bytesToBits bs)[k]? = some (bitAt bs k)
  | [], k, h => by simp at h
  | b :: bs, k, h => by
    simp only [bytesToBits]
    by_cases hk : k < 8
    · rw [List.getElem?_append_left (by simp [byteBits_length, hk]), byteBits_getElem? b k hk]
      have h1 : k / 8 = 0 := by omega
      have h2 : k % 8 = k := by omega
      simp [bitAt, h1, h2]
    · rw [List.getElem?_append_right (by simp [byteBits_length]; omega), byteBits_length,
        bytesToBits_getElem? bs (k - 8) (by simp at h; omega)]
      have h1 : k / 8 = (k - 8) / 8 + 1 := by omega
      have h2 : k % 8 = (k - 8) % 8 := by omega
      simp [bitAt, h1, h2]

/-- **`crc_burst` on bytes.** For any data and any xor mask of the same length that is non-zero and
    whose set bits all lie within 32 consecutive bit positions (anywhere, not byte aligned), the
    CRC-32 of the altered data differs from the CRC-32 of the data. -/
theorem crc32_burst (data err : List UInt8) (hlen : err.length = data.length) (lo : Nat)
    (hne : ∃ k, k < 8 * err.length ∧ bitAt err k = true)
    (hw : ∀ k, k < 8 * err.length → bitAt err k = true → lo ≤ k ∧ k < lo + 32) :
    crc32 (xorBytes data err) ≠ crc32 data := by
  rw [crc32_eq_crcBits, crc32_eq_crcBits, bytesToBits_xor data err hlen]
  apply crcBits_window _ _ (by simp [bytesToBits_length, hlen]) lo
  · obtain ⟨k, hk, hb⟩ := hne
    exact ⟨k, by rw [bytesToBits_getElem? err k hk, hb]⟩
  · intro k hk
    have hlt : k < 8 * err.length := by
      have := (List.getElem?_eq_some_iff.mp hk).1
      simpa [bytesToBits_length] using this
    rw [bytesToBits_getElem? err k hlt] at hk
    exact hw k hlt (by simpa using hk)


/-! ### replacing up to four consecutive bytes -/

theorem xorBits_allFalse : ∀ (a e : List Bool), AllFalse e → xorBits a e = a
  | [], [], _ => rfl
  | [], _ :: _, _ => rfl
  | _ :: _, [], _ => rfl
  | a :: as, b :: bs, h => by
    have hb : b = false := h b (by simp)
    subst hb
    simp only [xorBits]
    rw [xorBits_allFalse as bs (fun x hx => h x (by simp [hx]))]
    simp

theorem xorBits_cancel : ∀ (m m' : List Bool), m'.length = m.length → xorBits m (xorBits m m') = m'
  | [], [], _ => rfl
  | a :: as, b :: bs, h => by
    simp only [xorBits]
    rw [xorBits_cancel as bs (by simpa using h)]
    cases a <;> cases b <;> rfl
  | [], _ :: _, h => by simp at h
  | _ :: _, [], h => by simp at h

theorem allFalse_replicate (n : Nat) : AllFalse (List.replicate n false) := by
  intro b hb
  exact (List.mem_replicate.mp hb).2

theorem not_allFalse_exists : ∀ (l : List Bool), ¬ AllFalse l → ∃ k : Nat, l[k]? = some true
  | [], h => (h (by intro b hb; simp at hb)).elim
  | true :: _, _ => ⟨0, rfl⟩
  | false :: l, h => by
    have : ¬ AllFalse l := by
      intro hl
      apply h
      intro b hb
      simp at hb
      cases hb with
      | inl h => exact h
      | inr h => exact hl b h
    obtain ⟨k, hk⟩ := not_allFalse_exists l this
    exact ⟨k + 1, by simpa using hk⟩

theorem byteBits_inj (a b : UInt8) (h : byteBits a = byteBits b) : a = b := by
  rw [byteBits_eq, byteBits_eq] at h
  simp only [List.cons.injEq, and_true] at h
  apply UInt8.toBitVec_inj.mp
  apply BitVec.eq_of_getLsbD_eq
  intro i hi
  have : i = 0 ∨ i = 1 ∨ i = 2 ∨ i = 3 ∨ i = 4 ∨ i = 5 ∨ i = 6 ∨ i = 7 := by omega
  obtain ⟨h0, h1, h2, h3, h4, h5, h6, h7⟩ := h
  rcases this with h' | h' | h' | h' | h' | h' | h' | h' <;> subst h' <;>
    simp_all

theorem bytesToBits_inj : ∀ (a b : List UInt8), a.length = b.length → bytesToBits a = bytesToBits b → a = b
  | [], [], _, _ => rfl
  | x :: a, y :: b, hl, h => by
    simp only [bytesToBits] at h
    have h' := List.append_inj h (by simp [byteBits_length])
    rw [byteBits_inj x y h'.1, bytesToBits_inj a b (by simpa using hl) h'.2]
  | [], _ :: _, h, _ => by simp at h
  | _ :: _, [], h, _ => by simp at h

theorem sandwich_window (A D C : List Bool) (hA : AllFalse A) (hC : AllFalse C) (k : Nat)
    (h : (A ++ D ++ C)[k]? = some true) : A.length ≤ k ∧ k < A.length + D.length := by
  by_cases h1 : k < A.length
  · rw [List.append_assoc, List.getElem?_append_left h1] at h
    have := hA true (List.mem_of_getElem? h)
    simp at this
  · by_cases h2 : k < A.length + D.length
    · omega
    · rw [List.getElem?_append_right (by simp; omega)] at h
      have := hC true (List.mem_of_getElem? h)
      simp at this

/-- Any alteration confined to at most four consecutive bytes (of any data, at any byte position)
    changes the CRC-32. -/
theorem crc32_window (pre mid mid' post : List UInt8) (hl : mid'.length = mid.length)
    (h4 : mid.length ≤ 4) (hne : mid' ≠ mid) :
    crc32 (pre ++ mid' ++ post) ≠ crc32 (pre ++ mid ++ post) := by
  rw [crc32_eq_crcBits, crc32_eq_crcBits]
  simp only [bytesToBits_append]
  let D := xorBits (bytesToBits mid) (bytesToBits mid')
  let A := List.replicate (bytesToBits pre).length false
  let C := List.replicate (bytesToBits post).length false
  have hlb : (bytesToBits mid').length = (bytesToBits mid).length := by simp [bytesToBits_length, hl]
  have hDlen : D.length = (bytesToBits mid).length := xorBits_length _ _ hlb
  have hE : bytesToBits pre ++ bytesToBits mid' ++ bytesToBits post =
      xorBits (bytesToBits pre ++ bytesToBits mid ++ bytesToBits post) (A ++ D ++ C) := by
    rw [xorBits_append _ _ _ _ (by simp [A, hDlen]), xorBits_append _ _ _ _ (by simp [A]),
      xorBits_allFalse _ A (allFalse_replicate _), xorBits_allFalse _ C (allFalse_replicate _),
      xorBits_cancel _ _ hlb]
  rw [hE]
  have hDne : ¬ AllFalse D := by
    intro hD
    apply hne
    apply bytesToBits_inj _ _ hl
    have := xorBits_cancel _ _ hlb
    rw [xorBits_allFalse _ _ hD] at this
    exact this.symm
  apply crcBits_window _ _ (by simp [A, C, hDlen]) A.length
  · obtain ⟨k, hk⟩ := not_allFalse_exists D hDne
    refine ⟨A.length + k, ?_⟩
    rw [List.append_assoc, List.getElem?_append_right (by omega)]
    have hk' : k < D.length := (List.getElem?_eq_some_iff.mp hk).1
    rw [List.getElem?_append_left (by omega)]
    simpa using hk
  · intro k hk
    have := sandwich_window A D C (allFalse_replicate _) (allFalse_replicate _) k hk
    have h8 : D.length ≤ 32 := by rw [hDlen, bytesToBits_length]; omega
    omega

/-- A single flipped bit (any byte, any bit) changes the CRC-32. -/
theorem crc32_bit_flip (pre post : List UInt8) (b : UInt8) (j : Nat) (hj : j < 8) :
    crc32 (pre ++ [b ^^^ (1 <<< UInt8.ofNat j)] ++ post) ≠ crc32 (pre ++ [b] ++ post) := by
  apply crc32_window pre [b] [b ^^^ (1 <<< UInt8.ofNat j)] post rfl (by simp)
  intro h
  simp only [List.cons.injEq, and_true] at h
  have h1 : (b ^^^ (1 <<< UInt8.ofNat j)) ^^^ b = b ^^^ b := by rw [h]
  have h2 : (1 : UInt8) <<< UInt8.ofNat j = 0 := by
    have : (b ^^^ (1 <<< UInt8.ofNat j)) ^^^ b = 1 <<< UInt8.ofNat j := by
      rw [UInt8.xor_comm b, UInt8.xor_assoc, UInt8.xor_self, UInt8.xor_zero]
    rw [this, UInt8.xor_self] at h1
    exact h1
  have : j = 0 ∨ j = 1 ∨ j = 2 ∨ j = 3 ∨ j = 4 ∨ j = 5 ∨ j = 6 ∨ j = 7 := by omega
  rcases this with h' | h' | h' | h' | h' | h' | h' | h' <;> subst h' <;> revert h2 <;> decide


/-- the CRC-32/IEEE check value ("123456789") -/
example : crc32 [0x31, 0x32, 0x33, 0x34, 0x35, 0x36, 0x37, 0x38, 0x39] = 0xCBF43926#32 := by decide +kernel

end PqModel.Crc
