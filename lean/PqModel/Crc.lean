namespace PqModel.Crc

/-! Spike: CRC-32 (IEEE, reflected, bit-serial) detects every burst error of width ≤ 32. -/

def P : BitVec 32 := 0xEDB88320#32

def stepBit (s : BitVec 32) (c : Bool) : BitVec 32 :=
  (s >>> 1) ^^^ (if (s.getLsbD 0 != c) then P else 0#32)

def L (d : BitVec 32) : BitVec 32 := stepBit d false

def run (s : BitVec 32) (bits : List Bool) : BitVec 32 := bits.foldl stepBit s

def crcBits (bits : List Bool) : BitVec 32 := ~~~ (run 0xFFFFFFFF#32 bits)

def iter (f : α → α) : Nat → α → α
  | 0, x => x
  | n + 1, x => iter f n (f x)

def xorBits : List Bool → List Bool → List Bool
  | a :: as, b :: bs => (a != b) :: xorBits as bs
  | as, [] => as
  | [], _ => []

/-! ### xor algebra on BitVec 32 by extensionality -/

theorem bv_ext {a b : BitVec 32} (h : ∀ i, i < 32 → a.getLsbD i = b.getLsbD i) : a = b :=
  BitVec.eq_of_getLsbD_eq (fun i hi => h i hi)

theorem stepBit_linear (s d : BitVec 32) (c e : Bool) :
    stepBit (s ^^^ d) (c != e) = stepBit s c ^^^ stepBit d e := by
  apply bv_ext
  intro i _
  unfold stepBit
  simp only [BitVec.getLsbD_xor, BitVec.getLsbD_ushiftRight]
  cases s.getLsbD 0 <;> cases d.getLsbD 0 <;> cases c <;> cases e <;>
    simp <;> cases s.getLsbD (1 + i) <;> cases d.getLsbD (1 + i) <;> cases P.getLsbD i <;> rfl

theorem stepBit_zero_false : stepBit 0#32 false = 0#32 := by decide
theorem stepBit_zero_true : stepBit 0#32 true = P := by decide

theorem L_linear (a b : BitVec 32) : L (a ^^^ b) = L a ^^^ L b := by
  have := stepBit_linear a b false false
  simpa [L] using this

theorem L_zero : L 0#32 = 0#32 := stepBit_zero_false

theorem iterL_linear : ∀ (n : Nat) (a b : BitVec 32), iter L n (a ^^^ b) = iter L n a ^^^ iter L n b
  | 0, _, _ => rfl
  | n + 1, a, b => by simp only [iter, L_linear, iterL_linear n]

theorem iterL_zero : ∀ n, iter L n 0#32 = 0#32
  | 0 => rfl
  | n + 1 => by simp only [iter, L_zero, iterL_zero n]

theorem L_inj0 (d : BitVec 32) (h : L d = 0#32) : d = 0#32 := by
  unfold L stepBit at h
  have hbit : ∀ i, ((d >>> 1) ^^^ (if (d.getLsbD 0 != false) then P else 0#32)).getLsbD i = false := by
    intro i; rw [h]; simp
  cases h0 : d.getLsbD 0
  · apply bv_ext
    intro i hi
    cases i with
    | zero => simpa using h0
    | succ i =>
      have := hbit i
      have h0' : d[0] = false := by simpa using h0
      simp [h0', BitVec.getLsbD_ushiftRight] at this
      simpa [Nat.add_comm] using this
  · have := hbit 31
    have h0' : d[0] = true := by simpa using h0
    simp [h0', P] at this

theorem iterL_inj0 : ∀ (n : Nat) (d : BitVec 32), iter L n d = 0#32 → d = 0#32
  | 0, _, h => h
  | n + 1, d, h => L_inj0 d (iterL_inj0 n (L d) h)

theorem xor_assoc' (a b c : BitVec 32) : a ^^^ b ^^^ c = a ^^^ (b ^^^ c) := BitVec.xor_assoc a b c

/-- superposition: the run from `s` is the free evolution of `s` plus the run from zero -/
theorem run_split : ∀ (e : List Bool) (s : BitVec 32), run s e = iter L e.length s ^^^ run 0#32 e
  | [], s => by simp [run, iter]
  | b :: e, s => by
    have h1 : run s (b :: e) = run (stepBit s b) e := rfl
    have h2 : run 0#32 (b :: e) = run (stepBit 0#32 b) e := rfl
    have hs : stepBit s b = L s ^^^ stepBit 0#32 b := by
      have := stepBit_linear s 0#32 false b
      simpa [L] using this
    rw [h1, h2, run_split e (stepBit s b), run_split e (stepBit 0#32 b), hs, iterL_linear]
    simp only [List.length_cons, iter]
    rw [xor_assoc']

theorem run_append (s : BitVec 32) (a b : List Bool) : run s (a ++ b) = run (run s a) b := by
  simp [run, List.foldl_append]

/-- flipping bits by pattern `e` changes the run by the zero-state response to `e` -/
theorem run_xor : ∀ (a e : List Bool) (s : BitVec 32), e.length = a.length →
    run s (xorBits a e) = run s a ^^^ run 0#32 e
  | [], [], s, _ => by simp [run, xorBits]
  | a :: as, b :: bs, s, h => by
    have hl : bs.length = as.length := by simpa using h
    have h1 : run s (xorBits (a :: as) (b :: bs)) = run (stepBit s (a != b)) (xorBits as bs) := rfl
    have hs : stepBit s (a != b) = stepBit s a ^^^ stepBit 0#32 b := by
      have := stepBit_linear s 0#32 a b
      simpa using this
    rw [h1, run_xor as bs _ hl, hs]
    have h2 : run s (a :: as) = run (stepBit s a) as := rfl
    have h3 : run 0#32 (b :: bs) = run (stepBit 0#32 b) bs := rfl
    rw [h2, h3, run_split as (stepBit s a ^^^ stepBit 0#32 b), run_split as (stepBit s a),
      run_split bs (stepBit 0#32 b), iterL_linear, hl]
    apply bv_ext; intro i _
    simp only [BitVec.getLsbD_xor]
    cases (iter L as.length (stepBit s a)).getLsbD i <;> cases (iter L as.length (stepBit 0#32 b)).getLsbD i <;>
      cases (run 0#32 as).getLsbD i <;> cases (run 0#32 bs).getLsbD i <;> rfl
  | [], _ :: _, _, h => by simp at h
  | _ :: _, [], _, h => by simp at h

/-! ### independence certificate -/

def vs : List (BitVec 32) := [0xEDB88320#32, 0x76DC4190#32, 0x3B6E20C8#32, 0x1DB71064#32, 0x0EDB8832#32, 0x076DC419#32, 0xEE0E612C#32, 0x77073096#32, 0x3B83984B#32, 0xF0794F05#32, 0x958424A2#32, 0x4AC21251#32, 0xC8D98A08#32, 0x646CC504#32, 0x32366282#32, 0x191B3141#32, 0xE1351B80#32, 0x709A8DC0#32, 0x384D46E0#32, 0x1C26A370#32, 0x0E1351B8#32, 0x0709A8DC#32, 0x0384D46E#32, 0x01C26A37#32, 0xED59B63B#32, 0x9B14583D#32, 0xA032AF3E#32, 0x5019579F#32, 0xC5B428EF#32, 0x8F629757#32, 0xAA09C88B#32, 0xB8BC6765#32]
def rs : List (BitVec 32) := [0x64428D55#32, 0xD663CBFF#32, 0x0F7368AA#32, 0x87B9B455#32, 0xA79E577F#32, 0x378DA6EA#32, 0x9BC6D375#32, 0xA9A1E4EF#32, 0x30927F22#32, 0x18493F91#32, 0xE866129D#32, 0x9071841B#32, 0x2C7A4F58#32, 0x963D27AC#32, 0x4B1E93D6#32, 0xA58F49EB#32, 0xB68529A0#32, 0x5B4294D0#32, 0x2DA14A68#32, 0x16D0A534#32, 0x8B68529A#32, 0xC5B4294D#32, 0x869899F3#32, 0xA70EC1AC#32, 0xD38760D6#32, 0xE9C3B06B#32, 0x10A35560#32, 0x8851AAB0#32, 0x4428D558#32, 0x22146AAC#32, 0x910A3556#32, 0xC8851AAB#32]

/-- parity of the number of set bits -/
def parityAux (v : BitVec 32) : Nat → Bool
  | 0 => false
  | n + 1 => parityAux v n != v.getLsbD n

def parity (v : BitVec 32) : Bool := parityAux v 32

theorem parityAux_xor (a b : BitVec 32) : ∀ n, parityAux (a ^^^ b) n = (parityAux a n != parityAux b n)
  | 0 => rfl
  | n + 1 => by
    simp only [parityAux, parityAux_xor a b n, BitVec.getLsbD_xor]
    cases parityAux a n <;> cases parityAux b n <;> cases a.getLsbD n <;> cases b.getLsbD n <;> rfl

theorem parity_xor (a b : BitVec 32) : parity (a ^^^ b) = (parity a != parity b) := parityAux_xor a b 32

def phi (j : Nat) (x : BitVec 32) : Bool := parity (rs[j]! &&& x)

theorem phi_xor (j : Nat) (a b : BitVec 32) : phi j (a ^^^ b) = (phi j a != phi j b) := by
  unfold phi
  have : rs[j]! &&& (a ^^^ b) = (rs[j]! &&& a) ^^^ (rs[j]! &&& b) := by
    apply bv_ext; intro i _
    simp only [BitVec.getLsbD_and, BitVec.getLsbD_xor]
    cases (rs[j]!).getLsbD i <;> cases a.getLsbD i <;> cases b.getLsbD i <;> rfl
  rw [this, parity_xor]

theorem phi_zero (j : Nat) : phi j 0#32 = false := by
  unfold phi
  have : rs[j]! &&& 0#32 = 0#32 := by
    apply bv_ext; intro i _; simp
  rw [this]; decide

def orbitOk : Bool := (List.range 32).all fun i => vs[i]! == iter L i P
def certOk : Bool :=
  (List.range 32).all fun i => (List.range 32).all fun j => phi j (vs[i]!) == (i == j)

theorem orbit_ok : orbitOk = true := by decide +kernel
theorem cert_ok : certOk = true := by decide +kernel

theorem orbit_at {i : Nat} (hi : i < 32) : iter L i P = vs[i]! := by
  have := orbit_ok
  unfold orbitOk at this
  have h := (List.all_eq_true.mp this) i (by simp [hi])
  exact (eq_of_beq h).symm

theorem cert_at {i j : Nat} (hi : i < 32) (hj : j < 32) : phi j (vs[i]!) = (i == j) := by
  have := cert_ok
  unfold certOk at this
  have h := (List.all_eq_true.mp ((List.all_eq_true.mp this) i (by simp [hi]))) j (by simp [hj])
  exact eq_of_beq h

/-- zero-state response, unrolled one step -/
theorem run0_cons (b : Bool) (e : List Bool) :
    run 0#32 (b :: e) = (if b then iter L e.length P else 0#32) ^^^ run 0#32 e := by
  have h : run 0#32 (b :: e) = run (stepBit 0#32 b) e := rfl
  rw [h, run_split]
  cases b
  · simp [stepBit_zero_false, iterL_zero]
  · simp [stepBit_zero_true]

/-- the dual functionals read off the error bits -/
theorem phi_run0 : ∀ (e : List Bool), e.length ≤ 32 → ∀ j, j < 32 →
    phi j (run 0#32 e) = (if j < e.length then e[e.length - 1 - j]! else false)
  | [], _, j, _ => by simp [run, phi_zero]
  | b :: e, hl, j, hj => by
    have hl' : e.length ≤ 32 := by simp at hl; omega
    have hlt : e.length < 32 := by simp at hl; omega
    rw [run0_cons, phi_xor, phi_run0 e hl' j hj]
    have hv : phi j (if b then iter L e.length P else 0#32) = (b && (e.length == j)) := by
      cases b
      · simp [phi_zero]
      · simp only [if_true, Bool.true_and]
        rw [orbit_at hlt, cert_at hlt hj]
    rw [hv]
    simp only [List.length_cons]
    by_cases h1 : j < e.length
    · have hne : (e.length == j) = false := by simp; omega
      have h2 : j < e.length + 1 := by omega
      simp only [hne, Bool.and_false, h1, h2, if_true]
      have : e.length + 1 - 1 - j = (e.length - 1 - j) + 1 := by omega
      rw [this]
      simp
    · by_cases h3 : j = e.length
      · subst h3
        simp
      · have hne : (e.length == j) = false := by simp; omega
        have h2 : ¬ j < e.length + 1 := by omega
        simp [hne, h1, h2]

theorem run0_ne_zero (e : List Bool) (hl : e.length ≤ 31) : run 0#32 (true :: e) ≠ 0#32 := by
  intro h
  have := phi_run0 (true :: e) (by simp; omega) e.length (by omega)
  rw [h, phi_zero] at this
  simp at this

theorem not_inj (a b : BitVec 32) (h : a ≠ b) : ~~~a ≠ ~~~b := by
  intro hab
  apply h
  have := congrArg (fun x => ~~~x) hab
  simpa using this

theorem xor_eq_self_iff (a d : BitVec 32) (h : a ^^^ d = a) : d = 0#32 := by
  apply bv_ext; intro i hi
  have := congrArg (fun x => x.getLsbD i) h
  simp only [BitVec.getLsbD_xor] at this
  cases ha : a.getLsbD i <;> cases hd : d.getLsbD i <;> simp [ha, hd] at this ⊢

/-- C13 core: any burst error of width ≤ 32 (first flipped bit at the burst start) changes the CRC. -/
theorem crc_burst (pre mid post e : List Bool) (he : (true :: e).length = mid.length)
    (hw : (true :: e).length ≤ 32) :
    crcBits (pre ++ xorBits mid (true :: e) ++ post) ≠ crcBits (pre ++ mid ++ post) := by
  apply not_inj
  intro h
  rw [List.append_assoc, List.append_assoc, run_append, run_append, run_append, run_append,
    run_xor mid (true :: e) _ he, run_split post, run_split post (run (run _ pre) mid), iterL_linear] at h
  have h2 : iter L post.length (run 0#32 (true :: e)) = 0#32 := by
    apply xor_eq_self_iff (iter L post.length (run (run 0xFFFFFFFF#32 pre) mid) ^^^ run 0#32 post)
    have hac : ∀ (x r d : BitVec 32), (x ^^^ r) ^^^ d = x ^^^ d ^^^ r := by
      intro x r d
      apply bv_ext; intro i _
      simp only [BitVec.getLsbD_xor]
      cases x.getLsbD i <;> cases r.getLsbD i <;> cases d.getLsbD i <;> rfl
    rw [hac, h]
  exact run0_ne_zero e (by simp at hw; omega) (iterL_inj0 _ _ h2)

#print axioms crc_burst

end PqModel.Crc
