import PqModel.PageSlice

/-! # `byteArrayPage.Slice`: the offsets window (C08)

A BYTE_ARRAY page keeps all bytes in `values` and `numValues + 1` offsets; value `i` is
`values[offsets[i]:offsets[i+1]]` (page_byte_array.go:50-56 `index`). `Slice(i, j)` shares `values`
and keeps offsets `i..j` — `j + 1 - i` of them, the end of the last value included
(page_byte_array.go:137-144); the first offset of a slice is not 0.

* MIRROR: `BaPg`, `baLen` (`len()`), `baIndex` (`index`), `sliceBa` (`Slice`), `baValues` (what
  `Values()` delivers: `index 0 … len-1`).
* SPEC: values `i..j-1` of the list of values. -/
namespace PqModel.PageSlice

structure BaPg where
  values : List Nat
  offsets : List Nat
deriving DecidableEq, Repr

/-- MIRROR of `byteArrayPage.len` -/
def baLen (p : BaPg) : Nat := p.offsets.length - 1

/-- MIRROR of `byteArrayPage.index` -/
def baIndex (p : BaPg) (i : Nat) : List Nat :=
  (p.values.drop (p.offsets[i]?.getD 0)).take (p.offsets[i + 1]?.getD 0 - p.offsets[i]?.getD 0)

/-- MIRROR of `byteArrayPage.Slice` -/
def sliceBa (p : BaPg) (i j : Nat) : BaPg := ⟨p.values, (p.offsets.drop i).take (j + 1 - i)⟩

def baValues (p : BaPg) : List (List Nat) := (List.range (baLen p)).map (baIndex p)

theorem baIndex_slice (p : BaPg) (i j k : Nat) (hk : k < j - i) :
    baIndex (sliceBa p i j) k = baIndex p (i + k) := by
  unfold baIndex sliceBa
  simp only [List.getElem?_take, List.getElem?_drop]
  rw [if_pos (by omega), if_pos (by omega)]
  have : i + (k + 1) = i + k + 1 := by omega
  rw [this]

/-- **the values of `byteArrayPage.Slice(i, j)` are values `i..j-1`** -/
theorem baValues_slice (p : BaPg) (i j : Nat) (hij : i ≤ j) (hj : j ≤ baLen p) (hne : p.offsets ≠ []) :
    baValues (sliceBa p i j) = ((baValues p).drop i).take (j - i) := by
  have hl : 0 < p.offsets.length := List.length_pos_iff.mpr hne
  have hj2 : j ≤ p.offsets.length - 1 := hj
  unfold baValues
  apply List.ext_getElem
  · simp [sliceBa, baLen]; omega
  · intro k h1 h2
    have hk : k < j - i := by
      simp [sliceBa, baLen] at h1; omega
    simp only [List.getElem_map, List.getElem_range, List.getElem_take, List.getElem_drop]
    exact baIndex_slice p i j k hk

end PqModel.PageSlice
