import PqModel.Rle

/-! # MIRRORS of the portable Go decoders and bit-packing kernels of `encoding/rle` (C04, part rle)

All functions here transliterate Go code (rle.go, the `purego` kernels, `bitpack` v1.0.3
`unpack_int32_purego.go` / `pack_default.go`). Fixed-width bit operations are written with the
arithmetic they denote on in-range operands, each time said in the doc comment:
`x >> s` = `x / 2^s`, `x & (2^w-1)` = `x % 2^w`, `a | b` on disjoint bit ranges = `a + b`,
`x << s` = `x * 2^s`. Bytes are `Nat`s below 256. -/
namespace PqModel.Rle
open PqModel.Bits

/-! ## levels: `decodeBytes` -/

/-- MIRROR rle.go:597-617, one iteration of `decodeBytesBitpackDefault`: the `w` source bytes are
copied into a zeroed `[8]byte`, read as a little-endian `uint64` (`leNat`), and the eight values
are `byte((word >> (k*w)) & bitMask)`, `k = 0..7`. -/
def goUnpackBytesGroup (w : Nat) (bytes : List Nat) : List Nat :=
  (List.range 8).map (fun k => (leNat bytes / 2 ^ (k * w)) % 2 ^ w)

/-- MIRROR rle.go:592-618 `decodeBytesBitpackDefault`: `count/8` groups, `ByteCount(8*w) = w` bytes each -/
def goDecodeBytesBitpack (w : Nat) : Nat → List Nat → List Nat
  | 0, _ => []
  | g + 1, src => goUnpackBytesGroup w (src.take w) ++ goDecodeBytesBitpack w g (src.drop w)

/-- MIRROR rle.go:337-392 `decodeBytes` (loop). `dst` grows by appending. An empty run is skipped
without reading a value; an RLE value is the stored byte, NOT masked to the bit width. -/
def goDecodeLevelsLoop (w : Nat) : Nat → List Nat → List Nat → Except Err (List Nat)
  | 0, dst, src => if src.isEmpty then .ok dst else .error .fuel
  | f + 1, dst, src =>
    if src.isEmpty then .ok dst else
    match goUvarint 0 src with
    | none => .error .truncHeader
    | some (u, rest) =>
      if u / 2 = 0 then goDecodeLevelsLoop w f dst rest
      else if u / 2 > 2 ^ 31 - 1 then .error .runTooLong
      else if u % 2 = 1 then
        -- count *= 8; j := i + ByteCount(count*bitWidth)
        if rest.length < (8 * (u / 2) * w + 7) / 8 then .error .truncBitPacked
        else goDecodeLevelsLoop w f
          (dst ++ goDecodeBytesBitpack w (u / 2) (rest.take ((8 * (u / 2) * w + 7) / 8)))
          (rest.drop ((8 * (u / 2) * w + 7) / 8))
      else if w ≠ 0 ∧ rest.length < 1 then .error .truncRleValue
      else if w = 0 then goDecodeLevelsLoop w f (dst ++ List.replicate (u / 2) 0) rest
      else goDecodeLevelsLoop w f (dst ++ List.replicate (u / 2) (rest.headD 0)) (rest.drop 1)

/-- MIRROR rle.go:337-340 + loop -/
def goDecodeLevels (w : Nat) (src : List Nat) : Except Err (List Nat) :=
  if w > 8 then .error .invalidBitWidth else goDecodeLevelsLoop w (src.length + 1) [] src

/-! ## int32 / dictionary indexes: `decodeInt32` -/

/-- the `i`-th little-endian `uint32` of a byte string (`unsafecast.Slice[uint32](src)[i]`) -/
def le32At (src : List Nat) (i : Nat) : Nat := leNat ((src.drop (4 * i)).take 4)

/-- MIRROR bitpack `unpack_int32_purego.go:5-21` `unpackInt32`, value number `n`:
`i, j := off/32, off%32`; `d := (bits[i] & (bitMask << j)) >> j` is bits `j..` of the word, at most
`w` of them (`(W / 2^j) % 2^w`); if the value straddles the word, `k := 32-j` and
`d |= (bits[i+1] & (bitMask >> k)) << k` adds the low `w-k` bits of the next word above them. -/
def goUnpackInt32Value (w : Nat) (src : List Nat) (n : Nat) : Nat :=
  let i := n * w / 32
  let j := n * w % 32
  let d := (le32At src i / 2 ^ j) % 2 ^ w
  if j + w > 32 then d + (le32At src (i + 1) % 2 ^ (w - (32 - j))) * 2 ^ (32 - j) else d

/-- MIRROR `bitpack.Unpack(out, in, w)` as called at rle.go:436: `in` is followed by
`bitpack.PaddingInt32 = 16` bytes (the decoder copies it into a padded buffer or uses the spare
capacity); the padding content is irrelevant to the `n` values read, modelled as zeros. -/
def goUnpackInt32 (w n : Nat) (src : List Nat) : List Nat :=
  (List.range n).map (goUnpackInt32Value w (src ++ List.replicate 16 0))

/-- MIRROR rle.go:394-461 `decodeInt32` (loop); values are `uint32` patterns. The Go code slices
`src[i:i+length]` without comparing with `len(src)` (observation
`rle-int32-decode-truncated-bitpacked-run-reads-past-input`): the mirror answers `truncBitPacked`
where Go panics or reads the spare capacity. RLE values are the `ByteCount(w)` stored bytes,
little-endian, NOT masked. -/
def goDecodeInt32Loop (w : Nat) : Nat → List Nat → List Nat → Except Err (List Nat)
  | 0, dst, src => if src.isEmpty then .ok dst else .error .fuel
  | f + 1, dst, src =>
    if src.isEmpty then .ok dst else
    match goUvarint 0 src with
    | none => .error .truncHeader
    | some (u, rest) =>
      if u / 2 = 0 then goDecodeInt32Loop w f dst rest
      else if u / 2 > 2 ^ 31 - 1 then .error .runTooLong
      else if u % 2 = 1 then
        if rest.length < u / 2 * w then .error .truncBitPacked
        else goDecodeInt32Loop w f
          (dst ++ goUnpackInt32 w (8 * (u / 2)) (rest.take (u / 2 * w))) (rest.drop (u / 2 * w))
      else if rest.length < (w + 7) / 8 then .error .truncRleValue
      else goDecodeInt32Loop w f
        (dst ++ List.replicate (u / 2) (leNat (rest.take ((w + 7) / 8)))) (rest.drop ((w + 7) / 8))

def goDecodeInt32 (w : Nat) (src : List Nat) : Except Err (List Nat) :=
  if w > 32 then .error .invalidBitWidth else goDecodeInt32Loop w (src.length + 1) [] src

/-- MIRROR dictionary.go:30-37 `DictionaryEncoding.DecodeInt32` -/
def goDecodeDict (src : List Nat) : Except Err (List Nat) :=
  match src with
  | [] => .ok []
  | w :: rest => goDecodeInt32 w rest

/-! ## encoder kernels -/

/-- MIRROR rle.go:572-590, the packed word of one iteration of `encodeBytesBitpackDefault`: `word`
holds the eight source bytes `x₀..x₇` (`(word >> 8k) & …`); the result is the OR over `k` of
`(xₖ & bitMask) << (k*w)` (disjoint ranges: a sum), written here in Horner form
`x₀%2^w + 2^w * (x₁%2^w + 2^w * …)`. -/
def goPackWord (w : Nat) : List Nat → Nat
  | [] => 0
  | x :: xs => x % 2 ^ w + 2 ^ w * goPackWord w xs

/-- the word is written little-endian with `PutUint64` at `dst[n:]` and `n += w`: the next
iteration (or the final `dst[:n]`) keeps its first `w` bytes. -/
def goPackBytesGroup (w : Nat) (g : List Nat) : List Nat := leBytes w (goPackWord w g)

/-- MIRROR rle.go:572-590 `encodeBytesBitpackDefault` over all words -/
def goEncodeBytesBitpack (w : Nat) (gs : List (List Nat)) : List Nat :=
  (gs.map (goPackBytesGroup w)).flatten

/-! ## `bitpack.Pack` for int32 (portable `packInt32Default`, bitpack v1.0.3 pack_default.go:5-35) -/

/-- state of `packInt32Default`: the 64-bit `buffer`, `bufferedBits`, and the bytes written so far -/
structure PackSt where
  buffer : Nat
  bits : Nat
  out : List Nat

/-- MIRROR pack_default.go:19-24: `for bufferedBits >= 32 { PutUint32(dst[byteIndex:], uint32(buffer));
buffer >>= 32; bufferedBits -= 32; byteIndex += 4 }` (explicit fuel) -/
def packFlush : Nat → PackSt → PackSt
  | 0, st => st
  | f + 1, st =>
    if st.bits ≥ 32 then
      packFlush f { buffer := st.buffer / 2 ^ 32, bits := st.bits - 32, out := st.out ++ leBytes 4 (st.buffer % 2 ^ 32) }
    else st

/-- MIRROR pack_default.go:15-25, one value: `buffer |= uint64(uint32(value)&bitMask) << bufferedBits`
(the new bits lie above the buffered ones: a sum), `bufferedBits += bitWidth`, then the flush loop
(it runs at most once for widths ≤ 32; fuel 2). No `uint64` overflow occurs: `bufferedBits < 32`
on entry, so at most 63 bits are held. -/
def packStep (w : Nat) (st : PackSt) (v : Nat) : PackSt :=
  packFlush 2 { buffer := st.buffer + (v % 2 ^ w) * 2 ^ st.bits, bits := st.bits + w, out := st.out }

/-- MIRROR pack_default.go:5-35 `packInt32Default` (with the tail: `(bufferedBits+7)/8` bytes of the
buffer, least significant first), i.e. `bitpack.Pack` as called by `encodeInt32BitpackDefault`. -/
def goPackInt32 (w : Nat) (src : List Nat) : List Nat :=
  let st := src.foldl (packStep w) { buffer := 0, bits := 0, out := [] }
  if st.bits > 0 then st.out ++ leBytes ((st.bits + 7) / 8) st.buffer else st.out

end PqModel.Rle
