import PqModel.PageSlice

/-! # The `ReadValues` loops of optional and repeated pages (C08)

`PageSlice.weave` says what a page's value reader delivers in total. Here is the loop that does it,
call by call, for any sizes of the caller's buffer and any short reads of the base page's reader
(page_optional.go:72-117 `optionalPageValues.ReadValues`, page_repeated.go:120-178
`repeatedPageValues.ReadValues`; the two differ only in the repetition level they store, 0 for the
optional page).

* MIRROR: `nullRun` (the inner `for … definitionLevels[r.offset] != maxDefinitionLevel`), `defRun`
  (the `for i < len(values) && j < len(definitionLevels) && definitionLevels[j] == max…`), `emit`
  (the `for ; j > 0; j--` that stamps the levels on the values the base reader delivered), `rvLoop`
  (the outer `for n < len(values) && r.offset < len(definitionLevels)`), `readValues` (one call),
  `readAll` (a caller that calls until `io.EOF`).
* The base reader (`r.values.ReadValues(values[n:i])`) is a list of remaining values and a schedule of
  caps: a call for `m` slots delivers `min m cap remaining` values (`capOf`: cap ≥ 1, none when the schedule is used up). Its error only matters
  when it delivers nothing (`j == 0 && err == io.EOF`), which happens exactly when nothing remains.

Not modelled: a base reader failing with an error other than `io.EOF`, a base reader that returns
`(0, nil)` (the loop would spin; no page reader of the library does). -/
namespace PqModel.PageSlice

/-- the reader: `lv` = levels from `r.offset` on, `base` = what `r.values` still holds -/
structure RV where
  lv : List (Nat × Nat)
  base : List Nat
deriving DecidableEq, Repr

/-- MIRROR of the null run (page_repeated.go:134-142); `room` = `len(values) - n` -/
def nullRun (md : Nat) : Nat → List (Nat × Nat) → List Triple × List (Nat × Nat)
  | 0, lv => ([], lv)
  | _ + 1, [] => ([], [])
  | room + 1, (r, d) :: lv =>
    if d ≠ md then ((r, d, none) :: (nullRun md room lv).1, (nullRun md room lv).2)
    else ([], (r, d) :: lv)

/-- MIRROR of the count of the run of defined slots (page_repeated.go:144-150): `i - n` -/
def defRun (md : Nat) : Nat → List (Nat × Nat) → Nat
  | 0, _ => 0
  | _ + 1, [] => 0
  | room + 1, (_, d) :: lv => if d = md then defRun md room lv + 1 else 0

/-- MIRROR of the stamping loop (page_repeated.go:159-164) -/
def emit (md : Nat) : List (Nat × Nat) → List Nat → List Triple
  | (r, _) :: lv, v :: bs => (r, md, some v) :: emit md lv bs
  | [], _ => []
  | _ :: _, [] => []

/-- the base reader's short-read cap for a request of `m` slots: the head of the schedule (at least
    1), no cap once the schedule is used up -/
def capOf (caps : List Nat) (m : Nat) : Nat :=
  match caps with
  | [] => m
  | c :: _ => max c 1

theorem capOf_pos (caps : List Nat) (m : Nat) (hm : m ≠ 0) : 1 ≤ capOf caps m := by
  unfold capOf; split <;> omega

/-- MIRROR of the outer loop; `acc` = `values[:n]`; result: (`values[:n]`, reader, caps left,
    `err == io.EOF`); `none` = out of fuel -/
def rvLoop (md : Nat) : Nat → Nat → RV → List Nat → List Triple →
    Option (List Triple × RV × List Nat × Bool)
  | 0, _, _, _, _ => none
  | fuel + 1, room, st, caps, acc =>
    if room = 0 then some (acc, st, caps, st.lv.isEmpty)
    else if st.lv.isEmpty then some (acc, st, caps, true)
    else
      let nr := nullRun md room st.lv
      let room1 := room - nr.1.length
      let m := defRun md room1 nr.2
      if m = 0 then rvLoop md fuel room1 ⟨nr.2, st.base⟩ caps (acc ++ nr.1)
      else
        let k := min m (min (capOf caps m) st.base.length)
        if k = 0 then some (acc ++ nr.1, ⟨nr.2, st.base⟩, caps.tail, true)
        else rvLoop md fuel (room1 - k) ⟨nr.2.drop k, st.base.drop k⟩ caps.tail
          (acc ++ nr.1 ++ emit md (nr.2.take k) (st.base.take k))

/-- MIRROR of one `ReadValues(values)` call with `len(values) = room` -/
def readValues (md room : Nat) (st : RV) (caps : List Nat) : Option (List Triple × RV × List Nat × Bool) :=
  rvLoop md (room + 1) room st caps []

/-- a caller that reads with buffers of the given sizes until `io.EOF`: (values, saw EOF) -/
def readAll (md : Nat) : List Nat → RV → List Nat → List Triple → Option (List Triple × Bool)
  | [], _, _, acc => some (acc, false)
  | sz :: szs, st, caps, acc =>
    match readValues md sz st caps with
    | none => none
    | some (out, st', caps', eof) =>
      if eof then some (acc ++ out, true) else readAll md szs st' caps' (acc ++ out)

/-! ## lemmas on the runs -/

theorem nullRun_spec (md : Nat) : ∀ (room : Nat) (lv : List (Nat × Nat)) (base : List Nat),
    (nullRun md room lv).1 ++ weave md (nullRun md room lv).2 base = weave md lv base ∧
      (nullRun md room lv).1.length ≤ room
  | 0, lv, base => by simp [nullRun]
  | _ + 1, [], base => by simp [nullRun]
  | room + 1, (r, d) :: lv, base => by
    by_cases hd : d = md
    · simp [nullRun, hd]
    · obtain ⟨h1, h2⟩ := nullRun_spec md room lv base
      simp only [nullRun, ne_eq, hd, not_false_eq_true, if_true, List.cons_append, weave, if_false,
        h1, List.length_cons]
      exact ⟨trivial, by omega⟩

theorem defRun_le (md : Nat) : ∀ (room : Nat) (lv : List (Nat × Nat)),
    defRun md room lv ≤ room ∧ defRun md room lv ≤ lv.length
  | 0, lv => by simp [defRun]
  | _ + 1, [] => by simp [defRun]
  | room + 1, (r, d) :: lv => by
    obtain ⟨h1, h2⟩ := defRun_le md room lv
    simp only [defRun, List.length_cons]
    split <;> omega

theorem defRun_weave (md : Nat) : ∀ (room : Nat) (lv : List (Nat × Nat)) (k : Nat) (base : List Nat),
    k ≤ defRun md room lv → k ≤ base.length →
    emit md (lv.take k) (base.take k) ++ weave md (lv.drop k) (base.drop k) = weave md lv base ∧
      (emit md (lv.take k) (base.take k)).length = k
  | _, lv, 0, base, _, _ => by
    cases lv <;> simp [emit]
  | 0, lv, k + 1, base, h, _ => by simp [defRun] at h
  | _ + 1, [], k + 1, base, h, _ => by simp [defRun] at h
  | room + 1, (r, d) :: lv, k + 1, base, h, hb => by
    by_cases hd : d = md
    · subst hd
      cases base with
      | nil => simp at hb
      | cons v bs =>
        simp only [defRun, if_true] at h
        obtain ⟨h1, h2⟩ := defRun_weave d room lv k bs (by omega) (by simpa using hb)
        simp only [List.take_succ_cons, emit, List.drop_succ_cons, List.cons_append, weave, if_true,
          h1, List.length_cons, h2]
        exact ⟨trivial, trivial⟩
    · simp [defRun, hd] at h

theorem defRun_pos_weave_nil (md : Nat) (room : Nat) (lv : List (Nat × Nat))
    (h : defRun md room lv ≠ 0) : weave md lv [] = [] := by
  cases room with
  | zero => simp [defRun] at h
  | succ room =>
    cases lv with
    | nil => rfl
    | cons x lv =>
      obtain ⟨r, d⟩ := x
      by_cases hd : d = md
      · simp [weave, hd]
      · simp [defRun, hd] at h

theorem nullRun_progress (md : Nat) (room : Nat) (lv : List (Nat × Nat)) (hr : room ≠ 0)
    (hl : lv ≠ []) (h : defRun md (room - (nullRun md room lv).1.length) (nullRun md room lv).2 = 0) :
    1 ≤ (nullRun md room lv).1.length := by
  cases room with
  | zero => exact absurd rfl hr
  | succ room =>
    cases lv with
    | nil => exact absurd rfl hl
    | cons x lv =>
      obtain ⟨r, d⟩ := x
      by_cases hd : d = md
      · simp [nullRun, hd, defRun] at h
      · simp [nullRun, hd]

/-! ## one call -/

theorem rvLoop_spec (md : Nat) : ∀ (fuel room : Nat) (st : RV) (caps : List Nat) (acc out : List Triple)
    (st' : RV) (caps' : List Nat) (eof : Bool),
    rvLoop md fuel room st caps acc = some (out, st', caps', eof) →
    out ++ weave md st'.lv st'.base = acc ++ weave md st.lv st.base ∧
      (eof = true → weave md st'.lv st'.base = []) ∧
      out.length ≤ acc.length + room ∧ (eof = false → out.length = acc.length + room)
  | 0, _, _, _, _, _, _, _, _, h => by simp [rvLoop] at h
  | fuel + 1, room, st, caps, acc, out, st', caps', eof, h => by
    unfold rvLoop at h
    by_cases hroom : room = 0
    · simp only [hroom, if_true, Option.some.injEq, Prod.mk.injEq] at h
      obtain ⟨rfl, rfl, rfl, rfl⟩ := h
      refine ⟨rfl, ?_, by simp [hroom], by simp [hroom]⟩
      intro he
      have : st.lv = [] := by simpa using he
      simp [this, weave]
    · simp only [hroom, if_false] at h
      by_cases hlv : st.lv.isEmpty = true
      · simp only [hlv, if_true, Option.some.injEq, Prod.mk.injEq] at h
        obtain ⟨rfl, rfl, rfl, rfl⟩ := h
        have : st.lv = [] := by simpa using hlv
        exact ⟨rfl, by simp [this, weave], by omega, by simp⟩
      · simp only [hlv, Bool.false_eq_true, if_false] at h
        obtain ⟨n1, n2⟩ := nullRun_spec md room st.lv st.base
        generalize hnr : nullRun md room st.lv = nr at h n1 n2
        obtain ⟨dl1, dl2⟩ := defRun_le md (room - nr.1.length) nr.2
        by_cases hm : defRun md (room - nr.1.length) nr.2 = 0
        · simp only [hm, if_true] at h
          obtain ⟨i1, i2, i3, i4⟩ := rvLoop_spec md fuel _ _ _ _ _ _ _ _ h
          simp only at i1 i3 i4
          refine ⟨by rw [i1, List.append_assoc, n1], i2, ?_, ?_⟩
          · simp only [List.length_append] at i3; omega
          · intro he; have := i4 he; simp only [List.length_append] at this; omega
        · simp only [hm, if_false] at h
          by_cases hk : min (defRun md (room - nr.1.length) nr.2)
              (min (capOf caps (defRun md (room - nr.1.length) nr.2)) st.base.length) = 0
          · simp only [hk, if_true, Option.some.injEq, Prod.mk.injEq] at h
            obtain ⟨rfl, rfl, rfl, rfl⟩ := h
            have hb : st.base = [] := by
              have hc := capOf_pos caps _ hm
              have : st.base.length = 0 := by omega
              exact List.eq_nil_of_length_eq_zero this
            have hw := defRun_pos_weave_nil md _ _ hm
            simp only
            refine ⟨by rw [List.append_assoc, ← n1, hb], fun _ => by rw [hb]; exact hw, ?_, by simp⟩
            simp only [List.length_append]; omega
          · simp only [hk, if_false] at h
            generalize hkk : min (defRun md (room - nr.1.length) nr.2)
              (min (capOf caps (defRun md (room - nr.1.length) nr.2)) st.base.length) = k at h hk
            obtain ⟨w1, w2⟩ := defRun_weave md (room - nr.1.length) nr.2 k st.base (by omega) (by omega)
            obtain ⟨i1, i2, i3, i4⟩ := rvLoop_spec md fuel _ _ _ _ _ _ _ _ h
            simp only at i1 i3 i4
            refine ⟨by rw [i1, List.append_assoc, List.append_assoc, w1, n1], i2, ?_, ?_⟩
            · simp only [List.length_append, w2] at i3; omega
            · intro he; have := i4 he; simp only [List.length_append, w2] at this; omega

theorem rvLoop_total (md : Nat) : ∀ (fuel room : Nat) (st : RV) (caps : List Nat) (acc : List Triple),
    room < fuel → (rvLoop md fuel room st caps acc).isSome = true
  | 0, _, _, _, _, h => by omega
  | fuel + 1, room, st, caps, acc, h => by
    unfold rvLoop
    by_cases hroom : room = 0
    · simp [hroom]
    · simp only [hroom, if_false]
      by_cases hlv : st.lv.isEmpty = true
      · simp [hlv]
      · simp only [hlv, Bool.false_eq_true, if_false]
        have hne : st.lv ≠ [] := by simpa using hlv
        by_cases hm : defRun md (room - (nullRun md room st.lv).1.length) (nullRun md room st.lv).2 = 0
        · simp only [hm, if_true]
          have := nullRun_progress md room st.lv hroom hne hm
          exact rvLoop_total md fuel _ _ _ _ (by omega)
        · simp only [hm, if_false]
          split
          · rfl
          · rename_i hk
            exact rvLoop_total md fuel _ _ _ _ (by omega)

/-- **one `ReadValues` call** (any buffer size, any short reads of the base reader): it returns, what
    it delivers is the next piece of the page's stream, `io.EOF` only when nothing is left, and
    without `io.EOF` the buffer is full -/
theorem readValues_spec (md room : Nat) (st : RV) (caps : List Nat) :
    ∃ out st' caps' eof, readValues md room st caps = some (out, st', caps', eof) ∧
      out ++ weave md st'.lv st'.base = weave md st.lv st.base ∧
      (eof = true → weave md st'.lv st'.base = []) ∧
      out.length ≤ room ∧ (eof = false → out.length = room) := by
  have ht := rvLoop_total md (room + 1) room st caps [] (by omega)
  unfold readValues
  cases hres : rvLoop md (room + 1) room st caps [] with
  | none => simp [hres] at ht
  | some res =>
    obtain ⟨out, st', caps', eof⟩ := res
    obtain ⟨i1, i2, i3, i4⟩ := rvLoop_spec md _ _ _ _ _ _ _ _ _ hres
    exact ⟨out, st', caps', eof, rfl, by simpa using i1, i2, by simpa using i3, by simpa using i4⟩

/-! ## a caller reading until `io.EOF` -/

theorem readAll_spec (md : Nat) : ∀ (szs : List Nat) (st : RV) (caps : List Nat) (acc : List Triple),
    ∃ res eof, readAll md szs st caps acc = some (res, eof) ∧
      (eof = true → res = acc ++ weave md st.lv st.base) ∧
      (eof = false → res.length = acc.length + szs.sum ∧
        ∃ rest, res ++ rest = acc ++ weave md st.lv st.base)
  | [], st, caps, acc => ⟨acc, false, rfl, by simp, fun _ => ⟨by simp, _, rfl⟩⟩
  | sz :: szs, st, caps, acc => by
    obtain ⟨out, st', caps', eof, h, h1, h2, h3, h4⟩ := readValues_spec md sz st caps
    simp only [readAll, h]
    cases eof with
    | true =>
      refine ⟨acc ++ out, true, by simp, ?_, by simp⟩
      intro _
      rw [← h1, h2 rfl, List.append_nil]
    | false =>
      obtain ⟨res, eof, g, g1, g2⟩ := readAll_spec md szs st' caps' (acc ++ out)
      refine ⟨res, eof, by simpa using g, ?_, ?_⟩
      · intro he
        rw [g1 he, List.append_assoc, h1]
      · intro he
        obtain ⟨l, rest, hr⟩ := g2 he
        refine ⟨?_, rest, by rw [hr, List.append_assoc, h1]⟩
        simp only [List.length_append, h4 rfl] at l
        simp only [List.sum_cons]
        omega

theorem weave_length_le (md : Nat) : ∀ (lv : List (Nat × Nat)) (base : List Nat),
    (weave md lv base).length ≤ lv.length
  | [], _ => by simp [weave]
  | (r, d) :: lv, base => by
    by_cases hd : d = md
    · cases base with
      | nil => simp [weave, hd]
      | cons v bs =>
        have := weave_length_le md lv bs
        simp only [weave, hd, if_true, List.length_cons]; omega
    · have := weave_length_le md lv base
      simp only [weave, hd, if_false, List.length_cons]; omega

/-- **reading a page to the end**: buffers of any sizes whose sum exceeds the number of slots reach
    `io.EOF`, and what was read is exactly the page's stream, whatever the short reads below -/
theorem readAll_complete (md : Nat) (szs : List Nat) (st : RV) (caps : List Nat)
    (hs : st.lv.length < szs.sum) :
    readAll md szs st caps [] = some (weave md st.lv st.base, true) := by
  obtain ⟨res, eof, h, h1, h2⟩ := readAll_spec md szs st caps []
  cases eof with
  | true => rw [h, h1 rfl, List.nil_append]
  | false =>
    obtain ⟨l, rest, hr⟩ := h2 rfl
    have hw := weave_length_le md st.lv st.base
    have : res.length ≤ (weave md st.lv st.base).length := by
      have := congrArg List.length hr
      simp only [List.length_append, List.length_nil] at this
      omega
    simp only [List.length_nil] at l
    omega

end PqModel.PageSlice
