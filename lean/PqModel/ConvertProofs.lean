import PqModel.Convert

/-! Lemmas for C12: the level-table conversion of `convert.go` (mirror `convN`) agrees with
    shredding the projected value, for targets obtained by deleting / permuting fields and
    turning required fields into optional ones. -/
namespace PqModel.Convert
open PqModel.Dremel

/-! ### zipApp algebra -/

theorem zipApp_replicate_nil : ∀ (A : Cols) (m : Nat), A.length = m → zipApp A (List.replicate m []) = A
  | [], _, _ => by simp [zipApp]
  | a :: as, 0, h => by simp at h
  | a :: as, m + 1, h => by
    simp only [List.replicate_succ, zipApp, List.append_nil]
    rw [zipApp_replicate_nil as m (by simpa using h)]

theorem zipApp_append : ∀ {A1 B1 : Cols} (A2 B2 : Cols), A1.length = B1.length →
    zipApp (A1 ++ A2) (B1 ++ B2) = zipApp A1 B1 ++ zipApp A2 B2
  | [], [], _, _, _ => by simp [zipApp]
  | a :: as, b :: bs, A2, B2, h => by
    simp only [List.cons_append, zipApp]
    rw [zipApp_append A2 B2 (by simpa using h)]
  | [], _ :: _, _, _, h => by simp at h
  | _ :: _, [], _, _, h => by simp at h

theorem zipApp_take : ∀ (n : Nat) (A B : Cols), (zipApp A B).take n = zipApp (A.take n) (B.take n)
  | 0, _, _ => by simp [zipApp]
  | n + 1, [], _ => by simp [zipApp]
  | n + 1, _ :: _, [] => by simp [zipApp]
  | n + 1, a :: as, b :: bs => by simp [zipApp, zipApp_take n as bs]

theorem zipApp_drop : ∀ (n : Nat) (A B : Cols), A.length = B.length →
    (zipApp A B).drop n = zipApp (A.drop n) (B.drop n)
  | 0, _, _, _ => by simp
  | n + 1, [], [], _ => by simp [zipApp]
  | n + 1, [], _ :: _, h => by simp at h
  | n + 1, _ :: _, [], h => by simp at h
  | n + 1, a :: as, b :: bs, h => by simp [zipApp, zipApp_drop n as bs (by simpa using h)]

theorem zipApp_assoc : ∀ (A B C : Cols), zipApp (zipApp A B) C = zipApp A (zipApp B C)
  | [], _, _ => by simp [zipApp]
  | _ :: _, [], _ => by simp [zipApp]
  | _ :: _, _ :: _, [] => by simp [zipApp]
  | a :: as, b :: bs, c :: cs => by simp [zipApp, zipApp_assoc as bs cs]

/-- all columns non-empty -/
def NE (X : Cols) : Prop := ∀ c ∈ X, c ≠ []

theorem ne_zipApp {A B : Cols} (ha : NE A) : NE (zipApp A B) := by
  intro c hc
  rcases mem_zipApp hc with ⟨a, ha', b, _, rfl⟩
  have := ha a ha'
  cases a with
  | nil => exact absurd rfl this
  | cons x xs => simp

theorem ne_take {A : Cols} (n : Nat) (ha : NE A) : NE (A.take n) :=
  fun c hc => ha c (List.mem_of_mem_take hc)

theorem ne_drop {A : Cols} (n : Nat) (ha : NE A) : NE (A.drop n) :=
  fun c hc => ha c (List.mem_of_mem_drop hc)

theorem ne_of_good {m r k d : Nat} {X : Cols} (h : Good m r k d X) : NE X := by
  intro c hc
  rcases h.2 c hc with ⟨t, ts, rfl, _⟩
  simp

/-! ### wrappers -/

theorem leaves_wrap (rp : Rp) (n : Node) : leavesN (wrap rp n) = leavesN n := by
  cases rp <;> simp [wrap, leavesN]

theorem wf_wrap (rp : Rp) (n : Node) : wfN (wrap rp n) = wfN n := by
  cases rp <;> simp [wrap, wfN]

theorem absent_wrap (rp : Rp) (n : Node) (r d : Nat) : absentN (wrap rp n) r d = absentN n r d := by
  cases rp <;> simp [wrap, absentN]

theorem absentN_length (n : Node) (r d : Nat) : (absentN n r d).length = leavesN n :=
  (absentN_good n r 0 d).1

theorem absentF_length (fs : Fields) (r d : Nat) : (absentF fs r d).length = leavesF fs :=
  (absentF_good fs r 0 d).1

/-! ### field lookup -/

/-- the block of columns of the (first) field named `nm` -/
def blkOf (nm : Nat) : PFields → Cols → Cols
  | .nil, _ => []
  | .cons nm' _ n fs, blk =>
    if nm' = nm then blk.take (leavesP n) else blkOf nm fs (blk.drop (leavesP n))

theorem findB_eq (nm : Nat) : ∀ (sfs : PFields) (blk : Cols),
    findB nm sfs blk = (getFld nm sfs).map (fun p => (p.1, p.2, blkOf nm sfs blk))
  | .nil, _ => by simp [findB, getFld]
  | .cons nm' rp n fs, blk => by
    simp only [findB, getFld, blkOf]
    split
    · simp
    · exact findB_eq nm fs _

theorem shredN_length (n : Node) (r k d : Nat) (v : Val) (hw : wfN n = true) (hr : r ≤ k) :
    (shredN n r k d v).length = leavesN n := (shredN_spec n r k d v hw hr).1.1

theorem fld_shred (nm : Nat) (srp : Rp) (s : PNode) (r k d : Nat) (hr : r ≤ k) :
    ∀ (sfs : PFields) (vs : List Val), wfF (eraseF sfs) = true → confF (eraseF sfs) vs = true →
      getFld nm sfs = some (srp, s) →
      ∃ v, findV nm sfs vs = some (srp, s, v) ∧
        blkOf nm sfs (shredF (eraseF sfs) r k d vs) = shredN (wrap srp (eraseN s)) r k d v ∧
        confN (wrap srp (eraseN s)) v = true ∧ wfN (eraseN s) = true
  | .nil, _, _, _, h => by simp [getFld] at h
  | .cons nm' rp n fs, vs, hw, hc, h => by
    simp only [eraseF, wfF, Bool.and_eq_true] at hw
    cases vs with
    | nil => simp [eraseF, confF] at hc
    | cons v vs' =>
      simp only [eraseF, confF, Bool.and_eq_true] at hc
      have hlen := shredN_length (wrap rp (eraseN n)) r k d v hw.1 hr
      rw [leaves_wrap] at hlen
      simp only [getFld] at h
      simp only [findV, blkOf, eraseF, shredF]
      split
      · rename_i heq
        simp only [heq, if_true, Option.some.injEq, Prod.mk.injEq] at h
        obtain ⟨rfl, rfl⟩ := h
        refine ⟨v, rfl, ?_, hc.1, by simpa [wf_wrap] using hw.1⟩
        exact List.take_left' hlen
      · rename_i hne
        simp only [hne, if_false] at h
        obtain ⟨v', h1, h2, h3, h4⟩ := fld_shred nm srp s r k d hr fs vs' hw.2 hc.2 h
        refine ⟨v', h1, ?_, h3, h4⟩
        rw [show leavesP n = (shredN (wrap rp (eraseN n)) r k d v).length from hlen.symm, List.drop_left]
        exact h2

theorem fld_absent (nm : Nat) (srp : Rp) (s : PNode) (r d : Nat) :
    ∀ (sfs : PFields), getFld nm sfs = some (srp, s) →
      blkOf nm sfs (absentF (eraseF sfs) r d) = absentN (eraseN s) r d
  | .nil, h => by simp [getFld] at h
  | .cons nm' rp n fs, h => by
    have hlen := absentN_length (wrap rp (eraseN n)) r d
    rw [leaves_wrap] at hlen
    simp only [getFld] at h
    simp only [blkOf, eraseF, absentF]
    split
    · rename_i heq
      simp only [heq, if_true, Option.some.injEq, Prod.mk.injEq] at h
      obtain ⟨rfl, rfl⟩ := h
      rw [show leavesP n = (absentN (wrap rp (eraseN n)) r d).length from hlen.symm, List.take_left, absent_wrap]
    · rename_i hne
      simp only [hne, if_false] at h
      rw [show leavesP n = (absentN (wrap rp (eraseN n)) r d).length from hlen.symm, List.drop_left]
      exact fld_absent nm srp s r d fs h

theorem wf_of_getFld (nm : Nat) (srp : Rp) (s : PNode) :
    ∀ (sfs : PFields), wfF (eraseF sfs) = true → getFld nm sfs = some (srp, s) → wfN (eraseN s) = true
  | .nil, _, h => by simp [getFld] at h
  | .cons nm' rp n fs, hw, h => by
    simp only [eraseF, wfF, Bool.and_eq_true] at hw
    simp only [getFld] at h
    split at h
    · simp only [Option.some.injEq, Prod.mk.injEq] at h
      obtain ⟨rfl, rfl⟩ := h
      simpa [wf_wrap] using hw.1
    · exact wf_of_getFld nm srp s fs hw.2 h

theorem leavesF_cons (nm : Nat) (rp : Rp) (n : PNode) (fs : PFields) :
    leavesF (eraseF (.cons nm rp n fs)) = leavesP n + leavesF (eraseF fs) := by
  simp [eraseF, leavesF, leaves_wrap, leavesP]

theorem blkOf_zip (nm : Nat) : ∀ (sfs : PFields) (X Y : Cols), X.length = Y.length →
    blkOf nm sfs (zipApp X Y) = zipApp (blkOf nm sfs X) (blkOf nm sfs Y)
  | .nil, _, _, _ => by simp [blkOf, zipApp]
  | .cons nm' rp n fs, X, Y, h => by
    simp only [blkOf]
    split
    · exact zipApp_take _ _ _
    · rw [zipApp_drop _ _ _ h]
      exact blkOf_zip nm fs _ _ (by simp [h])

theorem blkOf_length (nm : Nat) (rp : Rp) (n : PNode) : ∀ (sfs : PFields) (X : Cols),
    getFld nm sfs = some (rp, n) → X.length = leavesF (eraseF sfs) → (blkOf nm sfs X).length = leavesP n
  | .nil, _, h, _ => by simp [getFld] at h
  | .cons nm' rp' n' fs, X, h, hl => by
    rw [leavesF_cons] at hl
    simp only [getFld] at h
    simp only [blkOf]
    split
    · rename_i heq
      simp only [heq, if_true, Option.some.injEq, Prod.mk.injEq] at h
      obtain ⟨rfl, rfl⟩ := h
      simp [List.length_take]; omega
    · rename_i hne
      simp only [hne, if_false] at h
      exact blkOf_length nm rp n fs _ h (by simp [List.length_drop]; omega)

theorem blkOf_ne (nm : Nat) : ∀ (sfs : PFields) (X : Cols), NE X → NE (blkOf nm sfs X)
  | .nil, _, _ => by intro c hc; simp [blkOf] at hc
  | .cons nm' rp n fs, X, h => by
    simp only [blkOf]
    split
    · exact ne_take _ h
    · exact blkOf_ne nm fs _ (ne_drop _ h)

/-! ### the conversion of one column is a map -/

mutual
theorem convN_length : ∀ (t : PNode) (trp : Rp) (lv : Lv) (s : Src), (convN t trp lv s).length = leavesP t
  | .leaf, _, _, _ => by simp [convN, leavesP, eraseN, leavesN]
  | .group tfs, _, lv, s => by
    simp only [convN, leavesP, eraseN, leavesN]
    exact convF_length tfs lv s
theorem convF_length : ∀ (tfs : PFields) (lv : Lv) (s : Src), (convF tfs lv s).length = leavesF (eraseF tfs)
  | .nil, _, _ => by simp [convF, eraseF, leavesF]
  | .cons nm trp tn tfs, lv, s => by
    rw [leavesF_cons]
    simp only [convF, List.length_append]
    rw [convN_length tn, convF_length tfs]
end

/-- what `leafOut` does to one entry of a non-empty source column -/
def leafFn (lv : Lv) (t : Triple) : Triple :=
  let u := if isDirect lv.R (lv.sr + 1) && isDirect lv.D (lv.sd + 1) then t
    else if t.rep ≥ lv.sr + 1 ∨ t.dfn ≥ lv.sd + 1 then ⟨none, 0, 0⟩ else ⟨t.val, lv.R t.rep, lv.D t.dfn⟩
  if u.val.isNone && !(decide (lv.td > 0)) then ⟨some 0, 0, 0⟩ else u

theorem leafOut_on (tOpt : Bool) (lv : Lv) (c : List Triple) (pc : Option (List Triple)) (h : c ≠ []) :
    leafOut tOpt lv (.on .leaf [c] pc) = c.map (leafFn lv) := by
  have he : c.isEmpty = false := by cases c <;> simp_all
  simp only [leafOut, List.headD_cons, he, Bool.false_eq_true, if_false]
  by_cases hd : (isDirect lv.R (lv.sr + 1) && isDirect lv.D (lv.sd + 1)) = true
  · simp only [hd, if_true, fixup]
    apply List.map_congr_left
    intro t _
    simp [leafFn, hd]
  · have hd' : (isDirect lv.R (lv.sr + 1) && isDirect lv.D (lv.sd + 1)) = false := by
      cases h' : (isDirect lv.R (lv.sr + 1) && isDirect lv.D (lv.sd + 1)) <;> simp_all
    simp only [hd', Bool.false_eq_true, if_false, fixup, convLevels, List.map_map]
    apply List.map_congr_left
    intro t _
    simp [leafFn, hd']

theorem isDirect_spec {f : Nat → Nat} {n i : Nat} (h : isDirect f n = true) (hi : i < n) : f i = i := by
  simp only [isDirect, List.all_eq_true, List.mem_range] at h
  simpa using h i hi

theorem upd_same (f : Nat → Nat) (i v : Nat) : upd f i v i = v := by simp [upd]
theorem upd_other (f : Nat → Nat) {i j : Nat} (v : Nat) (h : j ≠ i) : upd f i v j = f j := by simp [upd, h]

/-! ### steps -/

theorem stepS_on (nm : Nat) (trp : Rp) (lv : Lv) (sfs : PFields) (blk : Cols) (pc : Option (List Triple))
    {srp : Rp} {sn : PNode} (h : getFld nm sfs = some (srp, sn)) :
    stepS nm trp lv (.on (.group sfs) blk pc) =
      (lv.step trp srp, .on sn (blkOf nm sfs blk) ((closestLeaf sfs blk none).map (·.2))) := by
  simp [stepS, findB_eq, h]

theorem subF_cons {sfs : PFields} {nm : Nat} {trp : Rp} {t : PNode} {tfs : PFields}
    (h : subF sfs (.cons nm trp t tfs) = true) :
    ∃ srp s, getFld nm sfs = some (srp, s) ∧ rpOk srp trp = true ∧ subN s t = true ∧ subF sfs tfs = true := by
  simp only [subF, Bool.and_eq_true] at h
  cases hg : getFld nm sfs with
  | none => simp [hg] at h
  | some p =>
    obtain ⟨srp, s⟩ := p
    simp only [hg, Bool.and_eq_true] at h
    exact ⟨srp, s, rfl, h.1.1, h.1.2, h.2⟩

theorem rpOk_rep {srp trp : Rp} (h : rpOk srp trp = true) : repOf srp = repOf trp := by
  cases srp <;> cases trp <;> simp_all [rpOk, repOf]

theorem leafFn_absent (lv : Lv) (r d : Nat) (hr : r ≤ lv.sr) (hd : d ≤ lv.sd) (htd : 0 < lv.td) :
    leafFn lv ⟨none, r, d⟩ = ⟨none, lv.R r, lv.D d⟩ := by
  by_cases hdir : (isDirect lv.R (lv.sr + 1) && isDirect lv.D (lv.sd + 1)) = true
  · have h1 := isDirect_spec (Bool.and_eq_true_iff.mp hdir).1 (show r < lv.sr + 1 by omega)
    have h2 := isDirect_spec (Bool.and_eq_true_iff.mp hdir).2 (show d < lv.sd + 1 by omega)
    simp [leafFn, hdir, h1, h2, htd]
  · have hdir' : (isDirect lv.R (lv.sr + 1) && isDirect lv.D (lv.sd + 1)) = false := by
      cases h' : (isDirect lv.R (lv.sr + 1) && isDirect lv.D (lv.sd + 1)) <;> simp_all
    have hg : ¬ (r ≥ lv.sr + 1 ∨ d ≥ lv.sd + 1) := by omega
    simp [leafFn, hdir', hg, htd]

theorem leafFn_value (lv : Lv) (x r : Nat) (hr : r ≤ lv.sr) (hD : lv.D lv.sd = lv.td) :
    leafFn lv ⟨some x, r, lv.sd⟩ = ⟨some x, lv.R r, lv.td⟩ := by
  by_cases hdir : (isDirect lv.R (lv.sr + 1) && isDirect lv.D (lv.sd + 1)) = true
  · have h1 := isDirect_spec (Bool.and_eq_true_iff.mp hdir).1 (show r < lv.sr + 1 by omega)
    have h2 := isDirect_spec (Bool.and_eq_true_iff.mp hdir).2 (show lv.sd < lv.sd + 1 by omega)
    simp [leafFn, hdir, h1, ← hD, h2]
  · have hdir' : (isDirect lv.R (lv.sr + 1) && isDirect lv.D (lv.sd + 1)) = false := by
      cases h' : (isDirect lv.R (lv.sr + 1) && isDirect lv.D (lv.sd + 1)) <;> simp_all
    have hg : ¬ (r ≥ lv.sr + 1 ∨ lv.sd ≥ lv.sd + 1) := by omega
    simp [leafFn, hdir', hg, hD]

/-- the tables after one more path step agree with the old ones on the levels already passed -/
theorem step_R {lv : Lv} {trp srp : Rp} {r : Nat} (hok : rpOk srp trp = true) (hr : r ≤ lv.sr)
    (hR : lv.R lv.sr = lv.tr) : (lv.step trp srp).R r = lv.R r := by
  simp only [Lv.step, upd]
  split
  · rename_i h
    have h0 : repOf srp = 0 := by omega
    have h1 : repOf trp = 0 := by rw [← rpOk_rep hok]; exact h0
    have : r = lv.sr := by omega
    rw [h1, this, hR]; simp
  · rfl

theorem step_D {lv : Lv} {trp srp : Rp} {d : Nat} (hd : d < lv.sd + defOf srp) : (lv.step trp srp).D d = lv.D d := by
  simp only [Lv.step, upd]
  split
  · omega
  · rfl

/-! ### absent subtrees -/

mutual
theorem absent_convN : ∀ (t : PNode) (trp : Rp) (lv : Lv) (s : PNode) (r d : Nat) (pc : Option (List Triple)),
    subN s t = true → r ≤ lv.sr → lv.R lv.sr = lv.tr → d < lv.sd → 0 < lv.td →
    convN t trp lv (.on s (absentN (eraseN s) r d) pc) = absentN (eraseN t) (lv.R r) (lv.D d)
  | .leaf, trp, lv, s, r, d, pc, hs, hr, hR, hd, htd => by
    cases s with
    | leaf =>
      simp only [convN, eraseN, absentN]
      rw [leafOut_on _ _ _ _ (by simp)]
      simp [leafFn_absent lv r d hr (by omega) htd]
    | group sfs => simp [subN] at hs
  | .group tfs, trp, lv, s, r, d, pc, hs, hr, hR, hd, htd => by
    cases s with
    | leaf => simp [subN] at hs
    | group sfs =>
      simp only [subN] at hs
      simp only [convN, eraseN, absentN]
      exact absent_convF tfs lv sfs r d pc hs hr hR hd htd
theorem absent_convF : ∀ (tfs : PFields) (lv : Lv) (sfs : PFields) (r d : Nat) (pc : Option (List Triple)),
    subF sfs tfs = true → r ≤ lv.sr → lv.R lv.sr = lv.tr → d < lv.sd → 0 < lv.td →
    convF tfs lv (.on (.group sfs) (absentF (eraseF sfs) r d) pc) = absentF (eraseF tfs) (lv.R r) (lv.D d)
  | .nil, _, _, _, _, _, _, _, _, _, _ => by simp [convF, eraseF, absentF]
  | .cons nm trp tn tfs, lv, sfs, r, d, pc, hs, hr, hR, hd, htd => by
    obtain ⟨srp, sn, hg, hok, hsn, hrest⟩ := subF_cons hs
    simp only [convF, stepS_on nm trp lv sfs _ pc hg, eraseF, absentF, absent_wrap]
    rw [fld_absent nm srp sn r d sfs hg]
    rw [absent_convN tn trp (lv.step trp srp) sn r d _ hsn
      (by simp [Lv.step]; omega) (by simp [Lv.step, upd_same]) (by simp [Lv.step]; omega) (by simp [Lv.step]; omega)]
    rw [step_R hok hr hR, step_D (Nat.lt_add_right _ hd)]
    rw [absent_convF tfs lv sfs r d pc hrest hr hR hd htd]
end

/-! ### unconditional column counts -/

theorem zipApp_len_min : ∀ (A B : Cols), (zipApp A B).length = min A.length B.length
  | [], _ => by simp [zipApp]
  | _ :: _, [] => by simp [zipApp]
  | a :: as, b :: bs => by simp [zipApp, zipApp_len_min as bs]

theorem foldr_zip_len (m : Nat) (g : Val → Cols) (hg : ∀ w, (g w).length = m) : ∀ (ws : List Val),
    (ws.foldr (fun w acc => zipApp (g w) acc) (List.replicate m [])).length = m
  | [] => by simp
  | w :: ws => by
    simp only [List.foldr_cons]
    rw [zipApp_len_min, hg w, foldr_zip_len m g hg ws]; simp

mutual
theorem shredN_len : ∀ (n : Node) (r k d : Nat) (v : Val), (shredN n r k d v).length = leavesN n
  | .leaf, r, k, d, v => by cases v <;> simp [shredN, leavesN]
  | .group fs, r, k, d, v => by
    cases v with
    | struct vs => simp only [shredN, leavesN]; exact shredF_len fs r k d vs
    | prim _ => simp only [shredN, leavesN]; exact absentF_length fs r d
    | none => simp only [shredN, leavesN]; exact absentF_length fs r d
    | some _ => simp only [shredN, leavesN]; exact absentF_length fs r d
    | list _ => simp only [shredN, leavesN]; exact absentF_length fs r d
  | .opt n, r, k, d, v => by
    cases v with
    | some w => simp only [shredN, leavesN]; exact shredN_len n r k (d + 1) w
    | prim _ => simp only [shredN, leavesN]; exact absentN_length n r d
    | none => simp only [shredN, leavesN]; exact absentN_length n r d
    | struct _ => simp only [shredN, leavesN]; exact absentN_length n r d
    | list _ => simp only [shredN, leavesN]; exact absentN_length n r d
  | .rpt n, r, k, d, v => by
    cases v with
    | list ws =>
      cases ws with
      | nil => simp only [shredN, leavesN]; exact absentN_length n r d
      | cons w ws =>
        simp only [shredN, leavesN]
        rw [zipApp_len_min, shredN_len n r (k + 1) (d + 1) w,
          foldr_zip_len (leavesN n) _ (fun w => shredN_len n (k + 1) (k + 1) (d + 1) w) ws]
        simp
    | prim _ => simp only [shredN, leavesN]; exact absentN_length n r d
    | none => simp only [shredN, leavesN]; exact absentN_length n r d
    | struct _ => simp only [shredN, leavesN]; exact absentN_length n r d
    | some _ => simp only [shredN, leavesN]; exact absentN_length n r d
theorem shredF_len : ∀ (fs : Fields) (r k d : Nat) (vs : List Val), (shredF fs r k d vs).length = leavesF fs
  | .nil, _, _, _, _ => by simp [shredF, leavesF]
  | .cons n fs, r, k, d, vs => by
    cases vs with
    | nil => simp [shredF, leavesF, absentN_length, absentF_length]
    | cons v vs' => simp [shredF, leavesF, shredN_len n r k d v, shredF_len fs r k d vs']
end

/-! ### the conversion distributes over the concatenation of list elements -/

mutual
theorem lin_convN : ∀ (t : PNode) (trp : Rp) (lv : Lv) (s : PNode) (X Y : Cols) (p1 p2 p3 : Option (List Triple)),
    subN s t = true → X.length = leavesP s → Y.length = leavesP s → NE X → NE Y →
    convN t trp lv (.on s (zipApp X Y) p3) =
      zipApp (convN t trp lv (.on s X p1)) (convN t trp lv (.on s Y p2))
  | .leaf, trp, lv, s, X, Y, p1, p2, p3, hs, hx, hy, nx, ny => by
    cases s with
    | group sfs => simp [subN] at hs
    | leaf =>
      simp only [leavesP, eraseN, leavesN] at hx hy
      match X, Y, hx, hy with
      | [x], [y], _, _ =>
        have hxne : x ≠ [] := nx x (by simp)
        have hyne : y ≠ [] := ny y (by simp)
        have hxy : x ++ y ≠ [] := by simp [hxne]
        simp only [convN, zipApp]
        rw [leafOut_on _ _ _ _ hxy, leafOut_on _ _ _ _ hxne, leafOut_on _ _ _ _ hyne, List.map_append]
  | .group tfs, trp, lv, s, X, Y, p1, p2, p3, hs, hx, hy, nx, ny => by
    cases s with
    | leaf => simp [subN] at hs
    | group sfs =>
      simp only [subN] at hs
      simp only [leavesP, eraseN, leavesN] at hx hy
      simp only [convN]
      exact lin_convF tfs lv sfs X Y p1 p2 p3 hs hx hy nx ny
theorem lin_convF : ∀ (tfs : PFields) (lv : Lv) (sfs : PFields) (X Y : Cols) (p1 p2 p3 : Option (List Triple)),
    subF sfs tfs = true → X.length = leavesF (eraseF sfs) → Y.length = leavesF (eraseF sfs) → NE X → NE Y →
    convF tfs lv (.on (.group sfs) (zipApp X Y) p3) =
      zipApp (convF tfs lv (.on (.group sfs) X p1)) (convF tfs lv (.on (.group sfs) Y p2))
  | .nil, _, _, _, _, _, _, _, _, _, _, _, _ => by simp [convF, zipApp]
  | .cons nm trp tn tfs, lv, sfs, X, Y, p1, p2, p3, hs, hx, hy, nx, ny => by
    obtain ⟨srp, sn, hg, hok, hsn, hrest⟩ := subF_cons hs
    simp only [convF, stepS_on nm trp lv sfs _ _ hg]
    rw [blkOf_zip nm sfs X Y (by rw [hx, hy])]
    rw [lin_convN tn trp (lv.step trp srp) sn (blkOf nm sfs X) (blkOf nm sfs Y)
      ((closestLeaf sfs X none).map (·.2)) ((closestLeaf sfs Y none).map (·.2)) _ hsn
      (blkOf_length nm srp sn sfs X hg hx) (blkOf_length nm srp sn sfs Y hg hy)
      (blkOf_ne nm sfs X nx) (blkOf_ne nm sfs Y ny)]
    rw [lin_convF tfs lv sfs X Y p1 p2 p3 hrest hx hy nx ny]
    rw [zipApp_append _ _ (by rw [convN_length, convN_length])]
end

/-! ### repeated fields -/

theorem foldr_zip_congr {g h : Val → Cols} {init : Cols} : ∀ (ws : List Val), (∀ w ∈ ws, g w = h w) →
    ws.foldr (fun w acc => zipApp (g w) acc) init = ws.foldr (fun w acc => zipApp (h w) acc) init
  | [], _ => rfl
  | w :: ws, hw => by
    simp only [List.foldr_cons]
    rw [hw w (by simp), foldr_zip_congr ws (fun x hx => hw x (by simp [hx]))]

theorem conv_fold (C : Cols → Cols) (m m' : Nat) (f : Val → Cols)
    (hlin : ∀ X Y, X.length = m → Y.length = m → NE X → NE Y → C (zipApp X Y) = zipApp (C X) (C Y))
    (hlen : ∀ X, (C X).length = m') :
    ∀ (ws : List Val), (∀ w ∈ ws, (f w).length = m ∧ NE (f w)) → ∀ (A : Cols), A.length = m → NE A →
      C (zipApp A (ws.foldr (fun w acc => zipApp (f w) acc) (List.replicate m []))) =
        zipApp (C A) (ws.foldr (fun w acc => zipApp (C (f w)) acc) (List.replicate m' []))
  | [], _, A, hA, _ => by
    simp [zipApp_replicate_nil A m hA, zipApp_replicate_nil (C A) m' (hlen A)]
  | w :: ws, hf, A, hA, nA => by
    have hw := hf w (by simp)
    simp only [List.foldr_cons]
    rw [← zipApp_assoc, conv_fold C m m' f hlin hlen ws (fun x hx => hf x (by simp [hx])) (zipApp A (f w))
      (by rw [zipApp_length (by rw [hA, hw.1]), hA]) (ne_zipApp nA),
      hlin A (f w) hA hw.1 nA hw.2, zipApp_assoc]

theorem sameKind_of_sub {s t : PNode} (h : subN s t = true) : sameKind s t = true := by
  cases s <;> cases t <;> simp_all [subN, sameKind]

/-! ### main lemma -/

theorem step_inv_R (lv : Lv) (trp srp : Rp) : (lv.step trp srp).R (lv.step trp srp).sr = (lv.step trp srp).tr := by
  simp [Lv.step, upd_same]

theorem step_inv_D (lv : Lv) (trp srp : Rp) : (lv.step trp srp).D (lv.step trp srp).sd = (lv.step trp srp).td := by
  simp [Lv.step, upd_same]

mutual
theorem main_convN : ∀ (t : PNode) (trp : Rp) (lv : Lv) (s : PNode) (v : Val) (r : Nat) (pc : Option (List Triple)),
    subN s t = true → wfN (eraseN s) = true → confN (eraseN s) v = true →
    r ≤ lv.sr → lv.R lv.sr = lv.tr → lv.D lv.sd = lv.td →
    convN t trp lv (.on s (shredN (eraseN s) r lv.sr lv.sd v) pc) =
      shredN (eraseN t) (lv.R r) lv.tr lv.td (projN s t v)
  | .leaf, trp, lv, s, v, r, pc, hs, hw, hc, hr, hR, hD => by
    cases s with
    | group sfs => simp [subN] at hs
    | leaf =>
      cases v with
      | prim x =>
        simp only [convN, eraseN, shredN, projN]
        rw [leafOut_on _ _ _ _ (by simp)]
        simp [leafFn_value lv x r hr hD]
      | struct vs => simp [eraseN, confN] at hc
      | none => simp [eraseN, confN] at hc
      | some w => simp [eraseN, confN] at hc
      | list ws => simp [eraseN, confN] at hc
  | .group tfs, trp, lv, s, v, r, pc, hs, hw, hc, hr, hR, hD => by
    cases s with
    | leaf => simp [subN] at hs
    | group sfs =>
      simp only [subN] at hs
      cases v with
      | struct vs =>
        simp only [eraseN, confN] at hc
        simp only [eraseN, wfN, Bool.and_eq_true] at hw
        simp only [convN, eraseN, shredN, projN]
        exact main_convF tfs lv sfs vs r pc hs hw.1 hc hr hR hD
      | prim x => simp [eraseN, confN] at hc
      | none => simp [eraseN, confN] at hc
      | some w => simp [eraseN, confN] at hc
      | list ws => simp [eraseN, confN] at hc
theorem main_convF : ∀ (tfs : PFields) (lv : Lv) (sfs : PFields) (vs : List Val) (r : Nat) (pc : Option (List Triple)),
    subF sfs tfs = true → wfF (eraseF sfs) = true → confF (eraseF sfs) vs = true →
    r ≤ lv.sr → lv.R lv.sr = lv.tr → lv.D lv.sd = lv.td →
    convF tfs lv (.on (.group sfs) (shredF (eraseF sfs) r lv.sr lv.sd vs) pc) =
      shredF (eraseF tfs) (lv.R r) lv.tr lv.td (projF sfs vs tfs)
  | .nil, _, _, _, _, _, _, _, _, _, _, _ => by simp [convF, eraseF, shredF, projF]
  | .cons nm trp tn tfs, lv, sfs, vs, r, pc, hs, hw, hc, hr, hR, hD => by
    obtain ⟨srp, sn, hg, hok, hsn, hrest⟩ := subF_cons hs
    obtain ⟨v, hfv, hblk, hcv, hwn⟩ := fld_shred nm srp sn r lv.sr lv.sd hr sfs vs hw hc hg
    have hsk : sameKind sn tn = true := sameKind_of_sub hsn
    simp only [convF, stepS_on nm trp lv sfs _ pc hg, hblk, eraseF, projF, hfv, hsk, if_true, shredF]
    rw [main_convF tfs lv sfs vs r pc hrest hw hc hr hR hD]
    congr 1
    have hRr := step_R (trp := trp) hok hr hR
    generalize Option.map (fun x => x.snd) (closestLeaf sfs (shredF (eraseF sfs) r lv.sr lv.sd vs) none) = pc'
    cases srp <;> cases trp <;> simp only [rpOk, Bool.false_eq_true] at hok
    · -- required → required
      simp only [wrap] at hcv ⊢
      have h := main_convN tn .req (lv.step .req .req) sn v r pc' hsn hwn hcv (by simp [Lv.step]; omega)
        (step_inv_R _ _ _) (step_inv_D _ _ _)
      rw [hRr] at h
      exact h
    · -- required → optional
      simp only [wrap] at hcv ⊢
      have h := main_convN tn .opt (lv.step .opt .req) sn v r pc' hsn hwn hcv (by simp [Lv.step]; omega)
        (step_inv_R _ _ _) (step_inv_D _ _ _)
      rw [hRr] at h
      simp only [shredN]
      exact h
    · -- optional → optional
      simp only [wrap] at hcv ⊢
      cases v with
      | some w =>
        simp only [confN] at hcv
        have h := main_convN tn .opt (lv.step .opt .opt) sn w r pc' hsn hwn hcv (by simp [Lv.step]; omega)
          (step_inv_R _ _ _) (step_inv_D _ _ _)
        rw [hRr] at h
        simp only [shredN]
        exact h
      | none =>
        simp only [shredN]
        have h := absent_convN tn .opt (lv.step .opt .opt) sn r lv.sd pc' hsn
          (by simp [Lv.step]; omega) (step_inv_R _ _ _) (by simp [Lv.step, defOf]) (by simp [Lv.step, defOf])
        rw [hRr, step_D (lv := lv) (trp := .opt) (srp := .opt) (d := lv.sd) (by simp [defOf]), hD] at h
        exact h
      | prim x => simp [confN] at hcv
      | struct vs' => simp [confN] at hcv
      | list ws => simp [confN] at hcv
    · -- repeated → repeated
      simp only [wrap] at hcv ⊢
      cases v with
      | list ws =>
        simp only [confN] at hcv
        cases ws with
        | nil =>
          simp only [shredN, List.map_nil]
          have h := absent_convN tn .rpt (lv.step .rpt .rpt) sn r lv.sd pc' hsn
            (by simp [Lv.step]; omega) (step_inv_R _ _ _) (by simp [Lv.step, defOf]) (by simp [Lv.step, defOf])
          rw [hRr, step_D (lv := lv) (trp := .rpt) (srp := .rpt) (d := lv.sd) (by simp [defOf]), hD] at h
          exact h
        | cons w0 ws =>
          simp only [List.all_cons, Bool.and_eq_true] at hcv
          simp only [shredN, List.map_cons, List.foldr_map]
          have hlv : (lv.step .rpt .rpt).sr = lv.sr + 1 := rfl
          have hlin : ∀ X Y : Cols, X.length = leavesN (eraseN sn) → Y.length = leavesN (eraseN sn) → NE X → NE Y →
              convN tn .rpt (lv.step .rpt .rpt) (.on sn (zipApp X Y) pc') =
                zipApp (convN tn .rpt (lv.step .rpt .rpt) (.on sn X pc')) (convN tn .rpt (lv.step .rpt .rpt) (.on sn Y pc')) :=
            fun X Y hx hy nx ny => lin_convN tn .rpt (lv.step .rpt .rpt) sn X Y pc' pc' pc' hsn hx hy nx ny
          have hgood : ∀ (r' : Nat) (w : Val), r' ≤ lv.sr + 1 →
              (shredN (eraseN sn) r' (lv.sr + 1) (lv.sd + 1) w).length = leavesN (eraseN sn) ∧
                NE (shredN (eraseN sn) r' (lv.sr + 1) (lv.sd + 1) w) := fun r' w hr' =>
            ⟨(shredN_spec (eraseN sn) r' (lv.sr + 1) (lv.sd + 1) w hwn hr').1.1,
              ne_of_good (shredN_spec (eraseN sn) r' (lv.sr + 1) (lv.sd + 1) w hwn hr').1⟩
          rw [conv_fold (fun X => convN tn .rpt (lv.step .rpt .rpt) (.on sn X pc')) (leavesN (eraseN sn)) (leavesN (eraseN tn))
            (fun w => shredN (eraseN sn) (lv.sr + 1) (lv.sr + 1) (lv.sd + 1) w) hlin
            (fun X => convN_length tn _ _ _) ws (fun w _ => hgood (lv.sr + 1) w (Nat.le_refl _))
            _ (hgood r w0 (by omega)).1 (hgood r w0 (by omega)).2]
          have h0 := main_convN tn .rpt (lv.step .rpt .rpt) sn w0 r pc' hsn hwn hcv.1 (by simp [Lv.step]; omega)
            (step_inv_R _ _ _) (step_inv_D _ _ _)
          rw [hRr] at h0
          have hrest' : ∀ w ∈ ws, convN tn .rpt (lv.step .rpt .rpt) (.on sn (shredN (eraseN sn) (lv.sr + 1) (lv.sr + 1) (lv.sd + 1) w) pc') =
              shredN (eraseN tn) (lv.tr + 1) (lv.tr + 1) (lv.td + 1) (projN sn tn w) := by
            intro w hw'
            have hcw : confN (eraseN sn) w = true := (List.all_eq_true.mp hcv.2) w hw'
            have h := main_convN tn .rpt (lv.step .rpt .rpt) sn w (lv.sr + 1) pc' hsn hwn hcw (Nat.le_refl _)
              (step_inv_R _ _ _) (step_inv_D _ _ _)
            have hRk : (lv.step .rpt .rpt).R (lv.sr + 1) = lv.tr + 1 := step_inv_R lv .rpt .rpt
            rw [hRk] at h
            exact h
          show zipApp (convN tn .rpt (lv.step .rpt .rpt) (.on sn (shredN (eraseN sn) r (lv.sr + 1) (lv.sd + 1) w0) pc')) _ = _
          rw [foldr_zip_congr ws hrest']
          exact congrArg (fun z => zipApp z _) h0
      | prim x => simp [confN] at hcv
      | struct vs' => simp [confN] at hcv
      | none => simp [confN] at hcv
      | some w => simp [confN] at hcv
end

end PqModel.Convert
