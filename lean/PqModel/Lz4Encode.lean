import PqModel.Codec
import PqModel.Spec.BlockCodecs

/-! C20: the ENCODE side of compress/lz4/lz4.go — the destination handed to the third-party
block compressor. MIRROR (`lz4Encode`) + ASSUMED contract of `CompressBlock` + SPEC fact that the
worst-case bound is enough for a lossless block. The mechanism: pierrec/lz4 `CompressBlock`
answers `(0, nil)` — no error — when the data does not compress and `len(dst)` is below
`CompressBlockBound(len(src))`; `Codec.Encode` returns `dst[:n]`, so a too-small buffer turns
into an EMPTY block that decodes to nothing. -/
namespace PqModel.Codec
open PqModel.Spec.BlockCodecs

/-- third-party pierrec/lz4 v4 `CompressBlockBound(n)` = `n + n/255 + 16` -/
def lz4BlockBound (n : Nat) : Nat := n + n / 255 + 16

/-- third-party `CompressBlock(src, dst)` with `len(dst) = n`: `some block`, or `none` for the
answer `(0, nil)` (gave up: incompressible and `dst` below the bound) -/
structure Lz4EncImpl where
  cb : Bytes → Nat → Option Bytes

/-- MIRROR compress/lz4/lz4.go:41-56 `Codec.Encode`:
`dst = reserveAtLeast(dst, lz4.CompressBlockBound(len(src)))`, one `CompressBlock`,
`return dst[:n], err`. Result: the returned bytes (a give-up comes back as the empty block, nil
error) and `len(dst)` = the capacity of the returned slice. -/
def lz4Encode (E : Lz4EncImpl) (dstCap : Nat) (src : Bytes) : Bytes × Nat :=
  ((E.cb src (reserveAtLeast dstCap (lz4BlockBound src.length))).getD [],
   reserveAtLeast dstCap (lz4BlockBound src.length))

/-- NOT the code: the variant "keep the caller's buffer when it can hold the input" (seeded change
C20-3a), kept to show what the bound is for -/
def lz4EncodeKeepCaller (E : Lz4EncImpl) (dstCap : Nat) (src : Bytes) : Bytes × Nat :=
  let len := if dstCap < src.length then lz4BlockBound src.length else dstCap
  ((E.cb src len).getD [], len)

/-- ASSUMED about pierrec/lz4: with a destination of at least `CompressBlockBound(len(src))`
bytes `CompressBlock` always produces the block -/
def Lz4EncContract (E : Lz4EncImpl) (enc : Bytes → Bytes) : Prop :=
  ∀ x n, lz4BlockBound x.length ≤ n → E.cb x n = some (enc x)

theorem reserveAtLeast_ge (cap n : Nat) : n ≤ reserveAtLeast cap n := by
  unfold reserveAtLeast; split <;> omega

theorem lz4Encode_ok {E : Lz4EncImpl} {enc : Bytes → Bytes} (hE : Lz4EncContract E enc)
    (x : Bytes) (dstCap : Nat) :
    lz4Encode E dstCap x = (enc x, reserveAtLeast dstCap (lz4BlockBound x.length)) := by
  simp [lz4Encode, hE x _ (reserveAtLeast_ge _ _)]

/-- a compressor that meets the contract and, like pierrec/lz4, gives up below the bound on data
it cannot shrink -/
def toyLz4Enc2 : Lz4EncImpl where
  cb x n := if lz4BlockBound x.length ≤ n then some (lz4LastSeq x) else none

theorem toyLz4Enc2_contract : Lz4EncContract toyLz4Enc2 lz4LastSeq := by
  intro x n h; simp [toyLz4Enc2, h]

/-! SPEC: the bound is enough — the literal-only block fits in it and decodes to the input -/

theorem lz4ExtEnc_length : ∀ (fuel m : Nat), (lz4ExtEnc fuel m).length ≤ m / 255 + 1 := by
  intro fuel
  induction fuel with
  | zero => intro m; simp [lz4ExtEnc]
  | succ fuel ih =>
    intro m
    unfold lz4ExtEnc
    split
    · simp
    · have := ih (m - 255)
      simp only [List.length_cons]; omega

theorem lz4LastSeq_length_le (x : List UInt8) : (lz4LastSeq x).length ≤ lz4BlockBound x.length := by
  unfold lz4LastSeq lz4LenExt lz4BlockBound
  split
  · simp; omega
  · have := lz4ExtEnc_length x.length (x.length - 15)
    simp only [List.length_cons, List.length_append]; omega

theorem lz4Dec_lastSeq (x : List UInt8) : lz4Dec (lz4LastSeq x) = .ok x := by
  have hne : lz4LastSeq x ≠ [] := by simp [lz4LastSeq]
  have h := lz4Seqs_lastSeq x #[] (lz4LastSeq x).length
  simp only [lz4Dec, hne, ↓reduceIte, h]
  simp

end PqModel.Codec
