/-! # XXH64 (seed 0) on byte lists, and the fixed-width specialisations of parquet-go

* SPEC part (`xxh64` and its helpers): written from the XXH64 specification
  (xxhash_spec.md, "XXH64 algorithm description"): 4 accumulators over 32-byte stripes,
  convergence with `mergeRound`, add the input length, consume the remaining input in 8-byte,
  then one 4-byte, then 1-byte steps, final avalanche. Seed fixed to 0 as the Parquet bloom filter
  spec requires.
* MIRROR part (`sum64Uint8/16/32/64/128`, `multiSum64*`): transliteration of
  `bloom/xxhash/sum64uint.go:3-37` and `bloom/xxhash/sum64uint_purego.go:5-53`.

All arithmetic is `UInt64` (wraparound). Recursion is structural on the byte list (one stripe of
32 bytes / 8 bytes / 1 byte per step), no fuel. -/
namespace PqModel.XxHash

/-! ## little-endian words (spec side, via `Nat`) -/

/-- value of a little-endian byte string -/
def leToNat : List UInt8 → Nat
  | [] => 0
  | b :: bs => b.toNat + 256 * leToNat bs

/-- the `n` little-endian bytes of `x` (low bytes first; higher bytes dropped) -/
def leBytes : Nat → Nat → List UInt8
  | 0, _ => []
  | n + 1, x => UInt8.ofNat (x % 256) :: leBytes n (x / 256)

def u64le (bs : List UInt8) : UInt64 := UInt64.ofNat (leToNat bs)
def u32le (bs : List UInt8) : UInt32 := UInt32.ofNat (leToNat bs)

def le32 (v : UInt32) : List UInt8 := leBytes 4 v.toNat
def le64 (v : UInt64) : List UInt8 := leBytes 8 v.toNat

theorem leBytes_length : ∀ n x, (leBytes n x).length = n
  | 0, _ => rfl
  | n + 1, x => by simp [leBytes, leBytes_length n]

theorem leToNat_leBytes : ∀ n x, leToNat (leBytes n x) = x % 256 ^ n
  | 0, x => by simp [leBytes, leToNat, Nat.mod_one]
  | n + 1, x => by
    simp only [leBytes, leToNat, leToNat_leBytes n, UInt8.toNat_ofNat']
    have h1 : x % 256 % 2 ^ 8 = x % 256 := by omega
    rw [h1, Nat.pow_succ, Nat.mul_comm (256 ^ n) 256, Nat.mod_mul]

theorem u32le_le32 (v : UInt32) : u32le (le32 v) = v := by
  unfold u32le le32
  rw [leToNat_leBytes]
  have : v.toNat % 256 ^ 4 = v.toNat := Nat.mod_eq_of_lt (by have := v.toNat_lt; omega)
  rw [this]; exact UInt32.ofNat_toNat

theorem u64le_le64 (v : UInt64) : u64le (le64 v) = v := by
  unfold u64le le64
  rw [leToNat_leBytes]
  have : v.toNat % 256 ^ 8 = v.toNat := Nat.mod_eq_of_lt (by have := v.toNat_lt; omega)
  rw [this]; exact UInt64.ofNat_toNat

/-! ## XXH64 primitives (spec; same constants as `bloom/xxhash/xxhash.go:10-21`) -/

def prime1 : UInt64 := 0x9E3779B185EBCA87
def prime2 : UInt64 := 0xC2B2AE3D27D4EB4F
def prime3 : UInt64 := 0x165667B19E3779F9
def prime4 : UInt64 := 0x85EBCA77C2B2AE63
def prime5 : UInt64 := 0x27D4EB2F165667C5

/-- rotate left by `k` (0 < k < 64) -/
def rotl (x : UInt64) (k : UInt64) : UInt64 := (x <<< k) ||| (x >>> (64 - k))

def round (acc input : UInt64) : UInt64 := rotl (acc + input * prime2) 31 * prime1

def mergeRound (acc val : UInt64) : UInt64 := (acc ^^^ round 0 val) * prime1 + prime4

def avalanche (h0 : UInt64) : UInt64 :=
  let h1 := (h0 ^^^ (h0 >>> 33)) * prime2
  let h2 := (h1 ^^^ (h1 >>> 29)) * prime3
  h2 ^^^ (h2 >>> 32)

structure Acc where
  v1 : UInt64
  v2 : UInt64
  v3 : UInt64
  v4 : UInt64

/-- initial accumulators for seed 0 -/
def accInit : Acc := ⟨prime1 + prime2, prime2, 0, 0 - prime1⟩

/-- consume all complete 32-byte stripes; returns the accumulators and the remaining (< 32) bytes -/
def stripes (a : Acc) : List UInt8 → Acc × List UInt8
  | a0 :: a1 :: a2 :: a3 :: a4 :: a5 :: a6 :: a7 ::
    b0 :: b1 :: b2 :: b3 :: b4 :: b5 :: b6 :: b7 ::
    c0 :: c1 :: c2 :: c3 :: c4 :: c5 :: c6 :: c7 ::
    d0 :: d1 :: d2 :: d3 :: d4 :: d5 :: d6 :: d7 :: rest =>
      stripes ⟨round a.v1 (u64le [a0, a1, a2, a3, a4, a5, a6, a7]),
               round a.v2 (u64le [b0, b1, b2, b3, b4, b5, b6, b7]),
               round a.v3 (u64le [c0, c1, c2, c3, c4, c5, c6, c7]),
               round a.v4 (u64le [d0, d1, d2, d3, d4, d5, d6, d7])⟩ rest
  | bs => (a, bs)

def converge (a : Acc) : UInt64 :=
  let h := rotl a.v1 1 + rotl a.v2 7 + rotl a.v3 12 + rotl a.v4 18
  mergeRound (mergeRound (mergeRound (mergeRound h a.v1) a.v2) a.v3) a.v4

def step8 (h lane : UInt64) : UInt64 := rotl (h ^^^ round 0 lane) 27 * prime1 + prime4
def step4 (h : UInt64) (lane : UInt32) : UInt64 := rotl (h ^^^ (lane.toUInt64 * prime1)) 23 * prime2 + prime3
def step1 (h : UInt64) (b : UInt8) : UInt64 := rotl (h ^^^ (b.toUInt64 * prime5)) 11 * prime1

def tail1 (h : UInt64) : List UInt8 → UInt64
  | [] => h
  | b :: rest => tail1 (step1 h b) rest

def tail4 (h : UInt64) : List UInt8 → UInt64
  | b0 :: b1 :: b2 :: b3 :: rest => tail1 (step4 h (u32le [b0, b1, b2, b3])) rest
  | bs => tail1 h bs

def tail8 (h : UInt64) : List UInt8 → UInt64
  | b0 :: b1 :: b2 :: b3 :: b4 :: b5 :: b6 :: b7 :: rest =>
      tail8 (step8 h (u64le [b0, b1, b2, b3, b4, b5, b6, b7])) rest
  | bs => tail4 h bs

/-- SPEC: XXH64 with seed 0 of a byte string. -/
def xxh64 (bs : List UInt8) : UInt64 :=
  let n := bs.length
  if 32 ≤ n then
    let (a, rest) := stripes accInit bs
    avalanche (tail8 (converge a + UInt64.ofNat n) rest)
  else
    avalanche (tail8 (prime5 + UInt64.ofNat n) bs)

/-! ## fixed-width specialisations (MIRROR of bloom/xxhash/sum64uint.go) -/

/-- `Sum64Uint8`, sum64uint.go:3-7 -/
def sum64Uint8 (v : UInt8) : UInt64 :=
  let h := prime5 + 1
  let h := h ^^^ (v.toUInt64 * prime5)
  avalanche (rotl h 11 * prime1)

/-- `Sum64Uint16`, sum64uint.go:9-16 -/
def sum64Uint16 (v : UInt16) : UInt64 :=
  let h := prime5 + 2
  let h := h ^^^ ((v &&& 0xFF).toUInt64 * prime5)
  let h := rotl h 11 * prime1
  let h := h ^^^ ((v >>> 8).toUInt64 * prime5)
  let h := rotl h 11 * prime1
  avalanche h

/-- `Sum64Uint32`, sum64uint.go:18-22 -/
def sum64Uint32 (v : UInt32) : UInt64 :=
  let h := prime5 + 4
  let h := h ^^^ (v.toUInt64 * prime1)
  avalanche (rotl h 23 * prime2 + prime3)

/-- `Sum64Uint64`, sum64uint.go:24-28 -/
def sum64Uint64 (v : UInt64) : UInt64 :=
  let h := prime5 + 8
  let h := h ^^^ round 0 v
  avalanche (rotl h 27 * prime1 + prime4)

/-- `Sum64Uint128`, sum64uint.go:30-37; the `[16]byte` argument is a byte list, `v[:8]` / `v[8:]`
    are `take 8` / `drop 8`. -/
def sum64Uint128 (v : List UInt8) : UInt64 :=
  let h := prime5 + 16
  let h := h ^^^ round 0 (u64le (v.take 8))
  let h := rotl h 27 * prime1 + prime4
  let h := h ^^^ round 0 (u64le (v.drop 8))
  let h := rotl h 27 * prime1 + prime4
  avalanche h

/-- `MultiSum64Uint*`, sum64uint_purego.go:5-53: `h[i] = Sum64UintN(v[i])` for `i < min(len h, len v)`;
    `cap` is `len(h)`. Returns the hashes written (the Go function returns their count). -/
def multiSum64 {α} (sum : α → UInt64) (cap : Nat) (v : List α) : List UInt64 :=
  (v.take cap).map sum

def multiSum64Uint8 := multiSum64 sum64Uint8
def multiSum64Uint16 := multiSum64 sum64Uint16
def multiSum64Uint32 := multiSum64 sum64Uint32
def multiSum64Uint64 := multiSum64 sum64Uint64
def multiSum64Uint128 := multiSum64 sum64Uint128

/-! ## the specialisations are XXH64 of the little-endian bytes -/

theorem sum64Uint8_eq (v : UInt8) : sum64Uint8 v = xxh64 [v] := rfl

theorem sum64Uint32_bytes (b0 b1 b2 b3 : UInt8) :
    sum64Uint32 (u32le [b0, b1, b2, b3]) = xxh64 [b0, b1, b2, b3] := rfl

theorem sum64Uint64_bytes (b0 b1 b2 b3 b4 b5 b6 b7 : UInt8) :
    sum64Uint64 (u64le [b0, b1, b2, b3, b4, b5, b6, b7]) = xxh64 [b0, b1, b2, b3, b4, b5, b6, b7] := rfl

theorem sum64Uint128_bytes (b0 b1 b2 b3 b4 b5 b6 b7 c0 c1 c2 c3 c4 c5 c6 c7 : UInt8) :
    sum64Uint128 [b0, b1, b2, b3, b4, b5, b6, b7, c0, c1, c2, c3, c4, c5, c6, c7]
      = xxh64 [b0, b1, b2, b3, b4, b5, b6, b7, c0, c1, c2, c3, c4, c5, c6, c7] := rfl

end PqModel.XxHash
