import PqModel.MergeRun
import PqModel.MergeTree

/-! # C09 — the tournament tree of losers as an array (merge.go:718-945)

Positions `0 .. k-1` are the internal nodes (node `i` stores `losers[i]`), position `k + x` is the
leaf of input `x`, position `2k` is the phantom leaf of node `k-1`; the parent of `p` is `(p-1)/2`.
`TInv` is the invariant ("each internal node holds the loser of the game between the winners of
its two subtrees"); `tree_min`: the overall winner is minimal among the live heads;
`replay_inv`: `replayGames` restores the invariant after the head of the previous winner changed
(or the winner was exhausted); `runBound_min`; `init_inv`: `playInitialGames` establishes it. -/
namespace PqModel.Merge
open PqModel.MergeTree (leInf leInf_trans leInf_refl)

def par (p : Nat) : Nat := (p - 1) / 2

def up : Nat → Nat → Nat
  | 0, p => p
  | n + 1, p => par (up n p)

theorem up_le : ∀ n p, up n p ≤ p
  | 0, _ => Nat.le_refl _
  | n + 1, p => by have := up_le n p; simp only [up, par]; omega

theorem up_succ' : ∀ n p, up (n + 1) p = up n (par p)
  | 0, _ => rfl
  | n + 1, p => by simp only [up]; rw [← up_succ' n p]; rfl

theorem up_add : ∀ a b p, up (a + b) p = up a (up b p)
  | 0, b, p => by simp [up]
  | a + 1, b, p => by rw [Nat.add_right_comm]; simp only [up, up_add a b p]

theorem up_zero_of_le : ∀ n p, p ≤ n → up n p = 0
  | 0, p, h => by simp only [up]; omega
  | n + 1, p, h => by
    rw [up_succ']; apply up_zero_of_le; simp only [par]; omega

theorem up_zero : ∀ n, up n 0 = 0
  | 0 => rfl
  | n + 1 => by simp [up, up_zero n, par]

theorem up_mono : ∀ n {p q : Nat}, p ≤ q → up n p ≤ up n q
  | 0, _, _, h => h
  | n + 1, p, q, h => by have := up_mono n h; simp only [up, par]; omega

theorem up_succ_lt {n p : Nat} (h : 1 ≤ up n p) : up (n + 1) p < up n p := by
  simp only [up, par]; omega

theorem up_anti {p : Nat} : ∀ {a b : Nat}, a ≤ b → up b p ≤ up a p := by
  intro a b h
  obtain ⟨d, rfl⟩ := Nat.exists_eq_add_of_le h
  rw [Nat.add_comm, up_add]; exact up_le _ _

/-- two different children of one node are not both on the path of a leaf -/
theorem onPath_unique {q a b : Nat} {n m : Nat} (ha : up n q = a) (hb : up m q = b)
    (hpar : par a = par b) (h1 : 1 ≤ a) (h2 : 1 ≤ b) : a = b := by
  rcases Nat.lt_trichotomy n m with h | h | h
  · obtain ⟨d, rfl⟩ := Nat.exists_eq_add_of_lt h
    have : b = up (d + 1) a := by rw [← hb, ← ha, ← up_add]; congr 1; omega
    have hle : b ≤ par a := by
      rw [this, up_succ']; exact up_le _ _
    simp only [par] at hpar hle; omega
  · subst h; rw [← ha, ← hb]
  · obtain ⟨d, rfl⟩ := Nat.exists_eq_add_of_lt h
    have : a = up (d + 1) b := by rw [← hb, ← ha, ← up_add]; congr 1; omega
    have hle : a ≤ par b := by
      rw [this, up_succ']; exact up_le _ _
    simp only [par] at hpar hle; omega

/-! ## heads and the invariant -/

structure Heads where
  alive : Nat → Bool
  key : Nat → Int

/-- key of a stored player: negative (exhausted / phantom) = +∞ -/
def Heads.pk (H : Heads) (p : Int) : Option Int :=
  if 0 ≤ p ∧ H.alive p.toNat = true then some (H.key p.toNat) else none

def leafPlayer (k : Nat) (H : Heads) (p : Nat) : Int :=
  if p - k < k ∧ H.alive (p - k) = true then ((p - k : Nat) : Int) else -1

/-- the outcome `(l, w)` of a game between `a` and `b` -/
def Game (H : Heads) (a b l w : Int) : Prop :=
  ((l = a ∧ w = b) ∨ (l = b ∧ w = a)) ∧ leInf (H.pk w) (H.pk l)

/-- `x` passes from its leaf up to position `p` -/
def Chain (k : Nat) (win : Nat → Int) (x : Nat) (p : Nat) : Prop :=
  ∃ n, up n (k + x) = p ∧ ∀ j, j ≤ n → win (up j (k + x)) = (x : Int)

structure TInv (k : Nat) (H : Heads) (losers : List Int) (win : Nat → Int) : Prop where
  len : losers.length = k
  leaf : ∀ p, k ≤ p → win p = leafPlayer k H p
  node : ∀ i, i < k → Game H (win (2 * i + 1)) (win (2 * i + 2)) (losers.getD i (-1)) (win i)
  chain : ∀ p (x : Nat), win p = (x : Int) → H.alive x = true ∧ x < k ∧ Chain k win x p

theorem pk_neg {H : Heads} {p : Int} (h : p < 0) : H.pk p = none := by
  simp only [Heads.pk]; split
  · omega
  · rfl

theorem pk_nat {H : Heads} {x : Nat} (h : H.alive x = true) : H.pk (x : Int) = some (H.key x) := by
  simp [Heads.pk, h]

theorem pk_isSome {H : Heads} {p : Int} (h : (H.pk p).isSome) : ∃ x : Nat, p = (x : Int) ∧ H.alive x = true := by
  simp only [Heads.pk] at h
  split at h
  · rename_i hc; exact ⟨p.toNat, by omega, hc.2⟩
  · simp at h

theorem child_cases {p : Nat} (h : 1 ≤ p) : p = 2 * par p + 1 ∨ p = 2 * par p + 2 := by
  simp only [par]; omega

/-- the winner of a node is at most the winner of each child -/
theorem TInv.le_child {k H losers win} (h : TInv k H losers win) {p : Nat} (h1 : 1 ≤ p) (h2 : p ≤ 2 * k) :
    leInf (H.pk (win (par p))) (H.pk (win p)) := by
  have h3 := child_cases h1
  have hi : par p < k := by simp only [par]; omega
  obtain ⟨hset, hle⟩ := h.node (par p) hi
  generalize par p = i at *
  rcases h3 with hc | hc
  · subst hc
    rcases hset with ⟨e1, e2⟩ | ⟨e1, e2⟩
    · rw [← e1]; exact hle
    · rw [← e2] ; exact leInf_refl _
  · subst hc
    rcases hset with ⟨e1, e2⟩ | ⟨e1, e2⟩
    · rw [← e2]; exact leInf_refl _
    · rw [← e1]; exact hle

theorem TInv.le_up {k H losers win} (h : TInv k H losers win) : ∀ (n p : Nat), p ≤ 2 * k →
    leInf (H.pk (win (up n p))) (H.pk (win p))
  | 0, p, _ => leInf_refl _
  | n + 1, p, hp => by
    have ih := TInv.le_up h n p hp
    by_cases h0 : 1 ≤ up n p
    · have := h.le_child h0 (Nat.le_trans (up_le n p) hp)
      exact leInf_trans this ih
    · have : up n p = 0 := by omega
      simp only [up, this, par]; rw [this] at ih; exact ih

/-- `tree_min`: the overall winner is minimal among all live heads -/
theorem TInv.tree_min {k H losers win} (h : TInv k H losers win) (x : Nat) (hx : x < k)
    (ha : H.alive x = true) : leInf (H.pk (win 0)) (some (H.key x)) := by
  have h1 := h.le_up (k + x) (k + x) (by omega)
  rw [up_zero_of_le _ _ (Nat.le_refl _)] at h1
  have h2 : win (k + x) = (x : Int) := by
    rw [h.leaf (k + x) (by omega)]
    simp [leafPlayer, hx, ha]
  rw [h2, pk_nat ha] at h1
  exact h1

/-- with a live input the winner is a live input -/
theorem TInv.winner_alive {k H losers win} (h : TInv k H losers win) (x : Nat) (hx : x < k)
    (ha : H.alive x = true) : ∃ w : Nat, win 0 = (w : Int) ∧ H.alive w = true ∧ w < k := by
  have := h.tree_min x hx ha
  cases hp : H.pk (win 0) with
  | none => rw [hp] at this; simp [leInf] at this
  | some v =>
    obtain ⟨w, hw, hal⟩ := pk_isSome (p := win 0) (by rw [hp]; rfl)
    exact ⟨w, hw, hal, (h.chain 0 w hw).2.1⟩


/-! ## replayGames -/

theorem leInf_none (a : Option Int) : leInf a none := by cases a <;> simp [leInf]

theorem leInf_some {a b : Int} : leInf (some a) (some b) ↔ a ≤ b := by
  simp only [leInf]

theorem replayStep_cases (bufs : List Buf) (o : Nat) (c : Int) (L : List Int) :
    (0 ≤ L.getD o (-1) ∧ (c < 0 ∨ (headOf bufs (L.getD o (-1))).key < (headOf bufs c).key) ∧
        replayStep bufs o c L = (L.getD o (-1), L.set o c)) ∨
    (¬ (0 ≤ L.getD o (-1) ∧ (c < 0 ∨ (headOf bufs (L.getD o (-1))).key < (headOf bufs c).key)) ∧
        replayStep bufs o c L = (c, L)) := by
  unfold replayStep
  split
  · rename_i h
    simp only [ge_iff_le, Bool.and_eq_true, decide_eq_true_eq, Bool.or_eq_true] at h
    exact Or.inl ⟨h.1, h.2.imp id cmp_lt.mp, rfl⟩
  · rename_i h
    simp only [ge_iff_le, Bool.and_eq_true, decide_eq_true_eq, Bool.or_eq_true, not_and] at h
    refine Or.inr ⟨?_, rfl⟩
    intro ⟨h1, h2⟩
    exact h h1 (h2.imp id cmp_lt.mpr)

section replay
variable {k : Nat} {H H' : Heads} {losers : List Int} {win : Nat → Int} {w0 : Nat} {bufs : List Buf}

/-- positions on the path from the leaf of the previous winner to the root -/
def OnPath (k w0 : Nat) (i : Nat) : Prop := ∃ j, up j (k + w0) = i

theorem onPath_par {i : Nat} (h : OnPath k w0 i) : OnPath k w0 (par i) := by
  obtain ⟨j, hj⟩ := h; exact ⟨j + 1, by simp [up, hj]⟩

theorem onPath_up {i : Nat} (h : OnPath k w0 i) (n : Nat) : OnPath k w0 (up n i) := by
  obtain ⟨j, hj⟩ := h; exact ⟨n + j, by rw [up_add, hj]⟩

/-- two path positions: the smaller one is at or above the parent of the larger one -/
theorem onPath_lt {i b : Nat} (hi : OnPath k w0 i) (hb : OnPath k w0 b) (h : i < b) : i ≤ par b := by
  obtain ⟨n, hn⟩ := hi
  obtain ⟨j, hj⟩ := hb
  rcases Nat.lt_or_ge j n with hlt | hge
  · obtain ⟨d, rfl⟩ := Nat.exists_eq_add_of_lt hlt
    have : i = up (d + 1) b := by rw [← hn, ← hj, ← up_add]; congr 1; omega
    rw [this, up_succ']; exact up_le _ _
  · have := up_anti (p := k + w0) hge
    omega

/-- the state of the loop of `replayGames` after the path nodes below `b` have been replayed -/
structure PInv (k : Nat) (H' : Heads) (losers : List Int) (win : Nat → Int) (w0 : Nat)
    (b : Nat) (c : Int) (L : List Int) (w : Nat → Int) : Prop where
  onb : OnPath k w0 b
  len : L.length = k
  leaf : ∀ p, k ≤ p → w p = leafPlayer k H' p
  node : ∀ i, i < k → ¬ (OnPath k w0 i ∧ i < b) →
    Game H' (w (2 * i + 1)) (w (2 * i + 2)) (L.getD i (-1)) (w i)
  chain : ∀ p (x : Nat), ¬ (OnPath k w0 p ∧ p < b) → w p = (x : Int) →
    H'.alive x = true ∧ x < k ∧ Chain k w x p
  keep : ∀ i, OnPath k w0 i → i < b → L.getD i (-1) = losers.getD i (-1)
  same : ∀ p, ¬ (OnPath k w0 p ∧ b ≤ p) → w p = win p
  cand : w b = c

theorem PInv.done {c : Int} {L : List Int} {w : Nat → Int}
    (h : PInv k H' losers win w0 0 c L w) : TInv k H' L w ∧ w 0 = c :=
  ⟨⟨h.len, h.leaf, fun i hi => h.node i hi (by omega), fun p x hx => h.chain p x (by omega) hx⟩, h.cand⟩

theorem pk_agree (hag : ∀ x, x ≠ w0 → H'.alive x = H.alive x ∧ H'.key x = H.key x)
    {p : Int} (hp : p ≠ (w0 : Int)) : H'.pk p = H.pk p := by
  simp only [Heads.pk]
  by_cases h0 : 0 ≤ p
  · have hne : p.toNat ≠ w0 := by omega
    rw [(hag _ hne).1, (hag _ hne).2]
  · simp [h0]

/-- all path positions carry the previous winner -/
theorem path_win (hinv : TInv k H losers win) (hw : win 0 = (w0 : Int)) :
    ∀ i, OnPath k w0 i → win i = (w0 : Int) := by
  obtain ⟨_, _, N, hN, hall⟩ := hinv.chain 0 w0 hw
  intro i ⟨j, hj⟩
  rcases Nat.le_total j N with h | h
  · rw [← hj]; exact hall j h
  · obtain ⟨d, rfl⟩ := Nat.exists_eq_add_of_le h
    rw [← hj, Nat.add_comm, up_add, hN, up_zero, ← hN]; exact hall N (Nat.le_refl _)

theorem win_onPath (hinv : TInv k H losers win) {p : Nat} (h : win p = (w0 : Int)) : OnPath k w0 p := by
  obtain ⟨_, _, n, hn, _⟩ := hinv.chain p w0 h
  exact ⟨n, hn⟩

theorem getD_set_ne' (L : List Int) {i o : Nat} (c : Int) (h : i ≠ o) : (L.set o c).getD i (-1) = L.getD i (-1) := by
  simp [List.getD_eq_getElem?_getD, Ne.symm h]

theorem getD_set_eq' (L : List Int) {o : Nat} (c : Int) (h : o < L.length) : (L.set o c).getD o (-1) = c := by
  simp [List.getD_eq_getElem?_getD, h]

/-- one game of `replayGames` -/
theorem PInv.step (hinv : TInv k H losers win) (hw : win 0 = (w0 : Int))
    (hb : ∀ x, H'.alive x = true → (headOf bufs (x : Int)).key = H'.key x)
    {b : Nat} {c : Int} {L : List Int} {w : Nat → Int}
    (h : PInv k H' losers win w0 b c L w) (hb1 : 1 ≤ b) :
    ∃ w', PInv k H' losers win w0 (par b) (replayStep bufs (par b) c L).1 (replayStep bufs (par b) c L).2 w' := by
  have hw0k : w0 < k := (hinv.chain 0 w0 hw).2.1
  have hb2k : b ≤ 2 * k := by
    obtain ⟨j, hj⟩ := h.onb; have := up_le j (k + w0); omega
  have hok : par b < k := by simp only [par]; omega
  have hob : par b < b := by simp only [par]; omega
  have hono : OnPath k w0 (par b) := onPath_par h.onb
  have hwinb : win b = (w0 : Int) := path_win hinv hw b h.onb
  have hwino : win (par b) = (w0 : Int) := path_win hinv hw _ hono
  -- the sibling of b
  obtain ⟨oc, hoc_par, hoc_ne, hoc1, hchildren⟩ : ∃ oc, par oc = par b ∧ oc ≠ b ∧ 1 ≤ oc ∧
      ((b = 2 * par b + 1 ∧ oc = 2 * par b + 2) ∨ (b = 2 * par b + 2 ∧ oc = 2 * par b + 1)) := by
    rcases child_cases hb1 with hc | hc
    · exact ⟨2 * par b + 2, by simp only [par]; omega, by omega, by omega, Or.inl ⟨hc, rfl⟩⟩
    · exact ⟨2 * par b + 1, by simp only [par]; omega, by omega, by omega, Or.inr ⟨hc, rfl⟩⟩
  have hoc_off : ¬ OnPath k w0 oc := by
    intro ⟨n, hn⟩
    obtain ⟨j, hj⟩ := h.onb
    exact hoc_ne (onPath_unique hn hj hoc_par hoc1 hb1)
  have hoc_gt : par b < oc := by rcases hchildren with ⟨_, e⟩ | ⟨_, e⟩ <;> omega
  -- the stored loser is the winner of the sibling subtree, untouched so far
  have hl : L.getD (par b) (-1) = w oc := by
    rw [h.keep _ hono hob, h.same oc (fun hh => hoc_off hh.1)]
    obtain ⟨hset, _⟩ := hinv.node (par b) hok
    rcases hchildren with ⟨e1, e2⟩ | ⟨e1, e2⟩
    · rw [← e1, ← e2, hwinb, hwino] at hset
      rcases hset with ⟨a1, a2⟩ | ⟨a1, _⟩
      · rw [a1, a2]
      · exact a1
    · rw [← e1, ← e2, hwinb, hwino] at hset
      rcases hset with ⟨a1, _⟩ | ⟨a1, a2⟩
      · exact a1
      · rw [a1, a2]
  have hcb := h.cand
  have hchain_oc := fun x => h.chain oc x (fun hh => hoc_off hh.1)
  have hchain_b := fun x => h.chain b x (fun hh => Nat.lt_irrefl _ hh.2)
  -- the new winner function
  generalize hs : replayStep bufs (par b) c L = s
  have hcases := replayStep_cases bufs (par b) c L
  rw [hs, hl] at hcases
  obtain ⟨w', hw'def⟩ : ∃ w' : Nat → Int, ∀ p, w' p = if p = par b then s.1 else w p := ⟨_, fun _ => rfl⟩
  refine ⟨w', ?_⟩
  have hw'ne : ∀ p, p ≠ par b → w' p = w p := by
    intro p hp; simp [hw'def, hp]
  have hw'o : w' (par b) = s.1 := by simp [hw'def]
  have hLen : s.2.length = k := by
    rcases hcases with ⟨_, _, e⟩ | ⟨_, e⟩ <;> rw [e] <;> simp [h.len]
  have hLne : ∀ i, i ≠ par b → s.2.getD i (-1) = L.getD i (-1) := by
    intro i hi
    rcases hcases with ⟨_, _, e⟩ | ⟨_, e⟩ <;> rw [e]
    · exact getD_set_ne' L c hi
  -- nodes other than the one just played keep their facts
  have hother : ∀ i, i ≠ par b → ¬ (OnPath k w0 i ∧ i < par b) → ¬ (OnPath k w0 i ∧ i < b) := by
    intro i hne hn ⟨h1, h2⟩
    have := onPath_lt h1 h.onb h2
    exact hn ⟨h1, by omega⟩
  refine ⟨hono, hLen, ?_, ?_, ?_, ?_, ?_, hw'o⟩
  · intro p hp
    rw [hw'ne p (by omega)]; exact h.leaf p hp
  · -- node
    intro i hi hn
    by_cases hio : i = par b
    · subst hio
      rw [hw'o, hw'ne _ (by omega), hw'ne _ (by omega)]
      -- the set part and the order part
      have hset : ((s.2.getD (par b) (-1) = c ∧ s.1 = w oc) ∨ (s.2.getD (par b) (-1) = w oc ∧ s.1 = c)) ∧
          leInf (H'.pk s.1) (H'.pk (s.2.getD (par b) (-1))) := by
        rcases hcases with ⟨c1, c2, e⟩ | ⟨c1, e⟩
        · have h1 : s.2.getD (par b) (-1) = c := by
            rw [e]; exact getD_set_eq' L c (by rw [h.len]; exact hok)
          have h2 : s.1 = w oc := by rw [e]
          rw [h1, h2]
          refine ⟨Or.inl ⟨rfl, rfl⟩, ?_⟩
          obtain ⟨x, hx⟩ : ∃ x : Nat, w oc = (x : Int) := ⟨(w oc).toNat, by omega⟩
          obtain ⟨hax, _, _⟩ := hchain_oc x hx
          by_cases hc0 : c < 0
          · rw [pk_neg hc0]; exact leInf_none _
          · obtain ⟨y, hy⟩ : ∃ y : Nat, c = (y : Int) := ⟨c.toNat, by omega⟩
            obtain ⟨hay, _, _⟩ := hchain_b y (by rw [hcb, hy])
            have e1 : (headOf bufs (w oc)).key = H'.key x := by rw [hx]; exact hb x hax
            have e2 : (headOf bufs c).key = H'.key y := by rw [hy]; exact hb y hay
            rw [hx, hy, pk_nat hax, pk_nat hay]
            rw [leInf_some]; omega
        · have h1 : s.2.getD (par b) (-1) = w oc := by rw [e]; exact hl
          have h2 : s.1 = c := by rw [e]
          rw [h1, h2]
          refine ⟨Or.inr ⟨rfl, rfl⟩, ?_⟩
          by_cases hl0 : w oc < 0
          · rw [pk_neg hl0]; exact leInf_none _
          · obtain ⟨x, hx⟩ : ∃ x : Nat, w oc = (x : Int) := ⟨(w oc).toNat, by omega⟩
            obtain ⟨hax, _, _⟩ := hchain_oc x hx
            have hc0 : ¬ c < 0 := fun hc0 => c1 ⟨by omega, Or.inl hc0⟩
            obtain ⟨y, hy⟩ : ∃ y : Nat, c = (y : Int) := ⟨c.toNat, by omega⟩
            obtain ⟨hay, _, _⟩ := hchain_b y (by rw [hcb, hy])
            have hnlt : ¬ (headOf bufs (w oc)).key < (headOf bufs c).key := fun hh => c1 ⟨by omega, Or.inr hh⟩
            have e1 : (headOf bufs (w oc)).key = H'.key x := by rw [hx]; exact hb x hax
            have e2 : (headOf bufs c).key = H'.key y := by rw [hy]; exact hb y hay
            rw [hx, hy, pk_nat hax, pk_nat hay]
            rw [leInf_some]; omega
      obtain ⟨hset, hle⟩ := hset
      refine ⟨?_, hle⟩
      rcases hchildren with ⟨e1, e2⟩ | ⟨e1, e2⟩
      · rw [← e1, ← e2, hcb]
        rcases hset with ⟨a1, a2⟩ | ⟨a1, a2⟩
        · exact Or.inl ⟨a1, a2⟩
        · exact Or.inr ⟨a1, a2⟩
      · rw [← e1, ← e2, hcb]
        rcases hset with ⟨a1, a2⟩ | ⟨a1, a2⟩
        · exact Or.inr ⟨a1, a2⟩
        · exact Or.inl ⟨a1, a2⟩
    · have hold := h.node i hi (hother i hio hn)
      have hc1 : 2 * i + 1 ≠ par b := by
        intro hh
        apply hn
        have : i = par (par b) := by rw [← hh]; simp only [par]; omega
        rw [this]
        exact ⟨onPath_par hono, by simp only [par] at hh ⊢; omega⟩
      have hc2 : 2 * i + 2 ≠ par b := by
        intro hh
        apply hn
        have : i = par (par b) := by rw [← hh]; simp only [par]; omega
        rw [this]
        exact ⟨onPath_par hono, by simp only [par] at hh ⊢; omega⟩
      rw [hw'ne _ hc1, hw'ne _ hc2, hw'ne _ hio, hLne _ hio]
      exact hold
  · -- chain
    intro p x hn hpx
    have lift : ∀ (q : Nat), par b < q → Chain k w x q → Chain k w' x q := by
      intro q hq ⟨n, hn1, hn2⟩
      refine ⟨n, hn1, ?_⟩
      intro j hj
      rw [hw'ne _ (by have := up_anti (p := k + x) hj; omega)]
      exact hn2 j hj
    have extend : ∀ (q : Nat), par q = par b → par b < q → w q = (x : Int) → Chain k w x q →
        s.1 = (x : Int) → Chain k w' x (par b) := by
      intro q hq1 hq2 _ ⟨n, hn1, hn2⟩ hs1
      refine ⟨n + 1, by simp only [up, hn1, hq1], ?_⟩
      intro j hj
      rcases Nat.lt_or_ge j (n + 1) with hj' | hj'
      · rw [hw'ne _ (by have := up_anti (p := k + x) (show j ≤ n by omega); omega)]
        exact hn2 j (by omega)
      · have : j = n + 1 := by omega
        subst this
        simp only [up, hn1, hq1]; rw [hw'o]; exact hs1
    by_cases hpo : p = par b
    · subst hpo
      rw [hw'o] at hpx
      rcases hcases with ⟨_, _, e⟩ | ⟨_, e⟩
      · have hx : w oc = (x : Int) := by rw [← hpx, e]
        obtain ⟨a1, a2, a3⟩ := hchain_oc x hx
        exact ⟨a1, a2, extend oc hoc_par hoc_gt hx a3 hpx⟩
      · have hx : w b = (x : Int) := by rw [hcb, ← hpx, e]
        obtain ⟨a1, a2, a3⟩ := hchain_b x hx
        exact ⟨a1, a2, extend b rfl hob hx a3 hpx⟩
    · rw [hw'ne _ hpo] at hpx
      obtain ⟨a1, a2, n, hn1, hn2⟩ := h.chain p x (hother p hpo hn) hpx
      refine ⟨a1, a2, n, hn1, ?_⟩
      intro j hj
      have hne : up j (k + x) ≠ par b := by
        intro hh
        apply hn
        obtain ⟨d, rfl⟩ := Nat.exists_eq_add_of_le hj
        have hp : p = up d (par b) := by rw [← hn1, Nat.add_comm, up_add, hh]
        refine ⟨by rw [hp]; exact onPath_up hono d, ?_⟩
        have := up_le d (par b)
        omega
      rw [hw'ne _ hne]; exact hn2 j hj
  · intro i hi1 hi2
    rw [hLne i (by omega)]; exact h.keep i hi1 (by omega)
  · intro p hp
    have hpo : p ≠ par b := fun hh => hp ⟨hh ▸ hono, by omega⟩
    rw [hw'ne _ hpo]
    exact h.same p (fun hh => hp ⟨hh.1, by omega⟩)


/-- the loop of `replayGames`, from the parent of `b` to the root -/
theorem PInv.loop (hinv : TInv k H losers win) (hw : win 0 = (w0 : Int))
    (hb : ∀ x, H'.alive x = true → (headOf bufs (x : Int)).key = H'.key x) :
    ∀ (f b : Nat) (c : Int) (L : List Int) (w : Nat → Int),
      PInv k H' losers win w0 b c L w → 1 ≤ b → par b < f →
      ∃ w', TInv k H' (replayLoop bufs f (par b) c L).2 w' ∧ w' 0 = (replayLoop bufs f (par b) c L).1
  | 0, b, c, L, w, _, _, hf => by omega
  | f + 1, b, c, L, w, h, hb1, hf => by
    obtain ⟨w', hstep⟩ := PInv.step hinv hw hb h hb1
    simp only [replayLoop]
    split
    · rename_i h0
      have hd := hstep
      rw [h0] at hd
      exact ⟨w', by have := hd.done; rw [h0]; exact this⟩
    · rename_i h0
      have hlt : par (par b) < f := by
        have : par (par b) < par b := by
          generalize par b = o at h0 ⊢; simp only [par]; omega
        omega
      have := PInv.loop hinv hw hb f (par b) _ _ w' hstep (by omega) hlt
      simpa only [par] using this

/-- the state before the first game: only the leaf of the previous winner has changed -/
theorem PInv.start (hinv : TInv k H losers win) (hw : win 0 = (w0 : Int))
    (hag : ∀ x, x ≠ w0 → H'.alive x = H.alive x ∧ H'.key x = H.key x) :
    ∃ w, PInv k H' losers win w0 (k + w0) (if H'.alive w0 = true then (w0 : Int) else -1) losers w := by
  have hw0k : w0 < k := (hinv.chain 0 w0 hw).2.1
  obtain ⟨w, hwdef⟩ : ∃ w : Nat → Int, ∀ p, w p =
      if p = k + w0 then (if H'.alive w0 = true then (w0 : Int) else -1) else win p := ⟨_, fun _ => rfl⟩
  have hne : ∀ p, p ≠ k + w0 → w p = win p := by intro p hp; simp [hwdef, hp]
  have hq : w (k + w0) = if H'.alive w0 = true then (w0 : Int) else -1 := by simp [hwdef]
  have honq : OnPath k w0 (k + w0) := ⟨0, rfl⟩
  -- positions on the path other than the leaf are internal nodes
  have hpath_lt : ∀ i, OnPath k w0 i → i ≠ k + w0 → i < k := by
    intro i ⟨j, hj⟩ hne
    cases j with
    | zero => exact absurd hj.symm hne
    | succ j =>
      rw [up_succ'] at hj
      have := up_le j (par (k + w0))
      simp only [par] at this hj; omega
  have hoff : ∀ p, ¬ (OnPath k w0 p ∧ p < k + w0) → p ≠ k + w0 → ¬ OnPath k w0 p := by
    intro p hn hp hon
    exact hn ⟨hon, by have := hpath_lt p hon hp; omega⟩
  refine ⟨w, honq, hinv.len, ?_, ?_, ?_, fun _ _ _ => rfl, ?_, hq⟩
  · intro p hp
    by_cases hpq : p = k + w0
    · subst hpq
      rw [hq]
      simp only [leafPlayer, Nat.add_sub_cancel_left, hw0k, true_and]
    · rw [hne p hpq, hinv.leaf p hp]
      simp only [leafPlayer]
      by_cases hlt : p - k < k
      · rw [(hag (p - k) (by omega)).1]
      · simp [hlt]
  · intro i hi hn
    have hioff : ¬ OnPath k w0 i := hoff i hn (by omega)
    have hc : ∀ c, par c = i → 1 ≤ c → c ≠ k + w0 := by
      intro c hc h1 he
      exact hioff (hc ▸ he ▸ onPath_par honq)
    rw [hne _ (hc (2 * i + 1) (by simp only [par]; omega) (by omega)),
      hne _ (hc (2 * i + 2) (by simp only [par]; omega) (by omega)), hne i (by omega)]
    obtain ⟨hset, hle⟩ := hinv.node i hi
    refine ⟨hset, ?_⟩
    have h1 : win i ≠ (w0 : Int) := fun hh => hioff (win_onPath hinv hh)
    have h2 : losers.getD i (-1) ≠ (w0 : Int) := by
      intro hh
      rcases hset with ⟨e, _⟩ | ⟨e, _⟩
      · have := win_onPath hinv (e ▸ hh)
        exact hioff (by have := onPath_par this; simpa [par] using this)
      · have := win_onPath hinv (e ▸ hh)
        exact hioff (by
          have := onPath_par this
          have e2 : par (2 * i + 2) = i := by simp only [par]; omega
          rwa [e2] at this)
    rw [pk_agree hag h1, pk_agree hag h2]; exact hle
  · intro p x hn hpx
    by_cases hpq : p = k + w0
    · subst hpq
      rw [hq] at hpx
      split at hpx
      · rename_i hal
        have : x = w0 := by omega
        subst this
        exact ⟨hal, hw0k, 0, rfl, fun j hj => by
          have : j = 0 := by omega
          subst this; simp only [up]; rw [hq]; simp [hal]⟩
      · omega
    · have hpoff := hoff p hn hpq
      rw [hne p hpq] at hpx
      obtain ⟨a1, a2, n, hn1, hn2⟩ := hinv.chain p x hpx
      have hxw : x ≠ w0 := by
        intro hh; subst hh; exact hpoff (win_onPath hinv hpx)
      refine ⟨by rw [(hag x hxw).1]; exact a1, a2, n, hn1, ?_⟩
      intro j hj
      rw [hne]
      · exact hn2 j hj
      · cases j with
        | zero => simp only [up]; omega
        | succ j =>
          rw [up_succ']
          have := up_le j (par (k + x))
          simp only [par] at this ⊢; omega
  · intro p hp
    apply hne
    intro hh; subst hh
    exact hp ⟨honq, Nat.le_refl _⟩

/-- `replayGames` restores the invariant: `H` are the heads the tree was valid for, `w0` its winner,
    `H'` the heads now (they differ at `w0` only: its head changed, or it was exhausted) -/
theorem replay_inv (hinv : TInv k H losers win) (hw : win 0 = (w0 : Int))
    (hag : ∀ x, x ≠ w0 → H'.alive x = H.alive x ∧ H'.key x = H.key x)
    (hb : ∀ x, H'.alive x = true → (headOf bufs (x : Int)).key = H'.key x) :
    let c0 : Int := if H'.alive w0 = true then (w0 : Int) else -1
    ∃ w', TInv k H' (replayLoop bufs k (par (k + w0)) c0 losers).2 w' ∧
      w' 0 = (replayLoop bufs k (par (k + w0)) c0 losers).1 := by
  have hw0k : w0 < k := (hinv.chain 0 w0 hw).2.1
  obtain ⟨w, hstart⟩ := PInv.start hinv hw hag
  exact PInv.loop hinv hw hb k (k + w0) _ _ w hstart (by omega) (by simp only [par]; omega)

end replay


/-! ## runBound -/

section runbound
variable {k : Nat} {H : Heads} {losers : List Int} {win : Nat → Int} {w0 : Nat} {bufs : List Buf}

/-- at a path node the stored loser is the winner of the subtree hanging off the path -/
theorem loser_is_sibling (hinv : TInv k H losers win) (hw : win 0 = (w0 : Int))
    {pc oc : Nat} (hpc : OnPath k w0 pc) (h1 : 1 ≤ pc) (h2 : 1 ≤ oc) (hpar : par oc = par pc)
    (hne : oc ≠ pc) (hlt : par pc < k) : losers.getD (par pc) (-1) = win oc := by
  have hwinb : win pc = (w0 : Int) := path_win hinv hw pc hpc
  have hwino : win (par pc) = (w0 : Int) := path_win hinv hw _ (onPath_par hpc)
  obtain ⟨hset, _⟩ := hinv.node (par pc) hlt
  have hc1 := child_cases h1
  have hc2 := child_cases h2
  rw [hpar] at hc2
  rcases hc1 with e1 | e1 <;> rcases hc2 with e2 | e2
  · omega
  · rw [← e1, ← e2, hwinb, hwino] at hset
    rcases hset with ⟨a1, a2⟩ | ⟨a1, _⟩
    · rw [a1, a2]
    · exact a1
  · rw [← e1, ← e2, hwinb, hwino] at hset
    rcases hset with ⟨a1, _⟩ | ⟨a1, a2⟩
    · exact a1
    · rw [a1, a2]
  · omega

/-- every path node below the leaf has a child on the path -/
theorem onPath_child : ∀ j, up j (k + w0) < k + w0 →
    ∃ pc, 1 ≤ pc ∧ OnPath k w0 pc ∧ par pc = up j (k + w0)
  | 0, h => by simp only [up] at h; omega
  | j + 1, h => by
    by_cases h1 : 1 ≤ up j (k + w0)
    · exact ⟨up j (k + w0), h1, ⟨j, rfl⟩, rfl⟩
    · have h0 : up j (k + w0) = 0 := by omega
      have e : up (j + 1) (k + w0) = 0 := by simp only [up, h0, par]
      rw [e, ← h0]
      exact onPath_child j (by rw [h0]; rw [e] at h; exact h)

theorem first_on_path {P : Nat → Prop} : ∀ N, ¬ P 0 → P N → ∃ n, n < N ∧ ¬ P n ∧ P (n + 1)
  | 0, h0, hN => absurd hN h0
  | N + 1, h0, hN => by
    by_cases h : P N
    · obtain ⟨n, h1, h2, h3⟩ := first_on_path N h0 h
      exact ⟨n, by omega, h2, h3⟩
    · exact ⟨N, by omega, h, hN⟩

/-- a live input other than the winner is bounded below by the loser stored at some path node -/
theorem path_loser_le (hinv : TInv k H losers win) (hw : win 0 = (w0 : Int)) (x : Nat) (hx : x < k)
    (hxw : x ≠ w0) (ha : H.alive x = true) :
    ∃ (o l : Nat), OnPath k w0 o ∧ o < k ∧ losers.getD o (-1) = (l : Int) ∧ l ≠ w0 ∧ H.alive l = true ∧
      H.key l ≤ H.key x := by
  have hw0k : w0 < k := (hinv.chain 0 w0 hw).2.1
  have hleafx : win (k + x) = (x : Int) := by
    rw [hinv.leaf (k + x) (by omega)]; simp [leafPlayer, hx, ha]
  have h0 : ¬ OnPath k w0 (up 0 (k + x)) := by
    intro hon
    have := path_win hinv hw _ hon
    simp only [up] at this
    rw [hleafx] at this; omega
  have hN : OnPath k w0 (up (k + x) (k + x)) := by
    rw [up_zero_of_le _ _ (Nat.le_refl _)]
    exact ⟨k + w0, up_zero_of_le _ _ (Nat.le_refl _)⟩
  obtain ⟨n, _, hoff, hon⟩ := first_on_path (P := fun n => OnPath k w0 (up n (k + x))) (k + x) h0 hN
  generalize hoc : up n (k + x) = oc at hoff hon
  have hon' : OnPath k w0 (par oc) := by simpa only [up, hoc] using hon
  have hoc2k : oc ≤ 2 * k := by rw [← hoc]; have := up_le n (k + x); omega
  have hoc1 : 1 ≤ oc := by
    rcases Nat.eq_zero_or_pos oc with h | h
    · exfalso; apply hoff; rw [h]; exact ⟨k + w0, up_zero_of_le _ _ (Nat.le_refl _)⟩
    · exact h
  have hok : par oc < k := by simp only [par]; omega
  obtain ⟨j, hj⟩ := hon'
  obtain ⟨pc, hpc1, hpcon, hpcpar⟩ := onPath_child (k := k) (w0 := w0) j (by omega)
  rw [hj] at hpcpar
  have hne : oc ≠ pc := fun hh => hoff (hh ▸ hpcon)
  have hl := loser_is_sibling hinv hw hpcon hpc1 hoc1 hpcpar.symm hne (by rw [hpcpar]; exact hok)
  rw [hpcpar] at hl
  -- the winner of the subtree at oc is below x
  have hle := hinv.le_up n (k + x) (by omega)
  rw [hoc, hleafx, pk_nat ha] at hle
  cases hp : H.pk (win oc) with
  | none => rw [hp] at hle; simp [leInf] at hle
  | some v =>
    obtain ⟨l, hlw, hal⟩ := pk_isSome (p := win oc) (by rw [hp]; rfl)
    rw [hlw, pk_nat hal, leInf_some] at hle
    refine ⟨par oc, l, ⟨j, hj⟩, hok, by rw [hl, hlw], ?_, hal, hle⟩
    intro hh; subst hh
    exact hoff (win_onPath hinv hlw)

theorem runBoundStep_spec (o : Nat) (acc : Option Row) :
    (∀ b, acc = some b → ∃ b', runBoundStep bufs losers o acc = some b' ∧ b'.key ≤ b.key) ∧
    (0 ≤ losers.getD o (-1) → ∃ b', runBoundStep bufs losers o acc = some b' ∧
        b'.key ≤ (headOf bufs (losers.getD o (-1))).key) ∧
    (∀ b', runBoundStep bufs losers o acc = some b' →
        acc = some b' ∨ (0 ≤ losers.getD o (-1) ∧ b' = headOf bufs (losers.getD o (-1)))) := by
  unfold runBoundStep
  split
  · rename_i h0
    have h0' : 0 ≤ losers.getD o (-1) := by simpa using h0
    cases acc with
    | none =>
      refine ⟨by simp, fun _ => ⟨_, rfl, Int.le_refl _⟩, ?_⟩
      intro b' hb'; simp at hb'; exact Or.inr ⟨h0', hb'.symm⟩
    | some b =>
      simp only
      split
      · rename_i hlt
        have := cmp_lt.mp hlt
        refine ⟨?_, fun _ => ⟨_, rfl, Int.le_refl _⟩, ?_⟩
        · intro b0 hb0; cases hb0; exact ⟨_, rfl, by omega⟩
        · intro b' hb'; simp at hb'; exact Or.inr ⟨h0', hb'.symm⟩
      · rename_i hlt
        have : ¬ (headOf bufs (losers.getD o (-1))).key < b.key := fun h => hlt (cmp_lt.mpr h)
        refine ⟨?_, fun _ => ⟨_, rfl, by omega⟩, ?_⟩
        · intro b0 hb0; cases hb0; exact ⟨_, rfl, Int.le_refl _⟩
        · intro b' hb'; exact Or.inl hb'
  · rename_i h0
    have h0' : ¬ 0 ≤ losers.getD o (-1) := by simpa using h0
    refine ⟨fun b hb => ⟨b, hb, Int.le_refl _⟩, fun h => absurd h h0', fun b' hb' => Or.inl hb'⟩

theorem runBoundLoop_spec : ∀ (f o : Nat) (acc : Option Row), o < f →
    (∀ b, acc = some b → ∃ b', runBoundLoop bufs losers f o acc = some b' ∧ b'.key ≤ b.key) ∧
    (∀ n, 0 ≤ losers.getD (up n o) (-1) → ∃ b', runBoundLoop bufs losers f o acc = some b' ∧
        b'.key ≤ (headOf bufs (losers.getD (up n o) (-1))).key) ∧
    (∀ b', runBoundLoop bufs losers f o acc = some b' →
        acc = some b' ∨ ∃ n, 0 ≤ losers.getD (up n o) (-1) ∧ b' = headOf bufs (losers.getD (up n o) (-1)))
  | 0, o, acc, h => by omega
  | f + 1, o, acc, h => by
    obtain ⟨s1, s2, s3⟩ := runBoundStep_spec (bufs := bufs) (losers := losers) o acc
    simp only [runBoundLoop]
    split
    · rename_i h0
      subst h0
      refine ⟨s1, ?_, ?_⟩
      · intro n hn; rw [up_zero] at hn ⊢; exact s2 hn
      · intro b' hb'
        rcases s3 b' hb' with h | h
        · exact Or.inl h
        · exact Or.inr ⟨0, h⟩
    · rename_i h0
      have hpar : (o - 1) / 2 = par o := rfl
      rw [hpar]
      obtain ⟨r1, r2, r3⟩ := runBoundLoop_spec f (par o) (runBoundStep bufs losers o acc)
        (by simp only [par]; omega)
      refine ⟨?_, ?_, ?_⟩
      · intro b hb
        obtain ⟨b1, e1, l1⟩ := s1 b hb
        obtain ⟨b2, e2, l2⟩ := r1 b1 e1
        exact ⟨b2, e2, by omega⟩
      · intro n hn
        cases n with
        | zero =>
          obtain ⟨b1, e1, l1⟩ := s2 hn
          obtain ⟨b2, e2, l2⟩ := r1 b1 e1
          exact ⟨b2, e2, by simp only [up] at l1 ⊢; omega⟩
        | succ n =>
          rw [up_succ'] at hn ⊢
          exact r2 n hn
      · intro b' hb'
        rcases r3 b' hb' with h | ⟨n, hn⟩
        · rcases s3 b' h with h' | h'
          · exact Or.inl h'
          · exact Or.inr ⟨0, h'⟩
        · exact Or.inr ⟨n + 1, by rw [up_succ']; exact hn⟩

/-- `runBound_min`: the bound computed over the winner's path is the minimum head among the live
    inputs other than the winner (`none` iff there is none) -/
theorem runBound_min (hinv : TInv k H losers win) (hw : win 0 = (w0 : Int))
    (hb : ∀ x, x ≠ w0 → H.alive x = true → (headOf bufs (x : Int)).key = H.key x) :
    (∀ x, x < k → x ≠ w0 → H.alive x = true →
        ∃ b, runBoundLoop bufs losers k (par (k + w0)) none = some b ∧ b.key ≤ H.key x) ∧
    (∀ b, runBoundLoop bufs losers k (par (k + w0)) none = some b →
        ∃ x, x < k ∧ x ≠ w0 ∧ H.alive x = true ∧ b = headOf bufs (x : Int)) := by
  have hw0k : w0 < k := (hinv.chain 0 w0 hw).2.1
  obtain ⟨_, r2, r3⟩ := runBoundLoop_spec (bufs := bufs) (losers := losers) k (par (k + w0)) none
    (by simp only [par]; omega)
  have honp : OnPath k w0 (par (k + w0)) := ⟨1, rfl⟩
  constructor
  · intro x hx hxw ha
    obtain ⟨o, l, ⟨j, hj⟩, hok, hl, hlw, hal, hle⟩ := path_loser_le hinv hw x hx hxw ha
    -- o is a path node below the leaf: it is an ancestor of the first path node
    have hj1 : 1 ≤ j := by
      rcases Nat.eq_zero_or_pos j with h | h
      · subst h; simp only [up] at hj; omega
      · exact h
    obtain ⟨j', rfl⟩ := Nat.exists_eq_add_of_le hj1
    have hj' : up j' (par (k + w0)) = o := by rw [← hj, Nat.add_comm 1 j', up_succ']
    obtain ⟨b, e, hbl⟩ := r2 j' (by rw [hj', hl]; omega)
    refine ⟨b, e, ?_⟩
    rw [hj', hl, hb l hlw hal] at hbl
    omega
  · intro b hbb
    rcases r3 b hbb with h | ⟨n, hn0, hn⟩
    · cases h
    · obtain ⟨l, hl⟩ : ∃ l : Nat, losers.getD (up n (par (k + w0))) (-1) = (l : Int) :=
        ⟨(losers.getD (up n (par (k + w0))) (-1)).toNat, by omega⟩
      have hon : OnPath k w0 (up n (par (k + w0))) := onPath_up honp n
      have hlt : up n (par (k + w0)) < k := by
        have := up_le n (par (k + w0)); simp only [par] at this ⊢; omega
      -- the stored loser is the winner of one of the children
      obtain ⟨hset, _⟩ := hinv.node _ hlt
      have hwl : ∃ c, win c = (l : Int) ∧ par c = up n (par (k + w0)) ∧ 1 ≤ c := by
        rcases hset with ⟨e, _⟩ | ⟨e, _⟩
        · exact ⟨_, by rw [← e, hl], by simp only [par]; omega, by omega⟩
        · exact ⟨_, by rw [← e, hl], by simp only [par]; omega, by omega⟩
      obtain ⟨c, hc, hcpar, hc1⟩ := hwl
      obtain ⟨hal, hlk, _⟩ := hinv.chain c l hc
      refine ⟨l, hlk, ?_, hal, by rw [hn, hl]⟩
      -- l = w0 would put both children of the node on the path with the same winner
      intro hlw; subst hlw
      have hcon := win_onPath hinv hc
      obtain ⟨j, hj⟩ := hon
      have hjlt : up j (k + l) < k + l := by rw [hj]; omega
      obtain ⟨pc, hpc1, hpcon, hpcpar⟩ := onPath_child (k := k) (w0 := l) j hjlt
      rw [hj] at hpcpar
      obtain ⟨n1, hn1⟩ := hcon
      obtain ⟨n2, hn2⟩ := hpcon
      have hceq : c = pc := onPath_unique hn1 hn2 (by rw [hcpar, hpcpar]) hc1 hpc1
      subst hceq
      -- then the stored loser would be the winner of the other child, which is off the path
      have hwinp := path_win hinv hw _ ⟨j, hj⟩
      rcases child_cases hc1 with e | e
      · rw [hcpar] at e
        rcases hset with ⟨a1, a2⟩ | ⟨a1, a2⟩
        · rw [hwinp] at a2
          have := win_onPath hinv a2.symm
          obtain ⟨n3, hn3⟩ := this
          have := onPath_unique hn3 hn1 (by rw [hcpar]; simp only [par]; omega) (by omega) hc1
          omega
        · rw [hwinp] at a2
          rw [hl] at a1
          have := win_onPath hinv a1.symm
          obtain ⟨n3, hn3⟩ := this
          have := onPath_unique hn3 hn1 (by rw [hcpar]; simp only [par]; omega) (by omega) hc1
          omega
      · rw [hcpar] at e
        rcases hset with ⟨a1, a2⟩ | ⟨a1, a2⟩
        · rw [hl] at a1
          have := win_onPath hinv a1.symm
          obtain ⟨n3, hn3⟩ := this
          have := onPath_unique hn3 hn1 (by rw [hcpar]; simp only [par]; omega) (by omega) hc1
          omega
        · rw [hwinp] at a2
          have := win_onPath hinv a2.symm
          obtain ⟨n3, hn3⟩ := this
          have := onPath_unique hn3 hn1 (by rw [hcpar]; simp only [par]; omega) (by omega) hc1
          omega

end runbound


/-! ## playInitialGames -/

section init
variable (bufs : List Buf) (leaves : List Int)

def leafVal (p : Nat) : Int :=
  if p - bufs.length < leaves.length then leaves.getD (p - bufs.length) (-1) else -1

/-- ghost: the winner of the subtree at `i`, as `playInitialGames` computes it -/
def initWin : Nat → Nat → Int
  | 0, i => if i ≥ bufs.length then leafVal bufs leaves i else -1
  | f + 1, i =>
    if i ≥ bufs.length then leafVal bufs leaves i
    else (playGame bufs (initWin f (2 * i + 1)) (initWin f (2 * i + 2))).2

theorem playInitialGames_fst : ∀ (f i : Nat) (L : List Int),
    (playInitialGames bufs leaves f i L).1 = initWin bufs leaves f i
  | 0, i, L => by simp only [playInitialGames, initWin, leafVal]; split <;> rfl
  | f + 1, i, L => by
    simp only [playInitialGames, initWin, leafVal]
    split
    · rfl
    · simp only [playInitialGames_fst f]

theorem initWin_succ : ∀ (f p : Nat), bufs.length ≤ p + f →
    initWin bufs leaves (f + 1) p = initWin bufs leaves f p
  | 0, p, h => by
    have : p ≥ bufs.length := by omega
    simp [initWin, this]
  | f + 1, p, h => by
    by_cases hp : p ≥ bufs.length
    · simp [initWin, hp]
    · have e1 := initWin_succ f (2 * p + 1) (by omega)
      have e2 := initWin_succ f (2 * p + 2) (by omega)
      rw [initWin, if_neg hp, e1, e2]
      conv => rhs; rw [initWin, if_neg hp]

theorem initWin_add (f p : Nat) (h : bufs.length ≤ p + f) : ∀ d,
    initWin bufs leaves (f + d) p = initWin bufs leaves f p
  | 0 => rfl
  | d + 1 => by
    rw [← Nat.add_assoc, initWin_succ bufs leaves (f + d) p (by omega)]; exact initWin_add f p h d

theorem initWin_stable {f f' p : Nat} (h : bufs.length ≤ p + f) (h' : bufs.length ≤ p + f') :
    initWin bufs leaves f p = initWin bufs leaves f' p := by
  rcases Nat.le_total f f' with hh | hh
  · obtain ⟨d, rfl⟩ := Nat.exists_eq_add_of_le hh
    exact (initWin_add bufs leaves f p h d).symm
  · obtain ⟨d, rfl⟩ := Nat.exists_eq_add_of_le hh
    exact initWin_add bufs leaves f' p h' d

/-- the canonical winner function of the initial tree -/
def initW (p : Nat) : Int := initWin bufs leaves bufs.length p

def initG (i : Nat) : Int := (playGame bufs (initW bufs leaves (2 * i + 1)) (initW bufs leaves (2 * i + 2))).1

theorem initW_node {i : Nat} (hi : i < bufs.length) :
    initW bufs leaves i = (playGame bufs (initW bufs leaves (2 * i + 1)) (initW bufs leaves (2 * i + 2))).2 := by
  obtain ⟨k', hk'⟩ : ∃ k', bufs.length = k' + 1 := ⟨bufs.length - 1, by omega⟩
  simp only [initW]
  rw [hk', initWin, if_neg (by omega)]
  rw [initWin_stable bufs leaves (f := k') (f' := k' + 1) (p := 2 * i + 1) (by omega) (by omega),
    initWin_stable bufs leaves (f := k') (f' := k' + 1) (p := 2 * i + 2) (by omega) (by omega)]

theorem getD_set_ne'' (L : List Int) {i o : Nat} (c : Int) (h : i ≠ o) : (L.set o c).getD i (-1) = L.getD i (-1) :=
  getD_set_ne' L c h

/-- the losers written by `playInitialGames` -/
theorem playInitialGames_snd : ∀ (f i : Nat) (L : List Int), bufs.length ≤ i + f → L.length = bufs.length →
    (playInitialGames bufs leaves f i L).2.length = bufs.length ∧
    (∀ j, L.getD j (-1) = initG bufs leaves j → (playInitialGames bufs leaves f i L).2.getD j (-1) = initG bufs leaves j) ∧
    (∀ n j, j < bufs.length → up n j = i → (playInitialGames bufs leaves f i L).2.getD j (-1) = initG bufs leaves j)
  | 0, i, L, h, hL => by
    have hi : i ≥ bufs.length := by omega
    simp only [playInitialGames, hi, if_true]
    refine ⟨hL, fun _ h => h, ?_⟩
    intro n j hj hn
    have := up_le n j; omega
  | f + 1, i, L, h, hL => by
    simp only [playInitialGames]
    split
    · rename_i hi
      refine ⟨hL, fun _ h => h, ?_⟩
      intro n j hj hn
      have := up_le n j; omega
    · rename_i hi
      have hi' : i < bufs.length := by omega
      obtain ⟨a1, a2, a3⟩ := playInitialGames_snd f (2 * i + 1) L (by omega) hL
      obtain ⟨b1, b2, b3⟩ := playInitialGames_snd f (2 * i + 2) _ (by omega) a1
      have hg : (playGame bufs (playInitialGames bufs leaves f (2 * i + 1) L).1
          (playInitialGames bufs leaves f (2 * i + 2) (playInitialGames bufs leaves f (2 * i + 1) L).2).1).1
          = initG bufs leaves i := by
        rw [playInitialGames_fst, playInitialGames_fst]
        simp only [initG, initW]
        rw [initWin_stable bufs leaves (f := f) (f' := bufs.length) (p := 2 * i + 1) (by omega) (by omega),
          initWin_stable bufs leaves (f := f) (f' := bufs.length) (p := 2 * i + 2) (by omega) (by omega)]
      rw [hg]
      have hset : ∀ (M : List Int), M.length = bufs.length → ∀ j, (j = i ∨ M.getD j (-1) = initG bufs leaves j) →
          (M.set i (initG bufs leaves i)).getD j (-1) = initG bufs leaves j := by
        intro M hM j hj
        by_cases hji : j = i
        · subst hji; exact getD_set_eq' M _ (by omega)
        · rw [getD_set_ne' M _ hji]
          rcases hj with hj | hj
          · exact absurd hj hji
          · exact hj
      refine ⟨by simp [b1], ?_, ?_⟩
      · intro j hj
        exact hset _ b1 j (Or.inr (b2 j (a2 j hj)))
      · intro n
        induction n with
        | zero =>
          intro j hj hn
          simp only [up] at hn
          exact hset _ b1 j (Or.inl hn)
        | succ n ih =>
          intro j hj hn
          simp only [up] at hn
          by_cases hc0 : up n j = 0
          · have : i = 0 := by rw [← hn, hc0]; rfl
            exact ih j hj (by rw [hc0, this])
          · rcases child_cases (show 1 ≤ up n j by omega) with hc | hc
            · rw [hn] at hc
              exact hset _ b1 j (Or.inr (b2 j (a3 n j hj hc)))
            · rw [hn] at hc
              exact hset _ b1 j (Or.inr (b3 n j hj hc))

end init

section init2
variable {bufs : List Buf} {leaves : List Int} {H : Heads}

theorem playGame_cases (bufs : List Buf) (a b : Int) :
    (a < 0 ∧ playGame bufs a b = (a, b)) ∨ (0 ≤ a ∧ b < 0 ∧ playGame bufs a b = (b, a)) ∨
    (0 ≤ a ∧ 0 ≤ b ∧ (headOf bufs a).key < (headOf bufs b).key ∧ playGame bufs a b = (b, a)) ∨
    (0 ≤ a ∧ 0 ≤ b ∧ ¬ (headOf bufs a).key < (headOf bufs b).key ∧ playGame bufs a b = (a, b)) := by
  unfold playGame
  by_cases ha : a < 0
  · simp [ha]
  · by_cases hb : b < 0
    · simp [ha, hb]; omega
    · by_cases hc : cmp (headOf bufs a) (headOf bufs b) < 0
      · have := cmp_lt.mp hc
        simp only [ha, hb, hc, if_true, if_false]
        right; right; left; exact ⟨by omega, by omega, this, trivial⟩
      · have : ¬ (headOf bufs a).key < (headOf bufs b).key := fun h => hc (cmp_lt.mpr h)
        simp only [ha, hb, hc, if_false]
        right; right; right; exact ⟨by omega, by omega, this, trivial⟩

/-- what `initialize` passes as leaves: the live inputs -/
structure LeavesOk (bufs : List Buf) (leaves : List Int) (H : Heads) : Prop where
  len : leaves.length = bufs.length
  val : ∀ x, x < bufs.length → leaves.getD x (-1) = if H.alive x = true then (x : Int) else -1
  key : ∀ x, H.alive x = true → (headOf bufs (x : Int)).key = H.key x

theorem leafVal_eq (hl : LeavesOk bufs leaves H) (p : Nat) (_hp : bufs.length ≤ p) :
    leafVal bufs leaves p = leafPlayer bufs.length H p := by
  simp only [leafVal, leafPlayer, hl.len]
  by_cases h : p - bufs.length < bufs.length
  · simp only [h, if_true, true_and]; exact hl.val _ h
  · simp [h]

theorem initW_leaf (hl : LeavesOk bufs leaves H) (p : Nat) (hp : bufs.length ≤ p) :
    initW bufs leaves p = leafPlayer bufs.length H p := by
  rw [← leafVal_eq hl p hp]
  simp only [initW]
  cases hk : bufs.length with
  | zero => simp [initWin, hk]
  | succ k' => rw [hk] at hp; simp [initWin, hk, hp]

theorem initWin_chain (hl : LeavesOk bufs leaves H) : ∀ (f p x : Nat), bufs.length ≤ p + f →
    initWin bufs leaves f p = (x : Int) →
    H.alive x = true ∧ x < bufs.length ∧ Chain bufs.length (initW bufs leaves) x p
  | 0, p, x, h, hx => by
    have hp : bufs.length ≤ p := by omega
    have e : initW bufs leaves p = (x : Int) := by
      rw [← hx]; exact initWin_stable bufs leaves (by omega) (by omega)
    rw [initW_leaf hl p hp] at e
    simp only [leafPlayer] at e
    split at e
    · rename_i hc
      have hxe : x = p - bufs.length := by omega
      refine ⟨hxe ▸ hc.2, hxe ▸ hc.1, 0, by simp only [up]; omega, ?_⟩
      intro j hj
      have : j = 0 := by omega
      subst this
      simp only [up]
      have : bufs.length + x = p := by omega
      rw [this, initW_leaf hl p hp]; simp only [leafPlayer, hc, and_self, if_true]; omega
    · omega
  | f + 1, p, x, h, hx => by
    by_cases hp : bufs.length ≤ p
    · exact initWin_chain hl 0 p x (by omega) (by
        rw [← hx]; exact initWin_stable bufs leaves (by omega) (by omega))
    · have hp' : ¬ p ≥ bufs.length := hp
      have hx' := hx
      rw [initWin, if_neg hp'] at hx
      have hmem : ∃ c, (c = 2 * p + 1 ∨ c = 2 * p + 2) ∧ initWin bufs leaves f c = (x : Int) := by
        rcases playGame_cases bufs (initWin bufs leaves f (2 * p + 1)) (initWin bufs leaves f (2 * p + 2)) with
          ⟨_, e⟩ | ⟨_, _, e⟩ | ⟨_, _, _, e⟩ | ⟨_, _, _, e⟩ <;> rw [e] at hx
        · exact ⟨_, Or.inr rfl, hx⟩
        · exact ⟨_, Or.inl rfl, hx⟩
        · exact ⟨_, Or.inl rfl, hx⟩
        · exact ⟨_, Or.inr rfl, hx⟩
      obtain ⟨c, hc, hcx⟩ := hmem
      obtain ⟨a1, a2, n, hn1, hn2⟩ := initWin_chain hl f c x (by omega) hcx
      have hpar : par c = p := by simp only [par]; omega
      refine ⟨a1, a2, n + 1, by simp only [up, hn1, hpar], ?_⟩
      intro j hj
      rcases Nat.lt_or_ge j (n + 1) with h1 | h1
      · exact hn2 j (by omega)
      · have : j = n + 1 := by omega
        subst this
        simp only [up, hn1, hpar, initW]
        rw [← hx']; exact initWin_stable bufs leaves (by omega) (by omega)

/-- `init_inv`: `playInitialGames` builds a valid tree -/
theorem init_inv (hl : LeavesOk bufs leaves H) (L : List Int) (hL : L.length = bufs.length) :
    TInv bufs.length H (playInitialGames bufs leaves bufs.length 0 L).2 (initW bufs leaves) ∧
    initW bufs leaves 0 = (playInitialGames bufs leaves bufs.length 0 L).1 := by
  obtain ⟨s1, _, s3⟩ := playInitialGames_snd bufs leaves bufs.length 0 L (by omega) hL
  have hchain : ∀ p (x : Nat), initW bufs leaves p = (x : Int) →
      H.alive x = true ∧ x < bufs.length ∧ Chain bufs.length (initW bufs leaves) x p :=
    fun p x hx => initWin_chain hl bufs.length p x (by omega) hx
  refine ⟨⟨s1, initW_leaf hl, ?_, hchain⟩, (playInitialGames_fst bufs leaves _ _ _).symm⟩
  intro i hi
  rw [s3 i i hi (up_zero_of_le i i (Nat.le_refl _)), initW_node bufs leaves hi]
  simp only [initG]
  generalize ha : initW bufs leaves (2 * i + 1) = a
  generalize hb : initW bufs leaves (2 * i + 2) = b
  have halive : ∀ (v : Int) (p : Nat), initW bufs leaves p = v → 0 ≤ v →
      ∃ x : Nat, v = (x : Int) ∧ H.alive x = true := by
    intro v p hv h0
    obtain ⟨x, hx⟩ : ∃ x : Nat, v = (x : Int) := ⟨v.toNat, by omega⟩
    exact ⟨x, hx, (hchain p x (by rw [hv, hx])).1⟩
  rcases playGame_cases bufs a b with ⟨h1, e⟩ | ⟨h1, h2, e⟩ | ⟨h1, h2, h3, e⟩ | ⟨h1, h2, h3, e⟩ <;> rw [e]
  · exact ⟨Or.inl ⟨rfl, rfl⟩, by rw [pk_neg h1]; exact leInf_none _⟩
  · exact ⟨Or.inr ⟨rfl, rfl⟩, by rw [pk_neg h2]; exact leInf_none _⟩
  · obtain ⟨x, hx, hax⟩ := halive a _ ha h1
    obtain ⟨y, hy, hay⟩ := halive b _ hb h2
    refine ⟨Or.inr ⟨rfl, rfl⟩, ?_⟩
    rw [hx, hy] at h3 ⊢
    rw [hl.key x hax, hl.key y hay] at h3
    rw [pk_nat hax, pk_nat hay, leInf_some]; omega
  · obtain ⟨x, hx, hax⟩ := halive a _ ha h1
    obtain ⟨y, hy, hay⟩ := halive b _ hb h2
    refine ⟨Or.inl ⟨rfl, rfl⟩, ?_⟩
    rw [hx, hy] at h3 ⊢
    rw [hl.key x hax, hl.key y hay] at h3
    rw [pk_nat hax, pk_nat hay, leInf_some]; omega

end init2

end PqModel.Merge
