import PqModel.CopyPath

/-! Lemmas about the C11 mirror (`PqModel.CopyPath`); the property theorems are in
    `PqModel/Props/C11.lean`. -/
namespace PqModel.CopyPath
variable {α : Type}

/-! ### list views of the mutual definitions -/

theorem wellFormedL_iff (v : Variant) (cs : List (RG α)) : WellFormedL v cs ↔ ∀ c ∈ cs, WellFormed v c := by
  induction cs with
  | nil => simp [WellFormedL]
  | cons c cs ih => simp [WellFormedL, ih]

theorem wellFormedFaithfulL_iff (v : Variant) (cs : List (RG α)) :
    WellFormedFaithfulL v cs ↔ ∀ c ∈ cs, WellFormed v c ∧ c.rowsOf v = c.chunkRowsOf := by
  induction cs with
  | nil => simp [WellFormedFaithfulL]
  | cons c cs ih => simp [WellFormedFaithfulL, ih]

theorem chunkRowsL_eq (cs : List (RG α)) : chunkRowsL cs = cs.flatMap RG.chunkRowsOf := by
  induction cs with
  | nil => simp [chunkRowsL]
  | cons c cs ih => simp [chunkRowsL, ih]

theorem rowsL_eq (v : Variant) (cs : List (RG α)) : rowsL v cs = cs.flatMap (RG.rowsOf v) := by
  induction cs with
  | nil => simp [rowsL]
  | cons c cs ih => simp [rowsL, ih]

theorem numRowsL_eq (cs : List (RG α)) : numRowsL cs = (cs.map RG.numRows).sum := by
  induction cs with
  | nil => simp [numRowsL]
  | cons c cs ih => simp [numRowsL, ih]

theorem depth_lt_of_mem {c : RG α} {cs : List (RG α)} (h : c ∈ cs) : c.depth ≤ depthL cs := by
  induction cs with
  | nil => cases h
  | cons d ds ih =>
    simp only [depthL]
    rcases List.mem_cons.1 h with rfl | h
    · exact Nat.le_max_left _ _
    · exact Nat.le_trans (ih h) (Nat.le_max_right _ _)

/-! ### transparency -/

theorem transparent_leaf {rg : RG α} (h : chunkTransparent rg = true) :
    ∃ k n cs cr r, rg = .leaf k n cs cr r ∧ k.marker = true := by
  cases rg with
  | leaf k n cs cr r => exact ⟨k, n, cs, cr, r, rfl, h⟩
  | seg k cs => simp [chunkTransparent] at h

theorem readsInOrderL_iff (cs : List (RG α)) : readsInOrderL cs = true ↔ ∀ c ∈ cs, readsInOrder c = true := by
  induction cs with
  | nil => simp [readsInOrderL]
  | cons c cs ih => simp [readsInOrderL, ih]

theorem transparent_rows {v : Variant} {rg : RG α} (h : chunkTransparent rg = true) (hw : WellFormed v rg) :
    rg.rowsOf v = rg.chunkRowsOf := by
  obtain ⟨k, n, cs, cr, r, rfl, hk⟩ := transparent_leaf h
  simpa [WellFormed, RG.rowsOf, RG.chunkRowsOf] using hw hk

theorem copyable_transparent {v g} {rg : RG α} (h : copyable v g rg = true) :
    chunkTransparent rg = true := by
  unfold copyable at h
  cases ht : chunkTransparent rg with
  | true => rfl
  | false => simp [ht] at h

theorem columnOriented_transparent {g} {rg : RG α} (h : columnOrientedRG g rg = true) :
    chunkTransparent rg = true := by
  unfold columnOrientedRG at h
  cases ht : chunkTransparent rg with
  | true => rfl
  | false => simp [ht] at h

theorem columnOriented_maxRows {g} {rg : RG α} (h : columnOrientedRG g rg = true) :
    rg.numRows ≤ g.maxRows := by
  unfold columnOrientedRG at h
  repeat (split at h; · exact absurd h (by simp))
  omega

theorem reencodable_columnOriented {g} {rg : RG α} (h : reencodable g rg = true) :
    columnOrientedRG g rg = true := by
  unfold reencodable at h
  split at h
  · exact absurd h (by simp)
  · exact h

theorem copyable_maxRows {v g} {rg : RG α} (h : copyable v g rg = true) :
    rg.numRows ≤ g.maxRows := by
  unfold copyable at h
  repeat (split at h; · exact absurd h (by simp))
  omega

/-! ### segments -/

theorem splittable_segments {v g} {rg : RG α} {segs} (h : splittable v g rg = some segs) :
    ∃ k, rg = .seg k segs := by
  unfold splittable at h
  split at h
  · cases h
  · split at h
    · cases h
    · rename_i segs' hs
      split at h
      · cases h
      · rename_i hlen
        split at h
        · cases h
          cases rg with
          | seg k cs => simp [segmentsOf] at hs; exact ⟨k, by rw [hs]⟩
          | leaf k n cs cr r =>
            cases k <;> simp [segmentsOf] at hs <;> (subst hs; simp at hlen)
        · cases h

theorem splittable_disabled {v g} {rg : RG α} (h1 : g.disableCopy = true) (h2 : g.disableReencode = true) :
    splittable v g rg = none := by
  simp [splittable, h1, h2]

theorem splittable_opaque {v g} {rg : RG α} (h : ((segmentsOf rg).getD []).length ≤ 1) :
    splittable v g rg = none := by
  unfold splittable
  split
  · rfl
  · split
    · rfl
    · rename_i segs hs
      simp [hs] at h
      simp [h]

/-! ### packing -/

theorem flush_members (p : List (RG α)) : (flush p).flatMap Batch.members = p := by
  match p with
  | [] => rfl
  | [x] => rfl
  | x :: y :: r => simp [flush, Batch.members]

/-- the batches of `writeSegmentsPacked` are the segments, in order -/
theorem packLoop_members (g : DstCfg) : ∀ (segs pending : List (RG α)) (pr : Nat),
    (packLoop g segs pending pr).flatMap Batch.members = pending ++ segs
  | [], pending, _ => by simp [packLoop, flush_members]
  | s :: rest, pending, pr => by
    simp only [packLoop]
    split
    · split
      · simp [List.flatMap_append, flush_members, packLoop_members g rest]
      · rw [packLoop_members g rest]; simp
    · simp [List.flatMap_append, List.flatMap_cons, flush_members, Batch.members, packLoop_members g rest]

theorem flush_packed {p : List (RG α)} {ss} (h : Batch.packed ss ∈ flush p) : ss = p ∧ 2 ≤ p.length := by
  match p, h with
  | [], h => simp [flush] at h
  | [x], h => simp [flush] at h
  | x :: y :: r, h => simp [flush] at h; exact ⟨h, by simp⟩

theorem flush_single {p : List (RG α)} {s} (h : Batch.single s ∈ flush p) : p = [s] := by
  match p, h with
  | [], h => simp [flush] at h
  | [x], h => simp [flush] at h; rw [h]
  | x :: y :: r, h => simp [flush] at h

/-- invariant of the packing loop: the pending batch holds column-oriented segments whose row
    counts add up to `pr ≤ maxRows` -/
structure PendingOk (g : DstCfg) (pending : List (RG α)) (pr : Nat) : Prop where
  oriented : ∀ s ∈ pending, columnOrientedRG g s = true
  rows     : numRowsL pending = pr
  fits     : pr ≤ g.maxRows

theorem numRowsL_append (a b : List (RG α)) : numRowsL (a ++ b) = numRowsL a + numRowsL b := by
  simp [numRowsL_eq, List.map_append, List.sum_append]

theorem packLoop_packed (g : DstCfg) : ∀ (segs pending : List (RG α)) (pr : Nat),
    PendingOk g pending pr → ∀ ss, Batch.packed ss ∈ packLoop g segs pending pr →
      (∀ s ∈ ss, columnOrientedRG g s = true) ∧ numRowsL ss ≤ g.maxRows ∧ 2 ≤ ss.length
  | [], pending, pr, hp, ss, h => by
    simp only [packLoop] at h
    obtain ⟨rfl, h2⟩ := flush_packed h
    exact ⟨hp.oriented, by rw [hp.rows]; exact hp.fits, h2⟩
  | s :: rest, pending, pr, hp, ss, h => by
    simp only [packLoop] at h
    split at h
    · rename_i hs
      split at h
      · rcases List.mem_append.1 h with h | h
        · obtain ⟨rfl, h2⟩ := flush_packed h
          exact ⟨hp.oriented, by rw [hp.rows]; exact hp.fits, h2⟩
        · refine packLoop_packed g rest [s] s.numRows ⟨?_, ?_, ?_⟩ ss h
          · intro x hx; simp at hx; subst hx; exact hs
          · simp [numRowsL]
          · exact columnOriented_maxRows hs
      · rename_i hfit
        refine packLoop_packed g rest (pending ++ [s]) (pr + s.numRows) ⟨?_, ?_, ?_⟩ ss h
        · intro x hx
          rcases List.mem_append.1 hx with hx | hx
          · exact hp.oriented x hx
          · simp at hx; subst hx; exact hs
        · rw [numRowsL_append, hp.rows]; simp [numRowsL]
        · have := columnOriented_maxRows hs
          have := hp.fits
          omega
    · rcases List.mem_append.1 h with h | h
      · obtain ⟨rfl, h2⟩ := flush_packed h
        exact ⟨hp.oriented, by rw [hp.rows]; exact hp.fits, h2⟩
      · rcases List.mem_cons.1 h with h | h
        · cases h
        · exact packLoop_packed g rest [] 0 ⟨by simp, by simp [numRowsL], Nat.zero_le _⟩ ss h

theorem pack_packed (g : DstCfg) (segs : List (RG α)) (ss) (h : Batch.packed ss ∈ pack g segs) :
    (∀ s ∈ ss, columnOrientedRG g s = true) ∧ numRowsL ss ≤ g.maxRows ∧ 2 ≤ ss.length :=
  packLoop_packed g segs [] 0 ⟨by simp, by simp [numRowsL], Nat.zero_le _⟩ ss h

theorem pack_members (g : DstCfg) (segs : List (RG α)) : (pack g segs).flatMap Batch.members = segs := by
  simp [pack, packLoop_members]

theorem mem_pack_mem {g : DstCfg} {segs : List (RG α)} {b} (hb : b ∈ pack g segs) {s} (hs : s ∈ b.members) :
    s ∈ segs := by
  have := pack_members g segs
  rw [← this]
  exact List.mem_flatMap.2 ⟨b, hb, hs⟩

/-! ### the per-column copy predicate -/

theorem encodingStatsLoop_sound (d : DstCol) : ∀ (stats : List EncStat) (saw : Bool),
    encodingStatsLoop d stats saw = true →
      (∀ s ∈ stats, (s.pageType = 2 ∧ d.dict = true) ∨
        (s.pageType ≠ 2 ∧ s.pageType = d.pageType ∧ s.encoding = d.encoding)) ∧
      (d.dict = (saw || stats.any (fun s => s.pageType == 2)))
  | [], saw, h => by simpa [encodingStatsLoop] using h
  | s :: rest, saw, h => by
    simp only [encodingStatsLoop] at h
    split at h
    · rename_i h2
      split at h
      · cases h
      · rename_i hd
        have ih := encodingStatsLoop_sound d rest true h
        simp at hd
        refine ⟨?_, ?_⟩
        · intro x hx
          rcases List.mem_cons.1 hx with rfl | hx
          · exact Or.inl ⟨h2, hd⟩
          · exact ih.1 x hx
        · simp [h2, hd]
    · rename_i h2
      split at h
      · split at h
        · cases h
        · split at h
          · cases h
          · rename_i _ hpt henc
            have ih := encodingStatsLoop_sound d rest saw h
            refine ⟨?_, ?_⟩
            · intro x hx
              rcases List.mem_cons.1 hx with rfl | hx
              · exact Or.inr ⟨h2, by simpa using hpt, by simpa using henc⟩
              · exact ih.1 x hx
            · rw [ih.2]
              have : (s.pageType == 2) = false := by simpa using h2
              simp [this]
      · cases h

theorem encodingStatsMatch_sound {d : DstCol} {stats : List EncStat} (h : encodingStatsMatch stats d = true) :
    (∀ s ∈ stats, (s.pageType = 2 ∧ d.dict = true) ∨
        (s.pageType ≠ 2 ∧ s.pageType = d.pageType ∧ s.encoding = d.encoding)) ∧
      (d.dict = stats.any (fun s => s.pageType == 2)) := by
  unfold encodingStatsMatch at h
  split at h
  · cases h
  · simpa using encodingStatsLoop_sound d stats false h

theorem copyable_col_facts {v : Variant} {d : DstCol} {m : ChunkMeta}
    (h : columnChunkIsCopyable v d m = true) :
    m.encrypted = false ∧ d.encrypted = false ∧ m.type = d.kind ∧ m.codec = d.codec ∧
    (∀ bpv, d.filterBpv = some bpv → bloomFilterIsCopyable d bpv m = true) ∧
    m.columnIndexOffset ≠ 0 ∧ m.offsetIndexOffset ≠ 0 ∧ encodingStatsMatch m.encStats d = true ∧
    (v = .repaired → statisticsSettingsMatch d m = true) := by
  unfold columnChunkIsCopyable at h
  by_cases h1 : m.encrypted = true
  · simp [h1] at h
  by_cases h2 : d.encrypted = true
  · simp [h1, h2] at h
  by_cases h3 : m.type = d.kind
  case neg => simp [h1, h2, h3] at h
  by_cases h4 : m.codec = d.codec
  case neg => simp [h1, h2, h3, h4] at h
  by_cases h6 : m.columnIndexOffset = 0 ∨ m.offsetIndexOffset = 0
  · cases hb : d.filterBpv <;> simp [h1, h2, h3, h4, hb, h6] at h
  by_cases h7 : encodingStatsMatch m.encStats d = true
  case neg => cases hb : d.filterBpv <;> simp [h1, h2, h3, h4, hb, h6, h7] at h
  have h5 : ∀ bpv, d.filterBpv = some bpv → bloomFilterIsCopyable d bpv m = true := by
    intro bpv hb
    by_cases h5 : bloomFilterIsCopyable d bpv m = true
    · exact h5
    · simp [h1, h2, h3, h4, hb, h5] at h
  refine ⟨by simpa using h1, by simpa using h2, h3, h4, h5, fun h0 => h6 (Or.inl h0), fun h0 => h6 (Or.inr h0), h7, ?_⟩
  intro hv
  subst hv
  cases hb : d.filterBpv with
  | none => simpa [h1, h2, h3, h4, hb, h6, h7] using h
  | some bpv => simpa [h1, h2, h3, h4, hb, h6, h7, h5 bpv hb] using h

theorem bloomFilterIsCopyable_sound {d : DstCol} {bpv : Nat} {m : ChunkMeta}
    (h : bloomFilterIsCopyable d bpv m = true) :
    d.filterCompressed = false ∧ ∃ hd, m.bloomHeader = some hd ∧ hd.splitBlock = true ∧ hd.xxhash = true ∧
      hd.uncompressed = true ∧ hd.numBytes = bloomSize bpv m.numValues := by
  unfold bloomFilterIsCopyable at h
  by_cases h1 : m.bloomOffset = 0 ∨ m.bloomLength ≤ 0
  · simp [h1] at h
  by_cases h2 : d.filterCompressed = true
  · simp [h1, h2] at h
  cases hh : m.bloomHeader with
  | none => simp [h1, h2, hh] at h
  | some hd =>
    by_cases h3 : (!hd.splitBlock || !hd.xxhash) = true
    · simp [h1, h2, hh, h3] at h
    by_cases h4 : hd.uncompressed = true
    case neg => simp [h1, h2, hh, h4] at h
    simp at h3
    simp [h1, h2, hh, h3, h4] at h
    exact ⟨by simpa using h2, hd, rfl, h3.1, h3.2, h4, h⟩

theorem copied_fields (d : DstCol) (m : ChunkMeta) :
    (copied d m).type = m.type ∧ (copied d m).codec = m.codec ∧ (copied d m).encrypted = m.encrypted ∧
    (copied d m).pages = m.pages ∧ (copied d m).hasDictPage = m.hasDictPage ∧
    (copied d m).columnIndexOffset = m.columnIndexOffset ∧ (copied d m).offsetIndexOffset = m.offsetIndexOffset ∧
    (copied d m).rows = m.rows ∧ (copied d m).numValues = m.numValues ∧ (copied d m).nullCount = m.nullCount ∧
    (copied d m).hasMinMax = m.hasMinMax ∧ (copied d m).hasDeprecated = m.hasDeprecated := by
  unfold copied
  cases d.filterBpv <;> simp

/-- the part of the copy predicate that both variants implement -/
theorem copyable_col_core {v : Variant} {g : DstCfg} {d : DstCol} {m : ChunkMeta}
    (h : columnChunkIsCopyable v d m = true) (hg : g.encrypting = false) (hrows : m.rows ≤ g.maxRows)
    (hf : EncStatsFaithful m) : ConformsCore g d (copied d m) := by
  obtain ⟨h1, h2, h3, h4, h5, h6, h7, h8, _⟩ := copyable_col_facts h
  obtain ⟨hs, hdict⟩ := encodingStatsMatch_sound h8
  obtain ⟨c1, c2, c3, c4, c5, c6, c7, c8, c9, _⟩ := copied_fields d m
  refine ⟨by rw [c1, h3], by rw [c2, h4], ⟨by rw [c3, h1], hg, h2⟩, ?_, ?_, (by rw [c7]; exact h7), ?_, by rw [c8]; exact hrows⟩
  · rw [c4]
    intro p hp
    obtain ⟨hne, s, hsm, hpt, henc⟩ := hf.1 p hp
    rcases hs s hsm with ⟨h2', _⟩ | ⟨_, hpt', henc'⟩
    · exact absurd (hpt ▸ h2') hne
    · exact ⟨by rw [← hpt, hpt'], Or.inl (by rw [← henc, henc'])⟩
  · rw [c5]
    rw [hdict]
    cases hdp : m.hasDictPage with
    | true =>
      obtain ⟨s, hsm, hs2⟩ := hf.2.1 hdp
      symm
      exact List.any_eq_true.2 ⟨s, hsm, by simp [hs2]⟩
    | false =>
      symm
      apply Bool.eq_false_iff.2
      intro hany
      obtain ⟨s, hsm, hs2⟩ := List.any_eq_true.1 hany
      have : m.hasDictPage = true := hf.2.2 ⟨s, hsm, by simpa using hs2⟩
      rw [hdp] at this
      cases this
  · cases hb : d.filterBpv with
    | none => simp [copied, hb]
    | some bpv =>
      obtain ⟨hc, hd, hh, f1, f2, f3, f4⟩ := bloomFilterIsCopyable_sound (h5 bpv hb)
      have : copied d m = m := by simp [copied, hb]
      rw [this]
      exact ⟨hd, hh, f1, f2, by rw [f3, hc]; rfl, Or.inl f4⟩

/-- the statistics part: only the repaired predicate establishes it -/
theorem copyable_col_stats {d : DstCol} {m : ChunkMeta}
    (h : columnChunkIsCopyable .repaired d m = true) : ConformsStats d (copied d m) := by
  obtain ⟨_, _, _, _, _, _, _, _, hst⟩ := copyable_col_facts h
  have hst := hst rfl
  obtain ⟨_, _, _, c4, _, c6', _, _, c9, c10, c11, c12⟩ := copied_fields d m
  unfold statisticsSettingsMatch at hst
  by_cases s0 : (d.pageBounds != m.hasColumnIndex) = true
  · simp [s0] at hst
  rw [if_neg s0] at hst
  by_cases s1 : (!d.pageBounds && m.hasMinMax) = true
  · simp [s1] at hst
  by_cases s2 : (d.pageBounds && !m.hasMinMax && decide (m.numValues > m.nullCount)) = true
  · rw [if_neg s1, if_pos s2] at hst; cases hst
  by_cases s3 : (!d.deprecatedStats && m.hasDeprecated) = true
  · rw [if_neg s1, if_neg s2, if_pos s3] at hst; cases hst
  by_cases s4 : (d.deprecatedStats && m.hasMinMax && !m.hasDeprecated) = true
  · rw [if_neg s1, if_neg s2, if_neg s3, if_pos s4] at hst; cases hst
  by_cases s5 : (decide (d.indexLimit > 0) &&
      m.pages.any (fun p => decide (p.minLen > d.indexLimit) || decide (p.maxLen > d.indexLimit))) = true
  · rw [if_neg s1, if_neg s2, if_neg s3, if_neg s4, if_pos s5] at hst; cases hst
  by_cases s6 : (m.pages.any (fun p => if d.pageStats then !p.hasStats && !p.trivialStats else p.hasStats)) = true
  · rw [if_neg s1, if_neg s2, if_neg s3, if_neg s4, if_neg s5, if_pos s6] at hst; cases hst
  simp at s0 s1 s2 s3 s4 s5 s6
  refine ⟨?_, ?_, ?_, ?_, ?_, ?_, ?_⟩
  · rw [c4]
    intro p hp
    have := s6 p hp
    cases hps : d.pageStats with
    | true =>
      simp [hps] at this ⊢
      cases hh : p.hasStats with
      | true => exact Or.inl rfl
      | false => exact Or.inr (this hh)
    | false => simpa [hps] using this
  · rw [c4]
    intro hl p hp
    have := s5 hl p hp
    omega
  · have : (copied d m).hasColumnIndex = m.hasColumnIndex := by
      simp [ChunkMeta.hasColumnIndex, c6']
    rw [this]; exact s0.symm
  · rw [c11]; intro hb
    cases hmm : m.hasMinMax with
    | false => rfl
    | true => exact absurd (s1 hb) (by simp [hmm])
  · rw [c9, c10, c11]; intro hb hn
    cases hmm : m.hasMinMax with
    | true => rfl
    | false => exact absurd (s2 hb hmm) (by omega)
  · rw [c12]; intro hb
    cases hd : m.hasDeprecated with
    | false => rfl
    | true => exact absurd (s3 hb) (by simp [hd])
  · rw [c11, c12]; intro hb hmm
    exact s4 hb hmm

/-! ### glue for the property theorems -/

theorem allCopyable_every {v : Variant} {g : DstCfg} (P : DstCol → ChunkMeta → Prop)
    (hP : ∀ d m, columnChunkIsCopyable v d m = true → EncStatsFaithful m → m.rows ≤ g.maxRows → P d (copied d m)) :
    ∀ (ds : List DstCol) (cs : List Chunk), allCopyable v ds cs = true →
      (∀ m ∈ fileMetas cs, EncStatsFaithful m ∧ m.rows ≤ g.maxRows) →
      Forall2 (fun d ch => ∃ m, ch = Chunk.file m ∧ P d (copied d m)) ds cs
  | [], [], _, _ => .nil
  | [], _ :: _, h, _ => by simp [allCopyable] at h
  | _ :: _, [], h, _ => by simp [allCopyable] at h
  | d :: ds, c :: cs, h, hm => by
    cases c with
    | file m =>
      simp [allCopyable] at h
      have hm0 := hm m (by simp [fileMetas])
      refine .cons ⟨m, rfl, hP d m h.1 hm0.1 hm0.2⟩ (allCopyable_every P hP ds cs h.2 ?_)
      intro m' hm'
      exact hm m' (by simp [fileMetas, hm'])
    | buffer => simp [allCopyable] at h
    | range b => simp [allCopyable] at h
    | other => simp [allCopyable] at h

theorem verbatim_copyable {v : Variant} {g : DstCfg} {rg : RG α}
    (h : choosePathV v g rg = .verbatim) : copyable v g rg = true := by
  unfold choosePathV at h
  split at h
  · cases h
  · by_cases hc : copyable v g rg = true
    · exact hc
    · simp [hc] at h
      split at h <;> cases h

theorem copyable_parts {v : Variant} {g : DstCfg} {rg : RG α} (h : copyable v g rg = true) :
    g.encrypting = false ∧ rg.numRows ≤ g.maxRows ∧ allCopyable v g.cols rg.chunks = true := by
  have hmax := copyable_maxRows h
  unfold copyable at h
  by_cases h1 : g.disableCopy = true
  · simp [h1] at h
  by_cases h2 : g.encrypting = true
  · simp [h1, h2] at h
  by_cases h3 : rg.numRows > g.maxRows
  · omega
  by_cases h4 : (!chunkTransparent rg) = true
  · simp [h1, h2, h3, h4] at h
  by_cases h5 : rg.chunks.length ≠ g.cols.length
  · simp [h1, h2, h3, h4, h5] at h
  simp [h1, h2, h3, h4, h5] at h
  exact ⟨by simpa using h2, hmax, h⟩

theorem outputOf_append (v : Variant) (a b : List (Step α)) : outputOf v (a ++ b) = outputOf v a ++ outputOf v b := by
  simp [outputOf, List.flatMap_append]

theorem outputOf_batches (v : Variant) (F : Batch α → List (Step α)) :
    ∀ (bs : List (Batch α)), (∀ b ∈ bs, outputOf v (F b) = b.members.flatMap (RG.rowsOf v)) →
      outputOf v (bs.flatMap F) = (bs.flatMap Batch.members).flatMap (RG.rowsOf v)
  | [], _ => by simp [outputOf]
  | b :: bs, h => by
    rw [List.flatMap_cons, outputOf_append, List.flatMap_cons, List.flatMap_append,
      h b (by simp), outputOf_batches v F bs (fun b' hb' => h b' (by simp [hb']))]

theorem flatMap_congr' {β γ : Type} {f g : β → List γ} :
    ∀ (l : List β), (∀ x ∈ l, f x = g x) → l.flatMap f = l.flatMap g
  | [], _ => rfl
  | x :: l, h => by
    rw [List.flatMap_cons, List.flatMap_cons, h x (by simp), flatMap_congr' l (fun y hy => h y (by simp [hy]))]


end PqModel.CopyPath
