import PqModel.BloomPlace

/-! # `bloom_filter_length` of deferred filters (C02)

A flag on the MIRROR of `writeDeferredBloomFilters` (`PqModel.BloomPlace.flushDeferred`,
writer.go:1299-1320): where `bloomFilterOffset := w.writer.offset` is taken. Inside the loop (the
code as it is) every filter's `BloomFilterLength` is the length of its own section
(`BloomPlace.flushDeferred_spec`: `l.len = sect.length`); taken once before the loop (seeded slip
C02-5a) the offsets stay right and every length after the first is measured from the start of the
FIRST deferred filter. The SPEC clause the file reader of C02 applies is `Spec.bloomSection`:
`bloom_filter_length` = thrift header + `numBytes` of the section found at `bloom_filter_offset`. -/
namespace PqModel.BloomPlace

/-- MIRROR with the SEEDED slip C02-5a: `first` = `w.writer.offset` read once before the loop;
    `BloomFilterOffset = w.writer.offset` (right), `BloomFilterLength = w.writer.offset - first`
    after the buffer is appended -/
def flushDeferredHoisted (first : Nat) : List (Nat × Nat × Nat) → Nat → MetaTab → Nat × MetaTab
  | [], off, m => (off, m)
  | (rg, col, len) :: rest, off, m =>
    flushDeferredHoisted first rest (off + len) (setLoc m rg col ⟨off, off + len - first⟩)

def stepHoisted (s : PState) : Ev → PState
  | .flush =>
    let r := flushDeferredHoisted s.offset s.deferred s.offset s.tab
    { offset := r.1, deferred := [], tab := r.2 }
  | e => step s e

/-- with a single deferred filter the slip is invisible: the two loops record the same -/
theorem flushDeferredHoisted_single (rg col len off : Nat) (m : MetaTab) :
    flushDeferredHoisted off [(rg, col, len)] off m = flushDeferred [(rg, col, len)] off m := by
  simp only [flushDeferredHoisted, flushDeferred]
  congr 2
  congr 1
  omega

end PqModel.BloomPlace
