import PqModel.Compare

/-! # C09 — MIRROR of the planner of `MergeRowGroups`: row-group ranges over several pages
    (merge.go:216-315), segment detection (merge.go:155-214) and segment refinement
    (merge_refine.go: `newCutLookups`, `cutAbove`, `cutBelow`, `refineSegment`)

Level: a row group is the page statistics of its sorting columns (`PageStat`: null page, has nulls,
min, max of integer keys), the first-row indexes of the pages of the first sorting column and its
number of rows. Keys are `KeyRow`s compared with `cmpRows` (compare.go). `sort.Search` is modelled
by its contract (first index whose predicate holds), `slices.SortFunc` on at most 12 elements and
`slices.SortStableFunc` by stable insertion. -/
namespace PqModel.Refine
open PqModel.Compare

structure PageStat where
  nullPage : Bool
  hasNulls : Bool
  min : Option Int
  max : Option Int
deriving Inhabited

structure Target where
  idx : Nat
  numRows : Nat
  /-- pages of every sorting column -/
  cols : List (List PageStat)
  /-- `OffsetIndex.FirstRowIndex` of the pages of the first sorting column -/
  firstRows : List Nat
  /-- merge.go `rowGroupInterleavesChunks`: the row group is (or wraps) a merged row group, whose
      `Rows()` interleave the rows of its members while its column chunks, hence its pages, list the
      members one after the other -/
  interleaved : Bool := false
  /-- merge_refine.go `rowGroupDropsRows`: the row group is (or wraps) a deduplicating view, whose
      `Rows()` leave out rows that its column chunks hold -/
  dropsRows : Bool := false
  /-- row_range.go `supportsRowRanges`: `rowRangeOf` can present a range of the rows of the row group -/
  supportsRanges : Bool := true
deriving Inhabited

/-- position of a first-column value in sort order -/
def ord (desc : Bool) (v : Int) : Int := if desc then -v else v

/-- merge.go (rowGroupRangeOfSortedColumns, interleaved row groups): every non-null page is consulted,
    the earliest first bound and the latest last bound in sort order are retained. (`last = none`
    cannot happen for a page index whose non-null pages carry both bounds; the model takes the first
    bound it meets.) -/
def scanRange (desc : Bool) (pages : List PageStat) (first : Int) (last : Option Int) : Int × Option Int :=
  pages.foldl (fun acc p =>
    if p.nullPage then acc else
    ((match (if desc then p.max else p.min) with
      | some v => if ord desc v < ord desc acc.1 then v else acc.1
      | none => acc.1),
     (match (if desc then p.min else p.max), acc.2 with
      | some v, some a => if ord desc v > ord desc a then some v else some a
      | some v, none => some v
      | none, a => a))) (first, last)

/-- merge.go:259-291 for one sorting column: bound of the first / last row from the first / last
    non-null page; `none` = "no valid pages" -/
def colRange (s : ColSpec) (pages : List PageStat) (interleaved : Bool := false) : Option (Option Int × Option Int) :=
  let firstOf := fun (p : PageStat) => if p.nullPage then none else (if s.desc then p.max else p.min)
  let lastOf := fun (p : PageStat) => if p.nullPage then none else (if s.desc then p.min else p.max)
  match pages.findSome? firstOf with
  | none => none
  | some first0 =>
    let last0 := pages.reverse.findSome? lastOf
    let first := if interleaved then (scanRange s.desc pages first0 last0).1 else first0
    let last := if interleaved then (scanRange s.desc pages first0 last0).2 else last0
    -- merge.go:297-309: the bound on the side of the nulls is null when the column holds nulls
    if pages.any (fun p => p.nullPage || p.hasNulls) then
      if s.nullsFirst then some (none, last) else some (some first, none)
    else some (some first, last)

/-- merge.go:216-315 `rowGroupRangeOfSortedColumns` -/
def rowGroupRange (interleaved : Bool := false) : List ColSpec → List (List PageStat) → Option (KeyRow × KeyRow)
  | [], _ => some ([], [])
  | s :: ss, pages :: rest =>
    if pages.isEmpty then none else
    match colRange s pages interleaved, rowGroupRange interleaved ss rest with
    | some (a, b), some (mn, mx) => some (a :: mn, b :: mx)
    | _, _ => none
  | _ :: _, [] => none

structure RG where
  t : Target
  lo : KeyRow
  hi : KeyRow
deriving Inhabited

/-- insertion step of a stable insertion sort: `x` moves left past the strictly greater elements -/
def insertBy {β : Type} (lt : β → β → Bool) (x : β) : List β → List β
  | [] => [x]
  | y :: ys => if lt x y then x :: y :: ys else y :: insertBy lt x ys

def sortBy {β : Type} (lt : β → β → Bool) (l : List β) : List β := l.foldl (fun acc x => insertBy lt x acc) []

/-- merge.go:192-212 -/
def sweep (c : KeyRow → KeyRow → Int) : List RG → List RG → KeyRow → List (List RG)
  | [], cur, _ => [cur.reverse]
  | r :: rs, cur, mx =>
    if c r.lo mx ≤ 0 then sweep c rs (r :: cur) (if c r.hi mx > 0 then r.hi else mx)
    else cur.reverse :: sweep c rs [r] r.hi

def rangesOf (specs : List ColSpec) : List Target → Option (List RG)
  | [] => some []
  | t :: rest =>
    if t.numRows = 0 then rangesOf specs rest
    else
      match rowGroupRange t.interleaved specs t.cols, rangesOf specs rest with
      | some (a, b), some rs => some ({ t := t, lo := a, hi := b } :: rs)
      | _, _ => none

/-- merge.go:155-214: `none` = bounds unavailable (everything is merged as one segment) -/
def segmentsOf (specs : List ColSpec) (ts : List Target) : Option (List (List RG)) :=
  match rangesOf specs ts with
  | none => none
  | some [] => some []
  | some [r] => some [[r]]
  | some rs =>
    match sortBy (fun a b => decide (cmpRows specs a.lo b.lo < 0)) rs with
    | [] => some []
    | r :: rest => some (sweep (cmpRows specs) rest [r] r.hi)

/-! ## cut lookups (merge_refine.go:116-193) -/

/-- first-column page bounds in sort order: (earliest, latest) -/
def pageBounds (desc : Bool) (p : PageStat) : Int × Int :=
  if desc then (ord desc (p.max.getD 0), ord desc (p.min.getD 0)) else (p.min.getD 0, p.max.getD 0)

/-- `sort.Search(n, f)`: the first index whose predicate holds, `n` if none -/
def searchFirst {β : Type} (f : β → Bool) : List β → Nat
  | [] => 0
  | x :: xs => if f x then 0 else searchFirst f xs + 1

/-- merge_refine.go:116-137: the lookups exist iff the first sorting column has pages, an offset
    index of the same length and no null page. `strict = false` is the code as it is (only pages that
    are entirely null are refused); `strict = true` also refuses pages that hold some nulls
    (proposed_fixes/C09_cut_lookups_nulls.diff). An interleaved row group has no lookups: they search
    the pages and turn them into row positions, both of which need the pages in row order; neither
    has a deduplicating view: the row positions of the offset index count the rows of the chunks; nor
    a row group whose rows `rowRangeOf` cannot slice (`supportsRowRanges`, library fix 35e9777). -/
def hasCuts (strict : Bool) (t : Target) : Bool :=
  match t.cols with
  | [] => false
  | pages :: _ => !pages.isEmpty && pages.length == t.firstRows.length &&
      !pages.any (fun p => p.nullPage || (strict && p.hasNulls)) && !t.interleaved && !t.dropsRows && t.supportsRanges

def pageEnd (t : Target) (p : Nat) : Nat :=
  if p + 1 < t.firstRows.length then t.firstRows.getD (p + 1) 0 else t.numRows

/-- merge_refine.go:161-173 -/
def cutAbove (desc : Bool) (t : Target) (key : KeyRow) : Nat :=
  match key.getD 0 none with
  | none => t.numRows
  | some kv =>
    let p := searchFirst (fun pg : PageStat => decide ((pageBounds desc pg).1 > ord desc kv)) (t.cols.getD 0 [])
    if p = 0 then 0 else pageEnd t (p - 1)

/-- merge_refine.go:178-190 -/
def cutBelow (desc : Bool) (t : Target) (key : KeyRow) : Nat :=
  match key.getD 0 none with
  | none => 0
  | some kv =>
    let p := searchFirst (fun pg : PageStat => decide ((pageBounds desc pg).2 ≥ ord desc kv)) (t.cols.getD 0 [])
    if p = (t.cols.getD 0 []).length then t.numRows else t.firstRows.getD p 0

/-! ## refineSegment (merge_refine.go:200-365) -/

structure Part where
  /-- position of the row group in the segment -/
  index : Nat
  off : Nat
  len : Nat
deriving DecidableEq, Inhabited

structure Event where
  key : KeyRow
  start : Bool
  index : Nat
deriving Inhabited

/-- merge_refine.go:218-233: by key, starts before ends -/
def eventLt (c : KeyRow → KeyRow → Int) (a b : Event) : Bool :=
  if c a.key b.key ≠ 0 then decide (c a.key b.key < 0) else a.start && !b.start

structure St where
  plan : List (List Part)
  region : List Part
  cursors : List Nat
  active : List Nat
  sliced : Bool
  pendingLone : Option Nat
  pendingLeftK : Option KeyRow

def minStreamedRegionRows : Nat := 1024

/-- merge_refine.go:271-285 -/
def closeRegion (s : St) : St :=
  match s.region with
  | [] => s
  | [p] => { s with plan := s.plan ++ [[p]], region := [] }
  | ps => { s with plan := s.plan ++ [sortBy (fun a b => decide (a.index < b.index)) ps], region := [] }

/-- merge_refine.go:258-269 -/
def remainder (ts : List RG) (s : St) (i : Nat) : St :=
  let n := (ts.getD i default).t.numRows
  let off := s.cursors.getD i 0
  if off ≥ n then s
  else { s with cursors := s.cursors.set i n, region := s.region ++ [{ index := i, off := off, len := n - off }] }

/-- merge_refine.go:298-301, 306: start of the lone slice of row group `i` -/
def loneOff (desc : Bool) (t : Target) (s : St) (i : Nat) : Nat :=
  max (match s.pendingLeftK with | some k => cutAbove desc t k | none => 0) (s.cursors.getD i 0)

/-- merge_refine.go:302-305, 307: end of the lone slice -/
def loneEnd (desc : Bool) (t : Target) (rightK : Option KeyRow) : Nat :=
  min (match rightK with | some k => cutBelow desc t k | none => t.numRows) t.numRows

/-- merge_refine.go:312-326: the rows of `i` before the slice join the region, the region is closed,
    the slice `[off, e)` becomes a segment of its own -/
def sliceLone (s : St) (i off e : Nat) : St :=
  let s2 : St := if off > s.cursors.getD i 0 then
      { s with region := s.region ++ [{ index := i, off := s.cursors.getD i 0, len := off - s.cursors.getD i 0 }] }
    else s
  { closeRegion s2 with plan := (closeRegion s2).plan ++ [[{ index := i, off := off, len := e - off }]],
                        cursors := (closeRegion s2).cursors.set i e, sliced := true }

/-- merge_refine.go:291-327 -/
def resolveLone (strict desc : Bool) (ts : List RG) (s : St) (rightK : Option KeyRow) : St :=
  match s.pendingLone with
  | none => s
  | some i =>
    if !hasCuts strict (ts.getD i default).t then { s with pendingLone := none }
    else if loneEnd desc (ts.getD i default).t rightK <
        loneOff desc (ts.getD i default).t s i + minStreamedRegionRows then { s with pendingLone := none }
    else sliceLone { s with pendingLone := none } i (loneOff desc (ts.getD i default).t s i)
      (loneEnd desc (ts.getD i default).t rightK)

/-- merge_refine.go:329-358: one event of the sweep -/
def stepEvent (strict desc : Bool) (ts : List RG) (s : St) (ev : Event) : St :=
  if ev.start then
    let s := if s.pendingLone.isSome then resolveLone strict desc ts s (some ev.key) else s
    let s := { s with active := s.active ++ [ev.index] }
    if s.active.length = 1 then { s with pendingLone := some ev.index, pendingLeftK := none } else s
  else
    let s := if s.pendingLone = some ev.index then resolveLone strict desc ts s none else s
    let s := { s with active := s.active.erase ev.index }
    let s := remainder ts s ev.index
    if s.active.length = 1 && s.pendingLone.isNone then
      { s with pendingLone := s.active.head?, pendingLeftK := some ev.key }
    else s

def eventsOf (ts : List RG) : List Event :=
  (List.range ts.length).flatMap (fun i =>
    [{ key := (ts.getD i default).lo, start := true, index := i },
     { key := (ts.getD i default).hi, start := false, index := i }])

/-- merge_refine.go:242-256 -/
def St.init (n : Nat) : St :=
  { plan := [], region := [], cursors := List.replicate n 0, active := [], sliced := false,
    pendingLone := none, pendingLeftK := none }

/-- merge_refine.go:200-365: `none` = no refinement applies -/
def refineSegment (strict : Bool) (specs : List ColSpec) (ts : List RG) : Option (List (List Part)) :=
  if ts.length < 2 then none else
  let desc := (specs.getD 0 { desc := false, nullsFirst := false }).desc
  let events := sortBy (eventLt (cmpRows specs)) (eventsOf ts)
  let s := closeRegion (events.foldl (stepEvent strict desc ts) (St.init ts.length))
  if s.sliced then some s.plan else none

/-- merge.go:96-119: the plan of `MergeRowGroups` without duplicate dropping: for every final
    segment the number of row groups it merges and its number of rows -/
def planOf (strict : Bool) (specs : List ColSpec) (ts : List Target) : List (Nat × Nat) :=
  match segmentsOf specs ts with
  | none => [(ts.length, (ts.map (·.numRows)).sum)]
  | some segs =>
    segs.flatMap (fun seg =>
      match seg with
      | [r] => [(1, r.t.numRows)]
      | _ =>
        match refineSegment strict specs seg with
        | some plan => plan.map (fun parts => (parts.length, (parts.map (·.len)).sum))
        | none => [(seg.length, (seg.map (·.t.numRows)).sum)])

end PqModel.Refine
