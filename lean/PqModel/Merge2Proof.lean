import PqModel.MergeRun

/-! # C09 — the two-input reader `mergedRowReader2`: every `ReadRows` call is an `Emits` schedule -/
namespace PqModel.Merge

/-! ## buffers -/

theorem Buf.read_rem {b b' : Buf} (h : b.read = some b') : b'.rem = b.rem := by
  unfold Buf.read at h
  split at h
  · cases h
  · rename_i x xs hsrc
    simp only [Option.some.injEq] at h
    subst h
    simp only [Buf.rem, List.append_assoc, List.take_append_drop]

theorem Buf.read_none {b : Buf} (h : b.read = none) : b.src = [] := by
  unfold Buf.read at h
  split at h
  · assumption
  · cases h

theorem Buf.read_win {b b' : Buf} (h : b.read = some b') : b'.win ≠ [] := by
  unfold Buf.read at h
  split at h
  · cases h
  · rename_i x xs hsrc
    simp only [Option.some.injEq] at h
    subst h
    simp only [ne_eq, List.append_eq_nil_iff, List.take_eq_nil_iff, not_and, not_or]
    intro _
    exact ⟨by omega, by simp [hsrc]⟩

theorem Buf.advance_rem (b : Buf) (n : Nat) :
    (b.advance n).1.rem = b.win.drop n ++ b.src := by
  simp [Buf.advance, Buf.rem]

theorem Buf.rem_split (b : Buf) (n : Nat) : b.rem = b.win.take n ++ (b.win.drop n ++ b.src) := by
  rw [← List.append_assoc, List.take_append_drop]; rfl

theorem Buf.advance_more (b : Buf) (n : Nat) : (b.advance n).2 = true ↔ (b.advance n).1.win ≠ [] := by
  simp [Buf.advance]

theorem Buf.head_rem {b : Buf} (h : b.win ≠ []) : b.rem.head? = some b.head := by
  cases hw : b.win with
  | nil => exact absurd hw h
  | cons x xs => simp [Buf.rem, Buf.head, hw]

theorem Buf.win_eq {b : Buf} (h : b.win ≠ []) : b.win = b.head :: b.win.drop 1 := by
  cases hw : b.win with
  | nil => exact absurd hw h
  | cons x xs => simp [Buf.head, hw]

theorem sortedK_sublist {l l' : List Row} (h : l'.Sublist l) (hs : SortedK l) : SortedK l' :=
  List.Pairwise.sublist h hs

theorem Buf.win_sorted {b : Buf} (hs : SortedK b.rem) : SortedK b.win :=
  sortedK_sublist (by simp [Buf.rem]) hs

/-- emitting the first `n` buffered rows of buffer `i`, all below the heads of the other inputs -/
theorem emits_advance (bufs : List Buf) (i : Nat) (c : Buf) (n : Nat) (hc : bufs[i]? = some c)
    (hmin : ∀ x ∈ c.win.take n, ∀ (j : Nat) (c' : Buf) (y : Row), j ≠ i → bufs[j]? = some c' →
      c'.rem.head? = some y → x.key ≤ y.key) :
    Emits (bufs.map Buf.rem) (c.win.take n) ((bufs.set i (c.advance n).1).map Buf.rem) := by
  have h := emits_prefix (ins := bufs.map Buf.rem) (i := i) (c.win.take n) (c.win.drop n ++ c.src)
    (by simp [hc, Buf.rem_split c n])
    (by
      intro x hx j l y hji hj hy
      simp only [List.getElem?_map, Option.map_eq_some_iff] at hj
      obtain ⟨c', hc', rfl⟩ := hj
      exact hmin x hx j c' y hji hc' hy)
  have e : (bufs.set i (c.advance n).1).map Buf.rem = (bufs.map Buf.rem).set i (c.win.drop n ++ c.src) := by
    rw [List.map_set]
    simp [Buf.advance, Buf.rem]
  rw [e]; exact h

/-! ## runs -/

theorem emitRunLen_le (m : Nat) (r : Buf) (bound : Row) (hm : m ≠ 0) (hw : r.win ≠ []) (hs : SortedK r.win) :
    1 ≤ emitRunLen m r bound ∧ emitRunLen m r bound ≤ (r.win.take m).length := by
  have hlen : 1 ≤ (r.win.take m).length := by
    simp only [List.length_take]
    have : 0 < r.win.length := List.length_pos_iff.mpr hw
    omega
  unfold emitRunLen
  split
  · have hs' : SortedK ((r.win.take m).drop 1) :=
      sortedK_sublist ((List.drop_sublist _ _).trans (List.take_sublist _ _)) hs
    have := (runLength_spec' _ bound (-1) hs').1
    simp only [List.length_drop] at this
    omega
  · omega

/-- every row of the run emitted by `emitRun` is strictly below the bound -/
theorem emitRun_lt (m : Nat) (r : Buf) (bound : Row) (hw : r.win ≠ []) (hs : SortedK r.win)
    (hhead : r.head.key < bound.key) :
    ∀ x ∈ (r.win.take m).take (emitRunLen m r bound), x.key < bound.key := by
  intro x hx
  unfold emitRunLen at hx
  have hwin := Buf.win_eq hw
  split at hx
  · rename_i hgt
    have hs' : SortedK ((r.win.take m).drop 1) :=
      sortedK_sublist ((List.drop_sublist _ _).trans (List.take_sublist _ _)) hs
    have hspec := (runLength_spec' _ bound (-1) hs').2.1
    generalize runLength ((r.win.take m).drop 1) bound (-1) = rl at hx hspec
    have hm : m ≠ 0 := by
      intro h; subst h; simp at hgt
    obtain ⟨m', rfl⟩ := Nat.exists_eq_succ_of_ne_zero hm
    have e : r.win.take (m' + 1) = r.head :: (r.win.drop 1).take m' := by
      conv => lhs; rw [hwin]
      simp
    rw [e] at hx hspec
    rw [Nat.add_comm 1 rl] at hx
    simp only [List.take_succ_cons, List.mem_cons, List.drop_succ_cons, List.drop_zero] at hx hspec
    rcases hx with rfl | hx
    · exact hhead
    · exact leMax_neg.mp (hspec x hx)
  · have hm : m ≠ 0 := by
      intro h; subst h; simp at hx
    obtain ⟨m', rfl⟩ := Nat.exists_eq_succ_of_ne_zero hm
    have e : r.win.take (m' + 1) = r.head :: (r.win.drop 1).take m' := by
      conv => lhs; rw [hwin]
      simp
    rw [e] at hx
    simp at hx
    subst hx; exact hhead


/-! ## the two-reader loop -/

theorem emits2_left (a b : Buf) (n : Nat)
    (h : ∀ x ∈ a.win.take n, ∀ y, b.rem.head? = some y → x.key ≤ y.key) :
    Emits [a.rem, b.rem] (a.win.take n) [(a.advance n).1.rem, b.rem] := by
  have := emits_advance [a, b] 0 a n rfl (by
    intro x hx j c' y hj hc' hy
    match j, hj, hc' with
    | 1, _, hc' =>
      simp at hc'; subst hc'
      exact h x hx y hy
    | j + 2, _, hc' => simp at hc')
  simpa using this

theorem emits2_right (a b : Buf) (n : Nat)
    (h : ∀ x ∈ b.win.take n, ∀ y, a.rem.head? = some y → x.key ≤ y.key) :
    Emits [a.rem, b.rem] (b.win.take n) [a.rem, (b.advance n).1.rem] := by
  have := emits_advance [a, b] 1 b n rfl (by
    intro x hx j c' y hj hc' hy
    match j, hj, hc' with
    | 0, _, hc' =>
      simp at hc'; subst hc'
      exact h x hx y hy
    | j + 2, _, hc' => simp at hc')
  simpa using this

theorem Buf.take_one {b : Buf} (h : b.win ≠ []) : b.win.take 1 = [b.head] := by
  rw [Buf.win_eq h]; simp

theorem Buf.advance_sorted {b : Buf} (n : Nat) (hs : SortedK b.rem) : SortedK (b.advance n).1.rem := by
  rw [Buf.advance_rem]
  refine sortedK_sublist ?_ hs
  simp only [Buf.rem]
  exact List.Sublist.append (List.drop_sublist _ _) (List.Sublist.refl _)

theorem Buf.head_le_rem {b : Buf} (hw : b.win ≠ []) (hs : SortedK b.rem) :
    ∀ y ∈ b.rem, b.head.key ≤ y.key := fun _ hy => sortedK_head_le hs (Buf.head_rem hw) hy

/-- the head of what is left after consuming buffered rows is above the old head -/
theorem Buf.head_le_advance {b : Buf} (hw : b.win ≠ []) (hs : SortedK b.rem) (n : Nat) (y : Row)
    (hy : (b.advance n).1.rem.head? = some y) : b.head.key ≤ y.key := by
  apply Buf.head_le_rem hw hs
  rw [Buf.advance_rem] at hy
  have hm : y ∈ b.win.drop n ++ b.src := List.mem_of_mem_head? hy
  simp only [Buf.rem, List.mem_append] at hm ⊢
  rcases hm with hm | hm
  · exact Or.inl (List.mem_of_mem_drop hm)
  · exact Or.inr hm

theorem emitRun_fst (m : Nat) (r : Buf) (bound : Row) (hm : m ≠ 0) (hw : r.win ≠ []) (hs : SortedK r.win) :
    (emitRun m r bound).1 = r.win.take (emitRunLen m r bound) := by
  have h := (emitRunLen_le m r bound hm hw hs).2
  simp only [List.length_take] at h
  simp only [emitRun, List.take_take]
  congr 1; omega

theorem M2.loop_emits : ∀ (f m : Nat) (a b : Buf) (prev : Int) (streak : Nat),
    a.win ≠ [] → b.win ≠ [] → SortedK a.rem → SortedK b.rem →
    Emits [a.rem, b.rem] (M2.loop f m a b prev streak).1
      [(M2.loop f m a b prev streak).2.1.rem, (M2.loop f m a b prev streak).2.2.1.rem]
  | 0, m, a, b, prev, streak, _, _, _, _ => by simp only [M2.loop]; exact Emits.nil
  | f + 1, m, a, b, prev, streak, ha, hb, sa, sb => by
    simp only [M2.loop]
    generalize (if prev < 0 then streak + 1 else 0) = s1
    generalize (if prev > 0 then streak + 1 else 0) = s2
    split
    · exact Emits.nil
    rename_i hm
    have hbh := Buf.head_rem hb
    have hah := Buf.head_rem ha
    split
    · -- r0 strictly first
      rename_i hlt
      have hlt' := cmp_lt.mp hlt
      split
      · -- run mode
        have hfst := emitRun_fst m a b.head hm ha (Buf.win_sorted sa)
        have hrun := emitRun_lt m a b.head ha (Buf.win_sorted sa) hlt'
        have hE : Emits [a.rem, b.rem] (emitRun m a b.head).1 [(emitRun m a b.head).2.1.rem, b.rem] := by
          rw [hfst]
          refine emits2_left a b _ ?_
          intro x hx y hy
          rw [hbh] at hy; cases hy
          have := hrun x (by
            have h := (emitRunLen_le m a b.head hm ha (Buf.win_sorted sa)).2
            simp only [List.length_take] at h
            simp only [List.take_take]
            rw [Nat.min_eq_left (by omega)]; exact hx)
          omega
        split
        · rename_i hmore
          refine Emits.trans hE ?_
          exact M2.loop_emits f _ _ b _ _ ((Buf.advance_more a _).mp hmore) hb (Buf.advance_sorted _ sa) sb
        · exact hE
      · have hE : Emits [a.rem, b.rem] [a.head] [(a.advance 1).1.rem, b.rem] := by
          rw [← Buf.take_one ha]
          refine emits2_left a b 1 ?_
          intro x hx y hy
          rw [Buf.take_one ha] at hx
          rw [hbh] at hy; cases hy
          simp at hx; subst hx; omega
        split
        · rename_i hmore
          exact Emits.trans hE (M2.loop_emits f _ _ b _ _ ((Buf.advance_more a _).mp hmore) hb (Buf.advance_sorted _ sa) sb)
        · exact hE
    · rename_i hnlt
      split
      · -- r1 strictly first
        rename_i hgt
        have hgt' := cmp_gt.mp hgt
        split
        · have hfst := emitRun_fst m b a.head hm hb (Buf.win_sorted sb)
          have hrun := emitRun_lt m b a.head hb (Buf.win_sorted sb) hgt'
          have hE : Emits [a.rem, b.rem] (emitRun m b a.head).1 [a.rem, (emitRun m b a.head).2.1.rem] := by
            rw [hfst]
            refine emits2_right a b _ ?_
            intro x hx y hy
            rw [hah] at hy; cases hy
            have := hrun x (by
              have h := (emitRunLen_le m b a.head hm hb (Buf.win_sorted sb)).2
              simp only [List.length_take] at h
              simp only [List.take_take]
              rw [Nat.min_eq_left (by omega)]; exact hx)
            omega
          split
          · rename_i hmore
            refine Emits.trans hE ?_
            exact M2.loop_emits f _ a _ _ _ ha ((Buf.advance_more b _).mp hmore) sa (Buf.advance_sorted _ sb)
          · exact hE
        · have hE : Emits [a.rem, b.rem] [b.head] [a.rem, (b.advance 1).1.rem] := by
            rw [← Buf.take_one hb]
            refine emits2_right a b 1 ?_
            intro x hx y hy
            rw [Buf.take_one hb] at hx
            rw [hah] at hy; cases hy
            simp at hx; subst hx; omega
          split
          · rename_i hmore
            exact Emits.trans hE (M2.loop_emits f _ a _ _ _ ha ((Buf.advance_more b _).mp hmore) sa (Buf.advance_sorted _ sb))
          · exact hE
      · -- tie: r0 then r1
        rename_i hngt
        have heq : a.head.key = b.head.key := by
          have h1 : ¬ a.head.key < b.head.key := fun h => hnlt (cmp_lt.mpr h)
          have h2 : ¬ b.head.key < a.head.key := fun h => hngt (cmp_gt.mpr h)
          omega
        have hE0 : Emits [a.rem, b.rem] [a.head] [(a.advance 1).1.rem, b.rem] := by
          rw [← Buf.take_one ha]
          refine emits2_left a b 1 ?_
          intro x hx y hy
          rw [Buf.take_one ha] at hx
          rw [hbh] at hy; cases hy
          simp at hx; subst hx; omega
        have hE1 : Emits [(a.advance 1).1.rem, b.rem] [b.head] [(a.advance 1).1.rem, (b.advance 1).1.rem] := by
          rw [← Buf.take_one hb]
          refine emits2_right (a.advance 1).1 b 1 ?_
          intro x hx y hy
          rw [Buf.take_one hb] at hx
          simp at hx; subst hx
          have := Buf.head_le_advance ha sa 1 y hy
          omega
        split
        · exact hE0
        · split
          · rename_i hmore
            simp only [Bool.and_eq_true] at hmore
            have := M2.loop_emits f (m - 2) (a.advance 1).1 (b.advance 1).1 0 0
              ((Buf.advance_more a _).mp hmore.1) ((Buf.advance_more b _).mp hmore.2)
              (Buf.advance_sorted _ sa) (Buf.advance_sorted _ sb)
            exact Emits.trans hE0 (Emits.trans hE1 this)
          · exact Emits.trans hE0 hE1


/-! ## one `ReadRows` call of `mergedRowReader2` -/

def optRem (o : Option Buf) : List Row := (o.map Buf.rem).getD []

def M2.rems (s : M2) : List (List Row) := [optRem s.r0, optRem s.r1]

/-- a reader that has not been initialised has nothing buffered (true of `M2.new` on fresh buffers) -/
def M2.Ok (s : M2) : Prop :=
  s.initialized = false → (∀ b, s.r0 = some b → b.win = []) ∧ (∀ b, s.r1 = some b → b.win = [])

theorem refill_rem (o : Option Buf) : optRem (refill o) = optRem o := by
  cases o with
  | none => rfl
  | some b =>
    simp only [refill]
    split
    · rename_i he
      have hw : b.win = [] := by simpa [Buf.empty] using he
      cases hr : b.read with
      | none => simp [optRem, Buf.rem, hw, Buf.read_none hr]
      | some b' => simp [optRem, Buf.read_rem hr]
    · rfl

theorem refill_win {o : Option Buf} {b : Buf} (h : refill o = some b) : b.win ≠ [] := by
  cases o with
  | none => simp [refill] at h
  | some c =>
    simp only [refill] at h
    split at h
    · exact Buf.read_win h
    · rename_i he
      cases h
      simpa [Buf.empty] using he

theorem bind_read_rem (o : Option Buf) (h : ∀ b, o = some b → b.win = []) :
    optRem (o.bind Buf.read) = optRem o := by
  cases o with
  | none => rfl
  | some b =>
    have hw := h b rfl
    simp only [Option.bind_some]
    cases hr : b.read with
    | none => simp [optRem, Buf.rem, hw, Buf.read_none hr]
    | some b' => simp [optRem, Buf.read_rem hr]

theorem emitSingle_spec : ∀ (m : Nat) (b : Buf), b.win ≠ [] →
    (emitSingle m b).1 = b.win.take m ∧ (emitSingle m b).2.rem = b.win.drop m ++ b.src
  | 0, b, _ => by simp [emitSingle, Buf.rem]
  | m + 1, b, hw => by
    have hwin := Buf.win_eq hw
    simp only [emitSingle]
    split
    · rename_i hmore
      have ih := emitSingle_spec m (b.advance 1).1 ((Buf.advance_more b 1).mp hmore)
      simp only [ih]
      constructor
      · conv => rhs; rw [hwin]
        simp [Buf.advance]
      · conv => rhs; rw [hwin]
        simp [Buf.advance]
    · rename_i hmore
      have : b.win.drop 1 = [] := by
        simpa [Buf.advance] using hmore
      constructor
      · conv => rhs; rw [hwin]
        simp [this]
      · rw [Buf.advance_rem]
        conv => rhs; rw [hwin]
        simp [this]

theorem emits_single_right (b : Buf) (n : Nat) :
    Emits [[], b.rem] (b.win.take n) [[], b.win.drop n ++ b.src] := by
  have := emits_prefix (ins := [[], b.rem]) (i := 1) (b.win.take n) (b.win.drop n ++ b.src)
    (by simp [Buf.rem_split b n]) (by
      intro x _ j l y hj hl hy
      match j, hj, hl with
      | 0, _, hl => simp at hl; subst hl; simp at hy
      | j + 2, _, hl => simp at hl)
  simpa using this

theorem emits_single_left (a : Buf) (n : Nat) :
    Emits [a.rem, []] (a.win.take n) [a.win.drop n ++ a.src, []] := by
  have := emits_prefix (ins := [a.rem, []]) (i := 0) (a.win.take n) (a.win.drop n ++ a.src)
    (by simp [Buf.rem_split a n]) (by
      intro x _ j l y hj hl hy
      match j, hj, hl with
      | 1, _, hl => simp at hl; subst hl; simp at hy
      | j + 2, _, hl => simp at hl)
  simpa using this

/-- one call: an `Emits` schedule from the rows left before to the rows left after; the reader is
    initialised afterwards; `io.EOF` is only reported when nothing is left -/
theorem M2.readRows_emits (s : M2) (m : Nat) (hok : s.Ok) (hs : ∀ l ∈ s.rems, SortedK l) :
    Emits s.rems (s.readRows m).1 (s.readRows m).2.2.rems ∧
    (s.readRows m).2.2.initialized = true ∧
    ((s.readRows m).2.1 = true → ∀ l ∈ (s.readRows m).2.2.rems, l = []) := by
  -- the state after initialisation
  obtain ⟨s1, hs1, hrem1, hinit1⟩ : ∃ s1 : M2,
      s1 = (if s.initialized then s else { s with r0 := s.r0.bind Buf.read, r1 := s.r1.bind Buf.read, initialized := true })
      ∧ s1.rems = s.rems ∧ s1.initialized = true := by
    refine ⟨_, rfl, ?_, ?_⟩
    · split
      · rfl
      · rename_i hi
        have hok' := hok (by simpa using hi)
        simp only [M2.rems, bind_read_rem _ hok'.1, bind_read_rem _ hok'.2]
    · split
      · assumption
      · rfl
  have hunf : s.readRows m =
      (match refill s1.r0, refill s1.r1 with
        | none, none => ([], true, { s1 with r0 := none, r1 := none })
        | none, some b => ((emitSingle m b).1, false, { s1 with r0 := none, r1 := some (emitSingle m b).2 })
        | some a, none => ((emitSingle m a).1, false, { s1 with r0 := some (emitSingle m a).2, r1 := none })
        | some a, some b =>
          ((M2.loop m m a b s1.prev s1.streak).1, false,
            { s1 with r0 := some (M2.loop m m a b s1.prev s1.streak).2.1,
                      r1 := some (M2.loop m m a b s1.prev s1.streak).2.2.1,
                      prev := (M2.loop m m a b s1.prev s1.streak).2.2.2.1,
                      streak := (M2.loop m m a b s1.prev s1.streak).2.2.2.2 })) := by
    rw [hs1]; rfl
  rw [hunf]
  have hr0 := refill_rem s1.r0
  have hr1 := refill_rem s1.r1
  have hrems : s.rems = [optRem (refill s1.r0), optRem (refill s1.r1)] := by
    rw [← hrem1, hr0, hr1]; rfl
  rw [hrems] at hs ⊢
  cases h0 : refill s1.r0 with
  | none =>
    cases h1 : refill s1.r1 with
    | none =>
      simp only [h0, h1] at hs ⊢
      refine ⟨Emits.nil, hinit1, ?_⟩
      intro _ l hl
      simp [M2.rems, optRem] at hl; exact hl
    | some b =>
      simp only [h0, h1] at hs ⊢
      have hb := refill_win h1
      have hsp := emitSingle_spec m b hb
      refine ⟨?_, hinit1, by simp⟩
      simp only [M2.rems, optRem, Option.map_some, Option.getD_some, Option.map_none, Option.getD_none, hsp]
      exact emits_single_right b m
  | some a =>
    cases h1 : refill s1.r1 with
    | none =>
      simp only [h0, h1] at hs ⊢
      have ha := refill_win h0
      have hsp := emitSingle_spec m a ha
      refine ⟨?_, hinit1, by simp⟩
      simp only [M2.rems, optRem, Option.map_some, Option.getD_some, Option.map_none, Option.getD_none, hsp]
      exact emits_single_left a m
    | some b =>
      simp only [h0, h1] at hs ⊢
      have ha := refill_win h0
      have hb := refill_win h1
      refine ⟨?_, hinit1, by simp⟩
      simp only [M2.rems, optRem, Option.map_some, Option.getD_some]
      exact M2.loop_emits m m a b _ _ ha hb (hs _ (by simp [optRem])) (hs _ (by simp [optRem]))

end PqModel.Merge
