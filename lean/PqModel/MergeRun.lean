import PqModel.MergeSpec

/-! # C09 — `runLength` (gallop + binary search) returns the maximal qualifying prefix -/
namespace PqModel.Merge

theorem cmp_mono {a b : Row} (bound : Row) (h : a.key ≤ b.key) : cmp a bound ≤ cmp b bound := by
  unfold cmp
  split <;> split <;> (try split) <;> (try split) <;> omega

theorem leMax_anti {a b : Row} (mx : Int) (bound : Row) (h : a.key ≤ b.key)
    (hb : leMax mx bound b = true) : leMax mx bound a = true := by
  simp only [leMax, decide_eq_true_eq] at *
  exact Int.le_trans (cmp_mono bound h) hb

theorem leMax_iff {mx : Int} {bound w : Row} : leMax mx bound w = true ↔ cmp w bound ≤ mx := by
  simp [leMax]

theorem leMax_zero {bound w : Row} : leMax 0 bound w = true ↔ w.key ≤ bound.key := by
  rw [leMax_iff]; unfold cmp
  split <;> (try split) <;> omega

theorem leMax_neg {bound w : Row} : leMax (-1) bound w = true ↔ w.key < bound.key := by
  rw [leMax_iff]; unfold cmp
  split <;> (try split) <;> omega

theorem cmp_lt {a b : Row} : cmp a b < 0 ↔ a.key < b.key := by
  simp only [cmp]; split <;> (try split) <;> omega

theorem cmp_gt {a b : Row} : cmp a b > 0 ↔ b.key < a.key := by
  simp only [cmp]; split <;> (try split) <;> omega

theorem cmp_eq {a b : Row} : cmp a b = 0 ↔ a.key = b.key := by
  simp only [cmp]; split <;> (try split) <;> omega

theorem sortedK_getD {w : List Row} (hs : SortedK w) {i j : Nat} (hij : i ≤ j) (hj : j < w.length) :
    (w.getD i default).key ≤ (w.getD j default).key := by
  have hi : i < w.length := by omega
  simp only [List.getD_eq_getElem?_getD, List.getElem?_eq_getElem hi, List.getElem?_eq_getElem hj, Option.getD_some]
  rcases Nat.lt_or_ge i j with h | h
  · exact List.pairwise_iff_getElem.mp hs i j hi hj h
  · have : i = j := by omega
    subst this; exact Int.le_refl _

section
variable (w : List Row) (bound : Row) (mx : Int)

/-- the predicate the search is about, by index -/
abbrev Q (j : Nat) : Prop := leMax mx bound (w.getD j default) = true

theorem gallop_spec (hs : SortedK w) : ∀ (f lo hi : Nat), lo < hi → 1 ≤ hi → lo < w.length → Q w bound mx lo →
    w.length ≤ f + hi →
    (gallop w bound mx f lo hi).1 < (gallop w bound mx f lo hi).2 ∧
    (gallop w bound mx f lo hi).1 < w.length ∧ Q w bound mx (gallop w bound mx f lo hi).1 ∧
    (w.length ≤ (gallop w bound mx f lo hi).2 ∨ ¬ Q w bound mx (gallop w bound mx f lo hi).2)
  | 0, lo, hi, h1, _, h3, h4, h5 => by
    simp only [gallop]
    exact ⟨h1, h3, h4, Or.inl (by omega)⟩
  | f + 1, lo, hi, h1, h2, h3, h4, h5 => by
    simp only [gallop]
    split
    · rename_i hc
      simp only [Bool.and_eq_true, decide_eq_true_eq] at hc
      exact gallop_spec hs f hi (2 * hi) (by omega) (by omega) hc.1 hc.2 (by omega)
    · rename_i hc
      simp only [Bool.and_eq_true, decide_eq_true_eq, not_and] at hc
      refine ⟨h1, h3, h4, ?_⟩
      by_cases hl : hi < w.length
      · exact Or.inr (hc hl)
      · exact Or.inl (by omega)

theorem bsearch_spec : ∀ (f lo hi : Nat), lo < hi → hi ≤ w.length → Q w bound mx lo →
    (hi = w.length ∨ ¬ Q w bound mx hi) → hi - lo ≤ f + 1 →
    let r := bsearch w bound mx f lo hi
    1 ≤ r ∧ r ≤ w.length ∧ Q w bound mx (r - 1) ∧ (r = w.length ∨ ¬ Q w bound mx r)
  | 0, lo, hi, h1, h2, h3, h4, h5 => by
    simp only [bsearch]
    have : hi - 1 = lo := by omega
    exact ⟨by omega, h2, by rw [this]; exact h3, h4⟩
  | f + 1, lo, hi, h1, h2, h3, h4, h5 => by
    simp only [bsearch]
    split
    · rename_i hlt
      split
      · rename_i hm
        exact bsearch_spec f ((lo + hi) / 2) hi (by omega) h2 hm h4 (by omega)
      · rename_i hm
        exact bsearch_spec f lo ((lo + hi) / 2) (by omega) (by omega) h3 (Or.inr hm) (by omega)
    · have : hi - 1 = lo := by omega
      exact ⟨by omega, h2, by rw [this]; exact h3, h4⟩

end

/-- index form: `runLength` is the boundary of the qualifying prefix -/
theorem runLength_index (w : List Row) (bound : Row) (mx : Int) (hs : SortedK w) :
    runLength w bound mx ≤ w.length ∧
    (∀ j, j < runLength w bound mx → Q w bound mx j) ∧
    (∀ j, runLength w bound mx ≤ j → j < w.length → ¬ Q w bound mx j) := by
  unfold runLength
  split
  · rename_i h0
    simp only [Bool.or_eq_true, decide_eq_true_eq, Bool.not_eq_true'] at h0
    refine ⟨by omega, by intro j hj; omega, ?_⟩
    intro j _ hj hq
    rcases h0 with h0 | h0
    · omega
    · have := leMax_anti mx bound (sortedK_getD hs (Nat.zero_le j) hj) hq
      rw [h0] at this; cases this
  · rename_i h0
    simp only [Bool.or_eq_true, decide_eq_true_eq, Bool.not_eq_true', not_or, Bool.not_eq_false] at h0
    have hlen : 0 < w.length := by omega
    split
    · rename_i hlast
      refine ⟨Nat.le_refl _, ?_, by intro j h1 h2; omega⟩
      intro j hj
      exact leMax_anti mx bound (sortedK_getD hs (by omega) (by omega)) hlast
    · rename_i hlast
      have hg := gallop_spec w bound mx hs w.length 0 1 (by omega) (by omega) hlen h0.2 (by omega)
      generalize gallop w bound mx w.length 0 1 = g at hg
      obtain ⟨lo, hi⟩ := g
      simp only at hg ⊢
      obtain ⟨g1, g2, g3, g4⟩ := hg
      have hb := bsearch_spec w bound mx w.length lo (min hi w.length) (by omega) (by omega) g3
        (by
          rcases g4 with g4 | g4
          · exact Or.inl (by omega)
          · by_cases hh : hi < w.length
            · exact Or.inr (by rw [Nat.min_eq_left (by omega)]; exact g4)
            · exact Or.inl (by omega)) (by omega)
      simp only at hb
      generalize bsearch w bound mx w.length lo (min hi w.length) = r at hb
      obtain ⟨b1, b2, b3, b4⟩ := hb
      have hr : r < w.length ∧ ¬ Q w bound mx r := by
        rcases b4 with b4 | b4
        · subst b4; exact absurd b3 hlast
        · refine ⟨?_, b4⟩
          rcases Nat.lt_or_ge r w.length with h | h
          · exact h
          · have : r = w.length := by omega
            subst this; exact absurd b3 hlast
      refine ⟨b2, ?_, ?_⟩
      · intro j hj
        exact leMax_anti mx bound (sortedK_getD hs (by omega) (by omega)) b3
      · intro j hj1 hj2 hq
        exact hr.2 (leMax_anti mx bound (sortedK_getD hs hj1 hj2) hq)

theorem mem_take_getD {w : List Row} {r : Nat} {x : Row} (h : x ∈ w.take r) :
    ∃ j, j < r ∧ j < w.length ∧ w.getD j default = x := by
  obtain ⟨j, hj, rfl⟩ := List.mem_iff_getElem.mp h
  simp only [List.length_take] at hj
  refine ⟨j, by omega, by omega, ?_⟩
  simp [List.getD_eq_getElem?_getD, List.getElem?_eq_getElem (show j < w.length by omega), List.getElem_take]

theorem mem_drop_getD {w : List Row} {r : Nat} {x : Row} (h : x ∈ w.drop r) :
    ∃ j, r ≤ j ∧ j < w.length ∧ w.getD j default = x := by
  obtain ⟨j, hj, rfl⟩ := List.mem_iff_getElem.mp h
  simp only [List.length_drop] at hj
  refine ⟨r + j, by omega, by omega, ?_⟩
  simp [List.getD_eq_getElem?_getD, List.getElem?_eq_getElem (show r + j < w.length by omega)]

/-- `runLength_spec`: on a window sorted by the comparison, `runLength` splits it into the rows with
    `compare(row, bound) <= max` and the rows with `compare(row, bound) > max` -/
theorem runLength_spec' (w : List Row) (bound : Row) (mx : Int) (hs : SortedK w) :
    runLength w bound mx ≤ w.length ∧
    (∀ x ∈ w.take (runLength w bound mx), leMax mx bound x = true) ∧
    (∀ x ∈ w.drop (runLength w bound mx), leMax mx bound x = false) := by
  obtain ⟨h1, h2, h3⟩ := runLength_index w bound mx hs
  refine ⟨h1, ?_, ?_⟩
  · intro x hx
    obtain ⟨j, hj, _, rfl⟩ := mem_take_getD hx
    exact h2 j hj
  · intro x hx
    obtain ⟨j, hj, hj2, rfl⟩ := mem_drop_getD hx
    have := h3 j hj hj2
    simpa using this

end PqModel.Merge
