import PqModel.RowsRefineDefs

/-! Refinement `RowsBuf` → `RowsState`, part 1: what `readPage` / `readValues` / `refill` / `rowLoop` /
    `colLoop` of the buffer-level mirror do to the STREAM a column will still deliver (`cstream`).
    Pure list statements, no well-formedness of the file is needed here: a row loop takes
    `scanRow nv` values off the front of the stream whatever the buffer boundaries are. -/
namespace PqModel.RowsRefine
open PqModel.RowsBuf

theorem readPageFrom_stream : ∀ (ps : List Page) (c : Cursor),
    (∀ vs, (readPageFrom ps c).2 = .page vs → ∃ m, (readPageFrom ps c).1 = { next := c.next + m, skip := 0 } ∧
        pstreamFrom ps c.skip = (vs ++ (pstreamFrom (ps.drop m) 0).1, (pstreamFrom (ps.drop m) 0).2)) ∧
    ((readPageFrom ps c).2 = .eof → pstreamFrom ps c.skip = ([], false) ∧
        (readPageFrom ps c).1.next = c.next + ps.length)
  | [], c => by simp [readPageFrom, pstreamFrom]
  | p :: ps, c => by
    by_cases hb : p.bad = true
    · simp [readPageFrom, hb]
    · by_cases hs : c.skip < p.numRows
      · simp only [readPageFrom, hb, hs, pstreamFrom, if_true, Bool.false_eq_true, if_false]
        refine ⟨fun vs hv => ⟨1, rfl, ?_⟩, fun h => by simp at h⟩
        simp only [PageRes.page.injEq] at hv
        subst hv
        simp
      · have ih := readPageFrom_stream ps { next := c.next + 1, skip := c.skip - p.numRows }
        simp only [readPageFrom, hb, hs, pstreamFrom, Bool.false_eq_true, if_false]
        refine ⟨fun vs hv => ?_, fun h => ?_⟩
        · obtain ⟨m, h1, h2⟩ := ih.1 vs hv
          refine ⟨m + 1, ?_, ?_⟩
          · rw [h1]; simp only [Cursor.mk.injEq, and_true]; omega
          · simpa using h2
        · obtain ⟨h1, h2⟩ := ih.2 h
          refine ⟨h1, ?_⟩
          rw [h2]; simp only [List.length_cons]; omega

theorem readPage_stream (pages : List Page) (c : Cursor) :
    (∀ vs, (readPage pages c).2 = .page vs →
        pstream pages c = (vs ++ (pstream pages (readPage pages c).1).1, (pstream pages (readPage pages c).1).2)) ∧
    ((readPage pages c).2 = .eof → pstream pages c = ([], false) ∧ pstream pages (readPage pages c).1 = ([], false)) := by
  have h := readPageFrom_stream (pages.drop c.next) c
  refine ⟨fun vs hv => ?_, fun he => ?_⟩
  · obtain ⟨m, h1, h2⟩ := h.1 vs hv
    simp only [readPage] at h1 ⊢
    simp only [pstream, h1, h2, List.drop_drop]
  · obtain ⟨h1, h2⟩ := h.2 he
    simp only [readPage] at h2 ⊢
    refine ⟨h1, ?_⟩
    simp only [pstream]
    rw [List.drop_eq_nil_of_le (by rw [h2, List.length_drop]; omega)]
    simp [pstreamFrom]

theorem readValues_stream (pages : List Page) (B : Nat) (hB : 0 < B) : ∀ (fuel : Nat) (r : Reader),
    (∀ vs, (readValues pages B fuel r).2 = .vals vs → vs ≠ [] ∧
        rstream pages r = (vs ++ (rstream pages (readValues pages B fuel r).1).1,
                           (rstream pages (readValues pages B fuel r).1).2)) ∧
    ((readValues pages B fuel r).2 = .eof →
        rstream pages r = ([], false) ∧ rstream pages (readValues pages B fuel r).1 = ([], false))
  | 0, r => by simp [readValues]
  | fuel + 1, r => by
    unfold readValues
    split
    · rename_i hnone
      have hp := readPage_stream pages r.cur
      split
      · rename_i c heq
        rw [heq] at hp
        refine ⟨fun vs hv => by simp at hv, fun _ => ?_⟩
        have := hp.2 rfl
        simp only [rstream, hnone, Option.getD_none, List.nil_append, this.1, this.2, and_self]
      · refine ⟨fun vs hv => by simp at hv, fun hv => by simp at hv⟩
      · rename_i c vs heq
        rw [heq] at hp
        have ih := readValues_stream pages B hB fuel { cur := c, values := some vs }
        have h1 := hp.1 vs rfl
        have hr : rstream pages r = rstream pages { cur := c, values := some vs } := by
          simp only [rstream, hnone, Option.getD_none, List.nil_append, Option.getD_some, h1]
        rw [hr]
        exact ih
    · rename_i vs hsome
      split
      · rename_i hemp
        have hvs : vs = [] := by
          cases vs with
          | nil => rfl
          | cons x xs =>
            obtain ⟨b, rfl⟩ : ∃ b, B = b + 1 := ⟨B - 1, by omega⟩
            simp at hemp
        have ih := readValues_stream pages B hB fuel { r with values := none }
        have hr : rstream pages r = rstream pages { r with values := none } := by
          simp only [rstream, hsome, hvs, Option.getD_some, Option.getD_none]
        rw [hr]
        exact ih
      · rename_i hne
        refine ⟨fun ws hw => ?_, fun hv => by simp at hv⟩
        simp only [ValRes.vals.injEq] at hw
        subst hw
        refine ⟨fun h => hne (by simp [h]), ?_⟩
        simp only [rstream, hsome, Option.getD_some]
        rw [← List.append_assoc, List.take_append_drop]

/-- once a column has met the end of its chunk nothing is left in it -/
def Einv (pages : List Page) (s : Scan) : Prop := s.eof = true → cstream pages s.col = ([], false)

theorem refill_stream (pages : List Page) (B : Nat) (hB : 0 < B) (s : Scan) :
    (∀ s', refill pages B s = .ok s' → s'.col.buf ≠ [] ∧ cstream pages s'.col = cstream pages s.col ∧
        s'.eof = s.eof ∧ s'.rowCount = s.rowCount) ∧
    (∀ s', refill pages B s = .eof s' → cstream pages s.col = ([], false) ∧ cstream pages s'.col = ([], false) ∧
        s'.eof = true ∧ s'.rowCount = s.rowCount) := by
  unfold refill
  split
  · rename_i hemp
    have hbuf : s.col.buf = [] := by simpa using hemp
    have hv := readValues_stream pages B hB (valuesFuel pages) s.col.reader
    split
    · rename_i rd vs heq
      rw [heq] at hv
      obtain ⟨h1, h2⟩ := hv.1 vs rfl
      refine ⟨fun s' hs' => ?_, fun s' hs' => by simp at hs'⟩
      simp only [Refill.ok.injEq] at hs'
      subst hs'
      refine ⟨h1, ?_, rfl, rfl⟩
      simp only [cstream, hbuf, List.nil_append, h2]
    · rename_i rd heq
      rw [heq] at hv
      obtain ⟨h1, h2⟩ := hv.2 rfl
      refine ⟨fun s' hs' => by simp at hs', fun s' hs' => ?_⟩
      simp only [Refill.eof.injEq] at hs'
      subst hs'
      refine ⟨?_, ?_, rfl, rfl⟩
      · simp only [cstream, hbuf, List.nil_append, h1]
      · simp only [cstream, List.nil_append, h2]
    · refine ⟨fun s' hs' => by simp at hs', fun s' hs' => by simp at hs'⟩
  · rename_i hne
    refine ⟨fun s' hs' => ?_, fun s' hs' => by simp at hs'⟩
    simp only [Refill.ok.injEq] at hs'
    subst hs'
    exact ⟨fun h => hne (by simp [h]), rfl, rfl, rfl⟩

/-! ### `scanRow` over an append -/

theorem takeWhile_append_lt (p : Val → Bool) : ∀ (X R : List Val), (X.takeWhile p).length < X.length →
    (X ++ R).takeWhile p = X.takeWhile p
  | [], _, h => by simp at h
  | x :: X, R, h => by
    by_cases hx : p x = true
    · simp only [List.cons_append, List.takeWhile_cons, hx, if_true, List.length_cons] at h ⊢
      rw [takeWhile_append_lt p X R (by omega)]
    · simp [hx]

theorem takeWhile_append_all (p : Val → Bool) : ∀ (X R : List Val), (X.takeWhile p).length = X.length →
    (X ++ R).takeWhile p = X ++ R.takeWhile p
  | [], _, _ => by simp
  | x :: X, R, h => by
    by_cases hx : p x = true
    · simp only [List.cons_append, List.takeWhile_cons, hx, if_true, List.length_cons] at h ⊢
      rw [takeWhile_append_all p X R (by omega)]
    · simp [hx] at h

theorem length_takeWhile_le' (p : Val → Bool) : ∀ X : List Val, (X.takeWhile p).length ≤ X.length
  | [] => by simp
  | x :: X => by
    have := length_takeWhile_le' p X
    simp only [List.takeWhile_cons]
    split <;> simp <;> omega

theorem scanRow_le (nv : Nat) (vs : List Val) (h : nv ≤ vs.length) : scanRow nv vs ≤ vs.length := by
  unfold scanRow
  have := length_takeWhile_le' (fun v : Val => v.rep != 0) (vs.drop nv)
  rw [List.length_drop] at this
  omega

theorem scanRow_append_lt (nv : Nat) (vs R : List Val) (h : nv ≤ vs.length) (hlt : scanRow nv vs < vs.length) :
    scanRow nv (vs ++ R) = scanRow nv vs := by
  unfold scanRow at hlt ⊢
  rw [List.drop_append_of_le_length h, takeWhile_append_lt _ _ _ (by rw [List.length_drop]; omega)]

theorem scanRow_append_all (nv : Nat) (vs R : List Val) (h : nv ≤ vs.length) (heq : scanRow nv vs = vs.length) :
    scanRow nv (vs ++ R) = vs.length + scanRow 0 R := by
  unfold scanRow at heq ⊢
  rw [List.drop_append_of_le_length h, takeWhile_append_all _ _ _ (by rw [List.length_drop]; omega)]
  simp only [List.length_append, List.length_drop, List.drop_zero]
  omega

theorem scanRow_zero_of_head (vs R : List Val) (hne : vs ≠ []) (h : scanRow 0 vs = 0) : scanRow 0 (vs ++ R) = 0 := by
  cases vs with
  | nil => exact absurd rfl hne
  | cons x xs =>
    simp only [scanRow, List.drop_zero, Nat.zero_add, List.cons_append, List.takeWhile_cons] at h ⊢
    split at h
    · simp at h
    · rename_i hx; simp [hx]

/-- the row loop of `ReadRows` takes `scanRow nv` values off the front of the column's stream,
    wherever the buffer and page boundaries are; it never takes the `continue readColumnValues` exit
    with values in hand -/
theorem rowLoop_stream (pages : List Page) (B : Nat) (hB : 0 < B) (i : Nat) :
    ∀ (fuel nv : Nat) (s : Scan) (acc : List Val), nv ≤ 1 → Einv pages s → (nv = 0 → i + 1 ≤ s.rowCount) →
    (∀ s' acc', rowLoop pages B i fuel nv s acc = .next s' acc' →
        acc' = acc ++ (cstream pages s.col).1.take (scanRow nv (cstream pages s.col).1) ∧
        cstream pages s'.col = ((cstream pages s.col).1.drop (scanRow nv (cstream pages s.col).1), (cstream pages s.col).2) ∧
        Einv pages s' ∧
        s'.rowCount = (if nv = 1 ∧ (cstream pages s.col).1 = [] then s.rowCount else max s.rowCount (i + 1)) ∧
        (nv = 1 → (cstream pages s.col).1 = [] → (cstream pages s.col).2 = false)) ∧
    (∀ s' acc', rowLoop pages B i fuel nv s acc ≠ .nextCol s' acc')
  | 0, nv, s, acc, _, _, _ => by simp [rowLoop]
  | fuel + 1, nv, s, acc, hnv, hE, hrc => by
    have hrf := refill_stream pages B hB s
    unfold rowLoop
    split
    · -- io.EOF
      rename_i s1 heq
      obtain ⟨h1, h2, h3, h4⟩ := hrf.2 s1 heq
      refine ⟨fun s' acc' hr => ?_, fun s' acc' hr => by simp at hr⟩
      simp only [RowRes.next.injEq] at hr
      obtain ⟨rfl, rfl⟩ := hr
      rw [h1]
      refine ⟨by simp, by simpa using h2, fun _ => h2, ?_, fun _ _ => rfl⟩
      rw [h4]
      split
      · rfl
      · rename_i hc
        have : nv = 0 := by
          have : ¬ nv = 1 := fun h => hc ⟨h, rfl⟩
          omega
        have := hrc this
        omega
    · refine ⟨fun s' acc' hr => by simp at hr, fun s' acc' hr => by simp at hr⟩
    · rename_i s1 heq
      obtain ⟨hne, hcs, heof, hrc1⟩ := hrf.1 s1 heq
      -- the stream is the buffer followed by what the reader still has
      have hS : (cstream pages s.col).1 = s1.col.buf ++ (rstream pages s1.col.reader).1 := by
        rw [← hcs]; rfl
      have hF : (cstream pages s.col).2 = (rstream pages s1.col.reader).2 := by
        rw [← hcs]; rfl
      have hlen : nv ≤ s1.col.buf.length := by
        have : 0 < s1.col.buf.length := List.length_pos_iff.mpr hne
        omega
      have hSne : (cstream pages s.col).1 ≠ [] := by
        rw [hS]; intro h; exact hne (List.append_eq_nil_iff.mp h).1
      have hEfalse : s.eof = true → False := fun h => hSne (by rw [hE h])
      simp only []
      split
      · -- numValuesInRow == 0: the buffer starts with the next row
        rename_i hz
        have hz' : scanRow nv s1.col.buf = 0 := by simpa using hz
        have hnv0 : nv = 0 := by unfold scanRow at hz'; omega
        subst hnv0
        refine ⟨fun s' acc' hr => ?_, fun s' acc' hr => by simp at hr⟩
        simp only [RowRes.next.injEq] at hr
        obtain ⟨rfl, rfl⟩ := hr
        have h0 : scanRow 0 (cstream pages s.col).1 = 0 := by
          rw [hS]; exact scanRow_zero_of_head _ _ hne hz'
        rw [h0]
        refine ⟨by simp, by simp [hcs], fun h => absurd (heof ▸ h) (fun h => hEfalse h), ?_, fun h => by omega⟩
        have := hrc rfl
        simp only [hrc1]
        split
        · rfl
        · omega
      · rename_i hz
        have hle := scanRow_le nv s1.col.buf hlen
        split
        · -- the row ends inside the buffer
          rename_i hneq
          have hlt : scanRow nv s1.col.buf < s1.col.buf.length := by
            have : scanRow nv s1.col.buf ≠ s1.col.buf.length := by simpa using hneq
            omega
          have hsc := scanRow_append_lt nv s1.col.buf (rstream pages s1.col.reader).1 hlen hlt
          refine ⟨fun s' acc' hr => ?_, fun s' acc' hr => by simp at hr⟩
          simp only [RowRes.next.injEq] at hr
          obtain ⟨rfl, rfl⟩ := hr
          rw [hS, hsc, hF]
          refine ⟨?_, ?_, ?_, ?_, fun _ h => absurd h (hS ▸ hSne)⟩
          · rw [List.take_append_of_le_length hle]
          · simp only [cstream]
            rw [List.drop_append_of_le_length hle]
          · intro h
            exact absurd (heof ▸ h) (fun h => hEfalse h)
          · simp only [hrc1]
            split
            · rename_i hc; exact absurd hc.2 (hS ▸ hSne)
            · rfl
        · rename_i hneq
          have heq' : scanRow nv s1.col.buf = s1.col.buf.length := by simpa using hneq
          split
          · rename_i he1
            exact absurd (heof ▸ he1) (fun h => hEfalse h)
          · rename_i he1
            have hsc := scanRow_append_all nv s1.col.buf (rstream pages s1.col.reader).1 hlen heq'
            have ih := rowLoop_stream pages B hB i fuel 0
              { s1 with col := { s1.col with buf := s1.col.buf.drop (scanRow nv s1.col.buf) },
                        rowCount := max s1.rowCount (i + 1) }
              (acc ++ s1.col.buf.take (scanRow nv s1.col.buf)) (by omega)
              (fun h => absurd h (by simpa using he1)) (fun _ => by simp only []; omega)
            have hcs' : cstream pages ({ s1.col with buf := s1.col.buf.drop (scanRow nv s1.col.buf) } : Col) =
                ((rstream pages s1.col.reader).1, (rstream pages s1.col.reader).2) := by
              simp only [cstream, heq', List.drop_length, List.nil_append]
            refine ⟨fun s' acc' hr => ?_, fun s' acc' hr => ih.2 s' acc' hr⟩
            obtain ⟨h1, h2, h3, h4, _⟩ := ih.1 s' acc' hr
            dsimp only at h1 h2 h4
            rw [hcs'] at h1 h2 h4
            rw [hS, hsc, hF]
            refine ⟨?_, ?_, h3, ?_, fun _ h => absurd h (hS ▸ hSne)⟩
            · rw [h1, heq', List.take_length, List.take_length_add_append, List.append_assoc]
            · rw [h2, List.drop_length_add_append]
            · rw [h4]
              simp only [hrc1]
              split
              · rename_i hc; omega
              · split
                · rename_i hc; exact absurd hc.2 (hS ▸ hSne)
                · omega

/-- `n` rows off the front of a stream: the rows and what is left -/
def rowsOf : Nat → List Val → List (List Val) × List Val
  | 0, S => ([], S)
  | n + 1, S => (S.take (scanRow 1 S) :: (rowsOf n (S.drop (scanRow 1 S))).1, (rowsOf n (S.drop (scanRow 1 S))).2)

/-- how many of them are not empty -/
def nrows : Nat → List Val → Nat
  | 0, _ => 0
  | n + 1, S => if S = [] then 0 else 1 + nrows n (S.drop (scanRow 1 S))

theorem nrows_nil : ∀ n, nrows n [] = 0
  | 0 => rfl
  | _ + 1 => by simp [nrows]

theorem nrows_le : ∀ n S, nrows n S ≤ n
  | 0, _ => by simp [nrows]
  | n + 1, S => by
    simp only [nrows]
    split
    · omega
    · have := nrows_le n (S.drop (scanRow 1 S)); omega

/-- the loop over the rows of one column takes `rowsOf n` off the stream of the column -/
theorem colLoop_stream (pages : List Page) (B : Nat) (hB : 0 < B) :
    ∀ (n i : Nat) (s : Scan), Einv pages s → ∀ s' accs, colLoop pages B n i s = .ok s' accs →
      accs = (rowsOf n (cstream pages s.col).1).1 ∧
      cstream pages s'.col = ((rowsOf n (cstream pages s.col).1).2, (cstream pages s.col).2) ∧
      s'.rowCount = (if nrows n (cstream pages s.col).1 = 0 then s.rowCount
                     else max s.rowCount (i + nrows n (cstream pages s.col).1)) ∧
      (nrows n (cstream pages s.col).1 < n → (cstream pages s.col).2 = false)
  | 0, i, s, _, s', accs, h => by
    simp only [colLoop, ColRes.ok.injEq] at h
    obtain ⟨rfl, rfl⟩ := h
    simp [rowsOf, nrows]
  | n + 1, i, s, hE, s', accs, h => by
    have hr := rowLoop_stream pages B hB i (rowFuel pages) 1 s [] (by omega) hE (by omega)
    unfold colLoop at h
    split at h
    · simp at h
    · rename_i s1 acc heq
      exact absurd heq (hr.2 s1 acc)
    · rename_i s1 acc heq
      obtain ⟨h1, h2, h3, h4, h5⟩ := hr.1 s1 acc heq
      split at h
      · simp at h
      · rename_i s2 accs2 heq2
        simp only [ColRes.ok.injEq] at h
        obtain ⟨rfl, rfl⟩ := h
        obtain ⟨g1, g2, g3, g4⟩ := colLoop_stream pages B hB n (i + 1) s1 h3 s2 accs2 heq2
        rw [h2] at g1 g2 g3 g4
        simp only [] at g1 g2 g3 g4
        refine ⟨?_, ?_, ?_, ?_⟩
        · simp only [rowsOf, g1, h1, List.nil_append]
        · simp only [rowsOf, g2]
        · rw [g3, h4]
          simp only [nrows, true_and]
          by_cases hS : (cstream pages s.col).1 = []
          · simp [hS, nrows_nil]
          · simp only [hS, if_false]
            split <;> split <;> omega
        · intro hlt
          simp only [nrows] at hlt
          by_cases hS : (cstream pages s.col).1 = []
          · exact h5 rfl hS
          · simp only [hS, if_false] at hlt
            exact g4 (by omega)

end PqModel.RowsRefine
