import PqModel.Dremel
import PqModel.NullScan

/-! # The typed write path at the level of column streams (C03 `typed_eq_reflect`)

MIRROR of `column_buffer_write.go`: the `writeRowsFunc` closures that `writeRowsFuncOf*` build for a
Go type, composed over the level bookkeeping of the leaf column buffers
(`column_buffer_optional.go:218-250`, `column_buffer_repeated.go:295-321`).

Abstractions (what is NOT mirrored): a `sparse.Array` of Go values is a `List Val` (offsets,
strides and `unsafe` casts are not modelled); the effect of a `writeRowsFunc` call on the column
buffers is the list of triples it appends to each of the leaf columns below its node, in column
order (the `columnIndex` lookup is the position in that order); calls in sequence append
(`zipApp`). The zero value of an `optional` non-pointer field is `Val.none`, a nil pointer / nil
slice is `Val.none`, a value that is present is `Val.some _` — the documented Go mapping, applied by
the harness when it abstracts Go values. -/
namespace PqModel.TypedPath
open PqModel.Dremel PqModel.NullScan

/-- `writeRowsFunc`: `(columns, levels{repetitionLevel, repetitionDepth, definitionLevel}, rows)`;
the result is what the call appends to the leaf columns below the node. -/
abbrev WriteRows := (rep depth dfn : Nat) → List Val → Cols

def payload : Val → Option Nat
  | .prim x => some x
  | _ => none

/-- `writeRowsFuncOfRequired` (`column_buffer_write.go:101-110`): `columns[columnIndex].writeValues`
on the column buffer of a leaf whose maximum definition level is `dm`:
plain buffer for `dm = 0` (appends the values), else `optionalColumnBuffer.writeValues`
(`column_buffer_optional.go:218-250`) / `repeatedColumnBuffer.writeValues`
(`column_buffer_repeated.go:295-321`): no rows = one null entry at the given levels; otherwise one
entry per row, carrying the value iff `definitionLevel == maxDefinitionLevel`. -/
def wrLeaf (dm : Nat) : WriteRows := fun r _ d vs =>
  [match vs with
   | [] => if dm = 0 then [] else [⟨none, r, d⟩]
   | _ :: _ => vs.map fun v => ⟨if d = dm then payload v else none, r, d⟩]

def isSome : Val → Bool
  | .some _ => true
  | _ => false

/-- the Go value of an optional non-pointer field is the field itself; a row of a null run holds
the zero value of the Go type (zero scalar, nil map), abstracted as `Val.none` -/
def unopt : Val → Val
  | .some w => w
  | _ => .none

/-- `rows.Slice(i, j)` -/
def sliceRows (vs : List Val) (i j : Nat) : List Val := (vs.drop i).take (j - i)

/-- `writeRowsFuncOfOptional`, the bitmap branch (`column_buffer_write.go:360-451`): the null index
of the rows, then one `writeRows` per run of the scan, null runs at the parent's definition level. -/
def wrOptionalWith (nonzero : Val → Bool) (m : Nat) (inner : WriteRows) : WriteRows := fun r k d vs =>
  if vs.isEmpty then inner r k d []
  else
    match nullRuns (nullIndex nonzero vs) vs.length with
    | .ok runs =>
      joinSegs m (runs.map fun run =>
        inner r k (if run.isNull then d else d + 1) ((sliceRows vs run.i run.j).map unopt))
    | .error _ => List.replicate m []

/-- the null index kernels of `nullIndexFuncOf` (`null.go:50-125`): bit set = the row does not hold
the zero value of its Go type (nil for maps; for a non-pointer struct the zero struct, `null.go`
`nullIndexFuncOfStruct`, the predicate `isNullValue` of the reflection paths) -/
def wrOptional (m : Nat) (inner : WriteRows) : WriteRows := wrOptionalWith isSome m inner

/-- `nullIndexStruct` BEFORE the repair (`bytealg.Broadcast(bits, 0xFF)`): every row of a
non-pointer struct field with the `optional` tag counted as present. -/
def wrOptionalAllPresent (m : Nat) (inner : WriteRows) : WriteRows := wrOptionalWith (fun _ => true) m inner

/-- `writeRowsFuncOfPointer` for an optional schema node (`column_buffer_write.go:497-516`). -/
def wrPointer (m : Nat) (inner : WriteRows) : WriteRows := fun r k d vs =>
  if vs.isEmpty then inner r k d []
  else
    joinSegs m (vs.map fun v =>
      match v with
      | .some w => inner r k (d + 1) [w]
      | _ => inner r k d [])

/-- `writeRowsFuncOfSlice` (`column_buffer_write.go:542-576`); `get` reads the elements of the Go
slice out of the abstract value. -/
def wrSlice (m : Nat) (get : Val → List Val) (inner : WriteRows) : WriteRows := fun r k d vs =>
  if vs.isEmpty then inner r k d []
  else
    joinSegs m (vs.map fun v =>
      match get v with
      | [] => inner r (k + 1) d []
      | w :: ws =>
        zipApp (inner r (k + 1) (d + 1) [w])
          (if ws.isEmpty then List.replicate m [] else inner (k + 1) (k + 1) (d + 1) ws))

/-- `writeRowsFuncOfOptional`, the slice branch (`column_buffer_write.go:279-301`): one call per
row, the nil slice goes down as it is at the parent's definition level. -/
def wrOptionalSlice (m : Nat) (inner : WriteRows) : WriteRows := fun r k d vs =>
  if vs.isEmpty then inner r k d []
  else
    joinSegs m (vs.map fun v =>
      match v with
      | .some w => inner r k (d + 1) [w]
      | _ => inner r k d [Val.none])

/-- the fields of a struct value -/
def fieldsOf : Val → List Val
  | .struct vs => vs
  | _ => []

def hd : List Val → Val
  | v :: _ => v
  | [] => .none

/-- elements of a repeated field (`[]T` without the list tag): `Val.list ws` -/
def elemsS : Val → List Val
  | .list ws => ws
  | _ => []

/-- elements of a `list`-tagged slice: the value of `group (LIST) { repeated group list { element } }`
is `struct [list [struct [e₁], …]]` -/
def elemsL (v : Val) : List Val := (elemsS (hd (fieldsOf v))).map fun w => hd (fieldsOf w)

/-- entries of a Go map on `group (MAP) { repeated group key_value { key; value } }`: the value is
`struct [list [struct [k₁, v₁], …]]`, the entries in the order the typed path emits them
(`makeMapFunc` sorts the keys, `column_buffer_reflect.go:186-210`) -/
def elemsM (v : Val) : List Val := elemsS (hd (fieldsOf v))

/-- keys of a list of map entries (`keys` of `makeMap(m).entries()`) -/
def keysOf (es : List Val) : List Val := (es.map fieldsOf).map hd
/-- values of a list of map entries -/
def valsOf (es : List Val) : List Val := ((es.map fieldsOf).map List.tail).map hd

/-- MIRROR `writeRowsFuncOfMap`, MAP logical type (`column_buffer_write.go:841-875`): no rows = the
key writer and the value writer on the empty array; per row the empty (or nil) map hands both the
empty array at the row's levels with `repetitionDepth+1`, else the first entry goes down at
`definitionLevel+1` and the remaining entries at `repetitionLevel = repetitionDepth`. `mk`/`mv` are
the numbers of leaf columns below key and value (keys and values write disjoint columns, so the
interleaving of the four calls does not show in the per-column effect). -/
def wrMap (mk mv : Nat) (keyW valW : WriteRows) : WriteRows := fun r k d vs =>
  if vs.isEmpty then keyW r k d [] ++ valW r k d []
  else
    joinSegs (mk + mv) (vs.map fun v =>
      match elemsM v with
      | [] => keyW r (k + 1) d [] ++ valW r (k + 1) d []
      | e :: es =>
        zipApp (keyW r (k + 1) (d + 1) (keysOf [e]) ++ valW r (k + 1) (d + 1) (valsOf [e]))
          (if es.isEmpty then List.replicate (mk + mv) []
           else keyW (k + 1) (k + 1) (d + 1) (keysOf es) ++ valW (k + 1) (k + 1) (d + 1) (valsOf es)))

/- Go types with a typed write path, by wrapper -/
mutual
inductive TNode where
  /-- a basic type on a required leaf (`writeRowsFuncOfRequired` and the int widenings) -/
  | leaf
  /-- a basic type with the `optional` tag: `writeRowsFuncOfOptional` (bitmap scan) over the leaf -/
  | optLeaf
  /-- a struct: `writeRowsFuncOfStruct` -/
  | struct (fs : TFields)
  /-- `*T` on an optional node: `writeRowsFuncOfPointer` -/
  | ptr (n : TNode)
  /-- `[]T` on a repeated node: `writeRowsFuncOfSlice` -/
  | slice (n : TNode)
  /-- `[]T` with the `list` tag: `writeRowsFuncOfSlice` at `path.list.element` -/
  | list (n : TNode)
  /-- `[]T` with the `optional` and `list` tags: slice branch of `writeRowsFuncOfOptional` over `list` -/
  | optList (n : TNode)
  /-- `map[K]V` on a MAP node: `writeRowsFuncOfMap` -/
  | map (kn vn : TNode)
  /-- `map[K]V` with the `optional` tag: bitmap branch of `writeRowsFuncOfOptional` (pointer null
  index: the nil map is null, the empty non-nil map is present) over `writeRowsFuncOfMap` -/
  | optMap (kn vn : TNode)
  /-- a non-pointer struct with the `optional` tag: bitmap branch of `writeRowsFuncOfOptional`
  (null index of the struct type: the zero struct is null) over `writeRowsFuncOfStruct` -/
  | optStruct (fs : TFields)
inductive TFields where
  | nil
  | cons (n : TNode) (fs : TFields)
end

/-- schema node of the element wrapped as a LIST: `group (LIST) { repeated group list { element } }` -/
def listNode (e : Node) : Node := .group (.cons (.rpt (.group (.cons e .nil))) .nil)

/-- `group key_value { key; value }` -/
def pairNode (k v : Node) : Node := .group (.cons k (.cons v .nil))

/-- schema node of a MAP: `group (MAP) { repeated group key_value { key; value } }` -/
def mapNode (k v : Node) : Node := .group (.cons (.rpt (pairNode k v)) .nil)

/- the schema `SchemaOf` derives for the Go type -/
mutual
def erase : TNode → Node
  | .leaf => .leaf
  | .optLeaf => .opt .leaf
  | .struct fs => .group (eraseF fs)
  | .ptr n => .opt (erase n)
  | .slice n => .rpt (erase n)
  | .list n => listNode (erase n)
  | .optList n => .opt (listNode (erase n))
  | .map kn vn => mapNode (erase kn) (erase vn)
  | .optMap kn vn => .opt (mapNode (erase kn) (erase vn))
  | .optStruct fs => .opt (.group (eraseF fs))
def eraseF : TFields → Fields
  | .nil => .nil
  | .cons n fs => .cons (erase n) (eraseF fs)
end

/- `writeRowsFuncOf t schema path`: `dm` is the number of optional/repeated ancestors of the node
(so that a leaf below knows its column's maximum definition level). `tyF` is the body of
`writeRowsFuncOfStruct` (`column_buffer_write.go:632-642`) from field i on: every field gets
`rows.Offset(field offset)`; its rows are the lists of remaining field values. -/
mutual
def tyN : TNode → (dm : Nat) → WriteRows
  | .leaf, dm => wrLeaf dm
  | .optLeaf, dm => wrOptional 1 (wrLeaf (dm + 1))
  | .struct fs, dm => fun r k d vs => tyF fs dm r k d (vs.map fieldsOf)
  | .ptr n, dm => wrPointer (leavesN (erase n)) (tyN n (dm + 1))
  | .slice n, dm => wrSlice (leavesN (erase n)) elemsS (tyN n (dm + 1))
  | .list n, dm => wrSlice (leavesN (erase n)) elemsL (tyN n (dm + 1))
  | .optList n, dm =>
    wrOptionalSlice (leavesN (erase n)) (wrSlice (leavesN (erase n)) elemsL (tyN n (dm + 2)))
  | .map kn vn, dm =>
    wrMap (leavesN (erase kn)) (leavesN (erase vn)) (tyN kn (dm + 1)) (tyN vn (dm + 1))
  | .optMap kn vn, dm =>
    wrOptional (leavesN (erase kn) + leavesN (erase vn))
      (wrMap (leavesN (erase kn)) (leavesN (erase vn)) (tyN kn (dm + 2)) (tyN vn (dm + 2)))
  | .optStruct fs, dm =>
    wrOptional (leavesF (eraseF fs)) (fun r k d vs => tyF fs (dm + 1) r k d (vs.map fieldsOf))
def tyF : TFields → (dm : Nat) → (rep depth dfn : Nat) → List (List Val) → Cols
  | .nil, _ => fun _ _ _ _ => []
  | .cons n fs, dm => fun r k d vss =>
    tyN n dm r k d (vss.map hd) ++ tyF fs dm r k d (vss.map List.tail)
end

/-- `GenericWriter[T].Write` / `GenericBuffer[T].Write` on a batch (`writer.go:251-281`,
`buffer.go:128-133`, `buffer.go:84-90`): nothing for an empty batch, else one call of the row
type's `writeRowsFunc` with `columnLevels{}`. -/
def typedWrite (n : TNode) (batch : List Val) : Cols :=
  if batch.isEmpty then List.replicate (leavesN (erase n)) [] else tyN n 0 0 0 0 batch

/-! ## lemmas on `zipApp` / `joinSegs` (sequencing of calls) -/

theorem zipApp_replicate_nil : ∀ (A : Cols), zipApp A (List.replicate A.length []) = A
  | [] => rfl
  | a :: as => by simp [List.replicate_succ, zipApp, zipApp_replicate_nil as]

theorem joinSegs_singleton {m : Nat} {A : Cols} (h : A.length = m) : joinSegs m [A] = A := by
  subst h; exact zipApp_replicate_nil A

theorem joinSegs_cons (m : Nat) (s : Cols) (rest : List Cols) :
    joinSegs m (s :: rest) = zipApp s (joinSegs m rest) := rfl

theorem joinSegs_length {m : Nat} : ∀ {segs : List Cols}, (∀ s ∈ segs, s.length = m) →
    (joinSegs m segs).length = m
  | [], _ => by simp [joinSegs]
  | s :: rest, h => by
    have ih := joinSegs_length (segs := rest) (fun x hx => h x (by simp [hx]))
    rw [joinSegs_cons, zipApp_length (by rw [h s (by simp), ih]), h s (by simp)]

theorem zipApp_append : ∀ {a a' b b' : Cols}, a.length = a'.length →
    zipApp (a ++ b) (a' ++ b') = zipApp a a' ++ zipApp b b'
  | [], [], _, _, _ => by simp [zipApp]
  | x :: xs, y :: ys, b, b', h => by
    simp only [List.cons_append, zipApp]
    rw [zipApp_append (a := xs) (a' := ys) (by simpa using h)]
  | [], _ :: _, _, _, h => by simp at h
  | _ :: _, [], _, _, h => by simp at h

/-- Sequencing calls that each write the columns of two sibling fields = sequencing per field. -/
theorem joinSegs_append_cols {α : Type} {m1 m2 : Nat} (A B : α → Cols) : ∀ (xs : List α),
    (∀ x ∈ xs, (A x).length = m1) → (∀ x ∈ xs, (B x).length = m2) →
    joinSegs (m1 + m2) (xs.map fun x => A x ++ B x) = joinSegs m1 (xs.map A) ++ joinSegs m2 (xs.map B)
  | [], _, _ => by simp [joinSegs, List.replicate_append_replicate]
  | x :: xs, hA, hB => by
    have ih := joinSegs_append_cols A B xs (fun y hy => hA y (by simp [hy])) (fun y hy => hB y (by simp [hy]))
    have hl : (joinSegs m1 (xs.map A)).length = m1 :=
      joinSegs_length (by intro s hs; rcases List.mem_map.mp hs with ⟨y, hy, rfl⟩; exact hA y (by simp [hy]))
    simp only [List.map_cons, joinSegs_cons]
    rw [ih, zipApp_append (by rw [hA x (by simp), hl])]

/-- Calls that write one column. -/
theorem joinSegs_one_col {α : Type} (f : α → List Triple) : ∀ (xs : List α),
    joinSegs 1 (xs.map fun x => [f x]) = [xs.flatMap f]
  | [] => by simp [joinSegs]
  | x :: xs => by
    simp only [List.map_cons, joinSegs_cons, joinSegs_one_col f xs, zipApp, List.flatMap_cons]

theorem flatMap_singleton {α β : Type} (f : α → β) : ∀ (l : List α), l.flatMap (fun v => [f v]) = l.map f
  | [] => rfl
  | x :: xs => by simp [List.flatMap_cons, flatMap_singleton f xs]

theorem map_congr_mem {α β : Type} {f g : α → β} : ∀ {l : List α}, (∀ x ∈ l, f x = g x) → l.map f = l.map g
  | [], _ => rfl
  | x :: xs, h => by
    simp only [List.map_cons]
    rw [h x (by simp), map_congr_mem (fun y hy => h y (by simp [hy]))]

/-! ## lengths and the shape of `shredN` on wrapper nodes -/

mutual
theorem absentN_length (n : Node) (r d : Nat) : (absentN n r d).length = leavesN n :=
  (absentN_good n r 0 d).1
theorem absentF_length (fs : Fields) (r d : Nat) : (absentF fs r d).length = leavesF fs :=
  (absentF_good fs r 0 d).1
end

mutual
theorem shredN_length (n : Node) (r k d : Nat) (v : Val) : (shredN n r k d v).length = leavesN n := by
  cases n with
  | leaf => cases v <;> simp [shredN, leavesN]
  | group fs =>
    cases v with
    | struct vs => simpa [shredN, leavesN] using shredF_length fs r k d vs
    | prim x => simpa [shredN, leavesN] using absentF_length fs r d
    | none => simpa [shredN, leavesN] using absentF_length fs r d
    | some w => simpa [shredN, leavesN] using absentF_length fs r d
    | list ws => simpa [shredN, leavesN] using absentF_length fs r d
  | opt n =>
    cases v with
    | some w => simpa [shredN, leavesN] using shredN_length n r k (d + 1) w
    | prim x => simpa [shredN, leavesN] using absentN_length n r d
    | none => simpa [shredN, leavesN] using absentN_length n r d
    | struct vs => simpa [shredN, leavesN] using absentN_length n r d
    | list ws => simpa [shredN, leavesN] using absentN_length n r d
  | rpt n =>
    cases v with
    | list ws =>
      cases ws with
      | nil => simpa [shredN, leavesN] using absentN_length n r d
      | cons w ws =>
        have hfold : (ws.foldr (fun w acc => zipApp (shredN n (k + 1) (k + 1) (d + 1) w) acc)
            (List.replicate (leavesN n) [])).length = leavesN n := by
          have : ws.foldr (fun w acc => zipApp (shredN n (k + 1) (k + 1) (d + 1) w) acc)
              (List.replicate (leavesN n) []) =
              joinSegs (leavesN n) (ws.map (shredN n (k + 1) (k + 1) (d + 1))) := by
            simp [joinSegs, List.foldr_map]
          rw [this]
          apply joinSegs_length
          intro s hs
          rcases List.mem_map.mp hs with ⟨w', _, rfl⟩
          exact shredN_length n (k + 1) (k + 1) (d + 1) w'
        simp only [shredN, leavesN]
        rw [zipApp_length (by rw [shredN_length n r (k + 1) (d + 1) w, hfold]),
          shredN_length n r (k + 1) (d + 1) w]
    | prim x => simpa [shredN, leavesN] using absentN_length n r d
    | none => simpa [shredN, leavesN] using absentN_length n r d
    | struct vs => simpa [shredN, leavesN] using absentN_length n r d
    | some w => simpa [shredN, leavesN] using absentN_length n r d
theorem shredF_length (fs : Fields) (r k d : Nat) (vs : List Val) :
    (shredF fs r k d vs).length = leavesF fs := by
  cases fs with
  | nil => simp [shredF, leavesF]
  | cons n fs =>
    cases vs with
    | nil => simp [shredF, leavesF, absentN_length, absentF_length]
    | cons v vs' => simp [shredF, leavesF, shredN_length n r k d v, shredF_length fs r k d vs']
end

theorem shredN_none (n : Node) (r k d : Nat) : shredN n r k d .none = absentN n r d := by
  cases n <;> simp [shredN, absentN]

theorem shredF_nil (fs : Fields) (r k d : Nat) : shredF fs r k d [] = absentF fs r d := by
  cases fs <;> simp [shredF, absentF]

theorem shredF_cons (n : Node) (fs : Fields) (r k d : Nat) (vs : List Val) :
    shredF (.cons n fs) r k d vs = shredN n r k d (hd vs) ++ shredF fs r k d vs.tail := by
  cases vs with
  | nil => simp [shredF, hd, shredN_none, shredF_nil]
  | cons v vs' => simp [shredF, hd]

theorem shredN_group (fs : Fields) (r k d : Nat) (v : Val) :
    shredN (.group fs) r k d v = shredF fs r k d (fieldsOf v) := by
  cases v <;> simp [shredN, fieldsOf, shredF_nil]

theorem shredN_opt (n : Node) (r k d : Nat) (v : Val) :
    shredN (.opt n) r k d v =
      match v with
      | .some w => shredN n r k (d + 1) w
      | _ => absentN n r d := by
  cases v <;> simp [shredN]

theorem shredN_rpt (n : Node) (r k d : Nat) (v : Val) :
    shredN (.rpt n) r k d v =
      match elemsS v with
      | [] => absentN n r d
      | w :: ws => zipApp (shredN n r (k + 1) (d + 1) w)
          (joinSegs (leavesN n) (ws.map (shredN n (k + 1) (k + 1) (d + 1)))) := by
  cases v with
  | list ws =>
    cases ws with
    | nil => simp [shredN, elemsS]
    | cons w ws => simp [shredN, elemsS, joinSegs, List.foldr_map]
  | prim x => simp [shredN, elemsS]
  | none => simp [shredN, elemsS]
  | struct vs => simp [shredN, elemsS]
  | some w => simp [shredN, elemsS]

theorem leavesN_listNode (e : Node) : leavesN (listNode e) = leavesN e := by
  simp [listNode, leavesN, leavesF]

theorem absentN_listNode (e : Node) (r d : Nat) : absentN (listNode e) r d = absentN e r d := by
  simp [listNode, absentN, absentF]

theorem shredN_group1 (e : Node) (r k d : Nat) (v : Val) :
    shredN (.group (.cons e .nil)) r k d v = shredN e r k d (hd (fieldsOf v)) := by
  rw [shredN_group, shredF_cons]; simp [shredF]

theorem shredN_listNode (e : Node) (r k d : Nat) (v : Val) :
    shredN (listNode e) r k d v =
      match elemsL v with
      | [] => absentN e r d
      | w :: ws => zipApp (shredN e r (k + 1) (d + 1) w)
          (joinSegs (leavesN e) (ws.map (shredN e (k + 1) (k + 1) (d + 1)))) := by
  unfold listNode
  rw [shredN_group1, shredN_rpt]
  unfold elemsL
  cases elemsS (hd (fieldsOf v)) with
  | nil => simp [absentN, absentF]
  | cons w ws =>
    simp only [List.map_cons, List.map_map]
    rw [shredN_group1]
    have hl : leavesN (.group (.cons e .nil)) = leavesN e := by simp [leavesN, leavesF]
    have hm : ws.map (shredN (.group (.cons e .nil)) (k + 1) (k + 1) (d + 1)) =
        ws.map (shredN e (k + 1) (k + 1) (d + 1) ∘ fun w => hd (fieldsOf w)) := by
      apply map_congr_mem
      intro x _
      simp [shredN_group1]
    rw [hl, hm]

/-! ## every wrapper preserves "writes what `shred` says" -/

/-- `f dm` is the `writeRowsFunc` of a node with schema `n` below `dm` optional/repeated ancestors.
(A) a non-empty batch at the node's full definition level writes the shredded rows, row after row;
(B) the empty array at a lower definition level writes the absent node;
(C) rows holding the zero value of the Go type (`Val.none`: zero scalar, zero struct, nil pointer /
slice / map) at a lower definition level — what a null run of an enclosing `optional` wrapper hands
down — write the absent node once per row. -/
def Sound (n : Node) (f : Nat → WriteRows) : Prop :=
  ∀ dm r k,
    (∀ vs, vs ≠ [] → f dm r k dm vs = joinSegs (leavesN n) (vs.map (shredN n r k dm))) ∧
    (∀ d, d < dm → f dm r k d [] = absentN n r d) ∧
    (∀ d, d < dm → ∀ c, f dm r k d (List.replicate (c + 1) Val.none) =
      joinSegs (leavesN n) (List.replicate (c + 1) (absentN n r d)))

theorem isEmpty_false_of_ne {α : Type} {l : List α} (h : l ≠ []) : l.isEmpty = false := by
  cases l with
  | nil => exact absurd rfl h
  | cons _ _ => rfl

theorem replicate_succ_ne_nil {α : Type} (c : Nat) (a : α) : List.replicate (c + 1) a ≠ [] := by
  simp [List.replicate_succ]

theorem joinSegs_replicate_one (t : Triple) : ∀ c, joinSegs 1 (List.replicate c [[t]]) = [List.replicate c t]
  | 0 => by simp [joinSegs]
  | c + 1 => by
    simp only [List.replicate_succ, joinSegs_cons, joinSegs_replicate_one t c, zipApp, List.cons_append,
      List.nil_append]

/-- Per-row placeholders of two sibling fields = placeholders per field. -/
theorem joinSegs_replicate_append {m1 m2 : Nat} {a b : Cols} (ha : a.length = m1) (hb : b.length = m2)
    (c : Nat) :
    joinSegs (m1 + m2) (List.replicate c (a ++ b)) =
      joinSegs m1 (List.replicate c a) ++ joinSegs m2 (List.replicate c b) := by
  have h := joinSegs_append_cols (fun _ : Unit => a) (fun _ => b) (List.replicate c ())
    (fun _ _ => ha) (fun _ _ => hb)
  simpa only [List.map_replicate] using h

theorem joinSegs_replicate_nil : ∀ c, joinSegs 0 (List.replicate c ([] : Cols)) = []
  | 0 => rfl
  | c + 1 => by simp [List.replicate_succ, joinSegs_cons, zipApp]

theorem wrLeaf_sound : Sound .leaf wrLeaf := by
  intro dm r k
  refine ⟨?_, ?_, ?_⟩
  · intro vs hvs
    have hrhs : vs.map (shredN .leaf r k dm) = vs.map (fun v => [[(⟨payload v, r, dm⟩ : Triple)]]) := by
      apply map_congr_mem
      intro v _
      cases v <;> simp [shredN, payload]
    rw [hrhs]
    have := joinSegs_one_col (fun v => [(⟨payload v, r, dm⟩ : Triple)]) vs
    simp only [leavesN]
    rw [this]
    cases vs with
    | nil => exact absurd rfl hvs
    | cons v vs' =>
      simp only [wrLeaf, if_true]
      congr 1
      induction (v :: vs') with
      | nil => rfl
      | cons x xs ih => simp [List.flatMap_cons, ih]
  · intro d hd
    have : dm ≠ 0 := by omega
    simp [wrLeaf, this, absentN]
  · intro d hd c
    have hne : d ≠ dm := by omega
    simp only [leavesN, absentN]
    rw [joinSegs_replicate_one]
    simp [wrLeaf, List.replicate_succ, hne]

theorem wrPointer_sound {n : Node} {f : Nat → WriteRows} (h : Sound n f) :
    Sound (.opt n) (fun dm => wrPointer (leavesN n) (f (dm + 1))) := by
  intro dm r k
  refine ⟨?_, ?_, ?_⟩
  · intro vs hvs
    simp only [wrPointer, isEmpty_false_of_ne hvs, leavesN, Bool.false_eq_true, if_false]
    congr 1
    apply map_congr_mem
    intro v _
    rw [shredN_opt]
    cases v with
    | some w =>
      simp only []
      rw [(h (dm + 1) r k).1 [w] (by simp)]
      exact joinSegs_singleton (shredN_length n r k (dm + 1) w)
    | prim x => exact (h (dm + 1) r k).2.1 dm (by omega)
    | none => exact (h (dm + 1) r k).2.1 dm (by omega)
    | struct vs => exact (h (dm + 1) r k).2.1 dm (by omega)
    | list ws => exact (h (dm + 1) r k).2.1 dm (by omega)
  · intro d hd
    simp only [wrPointer, List.isEmpty_nil, if_true, absentN]
    exact (h (dm + 1) r k).2.1 d (by omega)
  · intro d hd c
    simp only [wrPointer, isEmpty_false_of_ne (replicate_succ_ne_nil c _), Bool.false_eq_true, if_false,
      List.map_replicate, absentN, leavesN]
    rw [(h (dm + 1) r k).2.1 d (by omega)]

/-- The slice wrapper over a sound element writer, against any `S` that has the shape of
`shredN (.rpt e)` through the element accessor `get`. -/
theorem wrSlice_rows {e : Node} {f : Nat → WriteRows} (h : Sound e f) (get : Val → List Val)
    (S : Nat → Nat → Nat → Val → Cols)
    (hS : ∀ r k d v, S r k d v =
      match get v with
      | [] => absentN e r d
      | w :: ws => zipApp (shredN e r (k + 1) (d + 1) w)
          (joinSegs (leavesN e) (ws.map (shredN e (k + 1) (k + 1) (d + 1)))))
    (dm r k : Nat) (vs : List Val) (hvs : vs ≠ []) :
    wrSlice (leavesN e) get (f (dm + 1)) r k dm vs = joinSegs (leavesN e) (vs.map (S r k dm)) := by
  simp only [wrSlice, isEmpty_false_of_ne hvs, Bool.false_eq_true, if_false]
  congr 1
  apply map_congr_mem
  intro v _
  rw [hS]
  cases get v with
  | nil => exact (h (dm + 1) r (k + 1)).2.1 dm (by omega)
  | cons w ws =>
    simp only []
    rw [(h (dm + 1) r (k + 1)).1 [w] (by simp)]
    have e1 : joinSegs (leavesN e) ([w].map (shredN e r (k + 1) (dm + 1))) = shredN e r (k + 1) (dm + 1) w :=
      joinSegs_singleton (shredN_length e r (k + 1) (dm + 1) w)
    rw [e1]
    cases ws with
    | nil => simp [joinSegs]
    | cons w' ws' =>
      simp only [List.isEmpty_cons]
      rw [(h (dm + 1) (k + 1) (k + 1)).1 (w' :: ws') (by simp)]
      rfl

theorem wrSlice_empty (m : Nat) (get : Val → List Val) (inner : WriteRows) (r k d : Nat) :
    wrSlice m get inner r k d [] = inner r k d [] := by
  simp [wrSlice]

/-- The slice wrapper on rows holding nil slices (what `get` reads from the zero value) below the
node's definition level: one placeholder of the element per row. -/
theorem wrSlice_zeros {e : Node} {f : Nat → WriteRows} (h : Sound e f) (get : Val → List Val)
    (hget : get Val.none = []) (dm r k d c : Nat) (hd : d < dm + 1) :
    wrSlice (leavesN e) get (f (dm + 1)) r k d (List.replicate (c + 1) Val.none) =
      joinSegs (leavesN e) (List.replicate (c + 1) (absentN e r d)) := by
  simp only [wrSlice, isEmpty_false_of_ne (replicate_succ_ne_nil c _), Bool.false_eq_true, if_false,
    List.map_replicate, hget]
  rw [(h (dm + 1) r (k + 1)).2.1 d hd]

theorem elemsS_none : elemsS Val.none = [] := rfl
theorem elemsL_none : elemsL Val.none = [] := by simp [elemsL, fieldsOf, hd, elemsS]
theorem elemsM_none : elemsM Val.none = [] := by simp [elemsM, fieldsOf, hd, elemsS]

theorem wrSlice_sound {e : Node} {f : Nat → WriteRows} (h : Sound e f) :
    Sound (.rpt e) (fun dm => wrSlice (leavesN e) elemsS (f (dm + 1))) := by
  intro dm r k
  refine ⟨?_, ?_, ?_⟩
  · intro vs hvs
    simp only [leavesN]
    exact wrSlice_rows h elemsS (fun r k d v => shredN (.rpt e) r k d v) (fun r k d v => shredN_rpt e r k d v) dm r k vs hvs
  · intro d hd
    show wrSlice (leavesN e) elemsS (f (dm + 1)) r k d [] = _
    rw [wrSlice_empty]
    simp only [absentN]
    exact (h (dm + 1) r k).2.1 d (by omega)
  · intro d hd c
    simp only [leavesN, absentN]
    exact wrSlice_zeros h elemsS elemsS_none dm r k d c (by omega)

theorem wrList_sound {e : Node} {f : Nat → WriteRows} (h : Sound e f) :
    Sound (listNode e) (fun dm => wrSlice (leavesN e) elemsL (f (dm + 1))) := by
  intro dm r k
  refine ⟨?_, ?_, ?_⟩
  · intro vs hvs
    rw [leavesN_listNode]
    exact wrSlice_rows h elemsL (fun r k d v => shredN (listNode e) r k d v) (fun r k d v => shredN_listNode e r k d v) dm r k vs hvs
  · intro d hd
    show wrSlice (leavesN e) elemsL (f (dm + 1)) r k d [] = _
    rw [wrSlice_empty, absentN_listNode]
    exact (h (dm + 1) r k).2.1 d (by omega)
  · intro d hd c
    rw [leavesN_listNode, absentN_listNode]
    exact wrSlice_zeros h elemsL elemsL_none dm r k d c (by omega)

theorem wrOptList_sound {e : Node} {f : Nat → WriteRows} (h : Sound e f) :
    Sound (.opt (listNode e))
      (fun dm => wrOptionalSlice (leavesN e) (wrSlice (leavesN e) elemsL (f (dm + 2)))) := by
  intro dm r k
  have hl := wrList_sound h
  have habs : ∀ d, d < dm + 2 →
      wrSlice (leavesN e) elemsL (f (dm + 2)) r k d [Val.none] = absentN (listNode e) r d := by
    intro d hd
    have := wrSlice_zeros h elemsL elemsL_none (dm + 1) r k d 0 hd
    simp only [Nat.zero_add, List.replicate_one] at this
    rw [this, absentN_listNode]
    exact joinSegs_singleton (absentN_length e r d)
  refine ⟨?_, ?_, ?_⟩
  · intro vs hvs
    simp only [wrOptionalSlice, isEmpty_false_of_ne hvs, leavesN, Bool.false_eq_true, if_false]
    rw [show leavesN (listNode e) = leavesN e from leavesN_listNode e]
    congr 1
    apply map_congr_mem
    intro v _
    rw [shredN_opt]
    cases v with
    | some w =>
      simp only []
      have := (hl (dm + 1) r k).1 [w] (by simp)
      simp only [] at this
      rw [this, leavesN_listNode]
      exact joinSegs_singleton (by rw [shredN_length, leavesN_listNode])
    | prim x => exact habs dm (by omega)
    | none => exact habs dm (by omega)
    | struct vs => exact habs dm (by omega)
    | list ws => exact habs dm (by omega)
  · intro d hd
    simp only [wrOptionalSlice, List.isEmpty_nil, if_true, absentN]
    rw [wrSlice_empty]
    have := (h (dm + 2) r k).2.1 d (by omega)
    rw [this]
    simp [listNode, absentN, absentF]
  · intro d hd c
    simp only [wrOptionalSlice, isEmpty_false_of_ne (replicate_succ_ne_nil c _), Bool.false_eq_true,
      if_false, List.map_replicate, leavesN, absentN]
    rw [habs d (by omega), leavesN_listNode]

/-! ## the optional non-pointer wrapper: the runs of the bitmap scan write the null pattern -/

theorem mem_sliceRows {vs : List Val} {i j : Nat} {v : Val} (h : v ∈ sliceRows vs i j) :
    ∃ p, i ≤ p ∧ p < j ∧ vs[p]? = some v := by
  rcases List.mem_iff_getElem?.mp h with ⟨q, hq⟩
  simp only [sliceRows, List.getElem?_take, List.getElem?_drop] at hq
  split at hq
  · exact ⟨i + q, by omega, by omega, hq⟩
  · cases hq

theorem sliceRows_append (vs : List Val) {s j e : Nat} (h1 : s ≤ j) (h2 : j ≤ e) :
    sliceRows vs s j ++ sliceRows vs j e = sliceRows vs s e := by
  simp only [sliceRows]
  rw [show e - s = (j - s) + (e - j) by omega, List.take_add, List.drop_drop,
    show s + (j - s) = j by omega]

theorem sliceRows_length (vs : List Val) {i j : Nat} (h : j ≤ vs.length) :
    (sliceRows vs i j).length = j - i := by
  simp only [sliceRows, List.length_take, List.length_drop]; omega

/-! ## structs, and the induction over the Go type -/

def SoundF (fs : Fields) (g : Nat → Nat → Nat → Nat → List (List Val) → Cols) : Prop :=
  ∀ dm r k,
    (∀ vss, vss ≠ [] → g dm r k dm vss = joinSegs (leavesF fs) (vss.map (shredF fs r k dm))) ∧
    (∀ d, d < dm → g dm r k d [] = absentF fs r d) ∧
    (∀ d, d < dm → ∀ c, g dm r k d (List.replicate (c + 1) []) =
      joinSegs (leavesF fs) (List.replicate (c + 1) (absentF fs r d)))

theorem joinSegs_zero {α : Type} : ∀ (xs : List α), joinSegs 0 (xs.map fun _ => ([] : Cols)) = []
  | [] => rfl
  | _ :: xs => by simp [joinSegs_cons, zipApp]

theorem map_ne_nil {α β : Type} {f : α → β} {l : List α} (h : l ≠ []) : l.map f ≠ [] := by
  cases l with
  | nil => exact absurd rfl h
  | cons _ _ => simp

/-! ## maps, and the bitmap branch of the optional wrapper over any sound writer -/

theorem zipApp_assoc : ∀ (A B C : Cols), zipApp (zipApp A B) C = zipApp A (zipApp B C)
  | [], _, _ => by simp [zipApp]
  | _ :: _, [], _ => by simp [zipApp]
  | _ :: _, _ :: _, [] => by simp [zipApp]
  | a :: as, b :: bs, c :: cs => by simp [zipApp, zipApp_assoc as bs cs]

theorem replicate_zipApp : ∀ (B : Cols), zipApp (List.replicate B.length []) B = B
  | [] => rfl
  | b :: bs => by simp [List.replicate_succ, zipApp, replicate_zipApp bs]

theorem joinSegs_append {m : Nat} : ∀ (xs ys : List Cols), (∀ s ∈ ys, s.length = m) →
    joinSegs m (xs ++ ys) = zipApp (joinSegs m xs) (joinSegs m ys)
  | [], ys, hy => by
    have hl : (joinSegs m ys).length = m := joinSegs_length hy
    have h := replicate_zipApp (joinSegs m ys)
    rw [hl] at h
    simpa [joinSegs] using h.symm
  | x :: xs, ys, hy => by
    simp only [List.cons_append, joinSegs_cons]
    rw [joinSegs_append xs ys hy, zipApp_assoc]

/-- the writer of `group key_value { key; value }` over the entries of a map: keys to the key
writer, values to the value writer -/
def wrPair (fk fv : Nat → WriteRows) : Nat → WriteRows := fun dm r k d vs =>
  fk dm r k d (keysOf vs) ++ fv dm r k d (valsOf vs)

theorem shredN_pair (K V : Node) (r k d : Nat) (v : Val) :
    shredN (pairNode K V) r k d v =
      shredN K r k d (hd (fieldsOf v)) ++ shredN V r k d (hd (fieldsOf v).tail) := by
  unfold pairNode
  rw [shredN_group, shredF_cons, shredF_cons]
  simp [shredF]

theorem leavesN_pairNode (K V : Node) : leavesN (pairNode K V) = leavesN K + leavesN V := by
  simp [pairNode, leavesN, leavesF]

theorem leavesN_mapNode (K V : Node) : leavesN (mapNode K V) = leavesN K + leavesN V := by
  simp [mapNode, pairNode, leavesN, leavesF]

theorem absentN_mapNode (K V : Node) (r d : Nat) :
    absentN (mapNode K V) r d = absentN K r d ++ absentN V r d := by
  simp [mapNode, pairNode, absentN, absentF]

theorem absentN_pairNode (K V : Node) (r d : Nat) :
    absentN (pairNode K V) r d = absentN K r d ++ absentN V r d := by
  simp [pairNode, absentN, absentF]

theorem pair_sound {K V : Node} {fk fv : Nat → WriteRows} (hk : Sound K fk) (hv : Sound V fv) :
    Sound (pairNode K V) (wrPair fk fv) := by
  intro dm r k
  refine ⟨?_, ?_, ?_⟩
  · intro vs hvs
    have hkn : keysOf vs ≠ [] := map_ne_nil (map_ne_nil hvs)
    have hvn : valsOf vs ≠ [] := map_ne_nil (map_ne_nil (map_ne_nil hvs))
    simp only [wrPair]
    rw [(hk dm r k).1 _ hkn, (hv dm r k).1 _ hvn, leavesN_pairNode]
    have hrhs : vs.map (shredN (pairNode K V) r k dm) =
        vs.map (fun v => (fun v => shredN K r k dm (hd (fieldsOf v))) v ++
          (fun v => shredN V r k dm (hd (fieldsOf v).tail)) v) :=
      map_congr_mem (fun v _ => shredN_pair K V r k dm v)
    rw [hrhs, joinSegs_append_cols _ _ vs (fun v _ => shredN_length K r k dm _)
      (fun v _ => shredN_length V r k dm _)]
    simp [keysOf, valsOf, List.map_map, Function.comp_def]
  · intro d hd'
    simp only [wrPair, keysOf, valsOf, List.map_nil]
    rw [(hk dm r k).2.1 d hd', (hv dm r k).2.1 d hd']
    simp [pairNode, absentN, absentF]
  · intro d hd' c
    have hks : keysOf (List.replicate (c + 1) Val.none) = List.replicate (c + 1) Val.none := by
      simp [keysOf, List.map_replicate, fieldsOf, hd]
    have hvs : valsOf (List.replicate (c + 1) Val.none) = List.replicate (c + 1) Val.none := by
      simp [valsOf, List.map_replicate, fieldsOf, hd]
    simp only [wrPair]
    rw [hks, hvs, (hk dm r k).2.2 d hd' c, (hv dm r k).2.2 d hd' c, leavesN_pairNode, absentN_pairNode]
    exact (joinSegs_replicate_append (absentN_length K r d) (absentN_length V r d) (c + 1)).symm

theorem shredN_mapNode (K V : Node) (r k d : Nat) (v : Val) :
    shredN (mapNode K V) r k d v =
      match elemsM v with
      | [] => absentN (pairNode K V) r d
      | w :: ws => zipApp (shredN (pairNode K V) r (k + 1) (d + 1) w)
          (joinSegs (leavesN (pairNode K V)) (ws.map (shredN (pairNode K V) (k + 1) (k + 1) (d + 1)))) := by
  unfold mapNode elemsM
  rw [shredN_group1, shredN_rpt]

theorem wrMap_eq_wrSlice (mk mv : Nat) (keyW valW : WriteRows) (r k d : Nat) (vs : List Val) :
    wrMap mk mv keyW valW r k d vs =
      wrSlice (mk + mv) elemsM (fun r k d xs => keyW r k d (keysOf xs) ++ valW r k d (valsOf xs)) r k d vs := by
  simp only [wrMap, wrSlice, keysOf, valsOf, List.map_nil]

theorem wrMap_sound {K V : Node} {fk fv : Nat → WriteRows} (hk : Sound K fk) (hv : Sound V fv) :
    Sound (mapNode K V) (fun dm => wrMap (leavesN K) (leavesN V) (fk (dm + 1)) (fv (dm + 1))) := by
  intro dm r k
  refine ⟨?_, ?_, ?_⟩
  · intro vs hvs
    have h := wrSlice_rows (pair_sound hk hv) elemsM (fun r k d v => shredN (mapNode K V) r k d v)
      (fun r k d v => shredN_mapNode K V r k d v) dm r k vs hvs
    rw [leavesN_pairNode] at h
    show wrMap (leavesN K) (leavesN V) (fk (dm + 1)) (fv (dm + 1)) r k dm vs = _
    rw [leavesN_mapNode, wrMap_eq_wrSlice]
    exact h
  · intro d hd'
    show wrMap (leavesN K) (leavesN V) (fk (dm + 1)) (fv (dm + 1)) r k d [] = _
    simp only [wrMap, List.isEmpty_nil, if_true]
    rw [(hk (dm + 1) r k).2.1 d (by omega), (hv (dm + 1) r k).2.1 d (by omega), absentN_mapNode]
  · intro d hd' c
    have h := wrSlice_zeros (pair_sound hk hv) elemsM elemsM_none dm r k d c (by omega)
    rw [leavesN_pairNode, absentN_pairNode] at h
    show wrMap (leavesN K) (leavesN V) (fk (dm + 1)) (fv (dm + 1)) r k d _ = _
    rw [leavesN_mapNode, absentN_mapNode, wrMap_eq_wrSlice]
    exact h

theorem chain_write_gen {n : Node} {f : Nat → WriteRows} (h : Sound n f)
    (hz : ∀ dm r k (vs : List Val), vs ≠ [] → (∀ v ∈ vs, isSome v = false) →
      f (dm + 1) r k dm (vs.map unopt) = joinSegs (leavesN n) (vs.map fun _ => absentN n r dm))
    (vs : List Val) (ws : List (BitVec 64)) (r k dm : Nat)
    (hbits : ∀ p v, vs[p]? = some v → bitAt ws p = isSome v) :
    ∀ (runs : List Run) (s e : Nat), Chain ws s e runs → e ≤ vs.length →
      joinSegs (leavesN n) (runs.map fun run =>
        f (dm + 1) r k (if run.isNull then dm else dm + 1) ((sliceRows vs run.i run.j).map unopt)) =
      joinSegs (leavesN n) ((sliceRows vs s e).map (shredN (.opt n) r k dm))
  | [], s, e, hc, _ => by
    simp only [Chain] at hc
    subst hc
    simp [joinSegs, sliceRows]
  | run :: rs, s, e, hc, he => by
    have hle := chain_le hc
    simp only [Chain] at hc
    rcases hc with ⟨hs, hlt, hb, hrest⟩
    have hle2 := chain_le hrest
    have ih := chain_write_gen h hz vs ws r k dm hbits rs run.j e hrest he
    simp only [List.map_cons, joinSegs_cons]
    rw [ih]
    have hlen : (sliceRows vs run.i run.j).length = run.j - run.i := sliceRows_length vs (by omega)
    have hne : sliceRows vs run.i run.j ≠ [] := by
      intro h0
      rw [h0] at hlen
      simp at hlen
      omega
    have hrun : f (dm + 1) r k (if run.isNull then dm else dm + 1) ((sliceRows vs run.i run.j).map unopt) =
        joinSegs (leavesN n) ((sliceRows vs run.i run.j).map (shredN (.opt n) r k dm)) := by
      cases hn : run.isNull with
      | true =>
        have hall : ∀ v ∈ sliceRows vs run.i run.j, isSome v = false := by
          intro v hv
          rcases mem_sliceRows hv with ⟨p, hp1, hp2, hp3⟩
          have hbit := hb p hp1 hp2
          rw [hbits p v hp3, hn] at hbit
          simpa using hbit
        simp only [if_true]
        rw [hz dm r k _ hne hall]
        congr 1
        apply map_congr_mem
        intro v hv
        have := hall v hv
        rw [shredN_opt]
        cases v <;> simp [isSome] at this <;> rfl
      | false =>
        have hall : ∀ v ∈ sliceRows vs run.i run.j, isSome v = true := by
          intro v hv
          rcases mem_sliceRows hv with ⟨p, hp1, hp2, hp3⟩
          have hbit := hb p hp1 hp2
          rw [hbits p v hp3, hn] at hbit
          simpa using hbit
        simp only [Bool.false_eq_true, if_false]
        rw [(h (dm + 1) r k).1 _ (map_ne_nil hne), List.map_map]
        congr 1
        apply map_congr_mem
        intro v hv
        have := hall v hv
        rw [shredN_opt]
        cases v <;> simp [isSome] at this
        simp [unopt]
    have hys : ∀ s' ∈ (sliceRows vs run.j e).map (shredN (.opt n) r k dm), s'.length = leavesN n := by
      intro s' hs'
      rcases List.mem_map.mp hs' with ⟨v, _, rfl⟩
      rw [shredN_length]
      simp [leavesN]
    rw [hrun, ← hs, ← joinSegs_append _ _ hys, ← List.map_append, sliceRows_append vs (by omega) hle2]

/-- the rows of a null run hold the zero value -/
theorem map_unopt_of_null {vs : List Val} (h : ∀ v ∈ vs, isSome v = false) :
    vs.map unopt = List.replicate vs.length Val.none := by
  apply List.eq_replicate_iff.mpr
  refine ⟨by simp, ?_⟩
  intro b hb
  rcases List.mem_map.mp hb with ⟨v, hv, rfl⟩
  have := h v hv
  cases v <;> simp [isSome] at this <;> rfl

/-- A batch of zero values through the bitmap branch below the node's definition level: the null
index has no bit set, every run of the scan is a null run, and the runs together hand the inner
writer every row once. -/
theorem chain_write_zeros (m : Nat) (g : Nat → List Val → Cols) (a : Cols) (d : Nat)
    (hg : ∀ c, g d (List.replicate (c + 1) Val.none) = joinSegs m (List.replicate (c + 1) a))
    (ha : a.length = m) (vs : List Val) (hall : ∀ v ∈ vs, isSome v = false) (ws : List (BitVec 64))
    (hbits : ∀ p, p < vs.length → bitAt ws p = false) :
    ∀ (runs : List Run) (s e : Nat), Chain ws s e runs → e ≤ vs.length →
      joinSegs m (runs.map fun run =>
        g (if run.isNull then d else d + 1) ((sliceRows vs run.i run.j).map unopt)) =
      joinSegs m (List.replicate (e - s) a)
  | [], s, e, hc, _ => by
    simp only [Chain] at hc
    subst hc
    simp [joinSegs]
  | run :: rs, s, e, hc, he => by
    simp only [Chain] at hc
    rcases hc with ⟨hs, hlt, hb, hrest⟩
    have hle2 := chain_le hrest
    have ih := chain_write_zeros m g a d hg ha vs hall ws hbits rs run.j e hrest he
    have hnull : run.isNull = true := by
      have h1 := hb run.i (Nat.le_refl _) hlt
      rw [hbits run.i (by omega)] at h1
      cases hn : run.isNull with
      | true => rfl
      | false => rw [hn] at h1; simp at h1
    have hsl : (sliceRows vs run.i run.j).map unopt = List.replicate (run.j - run.i) Val.none := by
      have hall' : ∀ v ∈ sliceRows vs run.i run.j, isSome v = false := by
        intro v hv
        rcases mem_sliceRows hv with ⟨p, _, _, hp⟩
        exact hall v (List.mem_of_getElem? hp)
      rw [map_unopt_of_null hall', sliceRows_length vs (by omega)]
    obtain ⟨c, hc⟩ : ∃ c, run.j - run.i = c + 1 := ⟨run.j - run.i - 1, by omega⟩
    have hys : ∀ s' ∈ List.replicate (e - run.j) a, s'.length = m := by
      intro s' hs'
      rw [(List.mem_replicate.mp hs').2, ha]
    simp only [List.map_cons, joinSegs_cons]
    rw [ih, hnull, hsl, hc]
    simp only [if_true]
    rw [hg c, ← joinSegs_append _ _ hys, List.replicate_append_replicate]
    congr 2
    omega

/-- The bitmap branch of `writeRowsFuncOfOptional` over any sound writer: the null index of the
rows, the run scan, one call per run — null runs (rows holding the zero value) at the parent's
definition level. -/
theorem wrOptional_sound {n : Node} {f : Nat → WriteRows} (h : Sound n f) :
    Sound (.opt n) (fun dm => wrOptional (leavesN n) (f (dm + 1))) := by
  intro dm r k
  have hz : ∀ dm r k (vs : List Val), vs ≠ [] → (∀ v ∈ vs, isSome v = false) →
      f (dm + 1) r k dm (vs.map unopt) = joinSegs (leavesN n) (vs.map fun _ => absentN n r dm) := by
    intro dm r k vs hvs hall
    obtain ⟨c, hc⟩ : ∃ c, vs.length = c + 1 :=
      ⟨vs.length - 1, by have := List.length_pos_iff.mpr hvs; omega⟩
    rw [map_unopt_of_null hall, List.map_const', hc]
    exact (h (dm + 1) r k).2.2 dm (by omega) c
  refine ⟨?_, ?_, ?_⟩
  · intro vs hvs
    have hidx := nullIndex_spec isSome vs
    rcases scan_spec (nullIndex isSome vs) vs.length hidx.2.1 vs.length 0 (Nat.zero_le _) (by omega)
      with ⟨runs, hruns, hchain, _⟩
    have hbits : ∀ p v, vs[p]? = some v → bitAt (nullIndex isSome vs) p = isSome v := by
      intro p v hp
      rw [hidx.2.2 p, hp]; rfl
    have hw := chain_write_gen h hz vs (nullIndex isSome vs) r k dm hbits runs 0 vs.length hchain (Nat.le_refl _)
    simp only [wrOptional, wrOptionalWith, isEmpty_false_of_ne hvs, Bool.false_eq_true, if_false, nullRuns, hruns]
    rw [hw]
    simp [sliceRows, leavesN]
  · intro d hd'
    simp only [wrOptional, wrOptionalWith, List.isEmpty_nil, if_true, absentN]
    exact (h (dm + 1) r k).2.1 d (by omega)
  · intro d hd' c
    generalize hvs : List.replicate (c + 1) Val.none = vs
    have hne : vs ≠ [] := by rw [← hvs]; exact replicate_succ_ne_nil c _
    have hlen : vs.length = c + 1 := by rw [← hvs]; simp
    have hall : ∀ v ∈ vs, isSome v = false := by
      intro v hv
      rw [← hvs] at hv
      rw [(List.mem_replicate.mp hv).2]; rfl
    have hidx := nullIndex_spec isSome vs
    rcases scan_spec (nullIndex isSome vs) vs.length hidx.2.1 vs.length 0 (Nat.zero_le _) (by omega)
      with ⟨runs, hruns, hchain, _⟩
    have hbits : ∀ p, p < vs.length → bitAt (nullIndex isSome vs) p = false := by
      intro p hp
      rw [hidx.2.2 p, List.getElem?_eq_getElem hp]
      exact hall _ (List.getElem_mem hp)
    have hw := chain_write_zeros (leavesN n) (f (dm + 1) r k) (absentN n r d) d
      (fun c => (h (dm + 1) r k).2.2 d (by omega) c) (absentN_length n r d) vs hall
      (nullIndex isSome vs) hbits runs 0 vs.length hchain (Nat.le_refl _)
    simp only [wrOptional, wrOptionalWith, isEmpty_false_of_ne hne, Bool.false_eq_true, if_false, nullRuns, hruns]
    rw [hw, hlen]
    simp [leavesN, absentN]

theorem wrOptMap_sound {K V : Node} {fk fv : Nat → WriteRows} (hk : Sound K fk) (hv : Sound V fv) :
    Sound (.opt (mapNode K V)) (fun dm => wrOptional (leavesN K + leavesN V)
      (wrMap (leavesN K) (leavesN V) (fk (dm + 2)) (fv (dm + 2)))) := by
  have h := wrOptional_sound (wrMap_sound hk hv)
  intro dm r k
  have h' := h dm r k
  rw [leavesN_mapNode] at h'
  exact h'

/-- the writer of a struct node from the writer of its fields (`writeRowsFuncOfStruct`) -/
theorem struct_sound {fs : Fields} {g : Nat → Nat → Nat → Nat → List (List Val) → Cols} (h : SoundF fs g) :
    Sound (.group fs) (fun dm r k d vs => g dm r k d (vs.map fieldsOf)) := by
  intro dm r k
  have h' := h dm r k
  refine ⟨?_, ?_, ?_⟩
  · intro vs hvs
    simp only [leavesN]
    rw [h'.1 (vs.map fieldsOf) (map_ne_nil hvs), List.map_map]
    congr 1
    apply map_congr_mem
    intro v _
    simp [shredN_group]
  · intro d hd
    simp only [absentN, List.map_nil]
    exact h'.2.1 d hd
  · intro d hd c
    simp only [leavesN, absentN, List.map_replicate, fieldsOf]
    exact h'.2.2 d hd c

/-- A non-pointer struct with the `optional` tag: the bitmap branch over the struct writer; the zero
struct is null, and the rows of a null run reach every field writer as zero values. -/
theorem wrOptStruct_sound {fs : Fields} {g : Nat → Nat → Nat → Nat → List (List Val) → Cols}
    (h : SoundF fs g) :
    Sound (.opt (.group fs))
      (fun dm => wrOptional (leavesF fs) (fun r k d vs => g (dm + 1) r k d (vs.map fieldsOf))) := by
  have h1 := wrOptional_sound (struct_sound h)
  intro dm r k
  have h' := h1 dm r k
  simp only [leavesN] at h'
  exact h'

mutual
theorem tyN_sound (n : TNode) : Sound (erase n) (tyN n) := by
  cases n with
  | leaf =>
    intro dm r k
    have h := wrLeaf_sound dm r k
    simpa only [tyN, erase] using h
  | optLeaf =>
    intro dm r k
    have h := wrOptional_sound wrLeaf_sound dm r k
    simpa only [tyN, erase, leavesN] using h
  | struct fs =>
    intro dm r k
    have h := struct_sound (tyF_sound fs) dm r k
    simpa only [tyN, erase] using h
  | ptr n =>
    intro dm r k
    have h := wrPointer_sound (tyN_sound n) dm r k
    simpa only [tyN, erase] using h
  | slice n =>
    intro dm r k
    have h := wrSlice_sound (tyN_sound n) dm r k
    simpa only [tyN, erase] using h
  | list n =>
    intro dm r k
    have h := wrList_sound (tyN_sound n) dm r k
    simpa only [tyN, erase] using h
  | optList n =>
    intro dm r k
    have h := wrOptList_sound (tyN_sound n) dm r k
    simpa only [tyN, erase] using h
  | map kn vn =>
    intro dm r k
    have h := wrMap_sound (tyN_sound kn) (tyN_sound vn) dm r k
    simpa only [tyN, erase] using h
  | optMap kn vn =>
    intro dm r k
    have h := wrOptMap_sound (tyN_sound kn) (tyN_sound vn) dm r k
    simpa only [tyN, erase] using h
  | optStruct fs =>
    intro dm r k
    have h := wrOptStruct_sound (tyF_sound fs) dm r k
    simpa only [tyN, erase] using h
theorem tyF_sound (fs : TFields) : SoundF (eraseF fs) (tyF fs) := by
  cases fs with
  | nil =>
    intro dm r k
    refine ⟨?_, ?_, ?_⟩
    · intro vss _
      simp only [tyF, eraseF, leavesF]
      have : vss.map (shredF .nil r k dm) = vss.map (fun _ => ([] : Cols)) :=
        map_congr_mem (fun vs _ => by simp [shredF])
      rw [this, joinSegs_zero]
    · intro d _
      simp [tyF, eraseF, absentF]
    · intro d _ c
      simp only [tyF, eraseF, leavesF, absentF]
      exact (joinSegs_replicate_nil (c + 1)).symm
  | cons n fs =>
    intro dm r k
    have hn := tyN_sound n dm r k
    have hf := tyF_sound fs dm r k
    refine ⟨?_, ?_, ?_⟩
    · intro vss hvss
      simp only [tyF, eraseF, leavesF]
      rw [hn.1 (vss.map hd) (map_ne_nil hvss), hf.1 (vss.map List.tail) (map_ne_nil hvss),
        List.map_map, List.map_map]
      have hrhs : vss.map (shredF (.cons (erase n) (eraseF fs)) r k dm) =
          vss.map (fun vs => (shredN (erase n) r k dm ∘ hd) vs ++ (shredF (eraseF fs) r k dm ∘ List.tail) vs) :=
        map_congr_mem (fun vs _ => by simp [shredF_cons])
      rw [hrhs]
      exact (joinSegs_append_cols _ _ vss
        (fun vs _ => shredN_length (erase n) r k dm (hd vs))
        (fun vs _ => shredF_length (eraseF fs) r k dm vs.tail)).symm
    · intro d hd'
      simp only [tyF, eraseF, absentF, List.map_nil]
      rw [hn.2.1 d hd', hf.2.1 d hd']
    · intro d hd' c
      simp only [tyF, eraseF, leavesF, absentF, List.map_replicate, hd, List.tail_nil]
      rw [hn.2.2 d hd' c, hf.2.2 d hd' c]
      exact (joinSegs_replicate_append (absentN_length (erase n) r d) (absentF_length (eraseF fs) r d) (c + 1)).symm
end

/-- The typed write path and the reflection path produce the same column streams: for every Go
type of `TNode` and every batch of rows, one `Write(batch)` through the typed `writeRowsFunc`
appends to every leaf column exactly the concatenation of `shred row` over the rows. -/
theorem typedWrite_eq_shred (n : TNode) (batch : List Val) :
    typedWrite n batch =
      joinSegs (leavesN (erase n)) (batch.map (shredN (erase n) 0 0 0)) := by
  unfold typedWrite
  cases batch with
  | nil => simp [joinSegs]
  | cons v vs =>
    simp only [List.isEmpty_cons, Bool.false_eq_true, if_false]
    exact (tyN_sound n 0 0 0).1 (v :: vs) (by simp)

end PqModel.TypedPath
