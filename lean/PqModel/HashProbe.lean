/-! # hashprobe: the open-addressing probing tables (C04, round 6)

MIRROR of `hashprobe/hashprobe.go` (portable code): `multiProbe32Default` :292-330,
`multiProbe64Default` :537-575, `multiProbe128Default` :753-783, `table32.grow` :204-239,
`table64.grow` :449-484, `table128.grow`/`insert` :645-700, `probeArray` :253-290 / :498-535 / :714-751.

One generic model serves the three tables; `G` is the group size (7 for table32, 4 for table64, 1 for
table128: a slot of table128 holding `value+1 ≠ 0` is a full group of one entry, `0` an empty group).

Reading of the code:
* a group is modelled by its occupied prefix `keys[:n]`, `values[:n]` with `n = OnesCount32(bits)` (`bits`
  is only ever `0` or `(bits<<1)|1`, i.e. `2^n-1`), as a list of `(key, value)` pairs. The Go scan
  `for j, k := range group.keys` runs over all `G` slots, but its result is used only under
  `index < n`, and the first match of the whole array is `< n` iff the prefix holds the key; so it is
  the first match in the prefix.
* `hash` is a `Nat`; `uintptr` wrap-around of `hash++` is invisible because the table length divides 2^64.
  `hash & modulo` is mirrored as written (`&&& (len-1)`).
* the seeded hash function (aeshash / wyhash keyed by `t.seed`) is a field `h : α → Nat` of the table: an
  ARBITRARY function. `grow` draws a new seed (`randSeed`), mirrored as an argument `h'`.
* `tableSizeAndMaxLen` (float64 arithmetic) is an argument `sz : Nat → Nat × Nat` (number of groups, maxLen);
  the theorems need only `SizingOk` (power of two, room for the requested values, maxLen within the room).
* an endless `for { … hash++ }` loop is `none` (fuel = number of groups; the theorems show it never happens).
* the 256-key batches of `probeArray` are mirrored (`probeLoop`) and proved equal to one `multiProbe` over
  all keys (`probeLoop_eq_multiProbe`); the hashes of a batch are `h` of its keys (pure function of key and seed).
* `table128.grow` re-inserts every slot, empty ones included; an empty slot writes value 0 = "still empty",
  so only occupied slots matter (mirrored as those).
-/
namespace PqModel.HashProbe

variable {α : Type} [DecidableEq α]

/-- first entry of an association list with this key (the key scan of a group; also the SPEC lookup) -/
def gfind (k : α) : List (α × Nat) → Option Nat
  | [] => none
  | (a, v) :: rest => if a = k then some v else gfind k rest

/-- `hash & modulo`, `modulo = len(table) - 1` (hashprobe.go:293,298) -/
def slot (size hash : Nat) : Nat := hash &&& (size - 1)

abbrev Groups (α : Type) := List (List (α × Nat))

/-- the `for { group := &table[hash&modulo] … hash++ }` walk of one key (hashprobe.go:297-326): where it
    stops and whether the key was found there (`some v`) or the group has room (`none`) -/
def locate (G : Nat) : Nat → Groups α → Nat → α → Option (Nat × Option Nat)
  | 0, _, _, _ => none
  | fuel + 1, gs, hash, key =>
    let p := slot gs.length hash
    let g := gs.getD p []
    match gfind key g with
    | some v => some (p, some v)
    | none => if g.length = G then locate G fuel gs (hash + 1) key else some (p, none)

/-- `group.bits = (group.bits << 1) | 1; group.keys[n] = key; group.values[n] = value` -/
def putAt (gs : Groups α) (p : Nat) (kv : α × Nat) : Groups α := gs.set p (gs.getD p [] ++ [kv])

/-- one key of `multiProbeNNDefault`: returns the table, `numKeys` and `values[i]` -/
def probeKey (G : Nat) (gs : Groups α) (numKeys hash : Nat) (key : α) : Option (Groups α × Nat × Nat) :=
  match locate G gs.length gs hash key with
  | none => none
  | some (_, some v) => some (gs, numKeys, v)
  | some (p, none) => some (putAt gs p (key, numKeys), numKeys + 1, numKeys)

/-- `multiProbe32Default` / `64` / `128` over `(hash, key)` pairs: final table, numKeys, values -/
def multiProbe (G : Nat) (gs : Groups α) (numKeys : Nat) : List (Nat × α) → Option (Groups α × Nat × List Nat)
  | [] => some (gs, numKeys, [])
  | (hash, key) :: rest =>
    match probeKey G gs numKeys hash key with
    | none => none
    | some (gs1, n1, v) =>
      match multiProbe G gs1 n1 rest with
      | none => none
      | some (gs2, n2, vs) => some (gs2, n2, v :: vs)

/-- the walk of `grow` (hashprobe.go:223-234; `table128.insert` :686-699): first group with room, keys are
    not compared -/
def growLocate (G : Nat) : Nat → Groups α → Nat → Option Nat
  | 0, _, _ => none
  | fuel + 1, gs, hash =>
    let p := slot gs.length hash
    if (gs.getD p []).length = G then growLocate G fuel gs (hash + 1) else some p

/-- re-insertion of the old entries in table order (`for i := range t.table { for j … } }`) -/
def growFill (G : Nat) (h' : α → Nat) (gs : Groups α) : List (α × Nat) → Option (Groups α)
  | [] => some gs
  | (k, v) :: rest =>
    match growLocate G gs.length gs (h' k) with
    | none => none
    | some p => growFill G h' (putAt gs p (k, v)) rest

structure Table (α : Type) where
  len : Nat
  maxLen : Nat
  h : α → Nat
  groups : Groups α

/-- `tableNN.grow(totalValues)` -/
def grow (G : Nat) (sz : Nat → Nat × Nat) (h' : α → Nat) (t : Table α) (total : Nat) : Option (Table α) :=
  match growFill G h' (List.replicate (sz total).1 []) t.groups.flatten with
  | none => none
  | some gs => some { len := t.len, maxLen := (sz total).2, h := h', groups := gs }

/-- the batch loop of `probeArray` (hashprobe.go:266-287: `for i := 0; i < numKeys; { j := len(hashes) + i …
    multiProbe32(t.table, t.len, h, k, v); i = j }`, `probesPerLoop = 256`); fuel = number of keys -/
def probeLoop (G : Nat) (h : α → Nat) : Nat → Groups α → Nat → List α → Option (Groups α × Nat × List Nat)
  | 0, gs, n, _ => some (gs, n, [])
  | fuel + 1, gs, n, keys =>
    if keys = [] then some (gs, n, []) else
    match multiProbe G gs n ((keys.take 256).map fun k => (h k, k)) with
    | none => none
    | some (gs1, n1, v) =>
      match probeLoop G h fuel gs1 n1 (keys.drop 256) with
      | none => none
      | some (gs2, n2, vs) => some (gs2, n2, v ++ vs)

/-- `tableNN.probeArray(keys, values)`: the table after the call and `values` -/
def probeArray (G : Nat) (sz : Nat → Nat × Nat) (h' : α → Nat) (t : Table α) (keys : List α) :
    Option (Table α × List Nat) :=
  match (if t.len + keys.length > t.maxLen then grow G sz h' t (t.len + keys.length) else some t) with
  | none => none
  | some t1 =>
    match probeLoop G t1.h keys.length t1.groups t1.len keys with
    | none => none
    | some (gs, n, vs) => some ({ t1 with len := n, groups := gs }, vs)

/-- `makeTableNN(cap, maxLoad)` then `init` -/
def mkTable (sz : Nat → Nat × Nat) (h : α → Nat) (cap : Nat) : Table α :=
  { len := 0, maxLen := (sz cap).2, h := h, groups := List.replicate (sz cap).1 [] }

/-- `reset()`: len = 0, every group zeroed (seed, size and maxLen stay) -/
def reset (t : Table α) : Table α := { t with len := 0, groups := List.replicate t.groups.length [] }

/-! ## SPEC: the first-seen numbering -/

/-- SPEC of probing one key into the numbering `S`: a known key keeps its number, a new key gets `|S|` -/
def specProbe1 (S : List (α × Nat)) (k : α) : List (α × Nat) × Nat :=
  match gfind k S with
  | some v => (S, v)
  | none => (S ++ [(k, S.length)], S.length)

def specProbe (S : List (α × Nat)) : List α → List (α × Nat) × List Nat
  | [] => (S, [])
  | k :: ks => let r := specProbe1 S k; let r2 := specProbe r.1 ks; (r2.1, r.2 :: r2.2)

/-- a session of Probe calls, each with the seed `grow` would draw: the values of every call -/
def session (G : Nat) (sz : Nat → Nat × Nat) : Table α → List ((α → Nat) × List α) → Option (List (List Nat))
  | _, [] => some []
  | t, (h', keys) :: rest =>
    match probeArray G sz h' t keys with
    | none => none
    | some (t1, vs) => (session G sz t1 rest).map (vs :: ·)

def specSession : List (α × Nat) → List (List α) → List (List Nat)
  | _, [] => []
  | S, keys :: rest => (specProbe S keys).2 :: specSession (specProbe S keys).1 rest

end PqModel.HashProbe
