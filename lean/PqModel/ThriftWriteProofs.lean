import PqModel.ThriftWrite

/-! Lemmas: the SPEC reader of `PqModel.Spec.Thrift` reads back what the MIRROR writer of
    `PqModel.ThriftWrite` emits (scalars, headers, then the mutual induction over the tree). The
    property-level statements are in `PqModel/Props/C02.lean`. -/
open PqModel.Spec
namespace PqModel.ThriftWrite

/-- the bytes `bs` sit in `d` at offset `pos` -/
def At (d : ByteArray) (pos : Nat) (bs : List UInt8) : Prop :=
  ∃ pre rest, d.data.toList = pre ++ (bs ++ rest) ∧ pre.length = pos

theorem At.append {d : ByteArray} {pos : Nat} {a b : List UInt8} (h : At d pos (a ++ b)) :
    At d pos a ∧ At d (pos + a.length) b := by
  obtain ⟨pre, rest, hr, hp⟩ := h
  refine ⟨⟨pre, b ++ rest, by simp [hr], hp⟩, ⟨pre ++ a, rest, by simp [hr], by simp [hp]⟩⟩

theorem At.bound {d : ByteArray} {pos : Nat} {bs : List UInt8} (h : At d pos bs) :
    pos + bs.length ≤ d.size := by
  obtain ⟨pre, rest, hr, hp⟩ := h
  have := congrArg List.length hr
  simp at this
  have h2 : d.data.size = d.size := ByteArray.size_data
  omega

theorem At.cons {d : ByteArray} {pos : Nat} {b : UInt8} {bs : List UInt8} (h : At d pos (b :: bs)) :
    rdByte d pos = .ok (b, pos + 1) ∧ At d (pos + 1) bs := by
  have hb := h.bound
  have h2 := (At.append (a := [b]) (b := bs) h).2
  refine ⟨?_, h2⟩
  obtain ⟨pre, rest, hr, hp⟩ := h
  have hlt : pos < d.size := by simp at hb; omega
  simp only [rdByte, hlt, dite_true]
  rw [ByteArray.getElem_eq_getElem_data]
  have : d.data[pos]'(by rw [ByteArray.size_data]; exact hlt) = d.data.toList[pos]'(by simp [ByteArray.size_data]; exact hlt) := by simp
  rw [this]
  simp [hr, ← hp]

theorem At.extract {d : ByteArray} {pos : Nat} {bs : List UInt8} (h : At d pos bs) :
    rdBytes d pos bs.length = .ok (⟨bs.toArray⟩, pos + bs.length) := by
  have hb := h.bound
  obtain ⟨pre, rest, hr, hp⟩ := h
  simp only [rdBytes, hb, if_true]
  congr 2
  apply ByteArray.ext
  rw [ByteArray.data_extract]
  apply Array.ext'
  rw [Array.toList_extract]
  simp [List.extract, hr, ← hp]

theorem toUInt8_toNat (x : Nat) (h : x < 256) : x.toUInt8.toNat = x := by
  simp [Nat.toUInt8, UInt8.toNat_ofNat']; omega

theorem rdUvarint_put (d : ByteArray) : ∀ (f x fuel pos shift acc : Nat), f < fuel → x < 128 ^ (f + 1) →
    At d pos (putUvarint f x) →
    rdUvarint d fuel pos shift acc = .ok (acc + x <<< shift, pos + (putUvarint f x).length) := by
  intro f
  induction f with
  | zero =>
    intro x fuel pos shift acc hf hx h
    obtain ⟨fuel, rfl⟩ : ∃ k, fuel = k + 1 := ⟨fuel - 1, by omega⟩
    simp only [putUvarint] at h ⊢
    have hx' : x < 128 := by simpa using hx
    simp only [rdUvarint, h.cons.1, toUInt8_toNat x (by omega), hx', if_true, List.length_singleton]
    rw [Nat.mod_eq_of_lt hx']
  | succ f ih =>
    intro x fuel pos shift acc hf hx h
    obtain ⟨fuel, rfl⟩ : ∃ k, fuel = k + 1 := ⟨fuel - 1, by omega⟩
    simp only [putUvarint] at h ⊢
    split
    · rename_i hx'
      rw [if_pos hx'] at h
      simp only [rdUvarint, h.cons.1, toUInt8_toNat x (by omega), hx', if_true, List.length_singleton]
      rw [Nat.mod_eq_of_lt hx']
    · rename_i hx'
      rw [if_neg hx'] at h
      have hb : (x % 128 + 128).toUInt8.toNat = x % 128 + 128 := toUInt8_toNat _ (by omega)
      have hnot : ¬ (x % 128 + 128 < 128) := by omega
      have hx2 : x / 128 < 128 ^ (f + 1) := by
        rw [Nat.div_lt_iff_lt_mul (by omega)]
        rw [Nat.pow_succ] at hx; exact hx
      simp only [rdUvarint, h.cons.1, hb, hnot, if_false]
      rw [ih (x / 128) fuel (pos + 1) (shift + 7) _ (by omega) hx2 h.cons.2]
      simp only [List.length_cons]
      congr 2
      · have e1 : (x % 128 + 128) % 128 = x % 128 := by omega
        rw [e1, Nat.shiftLeft_eq, Nat.shiftLeft_eq, Nat.shiftLeft_eq, Nat.pow_add, Nat.add_assoc]
        congr 1
        have : x / 128 * (2 ^ shift * 2 ^ 7) = (128 * (x / 128)) * 2 ^ shift := by
          rw [Nat.mul_comm (2 ^ shift), ← Nat.mul_assoc]; simp [Nat.mul_comm]
        rw [this, ← Nat.add_mul, Nat.mod_add_div]
      · omega

theorem putUvarint_pos (f x : Nat) : 0 < (putUvarint f x).length := by
  cases f <;> simp [putUvarint] <;> split <;> simp

theorem uvarint_put (d : ByteArray) (x pos : Nat) (hx : x < 2 ^ 64) (h : At d pos (uvarintBytes x)) :
    uvarint d pos = .ok (x, pos + (uvarintBytes x).length) := by
  have := rdUvarint_put d 9 x 10 pos 0 0 (by omega) (by omega) h
  simpa [uvarint, uvarintBytes] using this

theorem zigzag_eq_unzigzag (n : Nat) : zigzag n = PqModel.Delta.unzigzag n := by
  unfold zigzag PqModel.Delta.unzigzag
  by_cases h : n % 2 = 0
  · simp [h]
  · have h1 : n % 2 = 1 := by omega
    simp [h1]
    omega

theorem zigzag64_lt (y : BitVec 64) : PqModel.Delta.zigzag64 y < 2 ^ 64 := by
  unfold PqModel.Delta.zigzag64; exact BitVec.isLt _

theorem zigzag_zigzag64 (i : Int) (h1 : -9223372036854775808 ≤ i) (h2 : i < 9223372036854775808) :
    zigzag (PqModel.Delta.zigzag64 (BitVec.ofInt 64 i)) = i := by
  rw [zigzag_eq_unzigzag, PqModel.Delta.unzigzag_zigzag64, BitVec.toInt_ofInt]
  apply Int.bmod_eq_of_le <;> omega

theorem varint_put (d : ByteArray) (i : Int) (pos : Nat) (h1 : -9223372036854775808 ≤ i) (h2 : i < 9223372036854775808)
    (h : At d pos (varintBytes i)) :
    ∃ n, uvarint d pos = .ok (n, pos + (varintBytes i).length) ∧ zigzag n = i :=
  ⟨_, uvarint_put d _ pos (zigzag64_lt _) h, zigzag_zigzag64 i h1 h2⟩

theorem int8_rt (i : Int) (h1 : -128 ≤ i) (h2 : i < 128) :
    (if (int8Byte i).toNat < 128 then ((int8Byte i).toNat : Int) else ((int8Byte i).toNat : Int) - 256) = i := by
  have : (int8Byte i).toNat = (i % 256).toNat := toUInt8_toNat _ (by omega)
  rw [this]
  split <;> omega

theorem le64_length (x : UInt64) : (le64 x).length = 8 := by simp [le64]

theorem range8 : List.range 8 = [0,1,2,3,4,5,6,7] := by decide

theorem le_bytes8 (b0 b1 b2 b3 b4 b5 b6 b7 : UInt8) : le ⟨#[b0,b1,b2,b3,b4,b5,b6,b7]⟩ 0 8 =
   b0.toNat + b1.toNat * 256 + b2.toNat * 65536 + b3.toNat * 16777216 + b4.toNat * 4294967296 + b5.toNat * 1099511627776 + b6.toNat * 281474976710656 + b7.toNat * 72057594037927936 := by
  simp only [le, range8, List.foldl]
  show 0 + b0.toNat <<< (8 * 0) + b1.toNat <<< (8 * 1) + b2.toNat <<< (8 * 2) + b3.toNat <<< (8 * 3) + b4.toNat <<< (8 * 4)
    + b5.toNat <<< (8 * 5) + b6.toNat <<< (8 * 6) + b7.toNat <<< (8 * 7) = _
  simp only [Nat.shiftLeft_eq]
  omega

theorem le_le64 (x : UInt64) : UInt64.ofNat (le ⟨(le64 x).toArray⟩ 0 8) = x := by
  have hx : x.toNat < 18446744073709551616 := x.toNat_lt
  apply UInt64.toNat_inj.mp
  simp only [le64, range8, List.map, le_bytes8, UInt64.toNat_ofNat', Nat.shiftRight_eq_div_pow]
  rw [toUInt8_toNat _ (Nat.mod_lt _ (by omega)), toUInt8_toNat _ (Nat.mod_lt _ (by omega)), toUInt8_toNat _ (Nat.mod_lt _ (by omega)),
    toUInt8_toNat _ (Nat.mod_lt _ (by omega)), toUInt8_toNat _ (Nat.mod_lt _ (by omega)), toUInt8_toNat _ (Nat.mod_lt _ (by omega)),
    toUInt8_toNat _ (Nat.mod_lt _ (by omega)), toUInt8_toNat _ (Nat.mod_lt _ (by omega))]
  simp only [Nat.reducePow, Nat.reduceMul]
  omega

theorem or_nibble : ∀ k, k < 16 → ∀ t, t < 16 → (k * 16 ||| t) = k * 16 + t := by decide

theorem hdrByte_toNat (k t : Nat) (hk : k < 16) (ht : t < 16) :
    (((k * 16) % 256).toUInt8 ||| t.toUInt8).toNat = k * 16 + t := by
  rw [UInt8.toNat_or, toUInt8_toNat _ (Nat.mod_lt _ (by omega)), toUInt8_toNat _ (by omega),
    Nat.mod_eq_of_lt (by omega), or_nibble k hk t ht]

theorem writeFields_pos : ∀ (fs : List (FMeta × WVal)) (last : Nat), 0 < (writeFields last fs).length
  | [], _ => by simp [writeFields]
  | (m, v) :: fs, last => by
    simp only [writeFields]
    split
    · exact writeFields_pos fs last
    · have := writeFields_pos fs m.id
      simp only [List.length_append]; omega

theorem listHeader_pos (ety n : Nat) : 0 < (listHeader ety n).length := by
  unfold listHeader; split <;> simp

def isBool : WVal → Bool
  | .bool _ => true
  | _ => false

theorem nonbool_facts (x : WVal) (h : isBool x = false) :
    lcode x = fcode x ∧ (fcode x == 1 || fcode x == 2) = false ∧ 0 < (writeVal x).length ∧
    (∀ xs, writeElems (x :: xs) = writeVal x ++ writeElems xs) := by
  cases x with
  | bool b => simp [isBool] at h
  | i8 i => simp [lcode, fcode, writeVal, writeElems]
  | i16 i => simp [lcode, fcode, writeVal, writeElems, varintBytes, uvarintBytes, putUvarint_pos]
  | i32 i => simp [lcode, fcode, writeVal, writeElems, varintBytes, uvarintBytes, putUvarint_pos]
  | i64 i => simp [lcode, fcode, writeVal, writeElems, varintBytes, uvarintBytes, putUvarint_pos]
  | double b => simp [lcode, fcode, writeVal, writeElems, le64_length]
  | bin b => simp [lcode, fcode, writeVal, writeElems, uvarintBytes]; have := putUvarint_pos 9 b.length; omega
  | list ety xs => simp [lcode, fcode, writeVal, writeElems]; have := listHeader_pos ety xs.length; omega
  | struct fs => simp [lcode, fcode, writeVal, writeElems, writeFields_pos]

theorem rdFields_step (d : ByteArray) (fuel k pos : Nat) (last : Int) (acc : List (Nat × TVal)) :
    rdFields d (fuel + 1) (k + 1) pos last acc =
    match rdByte d pos with
    | .error e => .error e
    | .ok (h, pos) =>
      if h == 0 then .ok (.struct acc.reverse, pos) else
      match (if h.toNat / 16 == 0 then
          (match uvarint d pos with
          | .ok (n, pos) => (.ok (zigzag n, pos) : R Int)
          | .error e => .error e)
        else .ok (last + (h.toNat / 16 : Nat), pos)) with
      | .error e => .error e
      | .ok (id, pos) =>
        match rdVal d fuel (h.toNat % 16) pos with
        | .ok (v, pos) => rdFields d fuel k pos id ((id.toNat, v) :: acc)
        | .error e => .error e := by
  simp only [rdFields]
  rfl

theorem fieldHeader_read (d : ByteArray) (last id ty pos : Nat) (h1 : last < id) (h2 : id ≤ 32767)
    (ht0 : 0 < ty) (ht : ty < 16) (h : At d pos (fieldHeader last id ty)) :
    ∃ hb : UInt8, rdByte d pos = .ok (hb, pos + 1) ∧ (hb == 0) = false ∧ hb.toNat % 16 = ty ∧
      (if hb.toNat / 16 == 0 then
          (match uvarint d (pos + 1) with
          | .ok (n, pos) => (.ok (zigzag n, pos) : R Int)
          | .error e => .error e)
        else .ok ((last : Int) + (hb.toNat / 16 : Nat), pos + 1)) = .ok ((id : Int), pos + (fieldHeader last id ty).length) := by
  unfold fieldHeader at h ⊢
  simp only at h ⊢
  by_cases hd : (id : Int) - (last : Int) ≤ 15
  · simp only [hd, if_true] at h ⊢
    obtain ⟨k, hk⟩ : ∃ k : Nat, (id : Int) - (last : Int) = k := ⟨id - last, by omega⟩
    have hk15 : k < 16 := by omega
    have hk0 : 0 < k := by omega
    have hbyte : ((((id : Int) - (last : Int)) * 16 % 256).toNat.toUInt8 ||| ty.toUInt8) = (((k * 16) % 256).toUInt8 ||| ty.toUInt8) := by
      rw [hk]; congr 2 <;> omega
    rw [hbyte] at h ⊢
    have hn := hdrByte_toNat k ty hk15 ht
    refine ⟨_, h.cons.1, ?_, ?_, ?_⟩
    · have : (((k * 16) % 256).toUInt8 ||| ty.toUInt8).toNat ≠ (0 : UInt8).toNat := by rw [hn]; simp; omega
      simp only [beq_eq_false_iff_ne, ne_eq]
      intro hc; rw [hc] at this; exact this rfl
    · rw [hn]; omega
    · rw [hn]
      have e1 : (k * 16 + ty) / 16 = k := by omega
      have e2 : (k == 0) = false := by simp; omega
      simp only [e1, e2, List.length_singleton]
      simp only [Bool.false_eq_true, if_false]
      congr 2; omega
  · have hd' : ¬ ((id : Int) ≤ 15) := by omega
    simp only [hd, hd', if_false] at h ⊢
    have hn : ty.toUInt8.toNat = ty := toUInt8_toNat _ (by omega)
    refine ⟨_, h.cons.1, ?_, ?_, ?_⟩
    · have : ty.toUInt8.toNat ≠ (0 : UInt8).toNat := by rw [hn]; simp; omega
      simp only [beq_eq_false_iff_ne, ne_eq]
      intro hc; rw [hc] at this; exact this rfl
    · rw [hn]; omega
    · rw [hn]
      have e1 : ty / 16 = 0 := by omega
      simp only [e1, beq_self_eq_true, if_true, List.length_cons]
      obtain ⟨n, hu, hz⟩ := varint_put d (id : Int) (pos + 1) (by omega) (by omega) h.cons.2
      simp only [hu, hz]
      congr 2; omega

theorem listHeader_read (d : ByteArray) (ety n pos : Nat) (he : ety < 16) (hn : n < 2147483648)
    (h : At d pos (listHeader ety n)) :
    ∃ hb : UInt8, rdByte d pos = .ok (hb, pos + 1) ∧ hb.toNat % 16 = ety ∧
      ((n ≤ 14 ∧ hb.toNat / 16 = n ∧ (listHeader ety n).length = 1) ∨
       (14 < n ∧ hb.toNat / 16 = 15 ∧ uvarint d (pos + 1) = .ok (n, pos + (listHeader ety n).length))) := by
  unfold listHeader at h ⊢
  by_cases hs : n ≤ 14
  · simp only [hs, if_true] at h ⊢
    have hb := hdrByte_toNat n ety (by omega) he
    refine ⟨_, h.cons.1, ?_, Or.inl ⟨trivial, ?_, rfl⟩⟩ <;> rw [hb] <;> omega
  · simp only [hs, if_false] at h ⊢
    have hb : ((0xF0 : UInt8) ||| ety.toUInt8).toNat = 15 * 16 + ety := by
      have := hdrByte_toNat 15 ety (by omega) he
      simpa using this
    refine ⟨_, h.cons.1, ?_, Or.inr ⟨by omega, ?_, ?_⟩⟩
    · rw [hb]; omega
    · rw [hb]; omega
    · have := uvarint_put d n (pos + 1) (by omega) h.cons.2
      rw [this]; simp only [List.length_cons]; congr 2; omega

theorem rdVal_list_step (d : ByteArray) (fuel pos : Nat) :
    rdVal d (fuel + 1) 9 pos =
    match rdByte d pos with
    | .error e => .error e
    | .ok (h, pos) =>
      if h.toNat / 16 == 15 then
        match uvarint d pos with
        | .ok (n, pos) => if n > d.size then .error "list longer than input" else rdElems d fuel (h.toNat % 16) n pos []
        | .error e => .error e
      else rdElems d fuel (h.toNat % 16) (h.toNat / 16) pos [] := by
  simp only [rdVal]
  rfl

theorem fieldHeader_pos (last id ty : Nat) : 0 < (fieldHeader last id ty).length := by
  unfold fieldHeader
  simp only
  split
  · simp
  · split <;> simp

theorem writeElems_length_ge : ∀ xs : List WVal, xs.length ≤ (writeElems xs).length
  | [] => by simp [writeElems]
  | x :: xs => by
    have ih := writeElems_length_ge xs
    cases hb : isBool x with
    | true =>
      cases x <;> simp [isBool] at hb
      simp only [writeElems, List.length_append, List.length_cons, List.length_nil]; omega
    | false =>
      obtain ⟨_, _, hp, he⟩ := nonbool_facts x hb
      rw [he xs]; simp only [List.length_append, List.length_cons]; omega

mutual
theorem rdVal_write (d : ByteArray) : ∀ (v : WVal) (fuel pos : Nat), WfT v = true → At d pos (writeVal v) →
    2 * (writeVal v).length + 1 ≤ fuel →
    rdVal d fuel (fcode v) pos = .ok (erase v, pos + (writeVal v).length)
  | .bool b, fuel, pos, _, _, hf => by
    obtain ⟨fuel, rfl⟩ : ∃ k, fuel = k + 1 := ⟨fuel - 1, by omega⟩
    cases b <;> simp [fcode, rdVal, erase, writeVal]
  | .i8 i, fuel, pos, hw, h, hf => by
    obtain ⟨fuel, rfl⟩ : ∃ k, fuel = k + 1 := ⟨fuel - 1, by omega⟩
    simp only [WfT, decide_eq_true_eq] at hw
    simp only [writeVal] at h ⊢
    simp only [fcode, rdVal, h.cons.1, erase, List.length_singleton, int8_rt i hw.1 hw.2]
  | .i16 i, fuel, pos, hw, h, hf => by
    obtain ⟨fuel, rfl⟩ : ∃ k, fuel = k + 1 := ⟨fuel - 1, by omega⟩
    simp only [WfT, decide_eq_true_eq] at hw
    simp only [writeVal] at h ⊢
    obtain ⟨n, hu, hz⟩ := varint_put d i pos (by omega) (by omega) h
    simp only [fcode, rdVal, hu, hz, erase]
  | .i32 i, fuel, pos, hw, h, hf => by
    obtain ⟨fuel, rfl⟩ : ∃ k, fuel = k + 1 := ⟨fuel - 1, by omega⟩
    simp only [WfT, decide_eq_true_eq] at hw
    simp only [writeVal] at h ⊢
    obtain ⟨n, hu, hz⟩ := varint_put d i pos (by omega) (by omega) h
    simp only [fcode, rdVal, hu, hz, erase]
  | .i64 i, fuel, pos, hw, h, hf => by
    obtain ⟨fuel, rfl⟩ : ∃ k, fuel = k + 1 := ⟨fuel - 1, by omega⟩
    simp only [WfT, decide_eq_true_eq] at hw
    simp only [writeVal] at h ⊢
    obtain ⟨n, hu, hz⟩ := varint_put d i pos (by omega) (by omega) h
    simp only [fcode, rdVal, hu, hz, erase]
  | .double b, fuel, pos, hw, h, hf => by
    obtain ⟨fuel, rfl⟩ : ∃ k, fuel = k + 1 := ⟨fuel - 1, by omega⟩
    simp only [writeVal] at h ⊢
    have he := h.extract
    rw [le64_length] at he
    simp only [fcode, rdVal, he, erase, le_le64, le64_length]
  | .bin b, fuel, pos, hw, h, hf => by
    obtain ⟨fuel, rfl⟩ : ∃ k, fuel = k + 1 := ⟨fuel - 1, by omega⟩
    simp only [WfT, decide_eq_true_eq] at hw
    simp only [writeVal] at h ⊢
    have hu := uvarint_put d b.length pos (by omega) h.append.1
    simp only [fcode, rdVal, hu, h.append.2.extract, erase, List.length_append, Nat.add_assoc]
  | .list ety xs, fuel, pos, hw, h, hf => by
    obtain ⟨fuel, rfl⟩ : ∃ k, fuel = k + 1 := ⟨fuel - 1, by omega⟩
    simp only [WfT, Bool.and_eq_true, decide_eq_true_eq] at hw
    simp only [writeVal] at h hf ⊢
    simp only [List.length_append] at hf
    obtain ⟨hb, hr, hety, hcase⟩ := listHeader_read d ety xs.length pos hw.1.1 hw.1.2 h.append.1
    have hlen := writeElems_length_ge xs
    have hbound := h.append.2.bound
    have hp := listHeader_pos ety xs.length
    have ih := rdElems_write d xs fuel ety (pos + (listHeader ety xs.length).length) [] hw.2 h.append.2 (by omega)
    simp only [fcode, rdVal_list_step, hr, hety]
    rcases hcase with ⟨hs, hq, hl⟩ | ⟨hs, hq, hu⟩
    · have : (xs.length == 15) = false := by simp; omega
      simp only [hq, this, Bool.false_eq_true, if_false]
      rw [hl] at ih
      rw [ih]; simp only [erase, List.reverse_nil, List.nil_append, List.length_append, hl, Nat.add_assoc]
    · have hgt : ¬ (xs.length > d.size) := by omega
      simp only [hq, beq_self_eq_true, if_true, hu, hgt, if_false]
      rw [ih]; simp only [erase, List.reverse_nil, List.nil_append, List.length_append, Nat.add_assoc]
  | .struct fs, fuel, pos, hw, h, hf => by
    obtain ⟨fuel, rfl⟩ : ∃ k, fuel = k + 1 := ⟨fuel - 1, by omega⟩
    simp only [WfT] at hw
    simp only [writeVal] at h hf ⊢
    have ih := rdFields_write d fs fuel d.size pos 0 [] hw h (by omega) (by have := h.bound; omega)
    simp only [fcode, rdVal, erase]
    simpa using ih
theorem rdElems_write (d : ByteArray) : ∀ (xs : List WVal) (fuel ety pos : Nat) (acc : List TVal),
    WfL ety xs = true → At d pos (writeElems xs) → 2 * (writeElems xs).length + 2 ≤ fuel →
    rdElems d fuel ety xs.length pos acc = .ok (.list (acc.reverse ++ eraseL xs), pos + (writeElems xs).length)
  | [], fuel, ety, pos, acc, _, _, hf => by
    obtain ⟨fuel, rfl⟩ : ∃ k, fuel = k + 1 := ⟨fuel - 1, by omega⟩
    simp [rdElems, eraseL, writeElems]
  | x :: xs, fuel, ety, pos, acc, hw, h, hf => by
    obtain ⟨fuel, rfl⟩ : ∃ k, fuel = k + 1 := ⟨fuel - 1, by omega⟩
    simp only [WfL, Bool.and_eq_true, decide_eq_true_eq] at hw
    obtain ⟨⟨hc, hwx⟩, hwl⟩ := hw
    cases hb : isBool x with
    | true =>
      cases x <;> simp [isBool] at hb
      rename_i b
      simp only [lcode] at hc
      subst hc
      simp only [writeElems] at h hf ⊢
      simp only [List.length_append, List.length_cons, List.length_nil] at hf
      have ih := rdElems_write d xs fuel 2 (pos + 1) (.bool b :: acc) hwl h.cons.2 (by omega)
      simp only [List.length_cons, rdElems, h.cons.1]
      simp only [Nat.add_sub_cancel]
      have hbb : ((if b = true then (1 : UInt8) else 0) == 1) = b := by cases b <;> decide
      simp only [beq_self_eq_true, Bool.or_true, if_true, hbb]
      rw [ih]
      simp only [eraseL, erase, List.reverse_cons, List.append_assoc, List.singleton_append, List.length_cons]
      congr 2; omega
    | false =>
      obtain ⟨hlc, hnb, hp, he⟩ := nonbool_facts x hb
      rw [he xs] at h hf ⊢
      simp only [List.length_append] at hf
      have hx := rdVal_write d x fuel pos hwx h.append.1 (by omega)
      have ih := rdElems_write d xs fuel ety (pos + (writeVal x).length) (erase x :: acc) hwl h.append.2 (by omega)
      rw [← hc, hlc] at ih ⊢
      simp only [List.length_cons, rdElems, hnb, Bool.false_eq_true, if_false, hx, Nat.add_sub_cancel]
      rw [ih]
      simp only [eraseL, List.reverse_cons, List.append_assoc, List.singleton_append, List.length_append, Nat.add_assoc]
theorem rdFields_write (d : ByteArray) : ∀ (fs : List (FMeta × WVal)) (fuel k pos last : Nat) (acc : List (Nat × TVal)),
    WfF last fs = true → At d pos (writeFields last fs) → 2 * (writeFields last fs).length ≤ fuel + 1 →
    (writeFields last fs).length ≤ k →
    rdFields d fuel k pos (last : Int) acc = .ok (.struct (acc.reverse ++ eraseF fs), pos + (writeFields last fs).length)
  | [], fuel, k, pos, last, acc, _, h, hf, hk => by
    simp only [writeFields, List.length_singleton] at h hf hk ⊢
    obtain ⟨fuel, rfl⟩ : ∃ j, fuel = j + 1 := ⟨fuel - 1, by omega⟩
    obtain ⟨k, rfl⟩ : ∃ j, k = j + 1 := ⟨k - 1, by omega⟩
    simp [rdFields_step, h.cons.1, eraseF]
  | (m, v) :: fs, fuel, k, pos, last, acc, hw, h, hf, hk => by
    simp only [WfF] at hw
    simp only [writeFields, eraseF] at h hf hk ⊢
    by_cases hom : m.omitted = true
    · simp only [hom, if_true] at hw h hf hk ⊢
      exact rdFields_write d fs fuel k pos last acc hw h hf hk
    · simp only [hom, if_false, Bool.false_eq_true] at hw h hf hk ⊢
      simp only [Bool.and_eq_true, decide_eq_true_eq] at hw
      obtain ⟨⟨⟨hlt, hmax⟩, hwv⟩, hwf⟩ := hw
      simp only [List.length_append] at hf hk
      have hfp := writeFields_pos fs m.id
      have hty : 0 < fcode v ∧ fcode v < 16 := by cases v <;> simp [fcode] <;> (rename_i b; cases b <;> simp)
      obtain ⟨hb, hr, hnz, hmod, hid⟩ := fieldHeader_read d last m.id (fcode v) pos hlt hmax hty.1 hty.2 h.append.1.append.1
      have hhp := fieldHeader_pos last m.id (fcode v)
      obtain ⟨fuel, rfl⟩ : ∃ j, fuel = j + 1 := ⟨fuel - 1, by omega⟩
      obtain ⟨k, rfl⟩ : ∃ j, k = j + 1 := ⟨k - 1, by omega⟩
      have hv := rdVal_write d v fuel (pos + (fieldHeader last m.id (fcode v)).length) hwv h.append.1.append.2 (by omega)
      have ih := rdFields_write d fs fuel k (pos + (fieldHeader last m.id (fcode v)).length + (writeVal v).length) m.id
        ((m.id, erase v) :: acc) hwf (by simpa [Nat.add_assoc] using h.append.2) (by omega) (by omega)
      rw [rdFields_step]
      simp only [hr, hnz, Bool.false_eq_true, if_false, hid, hmod, hv, Int.toNat_natCast]
      rw [ih]
      simp only [List.reverse_cons, List.append_assoc, List.singleton_append, List.length_append, Nat.add_assoc]
end

/-- the spec reader applied to the mirror writer's bytes, anywhere in a buffer, returns the tree -/
theorem readStruct_writeStruct (fs : List (FMeta × WVal)) (pre rest : List UInt8) (hw : WfF 0 fs = true) :
    readStruct ⟨(pre ++ (writeStruct fs ++ rest)).toArray⟩ pre.length =
      .ok (.struct (eraseF fs), pre.length + (writeStruct fs).length) := by
  have hat : At ⟨(pre ++ (writeStruct fs ++ rest)).toArray⟩ pre.length (writeFields 0 fs) :=
    ⟨pre, rest, rfl, rfl⟩
  have hb := hat.bound
  have := rdFields_write _ fs (2 * (ByteArray.mk (pre ++ (writeStruct fs ++ rest)).toArray).size + 64)
    (ByteArray.mk (pre ++ (writeStruct fs ++ rest)).toArray).size pre.length 0 [] hw hat (by omega) (by omega)
  simpa [readStruct, writeStruct] using this

end PqModel.ThriftWrite
