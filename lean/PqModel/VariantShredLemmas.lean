import PqModel.VariantShred
import PqModel.VariantLemmas

/-! Lemmas for the shredding round trip (`unshred_shred` in `Props/C19.lean`). -/
namespace PqModel.Variant

theorem distinctKeysL_iff (es : List Value) :
    distinctKeysL es = true ↔ ∀ e ∈ es, distinctKeys e = true := by
  induction es with
  | nil => simp [distinctKeysL]
  | cons e es ih => simp [distinctKeysL, ih]

theorem distinctKeysF_iff (fs : List (Key × Value)) :
    distinctKeysF fs = true ↔ ∀ f ∈ fs, distinctKeys f.2 = true := by
  induction fs with
  | nil => simp [distinctKeysF]
  | cons f fs ih => obtain ⟨k, v⟩ := f; simp [distinctKeysF, ih]

theorem findField_mem {k : Key} {v : Value} {fs : List (Key × Value)} (h : findField k fs = some v) :
    (k, v) ∈ fs := by
  induction fs with
  | nil => simp [findField] at h
  | cons f fs ih =>
    obtain ⟨k', v'⟩ := f
    simp only [findField] at h
    split at h
    · rename_i he; cases h; simp [he]
    · exact List.mem_cons_of_mem _ (ih h)

theorem findField_of_mem {k : Key} {v : Value} {fs : List (Key × Value)} (hnd : (keysOf fs).Nodup)
    (h : (k, v) ∈ fs) : findField k fs = some v := by
  induction fs with
  | nil => cases h
  | cons f fs ih =>
    obtain ⟨k', v'⟩ := f
    simp only [keysOf, List.map_cons, List.nodup_cons] at hnd
    simp only [findField]
    simp only [List.mem_cons, Prod.mk.injEq] at h
    rcases h with ⟨rfl, rfl⟩ | h
    · simp
    · split
      · rename_i he
        subst he
        exact absurd (List.mem_map_of_mem (f := (·.1)) h) hnd.1
      · exact ih hnd.2 h

theorem findField_none {k : Key} {fs : List (Key × Value)} (h : findField k fs = none) :
    k ∉ keysOf fs := by
  induction fs with
  | nil => simp [keysOf]
  | cons f fs ih =>
    obtain ⟨k', v'⟩ := f
    simp only [findField] at h
    split at h
    · cases h
    · rename_i hne
      simp only [keysOf, List.map_cons, List.mem_cons, not_or]
      exact ⟨fun e => hne e.symm, ih h⟩

theorem nodup_of_nodup_map {α β : Type} (f : α → β) (l : List α) (h : (l.map f).Nodup) : l.Nodup := by
  induction l with
  | nil => simp
  | cons a as ih =>
    simp only [List.map_cons, List.nodup_cons] at h ⊢
    exact ⟨fun hm => h.1 (List.mem_map_of_mem hm), ih h.2⟩

theorem mem_selected (fields : List (Key × Schema)) (fs : List (Key × Value)) (hnd : (keysOf fs).Nodup)
    (x : Key × Value) : x ∈ selected fields fs ↔ x.1 ∈ schemaNames fields ∧ x ∈ fs := by
  obtain ⟨k, v⟩ := x
  simp only [selected, List.mem_filterMap, Option.map_eq_some_iff, Prod.mk.injEq, schemaNames,
    List.mem_map]
  constructor
  · rintro ⟨f, hf, v', hv', rfl, rfl⟩
    exact ⟨⟨f, hf, rfl⟩, findField_mem hv'⟩
  · rintro ⟨⟨f, hf, rfl⟩, hm⟩
    exact ⟨f, hf, v, findField_of_mem hnd hm, rfl, rfl⟩

theorem keys_selected_sublist (fields : List (Key × Schema)) (fs : List (Key × Value)) :
    (keysOf (selected fields fs)).Sublist (schemaNames fields) := by
  induction fields with
  | nil => simp [selected, keysOf, schemaNames]
  | cons f fields ih =>
    simp only [selected, keysOf, schemaNames, List.filterMap_cons, List.map_cons] at ih ⊢
    cases h : findField f.1 fs with
    | none => simp only [Option.map_none]; exact List.Sublist.cons _ ih
    | some v => simp only [Option.map_some, List.map_cons]; exact List.Sublist.cons_cons _ ih

/-- the shredded fields followed by the residual fields are the fields of the object, reordered -/
theorem selected_residual_perm (fields : List (Key × Schema)) (fs : List (Key × Value))
    (hs : (schemaNames fields).Nodup) (hnd : (keysOf fs).Nodup) :
    (selected fields fs ++ fs.filter fun f => !(schemaNames fields).contains f.1).Perm fs := by
  have hfsnd : fs.Nodup := by
    have : (fs.map (·.1)).Nodup := hnd
    exact nodup_of_nodup_map _ _ this
  have hselnd : (selected fields fs).Nodup := by
    have : (keysOf (selected fields fs)).Nodup := (keys_selected_sublist fields fs).nodup hs
    exact nodup_of_nodup_map _ _ this
  apply (List.perm_ext_iff_of_nodup _ hfsnd).mpr
  · intro x
    simp only [List.mem_append, mem_selected fields fs hnd, List.mem_filter, Bool.not_eq_true',
      List.contains_eq_mem, decide_eq_false_iff_not]
    constructor
    · rintro (⟨_, h⟩ | ⟨h, _⟩) <;> exact h
    · intro h
      by_cases hx : x.1 ∈ schemaNames fields
      · exact Or.inl ⟨hx, h⟩
      · exact Or.inr ⟨h, hx⟩
  · rw [List.nodup_append]
    refine ⟨hselnd, hfsnd.filter _, ?_⟩
    intro a ha b hb hab
    subst hab
    have h1 := ((mem_selected fields fs hnd a).mp ha).1
    simp only [List.mem_filter, Bool.not_eq_true', List.contains_eq_mem, decide_eq_false_iff_not] at hb
    exact hb.2 h1


/-- the round trip of one variant group occurrence under schema `s` -/
def ShredOK (s : Schema) : Prop :=
  ∀ v, distinctKeys v = true → ∃ r, unshredR s (shred s v) = .val r ∧ canon r = canon v

theorem unshredR_missing (s : Schema) : unshredR s .missing = .missing := by
  cases s <;> simp [unshredR]

theorem unshredList_shredList (e : Schema) (he : ShredOK e) :
    ∀ es : List Value, (∀ x ∈ es, distinctKeys x = true) →
      ∃ rs, unshredList e (shredList e es) = some rs ∧ rs.map canon = es.map canon
  | [], _ => ⟨[], by simp [shredList, unshredList], rfl⟩
  | x :: xs, h => by
    obtain ⟨r, hr, hc⟩ := he x (h x (by simp))
    obtain ⟨rs, hrs, hcs⟩ := unshredList_shredList e he xs (fun y hy => h y (by simp [hy]))
    refine ⟨r :: rs, ?_, by simp [hc, hcs]⟩
    simp only [shredList, unshredList, hr, RRes.orNull, hrs]

theorem canon_obj_of_fields (fields : List (Key × Schema)) (fs ofs : List (Key × Value))
    (hs : (schemaNames fields).Nodup) (hnd : (keysOf fs).Nodup)
    (hofs : ofs.map canonField = (selected fields fs).map canonField) :
    canon (.obj (ofs ++ fs.filter fun f => !(schemaNames fields).contains f.1)) = canon (.obj fs) := by
  simp only [canon, canonFields_eq]
  congr 1
  rw [List.map_append, hofs, ← List.map_append]
  have hp := selected_residual_perm fields fs hs hnd
  apply isort_eq_of_perm _ _ _ (hp.map _)
  have hk : ((selected fields fs ++ fs.filter fun f => !(schemaNames fields).contains f.1).map
      canonField).map (·.1) = (selected fields fs ++ fs.filter fun f =>
        !(schemaNames fields).contains f.1).map (·.1) := by
    rw [List.map_map]; rfl
  rw [hk]
  exact ((hp.map (·.1)).nodup_iff).mpr (by simpa [keysOf] using hnd)

mutual
theorem shredOK : ∀ s : Schema, wfS s = true → ShredOK s
  | .untyped, _ => by
    intro v _
    exact ⟨v, by simp [shred, unshredR, valueCol], rfl⟩
  | .prim t, _ => by
    intro v _
    cases v with
    | prim p =>
      by_cases hm : matchesP t p = true
      · exact ⟨.prim p, by simp [shred, unshredR, hm], rfl⟩
      · exact ⟨.prim p, by simp [shred, unshredR, hm, valueCol], rfl⟩
    | arr es => exact ⟨.arr es, by simp [shred, unshredR, valueCol], rfl⟩
    | obj fs => exact ⟨.obj fs, by simp [shred, unshredR, valueCol], rfl⟩
  | .list e, hw => by
    have he : ShredOK e := shredOK e (by simpa [wfS] using hw)
    intro v hv
    cases v with
    | prim p => exact ⟨.prim p, by simp [shred, unshredR, valueCol], rfl⟩
    | obj fs => exact ⟨.obj fs, by simp [shred, unshredR, valueCol], rfl⟩
    | arr es =>
      simp only [distinctKeys, distinctKeysL_iff] at hv
      obtain ⟨rs, hrs, hcs⟩ := unshredList_shredList e he es hv
      refine ⟨.arr rs, by simp [shred, unshredR, hrs], ?_⟩
      simp only [canon, canonList_eq, hcs]
  | .obj fields, hw => by
    simp only [wfS, Bool.and_eq_true, decide_eq_true_eq] at hw
    intro v hv
    cases v with
    | prim p => exact ⟨.prim p, by simp [shred, unshredR, valueCol], rfl⟩
    | arr es => exact ⟨.arr es, by simp [shred, unshredR, valueCol], rfl⟩
    | obj fs =>
      simp only [distinctKeys, Bool.and_eq_true, distinctKeysF_iff, decide_eq_true_eq] at hv
      obtain ⟨ofs, hofs, hmap⟩ := shredFieldsOK fields hw.1 fs hv.1
      have hc := canon_obj_of_fields fields fs ofs hw.2 hv.2 hmap
      by_cases hres : (fs.filter fun f => !(schemaNames fields).contains f.1).isEmpty = true
      · refine ⟨.obj ofs, by simp only [shred, unshredR, hofs, hres, if_true], ?_⟩
        have : (fs.filter fun f => !(schemaNames fields).contains f.1) = [] := by
          simpa [List.isEmpty_iff] using hres
        rw [this, List.append_nil] at hc
        exact hc
      · refine ⟨.obj (ofs ++ fs.filter fun f => !(schemaNames fields).contains f.1), ?_, hc⟩
        simp only [shred, unshredR, hofs, hres]
        rw [if_neg (by decide)]
        simp only [List.filter_filter, Bool.and_self]
theorem shredFieldsOK : ∀ fields : List (Key × Schema), wfSFields fields = true →
    ∀ fs : List (Key × Value), (∀ f ∈ fs, distinctKeys f.2 = true) →
      ∃ ofs, unshredFields fields (shredFields fields fs) = some ofs ∧
        ofs.map canonField = (selected fields fs).map canonField
  | [], _, fs, _ => ⟨[], by simp [shredFields, unshredFields], by simp [selected]⟩
  | (name, s) :: rest, hw, fs, hfs => by
    simp only [wfSFields, Bool.and_eq_true] at hw
    obtain ⟨ofs, hofs, hmap⟩ := shredFieldsOK rest hw.2 fs hfs
    cases hf : findField name fs with
    | none =>
      refine ⟨ofs, ?_, ?_⟩
      · simp [shredFields, unshredFields, hf, unshredR_missing, hofs]
      · simpa [selected, hf] using hmap
    | some fv =>
      have hd : distinctKeys fv = true := hfs (name, fv) (findField_mem hf)
      obtain ⟨r, hr, hc⟩ := shredOK s hw.1 fv hd
      refine ⟨(name, r) :: ofs, ?_, ?_⟩
      · simp [shredFields, unshredFields, hf, hr, hofs]
      · simp only [selected, List.filterMap_cons, hf, Option.map_some, List.map_cons] at hmap ⊢
        simp only [canonField, hc, List.cons.injEq, true_and]
        exact hmap
end


/-! ### leaf values of typed_value columns -/

theorem setWidth_signExtend8 (x : BitVec 8) : (x.signExtend 32).setWidth 8 = x := by
  apply BitVec.eq_of_getLsbD_eq
  intro i hi
  simp [BitVec.getLsbD_signExtend, hi]
  omega

theorem setWidth_signExtend16 (x : BitVec 16) : (x.signExtend 32).setWidth 16 = x := by
  apply BitVec.eq_of_getLsbD_eq
  intro i hi
  simp [BitVec.getLsbD_signExtend, hi]
  omega

theorem be16ToNat_beN (n : Nat) (h : n < 256 ^ 16) : be16ToNat (beN 16 n) = n := by
  unfold be16ToNat beN
  simp only [List.length_reverse, leN_length, Nat.sub_self, List.replicate_zero, List.append_nil,
    List.reverse_reverse]
  exact unLE_leN 16 n h

theorem toCol_isSome (t : PType) (p : Prim) : (toCol t p).isSome = matchesP t p := by
  cases t <;> cases p <;> simp [toCol, matchesP] <;> split <;> simp_all

/-- the leaf value written for a matching primitive reads back as that primitive -/
theorem ofCol_toCol' (t : PType) (p : Prim) (c : ColVal) (h : toCol t p = some c) :
    ofCol t c = some p := by
  cases t <;> cases p <;> simp only [toCol, reduceCtorEq] at h
  all_goals first
    | (cases h; simp [ofCol, setWidth_signExtend8, setWidth_signExtend16]; done)
    | skip
  · -- uuid
    cases h
    rename_i x
    simp [ofCol, beN, unLE_leN 16 x.toNat (bv128 x)]
  all_goals
    split at h
    · rename_i hc
      simp only [Bool.and_eq_true, decide_eq_true_eq] at hc
      cases h
      simp [ofCol, hc.1, beN, be16ToNat, unLE_leN 16 _ (bv128 _)]
    · cases h

/-! ### DECIMAL typed_value leaves of any byte length (foreign writers) -/

theorem unLE_append (a b : Bytes) : unLE (a ++ b) = unLE a + 256 ^ a.length * unLE b := by
  induction a with
  | nil => simp [unLE]
  | cons x xs ih =>
    simp only [List.cons_append, unLE, ih, List.length_cons, Nat.pow_succ, Nat.mul_add]
    rw [show 256 * (256 ^ xs.length * unLE b) = 256 ^ xs.length * 256 * unLE b by
      rw [Nat.mul_comm (256 ^ xs.length) 256, Nat.mul_assoc]]
    omega

theorem unLE_replicate_zero (k : Nat) : unLE (List.replicate k (0 : UInt8)) = 0 := by
  induction k with
  | zero => simp [unLE]
  | succ k ih => simp [List.replicate_succ, unLE, ih]

theorem unLE_replicate_ff (k : Nat) : unLE (List.replicate k (0xFF : UInt8)) = 256 ^ k - 1 := by
  induction k with
  | zero => simp [unLE]
  | succ k ih =>
    have hp : 1 ≤ 256 ^ k := Nat.pow_pos (by omega)
    simp only [List.replicate_succ, unLE, ih, Nat.pow_succ]
    have : (0xFF : UInt8).toNat = 255 := by decide
    omega

theorem leN_succ_last (k m : Nat) :
    leN (k + 1) m = leN k m ++ [UInt8.ofNat (m / 256 ^ k % 256)] := by
  induction k generalizing m with
  | zero => simp [leN]
  | succ k ih =>
    rw [leN, ih (m / 256)]
    simp only [leN, List.cons_append]
    rw [Nat.div_div_eq_div_mul, Nat.pow_succ, Nat.mul_comm 256]

theorem be16ToNat_short (n m : Nat) (hn1 : 1 ≤ n) (hn : n ≤ 16) (hm : m < 256 ^ n) :
    be16ToNat (beN n m) =
      if m < 128 * 256 ^ (n - 1) then m else m + (256 ^ 16 - 256 ^ n) := by
  obtain ⟨k, rfl⟩ : ∃ k, n = k + 1 := ⟨n - 1, by omega⟩
  have hb : beN (k + 1) m = UInt8.ofNat (m / 256 ^ k % 256) :: (leN k m).reverse := by
    simp [beN, leN_succ_last]
  have hrev : (beN (k + 1) m).reverse = leN (k + 1) m := by simp [beN]
  have hlen : (beN (k + 1) m).length = k + 1 := by simp [beN]
  have hq : m / 256 ^ k < 256 := by
    rw [Nat.div_lt_iff_lt_mul (Nat.pow_pos (by omega))]
    rw [Nat.pow_succ] at hm; omega
  unfold be16ToNat
  rw [hrev, hlen, unLE_append, unLE_leN _ _ hm, leN_length]
  rw [hb]
  simp only [Nat.add_sub_cancel]
  have hmod : m / 256 ^ k % 256 = m / 256 ^ k := Nat.mod_eq_of_lt hq
  by_cases hneg : m < 128 * 256 ^ k
  · have hlt : m / 256 ^ k < 128 := by
      rw [Nat.div_lt_iff_lt_mul (Nat.pow_pos (by omega))]; exact hneg
    have : ¬ (UInt8.ofNat (m / 256 ^ k % 256) ≥ 0x80) := by
      rw [hmod]; simp [UInt8.le_iff_toNat_le]; omega
    simp [this, hneg, unLE_replicate_zero]
  · have hge : 128 ≤ m / 256 ^ k := by
      rw [Nat.le_div_iff_mul_le (Nat.pow_pos (by omega))]; omega
    have : UInt8.ofNat (m / 256 ^ k % 256) ≥ 0x80 := by
      rw [hmod]; simp [UInt8.le_iff_toNat_le]; omega
    simp only [this, if_true, hneg, if_false, unLE_replicate_ff]
    have h1 : 256 ^ (k + 1) * 256 ^ (16 - (k + 1)) = 256 ^ 16 := by
      rw [← Nat.pow_add]; congr 1; omega
    have hp : 1 ≤ 256 ^ (16 - (k + 1)) := Nat.pow_pos (by omega)
    rw [Nat.mul_sub, Nat.mul_one, h1]

end PqModel.Variant
