import PqModel.PlainDict
import PqModel.Props.C04Plain
import PqModel.Props.C04Rle

/-! # C04 (part "plain", extension) — the Go DECODERS of PLAIN / BYTE_STREAM_SPLIT and the
dictionary-encoded column

* the Go decoders (mirrors in `PqModel/PlainDict.lean`) return on EVERY byte string what the SPEC
  decoder returns, error included — so they read every conformant stream, whoever wrote it — and the
  BYTE_STREAM_SPLIT FIXED_LEN_BYTE_ARRAY decoder, which writes its destination by index, does so for
  every former content of that destination;
* dictionary-encoded columns: what the Go read path (dictionary page, RLE_DICTIONARY index page,
  `newIndexedPage`, lookup) returns for a conformant page is what the SPEC reader returns, for every
  segmentation of the index stream into runs, every declared bit width, padded last groups, and
  every content of the recycled index buffer; the writer's own pages round-trip through both.
* a truncated index stream (fewer ids than the page's value count) is NOT conformant: the SPEC
  reader refuses it; the Go reader accepts it and supplies id 0 — characterised below. -/
namespace PqModel.Props.C04PlainDict
open PqModel.Plain PqModel.PlainDict PqModel.Rle

/-! ## PLAIN: Go decoder = SPEC decoder on every input -/

theorem plain_go_decoder_int32 (src : Bytes) : goDecFixed 4 src = ofOption (specDecFixed 4 src) :=
  goDecFixed_eq_spec 4 (by decide) src
theorem plain_go_decoder_int64 (src : Bytes) : goDecFixed 8 src = ofOption (specDecFixed 8 src) :=
  goDecFixed_eq_spec 8 (by decide) src
theorem plain_go_decoder_int96 (src : Bytes) : goDecFixed 12 src = ofOption (specDecFixed 12 src) :=
  goDecFixed_eq_spec 12 (by decide) src
/-- FLOAT/DOUBLE are the same code on bit patterns (k = 4, 8); any width at once: -/
theorem plain_go_decoder_fixed (k : Nat) (hk : 0 < k) (src : Bytes) :
    goDecFixed k src = ofOption (specDecFixed k src) := goDecFixed_eq_spec k hk src
example : (0 : Nat) < 12 := by decide

/-- Decode ∘ Encode = id for the Go pair (mirror level), every list of `k`-byte patterns -/
theorem plain_go_roundtrip_fixed (k : Nat) (hk : 0 < k) (xs : List Nat) (h : ∀ x ∈ xs, x < 2 ^ (8 * k)) :
    goDecFixed k (encFixed k xs) = .ok xs := by
  rw [goDecFixed_eq_spec k hk, specDecFixed_encFixed k hk xs h]; rfl
example : ∀ x ∈ [0, 1, 4294967295], x < 2 ^ (8 * 4) := by decide

theorem plain_go_decoder_flba (size : Nat) (hs : 0 < size) (src : Bytes) :
    goDecFLBA size src = ofOption ((specDecFixedBytes size src).map List.flatten) :=
  goDecFLBA_eq_spec size hs src
example : (0 : Nat) < 16 := by decide

/-- outside the assumption "size ≥ 1": PLAIN `DecodeFixedLenByteArray` with size 0 is a run-time
    panic (integer division by zero), where the BYTE_STREAM_SPLIT twin reports an error -/
theorem plain_go_decoder_flba_size0 (src : Bytes) :
    goDecFLBA 0 src = .panic ∧ goBssDecFLBA 0 [] src = .err := by simp [goDecFLBA, goBssDecFLBA]

/-- BYTE_ARRAY: the Go decoder (mirror of plain.go:77-94, tight source buffer) returns values exactly
    on the streams the SPEC decoder reads, and then the same values: it reads every conformant
    stream, and never returns values for another one (it may panic there: `goDecByteArray_panics_on_overrun`). -/
theorem plain_go_decoder_byte_array_complete (src : Bytes) (vs : List Bytes) :
    goDecByteArray src = .ok vs ↔ specDecByteArray src = some vs := by
  constructor
  · exact PqModel.Props.C04Plain.goDecByteArray_sound src vs
  · intro h
    obtain ⟨e, hl⟩ := specDecByteArrayFuel_inv _ _ _ h
    rw [e]
    exact PqModel.Props.C04Plain.goDecByteArray_roundtrip vs hl
example : specDecByteArray [1, 0, 0, 0, 7] = some [[7]] := by decide

/-! ## BYTE_STREAM_SPLIT: Go decoders = SPEC decoder on every input -/

theorem bss_spec_forms_agree (k : Nat) (bs : Bytes) : bssSpecDecIdx k bs = bssSpecDec k bs :=
  bssSpecDecIdx_eq_bssSpecDec k bs

theorem bss_go_decoder_float (src : Bytes) : goBssDecFixed 4 src = ofOption (bssSpecDecFixed 4 src) :=
  goBssDecFixed_eq_spec 4 (by decide) src
theorem bss_go_decoder_double (src : Bytes) : goBssDecFixed 8 src = ofOption (bssSpecDecFixed 8 src) :=
  goBssDecFixed_eq_spec 8 (by decide) src

theorem bss_go_roundtrip_fixed (k : Nat) (hk : 0 < k) (xs : List Nat) (h : ∀ x ∈ xs, x < 2 ^ (8 * k)) :
    goBssDecFixed k (bssEncFixed k xs) = .ok xs := by
  rw [goBssDecFixed_eq_spec k hk, bssSpecDecFixed_bssEncFixed k hk xs h]; rfl
example : ∀ x ∈ [0, 1, 4294967295], x < 2 ^ (8 * 4) := by decide

/-- FIXED_LEN_BYTE_ARRAY: for every former content `stale` of the reused destination -/
theorem bss_go_decoder_flba (size : Nat) (stale src : Bytes) :
    goBssDecFLBA size stale src = ofOption ((bssSpecDec size src).map List.flatten) := by
  rw [← bssSpecDecIdx_eq_bssSpecDec]; exact goBssDecFLBA_eq_spec size stale src

/-- … hence independent of it -/
theorem bss_go_decoder_flba_history_independent (size : Nat) (stale₁ stale₂ src : Bytes) :
    goBssDecFLBA size stale₁ src = goBssDecFLBA size stale₂ src := by
  rw [goBssDecFLBA_eq_spec, goBssDecFLBA_eq_spec]

theorem bss_go_roundtrip_flba (size : Nat) (hs : 0 < size) (stale : Bytes) (vs : List Bytes)
    (h : ∀ v ∈ vs, v.length = size) : goBssDecFLBA size stale (bssEnc size vs) = .ok vs.flatten := by
  rw [goBssDecFLBA_eq_spec, bssSpecDecIdx_bssEnc size hs vs h]; rfl
example : ∀ v ∈ [[1, 2, 3], [0xFF, 0, 7]], (v : Bytes).length = 3 := by decide

/-! ## RLE_DICTIONARY index pages and `newIndexedPage` -/

/-- the page built from the decoded ids does not depend on what the recycled buffer held -/
theorem indexed_page_history_independent (values stale₁ stale₂ : List Nat) (size : Nat) :
    goNewIndexedPage values stale₁ size = goNewIndexedPage values stale₂ size := by
  rw [goNewIndexedPage_eq, goNewIndexedPage_eq]

/-- Every conformant index page — any declared width `w ≤ 32`, any segmentation into RLE and
    bit-packed runs the Go decoder frames like the format (`ValidRleGoW`), a padded last group
    (`n ≤ ys.length`) — is read by the Go path exactly as by the SPEC reader, for every buffer
    content. -/
theorem go_index_page_of_valid {w : Nat} {ys bs : List Nat} (hw : w ≤ 32) (h : ValidRleGoW w ys bs)
    (n : Nat) (hn : n ≤ ys.length) (stale : List Nat) :
    specDecodeDict n (w :: bs) = .ok (ys.take n) ∧
    goDecodeDict (w :: bs) = .ok ys ∧ goNewIndexedPage ys stale n = ys.take n := by
  have hv : ValidRle w ys bs := by
    obtain ⟨rs, h1, _, h3, h4⟩ := h; exact ⟨rs, h1, h3, h4⟩
  refine ⟨?_, ?_, ?_⟩
  · have a : ¬ w > 32 := by omega
    simpa [specDecodeDict, a] using PqModel.Props.C04Rle.specDecode_of_valid hv n hn
  · simpa [goDecodeDict] using PqModel.Props.C04Rle.goDecodeInt32_of_valid hw h
  · rw [goNewIndexedPage_eq]
    have : n - ys.length = 0 := by omega
    simp [this]
example : ValidRleGoW 3 [5, 5, 5] [6, 5] :=
  ⟨[.rle 3 [5]], by simp [Run.WF], by simp [Run.GoOKW, leNat], by simp [runsValues, Run.values, leNat],
    by simp [serialize, Run.bytes, uvarint_small]⟩

/-- A stream that ends early (the runs hold `ys`, fewer than the `n` values of the page) is
    accepted by the Go path and read as `ys` followed by id 0, for every buffer content. -/
theorem go_short_index_stream_is_zero_extended {w : Nat} {ys bs : List Nat} (hw : w ≤ 32)
    (h : ValidRleGoW w ys bs) (n : Nat) (hn : ys.length < n) (stale : List Nat) :
    goDecodeDict (w :: bs) = .ok ys ∧
    goNewIndexedPage ys stale n = ys ++ List.replicate (n - ys.length) 0 := by
  refine ⟨by simpa [goDecodeDict] using PqModel.Props.C04Rle.goDecodeInt32_of_valid hw h, ?_⟩
  rw [goNewIndexedPage_eq, List.take_of_length_le (by omega)]
example : ValidRleGoW 2 [1, 1, 1] [6, 1] ∧ [1, 1, 1].length < 12 :=
  ⟨⟨[.rle 3 [1]], by simp [Run.WF], by simp [Run.GoOKW, leNat], by simp [runsValues, Run.values, leNat],
    by simp [serialize, Run.bytes, uvarint_small]⟩, by decide⟩

/-- … which the format does not allow: witnesses on which the SPEC reader refuses the page (the
    bit-width byte alone; one run of 5 at width 0; 3 × id 1 at width 2 — all for 12 values) while
    the Go path returns ids, whatever the buffer held (here: all 2s). -/
theorem short_index_stream_not_conformant :
    (specDecodeDict 12 [0]).toOption = none ∧
    (specDecodeDict 12 [0, 10]).toOption = none ∧
    (specDecodeDict 12 [2, 6, 1]).toOption = none ∧
    ((goDecodeDict [0]).toOption.map (goNewIndexedPage · (List.replicate 12 2) 12)) = some (List.replicate 12 0) ∧
    ((goDecodeDict [2, 6, 1]).toOption.map (goNewIndexedPage · (List.replicate 9 2) 12))
      = some ([1, 1, 1] ++ List.replicate 9 0) := by decide

/-! ## the whole column -/

section
variable {α : Type}

/-- READ side. `decS`/`decG` are the PLAIN SPEC / Go decoders of the column type; on a conformant
    dictionary page they return the same entries `d` (`plain_go_decoder_*`,
    `plain_go_decoder_byte_array_complete`). A conformant dictionary page (`numDict` values) and a conformant index page
    (`ValidRleGoW`, `n` values taken) are read by the Go path as by the SPEC reader; when the SPEC
    reader returns values (all ids inside the dictionary) the Go path returns the same values,
    for every content of the recycled index buffer. -/
theorem go_dict_column_of_valid (decS : Bytes → Option (List α)) (decG : Bytes → GoRes (List α))
    (dictPage : Bytes) (d : List α) (hd : decS dictPage = some d) (hg : decG dictPage = .ok d)
    {w : Nat} {ys bs : List Nat} (hw : w ≤ 32) (h : ValidRleGoW w ys bs) (n : Nat) (hn : n ≤ ys.length)
    (stale : List Nat) :
    specDictColumn decS d.length dictPage n (w :: bs) = lookupAll d (ys.take n) ∧
    goDictColumn decG d.length dictPage n (w :: bs) stale =
      okOrPanic (lookupAll d (ys.take n)) := by
  obtain ⟨h1, h2, h3⟩ := go_index_page_of_valid hw h n hn stale
  constructor
  · simp [specDictColumn, hd, h1]
  · simp [goDictColumn, hg, h2, h3]
example : specDecFixed 4 [7, 0, 0, 0, 9, 0, 0, 0] = some [7, 9] ∧ goDecFixed 4 [7, 0, 0, 0, 9, 0, 0, 0] = .ok [7, 9] := by
  decide

variable [DecidableEq α]

/-- WRITE then READ. The writer numbers the values by first occurrence (`insertAll`, tied to the Go
    dictionaries by `goDict_refines` and L2), PLAIN-encodes the entries (`enc`) and
    RLE_DICTIONARY-encodes the ids (`encodeDict`, mirror of `DictionaryEncoding.EncodeInt32`). For
    every value list the SPEC reader and the Go read path give the values back, for every buffer
    content. -/
theorem dict_column_roundtrip (enc : List α → Bytes) (decS : Bytes → Option (List α))
    (decG : Bytes → GoRes (List α))
    (xs : List α) (hrt : decS (enc (insertAll [] xs).1) = some (insertAll [] xs).1)
    (hrtG : decG (enc (insertAll [] xs).1) = .ok (insertAll [] xs).1)
    (hl : xs.length ≤ 2 ^ 31 - 1) (stale : List Nat) :
    ∃ page, encodeDict (insertAll [] xs).2 = .ok page ∧
      specDictColumn decS (insertAll [] xs).1.length (enc (insertAll [] xs).1) xs.length page = some xs ∧
      goDictColumn decG (insertAll [] xs).1.length (enc (insertAll [] xs).1) xs.length page stale = .ok xs := by
  have hlen : (insertAll [] xs).2.length = xs.length := insertAll_length xs []
  have hdl := insertAll_fst_length_le xs ([] : List α)
  simp only [List.length_nil, Nat.zero_add] at hdl
  have hx : ∀ i ∈ (insertAll [] xs).2, i < 2 ^ 32 := by
    intro i hi; have := insertAll_index_lt xs [] i hi; omega
  have hlook := lookupAll_insertAll xs ([] : List α)
  have r1 := PqModel.Props.C04Rle.rle_roundtrip_dict (insertAll [] xs).2 xs.length hx (by omega)
  have r2 := PqModel.Props.C04Rle.go_roundtrip_dict (insertAll [] xs).2 hx (by omega)
  cases he : encodeDict (insertAll [] xs).2 with
  | error e => rw [he] at r1; simp [bind, Except.bind] at r1
  | ok page =>
    rw [he] at r1 r2
    simp only [bind, Except.bind] at r1 r2
    rw [← hlen, List.take_length] at r1
    refine ⟨page, rfl, ?_, ?_⟩
    · simp [specDictColumn, hrt, hlen ▸ r1, hlook]
    · have hpage : goNewIndexedPage (insertAll [] xs).2 stale xs.length = (insertAll [] xs).2 := by
        rw [goNewIndexedPage_eq, ← hlen]; simp
      simp [goDictColumn, hrtG, r2, hpage, hlook, okOrPanic]
example : specDecFixed 4 (encFixed 4 (insertAll [] [5, 5, 6]).1) = some (insertAll [] [5, 5, 6]).1 ∧
    goDecFixed 4 (encFixed 4 (insertAll [] [5, 5, 6]).1) = .ok (insertAll [] [5, 5, 6]).1 := by decide

end

/-- instance: INT32/INT64/INT96/FLOAT/DOUBLE columns (`k`-byte bit patterns) -/
theorem dict_column_roundtrip_fixed (k : Nat) (hk : 0 < k) (xs : List Nat) (hx : ∀ x ∈ xs, x < 2 ^ (8 * k))
    (hl : xs.length ≤ 2 ^ 31 - 1) (stale : List Nat) :
    ∃ page, encodeDict (insertAll [] xs).2 = .ok page ∧
      specDictColumn (specDecFixed k) (insertAll [] xs).1.length (encFixed k (insertAll [] xs).1) xs.length page
        = some xs ∧
      goDictColumn (goDecFixed k) (insertAll [] xs).1.length (encFixed k (insertAll [] xs).1) xs.length page stale
        = .ok xs := by
  have hsub : ∀ (ys d : List Nat), (∀ y ∈ d, y < 2 ^ (8 * k)) → (∀ y ∈ ys, y < 2 ^ (8 * k)) →
      ∀ y ∈ (insertAll d ys).1, y < 2 ^ (8 * k) := by
    intro ys
    induction ys with
    | nil => intro d hd _ y hy; exact hd y hy
    | cons a ys ih =>
      intro d hd hys y hy
      simp only [insertAll] at hy
      apply ih (dictInsert1 d a).1 _ (fun z hz => hys z (by simp [hz])) y hy
      intro z hz
      unfold dictInsert1 at hz
      split at hz
      · exact hd z hz
      · simp only [List.mem_append, List.mem_singleton] at hz
        rcases hz with hz | rfl
        · exact hd z hz
        · exact hys z (by simp)
  have hrt := specDecFixed_encFixed k hk (insertAll [] xs).1 (hsub xs [] (by simp) hx)
  exact dict_column_roundtrip (encFixed k) (specDecFixed k) (goDecFixed k) xs hrt
    (by rw [goDecFixed_eq_spec k hk, hrt]; rfl) hl stale
example : (∀ x ∈ [7, 7, 9], x < 2 ^ (8 * 4)) ∧ [7, 7, 9].length ≤ 2 ^ 31 - 1 := by decide

/-- instance: BYTE_ARRAY columns (Go decoder = mirror of `DecodeByteArray`) -/
theorem dict_column_roundtrip_byte_array (xs : List Bytes) (hx : ∀ x ∈ xs, x.length < 2 ^ 32)
    (hl : xs.length ≤ 2 ^ 31 - 1) (stale : List Nat) :
    ∃ page, encodeDict (insertAll [] xs).2 = .ok page ∧
      specDictColumn specDecByteArray (insertAll [] xs).1.length (encByteArray (insertAll [] xs).1) xs.length page
        = some xs ∧
      goDictColumn goDecByteArray (insertAll [] xs).1.length (encByteArray (insertAll [] xs).1) xs.length page stale
        = .ok xs := by
  have hsub : ∀ (ys d : List Bytes), (∀ y ∈ d, y.length < 2 ^ 32) → (∀ y ∈ ys, y.length < 2 ^ 32) →
      ∀ y ∈ (insertAll d ys).1, y.length < 2 ^ 32 := by
    intro ys
    induction ys with
    | nil => intro d hd _ y hy; exact hd y hy
    | cons a ys ih =>
      intro d hd hys y hy
      simp only [insertAll] at hy
      apply ih (dictInsert1 d a).1 _ (fun z hz => hys z (by simp [hz])) y hy
      intro z hz
      unfold dictInsert1 at hz
      split at hz
      · exact hd z hz
      · simp only [List.mem_append, List.mem_singleton] at hz
        rcases hz with hz | rfl
        · exact hd z hz
        · exact hys z (by simp)
  have hrt := PqModel.Props.C04Plain.plain_roundtrip_byte_array (insertAll [] xs).1 (hsub xs [] (by simp) hx)
  have hrtG := PqModel.Props.C04Plain.goDecByteArray_roundtrip (insertAll [] xs).1 (hsub xs [] (by simp) hx)
  exact dict_column_roundtrip encByteArray specDecByteArray goDecByteArray xs hrt hrtG hl stale
example : (∀ x ∈ [[], [1, 2], [1, 2]], (x : Bytes).length < 2 ^ 32) := by decide

end PqModel.Props.C04PlainDict
