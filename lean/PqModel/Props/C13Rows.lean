import PqModel.RowsState

/-! # C13 — the row reader of a row group never assembles rows from columns that are out of step

Property theorems about the MIRROR `PqModel/RowsState.lean` of the error bookkeeping of
`rowGroupRows` (row_group.go: `ReadRows`, `SeekToRow`, `Reset`, the field `err`). The behaviour of
the column readers is a parameter (`fails`): the statements hold whatever page of whatever column is
rejected and however far a column reads ahead. Tied to the source by
`FactsCheckC13.reader_error_state_as_mirrored` / `error_cleared_only_with_reposition`, to the real
reader by the L1 retry stages of the fault enumeration (`rows-retry`: noseek / into / past / back /
through / reset; `generic-reset`, `reader-reset`). -/
namespace PqModel.Props.C13Rows
open PqModel.RowsState

/-- **rows_are_aligned**: after ANY history of reads (failed or not), seeks and resets, a `ReadRows`
    that returns rows has taken them from the rows `rowIndex ..` of EVERY column. -/
theorem rows_are_aligned (fails : Fails) (total ncols : Nat) (ops : List Op) (n : Nat)
    (starts : List (Option Nat)) (count : Nat)
    (h : (read fails total (reach fails total ncols ops) n).2 = .rows starts count) :
    ∀ s ∈ starts, s = some (reach fails total ncols ops).rowIndex :=
  PqModel.RowsState.rows_are_aligned fails total ncols ops n starts count h

example : (read firstPageOfColumn1 100 (reach firstPageOfColumn1 100 2 [.read 50, .reset, .read 50, .seek 60]) 10).2 =
    .rows [some 60, some 60] 10 := by decide

/-- **failure_is_reported**: when the page load of some column fails during the call, the call
    returns the error and no rows, and the error is pending afterwards. -/
theorem failure_is_reported (fails : Fails) (total : Nat) (st : St) (n : Nat) (he : st.err = false)
    (hf : (readCols fails (min n (total - st.rowIndex)) 0 st.cols).2 = true) :
    (read fails total st n).2 = .failed ∧ (read fails total st n).1.err = true :=
  PqModel.RowsState.failure_is_reported fails total st n he hf

example : (init 2).err = false ∧ (readCols firstPageOfColumn1 (min 50 (100 - (init 2).rowIndex)) 0 (init 2).cols).2 = true := by
  decide

/-- **error_is_sticky**: while the error is pending, every `ReadRows` returns it and moves nothing;
    (only `SeekToRow` — also to the current row — and `Reset` clear it, and both put every column on
    one row: `seek_after_failure_repositions`, `reset_repositions`). -/
theorem error_is_sticky (fails : Fails) (total : Nat) (st : St) (n : Nat) (he : st.err = true) :
    read fails total st n = (st, .failed) :=
  PqModel.RowsState.error_is_sticky fails total st n he

theorem seek_after_failure_repositions (st : St) (k : Nat) (he : st.err = true) :
    (seek st k).err = false ∧ (seek st k).rowIndex = k ∧ ∀ c ∈ (seek st k).cols, c = some k :=
  PqModel.RowsState.seek_after_failure_repositions st k he

theorem reset_repositions (st : St) :
    (reset st).err = false ∧ (reset st).rowIndex = 0 ∧ ∀ c ∈ (reset st).cols, c = some 0 :=
  PqModel.RowsState.reset_repositions st

example : (read firstPageOfColumn1 100 (init 2) 50).1.err = true := by decide

/-- **seeded/C13-4b on the mirror**: `Reset` rewinding the columns only when `rowIndex > 0` (while
    clearing the error regardless) returns rows assembled from different row numbers and no error
    after "first read fails, Reset, read". -/
theorem reset_guarded_by_rowIndex_misaligns :
    run (stepSeeded firstPageOfColumn1 100) (init 2) [.read 50, .reset, .read 50] =
      [.failed, .done, .rows [some 50, none] 50] :=
  PqModel.RowsState.reset_guarded_by_rowIndex_misaligns

end PqModel.Props.C13Rows
