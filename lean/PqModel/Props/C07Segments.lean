import PqModel.BloomSegments
import PqModel.Props.C07Writer

/-! # C07, several segments — packed merges on the write side, MultiRowGroup filters on the read side

Definitions: `PqModel/BloomSegments.lean`. Only property theorems here. -/
namespace PqModel.Props.C07Segments
open PqModel.XxHash PqModel.Bloom PqModel.BloomWriter PqModel.BloomSegments PqModel.Props.C07 PqModel.Props.C07Writer

/-! ## 1. `packSegmentsByColumn`: the filter is configured once, so the chunk is an incremental chunk -/

/-- A `resizeBloomFilter` forgets everything that happened before it: whatever events precede it, the
    filter afterwards holds exactly the pages flushed after it. (Why the call must not sit inside the
    segment loop.) -/
theorem resize_forgets (kind : Kind) (bits : Nat) (b : Built) (before : List FEv) (n : Nat) (pages : List WPage) :
    frun kind bits b (before ++ FEv.resize n :: pages.map FEv.page) =
      (filterSize bits n, insertedInto kind (filterSize bits n) pages) := by
  rw [frun_append]
  have e : frun kind bits (frun kind bits b before) (FEv.resize n :: pages.map FEv.page)
      = frun kind bits (filterSize bits n, []) (pages.map FEv.page) := rfl
  rw [e, frun_pages]
  simp

/-- THE PACKED PATH IS THE INCREMENTAL STRATEGY. Starting from the truncated filter of a reset column
    writer, the events of `packSegmentsByColumn` (one `configureBloomFiltersForSegments`, then the pages
    of every segment in order) leave exactly the filter that `flushFilterPages` assumes for a pre-sized
    chunk: size `packedPresize`, holding `incremental` of ALL pages of ALL segments. -/
theorem packed_filter_is_incremental (kind : Kind) (bits : Nat) (segs : List Segment)
    (dictionary : Option (List Value)) (switched : Bool) (numValues : Nat) :
    frun kind bits (0, []) (packedEvents segs) =
      (packedPresize bits segs, incremental (packedChunk kind bits segs dictionary switched numValues)) := by
  unfold packedEvents packedPresize
  cases ht : packedTotal segs with
  | some t =>
    have := resize_forgets kind bits (0, []) [] t (allPages segs)
    simp only [List.nil_append] at this
    simp only [List.cons_append, List.nil_append, this]
    simp [incremental, packedChunk, packedPresize, ht, insertedInto]
  | none =>
    simp only [List.nil_append, frun_pages]
    simp [incremental, packedChunk, packedPresize, ht, insertedInto]

/-- the filter allocated for a packed row group is a whole number of blocks (`ChunkOk.presizedBlocks`) -/
theorem packed_presize_whole_blocks (bits : Nat) (segs : List Segment) : packedPresize bits segs % 32 = 0 := by
  unfold packedPresize
  split
  · exact Nat.mul_mod_right 32 _
  · rfl

/-- … and, when allocated, it has `bits` bits for each of the `n` values of the packed row group
    (at most the total the segments announce) -/
theorem packed_presize_capacity (bits : Nat) (segs : List Segment) (n : Nat)
    (hn : n ≤ (segs.map (·.numValues)).sum) (hpos : 0 < packedPresize bits segs) :
    n * bits ≤ 8 * packedPresize bits segs := by
  unfold packedPresize at hpos ⊢
  cases ht : packedTotal segs with
  | none => rw [ht] at hpos; simp at hpos
  | some t =>
    have et : t = (segs.map (·.numValues)).sum := by
      unfold packedTotal at ht
      split at ht
      · cases ht; rfl
      · cases ht
    simp only
    have h1 := numSplitBlocksOf_capacity t bits
    have h2 : n * bits ≤ t * bits := Nat.mul_le_mul_right bits (by omega)
    unfold filterSize; omega

/-- END TO END for a packed row group: any number of segments, any page cuts, dictionary or not, fallen
    back or not — every value of every segment is found in the filter `flushFilterPages` leaves behind
    (which, by `packed_filter_is_incremental`, is the one the events built when it was pre-sized). -/
theorem packed_written_value_is_found (kind : Kind) (bits : Nat) (segs : List Segment)
    (dictionary : Option (List Value)) (switched : Bool) (numValues : Nat)
    (ok : ChunkOk (packedChunk kind bits segs dictionary switched numValues)) (hb : 1 ≤ bits)
    (s : Segment) (hs : s ∈ segs) (p : WPage) (hp : p ∈ s.pages) (v : Value) (hv : v ∈ p.values) :
    let c := packedChunk kind bits segs dictionary switched numValues
    checkBytes (filterBytes (build ((flushFilter c).1 / 32) ((flushFilter c).2.map UInt64.toBitVec)))
      (hashRead v).toBitVec = true := by
  intro c
  apply written_value_is_found_every_strategy c ok hb v
  show v ∈ (allPages segs).flatMap (·.values)
  exact List.mem_flatMap.mpr ⟨p, List.mem_flatMap.mpr ⟨s, hs, hp⟩, hv⟩

/-- two segments of two PLAIN pages each, 40 int64 values in all, 10 bits per value -/
def sampleSegments : List Segment :=
  [{ numValues := 20, exact := true,
     pages := [⟨(List.range 10).map (fun i => Value.int64 (UInt64.ofNat (i * 1000003))), false⟩,
               ⟨(List.range 10).map (fun i => Value.int64 (UInt64.ofNat ((10 + i) * 1000003))), false⟩] },
   { numValues := 20, exact := true,
     pages := [⟨(List.range 10).map (fun i => Value.int64 (UInt64.ofNat ((20 + i) * 1000003))), false⟩,
               ⟨(List.range 10).map (fun i => Value.int64 (UInt64.ofNat ((30 + i) * 1000003))), false⟩] }]

def sampleChunk : ChunkWrite := packedChunk .int64 10 sampleSegments none false 40

example : packedPresize 10 sampleSegments = 64 := by decide

set_option maxRecDepth 100000 in
example : ChunkOk sampleChunk where
  kinds := by decide +kernel
  noDict := by intro _; decide +kernel
  covers := by intro d h; cases h
  dictKinds := by intro d h; cases h
  dictWritten := by intro d h; cases h
  allIndexed := by intro _ h; cases h
  count := by decide
  presizedBlocks := by decide

/-- values of the chunk that a filter `b` reports absent -/
def missingOf (b : Built) : Nat := missing sampleChunk b

/-- the packed path as it is misses nothing on the sample … -/
theorem packed_sample_misses_nothing :
    missingOf (frun .int64 10 (0, []) (packedEvents sampleSegments)) = 0 := by
  decide +kernel

/-- … C07-4a (seeded): with the filter re-configured per segment, the pages flushed during the first
    segment are wiped by the second segment's `resizeBloomFilter`; `flushFilterPages` trusts the
    pre-sized filter: 20 of the 40 written values (all of the first segment) are reported absent. -/
theorem resize_per_segment_loses_flushed_pages :
    missingOf (frun .int64 10 (0, []) (packedEventsPerSegment sampleSegments)) = 20 := by
  decide +kernel

/-! ## 2. batching (`writeSegmentsPacked`) -/

/-- every segment index occurs in the batches, in order: the loop drops and reorders nothing -/
theorem packLoop_flatten (maxRows : Nat) (segs : List (Nat × Bool)) (done : List (List Nat)) (pending : List Nat)
    (pr i : Nat) :
    (packLoop maxRows segs done pending pr i).flatten =
      done.reverse.flatten ++ pending.reverse ++ (List.range' i segs.length) := by
  induction segs generalizing done pending pr i with
  | nil =>
    unfold packLoop
    cases pending with
    | nil => simp
    | cons x xs => simp
  | cons s rest ih =>
    obtain ⟨rows, co⟩ := s
    cases co with
    | true =>
      unfold packLoop
      split
      · rw [ih]
        cases pending with
        | nil => simp [List.range'_succ]
        | cons x xs => simp [List.range'_succ]
      · rw [ih]; simp [List.range'_succ]
    | false =>
      unfold packLoop
      rw [ih]
      cases pending with
      | nil => simp [List.range'_succ]
      | cons x xs => simp [List.range'_succ]

/-- `writeSegmentsPacked` writes every segment exactly once, in order -/
theorem packBatches_flatten (maxRows : Nat) (segs : List (Nat × Bool)) :
    (packBatches maxRows segs).flatten = List.range segs.length := by
  unfold packBatches
  rw [packLoop_flatten]
  simp [List.range_eq_range']

example : packBatches 100 [(50, true), (50, true), (50, true), (200, false), (10, true), (10, true)]
    = [[0, 1], [2], [3], [4, 5]] := by decide

/-! ## 3. `multiBloomFilter.Check`: absent only if every member with a filter said absent -/

/-- the combined answer is "absent" (`false, nil`) exactly when every member that has a filter answered
    `(false, nil)`: a member's `true` or a member's read error is never turned into "absent" -/
theorem multi_absent_iff (ms : List (Option Ans)) :
    multiCheck ms = Ans.absent ↔ ∀ m ∈ ms, m = none ∨ m = some Ans.absent := by
  unfold Ans.absent
  induction ms with
  | nil => simp [multiCheck]
  | cons m ms ih =>
    cases m with
    | none => simp [multiCheck, ih]
    | some a =>
      obtain ⟨o, e⟩ := a
      cases o <;> cases e <;> simp [multiCheck, ih]

/-- NO SILENT ABSENT: if the member holding the value answers `true`, or fails to read its filter, the
    MultiRowGroup's filter does not answer `(false, nil)` -/
theorem multi_no_silent_absent (ms : List (Option Ans)) (a : Ans) (hm : some a ∈ ms) (ha : a.ok = true ∨ a.err = true) :
    multiCheck ms ≠ Ans.absent := by
  intro h
  rcases (multi_absent_iff ms).mp h (some a) hm with h1 | h1
  · cases h1
  · cases h1; simp [Ans.absent] at ha

/-- when no member fails, the combined answer is the disjunction of the members' answers -/
theorem multi_healthy_is_any (ms : List (Option Ans)) (hh : ∀ a, some a ∈ ms → a.err = false) :
    multiCheck ms = ⟨ms.any (fun m => match m with | some a => a.ok | none => false), false⟩ := by
  induction ms with
  | nil => rfl
  | cons m ms ih =>
    have ih' := ih (fun a ha => hh a (List.mem_cons_of_mem _ ha))
    cases m with
    | none => simp [multiCheck, ih']
    | some a =>
      have he := hh a (List.mem_cons_self ..)
      obtain ⟨o, e⟩ := a
      simp only at he
      subst he
      cases o <;> simp [multiCheck, ih']

/-- END TO END over a MultiRowGroup: member `k` holds a chunk built by any strategy of the writer and
    stored plain or gzip; its storage works (`io = true`) or fails at Check time (`io = false`, any
    junk boolean). Whatever the other members (with or without filters, failing or not) answer, a
    value written to member `k`'s chunk is never answered `(false, nil)`. Assumed: gzip round trip. -/
theorem multi_written_value_never_absent (enc : List UInt8 → List UInt8) (dec : List UInt8 → Option (List UInt8))
    (hrt : GzipRoundTrip enc dec) (gzip : Bool) (c : ChunkWrite) (ok : ChunkOk c) (hb : 1 ≤ c.bits)
    (v : Value) (hm : v ∈ c.values) (io junk : Bool) (before after : List (Option Ans)) :
    multiCheck (before ++ some (memberAnswer dec (store enc gzip
        (filterBytes (build ((flushFilter c).1 / 32) ((flushFilter c).2.map UInt64.toBitVec)))) io junk
        (hashRead v).toBitVec) :: after) ≠ Ans.absent := by
  apply multi_no_silent_absent _ _ (List.mem_append_right _ (List.mem_cons_self ..))
  unfold memberAnswer
  cases io with
  | false => right; rfl
  | true =>
    rw [written_value_is_found_stored enc dec hrt gzip c ok hb v hm]
    left; rfl

/-- … and when every storage works it is answered `(true, nil)` if no earlier member fails: here, the
    healthy case with the value's member anywhere in the list -/
theorem multi_written_value_found_when_healthy (enc : List UInt8 → List UInt8) (dec : List UInt8 → Option (List UInt8))
    (hrt : GzipRoundTrip enc dec) (gzip : Bool) (c : ChunkWrite) (ok : ChunkOk c) (hb : 1 ≤ c.bits)
    (v : Value) (hm : v ∈ c.values) (before after : List (Option Ans))
    (hh : ∀ a, some a ∈ before ++ after → a.err = false) :
    multiCheck (before ++ some (memberAnswer dec (store enc gzip
        (filterBytes (build ((flushFilter c).1 / 32) ((flushFilter c).2.map UInt64.toBitVec)))) true false
        (hashRead v).toBitVec) :: after) = ⟨true, false⟩ := by
  have hans : memberAnswer dec (store enc gzip
        (filterBytes (build ((flushFilter c).1 / 32) ((flushFilter c).2.map UInt64.toBitVec)))) true false
        (hashRead v).toBitVec = ⟨true, false⟩ := by
    unfold memberAnswer
    rw [written_value_is_found_stored enc dec hrt gzip c ok hb v hm]
    rfl
  rw [hans, multi_healthy_is_any]
  · simp
  · intro a ha
    rcases List.mem_append.mp ha with h | h
    · exact hh a (List.mem_append_left _ h)
    · rcases List.mem_cons.mp h with h | h
      · cases h; rfl
      · exact hh a (List.mem_append_right _ h)

example : multiCheck [some ⟨false, false⟩, none, some ⟨true, false⟩] = ⟨true, false⟩ := by decide
example : multiCheck [some ⟨false, true⟩, some ⟨true, false⟩] = ⟨false, true⟩ := by decide

/-- C07-4b (seeded): with the member's error dropped, a failing first member and a second member that
    does not hold the value give `(false, nil)` — "absent", although the value's own filter could not
    be consulted; the code as it is returns the error -/
theorem dropped_member_error_answers_absent :
    multiCheckDropErr [some ⟨false, true⟩, some ⟨false, false⟩] = Ans.absent ∧
    multiCheck [some ⟨false, true⟩, some ⟨false, false⟩] = ⟨false, true⟩ := by
  decide

end PqModel.Props.C07Segments
