import PqModel.LogicalUuid

/-! # C01 — UUID text on FIXED_LEN_BYTE_ARRAY(16): what is read back writes the same 16 bytes

`uuid_leaf_exact`: for EVERY 16 bytes a column holds, the string the reader builds (`UUID.String`) parses back
(`uuid.Parse`, both write paths) to the same 16 bytes. The text itself is normalised, not preserved: upper
case, `urn:uuid:`, 38-byte and 32-digit forms all read back as the lowercase hyphenated form
(`uuid_text_normalised`), the 38-byte form is accepted whatever its first and last byte are
(`uuid_braces_unchecked`), and the two write paths differ on the empty string (`uuid_empty_paths_differ`). -/
namespace PqModel.Props.C01Uuid
open PqModel.Stats PqModel.LogicalUuid

/-- **Leaf exactness** -/
theorem uuid_leaf_exact (u : List Nat) (hl : u.length = 16) (hb : IsBytes u) :
    uuidParse (uuidString u) = some u ∧ uuidWriteTyped (uuidString u) = some u ∧
    uuidWriteReflect (uuidString u) = some u := by
  obtain ⟨b0, b1, b2, b3, b4, b5, b6, b7, b8, b9, b10, b11, b12, b13, b14, b15, rfl⟩ := length16 u hl
  have h : ∀ x ∈ [b0, b1, b2, b3, b4, b5, b6, b7, b8, b9, b10, b11, b12, b13, b14, b15], x ≤ 255 := hb
  simp only [List.mem_cons, List.not_mem_nil, or_false, forall_eq_or_imp, forall_eq] at h
  obtain ⟨h0, h1, h2, h3, h4, h5, h6, h7, h8, h9, h10, h11, h12, h13, h14, h15⟩ := h
  have key : uuidParse (uuidString [b0, b1, b2, b3, b4, b5, b6, b7, b8, b9, b10, b11, b12, b13, b14, b15]) =
      some [b0, b1, b2, b3, b4, b5, b6, b7, b8, b9, b10, b11, b12, b13, b14, b15] := by
    simp [uuidParse, uuidString, encodeHexBytes, pairAt, List.getD, xtob_hex', *]
  refine ⟨key, ?_, key⟩
  simp only [uuidWriteTyped]
  rw [if_neg]
  · exact key
  · simp [uuidString, encodeHexBytes]
example : uuidString [0, 17, 34, 51, 68, 85, 102, 119, 136, 153, 170, 187, 204, 221, 238, 255] =
    "00112233-4455-6677-8899-aabbccddeeff".toList.map Char.toNat := by decide

/-- the text is normalised: an upper-case, a `urn:uuid:`, a braced and a 32-digit text of the same UUID all
    read back as the lowercase hyphenated form -/
theorem uuid_text_normalised :
    let canon := "00112233-4455-6677-8899-aabbccddeeff".toList.map Char.toNat
    ((uuidParse ("00112233-4455-6677-8899-AABBCCDDEEFF".toList.map Char.toNat)).map uuidString = some canon) ∧
    ((uuidParse ("URN:uuid:00112233-4455-6677-8899-aabbccddeeff".toList.map Char.toNat)).map uuidString = some canon) ∧
    ((uuidParse ("{00112233-4455-6677-8899-aabbccddeeff}".toList.map Char.toNat)).map uuidString = some canon) ∧
    ((uuidParse ("00112233445566778899aabbccddeeff".toList.map Char.toNat)).map uuidString = some canon) := by
  decide

/-- `uuid.Parse` never looks at the first and last byte of a 38-byte text -/
theorem uuid_braces_unchecked :
    (uuidParse ("x00112233-4455-6677-8899-aabbccddeeffy".toList.map Char.toNat)).isSome = true := by decide

/-- the empty string is the zero UUID on the typed path (`GenericWriter[T]`) and a panic on the reflection path -/
theorem uuid_empty_paths_differ :
    uuidWriteTyped [] = some (List.replicate 16 0) ∧ uuidWriteReflect [] = none := by decide

end PqModel.Props.C01Uuid
