import PqModel.RowsRefineCheck
import PqModel.Props.C13RowsBuf

/-! # C13 — the buffer-level mirror of `rowGroupRows` (`RowsBuf`) REFINES the abstract one (`RowsState`)

`RowsState` proves that the row reader of a row group never assembles a row from different row numbers,
whatever its column readers do (`fails` is a parameter). `RowsBuf` mirrors the real `ReadRows` /
`SeekToRow` / `Reset` with value buffers, look-ahead refill and repetition levels and is the mirror the
L2 sub-check C13/rowsbuf runs against the real reader. This file connects the two: the abstraction
(`RowsRefine.Rel`: same error field, same `rowIndex`, abstract column `j` on row `p` = what concrete
column `j` will still deliver — buffer, rest of the current page, pages from the cursor on — is the
rows `p, p+1, …` up to the end of the chunk or a rejected page; an abstract column of undefined
position, the one whose read failed, stands for any concrete column), the simulation (every operation of
`RowsBuf` is that operation of `RowsState` for some behaviour of the column readers) and, transferred
through it, the alignment theorem on the buffer-level mirror itself. Only the property theorems and
their non-vacuity examples; the proofs are in `PqModel/RowsRefine*.lean`.

Hypotheses, all explicit: the file is well-formed (`WfFile`: every column chunk has the same `total`
rows in pages with consecutive row ranges, every row starts with repetition level 0), it has a
column, the value buffers are not empty, and `SeekToRow(k)` is called with `k ≤ total`. -/
namespace PqModel.Props.C13RowsRefine
open PqModel.RowsBuf PqModel.RowsRefine

/-- **every_step_is_an_abstract_step**: from related states (the abstract one aligned, as every
    reachable abstract state is), `ReadRows(n)` / `SeekToRow(k)` / `Reset` of the buffer-level mirror
    is the same operation of the abstract mirror for some behaviour `fails` of its column readers
    (the proof takes the one in which no column fails when the call returns rows and the one in which
    exactly the column whose read failed fails when it does not, so that `Rel` afterwards says: the
    columns in front of it stand `min n (total - rowIndex)` rows further, the ones behind have not
    moved; a call with the error pending is a stutter on both sides): the states are related again and the results
    correspond (failure ↔ failure; rows ↔ the same number of rows, each value of row `i` of the
    result being a value of row `q + i` where `q` is a row the abstract reader took a column from). -/
theorem every_step_is_an_abstract_step (file : List (List Page)) (total B : Nat) (hw : WfFile file total)
    (hne : file ≠ []) (hB : 0 < B) (st : St) (a : PqModel.RowsState.St) (hR : Rel file total st a)
    (hA : PqModel.RowsState.Aligned a) (op : Op) (hop : OpOk total op) :
    ∃ fails, Rel file total (step file B st op).1 (PqModel.RowsState.step fails total a (mapOp op)).1 ∧
      OutRel (step file B st op).2 (PqModel.RowsState.step fails total a (mapOp op)).2 :=
  step_refines file total B hw hne hB st a hR hA op hop

/-- **every_history_reaches_an_aligned_abstract_state**: a new reader is related to `RowsState.init`,
    and after EVERY history the buffer-level reader is related to an abstract state that satisfies the
    invariant `Aligned` of `RowsState`: unless the error is pending, the stream of every column starts
    with row `r.rowIndex`. -/
theorem every_history_reaches_an_aligned_abstract_state (file : List (List Page)) (total B : Nat)
    (hw : WfFile file total) (hne : file ≠ []) (hB : 0 < B) (ops : List Op) (hops : ∀ op ∈ ops, OpOk total op) :
    Rel file total (init file) (PqModel.RowsState.init file.length) ∧
    ∃ a, Rel file total (reach file B ops) a ∧ PqModel.RowsState.Aligned a :=
  ⟨init_rel file total hw, reach_rel file total B hw hne hB ops hops⟩

/-- **rows_are_aligned_buf** (the column-alignment theorem of `RowsState`, transferred): after ANY
    history of `ReadRows` (failed or not, with any number of rejected pages anywhere), `SeekToRow` and
    `Reset` on a new reader, for every buffer size, a `ReadRows(n)` of the buffer-level mirror that
    returns rows returns exactly `min n (total - rowIndex)` of them and EVERY value of row `i` of the
    result — of every column — is a value of row `rowIndex + i` (`rowIndex` = `r.rowIndex` before the
    call; 0 on a new reader): no row is assembled from different row numbers. -/
theorem rows_are_aligned_buf (file : List (List Page)) (total B : Nat) (hw : WfFile file total)
    (hne : file ≠ []) (hB : 0 < B) (ops : List Op) (hops : ∀ op ∈ ops, OpOk total op) (n : Nat)
    (rs : List (List Val)) (eof : Bool) (h : (read file B (reach file B ops) n).2 = .rows rs eof) :
    rs.length = min n (total - (reach file B ops).rowIndex.toNat) ∧
    ∀ i r, rs[i]? = some r → ∀ v ∈ r, v.row = (reach file B ops).rowIndex.toNat + i := by
  obtain ⟨a, hR, hA⟩ := reach_rel file total B hw hne hB ops hops
  exact read_rows_aligned file total B hw hne hB _ a hR hA n rs eof h

/-- **accepted_runs_are_aligned** (the same, executable: what the driver op `c13.rowsrefine` evaluates on
    the model of every file of the L2 sub-check C13/rowsbuf): the hypotheses are decided by the checker
    `wfFileB` / `opOkB` (proved sound), and when it accepts, the evaluator `alignedRun` of the conclusion
    over the whole history answers `true`. -/
theorem accepted_runs_are_aligned (file : List (List Page)) (total B : Nat) (ops : List Op)
    (hw : wfFileB file total = true) (hne : file ≠ []) (hB : 0 < B) (ho : ops.all (opOkB total) = true) :
    WfFile file total ∧ (∀ op ∈ ops, OpOk total op) ∧ alignedRun file B total (init file) ops = true :=
  ⟨wfFileB_sound file total hw, opOkB_sound total ops ho, alignedRun_true file total B ops hw hne hB ho⟩

/-- a failure stays what `RowsState` says it is: with the error pending both mirrors return it and
    change nothing (`error_is_sticky` / `error_is_sticky_buf`), so related states stay related -/
theorem pending_error_is_a_stutter (file : List (List Page)) (total B : Nat) (st : St)
    (a : PqModel.RowsState.St) (fails : PqModel.RowsState.Fails) (hR : Rel file total st a)
    (he : st.err = true) (n : Nat) :
    read file B st n = (st, .failed) ∧ PqModel.RowsState.read fails total a n = (a, .failed) := by
  have hae : a.err = true := by rw [hR.1, he]
  exact ⟨by simp [PqModel.RowsBuf.read, he], by simp [PqModel.RowsState.read, hae]⟩

/-! ### the hypotheses are satisfiable: the sample file of `C13RowsBuf` (two columns of 6 rows, pages
    of 3 and of 2 rows, page 1 of column 1 rejected) is well-formed -/

open PqModel.Props.C13RowsBuf in
example : wfFileB sample 6 = true ∧ sample ≠ [] ∧
    [Op.read 1, .read 2, .reset, .seek 4, .read 5].all (opOkB 6) = true := by decide

/-- the hypotheses of `every_step_is_an_abstract_step` are satisfiable: a new reader of the sample file -/
example : Rel C13RowsBuf.sample 6 (init C13RowsBuf.sample) (PqModel.RowsState.init 2) ∧
    PqModel.RowsState.Aligned (PqModel.RowsState.init 2) ∧ OpOk 6 (.seek 4) :=
  ⟨init_rel _ 6 (wfFileB_sound _ 6 (by decide)), PqModel.RowsState.init_aligned 2, by simp [OpOk]⟩

/-- the checker is not trivially true: a page whose row range does not continue the previous one, a
    row that starts with repetition level 1, a column with fewer rows -/
example : wfFileB [[C13RowsBuf.flat 0 false 0 0 3, C13RowsBuf.flat 0 false 1 4 2]] 6 = false ∧
    wfFileB [[{ bad := false, firstRow := 0, numRows := 1, vals := [⟨0, 0, 1, 0⟩] }]] 1 = false ∧
    wfFileB [[C13RowsBuf.flat 0 false 0 0 3], [C13RowsBuf.flat 1 false 0 0 2]] 3 = false := by decide

/-- … and a read that returns rows exists after a history with failures: rows 4 and 5 of both columns -/
example : (read C13RowsBuf.sample 8 (reach C13RowsBuf.sample 8 [.read 1, .read 2, .reset, .seek 4]) 5).2 =
    .rows [[⟨0, 4, 0, 1⟩, ⟨1, 4, 0, 2⟩], [⟨0, 5, 0, 1⟩, ⟨1, 5, 0, 2⟩]] true := by decide

/-- **short_column_yields_incomplete_rows** (why `WfFile` asks for ONE `total`): in a file whose second
    column chunk has fewer rows than the first — the footer of a real file cannot say that, a row
    group has one `NumRows` — there is no `total` for the count `min n (total - rowIndex)` to speak
    of, and the mirror returns 3 rows of which the last lacks column 1. -/
theorem short_column_yields_incomplete_rows :
    C13RowsBuf.outs [[C13RowsBuf.flat 0 false 0 0 3], [C13RowsBuf.flat 1 false 0 0 2]] 8 [.read 3] =
      [.rows [[⟨0, 0, 0, 0⟩, ⟨1, 0, 0, 0⟩], [⟨0, 1, 0, 0⟩, ⟨1, 1, 0, 0⟩], [⟨0, 2, 0, 0⟩]] true] := by decide

end PqModel.Props.C13RowsRefine
