import PqModel.ConvertViews

/-! # C12, fourth part — views composed of views (merge of a merge, multi row groups of converted
    row groups, row ranges of converted row groups)

`chunks`, `inOrder`, `rows`, `rangeOf`, `supports`, `rangeBeforeFix` are MIRRORS
(multi_row_group.go, convert.go, row_range.go; see `PqModel/ConvertViews.lean`); `sem` is SPEC.
Rows are abstract; a conversion is any pair `(f, g)` of "what Convert does to a row" and "what
the chunk face of the converted row group shows for it". -/
namespace PqModel.Props.C12Views
open PqModel.ConvertViews

/-- Reading any well-formed composition of views through `Rows()` yields the rows it stands for:
    members concatenated in order, every converted member converted row by row, every range cut
    out of the rows — for all nestings, all conversions, all row sequences. In particular a multi
    row group never reads a converted member through its column chunks, however deep it sits. -/
theorem composed_views_read_rows {α : Type} (v : View α) (h : wf v) : rows false v = sem v :=
  rows_eq_sem v h

/-- The chunk face may stand in for the rows exactly where `rowGroupReadsChunksInOrder` says so. -/
theorem chunks_are_rows_where_declared {α : Type} (v : View α) (h : wf v)
    (ht : inOrder false v = true) : chunks v = rows false v := by
  rw [chunks_eq_sem v h ht, rows_eq_sem v h]

/-- The row ranges of the merge planner (code after repair c51122c): for every view the planner
    may slice, the range view is well formed and reads rows `[off, off+len)` of the view's rows. -/
theorem row_range_reads_the_rows {α : Type} (off len : Nat) (v : View α) (h : wf v)
    (hs : supports v = true) :
    rows false (rangeOf off len v) = ((rows false v).drop off).take len := by
  have := rangeOf_wf_sem off len v h hs
  rw [rows_eq_sem _ this.1, this.2, rows_eq_sem v h]

/-- non-vacuity: a merge of [a merge of [file in the target schema, converted file], file], and a
    range of a converted file; `f` ≠ `g` (a target that widens or adds) -/
example :
    let f : Nat → Nat := (· + 100)
    let g : Nat → Nat := (· + 200)
    let t (rs : List Nat) : View Nat := .leaf true rs rs
    let inner : View Nat := .multi (.cons (t [1, 2]) (.cons (.conv f g (t [3, 4])) .nil))
    let outer : View Nat := .multi (.cons inner (.cons (t [5]) .nil))
    wf outer ∧ rows false outer = [1, 2, 103, 104, 5] ∧
      supports (View.conv f g (t [3, 4, 5, 6])) = true ∧
      rows false (rangeOf 1 2 (.conv f g (t [3, 4, 5, 6]))) = [104, 105] := by
  refine ⟨?_, by decide, by decide, by decide⟩
  simp [wf, wfL, inOrder]

/-- "Some member reads its chunks in order" instead of "all" (the shape of
    `rowGroupInterleavesChunks`, which legitimately means "any") is NOT sound: the outer multi
    row group then reads the converted member of the inner one through its chunks (`g`, not `f`). -/
theorem any_member_in_order_is_unsound :
    let f : Nat → Nat := (· + 100)
    let g : Nat → Nat := (· + 200)
    let t (rs : List Nat) : View Nat := .leaf true rs rs
    let inner : View Nat := .multi (.cons (t [1, 2]) (.cons (.conv f g (t [3, 4])) .nil))
    let outer : View Nat := .multi (.cons inner (.cons (t [5]) .nil))
    rows true outer = [1, 2, 203, 204, 5] ∧ sem outer = [1, 2, 103, 104, 5] ∧
      rows true inner = sem inner := by decide

/-- Regression fact (the planner before repair c51122c): a row range put directly on a converted
    row group reads its chunk face — rows 1..2 come out through `g` instead of `f`. -/
theorem row_range_over_converted_before_fix :
    let f : Nat → Nat := (· + 100)
    let g : Nat → Nat := (· + 200)
    let v : View Nat := .conv f g (.leaf true [3, 4, 5, 6] [3, 4, 5, 6])
    rows false (rangeBeforeFix 1 2 v) = [204, 205] ∧ ((rows false v).drop 1).take 2 = [104, 105] := by
  decide

/-- The hypothesis `inOrder` of `wf` for conversions is needed: `ConvertRowGroup` rebuilds its
    source as a plain row group over the source's column chunks, so a source whose `Rows()`
    interleave its chunks (a merged row group: chunks of input A, then of input B) comes out in
    chunk order. (Reported from the C09 side as "merge of a merged row group through a conversion
    is unsorted".) -/
theorem convert_reads_the_chunks_of_its_source :
    let merged : View Nat := .leaf false [1, 2, 3, 4] [1, 3, 2, 4]
    rows false (.conv id id merged) = [1, 3, 2, 4] ∧ sem (.conv id id merged) = [1, 2, 3, 4] := by
  decide

end PqModel.Props.C12Views
