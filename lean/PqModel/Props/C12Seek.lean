/-! # C12, seek part — rows that survive a mid-batch forward seek keep their own storage

`forwardRowSeeker.ReadRows` (row.go:256-281, the seek adapter under every `ConvertRowReader`) lets the
underlying reader fill the caller's `[]Row` buffer and, when the pending seek target lies inside that
batch, moves the surviving rows to the front VALUE BY VALUE: `rows[i] = append(rows[i][:0], rows[j]...)`.
The value-level statement (what the call returns) is `forward_seek_repaired` / `forward_history_refines`
in Props/C12Chunks. This file adds the STORAGE level, which the value level cannot see: a `[]Row`
buffer is a list of slots, each pointing at a backing array; every row reader refills a caller's
buffer with `rows[k] = append(rows[k][:0], ...)`, i.e. it writes INTO the array slot k points at.

MIRRORS: `fill` (what a row reader does with the caller's buffer, e.g. buffer.go / row_group.go
`ReadRows`), `copyLoop` (row.go:267-269, `i` and `j` advancing together), `seekBatch` (the branch
`skip < n` of row.go:260-272). `shiftAlias` is the slip of seed C12-7a: `copy(rows, rows[skip:n])`
shifts the slice headers, so slots `i` and `i+skip` share one array afterwards. -/
namespace PqModel.Props.C12Seek

/-- backing arrays by id -/
abbrev Heap (α : Type) := Nat → List α

def upd {α : Type} (h : Heap α) (a : Nat) (row : List α) : Heap α := fun b => if b = a then row else h b

/-- MIRROR: a row reader hands out `rows` through the caller's buffer `ptr` (slot k ↦ array id):
    `buf[k] = append(buf[k][:0], row...)` for k = 0, 1, ... -/
def fill {α : Type} : List Nat → List (List α) → Heap α → Heap α
  | p :: ps, r :: rs, h => fill ps rs (upd h p r)
  | _, _, h => h

/-- what the caller sees in the first `n` slots -/
def readout {α : Type} (ptr : List Nat) (n : Nat) (h : Heap α) : List (List α) := (ptr.take n).map h

/-- MIRROR row.go:267-269: `for i, j := 0, skip; j < n; i, j = i+1, j+1 { rows[i] = append(rows[i][:0], rows[j]...) }`
    over the destination slots `ds` and the source slots `ss` -/
def copyLoop {α : Type} : List Nat → List Nat → Heap α → Heap α
  | d :: ds, s :: ss, h => copyLoop ds ss (upd h d (h s))
  | _, _, h => h

/-- the destination written at step k is not a source of a later step -/
def NoClobber : List Nat → List Nat → Prop
  | d :: ds, _ :: ss => d ∉ ss ∧ NoClobber ds ss
  | _, _ => True

/-- SLIP (seed C12-7a) `copy(rows, rows[skip:n])`: the slice headers move, the arrays do not -/
def shiftAlias (ptr : List Nat) (skip n : Nat) : List Nat := (ptr.take n).drop skip ++ ptr.drop (n - skip)

/-- MIRROR of the branch `0 < skip < n` of `forwardRowSeeker.ReadRows`: the underlying reader fills
    the buffer with `batch`, the survivors move to the front. Returns the caller's buffer (slots)
    and the heap; `alias = true` is the slip. -/
def seekBatch {α : Type} (alias : Bool) (ptr : List Nat) (batch : List (List α)) (skip : Nat) (h : Heap α) :
    List Nat × Heap α :=
  let h1 := fill ptr batch h
  if alias then (shiftAlias ptr skip batch.length, h1)
  else (ptr, copyLoop (ptr.take (batch.length - skip)) ((ptr.take batch.length).drop skip) h1)

theorem fill_other {α : Type} (a : Nat) : ∀ (ps : List Nat) (rs : List (List α)) (h : Heap α),
    a ∉ ps → fill ps rs h a = h a := by
  intro ps
  induction ps with
  | nil => intro rs h _; cases rs <;> rfl
  | cons p ps ih =>
    intro rs h ha
    cases rs with
    | nil => rfl
    | cons r rs =>
      simp only [fill]
      rw [ih rs _ (fun hm => ha (List.mem_cons_of_mem _ hm))]
      simp only [upd]
      split
      · rename_i e; exact absurd (e ▸ List.mem_cons_self) ha
      · rfl

/-- a read into a buffer whose slots have distinct storage returns the rows read — whatever the
    buffer held before (dirty reuse) -/
theorem fill_readout {α : Type} : ∀ (ptr : List Nat) (rows : List (List α)) (h : Heap α),
    ptr.Nodup → rows.length ≤ ptr.length → readout ptr rows.length (fill ptr rows h) = rows := by
  intro ptr
  induction ptr with
  | nil => intro rows h _ hl; cases rows with
    | nil => rfl
    | cons r rs => simp at hl
  | cons p ps ih =>
    intro rows h hn hl
    cases rows with
    | nil => rfl
    | cons r rs =>
      have hp : p ∉ ps := (List.nodup_cons.mp hn).1
      have ih' := ih rs (upd h p r) (List.nodup_cons.mp hn).2 (by simpa using hl)
      simp only [readout, fill, List.length_cons, List.take_succ_cons, List.map_cons] at ih' ⊢
      rw [fill_other p ps rs _ hp, ih']
      simp [upd]

theorem copyLoop_other {α : Type} (a : Nat) : ∀ (ds ss : List Nat) (h : Heap α),
    a ∉ ds → copyLoop ds ss h a = h a := by
  intro ds
  induction ds with
  | nil => intro ss h _; cases ss <;> rfl
  | cons d ds ih =>
    intro ss h ha
    cases ss with
    | nil => rfl
    | cons s ss =>
      simp only [copyLoop]
      rw [ih ss _ (fun hm => ha (List.mem_cons_of_mem _ hm))]
      simp only [upd]
      split
      · rename_i e; exact absurd (e ▸ List.mem_cons_self) ha
      · rfl

/-- the copy loop as it is: afterwards destination slot k holds what source slot k held before —
    the rows returned after the seek are the rows `skip..` of the fetched batch — provided the
    buffer's slots have distinct storage (`Nodup`, `NoClobber`: both follow from distinct slots). -/
theorem copyLoop_moves_values {α : Type} : ∀ (ds ss : List Nat) (h : Heap α),
    ds.length = ss.length → ds.Nodup → NoClobber ds ss → ds.map (copyLoop ds ss h) = ss.map h := by
  intro ds
  induction ds with
  | nil => intro ss h hl _ _; cases ss with
    | nil => rfl
    | cons s ss => simp at hl
  | cons d ds ih =>
    intro ss h hl hn hc
    cases ss with
    | nil => simp at hl
    | cons s ss =>
      have hd : d ∉ ds := (List.nodup_cons.mp hn).1
      simp only [copyLoop, List.map_cons]
      rw [copyLoop_other d ds ss _ hd, ih ss _ (by simpa using hl) (List.nodup_cons.mp hn).2 hc.2]
      congr 1
      · simp [upd]
      · apply List.map_congr_left
        intro a ha
        simp only [upd]
        split
        · rename_i e; exact absurd (e ▸ ha) hc.1
        · rfl

/-- the code as it is never touches the caller's slots: distinct storage stays distinct, so by
    `fill_readout` EVERY later read into the same buffer returns its rows -/
theorem seekBatch_keeps_slots {α : Type} (ptr : List Nat) (batch : List (List α)) (skip : Nat) (h : Heap α) :
    (seekBatch false ptr batch skip h).1 = ptr := rfl

theorem next_read_after_seek_is_right {α : Type} (ptr : List Nat) (batch next : List (List α)) (skip : Nat) (h : Heap α)
    (hn : ptr.Nodup) (hl : next.length ≤ ptr.length) :
    readout (seekBatch false ptr batch skip h).1 next.length
      (fill (seekBatch false ptr batch skip h).1 next (seekBatch false ptr batch skip h).2) = next :=
  fill_readout ptr next _ hn hl

example : [0, 1, 2, 3].Nodup ∧ NoClobber [0, 1, 2] [1, 2, 3] := ⟨by decide, by simp [NoClobber]⟩

/-- the seek batch itself, as it is: rows 1.. of the batch -/
theorem seek_batch_returns_survivors :
    (fun r => readout r.1 3 r.2) (seekBatch false [0, 1, 2, 3] [[10], [11], [12], [13]] 1 (fun _ => ([] : List Nat)))
      = [[11], [12], [13]] := by decide

/-- the slip returns the same rows from the seek batch ... -/
theorem alias_seek_batch_looks_right :
    (fun r => readout r.1 3 r.2) (seekBatch true [0, 1, 2, 3] [[10], [11], [12], [13]] 1 (fun _ => ([] : List Nat)))
      = [[11], [12], [13]] := by decide

/-- ... but leaves two slots on one array ... -/
theorem alias_slots_share_storage :
    ¬ (seekBatch true [0, 1, 2, 3] [[10], [11], [12], [13]] 1 (fun _ => ([] : List Nat))).1.Nodup := by decide

/-- ... and the NEXT read into the same buffer hands the caller another row's values (seed C12-7a) -/
theorem alias_next_read_is_wrong :
    (fun r => readout r.1 4 (fill r.1 [[14], [15], [16], [17]] r.2))
      (seekBatch true [0, 1, 2, 3] [[10], [11], [12], [13]] 1 (fun _ => ([] : List Nat)))
      = [[14], [15], [17], [17]] := by decide

theorem mirror_next_read_is_right :
    (fun r => readout r.1 4 (fill r.1 [[14], [15], [16], [17]] r.2))
      (seekBatch false [0, 1, 2, 3] [[10], [11], [12], [13]] 1 (fun _ => ([] : List Nat)))
      = [[14], [15], [16], [17]] := by decide

end PqModel.Props.C12Seek
