import PqModel.PoolAsync
import PqModel.PoolAsyncExec
import PqModel.AsyncData
import PqModel.PoolAsyncHeap

/-! # C16, asynchronous page reader: who may touch / release a page buffer at each step

Theorems over `PqModel.PoolAsync`: the transition system of `asyncPages` (page.go:121-328, all
interleavings of the consumer's `ReadPage`/`SeekToRow`/`Close`, of the producer goroutine and of an
application that retains and releases the pages it was given at any moment) extended by the
refcounted page storage, the `lastPage` cache of the wrapped `FilePages` and the producer's /
consumer's local page variables. `OReach U o`: `o` is reachable for the wrapped reader `U` (any page
layout, any pattern of EOF / recoverable / fatal errors, any choice of which pages the wrapped
reader serves from its cache and of how many pages it decodes and skips inside one `ReadPage`). -/
namespace PqModel.Props.C16Async
open PqModel.Async PqModel.PoolAsync

/-- **Ownership invariant, all interleavings.** In every reachable state no reference count was
    ever decremented below zero and no released buffer was referenced again (`bug = false`: none of
    the panics of `buffer.ref`/`unref`), and the reference count of every page storage is exactly
    the number of its owners: the producer's `page` (page.go:290), the consumer's `p.page`
    (page.go:190), the wrapped reader's `lastPage` (file.go:1319) and the references held by the
    application; the storage is in the pool exactly when that number is zero. -/
theorem async_ownership_invariant (U : Under) {o : O} (hr : OReach U o) :
    o.h.bug = false ∧
    (∀ b, o.h.refc b = cnt o.sendB b + cnt o.gotB b + cnt o.last b + o.appc b) ∧
    (∀ b, b < o.h.nbuf → (o.h.pooled b = true ↔ o.h.refc b = 0)) := by
  have hi := oinv_reach hr
  exact ⟨hi.heap.nobug, hi.heap.count, hi.heap.pool⟩

/-- **A page handed to the caller is the caller's.** While the application holds a reference on a
    page returned by `ReadPage` (it has not released all of its own references), the storage is
    not in the pool — so no `get` of anybody can return and overwrite it — whatever the producer
    goroutine, later `SeekToRow`/`ReadPage`/`Close` calls and the wrapped reader's cache do. -/
theorem async_caller_page_never_pooled (U : Under) {o : O} (hr : OReach U o) {b : Nat}
    (hb : 0 < o.appc b) : o.h.pooled b = false ∧ o.appc b ≤ o.h.refc b ∧ b < o.h.nbuf := by
  have hi := oinv_reach hr
  have hc := hi.heap.count b
  simp only [claims] at hc
  have hlt : b < o.h.nbuf := hi.heap.lt (by simp only [claims]; omega)
  have hp := hi.heap.pool b hlt
  refine ⟨?_, by omega, hlt⟩
  cases hpb : o.h.pooled b with
  | false => rfl
  | true => have := hp.mp hpb; omega

/-- **A page in flight belongs to the goroutine that holds it.** The page the producer offers on
    the channel (or is about to release in its `select`) and the page the consumer has received
    and not yet tested are not in the pool: the `Release` each of them performs (page.go:175, 210,
    317, 320) is the release of a reference it owns, and nobody else has returned the storage. -/
theorem async_in_flight_not_pooled (U : Under) {o : O} (hr : OReach U o) {b : Nat}
    (hb : o.sendB = some b ∨ o.gotB = some b ∨ o.last = some b) :
    o.h.pooled b = false ∧ 0 < o.h.refc b := by
  have hi := oinv_reach hr
  have hc := hi.heap.count b
  simp only [claims] at hc
  have hpos : 0 < claims o b := by
    rcases hb with h | h | h
    · exact claims_pos_send h
    · exact claims_pos_got h
    · exact claims_pos_last h
  have hlt := hi.heap.lt hpos
  have hp := hi.heap.pool b hlt
  simp only [claims] at hpos
  refine ⟨?_, by omega⟩
  cases hpb : o.h.pooled b with
  | false => rfl
  | true => have := hp.mp hpb; omega

/-- the library's steps never take a reference away from the application -/
theorem eff_appc_mono (o : O) (c : Bool) (n : Nat) (e : Ev) (b : Nat) :
    o.appc b ≤ (eff o c n e).appc b := by
  cases e <;> simp only [eff, O.closeUnder] <;> try exact Nat.le_refl _
  case deliver => exact Nat.le_add_right _ _
  case bodyOffer r v =>
    have hk : ((o.skipUnder n).appc b) = o.appc b := by rw [skipUnder_appc]
    cases r <;> simp only [offerEff, O.readUnder] <;> try exact Nat.le_of_eq hk.symm
    split <;> exact Nat.le_of_eq hk.symm

/-- **The lifetime ends only by the caller's own Release.** Every step other than the
    application's `Release` of that very page leaves the application's references on it in place;
    with `async_caller_page_never_pooled` (applied to the state after the step): the page stays out
    of the pool across every step of the producer, every `ReadPage`, `SeekToRow` and `Close`. -/
theorem async_caller_page_survives_step (U : Under) {o o' : O} {l : Lbl} (hr : OReach U o)
    (hs : OStep U o l o') {b : Nat} (hb : 0 < o.appc b) (hl : l ≠ .appRelease b) :
    0 < o'.appc b ∧ o'.h.pooled b = false := by
  have hr' : OReach U o' := hr.step hs
  have hpos : 0 < o'.appc b := by
    cases hs with
    | lib c n hs => rename_i e g'; exact Nat.lt_of_lt_of_le hb (eff_appc_mono o c n e b)
    | appRetain ha => exact Nat.lt_of_lt_of_le hb (Nat.le_add_right _ _)
    | appRelease ha =>
      rename_i b'
      have hne : b' ≠ b := fun e => hl (by rw [e])
      have : ¬ some b' = some b := by intro h; cases h; exact hne rfl
      simp only [cnt, this]; exact hb
  exact ⟨hpos, (async_caller_page_never_pooled U hr' hpos).1⟩

/-- **Close leaves nothing behind.** Once `Close` has returned, the library holds no reference on
    any page storage: every reference count equals the number of references the application still
    holds, and every page storage the application does not hold is back in the pool. (That `Close`
    returns: C15, `async_no_deadlock` and the fairness theorems.) -/
theorem async_close_keeps_only_caller_refs (U : Under) {o : O} (hr : OReach U o)
    (hc : o.g.cpc = .closed) :
    (∀ b, o.h.refc b = o.appc b) ∧ (∀ b, b < o.h.nbuf → o.appc b = 0 → o.h.pooled b = true) := by
  have hi := oinv_reach hr
  have hctl := ctl_reachable (oreach_proj hr)
  have hp := hctl.closed_exit hc
  have hs : o.sendB = none := by
    cases hsb : o.sendB with
    | none => rfl
    | some b => obtain ⟨it, hit⟩ := hi.send_pc (by simp [hsb]); rw [hp] at hit; cases hit
  have hg : o.gotB = none := by
    cases hgb : o.gotB with
    | none => rfl
    | some b => obtain ⟨it, hit⟩ := hi.got_pc (by simp [hgb]); rw [hc] at hit; cases hit
  have hl : o.last = none := hi.fin_last (.inr hp)
  have hcount : ∀ b, o.h.refc b = o.appc b := by
    intro b
    have := hi.heap.count b
    simpa [claims, cnt, hs, hg, hl] using this
  refine ⟨hcount, ?_⟩
  intro b hlt h0
  exact (hi.heap.pool b hlt).mpr (by rw [hcount b, h0])

/-- the protocol theorems of C15 apply to the extended system: its protocol component is a
    reachable state of `PqModel.Async` -/
theorem async_ownership_projects (U : Under) {o : O} (hr : OReach U o) : Reachable U o.g :=
  oreach_proj hr

/-- the executable successor function run by `pqdriver` (op `asyncown.run`) is the relation -/
theorem async_ownership_exec_iff (U : Under) (o : O) (l : Lbl) (o' : O) :
    onext? U o l = some o' ↔ OStep U o l o' := onext?_iff

/-- **The storage operations are `PqModel.Pool`'s buffer operations** (the mirror of buffer.go
    `ref` / `unref` / `bufferPool.get` that C16's buffer-event replay `pool.trace` ties to the
    library): as long as the two heaps agree on reference counts, pool membership and panics, they
    agree after `bufferUnref`, after `bufferRef` and after the decode of a page into a new buffer
    (with and without the cache's `Retain`). Hence `pooled b = false` here is `inPool = false` there,
    and `Pool`'s `get` returns pooled buffers only. -/
theorem async_storage_ops_are_pool_ops {h : Hp} {H : Pool.Heap} (a : Agree h H) (hw : Pool.HW H) :
    (∀ b, b < h.nbuf → Agree (h.unref (some b)) (H.unref b)) ∧
    (∀ b, Agree (h.ref b) (H.ref b)) ∧
    (∀ d, Agree h.alloc1 (H.get H.nbufs d).1 ∧ Agree h.alloc ((H.get H.nbufs d).1.ref H.nbufs)) ∧
    Agree PoolAsync.init.h Pool.Heap.init :=
  ⟨fun _ hb => agree_unref a hw hb, fun _ => agree_ref a, fun _ => agree_alloc a hw, agree_init⟩

example : Agree PoolAsync.init.h Pool.Heap.init ∧ Pool.HW Pool.Heap.init := ⟨agree_init, Pool.HW_init⟩

/-! ## Non-vacuity: concrete interleavings (checked by evaluation) -/

/-- two pages of two rows each -/
def U2 : Under :=
  { next := fun p => if p < 2 then 2 else if p < 4 then 4 else p,
    rd := fun p => if p < 4 then .page else .eof, sk := fun _ => .ok }

/-- ReadPage delivers page 0; the producer prefetches page 1 (the wrapped reader drops its cached
    reference on page 0); the application still holds page 0: its LAST reference is the caller's,
    the storage is not pooled. Then SeekToRow makes the producer release the prefetched page, and
    Close drains: storage 1 is pooled, storage 0 still the caller's. -/
def witness : List Lbl :=
  [.lib .readBegin false 0, .lib .initPass false 0, .lib .pollEmpty false 0,
   .lib (.bodyOffer (.page 0) 0) false 0, .lib .handoff false 0, .lib (.deliver (.page 0) 0) false 0,
   .lib (.bodyOffer (.page 2) 0) false 0,
   .lib (.seekPoll false) false 0, .lib (.seekSend 0 1) false 0, .lib (.selTake 0 1) false 0,
   .lib .closeBegin false 0, .lib .bodyCont false 0, .lib (.bodyOffer (.page 0) 1) false 0,
   .lib .selDone false 0, .lib .closeFinal false 0, .lib .closeEnd false 0]

example : ocheck U2 (witness.take 7) (fun o => o.appc 0 = 1 ∧ o.h.refc 0 = 1 ∧ o.h.pooled 0 = false ∧
    o.h.refc 1 = 2 ∧ o.last = some 1 ∧ o.sendB = some 1) = true := by decide

example : ocheck U2 witness (fun o => o.g.cpc = .closed ∧ o.appc 0 = 1 ∧ o.h.refc 0 = 1 ∧
    o.h.pooled 0 = false ∧ o.h.pooled 1 = true ∧ o.h.pooled 2 = true ∧ o.h.nbuf = 3 ∧
    o.h.bug = false) = true := by decide

/-- the hypotheses of the theorems are satisfiable: a reachable state in which the application
    holds a page and Close has returned -/
example : ∃ o, OReach U2 o ∧ 0 < o.appc 0 ∧ o.g.cpc = .closed := by
  obtain ⟨o, hr, hp⟩ := ocheck_reach (U := U2) (ls := witness)
    (p := fun o => decide (0 < o.appc 0 ∧ o.g.cpc = .closed)) (by decide)
  exact ⟨o, hr, of_decide_eq_true hp⟩

/-- the page served from the wrapped reader's cache shares the storage of the cached page: after a
    SeekToRow into the last returned page the producer offers a Slice of it (`cached = true`), the
    caller then holds two pages on one storage and must release both before it is pooled -/
def witnessCached : List Lbl :=
  [.lib .readBegin false 0, .lib .initPass false 0, .lib .pollEmpty false 0,
   .lib (.bodyOffer (.page 0) 0) false 0, .lib .handoff false 0, .lib (.deliver (.page 0) 0) false 0,
   .lib (.seekPoll false) false 0, .lib (.seekSend 1 1) false 0,
   .lib (.bodyOffer (.page 2) 0) false 0, .lib (.selTake 1 1) false 0, .lib .bodyCont false 0]

example : ocheck U2 witnessCached (fun o => o.last = some 1 ∧ o.h.pooled 0 = false ∧ o.appc 0 = 1)
    = true := by decide

/-- SeekToRow behind the last row: the wrapped `ReadPage` decodes the last page, skips it and
    answers io.EOF (`skipped = 1`): the cache now holds the skipped page (storage 2), the storage of
    the page prefetched before the seek (1) is back in the pool, the caller's page (0) untouched -/
def witnessSkip : List Lbl :=
  [.lib .readBegin false 0, .lib .initPass false 0, .lib .pollEmpty false 0,
   .lib (.bodyOffer (.page 0) 0) false 0, .lib .handoff false 0, .lib (.deliver (.page 0) 0) false 0,
   .lib (.bodyOffer (.page 2) 0) false 0,
   .lib (.seekPoll false) false 0, .lib (.seekSend 4 1) false 0, .lib (.selTake 4 1) false 0,
   .lib .bodyCont false 0, .lib (.bodyOffer .eof 1) false 1]

example : ocheck U2 witnessSkip (fun o => o.last = some 2 ∧ o.h.refc 2 = 1 ∧ o.h.pooled 1 = true ∧
    o.h.refc 0 = 1 ∧ o.appc 0 = 1 ∧ o.h.pooled 0 = false ∧ o.sendB = none) = true := by decide

/-- a Release the application does not own is not a step of the system (the assumption of C16: the
    caller releases only what it holds); with it the storage WOULD be pooled under the caller -/
example : onext? U2 PoolAsync.init (.appRelease 0) = none := by decide

end PqModel.Props.C16Async
