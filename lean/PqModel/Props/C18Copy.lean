import PqModel.CopyPathProofs

/-! # C18, copy part — the verbatim splice of `Writer.WriteRowGroup` never meets an encrypted side

`Writer.WriteRowGroup` has a byte-level fast path (writer_copy.go): the pages, page index and
bloom filter of a source *file* row group are spliced into the output as they are stored. Bytes
spliced that way are not sealed by the destination (an encrypting destination would hold the
source's plaintext while its footer declares the columns encrypted: a leak and an unreadable
file), and are not opened from the source (a plaintext destination would hold the source's
ciphertext). The property therefore needs of the cascade: *verbatim path taken → neither side is
encrypted*.

MIRROR: `PqModel.CopyPath` (the C11 mirror of the cascade: `columnChunkIsCopyable`, `allCopyable`,
`copyable`, `splittable`, `pack`, `plan`); the guards are writer_copy.go:114-116
(`w.writer.encryption != nil`) and writer_copy.go:205-212 (`src.decryptionKey != nil`,
`dst.encKey != nil`). The theorems hold for both mirror variants, every destination
configuration, every (nested, segmented) row group and every fuel.

`GuardForm` re-states the two guarded functions with the form of the guard as a parameter:
`.separate` is the code as it is, `.merged` is the "consolidated" form in which the writer-level
guard is gone and the two per-column guards are joined by `&&`; `merged_guard_splices_*` are the
witnesses that the merged form violates the theorem. -/
namespace PqModel.Props.C18Copy
open PqModel.CopyPath
variable {α : Type}

/-- the per-column loop only succeeds on plaintext file chunks and non-encrypting column writers -/
theorem allCopyable_plaintext {v : Variant} :
    ∀ (ds : List DstCol) (cs : List Chunk), allCopyable v ds cs = true →
      (∀ d ∈ ds, d.encrypted = false) ∧ (∀ c ∈ cs, ∃ m, c = Chunk.file m ∧ m.encrypted = false)
  | [], [], _ => by simp
  | [], _ :: _, h => by simp [allCopyable] at h
  | _ :: _, [], h => by simp [allCopyable] at h
  | d :: ds, c :: cs, h => by
    cases c with
    | file m =>
      simp [allCopyable] at h
      have hf := copyable_col_facts h.1
      have ih := allCopyable_plaintext ds cs h.2
      refine ⟨?_, ?_⟩
      · intro d' hd'
        rcases List.mem_cons.1 hd' with rfl | hd'
        · exact hf.2.1
        · exact ih.1 d' hd'
      · intro c' hc'
        rcases List.mem_cons.1 hc' with rfl | hc'
        · exact ⟨m, rfl, hf.1⟩
        · exact ih.2 c' hc'
    | buffer => simp [allCopyable] at h
    | range b => simp [allCopyable] at h
    | other => simp [allCopyable] at h

/-- what "neither side is encrypted" means for one spliced row group -/
def PlaintextSides (g : DstCfg) (rg : RG α) : Prop :=
  g.encrypting = false ∧ (∀ d ∈ g.cols, d.encrypted = false) ∧
  (∀ c ∈ rg.chunks, ∃ m, c = Chunk.file m ∧ m.encrypted = false)

/-- `copyableColumnChunks` answers yes only when the writer does not encrypt, no column writer holds
    a key and every source chunk is a file chunk read without a decryption key. -/
theorem copyable_implies_plaintext_sides {v : Variant} {g : DstCfg} {rg : RG α}
    (h : copyable v g rg = true) : PlaintextSides g rg := by
  obtain ⟨henc, _, hall⟩ := copyable_parts h
  obtain ⟨hd, hc⟩ := allCopyable_plaintext g.cols rg.chunks hall
  exact ⟨henc, hd, hc⟩

/-- one call of `WriteRowGroup` -/
theorem verbatim_path_implies_plaintext_sides {v : Variant} {g : DstCfg} {rg : RG α}
    (h : choosePathV v g rg = .verbatim) : PlaintextSides g rg :=
  copyable_implies_plaintext_sides (verbatim_copyable h)

/-- MAIN: through the whole recursion of `WriteRowGroup` over segmented row groups (merges,
    `MultiRowGroup`, packing of segments), every row group that is spliced verbatim has plaintext
    sides: copy path taken → neither side encrypted. -/
theorem verbatim_implies_plaintext_sides (v : Variant) (g : DstCfg) :
    ∀ (fuel : Nat) (rg : RG α) (r : RG α), Step.verbatim r ∈ plan v g fuel rg → PlaintextSides g r
  | 0, rg, r, hs => by simp [plan] at hs
  | fuel + 1, rg, r, hs => by
    simp only [plan] at hs
    split at hs
    · obtain ⟨b, _, hsb⟩ := List.mem_flatMap.1 hs
      cases b with
      | single x => exact verbatim_implies_plaintext_sides v g fuel x r hsb
      | packed ss => simp at hsb
    · split at hs
      · rename_i hc
        simp at hs
        subst hs
        exact copyable_implies_plaintext_sides hc
      · split at hs <;> simp at hs

/-- an encrypting writer never splices: all of its output goes through the column writers (which
    seal every page, `C18Leak.encrypted_columns_never_raw`) -/
theorem encrypting_writer_no_verbatim_step (v : Variant) (g : DstCfg) (henc : g.encrypting = true)
    (fuel : Nat) (rg r : RG α) : Step.verbatim r ∉ plan v g fuel rg := by
  intro h
  have := (verbatim_implies_plaintext_sides v g fuel rg r h).1
  rw [henc] at this
  cases this

/-- a source read with a decryption key is never spliced, whatever the destination -/
theorem encrypted_source_no_verbatim_step (v : Variant) (g : DstCfg) (fuel : Nat) (rg r : RG α)
    (m : ChunkMeta) (hm : Chunk.file m ∈ r.chunks) (henc : m.encrypted = true) :
    Step.verbatim r ∉ plan v g fuel rg := by
  intro h
  obtain ⟨m', hm', he⟩ := (verbatim_implies_plaintext_sides v g fuel rg r h).2.2 _ hm
  cases hm'
  rw [henc] at he
  cases he

/-! ## The form of the guard -/

/-- `.separate`: writer-level guard and two per-column guards, each refusing on its own (the code
    as it is). `.merged`: no writer-level guard, one per-column guard `src encrypted && dst
    encrypted` (what a "consolidation" of the duplicated guards can slip into). -/
inductive GuardForm | separate | merged
  deriving DecidableEq, Repr

/-- writer_copy.go:202-247 with the guard as a parameter; the clauses after the guard are those of
    `columnChunkIsCopyable` evaluated on plaintext sides -/
def columnChunkIsCopyableG (f : GuardForm) (v : Variant) (d : DstCol) (c : ChunkMeta) : Bool :=
  match f with
  | .separate => columnChunkIsCopyable v d c
  | .merged =>
    if c.encrypted && d.encrypted then false
    else columnChunkIsCopyable v { d with encrypted := false } { c with encrypted := false }

def allCopyableG (f : GuardForm) (v : Variant) : List DstCol → List Chunk → Bool
  | d :: ds, .file m :: cs => columnChunkIsCopyableG f v d m && allCopyableG f v ds cs
  | [], [] => true
  | _, _ => false

/-- writer_copy.go:106-146 with the guard as a parameter -/
def copyableG (f : GuardForm) (v : Variant) (g : DstCfg) (rg : RG α) : Bool :=
  if g.disableCopy then false
  else if (match f with | .separate => g.encrypting | .merged => false) then false
  else if rg.numRows > g.maxRows then false
  else if !chunkTransparent rg then false
  else if rg.chunks.length ≠ g.cols.length then false
  else allCopyableG f v g.cols rg.chunks

theorem allCopyableG_separate (v : Variant) :
    ∀ (ds : List DstCol) (cs : List Chunk), allCopyableG .separate v ds cs = allCopyable v ds cs
  | [], [] => rfl
  | [], _ :: _ => rfl
  | _ :: _, [] => rfl
  | d :: ds, c :: cs => by
    cases c <;> simp [allCopyableG, allCopyable, columnChunkIsCopyableG, allCopyableG_separate v ds cs]

/-- the `.separate` form IS the mirror: the theorems above speak about it -/
theorem copyableG_separate (v : Variant) (g : DstCfg) (rg : RG α) :
    copyableG .separate v g rg = copyable v g rg := by
  simp [copyableG, copyable, allCopyableG_separate]

theorem separate_guard_plaintext_sides {v : Variant} {g : DstCfg} {rg : RG α}
    (h : copyableG .separate v g rg = true) : PlaintextSides g rg := by
  rw [copyableG_separate] at h
  exact copyable_implies_plaintext_sides h

/-- a plaintext source chunk written under the destination's settings (non-vacuity witness) -/
def plainSource : ChunkMeta :=
  { type := 6, codec := 0, encStats := [⟨3, 6, 1⟩], columnIndexOffset := 100, offsetIndexOffset := 200,
    bloomOffset := 0, bloomLength := 0, bloomHeader := none, encrypted := false, numValues := 100,
    nullCount := 0, rows := 100, hasDictPage := false,
    pages := [⟨3, 6, false, false, 0, 8, 8⟩], hasMinMax := true, hasDeprecated := false }

def plainCol : DstCol :=
  { kind := 6, codec := 0, encoding := 6, dict := false, pageType := 3, filterBpv := none,
    filterCompressed := false, encrypted := false, pageStats := false, pageBounds := true,
    deprecatedStats := false, indexLimit := 8 }

def plainDst : DstCfg :=
  { disableCopy := false, disableReencode := false, encrypting := false, maxRows := 1000, cols := [plainCol] }

/-- the same destination created with `WithEncryption` -/
def encDst : DstCfg := { plainDst with encrypting := true, cols := [{ plainCol with encrypted := true }] }

def plainRowGroup : RG Unit := .leaf .file 100 [.file plainSource] [] []

/-- the same source opened with `WithDecryption` -/
def encRowGroup : RG Unit := .leaf .file 100 [.file { plainSource with encrypted := true }] [] []

/-- non-vacuity: with plaintext sides the verbatim path IS taken -/
example : copyCount (plan .repaired plainDst 1 plainRowGroup) = 1 := by decide
example : choosePathV .repaired plainDst plainRowGroup = .verbatim := by decide

/-- the mirror demotes both one-sided situations (and the two-sided one) -/
example : choosePathV .repaired encDst plainRowGroup = .reencode := by decide
example : choosePathV .repaired plainDst encRowGroup = .reencode := by decide
example : choosePathV .repaired encDst encRowGroup = .reencode := by decide

/-- NEGATION WITNESS for the merged form, plaintext source → encrypting destination: the predicate
    says "copy" although the writer and its column writer encrypt. -/
theorem merged_guard_splices_into_encrypting_writer :
    copyableG .merged .repaired encDst plainRowGroup = true ∧ ¬ PlaintextSides encDst plainRowGroup := by
  refine ⟨by decide, ?_⟩
  intro h
  exact absurd h.1 (by decide)

/-- NEGATION WITNESS for the merged form, encrypted source → plaintext destination. -/
theorem merged_guard_splices_ciphertext :
    copyableG .merged .repaired plainDst encRowGroup = true ∧ ¬ PlaintextSides plainDst encRowGroup := by
  refine ⟨by decide, ?_⟩
  intro h
  obtain ⟨m, hm, he⟩ := h.2.2 _ (List.mem_singleton.2 rfl)
  cases hm
  exact absurd he (by decide)

/-- the merged form still refuses when BOTH sides are encrypted, which is why it passes the
    enc → enc tests -/
example : copyableG .merged .repaired encDst encRowGroup = false := by decide

/-- dropping the writer-level guard alone (per-column `||` kept) leaves the column-level part of
    the theorem intact: `allCopyable_plaintext` does not use `g.encrypting`. (That `dst.encKey != nil`
    for every column of an encrypting writer is writer.go:889,1202, outside this mirror.) The
    writer-level guard on its own refuses every encrypting destination: -/
theorem writer_guard_refuses_encrypting_destination (v : Variant) (g : DstCfg) (rg : RG α)
    (henc : g.encrypting = true) : copyableG .separate v g rg = false := by
  simp [copyableG, henc]

end PqModel.Props.C18Copy
