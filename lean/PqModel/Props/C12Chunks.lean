import PqModel.ConvertChunksProofs
import PqModel.ConvertChunksFixed
import PqModel.Props.C12

/-! # C12, second part — the column-chunk view of a converted row group, the sorting columns it
    declares, and reading converted rows in batches

MIRRORS: `chunkView` (`ConvertRowGroup` + `convertedColumnChunk` + `missingColumnChunk` +
`findAdjacentColumnChunk`, convert.go:562-981), `carrySorting` (convert.go:677-683), `Fwd.read`
(`forwardRowSeeker.ReadRows`, row.go:256-281), `convRead`/`drain` (`convertedRows.ReadRows` under a
batching consumer such as `CopyRows`). `rowView` is the row path proved in `convert_shred`. -/
namespace PqModel.Props.C12Chunks
open PqModel.Dremel PqModel.Convert

/-! ## (1) column chunks -/

/-- Since repair 2c2062a: for targets that delete and permute fields at any depth and turn
    required fields into optional ones (`subN`, everything `convert_shred` covers) the streams
    served by the column chunks of the converted row group are exactly the streams of the rows
    read through `convertedRows` (and both are the shredded projections), for every non-empty row
    group of conforming rows. Before the repair this held for `permN` only (no widening). -/
theorem chunk_view_eq_row_view (src tgt : PNode) (n : Nat) (v0 : Val) (vs : List Val)
    (hp : subN src tgt = true) (hwf : wfN (eraseN src) = true)
    (hconf : ∀ v ∈ v0 :: vs, confN (eraseN src) v = true) :
    chunkView src tgt (joinRows (leavesP src) ((v0 :: vs).map (shred src))) n = rowView src tgt (v0 :: vs) ∧
      rowView src tgt (v0 :: vs) = joinRows (leavesP tgt) ((v0 :: vs).map fun v => shred tgt (projN src tgt v)) := by
  have hrow : rowView src tgt (v0 :: vs) =
      joinRows (leavesP tgt) ((v0 :: vs).map fun v => shred tgt (projN src tgt v)) := by
    simp only [rowView]
    congr 1
    apply List.map_congr_left
    intro v hv
    exact PqModel.Props.C12.convert_shred src tgt v hp hwf (hconf v hv)
  exact ⟨(chunkView_rows_sub src tgt n v0 vs hp hwf hconf).trans hrow.symm, hrow⟩

/-- non-vacuity: drop a column, permute and WIDEN inside a repeated group, two rows -/
example :
    let src : PNode := .group (.cons 1 .opt .leaf (.cons 2 .rpt (.group (.cons 5 .req .leaf (.cons 6 .opt .leaf .nil))) (.cons 3 .req .leaf .nil)))
    let tgt : PNode := .group (.cons 2 .rpt (.group (.cons 6 .opt .leaf (.cons 5 .opt .leaf .nil))) (.cons 1 .opt .leaf .nil))
    let rows : List Val := [.struct [.none, .list [.struct [.prim 1, .none], .struct [.prim 2, .some (.prim 3)]], .prim 9],
      .struct [.some (.prim 4), .list [], .prim 8]]
    subN src tgt = true ∧ permN src tgt = false ∧ wfN (eraseN src) = true ∧ (∀ v ∈ rows, confN (eraseN src) v = true) ∧
      chunkView src tgt (joinRows (leavesP src) (rows.map (shred src))) 2 =
        [[⟨none, 0, 1⟩, ⟨some 3, 1, 2⟩, ⟨none, 0, 0⟩], [⟨some 1, 0, 2⟩, ⟨some 2, 1, 2⟩, ⟨none, 0, 0⟩], [⟨none, 0, 0⟩, ⟨some 4, 0, 1⟩]] := by
  decide

/-- The delete/permute case as a corollary (the statement that held before the repair too). -/
theorem chunk_view_eq_row_view_perm (src tgt : PNode) (n : Nat) (v0 : Val) (vs : List Val)
    (hp : permN src tgt = true) (hwf : wfN (eraseN src) = true)
    (hconf : ∀ v ∈ v0 :: vs, confN (eraseN src) v = true) :
    chunkView src tgt (joinRows (leavesP src) ((v0 :: vs).map (shred src))) n = rowView src tgt (v0 :: vs) :=
  (chunk_view_eq_row_view src tgt n v0 vs (perm_subN tgt src hp) hwf hconf).1

/-- non-vacuity: drop a column, permute inside a repeated group, two rows -/
example :
    let src : PNode := .group (.cons 1 .opt .leaf (.cons 2 .rpt (.group (.cons 5 .req .leaf (.cons 6 .opt .leaf .nil))) (.cons 3 .req .leaf .nil)))
    let tgt : PNode := .group (.cons 2 .rpt (.group (.cons 6 .opt .leaf (.cons 5 .req .leaf .nil))) (.cons 1 .opt .leaf .nil))
    let rows : List Val := [.struct [.none, .list [.struct [.prim 1, .none], .struct [.prim 2, .some (.prim 3)]], .prim 9],
      .struct [.some (.prim 4), .list [], .prim 8]]
    permN src tgt = true ∧ wfN (eraseN src) = true ∧ (∀ v ∈ rows, confN (eraseN src) v = true) ∧
      chunkView src tgt (joinRows (leavesP src) (rows.map (shred src))) 2 =
        [[⟨none, 0, 1⟩, ⟨some 3, 1, 2⟩, ⟨none, 0, 0⟩], [⟨some 1, 0, 1⟩, ⟨some 2, 1, 1⟩, ⟨none, 0, 0⟩], [⟨none, 0, 0⟩, ⟨some 4, 0, 1⟩]] := by
  decide

-- OPEN: chunk_view_eq_row_view for added columns (`addN`) and for narrowed columns
--   (optional -> required). Added: false for the code as it stands, the chunk view synthesises
--   added columns from an adjacent chunk, capped at `numRows` entries (known finding
--   `added-column-chunk-mirrors-adjacent`; witnesses below). Narrowed: true since repairs
--   2c2062a + fa179c0 (`chunk_view_narrowed_is_row_view` is the former counterexample, L1/L2 cover
--   random narrowed targets) but not proved: `main_chunkN_sub`, like `main_convN`, needs `rpOk`.

/-- BEFORE repair 2c2062a (regression fact; former finding `widened-column-keeps-source-levels`):
    required → optional, the chunk kept definition level 0 (reads as null), the row path says 1 -/
theorem chunk_view_widened_keeps_source_levels_before_fix :
    let src : PNode := .group (.cons 1 .req .leaf .nil)
    let tgt : PNode := .group (.cons 1 .opt .leaf .nil)
    let rows : List Val := [.struct [.prim 1], .struct [.prim 2]]
    subN src tgt = true ∧
      chunkView_before_fix src tgt (joinRows 1 (rows.map (shred src))) 2 = [[⟨some 1, 0, 0⟩, ⟨some 2, 0, 0⟩]] ∧
      rowView src tgt rows = [[⟨some 1, 0, 1⟩, ⟨some 2, 0, 1⟩]] := by decide

/-- after repair 2c2062a the chunk of the widened column is the row view -/
theorem chunk_view_widened_is_row_view :
    let src : PNode := .group (.cons 1 .req .leaf .nil)
    let tgt : PNode := .group (.cons 1 .opt .leaf .nil)
    let rows : List Val := [.struct [.prim 1], .struct [.prim 2]]
    chunkView src tgt (joinRows 1 (rows.map (shred src))) 2 = rowView src tgt rows ∧
      rowView src tgt rows = [[⟨some 1, 0, 1⟩, ⟨some 2, 0, 1⟩]] := by decide

/-- BEFORE repair 2c2062a (regression fact; former finding `narrowed-column-keeps-source-levels`):
    optional → required, the chunk kept level 1 (above the column's maximum 0) and the null -/
theorem chunk_view_narrowed_keeps_source_levels_before_fix :
    let src : PNode := .group (.cons 1 .opt .leaf .nil)
    let tgt : PNode := .group (.cons 1 .req .leaf .nil)
    let rows : List Val := [.struct [.some (.prim 1)], .struct [.none]]
    chunkView_before_fix src tgt (joinRows 1 (rows.map (shred src))) 2 = [[⟨some 1, 0, 1⟩, ⟨none, 0, 0⟩]] ∧
      rowView src tgt rows = [[⟨some 1, 0, 0⟩, ⟨some 0, 0, 0⟩]] := by decide

/-- after repairs 2c2062a + fa179c0 the chunk of the narrowed column is the row view, also below
    an optional ancestor (the null becomes the typed zero at the column's maximal level) -/
theorem chunk_view_narrowed_is_row_view :
    let src : PNode := .group (.cons 1 .opt .leaf (.cons 2 .opt (.group (.cons 3 .opt .leaf .nil)) .nil))
    let tgt : PNode := .group (.cons 2 .opt (.group (.cons 3 .req .leaf .nil)) (.cons 1 .req .leaf .nil))
    let rows : List Val := [.struct [.some (.prim 1), .some (.struct [.none])], .struct [.none, .none],
      .struct [.none, .some (.struct [.some (.prim 7)])]]
    chunkView src tgt (joinRows 2 (rows.map (shred src))) 3 = rowView src tgt rows ∧
      rowView src tgt rows = [[⟨some 0, 0, 1⟩, ⟨none, 0, 0⟩, ⟨some 7, 0, 1⟩], [⟨some 1, 0, 0⟩, ⟨some 0, 0, 0⟩, ⟨some 0, 0, 0⟩]] := by decide

/-- known finding `added-column-chunk-mirrors-adjacent:*-under-repeated`: an optional leaf added
    inside a repeated group (closest sibling required, so the ROW path is right by
    `convert_shred_added_partial`): the missing chunk mirrors the adjacent column but stops after
    `numRows = 2` entries — the third entry (the empty list of row 2) is missing and every later
    row read through the chunks is misaligned -/
theorem chunk_view_added_under_repeated_truncated :
    let src : PNode := .group (.cons 1 .rpt (.group (.cons 2 .req .leaf .nil)) .nil)
    let tgt : PNode := .group (.cons 1 .rpt (.group (.cons 2 .req .leaf (.cons 3 .opt .leaf .nil))) .nil)
    let rows : List Val := [.struct [.list [.struct [.prim 5], .struct [.prim 6]]], .struct [.list []]]
    addN 0 src tgt = true ∧
      chunkView src tgt (joinRows 1 (rows.map (shred src))) 2 =
        [[⟨some 5, 0, 1⟩, ⟨some 6, 1, 1⟩, ⟨none, 0, 0⟩], [⟨none, 0, 1⟩, ⟨none, 1, 1⟩]] ∧
      rowView src tgt rows =
        [[⟨some 5, 0, 1⟩, ⟨some 6, 1, 1⟩, ⟨none, 0, 0⟩], [⟨none, 0, 1⟩, ⟨none, 1, 1⟩, ⟨none, 0, 0⟩]] := by decide

/-- known finding `added-column-chunk-mirrors-adjacent:*-flat`: an optional leaf added inside an
    optional group: without repetition the missing chunk emits `maxDef - 1` for every row, also
    for the row whose group is null (row path: level 0) -/
theorem chunk_view_added_flat_ignores_null_ancestors :
    let src : PNode := .group (.cons 1 .opt (.group (.cons 2 .req .leaf .nil)) .nil)
    let tgt : PNode := .group (.cons 1 .opt (.group (.cons 2 .req .leaf (.cons 3 .opt .leaf .nil))) .nil)
    let rows : List Val := [.struct [.none], .struct [.some (.struct [.prim 4])]]
    addN 0 src tgt = true ∧
      chunkView src tgt (joinRows 1 (rows.map (shred src))) 2 =
        [[⟨none, 0, 0⟩, ⟨some 4, 0, 1⟩], [⟨none, 0, 1⟩, ⟨none, 0, 1⟩]] ∧
      rowView src tgt rows = [[⟨none, 0, 0⟩, ⟨some 4, 0, 1⟩], [⟨none, 0, 0⟩, ⟨none, 0, 1⟩]] := by decide

/-! ## (2) sorting columns of the converted row group -/

/-- `ConvertRowGroup` declares the LONGEST PREFIX of the source's sorting columns whose columns
    exist in the target: a prefix, all of it survives, and it stops only at the end or at a
    column the target drops. -/
theorem converted_sorting_is_prefix {κ : Type} (survives : κ → Bool) (cs : List κ) :
    ∃ rest, cs = carrySorting survives cs ++ rest ∧ (∀ c ∈ carrySorting survives cs, survives c = true) ∧
      (rest = [] ∨ ∃ c r, rest = c :: r ∧ survives c = false) :=
  carrySorting_prefix survives cs

/-- Hence it is a TRUE order of the converted rows: if the source rows are sorted by the source's
    sorting columns (`key c` compares two rows on column `c`) and conversion `f` keeps the values
    of surviving columns (`convert_shred`), the converted rows are sorted by what is declared. -/
theorem converted_sorting_is_true_order {α β κ : Type} (survives : κ → Bool) (cs : List κ)
    (key : κ → α → α → Ordering) (key' : κ → β → β → Ordering) (f : α → β) (rows : List α)
    (hkeep : ∀ c, survives c = true → ∀ a b, key' c (f a) (f b) = key c a b)
    (hsorted : SortedBy (cs.map key) rows) :
    SortedBy ((carrySorting survives cs).map key') (rows.map f) := by
  obtain ⟨rest, h1, h2, _⟩ := carrySorting_prefix survives cs
  have hs : SortedBy ((carrySorting survives cs).map key) rows := by
    rw [h1, List.map_append] at hsorted
    exact sortedBy_prefix _ _ rows hsorted
  exact sortedBy_map f key key' _ (fun c hc => hkeep c (h2 c hc)) rows hs

/-- non-vacuity and the seeded slip: source sorted on (0, 1, 2), target drops the middle column.
    `break` declares (0); `continue` would declare (0, 2), which is not an order of the rows. -/
example :
    let key : Nat → List Nat → List Nat → Ordering := fun c a b => compare (a.getD c 0) (b.getD c 0)
    let rows : List (List Nat) := [[0, 0, 1], [0, 1, 0]]
    let sv : Nat → Bool := fun c => c != 1
    SortedBy ([0, 1, 2].map key) rows ∧ carrySorting sv [0, 1, 2] = [0] ∧
      carrySortingContinue sv [0, 1, 2] = [0, 2] ∧
      lexLE ((carrySortingContinue sv [0, 1, 2]).map key) [0, 0, 1] [0, 1, 0] = false := by
  refine ⟨⟨by decide, trivial⟩, by decide, by decide, by decide⟩

/-! ## (3) row count and order through batches -/

/-- `CopyRows` / `ReadRowsFrom` through `ConvertRowReader` (no seek): whatever buffer sizes the
    consumer uses, it receives the converted rows in order, none lost, none repeated; with enough
    calls all of them. -/
theorem copy_rows_count_order {α β : Type} (f : α → β) (caps : List Nat) (rows : List α) :
    drain f caps { rest := rows, seek := 0, index := 0 } = some ((rows.take caps.sum).map f) ∧
      (rows.length ≤ caps.sum → drain f caps { rest := rows, seek := 0, index := 0 } = some (rows.map f)) := by
  have h := drain_plain f caps { rest := rows, seek := 0, index := 0 } (Nat.le_refl _)
  refine ⟨h, fun hl => ?_⟩
  rw [h]
  simp only []
  rw [List.take_of_length_le hl]

/-- regression fact (before the repair c3e3444): `SeekToRow` to a row INSIDE the next batch
    panicked (the copy loop never advanced `j`) -/
theorem forward_seek_inside_batch_panics_before_fix :
    (Fwd.readBeforeFix 4 10 ({ rest := List.range 10, seek := 3, index := 0 } : Fwd Nat)).1 = .panic := by decide

/-- regression fact (before the repair): `index` was not advanced by plain reads, so a seek after
    reading was taken relative to the start: after one batch of 4, `SeekToRow 8` continued at row 12 -/
theorem forward_seek_after_read_skips_too_far_before_fix :
    (Fwd.readBeforeFix 4 10 ({ rest := (List.range 20).drop 4, seek := 8, index := 0 } : Fwd Nat)).1 = .rows [12, 13, 14, 15] := by
  decide

/-- the code as it stands (`Fwd.read`): a read returns the stream from the sought row on — batch
    plus remainder is `rest.drop (seek - index)` — and after a non-empty batch no seek is pending -/
theorem forward_seek_repaired {α : Type} (cap : Nat) (hcap : 0 < cap) (st : Fwd α) :
    ∃ xs st', Fwd.read cap (st.rest.length + 1) st = (.rows xs, st') ∧
      xs ++ st'.rest = st.rest.drop (st.seek - st.index) ∧ (xs ≠ [] → st'.seek ≤ st'.index) := by
  obtain ⟨xs, st', h1, h2, h3, _⟩ := read_spec cap hcap (st.rest.length + 1) st (Nat.lt_succ_self _)
  exact ⟨xs, st', h1, h2, h3⟩

example : (Fwd.read 4 30 ({ rest := (List.range 20).drop 4, seek := 8, index := 4 } : Fwd Nat)).1 = .rows [8, 9, 10, 11] := by
  decide

/-- Every history of `ReadRows(cap)` (cap > 0) and `SeekToRow(k)` calls on a fresh
    `ConvertRowReader` over the rows `all` refines the specification of a forward-seekable reader:
    each read delivers the source rows from the current position in order (possibly fewer than
    asked for, none only when the source is exhausted), `SeekToRow(k)` with `k` at or behind the
    position makes row `k` the next one. No row is lost, repeated or reordered. -/
theorem forward_history_refines {α : Type} (all : List α) (ops : List Op)
    (hcaps : ∀ cap, Op.read cap ∈ ops → 0 < cap) :
    Refines all 0 ops (runHist ops { rest := all, seek := 0, index := 0 }) :=
  hist_refines all ops { rest := all, seek := 0, index := 0 } 0 hcaps rfl rfl

/-- non-vacuity: read 4, seek to 8, read 4, read 3 over rows 0..19 delivers 0-3, 8-11, 12-14 -/
example :
    runHist [.read 4, .seek 8, .read 4, .read 3] ({ rest := List.range 20, seek := 0, index := 0 } : Fwd Nat) =
      [[0, 1, 2, 3], [8, 9, 10, 11], [12, 13, 14]] := by decide

/-! ## `missingPage.Slice` (round 5) -/

/-- A slice of the stand-in page of an added column without adjacent chunk reads the rows
    `[i, j)` of the page: same entries (null at `maxDef - 1`, or the zero value for `maxDef = 0`),
    for every row count, every maximal definition level and all bounds. -/
theorem missing_slice_is_page_slice (numRows td i j : Nat) (hij : i ≤ j) (hj : j ≤ numRows) :
    missingSlice true td i j = ((missingCol numRows 0 td none).drop i).take (j - i) := by
  have h : min (j - i) (numRows - i) = j - i := by omega
  simp [missingSlice, missingCol, List.drop_replicate, List.take_replicate, h]

example : missingSlice true 1 4 10 = List.replicate 6 ⟨none, 0, 0⟩ := by decide

/-- the slip of seed C12-5b on the mirror: without `maxDefinitionLevel` the slice of an added
    OPTIONAL column yields zero VALUES where the page yields nulls -/
theorem missing_slice_forgets_max_def :
    missingSlice false 1 0 2 = [⟨some 0, 0, 0⟩, ⟨some 0, 0, 0⟩] ∧
      ((missingCol 4 0 1 none).drop 0).take 2 = [⟨none, 0, 0⟩, ⟨none, 0, 0⟩] := by decide

end PqModel.Props.C12Chunks
