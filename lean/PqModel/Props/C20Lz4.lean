import PqModel.Spec.Lz4Seqs
import PqModel.Spec.InflateMatch

/-! # C20, LZ4 block part (round 6) — the reader on SEQUENCES (SPEC side)

`PqModel/Spec/BlockCodecs.lean` holds the LZ4 block reader `lz4Dec` written from
lz4_Block_format.md; until this round it was proved to invert ONE reference encoder (runs as
matches at offset 1). `PqModel/Spec/Lz4Seqs.lean` lifts that to the format's own unit, the
sequence (literals, offset, match length), for every sequence list — what `inflate_fixedBlock_tokens`
is for DEFLATE. Nothing here mirrors Go code: pierrec/lz4 stays a third-party encoder/decoder that
is SAMPLED (sub-check `C20/lz4seqs`): every sampled output of the real encoder is parsed by
`parseBlock`, must re-encode to itself, be writable (`seqsOk`) and obey the end-of-block rules
(`endOk`) — i.e. lie in the domain of `lz4_reader_inverts_every_sequence_list` — and mean the
input; every generated sequence list goes through the real decoder and must come back as
`applySeqs` says.

-- OPEN (sampled, not proved): `∀ x level, lz4Dec (pierrec CompressBlock x) = x` — the real
-- matchers (hash table of `Compressor`, chains of `CompressorHC`) are not modelled; the theorem
-- covers every stream ANY conformant encoder can emit, the check shows the real one is conformant
-- on the samples. The real DECODER (amd64 assembly `decodeBlock`) is not mirrored either. -/
namespace PqModel.Props.C20Lz4
open PqModel.Spec.BlockCodecs PqModel.Spec.Lz4Seqs

/-- **Every writable sequence list is read back as it means**: literal runs and matches of any
length (4-bit fields and 255-byte extensions), every offset 1..65535 inside the output so far —
offset < match length, the overlapping copy, included — and any final literal run. -/
theorem lz4_reader_inverts_every_sequence_list (seqs : List Seq) (last : List UInt8)
    (hok : seqsOk seqs #[] = true) :
    lz4Dec (encSeqs seqs last) = .ok ((applySeqs seqs #[]).toList ++ last) :=
  lz4Dec_encSeqs seqs last hok

/-- hypotheses satisfiable: an overlapping match (offset 2, length 4) after two literals -/
example : seqsOk [⟨[1, 2], 2, 0⟩] #[] = true ∧
    lz4Dec (encSeqs [⟨[1, 2], 2, 0⟩] [9]) = .ok [1, 2, 1, 2, 1, 2, 9] := by decide +kernel

/-- **…and nothing else is accepted**: a sequence list with an offset of 0 or one reaching before
the start of the output is rejected as a whole (`badOffset`), whatever follows. -/
theorem lz4_reader_rejects_unwritable_sequence_list (seqs : List Seq) (last : List UInt8)
    (h16 : ∀ s, s ∈ seqs → s.off < 65536) (hbad : seqsOk seqs #[] = false) :
    lz4Dec (encSeqs seqs last) = .error .badOffset :=
  lz4Dec_encSeqs_rejects seqs last h16 hbad

example : seqsOk [⟨[1, 2], 3, 0⟩] #[] = false ∧ seqsOk [⟨[1, 2], 0, 0⟩] #[] = false := by decide

/-- what a match means (lz4_Block_format.md "copy matchlength bytes from this position"): every
byte the match appends equals the byte `off` positions before it IN THE RESULT, also when the
source runs into the copy itself. -/
theorem lz4_match_copies_from_offset (out : Array UInt8) (s : Seq) (hok : seqOk out.size s = true)
    (i : Nat) (h1 : out.size + s.lits.length ≤ i) (h2 : i < out.size + s.lits.length + (s.ml + 4)) :
    (applySeq out s)[i]? = (applySeq out s)[i - s.off]? := by
  simp only [seqOk, Bool.and_eq_true, decide_eq_true_eq] at hok
  exact PqModel.Spec.Inflate.copyBack_get s.off (by omega) (s.ml + 4) (out ++ s.lits) i
    (by rw [size_appendList]; omega) (by rw [size_appendList]; omega) (by rw [size_appendList]; omega)

/-- the final literal run stands at the end, the output before it is kept -/
theorem lz4_sequence_keeps_prefix (out : Array UInt8) (s : Seq) (i : Nat) (h : i < out.size + s.lits.length) :
    (applySeq out s)[i]? = (out ++ s.lits)[i]? :=
  PqModel.Spec.Inflate.copyBack_prefix s.off (s.ml + 4) (out ++ s.lits) i (by rw [size_appendList]; omega)

/-- **A conformant encoder exists and is inverted**: the greedy matcher (any window) emits a
writable list that obeys the end-of-block restrictions and means the input, so
`lz4Dec (lz4Greedy w x) = x` for every `w`, `x`. -/
theorem lz4_reader_inverts_greedy_encoder (w : Nat) (x : List UInt8) :
    lz4Dec (lz4Greedy w x) = .ok x ∧
    seqsOk (greedy w x.length #[] [] x).1 #[] = true ∧
    endOk (greedy w x.length #[] [] x).1 (greedy w x.length #[] [] x).2 = true :=
  ⟨lz4Dec_lz4Greedy w x, (applySeqs_greedy w x.length #[] [] x).2, endOk_greedy w x.length #[] [] x⟩

/-- the matcher does emit matches, overlapping ones included -/
example : greedy 32 20 #[] [] (List.replicate 20 97) = ([⟨[97], 1, 10⟩], [97, 97, 97, 97, 97]) := by
  decide +kernel

/-- the end-of-block rules are not implied by writability (so checking them on the real encoder's
output says something): a match that ends the block is readable but not conformant -/
example : seqsOk [⟨[1, 2, 3, 4], 4, 0⟩] #[] = true ∧ endOk [⟨[1, 2, 3, 4], 4, 0⟩] [] = false ∧
    lz4Dec (encSeqs [⟨[1, 2, 3, 4], 4, 0⟩] []) = .ok [1, 2, 3, 4, 1, 2, 3, 4] := by decide +kernel

end PqModel.Props.C20Lz4
