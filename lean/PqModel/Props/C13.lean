import PqModel.PageLoad
import PqModel.PageStep
import PqModel.PageReaders

/-! # C13 — Corruption inside a checksummed page is reported, never returned as data

Spec side: `Crc.crc32` (byte-wise CRC-32/IEEE), `Crc.bitAt`/`Crc.xorBytes`, `PageLoad.Burst`,
`PageLoad.writeHeader`, `PageLoad.Intact`/`Corrupted`.
Mirror side: `PageLoad.load` / `readAll` / `readAt` with `PageLoad.current` (file.go since 5000be7,
which repaired F4: every loader path compares checksums).

One hypothesis of `load_detects` remains forced by the code and is a known finding, with the negation
proved on the mirror below: the header must carry a non-zero CRC (F8: a page whose CRC-32 is 0 is
written without the field and never verified). The former second one — the path must be one that
verifies (F4: the dictionary loader did not) — is gone; its negation is kept about the as-is mirror
of the old code (`PageLoad.beforeFix`) under `_before_fix` names, as regression facts.
Bursts wider than 32 bits are detected with probability 1 - 2^-32 only: not claimed. -/
namespace PqModel.Props.C13
open PqModel.Crc PqModel.PageLoad PqModel.PageStep PqModel.PageReaders

/-! ## CRC-32 on bytes -/

/-- the byte-wise CRC-32 is the bit-serial register the burst argument is about -/
theorem crc32_is_bit_serial (data : List UInt8) : crc32 data = crcBits (bytesToBits data) :=
  crc32_eq_crcBits data

/-- **crc_burst on bytes**: any data, any non-zero xor mask of the same length whose set bits lie
    within 32 consecutive bit positions starting anywhere ⇒ the CRC-32 changes. -/
theorem crc_burst_bytes (data err : List UInt8) (hlen : err.length = data.length) (lo : Nat)
    (hne : ∃ k, k < 8 * err.length ∧ bitAt err k = true)
    (hw : ∀ k, k < 8 * err.length → bitAt err k = true → lo ≤ k ∧ k < lo + 32) :
    crc32 (xorBytes data err) ≠ crc32 data :=
  crc32_burst data err hlen lo hne hw

/-- a 19-bit burst straddling three bytes, starting at bit 13 -/
example : crc32 (xorBytes [1, 2, 3, 4, 5, 6] [0, 0x20, 0xA7, 0x80, 0, 0]) ≠ crc32 [1, 2, 3, 4, 5, 6] :=
  crc_burst_bytes _ _ rfl 13 ⟨13, by decide⟩ (by decide)

/-- any alteration confined to ≤ 4 consecutive bytes, at any byte position of any data -/
theorem crc_window_bytes (pre mid mid' post : List UInt8) (hl : mid'.length = mid.length)
    (h4 : mid.length ≤ 4) (hne : mid' ≠ mid) :
    crc32 (pre ++ mid' ++ post) ≠ crc32 (pre ++ mid ++ post) :=
  crc32_window pre mid mid' post hl h4 hne

example : crc32 ([9] ++ [0, 0, 0, 0] ++ [7, 7]) ≠ crc32 ([9] ++ [1, 2, 3, 4] ++ [7, 7]) :=
  crc_window_bytes [9] [1, 2, 3, 4] [0, 0, 0, 0] [7, 7] rfl (by decide) (by decide)

/-- a single flipped bit, any byte, any bit -/
theorem crc_bit_flip (pre post : List UInt8) (b : UInt8) (j : Nat) (hj : j < 8) :
    crc32 (pre ++ [b ^^^ (1 <<< UInt8.ofNat j)] ++ post) ≠ crc32 (pre ++ [b] ++ post) :=
  crc32_bit_flip pre post b j hj

/-- the writer's chained `crc32.Update` over rep, def, page is the CRC of the stored body -/
theorem writer_crc_is_body_crc (rep defs page : List UInt8) :
    crc32Update (crc32Update (crc32Update 0#32 rep) defs) page = crc32 (rep ++ defs ++ page) := by
  rw [crc32Update_append, crc32Update_append, List.append_assoc]; rfl

/-! ## Loader paths -/

/-- **load_detects**: on *every* access path of the code as it stands, a page whose header carries the
    (non-zero) CRC of its body is rejected as corrupted after any burst ≤ 32 bits anywhere in the body
    (levels and values, compressed or not — the body is whatever bytes were checksummed). -/
theorem load_detects (p : Path) (h : Header)
    (body err : Bytes) (hsize : h.compressedSize = body.length) (hlen : err.length = body.length)
    (h0 : h.crc ≠ 0#32) (hcrc : h.crc = crc32 body) (hb : Burst err) :
    load current p h (xorBytes body err) = .error .corrupted :=
  load_detects_of_verifies current p (verifies_current p) h body err hsize hlen h0 hcrc hb

/-- the hypotheses are satisfiable: a real 14-byte data page body (RLE_DICTIONARY indexes) written by
    the library, bit 3 of byte 9 flipped, on the lazy dictionary path -/
example : load current .lazyDictionary (writeHeader .dataV2 [0x02, 0x05, 0xe4, 0xe4, 0xe4, 0xe4, 0x02, 0x00, 0x02, 0x01, 0x02, 0x02, 0x02, 0x03] true)
    (xorBytes [0x02, 0x05, 0xe4, 0xe4, 0xe4, 0xe4, 0x02, 0x00, 0x02, 0x01, 0x02, 0x02, 0x02, 0x03]
              [0, 0, 0, 0, 0, 0, 0, 0, 0, 8, 0, 0, 0, 0]) = .error .corrupted :=
  load_detects .lazyDictionary _ _ _ rfl rfl (by decide +kernel) rfl
    ⟨⟨75, by decide⟩, ⟨75, by decide⟩⟩

/-- an intact page is accepted on every path of every implementation: the error of `load_detects`
    is not the loader rejecting everything -/
theorem load_intact (impl : Impl) (p : Path) (kind : PageKind) (body : Bytes) :
    load impl p (writeHeader kind body) body = .ok { kind, body } := by
  have hr := readPage_intact (writeHeader kind body) body rfl rfl
  have hf : readFull (writeHeader kind body).compressedSize body = .ok body := readFull_exact body
  unfold load
  cases p <;> cases hv : impl.dictLoaderVerifies <;> simp_all [readDictionaryBody, writeHeader]

/-- every path of the code as it stands compares checksums -/
theorem current_all_paths_verify : ∀ p, verifies current p = true := verifies_current

/-! ## Column chunk level -/

/-- reading a chunk from its start reports corruption if the dictionary page is corrupted … -/
theorem readAll_detects_dictionary (impl : Impl) (c : Chunk) (d : Stored) (hd : c.dict = some d)
    (hc : Corrupted d) : readAll impl c = .error .corrupted := by
  unfold readAll
  rw [hd]
  simp [loadStored_corrupted impl .sequential rfl d hc]

/-- … or if any data page is (the pages before it and the dictionary being intact) -/
theorem readAll_detects_data_page (impl : Impl) (c : Chunk) (pre post : List Stored) (bad : Stored)
    (hp : c.pages = pre ++ bad :: post) (hpre : ∀ s ∈ pre, Intact s)
    (hdict : ∀ d, c.dict = some d → Intact d) (hc : Corrupted bad) :
    readAll impl c = .error .corrupted := by
  have hl := loadPages_corrupted impl bad post hc pre hpre
  unfold readAll
  rw [hp, hl]
  cases hd : c.dict with
  | none => rfl
  | some d =>
    have hi := hdict d hd
    simp [loadStored, load, readPage_intact d.hdr d.body hi.1 hi.2]
    rfl

/-- a read that reaches data page `k` after a seek reports corruption of that page -/
theorem readAt_detects_data_page (impl : Impl) (c : Chunk) (k : Nat) (bad : Stored)
    (hk : c.pages[k]? = some bad) (hc : Corrupted bad) : readAt impl c k = .error .corrupted := by
  unfold readAt
  rw [hk]
  simp [loadStored_corrupted impl .afterSeek rfl bad hc]

/-- a read that reaches a dictionary-encoded page after a seek reports corruption of the dictionary
    page (before 5000be7 it did not: `F4_witness_before_fix`) -/
theorem readAt_detects_dictionary (c : Chunk) (k : Nat) (s d : Stored)
    (hk : c.pages[k]? = some s) (hs : Intact s) (henc : s.hdr.dictEncoded = true)
    (hd : c.dict = some d) (hc : Corrupted d) : readAt current c k = .error .corrupted := by
  unfold readAt
  rw [hk]
  simp [loadStored, load, readPage_intact s.hdr s.body hs.1 hs.2, henc, hd]
  have := loadStored_corrupted current .lazyDictionary rfl d hc
  simp [loadStored, load] at this
  split at this <;> simp_all

/-! ## The reader state around the loader: skip counter, desync flag, retries -/

/-- **verify_independent_of_seek_state**: whether a page is rejected as corrupted does not depend on
    the seek state of the reader — not on `skip` (rows still to drop), `desync`, or `index`. -/
theorem verify_independent_of_seek_state (st : RState) (skip' index' : Nat) (desync' : Bool)
    (h : Header) (numRows : Nat) (stream : Bytes) :
    (pageStep { st with skip := skip', index := index', desync := desync' } h numRows stream).2 = .failed .corrupted ↔
    (pageStep st h numRows stream).2 = .failed .corrupted := by
  rw [pageStep_corrupted_iff, pageStep_corrupted_iff]

/-- a page that is only decoded to be counted and dropped on the way to the row sought is verified
    like any other: in whatever state, a corrupted data page fails the step with `corrupted` and
    sets `desync` -/
theorem skipped_page_is_verified (st : RState) (s : Stored) (numRows : Nat) (hk : s.hdr.kind ≠ .dictionary)
    (hc : Corrupted s) :
    pageStep st s.hdr numRows s.body = ({ st with desync := true }, .failed .corrupted) := by
  have hr := corrupted_readPage s hc
  unfold pageStep
  simp [hk, hr]

/-- the hypotheses are satisfiable with `skip` beyond the page: the page would have been dropped -/
example : pageStep { skip := 1000, desync := false, index := 3, dictionary := none }
    (writeHeader .dataV2 [1, 2, 3, 4]) 10 [1, 2, 3, 5] =
    ({ skip := 1000, desync := true, index := 3, dictionary := none }, .failed .corrupted) := by
  decide +kernel

/-- **decode_sees_verified_bytes**: whatever the decoder / decompressor is given (for a page that is
    returned, dropped while skipping, or a dictionary) is exactly the first `CompressedPageSize` bytes
    of the stream — the bytes whose CRC-32 was compared with the header's when it carries one. No
    second read, no other buffer. -/
theorem decode_sees_verified_bytes (st : RState) (h : Header) (numRows : Nat) (stream b : Bytes)
    (hd : (pageStep st h numRows stream).2.decoded = some b) :
    b = stream.take h.compressedSize ∧ (h.crc ≠ 0#32 → crc32 b = h.crc) := by
  unfold pageStep at hd
  split at hd
  · simp [Handed.decoded] at hd
  · cases hr : readPage h stream with
    | error e => simp [hr, Handed.decoded] at hd
    | ok data =>
      simp only [hr] at hd
      have := afterLoad_decoded st h numRows data b hd
      subst this
      exact readPage_ok_bytes h stream b hr

example : (pageStep { skip := 2, desync := false, index := 0, dictionary := none }
    (writeHeader .dataV2 [1, 2, 3, 4]) 10 [1, 2, 3, 4, 9, 9]).2.decoded = some [1, 2, 3, 4] := by
  decide +kernel

/-- a failed step raises `desync` (so the next `SeekToRow` repositions the stream), a successful one
    leaves it alone -/
theorem failed_read_sets_desync (st : RState) (h : Header) (numRows : Nat) (stream : Bytes) (e : Err)
    (hf : (pageStep st h numRows stream).2 = .failed e) : (pageStep st h numRows stream).1.desync = true := by
  unfold pageStep at hf ⊢
  by_cases hd : h.kind = .dictionary ∧ st.dictionary.isSome
  · simp [hd] at hf
  · simp only [hd, if_false] at hf ⊢
    cases hr : readPage h stream with
    | error e' => rfl
    | ok data =>
      simp only [hr] at hf
      exact absurd hf (afterLoad_not_failed st h numRows data e)

/-- the seeded slip "compare the checksum only when `f.skip == 0`" (seeded/C13-a) on its mirror:
    a corrupted page met while skipping is decoded unverified -/
theorem skip_guarded_variant_decodes_unverified :
    (skipGuardedStep { skip := 1000, desync := false, index := 3, dictionary := none }
      (writeHeader .dataV2 [1, 2, 3, 4]) 10 [1, 2, 3, 5]).2 = .dropped [1, 2, 3, 5] ∧
    (writeHeader .dataV2 [1, 2, 3, 4]).crc ≠ 0#32 ∧ crc32 [1, 2, 3, 5] ≠ (writeHeader .dataV2 [1, 2, 3, 4]).crc := by
  decide +kernel

/-- `Seek.Chunk.bad` of a stored chunk contains every page corrupted in the sense of this property,
    and no intact one -/
theorem corrupted_page_is_bad (c : Chunk) (rows : List Nat) (q : Nat) (s : Stored)
    (hq : c.pages[q]? = some s) (hc : Corrupted s) : q ∈ (seekChunk c rows).bad :=
  (mem_badOf c.pages q).mpr ⟨s, hq, corrupted_readPage s hc⟩

theorem intact_page_is_not_bad (c : Chunk) (rows : List Nat) (q : Nat) (s : Stored)
    (hq : c.pages[q]? = some s) (hi : Intact s) : q ∉ (seekChunk c rows).bad := by
  intro hb
  obtain ⟨t, h1, h2⟩ := (mem_badOf c.pages q).mp hb
  rw [hq] at h1
  cases h1
  rw [readPage_intact s.hdr s.body hi.1 hi.2] at h2
  cases h2

/-- **corrupted_stays_reported** (with an intervening seek). Data page `q` of a stored chunk is
    corrupted (burst ≤ 32 bits, header CRC ≠ 0). After ANY history of seeks / reads / lazy index
    loads on the repaired reader (`Seek.stepFixed`) — in particular one in which a read of page `q`
    already failed — a seek to any row `k` of page `q` succeeds and the next read reports the
    corruption again: it never returns rows. `rows` are the row counts of the data pages. -/
theorem corrupted_stays_reported (c : Chunk) (rows : List Nat) (hpos : ∀ r ∈ rows, 0 < r)
    (q : Nat) (s : Stored) (hq : c.pages[q]? = some s) (hc : Corrupted s)
    (hasIndex : Bool) (history : List Seek.Op) (k : Nat)
    (hk1 : Seek.firstRow rows q ≤ k) (hk2 : k < Seek.firstRow rows (q + 1)) :
    let st := reach (seekChunk c rows) hasIndex history
    (Seek.seekFixed (seekChunk c rows) st k).2 = .ok ∧
    (Seek.readPage rows (seekChunk c rows).bad (Seek.seekFixed (seekChunk c rows) st k).1).2 = .corrupt := by
  intro st
  have hbad := corrupted_page_is_bad c rows q s hq hc
  have hinv : Seek.SInv (seekChunk c rows) st := reach_inv (seekChunk c rows) hpos hasIndex history
  have htot : k < rows.sum := Nat.lt_of_lt_of_le hk2 (Seek.firstRow_le_sum rows (q + 1))
  obtain ⟨hinv', hseek⟩ := Seek.seekFixed_spec (seekChunk c rows) st k hinv
  rcases hseek with ⟨hok, hlost, hnext⟩ | ⟨_, _, hgt⟩
  · refine ⟨hok, ?_⟩
    have hspec := Seek.stepFixed_spec (seekChunk c rows) hpos _ .readPage hinv'
    rw [Seek.npos_of_lost_false _ _ hlost, hnext] at hspec
    have htarget : Seek.target rows k = q := Seek.target_unique rows k q htot hk1 hk2
    simp only [Seek.SpecOK, Seek.stepFixed] at hspec
    show (Seek.readPage rows (badOf c.pages) _).2 = .corrupt
    change (match (Seek.readPage rows (badOf c.pages) (Seek.seekFixed (seekChunk c rows) st k).1).2 with
      | .corrupt => _ | .eof => _ | .page p st len => _ | _ => False) at hspec
    cases hout : (Seek.readPage rows (badOf c.pages) (Seek.seekFixed (seekChunk c rows) st k).1).2 with
    | corrupt => rfl
    | eof =>
      rw [hout] at hspec
      have : Seek.total (seekChunk c rows) ≤ k := hspec.1
      simp [Seek.total, seekChunk] at this
      omega
    | page p st' len =>
      rw [hout] at hspec
      obtain ⟨_, hp, hnb, _⟩ := hspec
      exfalso
      apply hnb
      have : p = q := by rw [hp]; exact htarget
      rw [this]
      exact hbad
    | ok => rw [hout] at hspec; exact hspec.elim
    | err => rw [hout] at hspec; exact hspec.elim
  · simp [Seek.total, seekChunk] at hgt
    omega

/-- **corrupted_stays_reported** (without a seek, any state). Whatever the history — also right after
    a failed read, with `desync` raised — a read returns rows only from a page that is not corrupted,
    and they are that page's own rows `st .. st+len-1` up to its end: never the rows of a corrupted
    page, never rows presented under other row numbers. -/
theorem reads_never_return_corrupted_rows (c : Chunk) (rows : List Nat) (hpos : ∀ r ∈ rows, 0 < r)
    (hasIndex : Bool) (history : List Seek.Op) (p st len : Nat)
    (hr : (Seek.readPage rows (seekChunk c rows).bad (reach (seekChunk c rows) hasIndex history)).2 = .page p st len) :
    p ∉ badOf c.pages ∧ Seek.firstRow rows p ≤ st ∧ st + len = Seek.firstRow rows (p + 1) ∧
      ∀ s, c.pages[p]? = some s → ¬ Corrupted s := by
  have hinv := reach_inv (seekChunk c rows) hpos hasIndex history
  have hspec := Seek.readPage_spec rows (seekChunk c rows).bad hpos _ hinv.1
  obtain ⟨_, _, hm⟩ := hspec
  rw [hr] at hm
  obtain ⟨_, hnb, _, _, _, _, h1, h2⟩ := hm
  refine ⟨hnb, h1, h2, fun s hs hc => hnb (corrupted_page_is_bad c rows p s hs hc)⟩

/-- non-vacuity of both: three pages of four rows, page 1 has one bit flipped; read, read (fails),
    retry seek into the page (fails again), a read without a seek (position undefined: rows of page 2
    under their own numbers), seek past it (page 2 from the row sought) -/
example :
    let pg : Bytes := [1, 2, 3, 4]
    let c : Chunk := { dict := none, pages := [⟨writeHeader .dataV2 pg, pg⟩, ⟨writeHeader .dataV2 pg, [1, 2, 3, 5]⟩,
      ⟨writeHeader .dataV2 pg, pg⟩] }
    (seekChunk c [4, 4, 4]).bad = [1] ∧
    Seek.outs (Seek.stepFixed (seekChunk c [4, 4, 4])) (Seek.init true)
      [.readPage, .readPage, .seek 5, .readPage, .readPage, .seek 9, .readPage] =
      [.page 0 0 4, .corrupt, .ok, .corrupt, .page 2 9 3, .ok, .page 2 9 3] := by
  decide +kernel

/-! ## Whole-column and multi-row-group readers (`columnPages`, `multiPages`)

`concatReadPage guard` mirrors both; `Props/FactsCheckC13.lean` shows that the guard in the source
(`err == nil || err != io.EOF`) is a `GoodGuard`. -/

/-- **concat_refines**: for a guard that returns pages and failures and moves on at io.EOF, reading
    until EOF/failure through the concatenating reader is the reference read: the chunks' pages in
    order up to the first failure, which is reported — for any number of chunks and any scripts. -/
theorem concat_refines (guard : Sit → Bool) (hg : GoodGuard guard) (cs : List Script) :
    drain guard (fuelFor cs) cs = specRead cs :=
  drain_refines guard hg cs (fuelFor cs) (Nat.le_refl _)

/-- **whole_column_detects_data_page**: row groups `pre` are intact; in the next one data page number
    `before.length` is corrupted (burst ≤ 32 bits, header CRC ≠ 0), the pages before it and the
    dictionary page intact. Then reading the whole column delivers exactly the pristine pages in front
    of the corrupted one and then reports the corruption: no page of that row group after it, no page
    of the row groups `post`, no clean EOF. -/
theorem whole_column_detects_data_page (impl : Impl) (guard : Sit → Bool) (hg : GoodGuard guard)
    (pre post : List Chunk) (c : Chunk) (before after : List Stored) (bad : Stored)
    (hpre : ∀ x ∈ pre, IntactChunk x) (hp : c.pages = before ++ bad :: after)
    (hbefore : ∀ s ∈ before, Intact s) (hdict : ∀ d, c.dict = some d → Intact d) (hc : Corrupted bad) :
    let cs := (pre ++ c :: post).map (chunkScript impl)
    drain guard (fuelFor cs) cs =
      ((pre.map fun x => x.pages.map toPage).flatten ++ before.map toPage, some .corrupted) := by
  intro cs
  have hcs : cs = (pre.map fun x => x.pages.map toPage).map cleanChunk ++
      (cleanChunk (before.map toPage) ++ .fail .corrupted :: []) :: post.map (chunkScript impl) := by
    show (pre ++ c :: post).map (chunkScript impl) = _
    rw [List.map_append, List.map_cons, List.map_map]
    congr 1
    · apply List.map_congr_left
      intro x hx
      exact chunkScript_intact impl x (hpre x hx)
    · congr 1
      unfold chunkScript
      cases hd : c.dict with
      | none => simp only []; rw [hp]; exact pagesScript_corrupted impl bad after hc before hbefore
      | some d =>
        simp only [loadStored_intact impl d (hdict d hd)]
        rw [hp]; exact pagesScript_corrupted impl bad after hc before hbefore
  rw [concat_refines guard hg cs, hcs]
  exact specRead_reports _ _ _ _ _

/-- **whole_column_detects_dictionary**: … and when the dictionary page of a row group is corrupted,
    the read delivers the pages of the row groups before it and reports the corruption -/
theorem whole_column_detects_dictionary (impl : Impl) (guard : Sit → Bool) (hg : GoodGuard guard)
    (pre post : List Chunk) (c : Chunk) (d : Stored)
    (hpre : ∀ x ∈ pre, IntactChunk x) (hd : c.dict = some d) (hc : Corrupted d) :
    let cs := (pre ++ c :: post).map (chunkScript impl)
    drain guard (fuelFor cs) cs = ((pre.map fun x => x.pages.map toPage).flatten, some .corrupted) := by
  intro cs
  have hcs : cs = (pre.map fun x => x.pages.map toPage).map cleanChunk ++
      (cleanChunk [] ++ .fail .corrupted :: []) :: post.map (chunkScript impl) := by
    show (pre ++ c :: post).map (chunkScript impl) = _
    rw [List.map_append, List.map_cons, List.map_map]
    congr 1
    · apply List.map_congr_left
      intro x hx
      exact chunkScript_intact impl x (hpre x hx)
    · congr 1
      unfold chunkScript
      simp [hd, loadStored_corrupted impl .sequential rfl d hc, cleanChunk]
  rw [concat_refines guard hg cs, hcs, specRead_reports]
  simp

/-- hypotheses satisfiable, and the result is not "always an error": two row groups of two pages,
    page 1 of the second has one bit flipped -/
example :
    let pg : Bytes := [1, 2, 3, 4]
    let ok : Stored := ⟨writeHeader .dataV2 pg, pg⟩
    let g0 : Chunk := { dict := none, pages := [ok, ok] }
    let g1 : Chunk := { dict := none, pages := [ok, ⟨writeHeader .dataV2 pg, [1, 2, 3, 5]⟩] }
    let good : Sit → Bool := fun s => s.errNil || !s.errEOF
    drain good 10 ([g0, g1].map (chunkScript current)) = ([toPage ok, toPage ok, toPage ok], some .corrupted) ∧
    drain good 10 ([g0, g0].map (chunkScript current)) = ([toPage ok, toPage ok, toPage ok, toPage ok], none) := by
  decide +kernel

/-- the seeded slip (seeded/C13-3b) `if p != nil { return p, err }` on the mirror: the failure comes
    with a nil page, the guard is false, the reader moves to the next row group and ends in a clean
    EOF — the rest of the row group is silently missing -/
theorem page_nonnil_guard_swallows :
    let pg : Bytes := [1, 2, 3, 4]
    let ok : Stored := ⟨writeHeader .dataV2 pg, pg⟩
    let g1 : Chunk := { dict := none, pages := [ok, ⟨writeHeader .dataV2 pg, [1, 2, 3, 5]⟩, ok] }
    let g2 : Chunk := { dict := none, pages := [ok] }
    drain (fun s => !s.pageNil) 10 ([g1, g2].map (chunkScript current)) = ([toPage ok, toPage ok], none) := by
  decide +kernel

/-! ## F4 (repaired by 5000be7) — regression facts about the code before the fix

`beforeFix` is the as-is mirror of the old `readDictionary` (bare `io.ReadFull`, no comparison). -/

/-- before the fix only the two paths through `readPage` verified -/
theorem verifying_paths_before_fix :
    Path.all.filter (verifies beforeFix) = [.sequential, .afterSeek] := by decide

/-- before the fix the dictionary loader accepted any bytes of the right length -/
theorem F4_dictionary_loader_accepts_anything_before_fix (p : Path)
    (hp : p = .lazyDictionary ∨ p = .readDictionaryAPI) (h : Header) (s : Bytes)
    (hs : s.length = h.compressedSize) : load beforeFix p h s = .ok { kind := h.kind, body := s } := by
  have hf : readFull h.compressedSize s = .ok s := by rw [← hs]; exact readFull_exact s
  rcases hp with rfl | rfl <;> simp [load, readDictionaryBody, beforeFix, hf]

/-- bodies of the column "name" of a file written by the library (PageBufferSize 1, page v2,
    uncompressed): PLAIN dictionary ["alpha","beta","gamma","delta"] and two index pages -/
def f4Dict : Bytes := [0x05, 0, 0, 0, 0x61, 0x6c, 0x70, 0x68, 0x61, 0x04, 0, 0, 0, 0x62, 0x65, 0x74, 0x61,
  0x05, 0, 0, 0, 0x67, 0x61, 0x6d, 0x6d, 0x61, 0x05, 0, 0, 0, 0x64, 0x65, 0x6c, 0x74, 0x61]
def f4Page : Bytes := [0x02, 0x05, 0xe4, 0xe4, 0xe4, 0xe4, 0x02, 0x00, 0x02, 0x01, 0x02, 0x02, 0x02, 0x03]
/-- bit 1 of byte 5 flipped: "alpha" becomes "anpha" -/
def f4DictBad : Bytes := f4Dict.set 5 0x6e

def f4Chunk (dict : Bytes) : Chunk :=
  { dict := some { hdr := writeHeader .dictionary f4Dict, body := dict },
    pages := [{ hdr := writeHeader .dataV2 f4Page true, body := f4Page },
              { hdr := writeHeader .dataV2 f4Page true, body := f4Page }] }

/-- **F4 before the fix**: the header CRC is the one the writer stored (0x3AECFFB6, non-zero); with one
    bit of the dictionary body flipped a sequential read reported corruption, but a read that reached
    page 1 after a seek returned the page together with the altered dictionary and no error — and so
    did `ReadDictionary()`. -/
theorem F4_witness_before_fix :
    (writeHeader .dictionary f4Dict).crc = 0x3AECFFB6#32 ∧
    readAll beforeFix (f4Chunk f4DictBad) = .error .corrupted ∧
    readAt beforeFix (f4Chunk f4DictBad) 1 =
      .ok (some { kind := .dictionary, body := f4DictBad }, { kind := .dataV2, body := f4Page }) ∧
    load beforeFix .readDictionaryAPI (writeHeader .dictionary f4Dict) f4DictBad =
      .ok { kind := .dictionary, body := f4DictBad } := by
  decide +kernel

/-- the same witness on the code as it stands: reported on all three ways to the dictionary -/
theorem F4_witness_now_detected :
    readAll current (f4Chunk f4DictBad) = .error .corrupted ∧
    readAt current (f4Chunk f4DictBad) 1 = .error .corrupted ∧
    load current .readDictionaryAPI (writeHeader .dictionary f4Dict) f4DictBad = .error .corrupted := by
  decide +kernel

/-! ## F8 — a page whose CRC-32 is 0 carries no CRC field and is never verified -/

/-- whatever the implementation and path: `header.CRC == 0` disables the comparison -/
theorem F8_crc_zero_accepts_anything (impl : Impl) (p : Path) (h : Header) (s : Bytes)
    (h0 : h.crc = 0#32) (hs : s.length = h.compressedSize) :
    load impl p h s = .ok { kind := h.kind, body := s } := by
  have hf : readFull h.compressedSize s = .ok s := by rw [← hs]; exact readFull_exact s
  cases p <;> cases hv : impl.dictLoaderVerifies <;> simp [load, readDictionaryBody, readPage, hf, h0, hv]

/-- PLAIN int32 values 7, -3, 2^30, 42, -2081027679 (the last one chosen to zero the CRC) -/
def f8Body : Bytes := [0x07, 0, 0, 0, 0xfd, 0xff, 0xff, 0xff, 0, 0, 0, 0x40, 0x2a, 0, 0, 0, 0xa1, 0x09, 0xf6, 0x83]

/-- **F8** (known finding): the writer's header for this body has CRC 0 (so thrift drops the field),
    and the body with bit 4 of byte 1 flipped (first value 7 → 4103) is accepted on the verifying
    sequential path of the code as it stands. -/
theorem F8_witness :
    (writeHeader .dataV2 f8Body).crc = 0#32 ∧
    load current .sequential (writeHeader .dataV2 f8Body) (f8Body.set 1 0x10) =
      .ok { kind := .dataV2, body := f8Body.set 1 0x10 } := by
  decide +kernel

end PqModel.Props.C13
