import PqModel.PageLoad

/-! # C13 — Corruption inside a checksummed page is reported, never returned as data

Spec side: `Crc.crc32` (byte-wise CRC-32/IEEE), `Crc.bitAt`/`Crc.xorBytes`, `PageLoad.Burst`,
`PageLoad.writeHeader`, `PageLoad.Intact`/`Corrupted`.
Mirror side: `PageLoad.load` / `readAll` / `readAt` with `PageLoad.current` (file.go since 5000be7,
which repaired F4: every loader path compares checksums).

One hypothesis of `load_detects` remains forced by the code and is a known finding, with the negation
proved on the mirror below: the header must carry a non-zero CRC (F8: a page whose CRC-32 is 0 is
written without the field and never verified). The former second one — the path must be one that
verifies (F4: the dictionary loader did not) — is gone; its negation is kept about the as-is mirror
of the old code (`PageLoad.beforeFix`) under `_before_fix` names, as regression facts.
Bursts wider than 32 bits are detected with probability 1 - 2^-32 only: not claimed. -/
namespace PqModel.Props.C13
open PqModel.Crc PqModel.PageLoad

/-! ## CRC-32 on bytes -/

/-- the byte-wise CRC-32 is the bit-serial register the burst argument is about -/
theorem crc32_is_bit_serial (data : List UInt8) : crc32 data = crcBits (bytesToBits data) :=
  crc32_eq_crcBits data

/-- **crc_burst on bytes**: any data, any non-zero xor mask of the same length whose set bits lie
    within 32 consecutive bit positions starting anywhere ⇒ the CRC-32 changes. -/
theorem crc_burst_bytes (data err : List UInt8) (hlen : err.length = data.length) (lo : Nat)
    (hne : ∃ k, k < 8 * err.length ∧ bitAt err k = true)
    (hw : ∀ k, k < 8 * err.length → bitAt err k = true → lo ≤ k ∧ k < lo + 32) :
    crc32 (xorBytes data err) ≠ crc32 data :=
  crc32_burst data err hlen lo hne hw

/-- a 19-bit burst straddling three bytes, starting at bit 13 -/
example : crc32 (xorBytes [1, 2, 3, 4, 5, 6] [0, 0x20, 0xA7, 0x80, 0, 0]) ≠ crc32 [1, 2, 3, 4, 5, 6] :=
  crc_burst_bytes _ _ rfl 13 ⟨13, by decide⟩ (by decide)

/-- any alteration confined to ≤ 4 consecutive bytes, at any byte position of any data -/
theorem crc_window_bytes (pre mid mid' post : List UInt8) (hl : mid'.length = mid.length)
    (h4 : mid.length ≤ 4) (hne : mid' ≠ mid) :
    crc32 (pre ++ mid' ++ post) ≠ crc32 (pre ++ mid ++ post) :=
  crc32_window pre mid mid' post hl h4 hne

example : crc32 ([9] ++ [0, 0, 0, 0] ++ [7, 7]) ≠ crc32 ([9] ++ [1, 2, 3, 4] ++ [7, 7]) :=
  crc_window_bytes [9] [1, 2, 3, 4] [0, 0, 0, 0] [7, 7] rfl (by decide) (by decide)

/-- a single flipped bit, any byte, any bit -/
theorem crc_bit_flip (pre post : List UInt8) (b : UInt8) (j : Nat) (hj : j < 8) :
    crc32 (pre ++ [b ^^^ (1 <<< UInt8.ofNat j)] ++ post) ≠ crc32 (pre ++ [b] ++ post) :=
  crc32_bit_flip pre post b j hj

/-- the writer's chained `crc32.Update` over rep, def, page is the CRC of the stored body -/
theorem writer_crc_is_body_crc (rep defs page : List UInt8) :
    crc32Update (crc32Update (crc32Update 0#32 rep) defs) page = crc32 (rep ++ defs ++ page) := by
  rw [crc32Update_append, crc32Update_append, List.append_assoc]; rfl

/-! ## Loader paths -/

/-- **load_detects**: on *every* access path of the code as it stands, a page whose header carries the
    (non-zero) CRC of its body is rejected as corrupted after any burst ≤ 32 bits anywhere in the body
    (levels and values, compressed or not — the body is whatever bytes were checksummed). -/
theorem load_detects (p : Path) (h : Header)
    (body err : Bytes) (hsize : h.compressedSize = body.length) (hlen : err.length = body.length)
    (h0 : h.crc ≠ 0#32) (hcrc : h.crc = crc32 body) (hb : Burst err) :
    load current p h (xorBytes body err) = .error .corrupted :=
  load_detects_of_verifies current p (verifies_current p) h body err hsize hlen h0 hcrc hb

/-- the hypotheses are satisfiable: a real 14-byte data page body (RLE_DICTIONARY indexes) written by
    the library, bit 3 of byte 9 flipped, on the lazy dictionary path -/
example : load current .lazyDictionary (writeHeader .dataV2 [0x02, 0x05, 0xe4, 0xe4, 0xe4, 0xe4, 0x02, 0x00, 0x02, 0x01, 0x02, 0x02, 0x02, 0x03] true)
    (xorBytes [0x02, 0x05, 0xe4, 0xe4, 0xe4, 0xe4, 0x02, 0x00, 0x02, 0x01, 0x02, 0x02, 0x02, 0x03]
              [0, 0, 0, 0, 0, 0, 0, 0, 0, 8, 0, 0, 0, 0]) = .error .corrupted :=
  load_detects .lazyDictionary _ _ _ rfl rfl (by decide +kernel) rfl
    ⟨⟨75, by decide⟩, ⟨75, by decide⟩⟩

/-- an intact page is accepted on every path of every implementation: the error of `load_detects`
    is not the loader rejecting everything -/
theorem load_intact (impl : Impl) (p : Path) (kind : PageKind) (body : Bytes) :
    load impl p (writeHeader kind body) body = .ok { kind, body } := by
  have hr := readPage_intact (writeHeader kind body) body rfl rfl
  have hf : readFull (writeHeader kind body).compressedSize body = .ok body := readFull_exact body
  unfold load
  cases p <;> cases hv : impl.dictLoaderVerifies <;> simp_all [readDictionaryBody, writeHeader]

/-- every path of the code as it stands compares checksums -/
theorem current_all_paths_verify : ∀ p, verifies current p = true := verifies_current

/-! ## Column chunk level -/

/-- reading a chunk from its start reports corruption if the dictionary page is corrupted … -/
theorem readAll_detects_dictionary (impl : Impl) (c : Chunk) (d : Stored) (hd : c.dict = some d)
    (hc : Corrupted d) : readAll impl c = .error .corrupted := by
  unfold readAll
  rw [hd]
  simp [loadStored_corrupted impl .sequential rfl d hc]

/-- … or if any data page is (the pages before it and the dictionary being intact) -/
theorem readAll_detects_data_page (impl : Impl) (c : Chunk) (pre post : List Stored) (bad : Stored)
    (hp : c.pages = pre ++ bad :: post) (hpre : ∀ s ∈ pre, Intact s)
    (hdict : ∀ d, c.dict = some d → Intact d) (hc : Corrupted bad) :
    readAll impl c = .error .corrupted := by
  have hl := loadPages_corrupted impl bad post hc pre hpre
  unfold readAll
  rw [hp, hl]
  cases hd : c.dict with
  | none => rfl
  | some d =>
    have hi := hdict d hd
    simp [loadStored, load, readPage_intact d.hdr d.body hi.1 hi.2]
    rfl

/-- a read that reaches data page `k` after a seek reports corruption of that page -/
theorem readAt_detects_data_page (impl : Impl) (c : Chunk) (k : Nat) (bad : Stored)
    (hk : c.pages[k]? = some bad) (hc : Corrupted bad) : readAt impl c k = .error .corrupted := by
  unfold readAt
  rw [hk]
  simp [loadStored_corrupted impl .afterSeek rfl bad hc]

/-- a read that reaches a dictionary-encoded page after a seek reports corruption of the dictionary
    page (before 5000be7 it did not: `F4_witness_before_fix`) -/
theorem readAt_detects_dictionary (c : Chunk) (k : Nat) (s d : Stored)
    (hk : c.pages[k]? = some s) (hs : Intact s) (henc : s.hdr.dictEncoded = true)
    (hd : c.dict = some d) (hc : Corrupted d) : readAt current c k = .error .corrupted := by
  unfold readAt
  rw [hk]
  simp [loadStored, load, readPage_intact s.hdr s.body hs.1 hs.2, henc, hd]
  have := loadStored_corrupted current .lazyDictionary rfl d hc
  simp [loadStored, load] at this
  split at this <;> simp_all

/-! ## F4 (repaired by 5000be7) — regression facts about the code before the fix

`beforeFix` is the as-is mirror of the old `readDictionary` (bare `io.ReadFull`, no comparison). -/

/-- before the fix only the two paths through `readPage` verified -/
theorem verifying_paths_before_fix :
    Path.all.filter (verifies beforeFix) = [.sequential, .afterSeek] := by decide

/-- before the fix the dictionary loader accepted any bytes of the right length -/
theorem F4_dictionary_loader_accepts_anything_before_fix (p : Path)
    (hp : p = .lazyDictionary ∨ p = .readDictionaryAPI) (h : Header) (s : Bytes)
    (hs : s.length = h.compressedSize) : load beforeFix p h s = .ok { kind := h.kind, body := s } := by
  have hf : readFull h.compressedSize s = .ok s := by rw [← hs]; exact readFull_exact s
  rcases hp with rfl | rfl <;> simp [load, readDictionaryBody, beforeFix, hf]

/-- bodies of the column "name" of a file written by the library (PageBufferSize 1, page v2,
    uncompressed): PLAIN dictionary ["alpha","beta","gamma","delta"] and two index pages -/
def f4Dict : Bytes := [0x05, 0, 0, 0, 0x61, 0x6c, 0x70, 0x68, 0x61, 0x04, 0, 0, 0, 0x62, 0x65, 0x74, 0x61,
  0x05, 0, 0, 0, 0x67, 0x61, 0x6d, 0x6d, 0x61, 0x05, 0, 0, 0, 0x64, 0x65, 0x6c, 0x74, 0x61]
def f4Page : Bytes := [0x02, 0x05, 0xe4, 0xe4, 0xe4, 0xe4, 0x02, 0x00, 0x02, 0x01, 0x02, 0x02, 0x02, 0x03]
/-- bit 1 of byte 5 flipped: "alpha" becomes "anpha" -/
def f4DictBad : Bytes := f4Dict.set 5 0x6e

def f4Chunk (dict : Bytes) : Chunk :=
  { dict := some { hdr := writeHeader .dictionary f4Dict, body := dict },
    pages := [{ hdr := writeHeader .dataV2 f4Page true, body := f4Page },
              { hdr := writeHeader .dataV2 f4Page true, body := f4Page }] }

/-- **F4 before the fix**: the header CRC is the one the writer stored (0x3AECFFB6, non-zero); with one
    bit of the dictionary body flipped a sequential read reported corruption, but a read that reached
    page 1 after a seek returned the page together with the altered dictionary and no error — and so
    did `ReadDictionary()`. -/
theorem F4_witness_before_fix :
    (writeHeader .dictionary f4Dict).crc = 0x3AECFFB6#32 ∧
    readAll beforeFix (f4Chunk f4DictBad) = .error .corrupted ∧
    readAt beforeFix (f4Chunk f4DictBad) 1 =
      .ok (some { kind := .dictionary, body := f4DictBad }, { kind := .dataV2, body := f4Page }) ∧
    load beforeFix .readDictionaryAPI (writeHeader .dictionary f4Dict) f4DictBad =
      .ok { kind := .dictionary, body := f4DictBad } := by
  decide +kernel

/-- the same witness on the code as it stands: reported on all three ways to the dictionary -/
theorem F4_witness_now_detected :
    readAll current (f4Chunk f4DictBad) = .error .corrupted ∧
    readAt current (f4Chunk f4DictBad) 1 = .error .corrupted ∧
    load current .readDictionaryAPI (writeHeader .dictionary f4Dict) f4DictBad = .error .corrupted := by
  decide +kernel

/-! ## F8 — a page whose CRC-32 is 0 carries no CRC field and is never verified -/

/-- whatever the implementation and path: `header.CRC == 0` disables the comparison -/
theorem F8_crc_zero_accepts_anything (impl : Impl) (p : Path) (h : Header) (s : Bytes)
    (h0 : h.crc = 0#32) (hs : s.length = h.compressedSize) :
    load impl p h s = .ok { kind := h.kind, body := s } := by
  have hf : readFull h.compressedSize s = .ok s := by rw [← hs]; exact readFull_exact s
  cases p <;> cases hv : impl.dictLoaderVerifies <;> simp [load, readDictionaryBody, readPage, hf, h0, hv]

/-- PLAIN int32 values 7, -3, 2^30, 42, -2081027679 (the last one chosen to zero the CRC) -/
def f8Body : Bytes := [0x07, 0, 0, 0, 0xfd, 0xff, 0xff, 0xff, 0, 0, 0, 0x40, 0x2a, 0, 0, 0, 0xa1, 0x09, 0xf6, 0x83]

/-- **F8** (known finding): the writer's header for this body has CRC 0 (so thrift drops the field),
    and the body with bit 4 of byte 1 flipped (first value 7 → 4103) is accepted on the verifying
    sequential path of the code as it stands. -/
theorem F8_witness :
    (writeHeader .dataV2 f8Body).crc = 0#32 ∧
    load current .sequential (writeHeader .dataV2 f8Body) (f8Body.set 1 0x10) =
      .ok { kind := .dataV2, body := f8Body.set 1 0x10 } := by
  decide +kernel

end PqModel.Props.C13
