import PqModel.ResetSlots

/-! # C17 — the footer's row groups do not depend on what the row-group slots held before `Reset`

`w.rowGroups` keeps its capacity across `Reset`; `writeRowGroup` reuses the retained structs. The
theorems say: for EVERY earlier history of committed row groups and resets, what the footer lists
after a `Reset` is the spec's function (`specEmit`) of the configuration and of the row groups
committed since — in particular the `sorting_columns` a writer WITHOUT sorting configuration
records for row groups that declare their own (`WriteRowGroup` of a sorted buffer / a sorted file's
row group). The code before the repair 8f4fe5a is refuted: fresh and reused writers differ (empty
list vs no list), and neither records the row group's sorting columns. Mirror vs spec: see
`ResetSlots.lean`. -/

namespace PqModel.Props.C17Slots
open PqModel.Reset (SortCol Str)
open PqModel.ResetSlots

/-- **slots_after_reset** (repaired mirror): whatever was committed and reset before (`before`,
from a new writer), the row groups listed after a `Reset` followed by the commits `after` are the
spec's row groups of those commits: the chunks of each commit alone (nothing of the reused struct),
and as sorting columns the configured list or, without configuration, the list resolved from the
row group's own sorting columns. -/
theorem slots_after_reset (cfg : List SortCol) (leaves : List (List Str)) (before after : List Op)
    (ha : ∀ op ∈ after, op ≠ .reset) :
    emit (runWith sortingFixed cfg leaves after (reset (runWith sortingFixed cfg leaves before Slots.fresh))) =
      specEmit resolveFixed cfg leaves (commitsOf after) := by
  have hz := spareZero_reset _ (spareZero_run sortingFixed cfg leaves before Slots.fresh spareZero_fresh)
  rw [emit, run_commits cfg leaves after ha _ hz]
  rfl

/-- a writer reused after any history lists what a new writer lists -/
theorem slots_reset_equiv (cfg : List SortCol) (leaves : List (List Str)) (before after : List Op)
    (ha : ∀ op ∈ after, op ≠ .reset) :
    emit (runWith sortingFixed cfg leaves after (reset (runWith sortingFixed cfg leaves before Slots.fresh))) =
      emit (runWith sortingFixed cfg leaves after Slots.fresh) := by
  rw [slots_after_reset cfg leaves before after ha, emit, run_commits cfg leaves after ha _ spareZero_fresh]
  rfl

example : ∀ op ∈ [Op.commit ⟨[1, 2], [⟨[[98]], true, false⟩], [7]⟩, .commit ⟨[3, 4], [], [8]⟩], op ≠ .reset := by decide

/-- the row groups a writer is given are well-formed when their sorting columns name pairwise
distinct leaves of the schema -/
def WellFormed (leaves : List (List Str)) (c : Commit) : Prop :=
  ((c.rgSorting.map (·.path)).Nodup) ∧ ∀ sc ∈ c.rgSorting, sc.path ∈ leaves

theorem specEmit_congr (leaves : List (List Str)) (hl : leaves.Nodup) (cfg : List SortCol) (cs : List Commit)
    (hw : ∀ c ∈ cs, WellFormed leaves c) :
    specEmit resolveFixed cfg leaves cs = specEmit specResolve cfg leaves cs := by
  unfold specEmit
  apply List.map_congr_left
  intro c hc
  rw [resolve_spec leaves hl c.rgSorting (hw c hc).1 (hw c hc).2]

/-- **slots_sorting_spec**: with a schema of pairwise distinct leaf paths and well-formed row
groups, the listed sorting columns are the spec's resolution (`specResolve`: one entry per sorting
column of the row group, in its order: column index of the named leaf, direction, null order). -/
theorem slots_sorting_spec (cfg : List SortCol) (leaves : List (List Str)) (hl : leaves.Nodup)
    (before after : List Op) (ha : ∀ op ∈ after, op ≠ .reset)
    (hw : ∀ c ∈ commitsOf after, WellFormed leaves c) :
    emit (runWith sortingFixed cfg leaves after (reset (runWith sortingFixed cfg leaves before Slots.fresh))) =
      specEmit specResolve cfg leaves (commitsOf after) := by
  rw [slots_after_reset cfg leaves before after ha, specEmit_congr leaves hl cfg _ hw]

example : [[[97]], [[98]], [[99], [100]]].Nodup ∧
    WellFormed [[[97]], [[98]], [[99], [100]]] ⟨[1], [⟨[[99], [100]], true, false⟩, ⟨[[97]], false, true⟩], []⟩ := by
  refine ⟨by decide, by decide, ?_⟩
  intro sc hsc
  simp only [List.mem_cons, List.not_mem_nil, or_false] at hsc
  rcases hsc with rfl | rfl <;> decide

/-- what the repaired code lists for such a row group: `c.d` descending is column 2, `a` column 0 -/
example : emit (runWith sortingFixed [] [[[97]], [[98]], [[99], [100]]]
      [.commit ⟨[1], [⟨[[99], [100]], true, false⟩, ⟨[[97]], false, true⟩], []⟩] Slots.fresh) =
    [⟨[1], some [⟨2, true, false⟩, ⟨0, false, true⟩], []⟩] := by decide

/-! ### the code before the repair -/

/-- one INT64 column `a`; a row group sorted by `a` descending -/
def sortedByA : Commit := ⟨[5], [⟨[[97]], true, false⟩], [2]⟩

/-- **slots_asIs_reuse_differs**: before the repair a new writer lists an EMPTY sorting column list
for the row group (`make(…, 0, n)`: two bytes in the footer), a writer that committed a row group
earlier and was `Reset` lists NONE (the reused struct's nil slice): same rows, same options,
different bytes. History: `commit; reset; commit`. -/
theorem slots_asIs_reuse_differs :
    emit (runWith sortingAsIs [] [[[97]]] [.commit sortedByA] Slots.fresh) = [⟨[5], some [], [2]⟩] ∧
    emit (runWith sortingAsIs [] [[[97]]] [.commit sortedByA, .reset, .commit sortedByA] Slots.fresh) = [⟨[5], none, [2]⟩] := by
  decide

/-- the property fails for the as-is mirror (negation of `slots_reset_equiv`) -/
theorem slots_reset_equiv_asIs_false :
    ¬ ∀ (cfg : List SortCol) (leaves : List (List Str)) (before after : List Op), (∀ op ∈ after, op ≠ .reset) →
      emit (runWith sortingAsIs cfg leaves after (reset (runWith sortingAsIs cfg leaves before Slots.fresh))) =
        emit (runWith sortingAsIs cfg leaves after Slots.fresh) := by
  intro h
  have := h [] [[[97]]] [.commit sortedByA] [.commit sortedByA] (by decide)
  revert this
  decide

/-- ... and neither writer records the row group's sorting columns (the spec's list is `[⟨0, true, false⟩]`) -/
theorem slots_asIs_never_records :
    specEmit specResolve [] [[[97]]] [sortedByA] = [⟨[5], some [⟨0, true, false⟩], [2]⟩] ∧
    emit (runWith sortingFixed [] [[[97]]] [.commit sortedByA, .reset, .commit sortedByA] Slots.fresh) =
      [⟨[5], some [⟨0, true, false⟩], [2]⟩] := by decide

end PqModel.Props.C17Slots
