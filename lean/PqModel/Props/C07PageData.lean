import PqModel.PageDataBuf
import PqModel.Props.C07

/-! # C07, part 5: from the typed column buffers to the hashes the filter receives

Definitions: `PqModel/PageDataBuf.lean` (MIRROR of the column buffers' write paths and of
`Page().Data()`), `PqModel/Bloom.lean` (`pageData` SPEC layout, `hashWrite*` MIRROR of
`splitBlockEncoding`, `hashRead` MIRROR of `Value.hash`). Only property theorems here (and the byte
lemmas they need). -/
namespace PqModel.Props.C07PageData
open PqModel.XxHash PqModel.Bloom PqModel.PageDataBuf PqModel.Props.C07

/-! ## 1. every kind but BOOLEAN: each written value is hashed exactly once, in order -/

theorem map_hash_congr {α} (vs : List Value) (proj : Value → α) (g : α → UInt64)
    (h : ∀ v ∈ vs, g (proj v) = hashRead v) : (vs.map proj).map g = vs.map hashRead := by
  rw [List.map_map]; exact List.map_congr_left (fun v hv => h v hv)

/-- SPEC layout: for a page laid out as `pageData` says, `splitBlockEncoding.Encode*` inserts the
    read-side hash of every value exactly once and in order (list equality; strengthens
    `hash_sides_agree` + `hash_sides_exact`). -/
theorem pageData_hashes_exactly_once (kind : Kind) (hk : kind ≠ .boolean) (values : List Value)
    (hv : ∀ v ∈ values, v.kindOk kind = true) :
    hashWriteStaged (pageData kind values) = values.map hashRead := by
  rw [hashWriteStaged_eq]
  have bytesAll : ∀ (size : Nat), (∀ w ∈ values, w.kindOk kind = true → w.payloadBytes.length = size) →
      ∀ b ∈ values.map Value.payloadBytes, b.length = size := by
    intro size h b hb
    rcases List.mem_map.mp hb with ⟨w, hw, rfl⟩
    exact h w hw (hv w hw)
  cases kind with
  | boolean => exact absurd rfl hk
  | int32 =>
    simp only [pageData, hashWrite, multiSum64Uint32, multiSum64, List.take_length]
    apply map_hash_congr; intro w hw; have := hv w hw
    cases w <;> simp [Value.kindOk] at this; rfl
  | int64 =>
    simp only [pageData, hashWrite, multiSum64Uint64, multiSum64, List.take_length]
    apply map_hash_congr; intro w hw; have := hv w hw
    cases w <;> simp [Value.kindOk] at this; rfl
  | float =>
    simp only [pageData, hashWrite, multiSum64Uint32, multiSum64, List.take_length]
    apply map_hash_congr; intro w hw; have := hv w hw
    cases w <;> simp [Value.kindOk] at this; rfl
  | double =>
    simp only [pageData, hashWrite, multiSum64Uint64, multiSum64, List.take_length]
    apply map_hash_congr; intro w hw; have := hv w hw
    cases w <;> simp [Value.kindOk] at this; rfl
  | int96 =>
    have hall := bytesAll 12 (by
      intro w _ hw; cases w <;> simp [Value.kindOk] at hw; simpa [Value.payloadBytes] using hw)
    simp only [pageData, hashWrite, List.flatMap_def]
    rw [chunks_flatten 12 (by decide) _ hall]
    apply map_hash_congr; intro w hw; have := hv w hw
    cases w <;> simp [Value.kindOk] at this; rfl
  | byteArray =>
    simp only [pageData, hashWrite, List.flatMap_def]
    rw [byteArrayValues_flatten]
    apply map_hash_congr; intro w hw; have := hv w hw
    cases w <;> simp [Value.kindOk] at this; rfl
  | flba size =>
    have hall := bytesAll size (by
      intro w _ hw; cases w <;> simp [Value.kindOk] at hw; simpa [Value.payloadBytes] using hw.1)
    by_cases hvals : values = []
    · subst hvals
      simp only [pageData, hashWrite, List.flatMap_nil, chunks, chunksFuel, List.length_nil]
      split <;> simp [multiSum64Uint128, multiSum64]
    · obtain ⟨w0, hw0⟩ := List.exists_mem_of_ne_nil values hvals
      have hpos : 0 < size := by
        have := hv w0 hw0
        cases w0 <;> simp [Value.kindOk] at this
        exact this.2
      simp only [pageData, hashWrite, List.flatMap_def]
      split
      · rename_i h16
        subst h16
        rw [chunks_flatten 16 hpos _ hall]
        simp only [multiSum64Uint128, multiSum64, List.take_length]
        apply map_hash_congr; intro w hw; have := hv w hw
        cases w <;> simp [Value.kindOk] at this
        rename_i bytes
        simp only [Value.payloadBytes, hashRead]
        exact sum64Uint128_eq_xxh64 bytes this
      · rw [chunks_flatten size hpos _ hall]
        apply map_hash_congr; intro w hw; have := hv w hw
        cases w <;> simp [Value.kindOk] at this; rfl

/-- every value every write op of the history carries is of the column's kind -/
def OpsOk (kind : Kind) (ops : List BufOp) : Prop :=
  ∀ op ∈ ops, ∀ vs, op = .write vs → ∀ v ∈ vs, v.kindOk kind = true

theorem flbaWrite_ok (size : Nat) : ∀ (vs : List (List UInt8)) (data : List UInt8),
    (∀ v ∈ vs, v.length = size) → (flbaWrite size data vs).1 = data ++ vs.flatten
  | [], data, _ => by simp [flbaWrite]
  | v :: vs, data, h => by
    simp only [flbaWrite, h v (by simp), if_true, List.flatten_cons]
    rw [flbaWrite_ok size vs (data ++ v) (fun w hw => h w (by simp [hw])), List.append_assoc]

/-- the relation between the buffer's state and the values written since the last `Reset` -/
def Rel (kind : Kind) : Buf → List Value → Prop
  | .w32 xs, vs => (kind = .int32 ∨ kind = .float) ∧ xs = vs.map value32
  | .w64 xs, vs => (kind = .int64 ∨ kind = .double) ∧ xs = vs.map value64
  | .flat data, vs => (kind = .int96 ∨ ∃ n, kind = .flba n) ∧ data = (vs.map Value.payloadBytes).flatten
  | .bytes c, vs => kind = .byteArray ∧ c.BInv ∧ c.view = vs.map Value.payloadBytes
  | .boolean _, _ => False

theorem rel_empty (kind : Kind) (hk : kind ≠ .boolean) : Rel kind (Buf.empty kind) [] := by
  cases kind <;> simp [Buf.empty, Rel] at hk ⊢
  exact ⟨SortBuf.BACol.binv_empty, rfl⟩

theorem foldl_write_spec : ∀ (ws : List (List UInt8)) (c : SortBuf.BACol UInt8), c.BInv →
    (ws.foldl SortBuf.BACol.write c).BInv ∧ (ws.foldl SortBuf.BACol.write c).view = c.view ++ ws
  | [], c, h => by simp [h]
  | w :: ws, c, h => by
    have := foldl_write_spec ws (c.write w) (SortBuf.BACol.binv_write h w)
    simp only [List.foldl_cons]
    rw [SortBuf.BACol.view_write h w] at this
    simpa [List.append_assoc] using this

theorem rel_write (junk : UInt8) (kind : Kind) (b : Buf) (vs ws : List Value)
    (hw : ∀ v ∈ ws, v.kindOk kind = true) (h : Rel kind b vs) :
    Rel kind (b.write junk kind ws) (vs ++ ws) := by
  cases b with
  | boolean st => exact h.elim
  | w32 xs => obtain ⟨hk, rfl⟩ := h; exact ⟨hk, by simp [fixedWrite]⟩
  | w64 xs => obtain ⟨hk, rfl⟩ := h; exact ⟨hk, by simp [fixedWrite]⟩
  | bytes c =>
    obtain ⟨hk, hi, hview⟩ := h
    have := foldl_write_spec (ws.map Value.payloadBytes) c hi
    exact ⟨hk, this.1, by rw [this.2, hview]; simp⟩
  | flat data =>
    obtain ⟨hk, rfl⟩ := h
    refine ⟨hk, ?_⟩
    rw [flbaWrite_ok]
    · simp
    · intro b hb
      rcases List.mem_map.mp hb with ⟨w, hwm, rfl⟩
      have := hw w hwm
      rcases hk with hk | ⟨n, hk⟩ <;> subst hk <;> cases w <;> simp [Value.kindOk] at this <;>
        simp [Value.payloadBytes, this]

theorem rel_run (junk : UInt8) (kind : Kind) (hk : kind ≠ .boolean) : ∀ (ops : List BufOp) (b : Buf) (vs : List Value),
    OpsOk kind ops → Rel kind b vs →
    Rel kind (ops.foldl (Buf.step junk kind) b) (ops.foldl specStep vs)
  | [], _, _, _, h => h
  | op :: ops, b, vs, hok, h => by
    simp only [List.foldl_cons]
    apply rel_run junk kind hk ops _ _ (fun o ho => hok o (by simp [ho]))
    cases op with
    | reset => exact rel_empty kind hk
    | write ws => exact rel_write junk kind b vs ws (hok (.write ws) (by simp) ws rfl) h

theorem byteArrayValues_eq_slices (data : List UInt8) : ∀ (offs : List Nat),
    byteArrayValues data offs = SortBuf.slices data offs
  | [] => rfl
  | [_] => rfl
  | a :: b :: tl => by
    have ih := byteArrayValues_eq_slices data (b :: tl)
    simp only [byteArrayValues, Bloom.slices, SortBuf.slices, SortBuf.slice] at ih ⊢
    rw [ih]

/-- MAIN (all kinds but BOOLEAN). For every history of `WriteValues` batches and `Reset`s on the typed
    column buffer of a column of kind `kind` (values of that kind; any stale bytes `junk`), the hashes
    `writePageToFilter` inserts for `Page().Data()` (loop-level write side, staging buffers included)
    are the read-side hashes `Value.hash` of the values written since the last `Reset`: each exactly
    once, in write order, nothing else. -/
theorem buffer_hashes_exactly_once (junk : UInt8) (kind : Kind) (hk : kind ≠ .boolean) (ops : List BufOp)
    (hok : OpsOk kind ops) :
    hashWriteStaged (runData junk kind ops) = (runValues ops).map hashRead := by
  have hrel := rel_run junk kind hk ops (Buf.empty kind) [] hok (rel_empty kind hk)
  have hvals : ∀ v ∈ runValues ops, v.kindOk kind = true := by
    have : ∀ (ops : List BufOp) (vs : List Value), OpsOk kind ops → (∀ v ∈ vs, v.kindOk kind = true) →
        ∀ v ∈ ops.foldl specStep vs, v.kindOk kind = true := by
      intro ops
      induction ops with
      | nil => intro vs _ h; exact h
      | cons op ops ih =>
        intro vs hok h
        simp only [List.foldl_cons]
        apply ih _ (fun o ho => hok o (by simp [ho]))
        cases op with
        | reset => intro v hv; simp [specStep] at hv
        | write ws =>
          intro v hv
          rcases List.mem_append.mp hv with hv | hv
          · exact h v hv
          · exact hok (.write ws) (by simp) ws rfl v hv
    exact this ops [] hok (by simp)
  have key := pageData_hashes_exactly_once kind hk (runValues ops) hvals
  unfold runData runValues at *
  generalize ops.foldl (Buf.step junk kind) (Buf.empty kind) = b at hrel
  generalize ops.foldl specStep [] = vs at hrel key hvals
  cases b with
  | boolean st => exact hrel.elim
  | w32 xs =>
    obtain ⟨hk2, rfl⟩ := hrel
    rcases hk2 with rfl | rfl
    · rw [← key]; simp only [Buf.data, pageData]
      congr 2; apply List.map_congr_left; intro v hv; have := hvals v hv
      cases v <;> simp [Value.kindOk] at this; rfl
    · rw [← key]; simp only [Buf.data, pageData]
      congr 2; apply List.map_congr_left; intro v hv; have := hvals v hv
      cases v <;> simp [Value.kindOk] at this; rfl
  | w64 xs =>
    obtain ⟨hk2, rfl⟩ := hrel
    rcases hk2 with rfl | rfl
    · rw [← key]; simp only [Buf.data, pageData]
      congr 2; apply List.map_congr_left; intro v hv; have := hvals v hv
      cases v <;> simp [Value.kindOk] at this; rfl
    · rw [← key]; simp only [Buf.data, pageData]
      congr 2; apply List.map_congr_left; intro v hv; have := hvals v hv
      cases v <;> simp [Value.kindOk] at this; rfl
  | flat data =>
    obtain ⟨hk2, rfl⟩ := hrel
    rcases hk2 with rfl | ⟨n, rfl⟩
    · rw [← key]; simp only [Buf.data, pageData, List.flatMap_def]
    · rw [← key]; simp only [Buf.data, pageData, List.flatMap_def]
  | bytes c =>
    obtain ⟨rfl, hi, hview⟩ := hrel
    have hp := (SortBuf.BACol.page_spec hi).2.2
    simp only [Buf.data, hashWriteStaged, stagedAppend_eq_map]
    rw [byteArrayValues_eq_slices]
    have : SortBuf.slices c.page.values (c.page.offsets ++ c.page.endOff.toList) = c.page.pageValues := rfl
    rw [this, hp, hview]
    apply map_hash_congr; intro v hv; have := hvals v hv
    cases v <;> simp [Value.kindOk] at this; rfl

example : OpsOk (.flba 2) [.write [.flba [1, 2]], .reset, .write [.flba [3, 4], .flba [5, 6]]] := by
  intro op hop vs hvs v hv
  simp at hop
  rcases hop with rfl | rfl | rfl <;> simp at hvs <;> subst hvs <;> simp at hv
  · subst hv; decide
  · rcases hv with rfl | rfl <;> decide

/-! ## 2. BOOLEAN: the bit-packed buffer -/

theorem packBits_append_full : ∀ (full tail : List Bool), full.length % 8 = 0 →
    packBits (full ++ tail) = packBits full ++ packBits tail
  | [], tail, _ => by simp [packBits]
  | b0 :: b1 :: b2 :: b3 :: b4 :: b5 :: b6 :: b7 :: rest, tail, h => by
    have ih := packBits_append_full rest tail (by simp only [List.length_cons] at h; omega)
    simp only [List.cons_append, packBits, ih]
  | [_], _, h => by simp at h
  | [_, _], _, h => by simp at h
  | [_, _, _], _, h => by simp at h
  | [_, _, _, _], _, h => by simp at h
  | [_, _, _, _, _], _, h => by simp at h
  | [_, _, _, _, _, _], _, h => by simp at h
  | [_, _, _, _, _, _, _], _, h => by simp at h

theorem packBits_length_full : ∀ (full : List Bool) (k : Nat), full.length = 8 * k → (packBits full).length = k
  | [], k, h => by simp at h; simp [packBits]; omega
  | b0 :: b1 :: b2 :: b3 :: b4 :: b5 :: b6 :: b7 :: rest, k, h => by
    simp only [List.length_cons] at h
    have ih := packBits_length_full rest (k - 1) (by omega)
    simp only [packBits, List.length_cons, ih]; omega
  | [_], _, h => by simp at h; omega
  | [_, _], _, h => by simp at h; omega
  | [_, _, _], _, h => by simp at h; omega
  | [_, _, _, _], _, h => by simp at h; omega
  | [_, _, _, _, _], _, h => by simp at h; omega
  | [_, _, _, _, _, _], _, h => by simp at h; omega
  | [_, _, _, _, _, _, _], _, h => by simp at h; omega

/-- a group of 1..8 values packs into one byte -/
theorem packBits_short : ∀ (t : List Bool), 1 ≤ t.length → t.length ≤ 8 → packBits t = [UInt8.ofNat (bitsByte t)]
  | [], h, _ => by simp at h
  | [_], _, _ => rfl
  | [_, _], _, _ => rfl
  | [_, _, _], _, _ => rfl
  | [_, _, _, _], _, _ => rfl
  | [_, _, _, _, _], _, _ => rfl
  | [_, _, _, _, _, _], _, _ => rfl
  | [_, _, _, _, _, _, _], _, _ => rfl
  | [_, _, _, _, _, _, _, _], _, _ => rfl
  | _ :: _ :: _ :: _ :: _ :: _ :: _ :: _ :: _ :: _, _, h => by simp only [List.length_cons] at h; omega

/-- what `writeBoolean` does to the byte that receives the value: set bit `y`, then clear the bits
    above it unless the byte is now full -/
def stepByte (y : Nat) (w : UInt8) (b : Bool) : UInt8 :=
  let w' := setBit w y b
  if (y + 1) % 8 = 0 then w' else w' &&& (((1 : UInt8) <<< UInt8.ofNat ((y + 1) % 8)) - 1)

/-- a fresh byte: whatever it held (`junk`), it ends up holding the one value -/
theorem stepByte_fresh : ∀ (k : Fin 256) (b : Bool), stepByte 0 (UInt8.ofNat k.val) b = UInt8.ofNat (bitsByte [b]) := by
  decide +kernel

theorem stepByte_tail : ∀ (tail : List Bool) (b : Bool), 1 ≤ tail.length → tail.length ≤ 7 →
    stepByte tail.length (UInt8.ofNat (bitsByte tail)) b = UInt8.ofNat (bitsByte (tail ++ [b]))
  | [], _, h, _ => by simp at h
  | [a0], b, _, _ => by revert a0 b; decide
  | [a0, a1], b, _, _ => by revert a0 a1 b; decide
  | [a0, a1, a2], b, _, _ => by revert a0 a1 a2 b; decide
  | [a0, a1, a2, a3], b, _, _ => by revert a0 a1 a2 a3 b; decide
  | [a0, a1, a2, a3, a4], b, _, _ => by revert a0 a1 a2 a3 a4 b; decide
  | [a0, a1, a2, a3, a4, a5], b, _, _ => by revert a0 a1 a2 a3 a4 a5 b; decide
  | [a0, a1, a2, a3, a4, a5, a6], b, _, _ => by revert a0 a1 a2 a3 a4 a5 a6 b; decide
  | _ :: _ :: _ :: _ :: _ :: _ :: _ :: _ :: _, _, _, h => by simp only [List.length_cons] at h; omega

theorem setAt_last {α} (P : List α) (w : α) (f : α → α) : setAt (P ++ [w]) P.length f = P ++ [f w] := by
  induction P with
  | nil => rfl
  | cons a P ih => simp only [List.cons_append, List.length_cons, setAt, ih]

/-- the step on the last byte of the buffer -/
theorem step_last (P : List UInt8) (w : UInt8) (n : Nat) (b : Bool) (hP : P.length = n / 8) :
    clearTrailing (setAt (P ++ [w]) (n / 8) (fun w => setBit w (n % 8) b)) (n + 1)
      = P ++ [stepByte (n % 8) w b] := by
  rw [← hP, setAt_last]
  have e : (n + 1) % 8 = (n % 8 + 1) % 8 := by omega
  unfold clearTrailing stepByte
  rw [e]
  split
  · rfl
  · have : (P ++ [setBit w (n % 8) b]).length - 1 = P.length := by simp
    rw [this, setAt_last]

/-- the buffer holds the LSB-first packing of the values, trailing bits zero -/
def BoolRel (st : BoolBuf) (vs : List Bool) : Prop := st.bits = packBits vs ∧ st.numValues = vs.length

theorem writeBoolean_rel (st : BoolBuf) (vs : List Bool) (b : Bool) (junk : UInt8) (h : BoolRel st vs) :
    BoolRel (st.writeBoolean b junk) (vs ++ [b]) := by
  obtain ⟨hb, hn⟩ := h
  refine ⟨?_, by simp [BoolBuf.writeBoolean, hn]⟩
  have hsplit : vs = vs.take (8 * (vs.length / 8)) ++ vs.drop (8 * (vs.length / 8)) := (List.take_append_drop _ _).symm
  generalize hfull : vs.take (8 * (vs.length / 8)) = full at hsplit
  generalize htail : vs.drop (8 * (vs.length / 8)) = tail at hsplit
  have hfl : full.length = 8 * (vs.length / 8) := by rw [← hfull, List.length_take]; omega
  have htl : tail.length = vs.length % 8 := by rw [← htail, List.length_drop]; omega
  have hP : (packBits full).length = vs.length / 8 := packBits_length_full full _ hfl
  have hfm : full.length % 8 = 0 := by omega
  have hpack : packBits vs = packBits full ++ packBits tail := by
    rw [hsplit]; exact packBits_append_full full tail hfm
  have hpack' : packBits (vs ++ [b]) = packBits full ++ packBits (tail ++ [b]) := by
    rw [hsplit, List.append_assoc]; exact packBits_append_full full _ hfm
  rw [hpack', packBits_short (tail ++ [b]) (by simp) (by simp; omega)]
  simp only [BoolBuf.writeBoolean, hn, hb, hpack]
  by_cases ht : tail = []
  · subst ht
    have hy : vs.length % 8 = 0 := by simpa using htl.symm
    have hres : resize (packBits full ++ packBits []) (byteCount (vs.length + 1)) junk = packBits full ++ [junk] := by
      have hbc : byteCount (vs.length + 1) = (packBits full).length + 1 := by unfold byteCount; omega
      simp only [packBits, List.append_nil, resize, hbc]
      rw [List.take_of_length_le (by omega)]
      have : (packBits full).length + 1 - (packBits full).length = 1 := by omega
      rw [this]; rfl
    rw [hres, step_last _ _ _ _ hP, hy]
    have hj : junk = UInt8.ofNat (junk.toNat) := by simp
    rw [hj]
    have := stepByte_fresh ⟨junk.toNat, UInt8.toNat_lt junk⟩ b
    simpa using this
  · have htpos : 1 ≤ tail.length := by
      cases tail with
      | nil => exact absurd rfl ht
      | cons _ _ => simp
    have ht7 : tail.length ≤ 7 := by omega
    rw [packBits_short tail htpos (by omega)]
    have hres : resize (packBits full ++ [UInt8.ofNat (bitsByte tail)]) (byteCount (vs.length + 1)) junk
        = packBits full ++ [UInt8.ofNat (bitsByte tail)] := by
      have hbc : byteCount (vs.length + 1) = (packBits full ++ [UInt8.ofNat (bitsByte tail)]).length := by
        unfold byteCount; simp only [List.length_append, List.length_cons, List.length_nil]; omega
      simp only [resize, hbc, List.take_length, Nat.sub_self, List.replicate_zero, List.append_nil]
    rw [hres, step_last _ _ _ _ hP, ← htl, stepByte_tail tail b htpos ht7]

/-- the histories of the per-value path: `writeBoolean` and `Reset` only -/
def NoBatch (ops : List BoolOp) : Prop := ∀ op ∈ ops, ∀ rows, op ≠ .batch rows

/-- BOOLEAN, per-value path (`writeBoolean`, used by the reflection/typed row writers), every
    history with `Reset`s, every content of the recycled backing array: the bytes `Page().Data()`
    hands to the filter are exactly the LSB-first packing of the values written since the last
    `Reset`, the padding bits of the last byte are zero (`clearTrailingBits`). -/
theorem boolean_buffer_is_packBits (junk : UInt8) : ∀ (ops : List BoolOp) (st : BoolBuf) (vs : List Bool),
    NoBatch ops → BoolRel st vs →
    BoolRel (ops.foldl (BoolBuf.step junk) st) (ops.foldl boolSpecStep vs)
  | [], _, _, _, h => h
  | op :: ops, st, vs, hnb, h => by
    simp only [List.foldl_cons]
    apply boolean_buffer_is_packBits junk ops _ _ (fun o ho => hnb o (by simp [ho]))
    cases op with
    | one b => exact writeBoolean_rel st vs b junk h
    | batch rows => exact absurd rfl (hnb (.batch rows) (by simp) rows)
    | reset => exact ⟨rfl, rfl⟩

example : NoBatch [.one true, .reset, .one false, .one true] := by
  intro op hop rows; simp at hop; rcases hop with rfl | rfl | rfl | rfl <;> simp

-- The batch path `writeValues` (byte-align merge + `sparse.GatherBits` + tail loop) is proved in
-- `Props/C07PageDataBatch.lean` (`writeValues_rel`, `boolean_buffer_is_packBits_all`: no `NoBatch`).

/-- Consequence for the filter: for every such history, the read-side hash of every value in the
    buffer is inserted, each hash at most once, and nothing but `hash(false)`/`hash(true)`. -/
theorem boolean_buffer_hashes (junk : UInt8) (ops : List BoolOp) (hnb : NoBatch ops) (b : Bool)
    (hm : b ∈ ops.foldl boolSpecStep []) :
    hashBool b ∈ hashWriteStaged (ops.foldl (BoolBuf.step junk) BoolBuf.empty).data := by
  have := boolean_buffer_is_packBits junk ops BoolBuf.empty [] hnb ⟨rfl, rfl⟩
  simp only [BoolBuf.data, hashWriteStaged, this.1]
  exact encodeBoolean_covers _ b hm

theorem boolean_hashes_nodup (bits : List UInt8) : (hashWriteStaged (.boolean bits)).Nodup := by
  simp only [hashWriteStaged, encodeBooleanHashes]
  have hne : hashBool false ≠ hashBool true := by decide
  split <;> split <;> simp [hne]

/-- The padding is the only source of a hash nobody wrote, and it needs an incomplete last byte: when the
    number of values is a multiple of 8, the inserted hashes are exactly those of written values. -/
theorem boolean_full_bytes_exact (vs : List Bool) (hfull : vs.length % 8 = 0) (h : UInt64)
    (hh : h ∈ hashWriteStaged (.boolean (packBits vs))) : ∃ b ∈ vs, h = hashBool b := by
  have hun : unpackAll (packBits vs) = vs := by
    have := unpack_pack vs
    have hl : (unpackAll (packBits vs)).length = vs.length := by
      have hk := packBits_length_full vs (vs.length / 8) (by omega)
      simp only [unpackAll, List.length_flatMap, byteBits, List.length_map, List.length_range]
      have : ∀ (l : List UInt8), (l.map (fun _ => 8)).sum = 8 * l.length := by
        intro l; induction l with
        | nil => rfl
        | cons a l ih => simp [ih]; omega
      rw [this, hk]; omega
    rw [← hl, List.take_length] at this
    exact this
  simp only [hashWriteStaged, encodeBooleanHashes, List.mem_append] at hh
  have bitOf : ∀ (byte : UInt8), byte ∈ packBits vs → ∀ b, b ∈ byteBits byte → b ∈ vs := by
    intro byte hb b hbb
    rw [← hun]; exact List.mem_flatMap.mpr ⟨byte, hb, hbb⟩
  have hasFalse : ∀ byte : UInt8, byte ≠ 0xFF → false ∈ byteBits byte := by
    intro byte; have : ∀ k : Fin 256, UInt8.ofNat k.val ≠ 0xFF → false ∈ byteBits (UInt8.ofNat k.val) := by decide +kernel
    have e : byte = UInt8.ofNat byte.toNat := by simp
    rw [e]; exact this ⟨byte.toNat, UInt8.toNat_lt byte⟩
  have hasTrue : ∀ byte : UInt8, byte ≠ 0x00 → true ∈ byteBits byte := by
    intro byte; have : ∀ k : Fin 256, UInt8.ofNat k.val ≠ 0x00 → true ∈ byteBits (UInt8.ofNat k.val) := by decide +kernel
    have e : byte = UInt8.ofNat byte.toNat := by simp
    rw [e]; exact this ⟨byte.toNat, UInt8.toNat_lt byte⟩
  rcases hh with hh | hh
  · split at hh
    · rename_i hany
      rcases List.any_eq_true.mp hany with ⟨byte, hb, hne⟩
      simp at hh
      exact ⟨false, bitOf byte hb false (hasFalse byte (by simpa using hne)), hh⟩
    · simp at hh
  · split at hh
    · rename_i hany
      rcases List.any_eq_true.mp hany with ⟨byte, hb, hne⟩
      simp at hh
      exact ⟨true, bitOf byte hb true (hasTrue byte (by simpa using hne)), hh⟩
    · simp at hh

/-- … and with an incomplete last byte the padding does add `hash(false)`: three `true`s. -/
theorem boolean_padding_adds_false :
    hashBool false ∈ hashWriteStaged (BoolBuf.empty.writeValues [true, true, true] 0xAA).data ∧
      false ∉ [true, true, true] := by decide

/-! ## 3. sliced boolean pages: `Data()` ignores the bit offset -/

/-- `booleanPage.Slice` keeps whole bytes and records the bit offset; `Data()` returns the bytes.
    The values of the slice are covered, but so are the neighbours' bits: page of 16 values, row 8 is `false`,
    rows 9..16 are all `true`, and the slice's `Data()` makes the filter insert `hash(false)`. (The column
    writer never feeds a sliced page to the filter: `writeDataPage` only sees `columnBuffer.Page()`.) -/
theorem sliced_boolean_data_has_foreign_bits :
    let p := (BoolBuf.empty.writeValues (List.replicate 8 true ++ false :: List.replicate 7 true) 0).page.slice 9 16
    p.values = List.replicate 7 true ∧ p.offset = 1 ∧
      hashBool false ∈ hashWriteStaged p.data := by decide

end PqModel.Props.C07PageData
