/-! # C12, fifth part — a converted row group keeps every source column its conversion reads

`ConvertRowGroup(...).Rows()` reads the rows of the source row group through a copy in which the
source columns the conversion does not need are MASKED (replaced by a stand-in chunk yielding one
placeholder per row), then converts them. For a column the target ADDS `Convert` stores as
source index the closest leaf sibling of the source group (its levels are the template of the
added column), so that sibling is read although no target column of that path exists: when the
target also drops it, only the un-masking loop `columns[conv.Column(i)] = rowGroupColumns[...]`
keeps it readable.

`unmasked`, `reads` are MIRRORS (convert.go:709-760 `maskMissingRowGroupColumns`, the loop over
the target columns; convert.go `conversion.Convert`, the loop over `c.columns` reading
`sourceIndex`); `readMasked` mirrors what the masked copy serves. A target column is the pair
`(conv.Column(i), the column's path is missing in the source)`. The flag `skipAdded` is the slip
of seed C12-6a ("added columns have no pages to load"). -/
namespace PqModel.Props.C12AddDrop

/-- one target column: `conv.Column(i)` (`none` = -1) and whether its path is missing in the source -/
abbrev TCol := Option Nat × Bool

/-- MIRROR convert.go:734-741: the source columns left un-masked. -/
def unmasked (skipAdded : Bool) (cols : List TCol) : List Nat :=
  cols.filterMap (fun c => if skipAdded && c.2 then none else c.1)

/-- MIRROR `conversion.Convert`: the source columns whose values and levels the conversion reads. -/
def reads (cols : List TCol) : List Nat :=
  cols.filterMap (·.1)

/-- MIRROR of the masked row group: column `j` as served to the conversion. -/
def readMasked {α : Type} (keep : List Nat) (placeholder : Nat → α) (src : Nat → α) (j : Nat) : α :=
  if j ∈ keep then src j else placeholder j

/-- Every source column the conversion reads is un-masked — added columns included. -/
theorem mask_keeps_every_column_read (cols : List TCol) (j : Nat) (h : j ∈ reads cols) :
    j ∈ unmasked false cols := by
  simpa [reads, unmasked] using h

/-- Hence converting through the masked copy is converting the source rows: for every function of
    the source columns that depends on the columns read only (what `conversion.Convert` is), every
    placeholder content and every source. -/
theorem masked_conversion_is_conversion {α β : Type} (cols : List TCol)
    (conv : (Nat → α) → β)
    (hconv : ∀ s s' : Nat → α, (∀ j, j ∈ reads cols → s j = s' j) → conv s = conv s')
    (placeholder src : Nat → α) :
    conv (readMasked (unmasked false cols) placeholder src) = conv src := by
  apply hconv
  intro j hj
  simp [readMasked, mask_keeps_every_column_read cols j hj]

/-- non-vacuity: source columns a(0), b(1); the target keeps b and adds x next to them (template:
    a), and drops a. The conversion "list the columns read" depends on the columns read only. -/
example :
    let cols : List TCol := [(some 1, false), (some 0, true)]
    (∀ s s' : Nat → Nat, (∀ j, j ∈ reads cols → s j = s' j) →
      (reads cols).map s = (reads cols).map s') ∧ reads cols = [1, 0] ∧ unmasked false cols = [1, 0] := by
  refine ⟨?_, by decide, by decide⟩
  intro s s' h
  exact List.map_congr_left (fun j hj => h j hj)

/-- The slip of seed C12-6a (skip the un-masking for columns the target adds): with a target that
    adds a column and drops its template sibling the conversion reads a masked column — it sees the
    placeholder (one null per row) instead of the sibling's levels. -/
theorem skip_added_masks_the_template_sibling :
    let cols : List TCol := [(some 1, false), (some 0, true)]
    0 ∈ reads cols ∧ 0 ∉ unmasked true cols ∧
      readMasked (unmasked true cols) (fun _ => 0) (fun j => j + 7) 0 ≠ (fun j => j + 7) 0 := by
  decide

/-- Add-only targets do not show the slip (the template is selected by the target as well): why
    "source + new field" tests never see it. -/
theorem skip_added_unseen_without_drop :
    let cols : List TCol := [(some 0, false), (some 1, false), (some 0, true)]
    ∀ j, j ∈ reads cols → j ∈ unmasked true cols := by
  decide

end PqModel.Props.C12AddDrop
