import PqModel.Stats
import PqModel.LevelStats

/-! # C05 — Statistics and page indexes bound the data they describe

Every theorem is about the MIRRORS of `PqModel/Stats.lean` / `PqModel/Trunc.lean` (transliterations of
`Bounds`, `recordPageStats`, the column indexers, `truncateLarge{Min,Max}ByteArrayValue`, `orderOf*`,
`boundaryOrderOf`) and holds for every `Lawful` column order (signed/unsigned ints, IEEE floats on bit
patterns with NaN excluded, unsigned lexicographic bytes, signed decimal FLBA), every page, every
number of pages. The mirrors follow the REPAIRED code; the mirrors of the code before each fix and the negations proved on
them are kept as regression facts (`…_before_fix`). -/
namespace PqModel.Props.C05
open PqModel PqModel.Stats

/-! ## the orders are column orders -/

/-- every column order the library defines is a lawful order: INT32/INT64 and DECIMAL on them (`sint`),
    UINT_8..64 logical types (`uint`), FLOAT/DOUBLE with NaN excluded (`float`), BYTE_ARRAY / FLBA / be128 /
    UUID / INTERVAL-as-FLBA (`bytes`), DECIMAL on FLBA (`decimalFixed`) and on BYTE_ARRAY (`decimalBinary`),
    INT96 (`int96`), BOOLEAN (`boolOrder`). The library has no FLOAT16 type. -/
theorem orders_lawful :
    (∀ w, Lawful (sint w)) ∧ (∀ w, Lawful (uint w)) ∧ (∀ e m, Lawful (float e m)) ∧
    Lawful Stats.bytes ∧ Lawful decimalFixed ∧ Lawful decimalBinary ∧ Lawful int96 ∧
    Lawful (ofKey (fun b : Bool => if b then 1 else 0) (fun _ => false)) :=
  ⟨sint_lawful, uint_lawful, float_lawful, bytes_lawful, decimalFixed_lawful, decimalBinary_lawful, int96_lawful,
   ofKey_lawful _ _⟩

/-- the library's comparison functions ARE these orders: `Int96.Less` is the signed 96-bit order, and
    `compareDecimalByteArrays` on equal widths is the sign-flipped unsigned byte order (mixed widths and the
    numeric kinds are tied by the differential check `c05.cmp`). -/
theorem orders_mirror :
    (∀ a b : I96, (a.1 < 2 ^ 32 ∧ a.2.1 < 2 ^ 32 ∧ a.2.2 < 2 ^ 32) → (b.1 < 2 ^ 32 ∧ b.2.1 < 2 ^ 32 ∧ b.2.2 < 2 ^ 32) →
      int96Less a b = int96.lt a b) ∧
    (∀ a b : List Nat, a.length = b.length → (∀ x ∈ a, x ≤ 255) → (∀ x ∈ b, x ≤ 255) →
      decide (cmpDecimal a b < 0) = decimalFixed.lt a b) :=
  ⟨int96Less_eq, cmpDecimal_fixed⟩

example : int96Less (0, 0, 0x80000000) (5, 0, 0) = true ∧ cmpDecimal [0xff, 0x00] [0x00, 0x01] = -1 := by decide

/-! ## page bounds -/

/-- `Bounds()` of a page (float/double mirror, the most general one; `none` = null value): if the page
    holds a non-null non-NaN value then min and max are attained by non-null non-NaN values of the page
    and `min ≤ v ≤ max` for EVERY non-null non-NaN value `v` of the page. -/
theorem pageBounds_bound {α} {o : ColOrder α} (h : Lawful o) (vals : List (Option α))
    (hex : ∃ v, some v ∈ vals ∧ o.ok v = true) :
    ∃ mn mx, (pageStats o vals).bounds = some (mn, mx) ∧
      some mn ∈ vals ∧ some mx ∈ vals ∧ o.ok mn = true ∧ o.ok mx = true ∧
      ∀ v, some v ∈ vals → o.ok v = true → o.lt v mn = false ∧ o.lt mx v = false := by
  have hmem : ∀ v, v ∈ nonNull vals ↔ some v ∈ vals := by
    intro v; simp [nonNull, List.mem_filterMap]
  obtain ⟨v0, hv0, hv0ok⟩ := hex
  obtain ⟨mn, mx, hb, hib⟩ := boundsNaN_isBounds h (nonNull vals) ⟨v0, (hmem v0).mpr hv0, hv0ok⟩
  exact ⟨mn, mx, hb, (hmem mn).mp hib.min_mem, (hmem mx).mp hib.max_mem, hib.min_ok, hib.max_ok,
    fun v hv hok => ⟨hib.lower v ((hmem v).mpr hv) hok, hib.upper v ((hmem v).mpr hv) hok⟩⟩

example : ∃ v, some v ∈ [none, some 0x7fc00000#32, some 0xbf800000#32, some 0x00000000#32] ∧ f32.ok v = true :=
  ⟨0xbf800000#32, by decide, by decide⟩
-- NaN first, then -1.0 and +0.0: bounds are (-1.0, +0.0)
example : (pageStats f32 [none, some 0x7fc00000#32, some 0xbf800000#32, some 0x00000000#32]).bounds
    = some (0xbf800000#32, 0x00000000#32) := by decide

/-- the integer / FLBA loops (`boundsInt32`, …, `boundsFixedLenByteArray`) and the byte-array `switch`
    loop compute the same pair as the general mirror, so `pageBounds_bound` covers them. -/
theorem pageBounds_kernels {α} {o : ColOrder α} (h : Lawful o) (hok : ∀ v, o.ok v = true) (xs : List α) :
    bounds o.lt xs = boundsNaN o xs ∧ boundsSwitch o.lt xs = boundsNaN o xs :=
  ⟨(boundsNaN_eq_bounds o hok xs).symm, by rw [boundsSwitch_eq_bounds h, boundsNaN_eq_bounds o hok]⟩

/-- all-NaN page (at least one non-null value, all NaN): both bounds are the first value, a NaN -/
theorem pageBounds_allNaN {α} (o : ColOrder α) (vals : List (Option α)) (x0 : α) (xt : List α)
    (hnn : nonNull vals = x0 :: xt) (hall : ∀ v ∈ x0 :: xt, o.ok v = false) :
    (pageStats o vals).bounds = some (x0, x0) := by
  simp only [pageStats, hnn]
  exact boundsNaN_allNaN o x0 xt hall

/-- null counts, value counts and the null-page flag are the real counts; a page has no bounds
    exactly when it is a null page -/
theorem nullCounts_exact {α} (o : ColOrder α) (vals : List (Option α)) :
    (pageStats o vals).numValues = vals.length ∧
    (pageStats o vals).numNulls = vals.countP (· = none) ∧
    ((pageStats o vals).nullPage = true ↔ ∀ v ∈ vals, v = none) ∧
    ((pageStats o vals).bounds = none ↔ ∀ v ∈ vals, v = none) := by
  refine ⟨rfl, ?_, ?_, ?_⟩
  · simp only [pageStats, List.countP_eq_length_filter]
    congr 1
    apply List.filter_congr
    intro x _; cases x <;> simp
  · simp only [pageStats, beq_iff_eq]
    constructor
    · intro hl v hv
      have := (List.length_filter_eq_length_iff (p := Option.isNone) (l := vals)).mp hl.symm v hv
      cases v with
      | none => rfl
      | some _ => simp at this
    · intro hall
      have : vals.filter Option.isNone = vals := List.filter_eq_self.mpr (fun v hv => by simp [hall v hv])
      rw [this]
  · simp only [pageStats]
    constructor
    · intro hb v hv
      cases v with
      | none => rfl
      | some x =>
        have hx : x ∈ nonNull vals := by simp [nonNull, List.mem_filterMap, hv]
        cases hn : nonNull vals with
        | nil => rw [hn] at hx; simp at hx
        | cons x0 xt =>
          rw [hn] at hb
          simp only [boundsNaN] at hb
          split at hb <;> simp at hb
    · intro hall
      have : nonNull vals = [] := by
        simp only [nonNull, List.filterMap_eq_nil_iff]
        intro v hv; simp [hall v hv]
      rw [this]; rfl

/-! ## chunk statistics -/

/-- REGRESSION FACT (`recordPageStats` before the fix): the chunk min/max bounded every non-null non-NaN
    value only provided the FIRST page that has bounds is not an all-NaN page. -/
theorem fold_bound_before_fix {α} {o : ColOrder α} (h : Lawful o) (pgs : List (List (Option α)))
    (p0 : α × α) (pt : List (α × α))
    (hps : pairsOf (pgs.map (fun vals => (pageStats o vals).bounds)) = p0 :: pt)
    (hfirst : o.ok p0.1 = true ∧ o.ok p0.2 = true) :
    ∃ cmn cmx, foldChunk_before_fix o.lt (pgs.map (fun vals => (pageStats o vals).bounds)) = some (cmn, cmx) ∧
      o.ok cmn = true ∧ o.ok cmx = true ∧
      (∃ vals ∈ pgs, some cmn ∈ vals) ∧ (∃ vals ∈ pgs, some cmx ∈ vals) ∧
      ∀ vals ∈ pgs, ∀ v, some v ∈ vals → o.ok v = true → o.lt v cmn = false ∧ o.lt cmx v = false := by
  obtain ⟨cmn, cmx, hf, hokmn, hokmx, hmn, hmx, hlow, hup⟩ := foldChunk_before_fix_spec h _ p0 pt hps hfirst
  -- every pair of `pairsOf` is the bounds of some page
  have hpair : ∀ p ∈ pairsOf (pgs.map (fun vals => (pageStats o vals).bounds)),
      ∃ vals ∈ pgs, (pageStats o vals).bounds = some p := by
    intro p hp
    simp only [pairsOf, List.mem_filterMap, List.mem_map, id] at hp
    obtain ⟨b, ⟨vals, hv, hb⟩, hbp⟩ := hp
    exact ⟨vals, hv, by rw [hb, hbp]⟩
  -- a page with an ok value has ok bounds that are in `pairsOf`
  have hin : ∀ vals ∈ pgs, ∀ mn mx, (pageStats o vals).bounds = some (mn, mx) →
      (mn, mx) ∈ pairsOf (pgs.map (fun vals => (pageStats o vals).bounds)) := by
    intro vals hv mn mx hb
    simp only [pairsOf, List.mem_filterMap, List.mem_map, id]
    exact ⟨some (mn, mx), ⟨vals, hv, hb⟩, rfl⟩
  -- ok bounds of a page are attained in that page
  have hatt : ∀ vals, ∀ mn mx, (pageStats o vals).bounds = some (mn, mx) → o.ok mn = true →
      some mn ∈ vals ∧ (o.ok mx = true → some mx ∈ vals) := by
    intro vals mn mx hb hmnok
    have hmem : ∀ v, v ∈ nonNull vals ↔ some v ∈ vals := by
      intro v; simp [nonNull, List.mem_filterMap]
    by_cases hex : ∃ v, some v ∈ vals ∧ o.ok v = true
    · obtain ⟨mn', mx', hb', h1, h2, _⟩ := pageBounds_bound h vals hex
      rw [hb] at hb'
      simp only [Option.some.injEq, Prod.mk.injEq] at hb'
      exact ⟨hb'.1 ▸ h1, fun _ => hb'.2 ▸ h2⟩
    · -- all NaN: bounds are (x0, x0) with x0 not ok, contradiction with ok mn
      exfalso
      simp only [pageStats] at hb
      cases hn : nonNull vals with
      | nil => rw [hn] at hb; simp [boundsNaN] at hb
      | cons x0 xt =>
        have hall : ∀ v ∈ x0 :: xt, o.ok v = false := by
          intro v hv
          cases hc : o.ok v with
          | false => rfl
          | true => exact absurd ⟨v, (hmem v).mp (hn ▸ hv), hc⟩ hex
        rw [hn, boundsNaN_allNaN o x0 xt hall] at hb
        simp only [Option.some.injEq, Prod.mk.injEq] at hb
        have := hall x0 (by simp)
        rw [hb.1] at this
        simp [this] at hmnok
  refine ⟨cmn, cmx, hf, hokmn, hokmx, ?_, ?_, ?_⟩
  · obtain ⟨p, hp, hpe⟩ := List.mem_map.mp hmn
    obtain ⟨vals, hv, hb⟩ := hpair p hp
    obtain ⟨pmn, pmx⟩ := p
    simp only at hpe; subst hpe
    exact ⟨vals, hv, (hatt vals pmn pmx hb hokmn).1⟩
  · obtain ⟨p, hp, hpe⟩ := List.mem_map.mp hmx
    obtain ⟨vals, hv, hb⟩ := hpair p hp
    obtain ⟨pmn, pmx⟩ := p
    simp only at hpe; subst hpe
    -- bounds of a page are both ok or both NaN
    by_cases hex : ∃ v, some v ∈ vals ∧ o.ok v = true
    · obtain ⟨mn', mx', hb', _, h2, _⟩ := pageBounds_bound h vals hex
      rw [hb] at hb'
      simp only [Option.some.injEq, Prod.mk.injEq] at hb'
      exact ⟨vals, hv, hb'.2 ▸ h2⟩
    · exfalso
      have hmem : ∀ v, v ∈ nonNull vals ↔ some v ∈ vals := by
        intro v; simp [nonNull, List.mem_filterMap]
      simp only [pageStats] at hb
      cases hn : nonNull vals with
      | nil => rw [hn] at hb; simp [boundsNaN] at hb
      | cons x0 xt =>
        have hall : ∀ v ∈ x0 :: xt, o.ok v = false := by
          intro v hv
          cases hc : o.ok v with
          | false => rfl
          | true => exact absurd ⟨v, (hmem v).mp (hn ▸ hv), hc⟩ hex
        rw [hn, boundsNaN_allNaN o x0 xt hall] at hb
        simp only [Option.some.injEq, Prod.mk.injEq] at hb
        have := hall x0 (by simp)
        rw [hb.2] at this
        simp [this] at hokmx
  · intro vals hv v hvin hvok
    obtain ⟨mn, mx, hb, _, _, hmnok, hmxok, hbd⟩ := pageBounds_bound h vals ⟨v, hvin, hvok⟩
    have hp := hin vals hv mn mx hb
    have h1 := hlow (mn, mx) hp hmnok
    have h2 := hup (mn, mx) hp hmxok
    obtain ⟨hvmn, hmxv⟩ := hbd v hvin hvok
    simp only at h1 h2
    constructor
    · cases hc : o.lt v cmn with
      | false => rfl
      | true =>
        rcases h.negtrans v mn cmn hmnok hc with h' | h'
        · simp [h'] at hvmn
        · simp [h'] at h1
    · cases hc : o.lt cmx v with
      | false => rfl
      | true =>
        rcases h.negtrans cmx mx v hmxok hc with h' | h'
        · simp [h'] at h2
        · simp [h'] at hmxv

/-- `recordPageStats`: as soon as the chunk holds a non-null non-NaN value, the chunk min/max are non-NaN,
    attained by values of the chunk, and bound every non-null non-NaN value of every page — whatever the
    position of null pages and all-NaN pages. -/
theorem fold_bound {α} {o : ColOrder α} (h : Lawful o) (pgs : List (List (Option α)))
    (hex : ∃ vals ∈ pgs, ∃ v, some v ∈ vals ∧ o.ok v = true) :
    ∃ cmn cmx, foldChunk o (pgs.map (fun vals => (pageStats o vals).bounds)) = some (cmn, cmx) ∧
      o.ok cmn = true ∧ o.ok cmx = true ∧
      (∃ vals ∈ pgs, some cmn ∈ vals) ∧ (∃ vals ∈ pgs, some cmx ∈ vals) ∧
      ∀ vals ∈ pgs, ∀ v, some v ∈ vals → o.ok v = true → o.lt v cmn = false ∧ o.lt cmx v = false := by
  -- a page with an ok value has ok, attained bounds that are in `pairsOf`
  have hin : ∀ vals ∈ pgs, ∀ mn mx, (pageStats o vals).bounds = some (mn, mx) →
      (mn, mx) ∈ pairsOf (pgs.map (fun vals => (pageStats o vals).bounds)) := by
    intro vals hv mn mx hb
    simp only [pairsOf, List.mem_filterMap, List.mem_map, id]
    exact ⟨some (mn, mx), ⟨vals, hv, hb⟩, rfl⟩
  obtain ⟨vals0, hv0, v0, hv0in, hv0ok⟩ := hex
  obtain ⟨mn0, mx0, hb0, _, _, hmn0ok, hmx0ok, _⟩ := pageBounds_bound h vals0 ⟨v0, hv0in, hv0ok⟩
  have hp0 := hin vals0 hv0 mn0 mx0 hb0
  obtain ⟨cmn, cmx, hf, hokmn, hokmx, hmn, hmx, hlow, hup⟩ :=
    foldChunk_spec h _ ⟨(mn0, mx0), hp0, hmn0ok⟩ ⟨(mn0, mx0), hp0, hmx0ok⟩
  -- every pair of `pairsOf` is the bounds of some page
  have hpair : ∀ p ∈ pairsOf (pgs.map (fun vals => (pageStats o vals).bounds)),
      ∃ vals ∈ pgs, (pageStats o vals).bounds = some p := by
    intro p hp
    simp only [pairsOf, List.mem_filterMap, List.mem_map, id] at hp
    obtain ⟨b, ⟨vals, hv, hb⟩, hbp⟩ := hp
    exact ⟨vals, hv, by rw [hb, hbp]⟩
  -- an ok bound of a page is a value of that page
  have hatt : ∀ vals, ∀ mn mx, (pageStats o vals).bounds = some (mn, mx) →
      (o.ok mn = true → some mn ∈ vals) ∧ (o.ok mx = true → some mx ∈ vals) := by
    intro vals mn mx hb
    have hmem : ∀ v, v ∈ nonNull vals ↔ some v ∈ vals := by
      intro v; simp [nonNull, List.mem_filterMap]
    by_cases hex : ∃ v, some v ∈ vals ∧ o.ok v = true
    · obtain ⟨mn', mx', hb', h1, h2, _⟩ := pageBounds_bound h vals hex
      rw [hb] at hb'
      simp only [Option.some.injEq, Prod.mk.injEq] at hb'
      exact ⟨fun _ => hb'.1 ▸ h1, fun _ => hb'.2 ▸ h2⟩
    · simp only [pageStats] at hb
      cases hn : nonNull vals with
      | nil => rw [hn] at hb; simp [boundsNaN] at hb
      | cons x0 xt =>
        have hall : ∀ v ∈ x0 :: xt, o.ok v = false := by
          intro v hv
          cases hc : o.ok v with
          | false => rfl
          | true => exact absurd ⟨v, (hmem v).mp (hn ▸ hv), hc⟩ hex
        rw [hn, boundsNaN_allNaN o x0 xt hall] at hb
        simp only [Option.some.injEq, Prod.mk.injEq] at hb
        have hx0 := hall x0 (by simp)
        constructor
        · intro hok; rw [← hb.1, hx0] at hok; simp at hok
        · intro hok; rw [← hb.2, hx0] at hok; simp at hok
  refine ⟨cmn, cmx, hf, hokmn, hokmx, ?_, ?_, ?_⟩
  · obtain ⟨p, hp, hpe⟩ := List.mem_map.mp hmn
    obtain ⟨vals, hv, hb⟩ := hpair p hp
    obtain ⟨pmn, pmx⟩ := p
    simp only at hpe; subst hpe
    exact ⟨vals, hv, (hatt vals pmn pmx hb).1 hokmn⟩
  · obtain ⟨p, hp, hpe⟩ := List.mem_map.mp hmx
    obtain ⟨vals, hv, hb⟩ := hpair p hp
    obtain ⟨pmn, pmx⟩ := p
    simp only at hpe; subst hpe
    exact ⟨vals, hv, (hatt vals pmn pmx hb).2 hokmx⟩
  · intro vals hv v hvin hvok
    obtain ⟨mn, mx, hb, _, _, hmnok, hmxok, hbd⟩ := pageBounds_bound h vals ⟨v, hvin, hvok⟩
    have hp := hin vals hv mn mx hb
    have h1 := hlow (mn, mx) hp hmnok
    have h2 := hup (mn, mx) hp hmxok
    obtain ⟨hvmn, hmxv⟩ := hbd v hvin hvok
    simp only at h1 h2
    constructor
    · cases hc : o.lt v cmn with
      | false => rfl
      | true =>
        rcases h.negtrans v mn cmn hmnok hc with h' | h'
        · simp [h'] at hvmn
        · simp [h'] at h1
    · cases hc : o.lt cmx v with
      | false => rfl
      | true =>
        rcases h.negtrans cmx mx v hmxok hc with h' | h'
        · simp [h'] at h2
        · simp [h'] at hmxv

-- all-NaN first page, then 1.0 and 3.0: the repaired fold yields (1.0, 3.0)
example : foldChunk f32 ([[some 0x7fc00000#32], [some 0x3f800000#32, some 0x40400000#32]].map
    (fun vals => (pageStats f32 vals).bounds)) = some (0x3f800000#32, 0x40400000#32) := by decide

-- hypotheses satisfiable (before-fix form): two int32 pages, the first one with a null
example : pairsOf ([[some 3#32, none, some 1#32], [some 0xfffffffb#32]].map (fun vals => (pageStats (sint 32) vals).bounds))
    = (1#32, 3#32) :: [(0xfffffffb#32, 0xfffffffb#32)] := by decide
example : foldChunk (sint 32) ([[some 3#32, none, some 1#32], [some 0xfffffffb#32]].map
    (fun vals => (pageStats (sint 32) vals).bounds)) = some (0xfffffffb#32, 3#32) := by decide

/-- REGRESSION FACT, negation on the mirror of the code before the fix (finding `chunk-stats-nan-sticky`):
    when the first page with bounds is an all-NaN float page, the chunk statistics stayed NaN although
    later pages hold 1.0 and 3.0. -/
theorem fold_nan_first_page_sticks_before_fix :
    foldChunk_before_fix f32.lt ([[some 0x7fc00000#32], [some 0x3f800000#32, some 0x40400000#32]].map
      (fun vals => (pageStats f32 vals).bounds)) = some (0x7fc00000#32, 0x7fc00000#32) := by decide

/-! ## truncation of byte-array bounds in the column index -/

/-- the truncated min is a lower bound of the value, for every value and limit -/
theorem truncMin_le (v : List Nat) (n : Nat) : Trunc.lexLe (truncMin v n) v = true := Trunc.truncMin_le v n

/-- REGRESSION FACT (code before the fix): the truncated max was an upper bound EXACTLY under this
    hypothesis: nothing is truncated or the kept prefix has a byte other than 0xFF -/
theorem truncMax_ge_before_fix (v : List Nat) (n : Nat) (hb : ∀ b ∈ v, b ≤ 255)
    (hyp : v.length ≤ n ∨ ∃ b ∈ v.take n, b ≠ 255) : Trunc.lexLe v (truncMax_before_fix v n) = true := by
  simp only [truncMax_before_fix, Trunc.truncMaxBuggy]
  split
  · rename_i hlen
    have hnc : (Trunc.incr (v.take n)).2 = false := by
      cases hc : (Trunc.incr (v.take n)).2 with
      | false => rfl
      | true =>
        have hall := (incr_carry_iff (v.take n)).mp hc
        rcases hyp with hyp | ⟨b, hbm, hbne⟩
        · omega
        · exact absurd (hall b hbm) hbne
    have := Trunc.incr_gt (v.take n) (v.drop n) (fun b hb' => hb b (List.mem_of_mem_take hb')) hnc
    cases hi : Trunc.incr (v.take n) with
    | mk r c =>
      rw [hi] at hnc this
      simp only at hnc
      subst hnc
      simpa [List.take_append_drop] using this
  · exact Trunc.lexLe_refl v

example : (∀ b ∈ [1, 255, 255, 7], b ≤ 255) ∧ (∃ b ∈ [1, 255, 255, 7].take 3, b ≠ 255) := by decide
example : truncMax_before_fix [1, 255, 255, 7] 3 = [2, 0, 0] := by decide

/-- REGRESSION FACT, the negation on the mirror of the code before the fix (finding
    `truncmax-all-ff-prefix`, F2): whenever the value is truncated and the kept prefix is all 0xFF, the
    recorded max was strictly below the value. -/
theorem truncMax_lt_of_allFF_before_fix (v : List Nat) (n : Nat) (hlen : n < v.length)
    (hff : ∀ b ∈ v.take n, b = 255) : Trunc.lexLe v (truncMax_before_fix v n) = false := by
  rw [truncMax_before_fix_allFF v n hlen hff]
  exact lexLe_take_strict v n hlen

/-- the concrete witness of F2: six 0xFF bytes, limit 4 -/
theorem truncMax_witness_before_fix :
    truncMax_before_fix [255, 255, 255, 255, 255, 255] 4 = [255, 255, 255, 255] ∧
    Trunc.lexLe [255, 255, 255, 255, 255, 255] (truncMax_before_fix [255, 255, 255, 255, 255, 255] 4) = false := by decide

/-- the truncated max (mirror of the repaired `truncateLargeMaxByteArrayValue`: keep the untruncated value
    when the increment overflows) is an upper bound of the value, for every value and limit -/
theorem truncMax_ge (v : List Nat) (n : Nat) (hb : ∀ b ∈ v, b ≤ 255) :
    Trunc.lexLe v (truncMax v n) = true := Trunc.truncMaxFixed_ge v n hb

example : truncMax [255, 255, 255, 255, 255, 255] 4 = [255, 255, 255, 255, 255, 255] := by decide

/-! ## boundary order -/

/-- General form: the order is computed over ALL stored entries (null pages included, as the indexers
    do). If the claim is ASCENDING (1) then the entries of the non-null pages are sorted ascending, if
    DESCENDING (2) sorted descending — for mins and for maxs. Sound direction: sorted over the stored
    superset ⇒ sorted over the non-null subset. Needs every stored entry to take part in the order
    (no NaN bound: see `boundaryOrder_nan_page_false`). -/
theorem boundaryOrder_sound_entries {α β} {o : ColOrder α} (h : Lawful o) (pages : List (Option β))
    (mins maxs : List α) (hl1 : mins.length = pages.length) (hl2 : maxs.length = pages.length)
    (hok : ∀ x ∈ mins ++ maxs, o.ok x = true) :
    (boundaryOrderOf (orderOf o.lt mins) (orderOf o.lt maxs) = 1 →
      (nonNullOf pages mins).Pairwise (fun a b => o.lt b a = false) ∧
      (nonNullOf pages maxs).Pairwise (fun a b => o.lt b a = false)) ∧
    (boundaryOrderOf (orderOf o.lt mins) (orderOf o.lt maxs) = 2 →
      (nonNullOf pages mins).Pairwise (fun a b => o.lt a b = false) ∧
      (nonNullOf pages maxs).Pairwise (fun a b => o.lt a b = false)) := by
  have hokm : ∀ x ∈ mins, o.ok x = true := fun x hx => hok x (List.mem_append_left _ hx)
  have hokx : ∀ x ∈ maxs, o.ok x = true := fun x hx => hok x (List.mem_append_right _ hx)
  constructor
  · intro hbo
    obtain ⟨heq, hpos⟩ := boundaryOrderOf_one hbo
    have hasc1 : isAscBy o.lt mins = true := by
      rcases orderOf_cases o.lt mins with ⟨_, h1⟩ | ⟨h1, _⟩ | h1
      · exact h1
      · omega
      · omega
    have hasc2 : isAscBy o.lt maxs = true := by
      rcases orderOf_cases o.lt maxs with ⟨_, h1⟩ | ⟨h1, _⟩ | h1
      · exact h1
      · omega
      · omega
    exact ⟨nonNullOf_pairwise _ pages mins hl1 (isAscBy_pairwise h mins hokm hasc1),
           nonNullOf_pairwise _ pages maxs hl2 (isAscBy_pairwise h maxs hokx hasc2)⟩
  · intro hbo
    obtain ⟨heq, hneg⟩ := boundaryOrderOf_two hbo
    have hd1 : isDescBy o.lt mins = true := by
      rcases orderOf_cases o.lt mins with ⟨h1, _⟩ | ⟨_, h1⟩ | h1
      · omega
      · exact h1
      · omega
    have hd2 : isDescBy o.lt maxs = true := by
      rcases orderOf_cases o.lt maxs with ⟨h1, _⟩ | ⟨_, h1⟩ | h1
      · omega
      · exact h1
      · omega
    exact ⟨nonNullOf_pairwise _ pages mins hl1 (isDescBy_pairwise h mins hokm hd1),
           nonNullOf_pairwise _ pages maxs hl2 (isDescBy_pairwise h maxs hokx hd2)⟩

/-- REGRESSION FACT (numeric indexers before the NaN fix): the claim was only sound when no stored bound is
    NaN (hypotheses `hz`, `hok`). -/
theorem boundaryOrder_sound_before_fix {α} {o : ColOrder α} (h : Lawful o) (z : α) (pages : List (Option (α × α)))
    (hz : o.ok z = true) (hok : ∀ p ∈ pairsOf pages, o.ok p.1 = true ∧ o.ok p.2 = true) :
    (indexOrder_before_fix o z pages = 1 →
      (nonNullMins pages).Pairwise (fun a b => o.lt b a = false) ∧
      (nonNullMaxs pages).Pairwise (fun a b => o.lt b a = false)) ∧
    (indexOrder_before_fix o z pages = 2 →
      (nonNullMins pages).Pairwise (fun a b => o.lt a b = false) ∧
      (nonNullMaxs pages).Pairwise (fun a b => o.lt a b = false)) := by
  have hstored : ∀ x ∈ storedMins z pages ++ storedMaxs z pages, o.ok x = true := by
    intro x hx
    simp only [List.mem_append, storedMins, storedMaxs, List.mem_map] at hx
    rcases hx with ⟨p, hp, hx⟩ | ⟨p, hp, hx⟩
    · cases p with
      | none => simpa [← hx] using hz
      | some q =>
        have := (hok q (by simp [pairsOf, List.mem_filterMap]; exact hp)).1
        simpa [← hx] using this
    · cases p with
      | none => simpa [← hx] using hz
      | some q =>
        have := (hok q (by simp [pairsOf, List.mem_filterMap]; exact hp)).2
        simpa [← hx] using this
  have := boundaryOrder_sound_entries h pages (storedMins z pages) (storedMaxs z pages)
    (by simp [storedMins]) (by simp [storedMaxs]) hstored
  rw [nonNullOf_storedMins, nonNullOf_storedMaxs] at this
  exact this

/-- numeric indexers, int and float (null pages stored as the zero value `z`; no order claimed when a stored
    bound is NaN): a claimed ASCENDING / DESCENDING order is true of the mins and of the maxs of the non-null
    pages. No hypothesis beyond the order being lawful. -/
theorem boundaryOrder_sound {α} {o : ColOrder α} (h : Lawful o) (z : α) (pages : List (Option (α × α))) :
    (indexOrder o z pages = 1 →
      (nonNullMins pages).Pairwise (fun a b => o.lt b a = false) ∧
      (nonNullMaxs pages).Pairwise (fun a b => o.lt b a = false)) ∧
    (indexOrder o z pages = 2 →
      (nonNullMins pages).Pairwise (fun a b => o.lt a b = false) ∧
      (nonNullMaxs pages).Pairwise (fun a b => o.lt a b = false)) := by
  unfold indexOrder
  by_cases hg : ((storedMins z pages).all o.ok && (storedMaxs z pages).all o.ok) = true
  · rw [if_pos hg]
    simp only [Bool.and_eq_true, List.all_eq_true] at hg
    have hstored : ∀ x ∈ storedMins z pages ++ storedMaxs z pages, o.ok x = true := by
      intro x hx
      rcases List.mem_append.mp hx with hx | hx
      · exact hg.1 x hx
      · exact hg.2 x hx
    have := boundaryOrder_sound_entries h pages (storedMins z pages) (storedMaxs z pages)
      (by simp [storedMins]) (by simp [storedMaxs]) hstored
    rw [nonNullOf_storedMins, nonNullOf_storedMaxs] at this
    exact this
  · rw [if_neg hg]
    exact ⟨fun h0 => by simp at h0, fun h0 => by simp at h0⟩

example : indexOrder (sint 32) 0#32 [some (0xfffffffb#32, 0xfffffffd#32), none, some (7#32, 9#32)] = 1 := by decide

/-- the other direction is NOT sound (and not needed): non-null pages sorted, but the zero stored for the
    null page breaks the run, so the writer claims UNORDERED. Harmless for readers. -/
theorem boundaryOrder_incomplete :
    indexOrder (sint 32) 0#32 [some (0xfffffffb#32, 0xfffffffd#32), none, some (0xfffffffe#32, 0xffffffff#32)] = 0 := by
  decide

/-- byte-array indexer: the claim is about the TRUNCATED entries, which is what a reader sees -/
theorem boundaryOrder_sound_bytes (lim : Nat) (pages : List (Option (List Nat × List Nat))) :
    (bytesIndexOrder lim pages = 1 →
      (nonNullOf pages (bytesIndexMins lim pages)).Pairwise (fun a b => lexLt b a = false) ∧
      (nonNullOf pages (bytesIndexMaxs lim pages)).Pairwise (fun a b => lexLt b a = false)) ∧
    (bytesIndexOrder lim pages = 2 →
      (nonNullOf pages (bytesIndexMins lim pages)).Pairwise (fun a b => lexLt a b = false) ∧
      (nonNullOf pages (bytesIndexMaxs lim pages)).Pairwise (fun a b => lexLt a b = false)) := by
  have e1 : ∀ xs : List (List Nat), orderOfBytes xs = 1 → xs.Pairwise (fun a b => lexLt b a = false) := orderOfBytes_asc
  have e2 : ∀ xs : List (List Nat), orderOfBytes xs = -1 → xs.Pairwise (fun a b => lexLt a b = false) := orderOfBytes_desc
  have hr : ∀ xs : List (List Nat), orderOfBytes xs = 1 ∨ orderOfBytes xs = -1 ∨ orderOfBytes xs = 0 := by
    intro xs
    unfold orderOfBytes
    split
    · simp
    · split
      · split
        · split <;> simp
        · split
          · split <;> simp
          · simp
      · simp
  constructor
  · intro hbo
    obtain ⟨heq, hpos⟩ := boundaryOrderOf_one hbo
    have h1 : orderOfBytes (bytesIndexMins lim pages) = 1 := by
      rcases hr (bytesIndexMins lim pages) with h | h | h <;> omega
    have h2 : orderOfBytes (bytesIndexMaxs lim pages) = 1 := by omega
    exact ⟨nonNullOf_pairwise _ pages _ (by simp [bytesIndexMins, storedMins]) (e1 _ h1),
           nonNullOf_pairwise _ pages _ (by simp [bytesIndexMaxs, storedMaxs]) (e1 _ h2)⟩
  · intro hbo
    obtain ⟨heq, hneg⟩ := boundaryOrderOf_two hbo
    have h1 : orderOfBytes (bytesIndexMins lim pages) = -1 := by
      rcases hr (bytesIndexMins lim pages) with h | h | h <;> omega
    have h2 : orderOfBytes (bytesIndexMaxs lim pages) = -1 := by omega
    exact ⟨nonNullOf_pairwise _ pages _ (by simp [bytesIndexMins, storedMins]) (e2 _ h1),
           nonNullOf_pairwise _ pages _ (by simp [bytesIndexMaxs, storedMaxs]) (e2 _ h2)⟩

example : bytesIndexOrder 2 [some ([1, 2, 3], [1, 2, 9]), none, some ([1, 3], [4])] = 0 := by decide
example : bytesIndexOrder 2 [none, some ([1, 2, 3], [1, 2, 9]), some ([1, 3], [4])] = 1 := by decide

/-- boolean indexer (`orderOfBool` streak scan; null pages stored as `false`) -/
theorem boundaryOrder_sound_bool (pages : List (Option (Bool × Bool))) :
    (boolIndexOrder pages = 1 →
      (nonNullMins pages).Pairwise (fun a b => boolLt b a = false) ∧
      (nonNullMaxs pages).Pairwise (fun a b => boolLt b a = false)) ∧
    (boolIndexOrder pages = 2 →
      (nonNullMins pages).Pairwise (fun a b => boolLt a b = false) ∧
      (nonNullMaxs pages).Pairwise (fun a b => boolLt a b = false)) := by
  have hr := orderOfBool_range
  rw [← nonNullOf_storedMins false, ← nonNullOf_storedMaxs false]
  constructor
  · intro hbo
    obtain ⟨heq, hpos⟩ := boundaryOrderOf_one hbo
    have h1 : orderOfBool (storedMins false pages) = 1 := by
      rcases hr (storedMins false pages) with h | h | h <;> omega
    have h2 : orderOfBool (storedMaxs false pages) = 1 := by omega
    exact ⟨nonNullOf_pairwise _ pages _ (by simp [storedMins]) ((orderOfBool_sound _).1 h1),
           nonNullOf_pairwise _ pages _ (by simp [storedMaxs]) ((orderOfBool_sound _).1 h2)⟩
  · intro hbo
    obtain ⟨heq, hneg⟩ := boundaryOrderOf_two hbo
    have h1 : orderOfBool (storedMins false pages) = -1 := by
      rcases hr (storedMins false pages) with h | h | h <;> omega
    have h2 : orderOfBool (storedMaxs false pages) = -1 := by omega
    exact ⟨nonNullOf_pairwise _ pages _ (by simp [storedMins]) ((orderOfBool_sound _).2 h1),
           nonNullOf_pairwise _ pages _ (by simp [storedMaxs]) ((orderOfBool_sound _).2 h2)⟩

example : boolIndexOrder [some (false, false), none, some (false, true), some (true, true)] = 1 := by decide

/-- REGRESSION FACT, negation on the mirror of the code before the fix (finding
    `boundary-order-false-nan-page`): pages (5,7), all-NaN, (1,3) of a FLOAT column were claimed ASCENDING
    because every comparison with the NaN bounds is false. -/
theorem boundaryOrder_nan_page_false_before_fix :
    indexOrder_before_fix f32 0#32 [some (0x40a00000#32, 0x40e00000#32), some (0x7fc00000#32, 0x7fc00000#32),
      some (0x3f800000#32, 0x40400000#32)] = 1 ∧
    f32.lt 0x3f800000#32 0x40a00000#32 = true := by decide

-- the repaired float indexer claims nothing on that input
example : indexOrder f32 0#32 [some (0x40a00000#32, 0x40e00000#32), some (0x7fc00000#32, 0x7fc00000#32),
      some (0x3f800000#32, 0x40400000#32)] = 0 := by decide

/-- REGRESSION FACT, negation on the mirror of the code before fix 0506fde (finding
    `flba-null-page-index-short`, F6): a FIXED_LEN_BYTE_ARRAY(2) column with pages value / null / value got 2 min
    entries for 3 pages, and the entry of page 2 sat at index 1. The be128 indexer dropped null entries too. -/
theorem flba_index_short_before_fix :
    flbaIndexMins_before_fix 2 16 [some ([1, 2], [1, 2]), none, some ([3, 4], [3, 4])] = [[1, 2], [3, 4]] ∧
    be128IndexMins_before_fix [some ([1, 2], [1, 2]), none, some ([3, 4], [3, 4])] = [[1, 2], [3, 4]] := by decide

/-- FIXED_LEN_BYTE_ARRAY / be128 indexers (as repaired: one entry per page, null pages store zero bytes):
    the lists are aligned with the pages and a claimed order is true of the entries of the non-null pages. -/
theorem boundaryOrder_sound_flba (size lim : Nat) (pages : List (Option (List Nat × List Nat))) :
    (flbaIndexMins size lim pages).length = pages.length ∧ (flbaIndexMaxs size lim pages).length = pages.length ∧
    (flbaIndexOrder size lim pages = 1 →
      (nonNullOf pages (flbaIndexMins size lim pages)).Pairwise (fun a b => lexLt b a = false) ∧
      (nonNullOf pages (flbaIndexMaxs size lim pages)).Pairwise (fun a b => lexLt b a = false)) ∧
    (flbaIndexOrder size lim pages = 2 →
      (nonNullOf pages (flbaIndexMins size lim pages)).Pairwise (fun a b => lexLt a b = false) ∧
      (nonNullOf pages (flbaIndexMaxs size lim pages)).Pairwise (fun a b => lexLt a b = false)) := by
  have l1 : (flbaIndexMins size lim pages).length = pages.length := by simp [flbaIndexMins, storedMins]
  have l2 : (flbaIndexMaxs size lim pages).length = pages.length := by simp [flbaIndexMaxs, storedMaxs]
  have hr : ∀ xs : List (List Nat), orderOfBytes xs = 1 ∨ orderOfBytes xs = -1 ∨ orderOfBytes xs = 0 := by
    intro xs
    unfold orderOfBytes
    split
    · simp
    · split
      · split
        · split <;> simp
        · split
          · split <;> simp
          · simp
      · simp
  refine ⟨l1, l2, ?_, ?_⟩
  · intro hbo
    obtain ⟨heq, hpos⟩ := boundaryOrderOf_one hbo
    have h1 : orderOfBytes (flbaIndexMins size lim pages) = 1 := by
      rcases hr (flbaIndexMins size lim pages) with h | h | h <;> omega
    have h2 : orderOfBytes (flbaIndexMaxs size lim pages) = 1 := by omega
    exact ⟨nonNullOf_pairwise _ pages _ l1 (orderOfBytes_asc _ h1), nonNullOf_pairwise _ pages _ l2 (orderOfBytes_asc _ h2)⟩
  · intro hbo
    obtain ⟨heq, hneg⟩ := boundaryOrderOf_two hbo
    have h1 : orderOfBytes (flbaIndexMins size lim pages) = -1 := by
      rcases hr (flbaIndexMins size lim pages) with h | h | h <;> omega
    have h2 : orderOfBytes (flbaIndexMaxs size lim pages) = -1 := by omega
    exact ⟨nonNullOf_pairwise _ pages _ l1 (orderOfBytes_desc _ h1), nonNullOf_pairwise _ pages _ l2 (orderOfBytes_desc _ h2)⟩

example : flbaIndexMins 2 16 [some ([1, 2], [1, 2]), none, some ([3, 4], [3, 4])] = [[1, 2], [0, 0], [3, 4]] := by decide

/-! ## level histograms and size statistics -/

open PqModel.LevelStats in
/-- `histogram_exact`: for levels within `0..maxLevel` (what the Dremel shredder produces) the page histogram
    has `maxLevel+1` buckets, bucket `l` is the number of entries with level `l`, and the buckets sum to the
    number of entries (= num_values of the page). -/
theorem histogram_exact (maxLevel : Nat) (levels : List Nat) (hb : ∀ x ∈ levels, x ≤ maxLevel) :
    (pageHist maxLevel levels).length = maxLevel + 1 ∧
    (∀ l, (pageHist maxLevel levels).getD l 0 = levels.count l) ∧
    (pageHist maxLevel levels).sum = levels.length :=
  pageHist_spec maxLevel levels hb

example : PqModel.LevelStats.pageHist 2 [0, 2, 2, 1, 2] = [1, 1, 3] := by decide

open PqModel.LevelStats in
/-- chunk level: the chunk histogram (SizeStatistics) is the pointwise sum of the page histograms = the counts
    over all pages, it sums to the chunk's num_values, and the flat list stored in the column index is the
    concatenation of the page histograms, `maxLevel+1` entries per page. -/
theorem chunkHistogram_exact (maxLevel : Nat) (pages : List (List Nat)) (hb : ∀ p ∈ pages, ∀ x ∈ p, x ≤ maxLevel) :
    (∀ l, (chunkHists maxLevel pages).1.getD l 0 = (pages.map (fun p => (pageHist maxLevel p).getD l 0)).sum) ∧
    (∀ l, (chunkHists maxLevel pages).1.getD l 0 = pages.flatten.count l) ∧
    (chunkHists maxLevel pages).1.sum = (pages.map List.length).sum ∧
    (chunkHists maxLevel pages).2 = pages.flatMap (pageHist maxLevel) ∧
    (chunkHists maxLevel pages).2.length = pages.length * (maxLevel + 1) := by
  have hfl : ∀ x ∈ pages.flatten, x ≤ maxLevel := by
    intro x hx
    obtain ⟨p, hp, hxp⟩ := List.mem_flatten.mp hx
    exact hb p hp x hxp
  obtain ⟨_, hcount, hsum⟩ := pageHist_spec maxLevel pages.flatten hfl
  refine ⟨fun l => ?_, fun l => ?_, ?_, chunkHists_snd maxLevel pages, ?_⟩
  · rw [chunkHists_fst, hcount l, sum_page_counts maxLevel l pages hb]
  · rw [chunkHists_fst, hcount l]
  · rw [chunkHists_fst, hsum, List.length_flatten]
  · rw [chunkHists_snd, flatMap_pageHist_length maxLevel pages hb]

example : PqModel.LevelStats.chunkHists 1 [[1, 0, 1], [0, 0]] = ([3, 2], [1, 2, 2, 0]) := by decide

open PqModel.LevelStats in
/-- `unencoded_byte_array_data_bytes` of a chunk is the total length of its non-null byte-array values, page by
    page, dictionary-encoded or not. -/
theorem unencodedBytes_exact (pages : List (List (List Nat))) :
    chunkUnencoded pages = (pages.map (fun p => (p.map List.length).sum)).sum := by
  unfold chunkUnencoded
  rw [chunkUnencoded_fold, Nat.zero_add]
  rfl

/-- REGRESSION FACT (before the fix): a dictionary-encoded page of "abc","abc","de" counted 0 bytes, not 8 -/
theorem unencodedBytes_dict_before_fix :
    PqModel.LevelStats.pageUnencoded_before_fix true [[97, 98, 99], [97, 98, 99], [100, 101]] = 0 ∧
    PqModel.LevelStats.pageUnencoded [[97, 98, 99], [97, 98, 99], [100, 101]] = 8 := by decide

/-! ## statistics copied verbatim by `WriteRowGroup` -/

/-- The verbatim copy path is the identity on the pages and on every statistic of the chunk (it only rebases
    page offsets), so a sound source record stays sound in the destination file: every copied min/max, null
    count and null-page flag still describes the copied pages. -/
theorem copy_sound {α} {o : ColOrder α} (c : ChunkRecord α) (srcOff dstOff : Nat) (h : c.Sound o) :
    (copyVerbatim c srcOff dstOff).Sound o ∧ (copyVerbatim c srcOff dstOff).offsets.length = c.offsets.length :=
  ⟨{ aligned := h.aligned, nulls := h.nulls, nullPage := h.nullPage, bound := h.bound,
     chunkBound := h.chunkBound, chunkNullsExact := h.chunkNullsExact }, by simp [copyVerbatim]⟩

/-- `ChunkRecord.Sound` is satisfiable, and is what `pageBounds_bound` / `fold_bound` / `nullCounts_exact` give for
    a chunk written by the (repaired) writer: one int32 page with a null. -/
example : ({ pages := [[some 3#32, none]], index := [some (3#32, 3#32)], nullCounts := [1], chunk := some (3#32, 3#32),
             chunkNulls := 1, offsets := [4] } : ChunkRecord (BitVec 32)).Sound (sint 32) where
  aligned := by decide
  nulls := by
    intro i vals h
    cases i with
    | zero => simp at h; subst h; decide
    | succ i => simp at h
  nullPage := by
    intro i vals h
    cases i with
    | zero => simp at h; subst h; decide
    | succ i => simp at h
  bound := by
    intro i vals mn mx h hi v hv _
    cases i with
    | zero =>
      simp at h hi; subst h; obtain ⟨h1, h2⟩ := hi; subst h1; subst h2
      simp at hv; subst hv; decide
    | succ i => simp at h
  chunkBound := by
    intro mn mx hc vals hv v hvin _
    simp at hc hv; obtain ⟨h1, h2⟩ := hc; subst h1; subst h2; subst hv
    simp at hvin; subst hvin; decide
  chunkNullsExact := by decide

/-! ## a reader that skips by this metadata never skips a matching row -/

/-- For ANY recorded bounds `(rmn, rmx)` that bound the non-null non-NaN values of a page (page bounds,
    truncated index entries, chunk statistics): a reader that drops the page for probe `v` because
    `v < rmn ∨ rmx < v` drops no value equal to `v` (equal = neither below nor above, so `-0.0`
    matches `+0.0`). -/
theorem skip_safe {α} {o : ColOrder α} (h : Lawful o) (vals : List (Option α)) (rmn rmx v : α)
    (hb : ∀ x, some x ∈ vals → o.ok x = true → o.lt x rmn = false ∧ o.lt rmx x = false)
    (hskip : o.lt v rmn = true ∨ o.lt rmx v = true) :
    ∀ x, some x ∈ vals → o.ok x = true → o.lt v x = true ∨ o.lt x v = true := by
  intro x hx hxok
  obtain ⟨h1, h2⟩ := hb x hx hxok
  rcases hskip with hs | hs
  · rcases h.negtrans v x rmn hxok hs with h' | h'
    · exact Or.inl h'
    · simp [h'] at h1
  · rcases h.negtrans rmx x v hxok hs with h' | h'
    · simp [h'] at h2
    · exact Or.inr h'

/-- `skip_safe` instantiated with the bounds `Bounds()` computes -/
theorem skip_safe_pageBounds {α} {o : ColOrder α} (h : Lawful o) (vals : List (Option α)) (mn mx v : α)
    (hbounds : (pageStats o vals).bounds = some (mn, mx))
    (hskip : o.lt v mn = true ∨ o.lt mx v = true) :
    ∀ x, some x ∈ vals → o.ok x = true → o.lt v x = true ∨ o.lt x v = true := by
  apply skip_safe h vals mn mx v _ hskip
  intro x hx hxok
  obtain ⟨mn', mx', hb', _, _, _, _, hbd⟩ := pageBounds_bound h vals ⟨x, hx, hxok⟩
  rw [hbounds] at hb'
  simp only [Option.some.injEq, Prod.mk.injEq] at hb'
  rw [hb'.1, hb'.2]
  exact hbd x hx hxok

/-- `skip_safe` through truncation: page of byte strings, index entries `truncMin mn n` and
    `truncMax mx n` (with the code's `truncMax_before_fix` this needs the hypothesis of `truncMax_ge`). -/
theorem skip_safe_truncated (vals : List (Option (List Nat))) (mn mx v : List Nat) (n : Nat)
    (hbytes : ∀ b ∈ mx, b ≤ 255)
    (hb : ∀ x, some x ∈ vals → lexLt x mn = false ∧ lexLt mx x = false)
    (hskip : lexLt v (truncMin mn n) = true ∨ lexLt (truncMax mx n) v = true) :
    ∀ x, some x ∈ vals → lexLt v x = true ∨ lexLt x v = true := by
  have hl := bytes_lawful
  intro x hx
  have := skip_safe hl vals (truncMin mn n) (truncMax mx n) v (by
    intro y hy _
    obtain ⟨h1, h2⟩ := hb y hy
    constructor
    · -- truncMin mn n ≤ mn ≤ y
      cases hc : Stats.bytes.lt y (truncMin mn n) with
      | false => rfl
      | true =>
        rcases hl.negtrans y mn (truncMin mn n) rfl hc with h' | h'
        · simp only [Stats.bytes] at h'; simp [h'] at h1
        · have := truncMin_le mn n
          simp only [Stats.bytes, lexLt] at h'; simp [this] at h'
    · cases hc : Stats.bytes.lt (truncMax mx n) y with
      | false => rfl
      | true =>
        rcases hl.negtrans (truncMax mx n) mx y rfl hc with h' | h'
        · have := truncMax_ge mx n hbytes
          simp only [Stats.bytes, lexLt] at h'; simp [this] at h'
        · simp only [Stats.bytes] at h'; simp [h'] at h2) hskip x hx rfl
  exact this

example : lexLt [9] (truncMin [9, 9, 9] 2) = true ∨ lexLt (truncMax [9, 9, 9] 2) [9, 10, 0] = true := by decide

end PqModel.Props.C05
