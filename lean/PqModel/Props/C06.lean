import PqModel.Search

/-! # C06 — Page search by value never misses a page that contains the value -/
namespace PqModel.Props.C06
open PqModel.Search

theorem binarySearch_first_no_null_pages {ix mn mx} (h : Ascending ix mn mx) (v : Int) :
    binarySearch ix v ≤ ix.n ∧
    (binarySearch ix v < ix.n → contains ix (binarySearch ix v) v = true) ∧
    (∀ i, i < ix.n → contains ix i v = true → binarySearch ix v ≤ i) :=
  binarySearch_first h v

end PqModel.Props.C06
