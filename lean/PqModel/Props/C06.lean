import PqModel.SearchMulti
import PqModel.SearchNaN
import PqModel.SearchPages
import PqModel.SearchPagesF

/-! # C06 — Page search by value never misses a page that contains the value

`binarySearch`, `linearSearch`, `find` are MIRRORS of search.go (after the F1 repair: `Find` falls back
to the linear search when the index has a null page). Values are ranks in a linear order (`Int`);
`none` = the null bound of a null page, compared nulls-last as `Search` does. -/
namespace PqModel.Props.C06
open PqModel.Search

theorem binarySearch_first_no_null_pages (nf : Bool) {ix mn mx} (h : Ascending ix mn mx) (v : Int) :
    binarySearch nf ix v ≤ ix.n ∧
    (binarySearch nf ix v < ix.n → contains nf ix (binarySearch nf ix v) v = true) ∧
    (∀ i, i < ix.n → contains nf ix i v = true → binarySearch nf ix v ≤ i) :=
  binarySearch_first nf h v

example : Ascending { mins := [some (-5), some 7], maxs := [some (-3), some 9] }
    (fun i => if i = 0 then -5 else 7) (fun i => if i = 0 then -3 else 9) where
  len := rfl
  mins := by intro i hi; have : i = 0 ∨ i = 1 := by simp [Index.n] at hi; omega
             rcases this with h | h <;> subst h <;> rfl
  maxs := by intro i hi; have : i = 0 ∨ i = 1 := by simp [Index.n] at hi; omega
             rcases this with h | h <;> subst h <;> rfl
  smin := by intro i j hij hj; simp [Index.n] at hj; split <;> split <;> omega
  smax := by intro i j hij hj; simp [Index.n] at hj; split <;> split <;> omega
  le := by intro i hi; split <;> omega

/-- `linearSearch` returns the first page whose bounds contain `v`, else `n` — for EVERY index: null
    pages anywhere (they contain nothing), any order, overlapping or duplicate bounds, ragged lists. -/
theorem linear_correct (nf : Bool) (ix : Index) (v : Int) :
    linearSearch nf ix v ≤ ix.n ∧
    (linearSearch nf ix v < ix.n → contains nf ix (linearSearch nf ix v) v = true) ∧
    (∀ i, i < ix.n → contains nf ix i v = true → linearSearch nf ix v ≤ i) :=
  linearSearch_first nf ix v

example : linearSearch false f1 8 = 2 ∧ linearSearch true f1 8 = 2 := by decide

/-- `find` (the repaired dispatch of `Find`) never misses, for every index and every flag, as long as the
    flag is truthful in the only case the dispatch relies on it: flagged ascending AND no null page ⇒
    the index is ascending. Result: `find ≤ p` for every page `p` whose bounds contain `v` (so it is
    the first such page), the returned page contains `v`, else `find = n`. -/
theorem find_no_miss (nf asc : Bool) (ix : Index) (v : Int)
    (htruth : asc = true → hasNull ix = false → ∃ mn mx, Ascending ix mn mx) :
    find nf asc ix v ≤ ix.n ∧
    (find nf asc ix v < ix.n → contains nf ix (find nf asc ix v) v = true) ∧
    (∀ p, p < ix.n → contains nf ix p v = true → find nf asc ix v ≤ p) := by
  unfold find
  by_cases hc : (asc && !hasNull ix) = true
  · rw [if_pos hc]
    simp only [Bool.and_eq_true, Bool.not_eq_true'] at hc
    obtain ⟨mn, mx, ha⟩ := htruth hc.1 hc.2
    exact binarySearch_first nf ha v
  · rw [if_neg hc]
    exact linearSearch_first nf ix v

-- the premise holds trivially for the F1 index (it has a null page): the dispatch goes linear
example : find false true f1 8 = 2 ∧ find true true f1 8 = 2 := by decide

/-- The flag is truthful for every index the WRITER builds: `asc` is "the indexer computed ASCENDING"
    (`writerOrder z ix = 1`, null pages stored as the zero value `z`), bounds lists have equal length and
    every non-null page has `min ≤ max`. No hypothesis on null pages, truncation or duplicates. -/
theorem find_no_miss_writer (nf : Bool) (z : Int) (ix : Index) (v : Int)
    (hlen : ix.maxs.length = ix.mins.length)
    (hle : ∀ i a b, i < ix.n → minAt ix i = some a → maxAt ix i = some b → a ≤ b) :
    let r := find nf (writerOrder z ix == 1) ix v
    r ≤ ix.n ∧ (r < ix.n → contains nf ix r v = true) ∧ (∀ p, p < ix.n → contains nf ix p v = true → r ≤ p) := by
  apply find_no_miss
  intro hasc hnn
  exact writerOrder_ascending z ix hlen (by simpa using hasc) hnn hle

example : writerOrder 0 f1 = 1 ∧ find false (writerOrder 0 f1 == 1) f1 8 = 2 := by decide

/-- The same for the byte-array indexers with a size limit, whose null-page placeholders are truncated with the
    bounds and therefore differ between the min list (`zn`) and the max list (`zx`): BYTE_ARRAY and
    FIXED_LEN_BYTE_ARRAY with `ColumnIndexSizeLimit`. Truncated bounds are just wider bounds (`hle`). -/
theorem find_no_miss_writer_truncating (nf : Bool) (zn zx : Int) (ix : Index) (v : Int)
    (hlen : ix.maxs.length = ix.mins.length)
    (hle : ∀ i a b, i < ix.n → minAt ix i = some a → maxAt ix i = some b → a ≤ b) :
    let r := find nf (writerOrder2 zn zx ix == 1) ix v
    r ≤ ix.n ∧ (r < ix.n → contains nf ix r v = true) ∧ (∀ p, p < ix.n → contains nf ix p v = true → r ≤ p) := by
  apply find_no_miss
  intro hasc hnn
  exact writerOrder2_ascending zn zx ix hlen (by simpa using hasc) hnn hle

-- FIXED_LEN_BYTE_ARRAY(2), limit 1, pages null, (01xx..01xx): the null page stores 00 / 01, the flag is ASCENDING
example : writerOrder2 0 1 { mins := [none, some 1], maxs := [none, some 2] } = 1 ∧
    find false (writerOrder2 0 1 { mins := [none, some 1], maxs := [none, some 2] } == 1)
      { mins := [none, some 1], maxs := [none, some 2] } 2 = 1 := by decide

/-- the dispatch before the repair (binary search whenever flagged ascending) misses: F1 -/
theorem findUnguarded_misses : contains false f1 2 8 = true ∧ findUnguarded false true f1 8 = 3 := by decide

/-- the index the writer emits for an optional INT32 column sorted descending with nulls first and all values
    negative: a null page, then (-1,-2), (-3,-5); flagged DESCENDING (null pages are stored as 0). `find` with
    the nulls-first ordering finds -4 in page 2: the linear search may not stop at the null page. -/
example : writerOrder 0 { mins := [none, some (-2), some (-5)], maxs := [none, some (-1), some (-3)] } = 2 ∧
    find true false { mins := [none, some (-2), some (-5)], maxs := [none, some (-1), some (-3)] } (-4) = 2 := by decide

/-! ## The column-index view `Find` is called on for several row groups: `multiColumnIndex`

`Chunk` = one chunk's column index as the `ColumnIndex` interface shows it (null-page flags, bounds, its own
ASCENDING / DESCENDING answers). MIRRORS (multi_row_group.go): `mapPage`/`mapPageGo` (page lookup through the
cumulative offsets), `multiView`, `multiViewNulls`, `multiIsAscending`, `multiIsDescending` (the seam loops of repair
5dcb05b; `…_before_fix` = the adjacent-pair loops they replaced), `findMultiGo`.
SPEC: `concat`, `concatNulls` (list concatenation), `Ascending`. -/

/-- MIRROR = SPEC: reading the multi index page by page through `mapPageIndex` gives exactly the concatenation
    of the chunk indexes — bounds and null-page flags — for any number of chunks and pages (empty chunks too). -/
theorem multi_view_is_concatenation (cs : List Chunk) (hwf : ∀ c ∈ cs, c.WF) :
    multiView cs = concat cs ∧ multiViewNulls cs = concatNulls cs :=
  multiView_eq_concat cs hwf

/-- The recomputed ASCENDING answer implies the sortedness `binarySearch_first` needs, across the chunk borders
    as well. Hypotheses: `hnull` is the guard of `Find` (no null page in any chunk); `hbnd`: a chunk without null
    page has no null bound (true of `FileColumnIndex`/`formatColumnIndex`, whose bounds are decoded from bytes);
    `hne`,`htruth`: a chunk that claims ASCENDING has a page and its stored bounds pass the adjacent-pair check
    (true of the writer's flag: `writerOrder_one`); `hle`: `min ≤ max` per page. -/
theorem multi_ascending_sound (z : Int) (cs : List Chunk)
    (hwf : ∀ c ∈ cs, c.WF)
    (hnull : (concatNulls cs).any id = false)
    (hbnd : ∀ c ∈ cs, c.nulls.any id = false → hasNull c.ix = false)
    (hne : ∀ c ∈ cs, c.asc = true → 0 < c.n)
    (htruth : ∀ c ∈ cs, c.asc = true →
      isAsc (c.ix.mins.map (stored z)) = true ∧ isAsc (c.ix.maxs.map (stored z)) = true)
    (hle : ∀ c ∈ cs, ∀ i a b, i < c.n → minAt c.ix i = some a → maxAt c.ix i = some b → a ≤ b)
    (hflag : multiIsAscending z cs = true) :
    ∃ mn mx, Ascending (concat cs) mn mx :=
  multiAscending_sound z cs hwf hnull hbnd hne htruth hle hflag

/-- `Find` on the multi index of chunks the WRITER indexed (each chunk's ASCENDING answer is the boundary order
    the indexer computed, null pages stored as the zero value `z`) never misses: it returns the first page of the
    concatenation whose bounds contain `v`, else the total number of pages. Any number of row groups, null pages
    anywhere, overlapping / touching / disjoint chunk ranges, truncated (widened) and duplicate bounds. -/
theorem find_no_miss_multi_writer (nf : Bool) (z : Int) (cs : List Chunk) (v : Int)
    (hwf : ∀ c ∈ cs, c.WF)
    (hbnd : ∀ c ∈ cs, c.nulls.any id = false → hasNull c.ix = false)
    (hflag : ∀ c ∈ cs, c.asc = (writerOrder z c.ix == 1))
    (hle : ∀ c ∈ cs, ∀ i a b, i < c.n → minAt c.ix i = some a → maxAt c.ix i = some b → a ≤ b) :
    let r := findMultiGo nf z cs v
    r ≤ (concat cs).n ∧ (r < (concat cs).n → contains nf (concat cs) r v = true) ∧
    (∀ p, p < (concat cs).n → contains nf (concat cs) p v = true → r ≤ p) := by
  apply findMulti_no_miss nf z cs v hwf hbnd
  · intro c hc ha
    have hw : writerOrder z c.ix = 1 := by simpa [hflag c hc] using ha
    have := (writerOrder_one z c.ix hw).2.2
    simp only [Chunk.n]; omega
  · intro c hc ha
    have hw : writerOrder z c.ix = 1 := by simpa [hflag c hc] using ha
    exact ⟨(writerOrder_one z c.ix hw).1, (writerOrder_one z c.ix hw).2.1⟩
  · exact hle

/-- two row groups of two pages, (0,9) (10,50) | (60,69) (70,80): the hypotheses hold and the multi index is ASCENDING -/
def mDisjoint : List Chunk :=
  [ { nulls := [false, false], ix := { mins := [some 0, some 10], maxs := [some 9, some 50] }, asc := true, desc := false },
    { nulls := [false, false], ix := { mins := [some 60, some 70], maxs := [some 69, some 80] }, asc := true, desc := false } ]

example : (∀ c ∈ mDisjoint, c.WF) ∧ (∀ c ∈ mDisjoint, c.asc = (writerOrder 0 c.ix == 1)) ∧
    (concatNulls mDisjoint).any id = false ∧ multiIsAscending 0 mDisjoint = true ∧
    findMultiGo false 0 mDisjoint 75 = 3 := by decide

-- the hypotheses of `find_no_miss_multi_writer` are satisfiable: it applies to `mDisjoint`
theorem mDisjoint_le : ∀ c ∈ mDisjoint, ∀ i a b, i < c.n → minAt c.ix i = some a → maxAt c.ix i = some b → a ≤ b := by
  intro c hc i a b hi ha hb
  simp only [mDisjoint, List.mem_cons, List.mem_nil_iff, or_false] at hc
  rcases hc with rfl | rfl <;>
  · simp only [Chunk.n, Index.n, List.length_cons, List.length_nil] at hi
    have : i = 0 ∨ i = 1 := by omega
    rcases this with rfl | rfl <;> simp [minAt, maxAt] at ha hb <;> omega

example := find_no_miss_multi_writer false 0 mDisjoint 75 (by decide) (by decide) (by decide) mDisjoint_le

/-- the layout of seeded change C06-3a, (0,9) (10,50) | (20,29) (30,60): each row group ascending, ranges overlap -/
def mOverlap : List Chunk :=
  [ { nulls := [false, false], ix := { mins := [some 0, some 10], maxs := [some 9, some 50] }, asc := true, desc := false },
    { nulls := [false, false], ix := { mins := [some 20, some 30], maxs := [some 29, some 60] }, asc := true, desc := false } ]

/-- the code's border check (max of the last page against min of the next first page) answers "not ascending",
    and `Find` (linear) returns page 1 for 50 -/
example : multiIsAscending 0 mOverlap = false ∧ findMultiGo false 0 mOverlap 50 = 1 := by decide

/-- A border check that compares the MIN of the last page with the min of the next first page ("pages may overlap as
    within a chunk") is not enough: the index is then claimed ascending and the binary search misses 50, held by page 1. -/
theorem border_check_on_min_misses :
    let crossMinMin : Chunk → Chunk → Bool := fun a b =>
      match lastNonNull a, firstNonNull b with
      | some i, some j => !decide (stored 0 (minAt a.ix i) > stored 0 (minAt b.ix j))
      | _, _ => true
    pairsAll crossMinMin mOverlap = true ∧ contains false (concat mOverlap) 1 50 = true ∧
    binarySearch false (concat mOverlap) 50 = 3 := by decide

/-- FINDING (before repair 78de8a3 in the sandbox clone): an EMPTY dictionary-encoded column buffer showed one page
    with null bounds that was NOT a null page (`indexedColumnIndex.NullPage` = false). Over the buffers (-5..-1),
    (empty), (10..12) the multi index is claimed ascending (the raw comparison reads the null bound as 0), `Find`'s
    null-page guard does not fire, and the binary search returns NumPages for 11, held by page 2. `hbnd` of
    `multi_ascending_sound` is exactly what this chunk violates. -/
theorem empty_dictionary_buffer_misses_before_fix :
    let cs : List Chunk :=
      [ { nulls := [false], ix := { mins := [some (-5)], maxs := [some (-1)] }, asc := true, desc := false },
        { nulls := [false], ix := { mins := [none], maxs := [none] }, asc := true, desc := false },
        { nulls := [false], ix := { mins := [some 10], maxs := [some 12] }, asc := true, desc := false } ]
    multiIsAscending 0 cs = true ∧ (concatNulls cs).any id = false ∧
    contains false (concat cs) 2 11 = true ∧ findMultiGo false 0 cs 11 = 3 := by decide

/-- the same buffers after the repair (the empty buffer's page is a null page): `Find` goes linear and finds page 2 -/
example :
    let cs : List Chunk :=
      [ { nulls := [false], ix := { mins := [some (-5)], maxs := [some (-1)] }, asc := true, desc := false },
        { nulls := [true], ix := { mins := [none], maxs := [none] }, asc := true, desc := false },
        { nulls := [false], ix := { mins := [some 10], maxs := [some 12] }, asc := true, desc := false } ]
    findMultiGo false 0 cs 11 = 2 := by decide

/-- REGRESSION FACT (before repair 5dcb05b; outside C06: `Find` never reads the DESCENDING answer): the old
    `multiColumnIndex.IsDescending` compared the FIRST page of a chunk with the LAST page of the next one, so
    (10,12) (1,2) | (8,9) (0,0) was claimed descending although the mins 10, 1, 8, 0 are not. The repaired loop
    (min of the last non-null page seen so far against the max of the next first one) answers false. -/
theorem multiIsDescending_unsound_before_fix :
    let cs : List Chunk :=
      [ { nulls := [false, false], ix := { mins := [some 10, some 1], maxs := [some 12, some 2] }, asc := false, desc := true },
        { nulls := [false, false], ix := { mins := [some 8, some 0], maxs := [some 9, some 0] }, asc := false, desc := true } ]
    multiIsDescending_before_fix 0 cs = true ∧ isDesc ((concat cs).mins.map (stored 0)) = false ∧
    multiIsDescending 0 cs = false := by decide

/-- REGRESSION FACT (before repair 5dcb05b): only ADJACENT chunks were compared and a chunk of null pages only was
    skipped on both sides, so (5,9) (10,12) | null null | (1,2) (3,4) was claimed ascending (`Find` was safe only
    through its null-page guard). The repaired loop carries the bound 12 across the null chunk and answers false. -/
theorem multiIsAscending_blind_across_null_chunk_before_fix :
    let cs : List Chunk :=
      [ { nulls := [false, false], ix := { mins := [some 5, some 10], maxs := [some 9, some 12] }, asc := true, desc := false },
        { nulls := [true, true], ix := { mins := [none, none], maxs := [none, none] }, asc := true, desc := false },
        { nulls := [false, false], ix := { mins := [some 1, some 3], maxs := [some 2, some 4] }, asc := true, desc := false } ]
    multiIsAscending_before_fix 0 cs = true ∧ multiIsAscending 0 cs = false ∧
    findMultiGo false 0 cs 3 = 5 ∧ findMultiGo true 0 cs 3 = 5 := by decide

/-- the repaired loops still accept what lines up: descending chunks (12,10) (9,8) | null | (7,7) (2,0) with a
    null chunk in between, and the ascending `mDisjoint` -/
example :
    let cs : List Chunk :=
      [ { nulls := [false, false], ix := { mins := [some 10, some 8], maxs := [some 12, some 9] }, asc := false, desc := true },
        { nulls := [true], ix := { mins := [none], maxs := [none] }, asc := true, desc := true },
        { nulls := [false, false], ix := { mins := [some 7, some 0], maxs := [some 7, some 2] }, asc := false, desc := true } ]
    multiIsDescending 0 cs = true ∧ multiIsAscending 0 mDisjoint = true := by decide

/-! ## C06 on the VALUES of the pages (`SearchPages.lean`)

The theorems above speak about recorded bounds. These start from what the pages hold: the index is built from
the values by the writer's steps (`indexOfPages`: null filter, `Page.Bounds`, `IndexPage`, boundary order), the
column order is the signed / unsigned comparison of bit patterns (`intKey`), and the conclusion is the property
as stated: a value held by page `p` is never answered with a page after `p`. -/

/-- For ANY bounds function that encloses the values in the column's order (`BoundsFor`: the contract of
    `Page.Bounds`, whichever kernel computes it): `Find` on the index built from the pages returns, for a value
    `x` of page `p`, a page `r ≤ p` whose recorded bounds contain `x`. Nulls anywhere, all-null pages, any number
    of pages and any arrangement of values; both null orderings of the compare function. -/
theorem find_no_miss_values {α} (nf : Bool) (z : Int) {bnd : List α → Option (α × α)} {key : α → Int}
    (hb : BoundsFor bnd key) (pages : List (List (Option α))) (p : Nat) (hp : p < pages.length) (x : α)
    (hx : some x ∈ pages.getD p []) :
    let ix := indexOfPages bnd key pages
    let r := find nf (writerOrder z ix == 1) ix (key x)
    r ≤ p ∧ r < ix.n ∧ contains nf ix r (key x) = true :=
  PqModel.Search.find_no_miss_values nf z hb pages p hp x hx

/-- The integer columns: INT32/INT64 (`signed = true`) and UINT32/UINT64 (`signed = false`) of width `w`, bounds
    by the portable loop (`Stats.bounds`, MIRROR of page_bounds_purego.go) in the column's own order. -/
theorem find_no_miss_int_values (nf signed : Bool) (w : Nat) (pages : List (List (Option (BitVec w)))) (p : Nat)
    (hp : p < pages.length) (x : BitVec w) (hx : some x ∈ pages.getD p []) :
    let ix := indexOfPages (intBounds signed w) (intKey signed w) pages
    let r := find nf (writerOrder 0 ix == 1) ix (intKey signed w x)
    r ≤ p ∧ r < ix.n ∧ contains nf ix r (intKey signed w x) = true :=
  PqModel.Search.find_no_miss_values nf 0 (intBounds_sound signed w) pages p hp x hx

/-- UINT64 pages sorted across 2^63 after an all-null page: flagged ASCENDING, searched linearly because of
    the null page, 2^63 + 5 found in page 2 (the hypotheses of `find_no_miss_int_values` are satisfiable) -/
def uPages : List (List (Option (BitVec 64))) :=
  [[none, none], [some 1#64, some 9223372036854775807#64], [some 9223372036854775808#64, some 9223372036854775813#64]]

example : writerOrder 0 (indexOfPages (intBounds false 64) (intKey false 64) uPages) = 1 ∧
    find false true (indexOfPages (intBounds false 64) (intKey false 64) uPages) (intKey false 64 9223372036854775813#64) = 2 := by
  decide

example := find_no_miss_int_values false false 64 uPages 2 (by decide) 9223372036854775813#64 (by decide)

/-- page_bounds_amd64.go picks a kernel by the length of the page (`boundsDispatch`): as long as every kernel
    encloses the values in the column's order, the threshold is irrelevant to `Find`. -/
theorem find_no_miss_dispatched_kernels {α} (nf : Bool) (z : Int) (t : Nat) {big small : List α → Option (α × α)}
    {key : α → Int} (hbig : BoundsFor big key) (hsmall : BoundsFor small key)
    (pages : List (List (Option α))) (p : Nat) (hp : p < pages.length) (x : α) (hx : some x ∈ pages.getD p []) :
    let ix := indexOfPages (boundsDispatch t big small) key pages
    let r := find nf (writerOrder z ix == 1) ix (key x)
    r ≤ p ∧ r < ix.n ∧ contains nf ix r (key x) = true :=
  PqModel.Search.find_no_miss_values nf z (BoundsFor.dispatch t hbig hsmall) pages p hp x hx

example := find_no_miss_dispatched_kernels false 0 32113 (intBounds_sound false 64) (intBounds_sound false 64)
  uPages 1 (by decide) 1#64 (by decide)

/-- Seeded change C06-4a on the model: pages of at least `t` values of a UINT64 column get their bounds from the
    SIGNED kernel (here `t = 2`; the library's threshold is 32113). The page {1, 2^63} is recorded with
    min = 2^63 > max = 1, no page's bounds contain its values and `Find` answers NumPages for 1. The signed kernel
    does not satisfy `BoundsFor` under the unsigned key — the hypothesis `find_no_miss_dispatched_kernels` needs. -/
theorem signed_kernel_on_unsigned_column_misses :
    let pages : List (List (Option (BitVec 64))) := [[some 1#64, some 9223372036854775808#64], [some 7#64]]
    let ix := indexOfPages (boundsDispatch 2 (intBounds true 64) (intBounds false 64)) (intKey false 64) pages
    ix.mins = [some 9223372036854775808, some 7] ∧ ix.maxs = [some 1, some 7] ∧
    find false (writerOrder 0 ix == 1) ix (intKey false 64 1#64) = 2 ∧
    find false (writerOrder 0 ix == 1) ix (intKey false 64 7#64) = 1 := by decide

theorem signed_kernel_not_sound_for_unsigned_key : ¬ BoundsFor (intBounds true 64) (intKey false 64) := by
  intro h
  have := h.encloses [1#64, 9223372036854775808#64] 9223372036854775808#64 1#64 (by decide) 1#64 (by simp)
  revert this
  decide

/-! ## FLOAT / DOUBLE indexes with NaN bounds (`SearchNaN.lean`)

`Type.Compare` of the float types answers 0 against NaN, so bounds are `FB` = null | NaN | rank and the mirrors
`findF`, `binarySearchF`, `linearSearchF`, `writerOrderF` repeat search.go / column_index.go over them. They
coincide with the rank mirrors when no bound is NaN (`findF_toF`, `ranks_toF`). -/

/-- `Find` never misses on the index the FLOAT/DOUBLE indexers build, NaN pages included: same statement as
    `find_no_miss_writer`, `containsF` = the bounds test under the float comparison (a NaN bound excludes nothing). -/
theorem find_no_miss_writer_float (nf : Bool) (z : Int) (ix : FIndex) (v : Int)
    (hlen : ix.maxs.length = ix.mins.length)
    (hle : ∀ i a b, i < ix.n → minAtF ix i = .val a → maxAtF ix i = .val b → a ≤ b) :
    let r := findF nf (writerOrderF z ix == 1) ix v
    r ≤ ix.n ∧ (r < ix.n → containsF nf ix r v = true) ∧ (∀ p, p < ix.n → containsF nf ix p v = true → r ≤ p) :=
  findF_no_miss_writer nf z ix v hlen hle (fun jx h1 h2 => find_no_miss_writer nf z jx v h1 h2)

/-- pages (5,7), all-NaN, (1,3): no order is claimed; `Find` returns a page at or before page 2 for the probe 2 -/
def fNaN : FIndex := { mins := [.val 5, .nan, .val 1], maxs := [.val 7, .nan, .val 3] }

example : writerOrderF 0 fNaN = 0 ∧ findF false (writerOrderF 0 fNaN == 1) fNaN 2 = 1 ∧
    containsF false fNaN 2 2 = true := by decide

-- the hypotheses of `find_no_miss_writer_float` are satisfiable: it applies to `fNaN`
example := find_no_miss_writer_float false 0 fNaN 2 (by decide) (by
  intro i a b hi ha hb
  simp only [fNaN, FIndex.n, List.length_cons, List.length_nil] at hi
  have : i = 0 ∨ i = 1 ∨ i = 2 := by omega
  rcases this with rfl | rfl | rfl <;> simp [fNaN, minAtF, maxAtF] at ha hb <;> omega)

/-- why the order claim must go: the binary search steps over the NaN page and misses page 2 (finding
    `boundary-order-false-nan-page`, repaired by 2854665) -/
theorem nan_page_binary_search_misses :
    containsF false fNaN 2 2 = true ∧ binarySearchF false fNaN 2 = 3 := by decide

/-- FLOAT / DOUBLE on the values (`SearchPagesF.lean`): pages of float bit patterns with NaN values among them,
    all-NaN pages and all-null pages, ANY bounds function keeping the float contract `BoundsForF` (bounds are values of
    the page; a bound that is not NaN encloses the non-NaN values on its side). A non-NaN value of page `p` is
    answered with a page `r ≤ p` whose recorded bounds contain it. -/
theorem find_no_miss_float_values {α} (nf : Bool) (z : Int) {bnd : List α → Option (α × α)} {key : α → Int}
    {nan : α → Bool} (hb : BoundsForF bnd key nan) (pages : List (List (Option α))) (p : Nat) (hp : p < pages.length)
    (x : α) (hx : some x ∈ pages.getD p []) (hxn : nan x = false) :
    let ix := indexOfPagesF bnd key nan pages
    let r := findF nf (writerOrderF z ix == 1) ix (key x)
    r ≤ p ∧ r < ix.n ∧ containsF nf ix r (key x) = true :=
  PqModel.Search.find_no_miss_float_values nf z hb pages p hp x hx hxn

/-- `floatPage.Bounds` / `doublePage.Bounds` (MIRROR `Stats.boundsNaN`: leading NaNs skipped, NaNs ignored, an all-NaN
    page reports a NaN pair) keeps the contract, for FLOAT (`e m = 8 23`) and DOUBLE (`11 52`) bit patterns -/
theorem float_bounds_keep_contract (e m : Nat) :
    BoundsForF (floatBounds e m) (PqModel.Stats.fKey e m) (PqModel.Stats.fIsNaN e m) :=
  floatBounds_sound e m

/-- DOUBLE pages {NaN, 1.0}, {NaN, NaN}, {-2.0, null}: bounds (1,1), (NaN,NaN), (-2,-2); no order is claimed, the
    linear search finds -2.0 in page 1 already (a NaN bound excludes nothing) — at or before page 2, as stated -/
def dPages : List (List (Option (BitVec 64))) :=
  [[some 0x7ff8000000000000#64, some 0x3ff0000000000000#64], [some 0x7ff8000000000000#64, some 0xfff8000000000001#64],
   [some 0xc000000000000000#64, none]]

example : (indexOfPagesF (floatBounds 11 52) (PqModel.Stats.fKey 11 52) (PqModel.Stats.fIsNaN 11 52) dPages).mins =
      [.val 4607182418800017408, .nan, .val (-4611686018427387904)] ∧
    writerOrderF 0 (indexOfPagesF (floatBounds 11 52) (PqModel.Stats.fKey 11 52) (PqModel.Stats.fIsNaN 11 52) dPages) = 0 ∧
    findF false false (indexOfPagesF (floatBounds 11 52) (PqModel.Stats.fKey 11 52) (PqModel.Stats.fIsNaN 11 52) dPages)
      (PqModel.Stats.fKey 11 52 0xc000000000000000#64) = 1 := by decide

example := find_no_miss_float_values false 0 (float_bounds_keep_contract 11 52) dPages 2 (by decide)
  0xc000000000000000#64 (by decide) (by decide)

end PqModel.Props.C06
