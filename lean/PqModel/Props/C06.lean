import PqModel.Search

/-! # C06 — Page search by value never misses a page that contains the value

`binarySearch`, `linearSearch`, `find` are MIRRORS of search.go (after the F1 repair: `Find` falls back
to the linear search when the index has a null page). Values are ranks in a linear order (`Int`);
`none` = the null bound of a null page, compared nulls-last as `Search` does. -/
namespace PqModel.Props.C06
open PqModel.Search

theorem binarySearch_first_no_null_pages (nf : Bool) {ix mn mx} (h : Ascending ix mn mx) (v : Int) :
    binarySearch nf ix v ≤ ix.n ∧
    (binarySearch nf ix v < ix.n → contains nf ix (binarySearch nf ix v) v = true) ∧
    (∀ i, i < ix.n → contains nf ix i v = true → binarySearch nf ix v ≤ i) :=
  binarySearch_first nf h v

example : Ascending { mins := [some (-5), some 7], maxs := [some (-3), some 9] }
    (fun i => if i = 0 then -5 else 7) (fun i => if i = 0 then -3 else 9) where
  len := rfl
  mins := by intro i hi; have : i = 0 ∨ i = 1 := by simp [Index.n] at hi; omega
             rcases this with h | h <;> subst h <;> rfl
  maxs := by intro i hi; have : i = 0 ∨ i = 1 := by simp [Index.n] at hi; omega
             rcases this with h | h <;> subst h <;> rfl
  smin := by intro i j hij hj; simp [Index.n] at hj; split <;> split <;> omega
  smax := by intro i j hij hj; simp [Index.n] at hj; split <;> split <;> omega
  le := by intro i hi; split <;> omega

/-- `linearSearch` returns the first page whose bounds contain `v`, else `n` — for EVERY index: null
    pages anywhere (they contain nothing), any order, overlapping or duplicate bounds, ragged lists. -/
theorem linear_correct (nf : Bool) (ix : Index) (v : Int) :
    linearSearch nf ix v ≤ ix.n ∧
    (linearSearch nf ix v < ix.n → contains nf ix (linearSearch nf ix v) v = true) ∧
    (∀ i, i < ix.n → contains nf ix i v = true → linearSearch nf ix v ≤ i) :=
  linearSearch_first nf ix v

example : linearSearch false f1 8 = 2 ∧ linearSearch true f1 8 = 2 := by decide

/-- `find` (the repaired dispatch of `Find`) never misses, for every index and every flag, as long as the
    flag is truthful in the only case the dispatch relies on it: flagged ascending AND no null page ⇒
    the index is ascending. Result: `find ≤ p` for every page `p` whose bounds contain `v` (so it is
    the first such page), the returned page contains `v`, else `find = n`. -/
theorem find_no_miss (nf asc : Bool) (ix : Index) (v : Int)
    (htruth : asc = true → hasNull ix = false → ∃ mn mx, Ascending ix mn mx) :
    find nf asc ix v ≤ ix.n ∧
    (find nf asc ix v < ix.n → contains nf ix (find nf asc ix v) v = true) ∧
    (∀ p, p < ix.n → contains nf ix p v = true → find nf asc ix v ≤ p) := by
  unfold find
  by_cases hc : (asc && !hasNull ix) = true
  · rw [if_pos hc]
    simp only [Bool.and_eq_true, Bool.not_eq_true'] at hc
    obtain ⟨mn, mx, ha⟩ := htruth hc.1 hc.2
    exact binarySearch_first nf ha v
  · rw [if_neg hc]
    exact linearSearch_first nf ix v

-- the premise holds trivially for the F1 index (it has a null page): the dispatch goes linear
example : find false true f1 8 = 2 ∧ find true true f1 8 = 2 := by decide

/-- The flag is truthful for every index the WRITER builds: `asc` is "the indexer computed ASCENDING"
    (`writerOrder z ix = 1`, null pages stored as the zero value `z`), bounds lists have equal length and
    every non-null page has `min ≤ max`. No hypothesis on null pages, truncation or duplicates. -/
theorem find_no_miss_writer (nf : Bool) (z : Int) (ix : Index) (v : Int)
    (hlen : ix.maxs.length = ix.mins.length)
    (hle : ∀ i a b, i < ix.n → minAt ix i = some a → maxAt ix i = some b → a ≤ b) :
    let r := find nf (writerOrder z ix == 1) ix v
    r ≤ ix.n ∧ (r < ix.n → contains nf ix r v = true) ∧ (∀ p, p < ix.n → contains nf ix p v = true → r ≤ p) := by
  apply find_no_miss
  intro hasc hnn
  exact writerOrder_ascending z ix hlen (by simpa using hasc) hnn hle

example : writerOrder 0 f1 = 1 ∧ find false (writerOrder 0 f1 == 1) f1 8 = 2 := by decide

/-- the dispatch before the repair (binary search whenever flagged ascending) misses: F1 -/
theorem findUnguarded_misses : contains false f1 2 8 = true ∧ findUnguarded false true f1 8 = 3 := by decide

/-- the index the writer emits for an optional INT32 column sorted descending with nulls first and all values
    negative: a null page, then (-1,-2), (-3,-5); flagged DESCENDING (null pages are stored as 0). `find` with
    the nulls-first ordering finds -4 in page 2: the linear search may not stop at the null page. -/
example : writerOrder 0 { mins := [none, some (-2), some (-5)], maxs := [none, some (-1), some (-3)] } = 2 ∧
    find true false { mins := [none, some (-2), some (-5)], maxs := [none, some (-1), some (-3)] } (-4) = 2 := by decide

end PqModel.Props.C06
