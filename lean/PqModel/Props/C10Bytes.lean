import PqModel.SortBytes

/-! # C10 — the byte array column buffer keeps rows intact (`column_buffer_byte_array.go`)

Model: `PqModel/SortBytes.lean`. The BYTE_ARRAY column buffer (required string / `[]byte` columns,
and the base column of optional and repeated ones) describes value `i` by `offsets[i]`,
`lengths[i]`; `Swap` exchanges those, and `page()` hands out a page WITHOUT lengths (value `i` is
`values[offsets[i] : offsets[i+1]]`). "Each row intact across all its columns" therefore needs: the
page handed out lists, row by row, the value each row holds after the swaps. Theorems are unbounded
(every history of writes, swaps and `page()` calls, every byte type). -/
namespace PqModel.Props.C10
open PqModel.SortBuf

/-- **byte array column buffer, any history**: after any sequence of value writes (empty values and
    nulls included), `Swap`s and `page()` calls — in any order, so also write, sort, read, write
    more, sort again — the buffer's invariant holds, row `i` holds the value that the list semantics
    of the operations (`baSpecStep`: append, swap two entries, nothing) puts at `i`, and the page
    handed out lists exactly these values in row order. With `sort.Sort` as any `Less`/`Swap`
    history this is what makes the `.req` columns of the `Buffer` model (`buffer_sort_correct`) a
    faithful description of string columns. -/
theorem bytearray_history_rows_intact {B : Type} (ops : List (BAOp B)) :
    let c := ops.foldl BACol.step BACol.empty
    c.BInv ∧ c.view = ops.foldl baSpecStep [] ∧ c.page.pageValues = ops.foldl baSpecStep [] := by
  intro c
  obtain ⟨h1, h2⟩ := BACol.run_spec ops BACol.empty BACol.binv_empty
  have hv : (BACol.empty : BACol B).view = [] := rfl
  rw [hv] at h2
  exact ⟨h1, h2, by rw [(BACol.page_spec h1).2.2]; exact h2⟩

example : (([.write [1, 2], .write [], .write [3], .swap 0 2, .page, .write [4], .swap 1 3, .page] : List (BAOp Nat)).foldl
    BACol.step BACol.empty).pageValues = [[3], [4], [1, 2], []] := by decide

/-- the value column of the `Buffer` model is the view of the byte array buffer: `Swap` on the
    buffer is `Swap` on the model column (so `buffer_swap_rows_intact`, `buffer_sort_correct` apply
    to BYTE_ARRAY columns through `view`) and `page()` does not change it -/
theorem bytearray_refines_req {B : Type} {c : BACol B} (h : c.BInv) (i j : Nat) :
    (Col.req (c.swap i j).view : Col (List B)) = (Col.req c.view).swap i j ∧
    (Col.req c.page.view : Col (List B)) = Col.req c.view := by
  constructor
  · simp only [Col.swap]; rw [BACol.view_swap h]
  · rw [(BACol.page_spec h).2.1]

example : ∃ c : BACol Nat, c.BInv ∧ c.view = [[], [7]] :=
  ⟨(BACol.empty.write []).write [7], BACol.binv_write (BACol.binv_write BACol.binv_empty _) _, by decide⟩

/-- the repaired test is sound on its own: whenever `byteArraysAreContiguous` answers yes, handing
    out the arrays as they are is right -/
theorem bytearray_contiguous_page_is_view {B : Type} {c : BACol B} (h : c.BInv)
    (hc : contigFrom 0 c.offsets c.lengths = true) : c.page = { c with endOff := some c.values.length } ∧
    c.page.pageValues = c.view := by
  have : c.page = { c with endOff := some c.values.length } := by
    simp [BACol.page, BACol.pageWith, hc]
  exact ⟨this, by rw [this]; exact BACol.pageValues_of_contig h hc⟩

example : ∃ c : BACol Nat, c.BInv ∧ contigFrom 0 c.offsets c.lengths = true :=
  ⟨(BACol.empty.write []).write [7], BACol.binv_write (BACol.binv_write BACol.binv_empty _) _, by decide⟩

/-- **negation, code as found** (`page()` rewrote the values only when the OFFSETS were out of
    order): write `""`, `"a"`, swap the two rows — the offsets are `[0, 0]` before and after, so no
    rewrite happens, and the page still lists `""`, `"a"` while the rows hold `"a"`, `""`. Every
    other column of the buffer did move: rows not intact. -/
theorem bytearray_page_as_found_rows_not_intact :
    ∃ ops : List (BAOp Nat),
      let c := ops.foldl BACol.stepFound BACol.empty
      c.BInv ∧ c.view = [[97], []] ∧ c.pageFound.pageValues = [[], [97]] :=
  ⟨[.write [], .write [97], .swap 0 1], by
    refine ⟨⟨by decide, by decide, by decide⟩, by decide, by decide⟩⟩

/-- … and the same history through the repaired `page()` -/
example : (([.write [], .write [97], .swap 0 1] : List (BAOp Nat)).foldl BACol.step BACol.empty).page.pageValues
    = [[97], []] := by decide

end PqModel.Props.C10
