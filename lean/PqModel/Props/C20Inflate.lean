import PqModel.Spec.Inflate
import PqModel.Spec.InflateTests
import PqModel.Spec.InflateFixed

/-! # C20, gzip part — a DEFLATE / gzip reader written from RFC 1951 / RFC 1952 (SPEC side)

`PqModel/Spec/Inflate.lean` holds `inflateRaw` / `inflate` (stored, fixed and dynamic Huffman
blocks, overlapping back-references) and `gunzip` (members with optional header fields, CRC-32
from `PqModel/Crc.lean`, ISIZE). Nothing here mirrors Go code: the reader is the independent
judge of what the real gzip codec emits (`gzip.decode` in pqdriver, run by the L1 check on every
sampled output of the codec).

PROVED (this file restates it): the reader is a total function of the stream — the fuel handed
out by the entry points is never exhausted, for any bytes; it inverts the stored-block encoder for
EVERY segmentation into blocks and stops exactly behind the final block; a gzip member around
stored blocks is read back through header, CRC-32 and ISIZE.

Of the Huffman paths, the LITERAL path on the fixed table is proved too: `inflate` inverts the
reference encoder that writes every byte with the code RFC 1951 §3.2.2/§3.2.6 assigns to it
(`inflate_fixedLiterals_id`; bit order of codes, canonical walk, symbol loop, end-of-block).

-- OPEN (tested, not proved): `∀ stream produced by a conformant Huffman/LZ77 encoder,
-- inflate stream = the encoder's input` — length/distance symbols (matches, incl. overlapping
-- ones) and the dynamic-table header (code-length code, repeat codes) have no Lean encoder to be
-- stated against. Evidence instead: `walkAgrees_fixedLit` / `walkAgrees_fixedDist` (the canonical-code walk
-- decodes every code of RFC 1951 §3.2.2's explicit assignment on the two fixed tables, by kernel
-- evaluation), the `decide` vectors of `InflateTests.lean` (streams of Go's stdlib: fixed block
-- with overlapping match, dynamic block, gzip header options; rejected: CRC, ISIZE, reserved
-- flag, distance too far, block type 3, LEN/NLEN), and the L1 check (agreement with the input on
-- every output of klauspost gzip at every exported level).
-- OPEN (assumed): the real gzip codec is lossless — sampled by L1 only. -/
namespace PqModel.Props.C20Inflate
open PqModel.Spec.Inflate

/-- `inflateRaw` never runs out of fuel: block loop, symbol loops and the code-length loop all
terminate by consuming input, whatever the bytes. -/
theorem inflate_total (data : List UInt8) :
    inflateRaw data ≠ .error .fuel ∧ inflate data ≠ .error .fuel :=
  ⟨inflateRaw_no_fuel data, inflate_no_fuel data⟩

/-- `gunzip` never runs out of fuel (every member is at least 18 bytes long). -/
theorem gunzip_total (data : List UInt8) : gunzip data ≠ .error .fuel := gunzip_no_fuel data

/-- what `inflateRaw` hands back as "rest" is a remainder of its input, never longer -/
theorem inflate_rest_le {data out rest : List UInt8} (h : inflateRaw data = .ok (out, rest)) :
    rest.length ≤ data.length := inflateRaw_rest h

/-- Stored blocks, ANY segmentation (`cs` non-final blocks, `last` the final one, each at most
65535 bytes, empty blocks allowed), followed by arbitrary bytes: the payloads come back
concatenated and the reader stops exactly behind the final block. -/
theorem inflate_stored_any_segmentation (cs : List (List UInt8)) (last tail : List UInt8)
    (hcs : ∀ c ∈ cs, c.length ≤ 65535) (hl : last.length ≤ 65535) :
    inflateRaw (storedChunks cs last ++ tail) = .ok (cs.flatten ++ last, tail) :=
  inflateRaw_storedChunks cs last tail hcs hl

example : ∃ (cs : List (List UInt8)) (last : List UInt8),
    (∀ c ∈ cs, c.length ≤ 65535) ∧ last.length ≤ 65535 ∧ cs ≠ [] ∧
    inflateRaw (storedChunks cs last ++ [9]) = .ok ([1, 2, 3], [9]) :=
  ⟨[[1], [], [2]], [3], by decide, by decide, by decide,
    inflateRaw_storedChunks _ _ _ (by decide) (by decide)⟩

/-- `inflate ∘ storedBlocks = id` for every byte string of every length. -/
theorem inflate_storedBlocks_id (bs : List UInt8) : inflate (storedBlocks bs) = .ok bs :=
  inflate_storedBlocks bs

example : storedBlocks [104, 105] = [1, 2, 0, 253, 255, 104, 105] := by decide

/-- A gzip member around stored blocks is read back: magic, method, flags, the DEFLATE payload,
CRC-32 and ISIZE (length modulo 2^32) are all parsed and checked. -/
theorem gunzip_gzipStored_id (bs : List UInt8) : gunzip (gzipStored bs) = .ok bs :=
  gunzip_gzipStored bs

example : gzipStored [104, 105] =
    [31, 139, 8, 0, 0, 0, 0, 0, 0, 255, 1, 2, 0, 253, 255, 104, 105, 172, 42, 147, 216, 2, 0, 0, 0] := by
  decide +kernel

/-- Fixed-Huffman block, literals only (`fixedLiterals`: BFINAL=1, BTYPE=01, for every byte the
code `rfcCode fixedLitLens` gives it — 8 bits for 0..143, 9 bits for 144..255 —, the 7-bit
end-of-block code, zero padding): `inflate` returns the input, for EVERY byte string. The only
evaluated ingredient is `fixedCheck_ok` (the 257 codes, once, in the kernel); the rest is
induction over the input. -/
theorem inflate_fixedLiterals_id (bs : List UInt8) : inflate (fixedLiterals bs) = .ok bs :=
  inflate_fixedLiterals bs

example : fixedLiterals [104, 105, 200] = [203, 200, 60, 1, 0] := by decide +kernel

/-- TESTED by kernel evaluation, finite: on the fixed literal/length table (288 symbols) and the
fixed distance table the bit-by-bit walk `decodeSym` decodes every code of the explicit
assignment of RFC 1951 §3.2.2 (`rfcCode`) to its symbol, consuming exactly its bits. -/
theorem walk_agrees_with_rfc_on_fixed_tables :
    walkAgrees fixedLitLens = true ∧ walkAgrees fixedDistLens = true :=
  ⟨walkAgrees_fixedLit, walkAgrees_fixedDist⟩

end PqModel.Props.C20Inflate
