import PqModel.Spec.Inflate
import PqModel.Spec.InflateTests
import PqModel.Spec.InflateFixed
import PqModel.Spec.InflateMatch

/-! # C20, gzip part — a DEFLATE / gzip reader written from RFC 1951 / RFC 1952 (SPEC side)

`PqModel/Spec/Inflate.lean` holds `inflateRaw` / `inflate` (stored, fixed and dynamic Huffman
blocks, overlapping back-references) and `gunzip` (members with optional header fields, CRC-32
from `PqModel/Crc.lean`, ISIZE). Nothing here mirrors Go code: the reader is the independent
judge of what the real gzip codec emits (`gzip.decode` in pqdriver, run by the L1 check on every
sampled output of the codec).

PROVED (this file restates it): the reader is a total function of the stream — the fuel handed
out by the entry points is never exhausted, for any bytes; it inverts the stored-block encoder for
EVERY segmentation into blocks and stops exactly behind the final block; a gzip member around
stored blocks is read back through header, CRC-32 and ISIZE.

Of the Huffman paths, the LITERAL path on the fixed table is proved too: `inflate` inverts the
reference encoder that writes every byte with the code RFC 1951 §3.2.2/§3.2.6 assigns to it
(`inflate_fixedLiterals_id`; bit order of codes, canonical walk, symbol loop, end-of-block).

Round 4: the LENGTH/DISTANCE path on the fixed tables is proved as well (`Spec/InflateMatch.lean`):
`inflate` reads a fixed-Huffman block of arbitrary tokens (every length symbol 257..285, every distance
symbol 0..29, every value of the extra bits, references overlapping their own output or not) back as
the tokens mean them (`inflate_fixedBlock_tokens`), a reference means "every new byte equals the byte
`dist` positions before it" (`reference_copies_from_distance`), and `inflate` inverts a greedy LZ77
matcher + fixed-Huffman encoder for every window and input (`inflate_deflateFixed_id`).

-- OPEN (tested, not proved): `∀ stream produced by a conformant Huffman/LZ77 encoder,
-- inflate stream = the encoder's input` — the dynamic-table header (code-length code, repeat codes,
-- canonical codes of arbitrary length sets) has no Lean encoder to be stated against; the fixed-table
-- paths are proved for the two reference encoders, not for every conformant encoder (a conformant
-- encoder may choose any tokens: `inflate_fixedBlock_tokens` covers every choice on ONE final fixed
-- block). Evidence instead: `walkAgrees_fixedLit` / `walkAgrees_fixedDist` (the canonical-code walk
-- decodes every code of RFC 1951 §3.2.2's explicit assignment on the two fixed tables, by kernel
-- evaluation), the `decide` vectors of `InflateTests.lean` (streams of Go's stdlib: fixed block
-- with overlapping match, dynamic block, gzip header options; rejected: CRC, ISIZE, reserved
-- flag, distance too far, block type 3, LEN/NLEN), and the L1 check (agreement with the input on
-- every output of klauspost gzip at every exported level).
-- OPEN (assumed): the real gzip codec is lossless — sampled by L1 only. -/
namespace PqModel.Props.C20Inflate
open PqModel.Spec.Inflate

/-- `inflateRaw` never runs out of fuel: block loop, symbol loops and the code-length loop all
terminate by consuming input, whatever the bytes. -/
theorem inflate_total (data : List UInt8) :
    inflateRaw data ≠ .error .fuel ∧ inflate data ≠ .error .fuel :=
  ⟨inflateRaw_no_fuel data, inflate_no_fuel data⟩

/-- `gunzip` never runs out of fuel (every member is at least 18 bytes long). -/
theorem gunzip_total (data : List UInt8) : gunzip data ≠ .error .fuel := gunzip_no_fuel data

/-- what `inflateRaw` hands back as "rest" is a remainder of its input, never longer -/
theorem inflate_rest_le {data out rest : List UInt8} (h : inflateRaw data = .ok (out, rest)) :
    rest.length ≤ data.length := inflateRaw_rest h

/-- Stored blocks, ANY segmentation (`cs` non-final blocks, `last` the final one, each at most
65535 bytes, empty blocks allowed), followed by arbitrary bytes: the payloads come back
concatenated and the reader stops exactly behind the final block. -/
theorem inflate_stored_any_segmentation (cs : List (List UInt8)) (last tail : List UInt8)
    (hcs : ∀ c ∈ cs, c.length ≤ 65535) (hl : last.length ≤ 65535) :
    inflateRaw (storedChunks cs last ++ tail) = .ok (cs.flatten ++ last, tail) :=
  inflateRaw_storedChunks cs last tail hcs hl

example : ∃ (cs : List (List UInt8)) (last : List UInt8),
    (∀ c ∈ cs, c.length ≤ 65535) ∧ last.length ≤ 65535 ∧ cs ≠ [] ∧
    inflateRaw (storedChunks cs last ++ [9]) = .ok ([1, 2, 3], [9]) :=
  ⟨[[1], [], [2]], [3], by decide, by decide, by decide,
    inflateRaw_storedChunks _ _ _ (by decide) (by decide)⟩

/-- `inflate ∘ storedBlocks = id` for every byte string of every length. -/
theorem inflate_storedBlocks_id (bs : List UInt8) : inflate (storedBlocks bs) = .ok bs :=
  inflate_storedBlocks bs

example : storedBlocks [104, 105] = [1, 2, 0, 253, 255, 104, 105] := by decide

/-- A gzip member around stored blocks is read back: magic, method, flags, the DEFLATE payload,
CRC-32 and ISIZE (length modulo 2^32) are all parsed and checked. -/
theorem gunzip_gzipStored_id (bs : List UInt8) : gunzip (gzipStored bs) = .ok bs :=
  gunzip_gzipStored bs

example : gzipStored [104, 105] =
    [31, 139, 8, 0, 0, 0, 0, 0, 0, 255, 1, 2, 0, 253, 255, 104, 105, 172, 42, 147, 216, 2, 0, 0, 0] := by
  decide +kernel

/-- Fixed-Huffman block, literals only (`fixedLiterals`: BFINAL=1, BTYPE=01, for every byte the
code `rfcCode fixedLitLens` gives it — 8 bits for 0..143, 9 bits for 144..255 —, the 7-bit
end-of-block code, zero padding): `inflate` returns the input, for EVERY byte string. The only
evaluated ingredient is `fixedCheck_ok` (the 257 codes, once, in the kernel); the rest is
induction over the input. -/
theorem inflate_fixedLiterals_id (bs : List UInt8) : inflate (fixedLiterals bs) = .ok bs :=
  inflate_fixedLiterals bs

example : fixedLiterals [104, 105, 200] = [203, 200, 60, 1, 0] := by decide +kernel

/-- Fixed-Huffman block of TOKENS (`fixedBlock`: BFINAL=1, BTYPE=01; a literal as its code; a
reference as length code 257+ls, the extra length bits LSB-first, the 5-bit distance code ds, the
extra distance bits LSB-first; end-of-block; zero padding). For EVERY token list whose references are
writable (ls < 29, ds < 30, extra values inside their bit widths) and reach back at most to the start
of the output produced so far (`toksOk`), `inflate` returns what the tokens mean (`applyToks`:
literal = append, reference = `copyBack dist len`). Lengths 3..258, distances 1..32768, overlapping
copies (dist < len) included. Evaluated: `fixedCheck2_ok` (286 + 30 codes, once, in the kernel). -/
theorem inflate_fixedBlock_tokens (toks : List Tok) (hok : toksOk toks #[] = true) :
    inflate (fixedBlock toks) = .ok (applyToks toks #[]).toList :=
  inflate_fixedBlock toks hok

/-- hypotheses satisfiable, with an overlapping reference (length 9 at distance 1) and a far one -/
example : toksOk [.lit 97, .ref 6 0 0 0, .lit 98, .ref 0 0 4 1] #[] = true ∧
    (applyToks [.lit 97, .ref 6 0 0 0, .lit 98, .ref 0 0 4 1] #[]).toList =
      List.replicate 10 97 ++ [98] ++ [97, 97, 97] := by decide +kernel

/-- What a reference means (RFC 1951 §3.2.3), independent of how `copyBack` computes it: the result
keeps the old output, is `n` bytes longer, and every new byte equals the byte `d` positions before it
in the RESULT — so for `d < n` the copy reads bytes it has just written. -/
theorem reference_copies_from_distance (d n : Nat) (out : Array UInt8) (hd : 0 < d) (hfit : d ≤ out.size) :
    (PqModel.Spec.BlockCodecs.copyBack d n out).size = out.size + n ∧
    (∀ i, i < out.size → (PqModel.Spec.BlockCodecs.copyBack d n out)[i]? = out[i]?) ∧
    (∀ i, out.size ≤ i → i < out.size + n →
      (PqModel.Spec.BlockCodecs.copyBack d n out)[i]? = (PqModel.Spec.BlockCodecs.copyBack d n out)[i - d]?) :=
  ⟨copyBack_size d n out, copyBack_prefix d n out, fun i h1 h2 => copyBack_get d hd n out i hfit h1 h2⟩

/-- the greedy matcher's tokens rebuild the input and are writable, for every window and input -/
theorem lz77_tokens_rebuild_input (w : Nat) (bs : List UInt8) :
    applyToks (lz77 w bs.length #[] bs) #[] = bs.toArray ∧ toksOk (lz77 w bs.length #[] bs) #[] = true := by
  simpa using applyToks_lz77 w bs.length #[] bs

/-- `inflate ∘ deflateFixed w = id`: greedy LZ77 (longest match ≥ 3 in a window of `w` bytes, the
source running into the bytes being produced) + fixed-Huffman coding with length/distance pairs is
read back, for EVERY window and EVERY byte string. -/
theorem inflate_deflateFixed_id (w : Nat) (bs : List UInt8) : inflate (deflateFixed w bs) = .ok bs :=
  inflate_deflateFixed w bs

/-- the encoder does emit references: ten `a` = one literal + (length 9, distance 1) -/
example : lz77 32 10 #[] (List.replicate 10 97) = [.lit 97, .ref 6 0 0 0] ∧
    deflateFixed 32 (List.replicate 10 97) = [75, 132, 3, 0] := by decide +kernel

/-- TESTED by kernel evaluation, finite: on the fixed literal/length table (288 symbols) and the
fixed distance table the bit-by-bit walk `decodeSym` decodes every code of the explicit
assignment of RFC 1951 §3.2.2 (`rfcCode`) to its symbol, consuming exactly its bits. -/
theorem walk_agrees_with_rfc_on_fixed_tables :
    walkAgrees fixedLitLens = true ∧ walkAgrees fixedDistLens = true :=
  ⟨walkAgrees_fixedLit, walkAgrees_fixedDist⟩

end PqModel.Props.C20Inflate
