import PqModel.Props.C04Rle
import PqModel.RleBoolBytes
import PqModel.BitPackedDecode

/-! # C04 (part rle, round 4) — the Go hybrid DECODERS agree with the SPEC decoder

SPEC side: `specDecode`, `specDecodeBoolean`, `specDecodeDict` (Encodings.md), the grammars
`ValidRle` / `ValidRleGoW` / `ValidRleGo` (every conformant run segmentation, the last bit-packed
run padded). MIRROR side: `goDecodeLevels` (`decodeBytes`), `goDecodeInt32`, `goDecodeDict`, and the
boolean decoder at BYTE level: `goDecodeBooleanBytes` = `DecodeBoolean` / `decodeBits` with
`appendBitsAt`, `appendBitRun`, `resize` over a destination whose spare capacity holds `stale`.
`n` is the value count the reader takes from the page header. -/
namespace PqModel.Props.C04RleDec
open PqModel.Rle PqModel.Bits PqModel.Props.C04Rle

theorem validGoW_valid {w : Nat} {xs bs : List Nat} (h : ValidRleGoW w xs bs) : ValidRle w xs bs := by
  obtain ⟨rs, hwf, _, hv, hs⟩ := h
  exact ⟨rs, hwf, hv, hs⟩

theorem validGo_valid {xs bs : List Nat} (h : ValidRleGo xs bs) : ValidRle 1 xs bs := by
  obtain ⟨rs, hwf, _, hv, hs⟩ := h
  exact ⟨rs, hwf, hv, hs⟩

/-- Levels (`decodeBytes`, width ≤ 8): on every conformant stream the Go decoder returns all the
values the stream holds (padding of the last bit-packed run included), and the `n` values a page
reader keeps are exactly what the SPEC decoder returns for that count. -/
theorem go_levels_eq_spec {w : Nat} {xs bs : List Nat} (hw : w ≤ 8) (h : ValidRleGoW w xs bs) (n : Nat)
    (hn : n ≤ xs.length) : (goDecodeLevels w bs).map (·.take n) = specDecode w n bs := by
  rw [goDecodeLevels_of_valid hw h, specDecode_of_valid (validGoW_valid h) n hn]; rfl

/-- INT32 (`decodeInt32`, width ≤ 32, the portable `bitpack.Unpack` inside). -/
theorem go_int32_eq_spec {w : Nat} {xs bs : List Nat} (hw : w ≤ 32) (h : ValidRleGoW w xs bs) (n : Nat)
    (hn : n ≤ xs.length) : (goDecodeInt32 w bs).map (·.take n) = specDecode w n bs := by
  rw [goDecodeInt32_of_valid hw h, specDecode_of_valid (validGoW_valid h) n hn]; rfl

/-- RLE_DICTIONARY index page (`DictionaryEncoding.DecodeInt32`): any declared width ≤ 32 — not only
`bits.Len32(max)` as this library writes it —, any segmentation. -/
theorem go_dict_eq_spec {w : Nat} {xs body : List Nat} (hw : w ≤ 32) (h : ValidRleGoW w xs body) (n : Nat)
    (hn : n ≤ xs.length) : (goDecodeDict (w :: body)).map (·.take n) = specDecodeDict n (w :: body) := by
  have a : ¬ w > 32 := by omega
  simp only [goDecodeDict, specDecodeDict, a, if_false]
  exact go_int32_eq_spec hw h n hn

example : ValidRleGoW 3 [5, 5, 5] [6, 5] ∧ 2 ≤ [5, 5, 5].length :=
  ⟨⟨[.rle 3 [5]], by simp [Run.WF], by simp [Run.GoOKW, leNat], by simp [runsValues, Run.values, leNat],
    by simp [serialize, Run.bytes, uvarint_small]⟩, by decide⟩

/-! ## Booleans at byte level -/

/-- `decodeBits` as written (byte slice, `appendBitsAt` shifting a bit-packed run in at a bit offset,
`appendBitRun` filling and masking) returns on EVERY input — conformant or malformed, errors
included — the bytes of the bit-level mirror `goDecodeBoolean`, for every content of the
destination's spare capacity. This closes the abstraction "dst is a bit list". -/
theorem decodeBoolean_bytes_eq_bits (stale src : List Nat) (hb : ∀ b ∈ src, b < 256) :
    goDecodeBooleanBytes stale src = goDecodeBoolean src :=
  goDecodeBooleanBytes_eq stale src hb

/-- History independence of `DecodeBoolean`: the result does not depend on what the reused
destination buffer held. -/
theorem decodeBoolean_history_independent (stale stale' src : List Nat) (hb : ∀ b ∈ src, b < 256) :
    goDecodeBooleanBytes stale src = goDecodeBooleanBytes stale' src := by
  rw [goDecodeBooleanBytes_eq stale src hb, goDecodeBooleanBytes_eq stale' src hb]

example : ∀ b ∈ [4, 0, 0, 0, 2, 1, 0x1e, 1], b < 256 := by decide

/-- One step of it, the statement a change of the masking arithmetic breaks: `appendBitRun` on a
slice that holds `bits` appends `count ≥ 1` copies of the bit, whatever the bit offset
(`bits.length % 8`) and wherever the run ends, the unused high bits of the last byte zero. -/
theorem appendBitRun_appends (stale : List Nat) (bits : List Bool) (b : Bool) (count : Nat) (hc : 1 ≤ count) :
    goAppendBitRun stale (bitsToBytes bits.length bits) bits.length (b2n b) count =
      bitsToBytes (bits.length + count) (bits ++ List.replicate count b) :=
  goAppendBitRun_eq stale bits b count hc

/-- `appendBitsAt` appends the bits of the source bytes at any bit offset. -/
theorem appendBitsAt_appends (stale : List Nat) (bits : List Bool) (src : List Nat) (hb : ∀ b ∈ src, b < 256) :
    goAppendBitsAt stale (bitsToBytes bits.length bits) bits.length src =
      bitsToBytes (bits.length + 8 * src.length) (bits ++ bytesToBits src) :=
  goAppendBitsAt_eq stale bits src hb

/-- the situation of seed C04-4a: 3 values held, a run of 5 × true ends on the byte boundary -/
example : goAppendBitRun [] [0x07] 3 1 5 = [0xFF] := by decide

/-- BOOLEAN pages (`DecodeBoolean`, byte level): on every conformant page — 4-byte length, then any
segmentation into RLE runs of any length ≥ 1 with any stored value byte and bit-packed runs at any
bit offset — the Go decoder returns bytes whose first `n` bits are what the SPEC decoder returns,
whatever the destination held. -/
theorem go_boolean_eq_spec {xs body : List Nat} (h : ValidRleGo xs body) (hb : ∀ b ∈ body, b < 256)
    (hlen : body.length < 2 ^ 32) (stale : List Nat) (n : Nat) (hn : n ≤ xs.length) :
    ∃ bytes, goDecodeBooleanBytes stale (leBytes 4 body.length ++ body) = .ok bytes ∧
      specDecodeBoolean n (leBytes 4 body.length ++ body) = .ok (((bytesToBits bytes).map b2n).take n) := by
  have hsrc : ∀ b ∈ leBytes 4 body.length ++ body, b < 256 := by
    intro b hb'
    rcases List.mem_append.mp hb' with h1 | h1
    · exact leBytes_lt 4 _ b h1
    · exact hb b h1
  have h4 : (leBytes 4 body.length).length = 4 := leBytes_length _ _
  have hle : leNat (leBytes 4 body.length) = body.length := by
    rw [leNat_leBytes]; exact Nat.mod_eq_of_lt hlen
  have hspec : specDecodeBoolean n (leBytes 4 body.length ++ body) = .ok (xs.take n) := by
    simp only [specDecodeBoolean]
    rw [prefix_strip 1 n body hlen]
    exact specDecode_of_valid (validGo_valid h) n hn
  rw [decodeBoolean_bytes_eq_bits stale _ hsrc, hspec]
  by_cases he : body = []
  · subst he
    obtain ⟨rs, _, _, hv, hs⟩ := h
    have hrs : rs = [] := by
      cases rs with
      | nil => rfl
      | cons r rs => have := serialize_length_ge (r :: rs); rw [hs] at this; simp at this
    subst hrs
    have hx : xs = [] := by rw [← hv]; rfl
    subst hx
    refine ⟨[], ?_, ?_⟩
    · simp [goDecodeBoolean, leBytes]
    · simp [bytesToBits]
  · obtain ⟨bits, hbits, hdec⟩ := decodeBoolean_bytes_of_valid h
    have hpos : 1 ≤ body.length := by
      cases body with
      | nil => exact absurd rfl he
      | cons _ _ => simp
    have a1 : ¬ (leBytes 4 body.length ++ body).length = 4 := by rw [List.length_append]; omega
    have a2 : ¬ (leBytes 4 body.length ++ body).length < 4 := by rw [List.length_append]; omega
    refine ⟨bitsToBytes bits.length bits, ?_, ?_⟩
    · simp only [goDecodeBoolean, a1, a2, if_false, List.take_left' h4, List.drop_left' h4, hle,
        Nat.lt_irrefl, List.take_length]
      exact hdec
    · obtain ⟨pad, hp⟩ := bytes_bits bits.length bits (Nat.le_refl _)
      rw [hp, List.map_append, hbits, List.take_append_of_le_length hn]

/-- a foreign page the library's own writer never emits: `[3 × true][5 × true]`, values `01` -/
example : ValidRleGo [1, 1, 1, 1, 1, 1, 1, 1] [0x06, 0x01, 0x0a, 0x01] :=
  ⟨[.rle 3 [1], .rle 5 [1]], by simp [Run.WF], by simp [Run.GoOK],
    by simp [runsValues, Run.values, leNat], by simp [serialize, Run.bytes, uvarint_small]⟩

/-! ## Legacy BIT_PACKED levels (`encoding/bitpacked`, `decodeLevels`) -/

/-- A BIT_PACKED stream has no freedom: any byte string holding `n` values of width `w` is THE
encoding of the values the SPEC decoder reads from it. The Go decoder (mirror `goDecodeBitPacked`:
per value, one byte or two adjacent bytes, shifts and masks) returns exactly those as its first `n`
values (it also returns the values of the trailing partial bits, which a reader cuts off). -/
theorem go_bitpacked_eq_spec (w n : Nat) (hw1 : 1 ≤ w) (hw8 : w ≤ 8) (src : List Nat)
    (hb : ∀ b ∈ src, b < 256) (hn1 : 1 ≤ n) (hn : n * w ≤ 8 * src.length) :
    specDecodeBitPacked w n src = .ok ((goDecodeBitPacked w src).take n) := by
  have a : ¬ 8 * src.length < n * w := by omega
  simp only [specDecodeBitPacked, a, if_false]
  rw [goDecodeBitPacked_eq w n hw1 hw8 src hb hn1 hn]

example : (1 : Nat) ≤ 3 ∧ 3 ≤ 8 ∧ (∀ b ∈ [0x05, 0x39, 0x77], b < 256) ∧ 8 * 3 ≤ 8 * [0x05, 0x39, 0x77].length := by
  decide

/-- `DecodeLevels(EncodeLevels(xs))` starts with `xs` on the models of both sides, every width 1..8. -/
theorem go_bitpacked_roundtrip (w : Nat) (xs : List Nat) (hw1 : 1 ≤ w) (hw8 : w ≤ 8) (hne : xs ≠ [])
    (hx : ∀ x ∈ xs, x < 2 ^ w) : (goDecodeBitPacked w (encodeBitPacked w xs)).take xs.length = xs := by
  have hs := bitpacked_roundtrip w xs hw1 hne hx
  have hpos : 1 ≤ xs.length := by
    cases xs with
    | nil => exact absurd rfl hne
    | cons _ _ => simp
  by_cases hlen : 8 * (encodeBitPacked w xs).length < xs.length * w
  · simp [specDecodeBitPacked, hlen] at hs
  · have h2 := go_bitpacked_eq_spec w xs.length hw1 hw8 _ (encodeBitPacked_lt w xs) hpos (by omega)
    rw [hs] at h2
    injection h2 with h2
    exact h2.symm

example : (1 : Nat) ≤ 3 ∧ 3 ≤ 8 ∧ [1, 2, 3, 4, 5] ≠ ([] : List Nat) ∧ ∀ x ∈ [1, 2, 3, 4, 5], x < 2 ^ 3 := by decide

end PqModel.Props.C04RleDec
