import PqModel.Plain

/-! # C04 (part "plain") — PLAIN, BYTE_STREAM_SPLIT and dictionaries are lossless and match the spec

Every round-trip theorem composes a **spec** decoder (written from Encodings.md only) with the
**mirror** of the Go encoder (`PqModel/Plain.lean` says which is which), for every input: no bound
on lengths or values. Floats are bit patterns, so NaN payloads and -0.0 are covered by
construction. -/
namespace PqModel.Props.C04Plain
open PqModel.Plain

/-! ## little endian -/

theorem le_roundtrip (n x : Nat) (h : x < 2 ^ (8 * n)) :
    (leBytes n x).length = n ∧ leVal (leBytes n x) = x :=
  ⟨leBytes_length n x, leVal_leBytes n x h⟩
example : (0xDEADBEEF : Nat) < 2 ^ (8 * 4) := by decide

/-- the other direction: every byte string is the little-endian form of exactly its value -/
theorem le_roundtrip_bytes (bs : Bytes) : leVal bs < 2 ^ (8 * bs.length) ∧ leBytes bs.length (leVal bs) = bs :=
  ⟨leVal_lt bs, leBytes_leVal bs⟩

/-! ## PLAIN -/

/-- all fixed width numeric types at once (`k` bytes per value, values are bit patterns) -/
theorem plain_roundtrip_fixed (k : Nat) (hk : 0 < k) (xs : List (BitVec (8 * k))) :
    specDecFixedBV k (encFixedBV k xs) = some xs :=
  specDecFixedBV_encFixedBV k hk xs
example : (0 : Nat) < 4 := by decide

theorem plain_roundtrip_int32 (xs : List (BitVec 32)) : specDecFixedBV 4 (encFixedBV 4 xs) = some xs :=
  specDecFixedBV_encFixedBV 4 (by decide) xs

theorem plain_roundtrip_int64 (xs : List (BitVec 64)) : specDecFixedBV 8 (encFixedBV 8 xs) = some xs :=
  specDecFixedBV_encFixedBV 8 (by decide) xs

/-- FLOAT: the elements are IEEE-754 single bit patterns (NaN payloads, -0.0 are just patterns) -/
theorem plain_roundtrip_float (xs : List (BitVec 32)) : specDecFixedBV 4 (encFixedBV 4 xs) = some xs :=
  specDecFixedBV_encFixedBV 4 (by decide) xs

theorem plain_roundtrip_double (xs : List (BitVec 64)) : specDecFixedBV 8 (encFixedBV 8 xs) = some xs :=
  specDecFixedBV_encFixedBV 8 (by decide) xs

theorem plain_roundtrip_int96 (xs : List (BitVec 96)) : specDecFixedBV 12 (encFixedBV 12 xs) = some xs :=
  specDecFixedBV_encFixedBV 12 (by decide) xs

/-- BOOLEAN, for every content `stale` of the reused buffer's capacity region (dirty buffers) -/
theorem plain_roundtrip_boolean (stale : Bytes) (vs : List Bool) :
    (encBools stale vs).length = (vs.length + 7) / 8 ∧
    specDecBool vs.length (encBools stale vs) = some vs := by
  obtain ⟨h1, _, h3⟩ := encBoolsFrom_spec stale vs [] 0 rfl
  have hl : (encBools stale vs).length = (vs.length + 7) / 8 := by simpa [encBools] using h1
  refine ⟨hl, ?_⟩
  unfold specDecBool
  split
  · omega
  · congr 1
    apply List.ext_getElem
    · simp
    · intro i h1' h2'
      have := h3 i h2'
      simp only [Nat.zero_add] at this
      simp [encBools, this]

theorem plain_roundtrip_byte_array (vs : List Bytes) (h : ∀ v ∈ vs, v.length < 2 ^ 32) :
    specDecByteArray (encByteArray vs) = some vs :=
  specDecByteArrayFuel_enc vs _ h (Nat.le_refl _)
example : ∀ v ∈ [[], [1, 2, 3], [0xFF]], (v : Bytes).length < 2 ^ 32 := by decide

theorem plain_roundtrip_flba (n : Nat) (hn : 0 < n) (vs : List Bytes) (h : ∀ v ∈ vs, v.length = n) :
    specDecFixedBytes n (encFLBA vs) = some vs :=
  specDecFixedBytes_flatten n hn vs h
example : ∀ v ∈ [[1, 2, 3], [0xFF, 0, 7]], (v : Bytes).length = 3 := by decide

/-! ## the Go PLAIN BYTE_ARRAY decoder (mirror of plain.go:77-94) -/

/-- whatever the Go decoder returns without error from a tight buffer is what the spec decoder
    returns: it never returns wrong values … -/
theorem goDecByteArray_sound (src : Bytes) (vs : List Bytes) (h : goDecByteArray src = .ok vs) :
    specDecByteArray src = some vs := by
  obtain ⟨tl, h1, h2⟩ := goDecByteArrayLoop_sound src (src.length + 1) 0 [] vs (Nat.zero_le _) (by omega) h
  simpa [specDecByteArray, h2] using h1
example : goDecByteArray [1, 0, 0, 0, 7] = .ok [[7]] := by decide

/-- the Go decoder gives back what the Go encoder was given (Decode ∘ Encode = id, mirror level) -/
theorem goDecByteArray_roundtrip (vs : List Bytes) (h : ∀ v ∈ vs, v.length < 2 ^ 32) :
    goDecByteArray (encByteArray vs) = .ok vs := by
  have := goDecByteArrayLoop_enc vs [] [] ((encByteArray vs).length + 1) h (by omega)
  simpa [goDecByteArray] using this
example : ∀ v ∈ [[], [1, 2, 3], [0xFF]], (v : Bytes).length < 2 ^ 32 := by decide

/-- … but on a malformed stream it can panic instead of reporting an error (VIOLATION witness:
    second length prefix 5 with 1 byte left passes the `n > len(src)-4` test). -/
theorem goDecByteArray_panics_on_overrun :
    goDecByteArray [0, 0, 0, 0, 5, 0, 0, 0, 1] = .panic ∧
    specDecByteArray [0, 0, 0, 0, 5, 0, 0, 0, 1] = none := by decide

/-! ## BYTE_STREAM_SPLIT -/

/-- any element width `k` (FLBA sizes included): all elements have `k` bytes -/
theorem bss_roundtrip (k : Nat) (hk : 0 < k) (vs : List Bytes) (h : ∀ v ∈ vs, v.length = k) :
    (bssEnc k vs).length = k * vs.length ∧ bssSpecDec k (bssEnc k vs) = some vs := by
  refine ⟨?_, bssSpecDec_bssEnc k hk vs h⟩
  have := flatten_length_const vs.length ((List.range k).map (fun s => vs.map (fun v => v.getD s 0)))
    (by intro l hl; simp only [List.mem_map] at hl; obtain ⟨s, _, rfl⟩ := hl; simp)
  simp only [List.length_map, List.length_range] at this
  rw [bssEnc, this, Nat.mul_comm]
example : ∀ v ∈ [[1, 2, 3], [0xFF, 0, 7]], (v : Bytes).length = 3 := by decide

/-- the same with the SPEC decoder written in index form (`byte j of value i is at j*n+i`) -/
theorem bss_roundtrip_indexed (k : Nat) (hk : 0 < k) (vs : List Bytes) (h : ∀ v ∈ vs, v.length = k) :
    bssSpecDecIdx k (bssEnc k vs) = some vs :=
  bssSpecDecIdx_bssEnc k hk vs h
example : ∀ v ∈ [[1, 2, 3, 4], [0xFF, 0, 7, 9]], (v : Bytes).length = 4 := by decide

theorem bss_roundtrip_float (xs : List (BitVec 32)) : bssSpecDecFixedBV 4 (bssEncFixedBV 4 xs) = some xs :=
  bssSpecDecFixedBV_bssEncFixedBV 4 (by decide) xs

theorem bss_roundtrip_double (xs : List (BitVec 64)) : bssSpecDecFixedBV 8 (bssEncFixedBV 8 xs) = some xs :=
  bssSpecDecFixedBV_bssEncFixedBV 8 (by decide) xs

/-! ## dictionaries -/

section
variable {α : Type} [DecidableEq α]

/-- looking up the returned indexes in the new dictionary gives back the inserted values -/
theorem dict_insert_lookup (d d' : List α) (xs : List α) (idx : List Nat)
    (h : insertAll d xs = (d', idx)) : idx.map (d'[·]?) = xs.map some := by
  have hf := insertAll_find xs d
  have hl := insertAll_length xs d
  rw [h] at hf hl
  simp only at hf hl
  apply List.ext_getElem
  · simp [hl]
  · intro i h1 h2
    simp only [List.length_map] at h1 h2
    have e : (idx.map some)[i]'(by simpa using h1) = (xs.map (dictFind d'))[i]'(by simpa using h2) := by
      simp only [hf]
    simp only [List.getElem_map] at e ⊢
    exact dictFind_some d' xs[i] idx[i] e.symm

/-- index stability: the old dictionary is a prefix of the new one (no entry moves or changes) -/
theorem dict_prefix (d : List α) (xs : List α) : d <+: (insertAll d xs).1 := insertAll_prefix xs d

/-- so an index handed out earlier still denotes the same value after any later batch -/
theorem dict_index_stable (d : List α) (xs ys : List α) (i : Nat) (hi : i < (insertAll d xs).1.length) :
    (insertAll (insertAll d xs).1 ys).1[i]? = (insertAll d xs).1[i]? := by
  obtain ⟨e, he⟩ := insertAll_prefix ys (insertAll d xs).1
  rw [← he, List.getElem?_append_left hi]

/-- no duplicates are ever created -/
theorem dict_nodup (d : List α) (xs : List α) (h : d.Nodup) : (insertAll d xs).1.Nodup :=
  insertAll_nodup xs d h
example : ([3, 1, 2] : List Nat).Nodup := by decide

/-- first-occurrence order: the new dictionary is the old one followed by the first occurrences
    of the new values, in batch order -/
theorem dict_first_occurrence (d : List α) (xs : List α) (h : d.Nodup) :
    (insertAll d xs).1 = (d ++ xs).eraseDups :=
  insertAll_eraseDups xs d h

/-- every returned index is the linear-search position of the value in the new dictionary
    (what the hash tables of `hashprobe` must compute) -/
theorem dict_index_is_linear_search (d : List α) (xs : List α) :
    (insertAll d xs).2.map some = xs.map (dictFind (insertAll d xs).1) :=
  insertAll_find xs d

/-- inserting in batches is inserting the concatenation -/
theorem dict_batches (d : List α) (xs ys : List α) :
    insertAll d (xs ++ ys) =
      ((insertAll (insertAll d xs).1 ys).1, (insertAll d xs).2 ++ (insertAll (insertAll d xs).1 ys).2) :=
  insertAll_append xs ys d

/-- the table-driven Go dictionaries (mirror `GoDict`) are the abstract dictionary whenever the
    pre-loaded values have no duplicates (in particular when starting empty) -/
theorem goDict_refines (init xs : List α) (h : init.Nodup) :
    (goDictInsertAll (goDictInit init) xs).1.values = (insertAll init xs).1 ∧
    (goDictInsertAll (goDictInit init) xs).2 = (insertAll init xs).2 := by
  obtain ⟨h1, _, h3⟩ := goDictInsertAll_refines xs (goDictInit init) (goDictInit_of_nodup init h)
  exact ⟨h1, h3⟩
example : ([] : List Nat).Nodup := by decide

end

/-- the boolean dictionary (both entries are created by the first insert) still round-trips -/
theorem dict_bool_insert_lookup (d d' : List Bool) (xs : List Bool) (idx : List Nat)
    (h : insertAllBool d xs = (d', idx)) : idx.map (d'[·]?) = xs.map some ∧ d <+: d' := by
  refine ⟨dict_insert_lookup (ensureBools d) d' xs idx h, ?_⟩
  have hp := insertAll_prefix xs (ensureBools d)
  unfold insertAllBool at h
  rw [h] at hp
  refine List.IsPrefix.trans ?_ hp
  unfold ensureBools
  simp only
  split <;> split <;> simp [List.prefix_append, List.append_assoc]

/-- VIOLATION witness on the mirror: a dictionary pre-loaded with a duplicate entry ([5,5,7], as
    a dictionary page written by another implementation may hold) hands out index 1 for the value
    7 although entry 1 is 5, and index 2 for the new value 9, which is never stored. -/
theorem goDict_preloaded_duplicates_wrong_index :
    let r := goDictInsertAll (goDictInit [5, 5, 7]) [7, 9]
    r.2 = [1, 2] ∧ r.1.values = [5, 5, 7] ∧ r.1.values[1]? = some 5 ∧ r.1.values[2]? = some 7 := by
  decide

end PqModel.Props.C04Plain
