import PqModel.SeekLayers
import PqModel.ReaderSeek
import PqModel.SeekBytes
import PqModel.SeekUnaligned
import PqModel.ReaderCursor
import PqModel.ReadRowsValues

/-! # C08 — the layers above and below the page-granularity model

`Props/C08.lean` proves the property for `FilePages` at page granularity. Here:
* the readers stacked on it — row-range views (`rangePages`), several row groups back to back
  (`multiPages`), the row reader with one cursor per column (`rowGroupRows`, hence `Reader` /
  `GenericReader`) — each through its own abstraction map, as corollaries of the `FilePages`
  refinement (`SeekLayers.lean`, `ReaderSeek.lean`);
* the byte level below it, against the offset index the writer recorded (`SeekBytes.lean`, using
  C02's `layout_wf`);
* pages that do not start on a row boundary and pages without rows (`SeekUnaligned.lean`). -/
namespace PqModel.Props.C08
open PqModel.Seek (Op Chunk)
open PqModel.SeekLayers PqModel.ReaderSeek

universe u

/-- a chunk whose data pages are non-empty -/
abbrev GoodChunk := { c : Chunk // ∀ r ∈ c.rows, 0 < r }

/-- the repaired `FilePages` of a chunk as a machine (`hi`: opened with the offset index loaded) -/
def pagesOf (hi : Bool) (c : GoodChunk) : Machine := filePages c.1 c.2 hi

/-- **range_seek_refines.** A row-range view `[off, off+len)` of any reader that refines the
    reference reader (in particular `FilePages`, `pagesOf`) refines the reference reader over the
    window `W = (R.drop off).take len`: in every reachable state, after any history, `seek k`
    makes it deliver `W.drop k` (refused only beyond the window, state unchanged), reads pop
    non-empty prefixes — the last page cut at the window end — and EOF comes exactly at its end. -/
theorem range_seek_refines {α} (b : Machine.{u}) (off len : Nat) (hwin : off + len ≤ b.total)
    (R : List α) (hR : R.length = b.total) (s : (rangeM b off len hwin).σ)
    (h : (rangeM b off len hwin).Reach s) :
    (rangeM b off len hwin).Refines ((R.drop off).take len) s :=
  Machine.seek_refines _ _ (by simp [rangeM]; omega) s (Machine.reach_inv _ s h)

theorem range_history_refines (b : Machine.{u}) (off len : Nat) (hwin : off + len ≤ b.total) (ops : List Op) :
    Machine.RunOK len (some 0) ops ((rangeM b off len hwin).outs (rangeM b off len hwin).init ops) :=
  Machine.history_refines (rangeM b off len hwin) ops

example (c : GoodChunk) (off len : Nat) (hwin : off + len ≤ Seek.total c.1) (ops : List Op) :
    Machine.RunOK len (some 0) ops
      ((rangeM (pagesOf true c) off len hwin).outs (rangeM (pagesOf true c) off len hwin).init ops) :=
  range_history_refines (pagesOf true c) off len hwin ops

/-- **multi_seek_refines.** `multiPages` over the chunk readers of any number of row groups
    (seek = locate the row group by its row count, open its chunk, seek inside it; read = go on
    with the next chunk at EOF) refines the reference reader over the concatenation `R` of all their
    rows: after any history `seek k` makes it deliver `R.drop k` and is never refused. -/
theorem multi_seek_refines {α} (ms : List Machine.{u}) (R : List α) (hR : R.length = Multi.total ms)
    (s : (multiM ms).σ) (h : (multiM ms).Reach s) : (multiM ms).Refines R s :=
  Machine.seek_refines _ _ hR s (Machine.reach_inv _ s h)

theorem multi_history_refines (ms : List Machine.{u}) (ops : List Op) :
    Machine.RunOK (Multi.total ms) (some 0) ops ((multiM ms).outs (multiM ms).init ops) :=
  Machine.history_refines (multiM ms) ops

/-- the chunks of one column over several row groups, read through `FilePages` -/
example (hi : Bool) (cs : List GoodChunk) (ops : List Op) :
    Machine.RunOK (Multi.total (cs.map (pagesOf hi))) (some 0) ops
      ((multiM (cs.map (pagesOf hi))).outs (multiM (cs.map (pagesOf hi))).init ops) :=
  multi_history_refines _ ops

/-- a range view of a multi-row-group column, as the merge planner builds them -/
example (hi : Bool) (cs : List GoodChunk) (off len : Nat)
    (hwin : off + len ≤ (multiM (cs.map (pagesOf hi))).total) (ops : List Op) :
    Machine.RunOK len (some 0) ops
      ((rangeM (multiM (cs.map (pagesOf hi))) off len hwin).outs (rangeM (multiM (cs.map (pagesOf hi))) off len hwin).init ops) :=
  range_history_refines _ off len hwin ops

/-- **reader_seek_refines.** The row reader (`rowGroupRows`: `RowGroup.Rows`, `Reader`,
    `GenericReader`, row-range views) over one page reader per column — columns with different
    page layouts, each any machine refining the reference reader over the same `T` rows — delivers,
    after ANY history of SeekToRow / ReadRows(n) / Reset, exactly rows `p .. p + min n (T - p)` from
    the reference position `p` (`k` after an accepted seek — nothing beyond the last row —, `0`
    after Reset), the same range from every column; a failed column read makes reads keep failing
    until the next seek. Seeks beyond the last row included: the page readers either all accept
    them (`L = true`: `FilePages` over chunks with pages, `multiPages`; the reader then stands at
    the end) or all refuse them (`L = false`: `rangePages`; the first column refuses and nothing
    has moved).
    Not covered: a row reader whose columns answer such a seek differently (the loop of
    `rowGroupRows.SeekToRow` would leave the accepted columns moved — no constructor of the
    library mixes them), readers without columns, and the value level of `ReadRows` (rows are
    counted per page here; see `read_rows_values` below). -/
theorem reader_seek_refines (T : Nat) (L : Bool) (ms : List Machine.{u}) (hne : ms ≠ [])
    (hT : ∀ m ∈ ms, m.total = T) (hfar : ∀ m ∈ ms, Mode L m) (ops : List ROp) :
    RRunOK T (some 0) ops (routs (rinit ms) ops) := by
  have := rrun_refines T L ops (rinit ms) (rinit_inv T L ms hne hT hfar)
  simpa [rpos, rinit] using this

/-- a chunk that has pages -/
abbrev PagedChunk := { c : Chunk // (∀ r ∈ c.rows, 0 < r) ∧ c.rows ≠ [] }
def pagesOf' (hi : Bool) (c : PagedChunk) : Machine := filePages c.1 c.2.1 hi

/-- one row group: every column its own chunk (own page layout), all of `T` rows -/
example (hi : Bool) (T : Nat) (cols : List PagedChunk) (hne : cols ≠ [])
    (hT : ∀ c ∈ cols, Seek.total c.1 = T) (ops : List ROp) :
    RRunOK T (some 0) ops (routs (rinit (cols.map (pagesOf' hi))) ops) :=
  reader_seek_refines T true _ (by simpa using hne)
    (by intro m hm; simp only [List.mem_map] at hm; obtain ⟨c, hc, rfl⟩ := hm; exact hT c hc)
    (by intro m hm; simp only [List.mem_map] at hm; obtain ⟨c, _, rfl⟩ := hm
        exact filePages_lenient c.1 c.2.1 hi c.2.2) ops

/-- a file of several row groups: every column is a `multiPages` over its chunks -/
example (hi : Bool) (T : Nat) (cols : List (List GoodChunk)) (hne : cols ≠ [])
    (hT : ∀ cs ∈ cols, Multi.total (cs.map (pagesOf hi)) = T) (ops : List ROp) :
    RRunOK T (some 0) ops (routs (rinit (cols.map fun cs => multiM (cs.map (pagesOf hi)))) ops) :=
  reader_seek_refines T true _ (by simpa using hne)
    (by intro m hm; simp only [List.mem_map] at hm; obtain ⟨cs, hc, rfl⟩ := hm; exact hT cs hc)
    (by intro m hm; simp only [List.mem_map] at hm; obtain ⟨cs, _, rfl⟩ := hm; exact multiM_lenient _) ops

/-- the rows of a row-range view `[off, off+len)` of a row group (strict page readers) -/
example (hi : Bool) (off len : Nat) (cols : List { c : GoodChunk // off + len ≤ Seek.total c.1 }) (hne : cols ≠ [])
    (ops : List ROp) :
    RRunOK len (some 0) ops (routs (rinit (cols.map fun c => rangeM (pagesOf hi c.1) off len c.2)) ops) :=
  reader_seek_refines len false _ (by simpa using hne)
    (by intro m hm; simp only [List.mem_map] at hm; obtain ⟨c, _, rfl⟩ := hm; rfl)
    (by intro m hm; simp only [List.mem_map] at hm; obtain ⟨c, _, rfl⟩ := hm; exact rangeM_strict _ _ _ _) ops

/-- non-vacuity of the hypotheses: two columns of 30 rows cut into pages differently -/
example : ∀ r ∈ ({ rows := [10, 10, 10], dict := false } : Chunk).rows, 0 < r := by decide
example : Seek.total { rows := [10, 10, 10], dict := false } = Seek.total { rows := [7, 23], dict := true } := by decide

/-- **seek_byte_position** (byte level, tied to C02's `layout_wf`): see `SeekBytes.lean`. For every
    chunk laid out by the writer at `start` and every stream state (section offset, buffered bytes),
    `SeekToRow(k)` selects from the recorded offset index the page the page-granularity model
    selects, and after the reposition block — nothing / in-buffer `Discard` / real seek — the
    decoder stands on the first byte of that page. -/
theorem seek_byte_position (start : Nat) (ps : List Layout.PageOp) (k : Nat) (s : SeekBytes.Stream)
    (hs : s.unread ≤ s.pos) (hne : SeekBytes.rowsOf ps ≠ []) :
    let locs := (Layout.chunkMeta start ps).locs
    let t := SeekBytes.targetB locs k
    t = Seek.target (SeekBytes.rowsOf ps) k ∧
    ∃ loc, (Layout.specLocs start 0 ps)[t]? = some loc ∧
      start + SeekBytes.logical (SeekBytes.reposition start locs t s) = loc.offset ∧
      loc.firstRow = Seek.firstRow (SeekBytes.rowsOf ps) t ∧ loc.firstRow ≤ k :=
  SeekBytes.seek_byte_position start ps k s hs hne

/-- **unaligned_seek_refines** (v1 pages of a repeated column, no offset index; pages may begin
    with the tail of a row and may hold no row start at all): after `SeekToRow(k)` the next value
    delivered is the first value of row `k`, and every read returns the values of the stream from
    the reader's position on (`ReadOK`: a non-empty run of the stream, the position advancing by
    its length; EOF only at the end of the stream). -/
theorem unaligned_seek_refines (chunk : List (List Nat)) (hne : ∀ p ∈ chunk, p ≠ [])
    (hwf : chunk.flatten.head? = some 0 ∨ chunk.flatten = []) :
    (∀ k, SeekUnaligned.vpos chunk (SeekUnaligned.seek k) = SeekUnaligned.nthZero chunk.flatten k) ∧
    (∀ s : SeekUnaligned.St, s.pos ≤ chunk.length →
      SeekUnaligned.ReadOK chunk (SeekUnaligned.vpos chunk s) (SeekUnaligned.readPage chunk s)) :=
  ⟨fun k => SeekUnaligned.seek_spec chunk k hwf, fun s hp => SeekUnaligned.readPage_spec chunk hne s hp⟩

example : (SeekUnaligned.readPage SeekUnaligned.demo (SeekUnaligned.seek 2)).2 = .page [0] := by decide

/-! ### the deprecated `Reader`: two row readers, one cursor (`ReaderCursor.lean`) -/
open PqModel.ReaderCursor in
/-- **reader_cursor_refines.** `parquet.Reader` (and `GenericReader`, which wraps it) keeps a row
    reader for `ReadRows` and another for `Read(&v)` behind one `rowIndex`. Over any two row readers
    of the same `T` rows that refine the reference row reader and accept every seek, every history
    that mixes SeekToRow / ReadRows(n) / Read / Reset in any order is a run of ONE row counter:
    `ReadRows` after `Read` continues where `Read` stopped and vice versa, a seek moves both, and a
    failed read delivers nothing and leaves the position where it was. -/
theorem reader_cursor_refines (mf mr : RowM.{u}) (T : Nat) (hf : mf.total = T) (hr : mr.total = T)
    (ops : List XOp) :
    XRunOK T 0 ops (outs step (init mf.toRowR mr.toRowR) ops) :=
  run_refines mf mr T hf hr ops _ (init_inv mf mr)

open PqModel.ReaderCursor in
/-- `Reader` over a file of several row groups: both sub-readers are `rowGroupRows` over `multiPages` -/
example (hi : Bool) (T : Nat) (cols : List (List GoodChunk)) (hne : cols ≠ [])
    (hT : ∀ cs ∈ cols, Multi.total (cs.map (pagesOf hi)) = T) (ops : List XOp) :
    let ms := cols.map fun cs => multiM (cs.map (pagesOf hi))
    ∀ (h1 : ms ≠ []) (h2 : ∀ m ∈ ms, m.total = T) (h3 : ∀ m ∈ ms, m.Lenient),
    XRunOK T 0 ops (outs step (init (rowsM T ms h1 h2 h3).toRowR (rowsM T ms h1 h2 h3).toRowR) ops) :=
  fun h1 h2 h3 => reader_cursor_refines (rowsM T _ h1 h2 h3) (rowsM T _ h1 h2 h3) T rfl rfl ops

open PqModel.ReaderCursor in
/-- the same `Reader` with the seek taken out of `ReadRows` is refuted: `Read(&v)` then `ReadRows(1)`
    delivers row 0 twice -/
example : ¬ XRunOK 10 0 mixed (outs stepNoSeek (init (refR 10) (refR 10)) mixed) := by
  intro h
  have h0 : outs stepNoSeek (init (refR 10) (refR 10)) mixed = [.rows 0 1, .rows 0 1] := by decide
  rw [h0] at h
  cases h with
  | cons a b =>
    rcases a with ⟨_, rfl⟩ | ⟨a, _⟩
    · cases b with
      | cons c _ =>
        rcases c with ⟨c, _⟩ | ⟨c, _⟩
        · simp at c
        · cases c
    · cases a

/-! ### the value level of `ReadRows` (`ReadRowsValues.lean`) -/
open PqModel.ReadRowsValues in
/-- **read_rows_values.** The loop of `rowGroupRows.ReadRows` over one column rebuilds rows from
    repetition levels: whatever the batches `ReadValues` hands out (page ends, a value buffer of any
    size, rows spanning several refills), `ReadRows(n)` appends to row `i` exactly the values of
    the column's `i`-th remaining row for `i < min n |rows|`, counts `min n |rows|` rows and leaves
    the column on the first value of the next row. -/
theorem read_rows_values {α : Type} (rep : α → Nat) (n : Nat) (c : ColV α) (rows : List (List α))
    (hwf : ∀ r ∈ rows, RowWF rep r) (hs : c.stream = rows.flatten) (hne : ∀ b ∈ c.src, b ≠ []) :
    (colRows rep n c).2 = rows.take n ++ List.replicate (n - rows.length) [] ∧
    rowCount (colRows rep n c).2 = min n rows.length ∧
    (colRows rep n c).1.stream = (rows.drop n).flatten :=
  let h := PqModel.ReadRowsValues.read_rows_values rep n c rows hwf hs hne
  ⟨h.1, h.2.1, h.2.2.1⟩

example : (PqModel.ReadRowsValues.colRows id 2 PqModel.ReadRowsValues.demo).2 = [[0, 1, 1], [0]] := by decide

end PqModel.Props.C08
