import PqModel.SeekLayers
import PqModel.ReaderSeek
import PqModel.SeekBytes
import PqModel.SeekUnaligned

/-! # C08 — the layers above and below the page-granularity model

`Props/C08.lean` proves the property for `FilePages` at page granularity. Here:
* the readers stacked on it — row-range views (`rangePages`), several row groups back to back
  (`multiPages`), the row reader with one cursor per column (`rowGroupRows`, hence `Reader` /
  `GenericReader`) — each through its own abstraction map, as corollaries of the `FilePages`
  refinement (`SeekLayers.lean`, `ReaderSeek.lean`);
* the byte level below it, against the offset index the writer recorded (`SeekBytes.lean`, using
  C02's `layout_wf`);
* pages that do not start on a row boundary and pages without rows (`SeekUnaligned.lean`). -/
namespace PqModel.Props.C08
open PqModel.Seek (Op Chunk)
open PqModel.SeekLayers PqModel.ReaderSeek

universe u

/-- a chunk whose data pages are non-empty -/
abbrev GoodChunk := { c : Chunk // ∀ r ∈ c.rows, 0 < r }

/-- the repaired `FilePages` of a chunk as a machine (`hi`: opened with the offset index loaded) -/
def pagesOf (hi : Bool) (c : GoodChunk) : Machine := filePages c.1 c.2 hi

/-- **range_seek_refines.** A row-range view `[off, off+len)` of any reader that refines the
    reference reader (in particular `FilePages`, `pagesOf`) refines the reference reader over the
    window `W = (R.drop off).take len`: in every reachable state, after any history, `seek k`
    makes it deliver `W.drop k` (refused only beyond the window, state unchanged), reads pop
    non-empty prefixes — the last page cut at the window end — and EOF comes exactly at its end. -/
theorem range_seek_refines {α} (b : Machine.{u}) (off len : Nat) (hwin : off + len ≤ b.total)
    (R : List α) (hR : R.length = b.total) (s : (rangeM b off len hwin).σ)
    (h : (rangeM b off len hwin).Reach s) :
    (rangeM b off len hwin).Refines ((R.drop off).take len) s :=
  Machine.seek_refines _ _ (by simp [rangeM]; omega) s (Machine.reach_inv _ s h)

theorem range_history_refines (b : Machine.{u}) (off len : Nat) (hwin : off + len ≤ b.total) (ops : List Op) :
    Machine.RunOK len (some 0) ops ((rangeM b off len hwin).outs (rangeM b off len hwin).init ops) :=
  Machine.history_refines (rangeM b off len hwin) ops

example (c : GoodChunk) (off len : Nat) (hwin : off + len ≤ Seek.total c.1) (ops : List Op) :
    Machine.RunOK len (some 0) ops
      ((rangeM (pagesOf true c) off len hwin).outs (rangeM (pagesOf true c) off len hwin).init ops) :=
  range_history_refines (pagesOf true c) off len hwin ops

/-- **multi_seek_refines.** `multiPages` over the chunk readers of any number of row groups
    (seek = locate the row group by its row count, open its chunk, seek inside it; read = go on
    with the next chunk at EOF) refines the reference reader over the concatenation `R` of all their
    rows: after any history `seek k` makes it deliver `R.drop k` and is never refused. -/
theorem multi_seek_refines {α} (ms : List Machine.{u}) (R : List α) (hR : R.length = Multi.total ms)
    (s : (multiM ms).σ) (h : (multiM ms).Reach s) : (multiM ms).Refines R s :=
  Machine.seek_refines _ _ hR s (Machine.reach_inv _ s h)

theorem multi_history_refines (ms : List Machine.{u}) (ops : List Op) :
    Machine.RunOK (Multi.total ms) (some 0) ops ((multiM ms).outs (multiM ms).init ops) :=
  Machine.history_refines (multiM ms) ops

/-- the chunks of one column over several row groups, read through `FilePages` -/
example (hi : Bool) (cs : List GoodChunk) (ops : List Op) :
    Machine.RunOK (Multi.total (cs.map (pagesOf hi))) (some 0) ops
      ((multiM (cs.map (pagesOf hi))).outs (multiM (cs.map (pagesOf hi))).init ops) :=
  multi_history_refines _ ops

/-- a range view of a multi-row-group column, as the merge planner builds them -/
example (hi : Bool) (cs : List GoodChunk) (off len : Nat)
    (hwin : off + len ≤ (multiM (cs.map (pagesOf hi))).total) (ops : List Op) :
    Machine.RunOK len (some 0) ops
      ((rangeM (multiM (cs.map (pagesOf hi))) off len hwin).outs (rangeM (multiM (cs.map (pagesOf hi))) off len hwin).init ops) :=
  range_history_refines _ off len hwin ops

-- OPEN (full statement): reader_seek_refines for every history, including seeks beyond the last
--   row: `RRunOK T (some 0) ops (routs (rinit ms) ops)` for all `ops`.
/-- **reader_seek_refines, partial.** The row reader (`rowGroupRows`: `RowGroup.Rows`,
    `Reader`, `GenericReader`) over one page reader per column — columns with different page
    layouts, each any machine refining the reference reader over the same `T` rows: `FilePages`
    for one row group, `multiPages` for a file of several — delivers, after any history of
    SeekToRow / ReadRows(n) / Reset, exactly rows `p .. p + min n (T - p)` from the reference
    position `p` (`k` after a seek, `0` after Reset), the same range from every column; a failed
    column read makes reads keep failing until the next seek.
    Missing for the full statement: seeks beyond the last row (`k > T`: the machine interface does
    not say that all columns refuse or accept alike), readers without columns, and the value-level
    inner loop of `ReadRows` (rows are counted per page here; what a row is inside a repeated page
    is `slice_spec`). -/
theorem reader_seek_refines_partial (T : Nat) (ms : List Machine.{u}) (hne : ms ≠ [])
    (hT : ∀ m ∈ ms, m.total = T) (ops : List ROp) (hops : ops.all (opOK T) = true) :
    RRunOK T (some 0) ops (routs (rinit ms) ops) := by
  have := rrun_refines T ops (rinit ms) (rinit_inv T ms hne hT) hops
  simpa [rpos, rinit] using this

/-- one row group: every column its own chunk (own page layout), all of `T` rows -/
example (hi : Bool) (T : Nat) (cols : List GoodChunk) (hne : cols ≠ [])
    (hT : ∀ c ∈ cols, Seek.total c.1 = T) (ops : List ROp) (hops : ops.all (opOK T) = true) :
    RRunOK T (some 0) ops (routs (rinit (cols.map (pagesOf hi))) ops) :=
  reader_seek_refines_partial T _ (by simpa using hne)
    (by intro m hm; simp only [List.mem_map] at hm; obtain ⟨c, hc, rfl⟩ := hm; exact hT c hc) ops hops

/-- a file of several row groups: every column is a `multiPages` over its chunks -/
example (hi : Bool) (T : Nat) (cols : List (List GoodChunk)) (hne : cols ≠ [])
    (hT : ∀ cs ∈ cols, Multi.total (cs.map (pagesOf hi)) = T) (ops : List ROp) (hops : ops.all (opOK T) = true) :
    RRunOK T (some 0) ops (routs (rinit (cols.map fun cs => multiM (cs.map (pagesOf hi)))) ops) :=
  reader_seek_refines_partial T _ (by simpa using hne)
    (by intro m hm; simp only [List.mem_map] at hm; obtain ⟨cs, hc, rfl⟩ := hm; exact hT cs hc) ops hops

/-- non-vacuity of the hypotheses: two columns of 30 rows cut into pages differently -/
example : ∀ r ∈ ({ rows := [10, 10, 10], dict := false } : Chunk).rows, 0 < r := by decide
example : Seek.total { rows := [10, 10, 10], dict := false } = Seek.total { rows := [7, 23], dict := true } := by decide

/-- **seek_byte_position** (byte level, tied to C02's `layout_wf`): see `SeekBytes.lean`. For every
    chunk laid out by the writer at `start` and every stream state (section offset, buffered bytes),
    `SeekToRow(k)` selects from the recorded offset index the page the page-granularity model
    selects, and after the reposition block — nothing / in-buffer `Discard` / real seek — the
    decoder stands on the first byte of that page. -/
theorem seek_byte_position (start : Nat) (ps : List Layout.PageOp) (k : Nat) (s : SeekBytes.Stream)
    (hs : s.unread ≤ s.pos) (hne : SeekBytes.rowsOf ps ≠ []) :
    let locs := (Layout.chunkMeta start ps).locs
    let t := SeekBytes.targetB locs k
    t = Seek.target (SeekBytes.rowsOf ps) k ∧
    ∃ loc, (Layout.specLocs start 0 ps)[t]? = some loc ∧
      start + SeekBytes.logical (SeekBytes.reposition start locs t s) = loc.offset ∧
      loc.firstRow = Seek.firstRow (SeekBytes.rowsOf ps) t ∧ loc.firstRow ≤ k :=
  SeekBytes.seek_byte_position start ps k s hs hne

/-- **unaligned_seek_refines** (v1 pages of a repeated column, no offset index; pages may begin
    with the tail of a row and may hold no row start at all): after `SeekToRow(k)` the next value
    delivered is the first value of row `k`, and every read returns the values of the stream from
    the reader's position on (`ReadOK`: a non-empty run of the stream, the position advancing by
    its length; EOF only at the end of the stream). -/
theorem unaligned_seek_refines (chunk : List (List Nat)) (hne : ∀ p ∈ chunk, p ≠ [])
    (hwf : chunk.flatten.head? = some 0 ∨ chunk.flatten = []) :
    (∀ k, SeekUnaligned.vpos chunk (SeekUnaligned.seek k) = SeekUnaligned.nthZero chunk.flatten k) ∧
    (∀ s : SeekUnaligned.St, s.pos ≤ chunk.length →
      SeekUnaligned.ReadOK chunk (SeekUnaligned.vpos chunk s) (SeekUnaligned.readPage chunk s)) :=
  ⟨fun k => SeekUnaligned.seek_spec chunk k hwf, fun s hp => SeekUnaligned.readPage_spec chunk hne s hp⟩

example : (SeekUnaligned.readPage SeekUnaligned.demo (SeekUnaligned.seek 2)).2 = .page [0] := by decide

end PqModel.Props.C08
