import PqModel.Generated.Facts
import PqModel.Props.FactsCheckC13

/-! # C13 — the access-path chains, derived from the call graph (family `entrychains` of factgen)

`FactsCheckC13.entryChains` (which callers of page readers a page-load error crosses on each access
path of the fault enumeration) was written by hand and only its coverage of the extracted caller
table was checked. `tools/factgen/fam_entrychains.go` now builds a call graph of the root package
(go/types; interface calls by class-hierarchy analysis, function values by signature: a sound
OVER-approximation of the calls inside the package) and emits

* `pageReadingFuncs` — the functions that call a page reader / the functions of file.go with a read site;
* `readerLayers` — for each of them, the ones directly below it;
* `readEntryClasses` — every function with an exported name from which a page loader is reachable,
  grouped by the page-reading functions it can reach.

The theorems below are `decide`d against what the source says now. What the graph gives exactly is
the bottom of every chain (the loader is a leaf; `ReadDictionary → readDictionary → readPage`;
`FilePages.ReadPage → readPageInSequence`; the wrappers reach `FilePages.ReadPage` only through
`Pages.ReadPage`); above the `Page` / `Pages` / `Rows` interfaces class-hierarchy analysis merges the
access paths (one class of 272 entry points that may reach every reader), so for the upper part the
statement is an inclusion: every reviewed chain lies inside the generated reach of each of its entry
points, and every generated chain ends in the verifying loader. -/
namespace PqModel.Props.FactsCheckC13Chains
open PqModel.Generated.Facts PqModel.Props.FactsCheckC13

def subset (a b : List String) : Bool := a.all b.contains
def sameSet (a b : List String) : Bool := subset a b && subset b a

/-- the generated chain of an entry point: the page-reading functions it can reach -/
def reachOf (e : String) : Option (List String) :=
  (readEntryClasses.find? (·.2.contains e)).map (·.1)

/-- the two extractors agree on what they talk about: the functions in which family `entrychains`
    sees a call to a page reader are the callers of `pageReaderCalls`, and the functions of file.go in
    which it sees a read site are the page loaders and the other read sites of family `pageloaders` -/
theorem interest_funcs_agree :
    sameSet ((pageReadingFuncs.filter (·.2.1)).map (·.1)) (pageReaderCalls.map (·.1)) = true ∧
    sameSet ((pageReadingFuncs.filter (·.2.2)).map (·.1))
      (pageLoaders.map (·.1) ++ otherReadSites.map (·.1)) = true ∧
    readerLayers.map (·.1) = pageReadingFuncs.map (·.1) := by decide

/-- the bottom of the chains, exactly: the loader calls back into nothing that reads pages; the
    dictionary path is `ReadDictionary → readDictionary → readPage` (or the encrypted envelope, C18);
    the sequential path enters through `readPageInSequence`; the data-page decoders only go back for the
    dictionary; the column / range / convert wrappers reach a file only through `Pages.ReadPage` -/
theorem loader_layers_as_reviewed :
    readerLayers.lookup "FilePages.readPage" = some [] ∧
    readerLayers.lookup "readDecryptedEnvelopeFrom" = some [] ∧
    readerLayers.lookup "FilePages.ReadDictionary" = some ["FilePages.readDictionary"] ∧
    readerLayers.lookup "FilePages.readDictionary" = some ["FilePages.readPage", "readDecryptedEnvelopeFrom"] ∧
    readerLayers.lookup "FilePages.ReadPage" = some ["FilePages.readPageInSequence"] ∧
    readerLayers.lookup "FilePages.readDataPageV1" = some ["FilePages.readDictionary"] ∧
    readerLayers.lookup "FilePages.readDataPageV2" = some ["FilePages.readDictionary"] ∧
    readerLayers.lookup "columnPages.ReadPage" = some ["FilePages.ReadPage"] ∧
    readerLayers.lookup "convertedPages.ReadPage" =
      some ["FilePages.ReadPage", "columnPages.ReadPage", "multiPages.ReadPage", "rangePages.ReadPage"] ∧
    readerLayers.lookup "rangePages.ReadPage" =
      some ["FilePages.ReadPage", "columnPages.ReadPage", "convertedPages.ReadPage", "multiPages.ReadPage"] := by
  decide

/-- every direct call to a page loader that family `pageloaders` lists (the two entries of the mirror
    `PageLoad.Path`) is an edge of the layer graph: the two extractors see the same bottom layer -/
theorem loader_calls_are_layer_edges :
    pageLoaderCalls.all (fun c => ((readerLayers.lookup c.1).getD []).contains c.2) = true ∧
    pageLoaderCalls.length = 2 := by decide

/-! ## closure recomputed in Lean

The generator emits the one-layer relation and the full reach; the reach of an entry point that is
itself a page-reading function must be the closure of the layers (computed here, fuel = number of
functions). -/

def closeStep (seen : List String) : List String :=
  (seen ++ seen.flatMap (fun f => (readerLayers.lookup f).getD [])).eraseDups

def closure (f : String) : List String := Nat.repeat closeStep readerLayers.length [f]

/-- for every entry point that is itself a page-reading function, the generated reach is the closure of
    the generated layers (10 such entry points) -/
theorem reach_is_closure_of_layers :
    ((readEntryClasses.flatMap (fun c => c.2.map (fun e => (e, c.1)))).filter
        (fun ec => (readerLayers.lookup ec.1).isSome)).all
      (fun ec => sameSet ec.2 (closure ec.1)) = true ∧
    ((readEntryClasses.flatMap (·.2)).filter (fun e => (readerLayers.lookup e).isSome)).length = 10 := by
  decide

/-! ## generated chains against the reviewed ones -/

/-- the exported functions through which each access path of `entryChains` enters the library (same
    order as `entryChains`; reviewed against `harness/props/c13_entry.go`; `Column.Pages` only builds the
    lazy `columnPages`, whose `ReadPage` is the function that reaches a file) -/
def reviewedEntries : List (List String) := [
  ["FileColumnChunk.Pages", "FilePages.ReadPage", "FileRowGroup.Rows", "GenericReader.Read", "Reader.Read",
   "Reader.ReadRows", "NewRowGroupReader", "CopyRows"],
  ["FilePages.ReadDictionary"],
  ["columnPages.ReadPage"],
  ["MultiRowGroup", "MergeRowGroups", "multiPages.ReadPage", "Reader.ReadRows"],
  ["ConvertRowGroup", "convertedPages.ReadPage"],
  ["AsyncPages"],
  ["CopyPages"],
  ["PrintColumnChunk"],
  ["columnChunkValueReader.ReadValues"],
  ["rangePages.ReadPage"]]

/-- **generated_chains_cover_reviewed**: every access path of the reviewed table enters through
    functions the generator found as read entry points, and every caller the reviewed chain says the
    error crosses lies in the generated reach of each of them (the reviewed chains are feasible in the
    call graph of the source as it stands); the dictionary path is generated EXACTLY -/
theorem generated_chains_cover_reviewed :
    reviewedEntries.length = entryChains.length ∧
    (entryChains.zip reviewedEntries).all (fun ce => !ce.2.isEmpty && ce.2.all (fun e =>
      match reachOf e with
      | some r => subset ce.1.2 r
      | none => false)) = true ∧
    reachOf "FilePages.ReadDictionary" =
      some ["FilePages.ReadDictionary", "FilePages.readDictionary", "FilePages.readPage", "readDecryptedEnvelopeFrom"] := by
  decide

/-- the other read sites of file.go a read entry point may reach: footer / index reads (`readAt`, the
    optimistic reader, the bloom prefetch of OpenFile) and the AES-GCM envelope (C18) — none fills a page
    buffer (`other_read_sites_known`) -/
def otherReaders : List String :=
  ["OpenFile", "optimisticFileReaderAt.ReadAt", "readAt", "readDecryptedEnvelopeFrom"]

/-- **every_chain_ends_in_a_verifying_loader**: every exported function from which a page body can be
    read reaches the loader that compares checksums, and every function with a read site it can reach
    is either such a verifying loader or one of the four known non-page readers; the chain never ends in
    a function that fills a page buffer without the comparison. Not vacuous: 275 entry points. -/
theorem every_chain_ends_in_a_verifying_loader :
    readEntryClasses.all (fun c =>
      c.1.any (fun f => pageLoaders.lookup f == some true) &&
      c.1.all (fun f =>
        match pageReadingFuncs.lookup f with
        | some (_, true) => pageLoaders.lookup f == some true || otherReaders.contains f
        | some (true, false) => true
        | _ => false)) = true ∧
    (readEntryClasses.flatMap (·.2)).length ≥ 200 := by decide +kernel

/-- every caller of a page reader is below some exported entry point (none is reachable from
    unexported code only), and every function an entry point reaches is in the caller table -/
theorem every_caller_below_an_entry :
    (pageReaderCalls.map (·.1)).all (fun fn => readEntryClasses.any (·.1.contains fn)) = true := by decide

/-- **entry_classes_as_reviewed**: the entry points fall in exactly four classes: `ReadDictionary`
    (exact chain), `CopyPages` and `PrintColumnChunk` (the common reach plus themselves), and all the
    others, which — through the `Page`, `Pages` and `Rows` interfaces — may reach every caller of a page
    reader except those two tools and `ReadDictionary`. A new class (an exported function reaching pages
    some other way) breaks this obligation and has to be given an access path in the enumeration. -/
theorem entry_classes_as_reviewed :
    readEntryClasses.map (fun c => if c.2.length ≤ 3 then c.2 else []) =
      [["FilePages.ReadDictionary"], [], ["CopyPages"], ["PrintColumnChunk"]] ∧
    (readEntryClasses.map (·.1))[1]? =
      some ((pageReadingFuncs.map (·.1)).filter
        (fun f => !["CopyPages", "PrintColumnChunk", "FilePages.ReadDictionary"].contains f)) ∧
    (readEntryClasses.map (·.1))[2]? = (readEntryClasses.map (·.1))[1]?.map (fun r => "CopyPages" :: r) := by
  decide +kernel

end PqModel.Props.FactsCheckC13Chains
