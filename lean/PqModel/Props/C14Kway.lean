import PqModel.MergeKFaultProof
import PqModel.MergeKFaultRetry

/-! # C14 (part "kway") — the k-way merge reader never turns a failing input into a regular end

MIRROR `RdK.MK` (`mergedRowReader.initialize` / `ReadRows` / `replayGames` / `playInitialGames`,
merge.go:827-1022, with `bufferedRowReader.read`, merge.go:1073-1101) over any number of SPEC sources
`Rd.Src` (any rows, a fault after any number of rows, the error alone or along with rows, io.EOF
eager or not) and any sequence of buffer lengths of the consumer. -/
namespace PqModel.Props.C14Kway
open PqModel.IoFault.Rd PqModel.IoFault.RdK

/-- **kway_eof_complete.** A session of `mergedRowReader.ReadRows` that ends with io.EOF (no call
reported an error) has handed out, for each input, exactly the rows of that input in their order. -/
theorem kway_eof_complete (srcs : List Src) (caps : List Nat)
    (h : (session caps (MK.new srcs)).2.1 = .eof) (i : Nat) (hi : i < srcs.length) :
    projK i (session caps (MK.new srcs)).1.flatten = (srcs.getD i dsrc).rows := by
  have := (session_eof srcs caps (MK.new srcs) [] (Or.inl ⟨rfl, rfl⟩) h i hi).1
  simpa using this

/-- **kway_fault_reported.** If one of the inputs fails before it has delivered all its rows, no
session ends with io.EOF: it ends with the error (or is not finished yet). -/
theorem kway_fault_reported (srcs : List Src) (caps : List Nat) (i : Nat) (hi : i < srcs.length)
    (hb : (srcs.getD i dsrc).Bites) : (session caps (MK.new srcs)).2.1 ≠ .eof :=
  fun h => (session_eof srcs caps (MK.new srcs) [] (Or.inl ⟨rfl, rfl⟩) h i hi).2 hb

/-- **kway_tree_keeps_players.** What the two theorems above rest on: `playInitialGames` stores
every live input exactly once among the winner and the losers (as many players as live leaves, and
each live leaf is one of them), whatever the heads are and whatever the `losers` slice held; and
`replayGames` permutes winner and losers. So `count` reaches 0 only when every input answered
io.EOF. -/
theorem kway_tree_keeps_players (bufs : List PqModel.Merge.Buf) (leaves L : List Int)
    (hl : leaves.length = bufs.length) (hL : L.length = bufs.length) :
    let g := PqModel.Merge.playInitialGames bufs leaves bufs.length 0 L
    nn (g.1 :: g.2) = nn leaves ∧ (∀ x, 0 ≤ x → x ∈ leaves → x ∈ g.1 :: g.2) ∧
    ∀ (f o : Nat) (w : Int) (L' : List Int),
      ((PqModel.Merge.replayLoop bufs f o w L').1 :: (PqModel.Merge.replayLoop bufs f o w L').2).Perm (w :: L') :=
  ⟨init_tree_count bufs leaves hl L hL, fun x hx hm => init_tree_mem bufs leaves hl L hL x hx hm,
   replayLoop_perm bufs⟩

/-- satisfiable. Three inputs; input 2 holds two rows and its source fails after the first: the
first call hands out row 1 of input 2 (its buffer runs empty, the call returns), the refill of the
second call meets the error and the call reports it. -/
def sA : Src := ⟨[5], none, false, false⟩
def sB : Src := ⟨[7], none, true, false⟩
def sFails : Src := ⟨[1, 2], some 1, false, false⟩
def sGood : Src := ⟨[1, 2], none, false, false⟩

example : sFails.Bites := ⟨1, rfl, by decide⟩
example : (session [8, 8, 8] (MK.new [sA, sB, sFails])).1 = [[(2, 1)], []] ∧
    (session [8, 8, 8] (MK.new [sA, sB, sFails])).2.1 = .err := by decide
example : (session [8, 8, 8, 8, 8] (MK.new [sA, sB, sGood])).2.1 = .eof ∧
    (session [8, 8, 8, 8, 8] (MK.new [sA, sB, sGood])).1.flatten = [(2, 1), (2, 2), (0, 5), (1, 7)] := by decide

/-- an error met by `initialize` sets `count = 0` (merge.go:844): the call reports it, and a
consumer that calls again is answered io.EOF with no rows. -/
example : ((MK.new [sA, ⟨[3], some 0, false, false⟩, sB]).readRows 8).1 = ([], .err) ∧
    (((MK.new [sA, ⟨[3], some 0, false, false⟩, sB]).readRows 8).2.readRows 8).1 = ([], .eof) := by decide

/-- **kway_no_rows_after_error.** From ANY state of the mirror: once a `ReadRows` call has answered
an error other than io.EOF, no later call hands out a row, however often and with whatever buffer
lengths the consumer calls again (the SPEC source is sticky); and when the error came from the loop
(the reader was initialised) no later call answers io.EOF: it answers the error again (nil for
`len(rows) = 0`). An error of `initialize` sets `count = 0`: the later calls answer io.EOF with no rows
(last `example` above). -/
theorem kway_no_rows_after_error (st : MK) (cap : Nat) (h : (st.readRows cap).1.2 = .err) (caps : List Nat) :
    ∀ x ∈ sessionAll caps (st.readRows cap).2, x.1 = [] ∧
      (st.initialized = true → x.2 = .nil ∨ x.2 = .err) := by
  intro x hx
  have := sessionAll_dead caps _ (readRows_err_dead st cap h) x hx
  refine ⟨this.1, fun hi => this.2 ?_⟩
  rw [readRows_of_init st cap hi] at h ⊢
  exact ((loop_err (st.fuel cap) cap st).2 h).1

example : sessionAll [8, 8, 0, 8] (MK.new [sA, sB, sFails]) =
    [([(2, 1)], .nil), ([], .err), ([], .nil), ([], .err)] := by decide

end PqModel.Props.C14Kway
