import PqModel.SearchMultiIndex
import PqModel.SearchMultiNaN

/-! # C06 over several row groups — `multiColumnIndex` / `multiOffsetIndex` in full (multi_row_group.go)

MIRRORS (`SearchMultiIndex.lean`): `mapIdx`/`mapIdxGo` (`mapPageIndex` of both index views: member number and local
page for ANY `int`, fallback branch included), `multiAt` (every forwarding accessor: NullCount, NullPage, MinValue,
MaxValue, Offset, CompressedPageSize), `rowOffsetsFrom`/`multiFirstRowAt` (FirstRowIndex), `chunkOfPages` (a member
as the writer indexes its page values); from `SearchMulti.lean`: `multiIsAscending`, `findMultiGo`.
SPEC: `List.flatten`, `shiftedRows`, `concat`, `contains`. -/
namespace PqModel.Props.C06Multi
open PqModel.Search PqModel.Stats

/-- Every forwarding accessor of the two multi indexes (NullCount, NullPage, MinValue, MaxValue, Offset,
    CompressedPageSize), asked for a page number in `0 .. NumPages()-1`, answers the entry of the concatenation of the
    members' own answers — any number of members, members without pages anywhere. -/
theorem multi_accessor_is_concatenation {α} (ls : List (List α)) (p : Nat) (hp : p < ls.flatten.length) :
    multiAt ls (p : Int) = ls.flatten[p]? :=
  multiAt_flatten ls p hp

/-- members (no page) (7, 8) (no page) (9): page 2 is the 9 of the fourth member -/
example : multiAt [[], [7, 8], [], [9]] 2 = some 9 ∧ ([[], [7, 8], [], [9]] : List (List Nat)).flatten[2]? = some 9 := by
  decide

/-- The accessor mirror of this file and the view `findMultiGo` searches (`multiMinAt` / `multiMaxAt` / `multiNullAt`
    of `SearchMulti.lean`) are two transliterations of the same code; they agree on every page `Find` reads. -/
theorem multi_accessor_is_the_view_find_reads (cs : List Chunk) (hwf : ∀ c ∈ cs, c.WF) (p : Nat) (hp : p < total cs) :
    multiAt (cs.map (·.ix.mins)) (p : Int) = some (multiMinAt cs p) ∧
    multiAt (cs.map (·.ix.maxs)) (p : Int) = some (multiMaxAt cs p) ∧
    multiAt (cs.map (·.nulls)) (p : Int) = some (multiNullAt cs p) :=
  multiAt_eq_view cs hwf p hp

/-- Every OTHER `int` page number (negative, `NumPages()` and beyond) takes the out-of-bounds branch of
    `mapPageIndex`: the last page of the last member when it has one, else page 0 of member 0 (`none` = member 0 is
    asked for a page it does not have). -/
theorem multi_accessor_out_of_range {α} (ls : List (List α)) (p : Int) (hp : p < 0 ∨ (ls.flatten.length : Int) ≤ p) :
    multiAt ls p = if ls.getLastD [] ≠ [] then (ls.getLastD []).getLast? else (ls.headD [])[0]? :=
  multiAt_fallback ls p hp

/-- OBSERVATION on mirror and code alike (outside C06: `Find` only asks for pages in range): the branch commented
    "return last valid position" answers the FIRST page of the index when the last member has no page. -/
theorem multi_fallback_is_not_the_last_page :
    multiAt [[10, 20], ([] : List Nat)] 2 = some 10 ∧ multiAt [[10, 20], ([] : List Nat)] (-1) = some 10 ∧
    multiAt [[10, 20]] 2 = some 20 ∧ multiAt [([] : List Nat), [10], []] 1 = none :=
  fallback_not_last_page

/-- `multiOffsetIndex.FirstRowIndex(p)` for a page in range = the member's own first row + the rows of all the
    members before it (SPEC `shiftedRows`), for any number of members incl. members without pages. -/
theorem multi_first_row_is_shifted_concatenation (rows : List (List Int)) (numRows : List Int)
    (hn : numRows.length = rows.length) (p : Nat) (hp : p < rows.flatten.length) :
    multiFirstRowAt rows numRows (p : Int) = (shiftedRows rows numRows 0)[p]? :=
  multiFirstRowAt_shifted rows numRows hn p hp

/-- row groups of 10, 0 and 7 rows with pages starting at rows (0,4) () (0,5): the multi index shows 0,4,10,15 -/
example : shiftedRows [[0, 4], [], [0, 5]] [10, 0, 7] 0 = [0, 4, 10, 15] ∧
    multiFirstRowAt [[0, 4], [], [0, 5]] [10, 0, 7] 3 = some 15 := by decide

/-- The first rows shown by the multi offset index are sorted whenever every member's own offset index is sane
    (first rows sorted, within `0 .. NumRows-1`): a page found by `Find` owns the rows from its `FirstRowIndex` up to
    the next page's. -/
theorem multi_first_rows_sorted (rows : List (List Int)) (numRows : List Int) (hn : numRows.length = rows.length)
    (hok : ∀ i, i < rows.length → MemberRowsOK (rows.getD i []) (numRows.getD i 0)) :
    isAsc (shiftedRows rows numRows 0) = true :=
  shiftedRows_sorted rows numRows 0 hn hok

example : MemberRowsOK [0, 4] 10 ∧ MemberRowsOK [] 0 ∧ MemberRowsOK [0, 5] 7 := by
  refine ⟨⟨by decide, ?_, by decide⟩, ⟨by decide, ?_, by decide⟩, ⟨by decide, ?_, by decide⟩⟩ <;>
    (intro x hx; simp at hx <;> omega)

/-- `multi_ascending_sound` of `Props/C06.lean` without its hypothesis `hne`: members without pages may claim
    ASCENDING (the seam loop skips them). -/
theorem multi_ascending_sound_any_members (z : Int) (cs : List Chunk)
    (hwf : ∀ c ∈ cs, c.WF)
    (hnull : (concatNulls cs).any id = false)
    (hbnd : ∀ c ∈ cs, c.nulls.any id = false → hasNull c.ix = false)
    (htruth : ∀ c ∈ cs, c.asc = true →
      isAsc (c.ix.mins.map (stored z)) = true ∧ isAsc (c.ix.maxs.map (stored z)) = true)
    (hle : ∀ c ∈ cs, ∀ i a b, i < c.n → minAt c.ix i = some a → maxAt c.ix i = some b → a ≤ b)
    (hflag : multiIsAscending z cs = true) :
    ∃ mn mx, Ascending (concat cs) mn mx :=
  multiAscending_sound_any z cs hwf hnull hbnd htruth hle hflag

/-- (0,9) (10,50) | no page, claims ASCENDING | (60,69) (70,80): the multi index is ASCENDING and the hypotheses hold -/
def mGap : List Chunk :=
  [ { nulls := [false, false], ix := { mins := [some 0, some 10], maxs := [some 9, some 50] }, asc := true, desc := false },
    { nulls := [], ix := { mins := [], maxs := [] }, asc := true, desc := true },
    { nulls := [false, false], ix := { mins := [some 60, some 70], maxs := [some 69, some 80] }, asc := true, desc := false } ]

example : (∀ c ∈ mGap, c.WF) ∧ multiIsAscending 0 mGap = true ∧ (concatNulls mGap).any id = false ∧
    (∀ c ∈ mGap, c.asc = true → isAsc (c.ix.mins.map (stored 0)) = true ∧ isAsc (c.ix.maxs.map (stored 0)) = true) ∧
    findMultiGo false 0 mGap 75 = 3 := by decide

/-- C06 for `Find` on a multi index, per member: whenever every member index is sound (`hwf`: its accessors agree
    on the page count; `hbnd`: no null bound outside a null page; `htruth`: an ASCENDING claim is truthful; `hle`:
    min ≤ max), a page `l` of the member that follows the members `pre` whose bounds contain `v` is never missed:
    `Find` answers a page at or before its number `total pre + l`, inside the index, whose bounds contain `v`.
    Any number of members before and after, members without pages and null pages anywhere. -/
theorem find_no_miss_multi_member (nf : Bool) (z : Int) (pre post : List Chunk) (c : Chunk) (l : Nat) (v : Int)
    (hwf : ∀ c' ∈ pre ++ c :: post, c'.WF)
    (hbnd : ∀ c' ∈ pre ++ c :: post, c'.nulls.any id = false → hasNull c'.ix = false)
    (htruth : ∀ c' ∈ pre ++ c :: post, c'.asc = true →
      isAsc (c'.ix.mins.map (stored z)) = true ∧ isAsc (c'.ix.maxs.map (stored z)) = true)
    (hle : ∀ c' ∈ pre ++ c :: post, ∀ i a b, i < c'.n → minAt c'.ix i = some a → maxAt c'.ix i = some b → a ≤ b)
    (hl : l < c.n) (hv : contains nf c.ix l v = true) :
    let cs := pre ++ c :: post
    let r := findMultiGo nf z cs v
    r ≤ total pre + l ∧ r < total cs ∧ contains nf (concat cs) r v = true :=
  findMulti_no_miss_member nf z pre post c l v hwf hbnd htruth hle hl hv

/-- C06 for `Find` on a multi index, on the VALUES: members given by the values of their pages, indexed by the
    writer's steps (`chunkOfPages`: null filter, bounds function `bnd`, boundary order) with ANY bounds function that
    encloses the values in the column's order. A value of page `l` of the member after `pre` is answered with a
    page at or before that page whose recorded bounds contain it. -/
theorem find_no_miss_multi_values {α} (nf : Bool) (z : Int) {bnd : List α → Option (α × α)} {key : α → Int}
    (hb : BoundsFor bnd key) (pre post : List (List (List (Option α)))) (pages : List (List (Option α)))
    (l : Nat) (hl : l < pages.length) (x : α) (hx : some x ∈ pages.getD l []) :
    let cs := (pre ++ pages :: post).map (chunkOfPages bnd key z)
    let r := findMultiGo nf z cs (key x)
    r ≤ total (pre.map (chunkOfPages bnd key z)) + l ∧ r < total cs ∧ contains nf (concat cs) r (key x) = true :=
  findMulti_no_miss_values nf z hb pre post pages l hl x hx

/-- UINT64 row groups {1,2 | 2^63+5} , (no page) , {7 | null}: 7 sits in page 0 of the third member = page 2 of
    the multi index; the members overlap, no order is claimed, `Find` answers page 2 -/
def uMembers : List (List (List (Option (BitVec 64)))) :=
  [[[some 1#64, some 2#64], [some 9223372036854775813#64]], [], [[some 7#64], [none]]]

example : findMultiGo false 0 (uMembers.map (chunkOfPages (intBounds false 64) (intKey false 64) 0))
    (intKey false 64 7#64) = 2 := by decide

example := find_no_miss_multi_values false 0 (intBounds_sound false 64)
  [[[some 1#64, some 2#64], [some 9223372036854775813#64]], []] [] [[some 7#64], [none]] 0 (by decide) 7#64 (by decide)

/-! ## FLOAT / DOUBLE members with NaN bounds (`SearchMultiNaN.lean`) -/

/-- C06 for `Find` on the multi index of FLOAT / DOUBLE members, NaN bounds included. `flag` is what
    `multiColumnIndex.IsAscending()` answered; `hall` and `hseam` are the two facts about it the theorem needs:
    it is false as soon as one member does not claim ASCENDING (multi_row_group.go:407-411), and when no bound is NaN
    it is the answer of the rank mirror `multiIsAscending` (the float comparison is then the rank comparison).
    `hflagw`: each member's own claim is the float indexer's (`writerOrderF`: no order with a NaN bound). `Find` then
    answers the first page of the concatenation whose bounds contain `v` under the float comparison. -/
theorem find_no_miss_multi_float (nf : Bool) (z : Int) (cs : List FChunk) (flag : Bool) (v : Int)
    (hwf : ∀ c ∈ cs, c.ranks.WF)
    (hbnd : ∀ c ∈ cs, c.nulls.any id = false → hasNullF c.ix = false)
    (hflagw : ∀ c ∈ cs, c.asc = (writerOrderF z c.ix == 1))
    (hle : ∀ c ∈ cs, ∀ i a b, i < c.ix.n → minAtF c.ix i = .val a → maxAtF c.ix i = .val b → a ≤ b)
    (hall : flag = true → ∀ c ∈ cs, c.asc = true)
    (hseam : (∀ c ∈ cs, hasNaN c.ix = false) → flag = multiIsAscending z (cs.map FChunk.ranks)) :
    let r := findViewF nf flag (concatNullsF cs) (concatF cs) v
    r ≤ (concatF cs).n ∧ (r < (concatF cs).n → containsF nf (concatF cs) r v = true) ∧
    (∀ p, p < (concatF cs).n → containsF nf (concatF cs) p v = true → r ≤ p) :=
  findMultiF_no_miss nf z cs flag v hwf hbnd hflagw hle hall hseam

/-- members (5,7) (NaN,NaN) | (1,3): no order is claimed by the first member, so the multi index claims none -/
def fMembers : List FChunk :=
  [ { nulls := [false, false], ix := { mins := [.val 5, .nan], maxs := [.val 7, .nan] }, asc := false, desc := false },
    { nulls := [false], ix := { mins := [.val 1], maxs := [.val 3] }, asc := false, desc := false } ]

example : findViewF false false (concatNullsF fMembers) (concatF fMembers) 2 = 1 ∧
    containsF false (concatF fMembers) 2 2 = true ∧ binarySearchF false (concatF fMembers) 2 = 3 := by decide

theorem fMembers_le : ∀ c ∈ fMembers, ∀ i a b, i < c.ix.n → minAtF c.ix i = .val a → maxAtF c.ix i = .val b → a ≤ b := by
  intro c hc i a b hi ha hb
  simp only [fMembers, List.mem_cons, List.mem_nil_iff, or_false] at hc
  rcases hc with rfl | rfl
  · simp only [FIndex.n, List.length_cons, List.length_nil] at hi
    have : i = 0 ∨ i = 1 := by omega
    rcases this with rfl | rfl <;> simp [minAtF, maxAtF] at ha hb <;> omega
  · simp only [FIndex.n, List.length_cons, List.length_nil] at hi
    have : i = 0 := by omega
    subst this
    simp [minAtF, maxAtF] at ha hb
    omega

-- the hypotheses of `find_no_miss_multi_float` are satisfiable: it applies to `fMembers`
example := find_no_miss_multi_float false 0 fMembers false 2 (by decide) (by decide) (by decide) fMembers_le
  (by intro h; exact absurd h (by decide)) (by intro h; exact absurd (h _ (List.mem_cons_self ..)) (by decide))

end PqModel.Props.C06Multi
