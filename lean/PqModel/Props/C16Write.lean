import PqModel.WriteOwnLemmas

/-! # C16, write side — "the library never modifies rows or slices the caller passes to Write"

Theorems about `PqModel.WriteOwn`, the MIRROR of the row-writer wrappers (`FilterRowWriter`,
`TransformRowWriter`, `DedupeRowWriter`, `MultiRowWriter`) over the leaves `RowBuffer.WriteRows` and a
recording `RowWriterFunc`, nested in any way. The SPEC side is `Keeps` / `KeepsR`: every `[]Value`
backing array and every `[]Row` backing array the caller owns holds, cell by cell over its whole
capacity, what it held before the call.

PARTIAL: byte arrays behind values and the column-oriented leaves (`Writer`, `Buffer`,
`SortingWriter`, column writers/buffers) are not in this model; they are covered by the L1 sweep of
the real code (sub-check `writeside`) and by the source-level fact `callerWriteSites`. -/
namespace PqModel.Props.C16Write
open PqModel.WriteOwn

/-- **write_keeps_caller_memory.** For every writer object built from the mirrored wrappers and
    leaves (any nesting, no unrepaired filter node), every behaviour of the caller-supplied
    predicate / compare / transform functions that keeps their documented contract, every history
    of `WriteRows` calls with any `[]Row` slices (any offsets, lengths, capacities, overlapping or
    not, the same slice sent again), from any state in which the arrays the objects own are not
    protected and of the right kind (`Own`), any `[]Row` memory in which the rows the library owns
    point to unprotected values (`SlotsOk`) and in which the protected arrays exist (`Bounded`,
    `BoundedR`): every protected `[]Value` array and every protected `[]Row` array — the caller's
    rows and the slices holding them are instances — holds after the history exactly the cells it
    held before, whatever errors the sinks returned on the way; and the invariant holds again, so
    the statement extends over later histories on the same objects. -/
theorem write_keeps_caller_memory (pv pr : Nat → Bool) (B : Beh) (sh : Shape) (hr : sh.repaired = true)
    (batches : List RHdr) (st : St) (m : Mem) (rm : RMem) (hg : Good pv pr st m rm) :
    (∀ a, pv a = true → (run B sh batches st m rm).m[a]? = m[a]?) ∧
    (∀ a, pr a = true → (run B sh batches st m rm).rm[a]? = rm[a]?) ∧
    Good pv pr (run B sh batches st m rm).st (run B sh batches st m rm).m (run B sh batches st m rm).rm :=
  ⟨(run_safe pv pr B sh hr batches st m rm hg).1.2, (run_safe pv pr B sh hr batches st m rm hg).2.1.2.2,
   (run_safe pv pr B sh hr batches st m rm hg).2.2⟩

/-- **caller_rows_show_same_values.** What the caller observes: a `[]Row` slice in a protected array
    whose rows lie in protected `[]Value` arrays shows after the history the same rows with the same
    values, in the same order, as before. -/
theorem caller_rows_show_same_values (pv pr : Nat → Bool) (B : Beh) (sh : Shape) (hr : sh.repaired = true)
    (batches : List RHdr) (st : St) (m : Mem) (rm : RMem) (hg : Good pv pr st m rm)
    (h : RHdr) (hp : pr h.arr = true) (hv : ∀ x ∈ rowsOf rm h, pv x.arr = true) :
    rowsOf (run B sh batches st m rm).rm h = rowsOf rm h ∧
    (rowsOf (run B sh batches st m rm).rm h).map (row (run B sh batches st m rm).m) = (rowsOf rm h).map (row m) := by
  have hw := write_keeps_caller_memory pv pr B sh hr batches st m rm hg
  have h1 : rowsOf (run B sh batches st m rm).rm h = rowsOf rm h := by
    simp only [rowsOf, cellsOf, List.getD_eq_getElem?_getD, hw.2.1 h.arr hp]
  refine ⟨h1, ?_⟩
  rw [h1]
  apply List.map_congr_left
  intro x hx
  simp only [row, List.getD_eq_getElem?_getD, hw.1 x.arr (hv x hx)]

/-- a concrete instance: filter over (transform over dedupe over a row buffer, and a sink) -/
def exShape : Shape :=
  .filter false 0 0 (.multi (.transform 1 0 (.dedupe 2 0 (.rowbuf 3))) (.sink 4 1))

def exBeh : Beh where
  pred := fun _ vs => vs.head? != some 2
  same := fun _ a b => a.head? == b.head?
  tr := fun _ vs => if vs.head? == some 3 then .twice else .copy

/-- caller memory: array 0 is the dummy, arrays 1..3 are three rows of two values each with one
    spare cell of capacity -/
def exMem : Mem := [[], [1, 7, 55], [2, 8, 55], [3, 9, 55]]
/-- `[]Row` memory: arrays 0 and 1 are the dummies, array 2 is the caller's `[]Row` of three rows
    with one spare cell of capacity (holding a stale header) -/
def exRMem : RMem := [(false, []), (true, []), (false, [⟨1, 0, 2, 3⟩, ⟨2, 0, 2, 3⟩, ⟨3, 0, 2, 3⟩, ⟨1, 1, 1, 1⟩])]
def exRows : RHdr := ⟨2, 0, 3, 4⟩
def exPv : Nat → Bool := fun a => a == 1 || a == 2 || a == 3
def exPr : Nat → Bool := fun a => a == 2
/-- freshly constructed writer objects: node ids 0..7 with empty fields -/
def exSt : St := List.replicate 8 {}

/-- the hypotheses of `write_keeps_caller_memory` are satisfiable: freshly constructed writer
    objects (empty state), the caller's three `[]Value` arrays and its `[]Row` array protected -/
example : exShape.repaired = true ∧ Good exPv exPr exSt exMem exRMem := by
  have hd : NodeOwn exPv exPr exRMem {} :=
    ⟨⟨by decide, by decide, by decide⟩, ⟨by decide, by decide⟩, by decide⟩
  refine ⟨by decide, ⟨hd, fun ns h => ?_⟩, ?_, ?_, ?_⟩
  · rw [List.eq_of_mem_replicate h]; exact hd
  · intro a ha h hh
    match a with
    | 0 => exact absurd ha (by decide)
    | 1 => simp [exRMem, cellsOf] at hh
    | 2 => exact absurd ha (by decide)
    | n + 3 => exact absurd ha (by simp [tagOf, exRMem])
  · intro a ha
    simp only [exPv, Bool.or_eq_true, beq_iff_eq] at ha
    simp only [exMem, List.length_cons, List.length_nil]
    omega
  · intro a ha
    simp only [exPr, beq_iff_eq] at ha
    simp only [exRMem, List.length_cons, List.length_nil]
    omega

/-- ... and the run really does something: rows 1 and 3 reach the row buffer on both calls (the
    second one doubled by the transform) while the sink saw the first batch and failed on its second
    call (which the filter reports as `0` rows and the sink's error); the caller's arrays of both kinds are as they were -/
example :
    let r := run exBeh exShape [exRows, exRows] exSt exMem exRMem
    (rowsOf r.rm (r.st.node 3).slots).map (row r.m) = [[1, 7], [3, 9, 3, 9], [1, 7], [3, 9, 3, 9]] ∧
    (r.st.node 4).got = [[[1, 7], [3, 9]]] ∧ r.rets = [(3, false), (0, true)] ∧ r.m.take 4 = exMem ∧
    r.rm.take 3 = exRMem := by decide

/-- **filter_as_it_was_modifies_caller_rows.** The filter writer as it stood before the repair
    (filter.go:52-58: `clearValues` over the rows kept in `f.rows`, which are the caller's) violates
    the property: the rows that passed the predicate are zeroed in the caller's memory after
    `WriteRows` returned `3, nil`. -/
theorem filter_as_it_was_modifies_caller_rows :
    let r := run exBeh (.filter true 0 0 (.sink 1 9)) [exRows] exSt exMem exRMem
    r.rets = [(3, false)] ∧ (r.st.node 1).got = [[[1, 7], [3, 9]]] ∧
    r.m = [[], [0, 0, 55], [2, 8, 55], [0, 0, 55]] := by decide

/-- the same writer after the repair, same input: nothing changes -/
theorem filter_repaired_keeps_caller_rows :
    let r := run exBeh (.filter false 0 0 (.sink 1 9)) [exRows] exSt exMem exRMem
    r.rets = [(3, false)] ∧ (r.st.node 1).got = [[[1, 7], [3, 9]]] ∧ r.m = exMem ∧ r.rm.take 3 = exRMem := by decide

/-- **filter_returns_sink_error.** The code (filter.go:80-82 after `fix: FilterRowWriter returns the
    error of the underlying writer`): a failure of the underlying writer on the first chunk is the
    result of the call, with the count of the chunks completed before it. -/
theorem filter_returns_sink_error :
    (run exBeh (.filter false 0 0 (.sink 1 0)) [exRows] exSt exMem exRMem).rets = [(0, true)] := by decide

/-- **filter_swallows_sink_error** (regression fact about the code BEFORE that repair, outside C16):
    `_, err := f.writer.WriteRows(...)` shadowed the named result, `WriteRows` returned `0, nil` when the
    underlying writer failed — both with the first repair only (`clear = false, shadow = true`) and as
    the file first stood (`.filter true`). -/
theorem filter_swallows_sink_error :
    (let r := filterWrite exBeh false true 0 0 (sinkWrite 1 0) exSt exMem exRMem exRows; (r.n, r.err)) = (0, false) ∧
    (run exBeh (.filter true 0 0 (.sink 1 0)) [exRows] exSt exMem exRMem).rets = [(0, false)] := by decide

/-! ## the `[]Row` argument itself: `DedupeRowWriter` -/

/-- NOT the library — a what-if: `dedupeRowWriter.WriteRows` without its private copy `d.rows`,
    `deduplicate` run on the argument (the change filed as `seeded/C16-4a`). It shows that the frame
    theorem is a property of the mirrors and not of the modelling language. -/
def dedupeWriteInPlace (B : Beh) (id k : Nat) (inner : Writer) (st : St) (m : Mem) (rm : RMem) (rows : RHdr) : Res :=
  let dd := deduplicate B k m rm (st.node id).hdr rows
  let st1 := st.set id { st.node id with hdr := dd.2.2.1 }
  if dd.2.2.2 > 0 then
    let r := inner st1 dd.1 dd.2.1 ⟨rows.arr, rows.off, dd.2.2.2, rows.cap⟩
    if r.err then r else { r with n := rows.len }
  else ⟨st1, dd.1, dd.2.1, rows.len, false⟩

/-- three rows, the second a duplicate of the first (same head), followed by a different one -/
def dupMem : Mem := [[], [1, 7, 55], [1, 8, 55], [3, 9, 55]]

/-- **dedupe_in_place_would_permute_caller_rows.** Without the copy the unique rows are moved to
    the front of the caller's `[]Row`: its second and third rows come back swapped, although every
    `[]Value` array is intact and the sink received the right rows. -/
theorem dedupe_in_place_would_permute_caller_rows :
    let r := dedupeWriteInPlace exBeh 0 0 (sinkWrite 1 9) exSt dupMem exRMem exRows
    (r.n, r.err) = (3, false) ∧ (r.st.node 1).got = [[[1, 7], [3, 9]]] ∧ r.m.take 4 = dupMem ∧
    rowsOf r.rm exRows = [⟨1, 0, 2, 3⟩, ⟨3, 0, 2, 3⟩, ⟨2, 0, 2, 3⟩] := by decide

/-- **dedupe_keeps_caller_rows.** The mirror of the library on the same input: same rows
    delivered, the caller's `[]Row` untouched, and the private copy holds no reference afterwards -/
theorem dedupe_keeps_caller_rows :
    let r := run exBeh (.dedupe 0 0 (.sink 1 9)) [exRows] exSt dupMem exRMem
    r.rets = [(3, false)] ∧ (r.st.node 1).got = [[[1, 7], [3, 9]]] ∧ r.m.take 4 = dupMem ∧ r.rm.take 3 = exRMem ∧
    rowsOf r.rm (r.st.node 0).held = [Hdr.nil, Hdr.nil, Hdr.nil] := by decide

/-- **multi_hands_every_writer_the_same_rows.** `MultiRowWriter(Dedupe(sink 1), sink 2)`: the second
    writer receives the batch as the caller sent it (under the what-if above it would get the
    permuted one) -/
theorem multi_hands_every_writer_the_same_rows :
    let r := run exBeh (.multi (.dedupe 0 0 (.sink 1 9)) (.sink 2 9)) [exRows] exSt dupMem exRMem
    (r.st.node 1).got = [[[1, 7], [3, 9]]] ∧ (r.st.node 2).got = [[[1, 7], [1, 8], [3, 9]]] := by decide

end PqModel.Props.C16Write
