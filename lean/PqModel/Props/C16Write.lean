import PqModel.WriteOwnLemmas

/-! # C16, write side — "the library never modifies rows or slices the caller passes to Write"

Theorems about `PqModel.WriteOwn`, the MIRROR of the row-writer wrappers (`FilterRowWriter`,
`TransformRowWriter`, `DedupeRowWriter`, `MultiRowWriter`) over the leaves `RowBuffer.WriteRows` and a
recording `RowWriterFunc`, nested in any way. The SPEC side is `Keeps`: every backing array the
caller owns holds, cell by cell over its whole capacity, what it held before the call.

PARTIAL: `[]Row` header arrays, byte arrays behind values and the column-oriented leaves (`Writer`,
`Buffer`, `SortingWriter`, column writers/buffers) are not in this model; they are covered by the
L1 sweep of the real code (sub-check `writeside`) and by the source-level fact `callerWriteSites`. -/
namespace PqModel.Props.C16Write
open PqModel.WriteOwn

/-- **write_keeps_caller_memory.** For every writer object built from the mirrored wrappers and
    leaves (any nesting, no unrepaired filter node), every behaviour of the caller-supplied
    predicate / compare / transform functions that keeps their documented contract, every history
    of `WriteRows` calls with any rows, from any state in which the headers the objects own point
    to unprotected arrays (`Own`) and any memory in which the protected arrays exist (`Bounded`):
    every protected array — the caller's rows are an instance — holds after the history exactly
    the cells it held before, whatever errors the sinks returned on the way; and the invariant
    holds again, so the statement extends over later histories on the same objects. -/
theorem write_keeps_caller_memory (pv : Nat → Bool) (B : Beh) (sh : Shape) (hr : sh.repaired = true)
    (batches : List (List Hdr)) (st : St) (m : Mem) (ho : Own pv st) (hb : Bounded pv m) :
    (∀ a, pv a = true → (run B sh batches st m).2.1[a]? = m[a]?) ∧ Own pv (run B sh batches st m).1 :=
  ⟨(run_safe pv B sh hr batches st m ho hb).1.2, (run_safe pv B sh hr batches st m ho hb).2⟩

/-- a concrete instance: filter over (transform over dedupe over a row buffer, and a sink) -/
def exShape : Shape :=
  .filter false 0 0 (.multi (.transform 1 0 (.dedupe 2 0 (.rowbuf 3))) (.sink 4 1))

def exBeh : Beh where
  pred := fun _ vs => vs.head? != some 2
  same := fun _ a b => a.head? == b.head?
  tr := fun _ vs => if vs.head? == some 3 then .twice else .copy

/-- caller memory: array 0 is the dummy, arrays 1..3 are three rows of two values each with one
    spare cell of capacity -/
def exMem : Mem := [[], [1, 7, 55], [2, 8, 55], [3, 9, 55]]
def exRows : List Hdr := [⟨1, 0, 2, 3⟩, ⟨2, 0, 2, 3⟩, ⟨3, 0, 2, 3⟩]
def exPv : Nat → Bool := fun a => a == 1 || a == 2 || a == 3
/-- freshly constructed writer objects: node ids 0..7 with empty fields -/
def exSt : St := List.replicate 8 {}

/-- the hypotheses of `write_keeps_caller_memory` are satisfiable: freshly constructed writer
    objects (empty state) and the caller's three arrays protected -/
example : exShape.repaired = true ∧ Own exPv exSt ∧ Bounded exPv exMem := by
  refine ⟨by decide, ⟨by decide, fun ns h => ?_⟩, ?_⟩
  · rw [List.eq_of_mem_replicate h]; exact NodeOwn.default (by decide)
  · intro a ha
    simp only [exPv, Bool.or_eq_true, beq_iff_eq] at ha
    simp only [exMem, List.length_cons, List.length_nil]
    omega

/-- ... and the run really does something: rows 1 and 3 reach the row buffer on both calls (the
    second one doubled by the transform) while the sink saw the first batch and failed on its second
    call (which the filter reports as `0, nil`) -/
example :
    let r := run exBeh exShape [exRows, exRows] exSt exMem
    (r.1.node 3).slots.map (row r.2.1) = [[1, 7], [3, 9, 3, 9], [1, 7], [3, 9, 3, 9]] ∧
    (r.1.node 4).got = [[[1, 7], [3, 9]]] ∧ r.2.2 = [(3, false), (0, false)] ∧ r.2.1.take 4 = exMem := by decide

/-- **filter_as_it_was_modifies_caller_rows.** The filter writer as it stood before the repair
    (filter.go:52-58: `clearValues` over the rows kept in `f.rows`, which are the caller's) violates
    the property: the rows that passed the predicate are zeroed in the caller's memory after
    `WriteRows` returned `3, nil`. -/
theorem filter_as_it_was_modifies_caller_rows :
    let r := run exBeh (.filter true 0 0 (.sink 1 9)) [exRows] exSt exMem
    r.2.2 = [(3, false)] ∧ (r.1.node 1).got = [[[1, 7], [3, 9]]] ∧
    r.2.1 = [[], [0, 0, 55], [2, 8, 55], [0, 0, 55]] := by decide

/-- the same writer after the repair, same input: nothing changes -/
theorem filter_repaired_keeps_caller_rows :
    let r := run exBeh (.filter false 0 0 (.sink 1 9)) [exRows] exSt exMem
    r.2.2 = [(3, false)] ∧ (r.1.node 1).got = [[[1, 7], [3, 9]]] ∧ r.2.1 = exMem := by decide

/-- **filter_swallows_sink_error** (observation, outside C16): the shadowed `err` of filter.go:74
    makes `WriteRows` return `0, nil` when the underlying writer failed. -/
theorem filter_swallows_sink_error :
    (run exBeh (.filter false 0 0 (.sink 1 0)) [exRows] exSt exMem).2.2 = [(0, false)] := by decide

end PqModel.Props.C16Write
