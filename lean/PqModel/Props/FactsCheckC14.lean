import PqModel.Generated.Facts
import PqModel.Props.C14

/-! # C14 — the site table extracted from writer.go satisfies the hypothesis of `no_silent_loss`

`Generated/Facts.lean` is rewritten by `tools/factgen` (families `writesites`, `writesites_thrift`) from
the current source on every run. A NEW call on the byte path whose error does not reach the return of its
function makes `sites_propagate` fail to build. -/
namespace PqModel.Props.FactsCheckC14
open PqModel.Generated PqModel.IoFault

/-- Sites whose error does not flow to the return at the AST level, each with the reason why no
I/O failure of the destination can be lost there (unchanged tree: 4 entries). -/
def allowed : List String := [
  -- `defer rows.Close()` in Writer.WriteRowGroup: closes the *source* row reader of the row
  -- copy (name collision with ColumnWriter.Close in the name-based reachability); nothing is
  -- written by it.
  "Writer.WriteRowGroup:rows.Close#1",
  -- `buf.encodeRepetitionLevels(page, …)` / `buf.encodeDefinitionLevels(page, …)`: the RLE level
  -- encoder works on memory only, no I/O; dropping its error is a (reported) code smell outside
  -- this property.
  "ColumnWriter.writeDataPage:buf.encodeRepetitionLevels#1",
  "ColumnWriter.writeDataPage:buf.encodeDefinitionLevels#1",
  -- `n1, _ := output.Write(encHdr)` (encrypted page): `output` is the column's page buffer (an
  -- intermediate store, not the destination); the count is summed and `writePageTo` fails with
  -- io.ErrShortWrite when `written != size`.
  "ColumnWriter.writeDataPage:output.Write#1"
]

/-- every extracted site propagates its error, or is on the justified allow-list -/
theorem sites_propagate :
    writeSites.all (fun s => s.propagates || s.name ∈ allowed) = true := by decide

/-- the allow-list has no stale entry: each name is a site of the current source that does not
propagate (a repaired site must leave the list) -/
theorem allowed_tight :
    allowed.all (fun n => writeSites.any (fun s => s.name == n && !s.propagates)) = true := by decide

/-- the site table handed to the model -/
def siteTable (name : String) : Bool :=
  match writeSites.find? (fun s => s.name == name) with
  | some s => s.propagates || allowed.contains s.name
  | none => false

/-- follows from `sites_propagate` for whatever the table contains -/
theorem siteTable_sound (s : WriteSite) (hs : s ∈ writeSites) : siteTable s.name = true := by
  unfold siteTable
  cases h : writeSites.find? (fun t => t.name == s.name) with
  | none =>
    have := List.find?_eq_none.1 h s hs
    simp at this
  | some t =>
    have ht := List.mem_of_find?_eq_some h
    have := List.all_eq_true.1 sites_propagate t ht
    simpa using this

/-- the sites the model's `closeSeq` is built from exist in the source and return their error -/
theorem close_sites_known :
    siteTable "writer.writeFileHeader:w.writer.WriteString#1" = true ∧
    siteTable "writer.writeDeferredBloomFilters:w.writer.ReadFrom#1" = true ∧
    siteTable "writer.close:w.buffer.Flush#1" = true ∧
    siteTable "writer.close:w.writeFileHeader#1" = true ∧
    siteTable "writer.close:w.flush#1" = true ∧
    siteTable "writer.close:w.writeDeferredBloomFilters#1" = true ∧
    siteTable "writer.close:w.writeFileFooter#1" = true ∧
    siteTable "writer.writeRowGroup:io.Copy#1" = true ∧
    siteTable "offsetTrackingWriter.Write:w.writer.Write#1" = true ∧
    siteTable "offsetTrackingWriter.WriteString:io.WriteString#1" = true ∧
    siteTable "offsetTrackingWriter.ReadFrom:io.Copy#1" = true := by decide

/-- `no_silent_loss` for the extracted table: any plan whose operations sit at extracted sites -/
theorem no_silent_loss_extracted (f : Fault) (k : Nat) (hk : f.k = some k) (hone : f.oneshot = false)
    (cap : Option Nat)
    (calls : List (List Op)) (pre : List Op) (fs : String)
    (hsites : ∀ c ∈ calls ++ [pre ++ [Op.flushBuf fs]], ∀ op ∈ c,
      (∃ s ∈ writeSites, s.name = op.site) ∨ ∃ id p, op = Op.store id p)
    (htotal : k < (planBytes (calls ++ [pre ++ [Op.flushBuf fs]])).length) :
    ∃ r ∈ (runCalls (faultSink f) siteTable (initW false cap) (calls ++ [pre ++ [Op.flushBuf fs]])).2,
      r = true := by
  refine C14.no_silent_loss_fault f k hk hone siteTable cap calls pre fs ?_ htotal
  intro c hc op hop
  cases hsites c hc op hop with
  | inr h => exact Or.inr h
  | inl h =>
    obtain ⟨s, hs, hn⟩ := h
    exact Or.inl (by rw [← hn]; exact siteTable_sound s hs)

/-! ## The thrift encoder (family `writesites_thrift`)

With `WriteBufferSize(0)` the thrift encoder of the footer and of the page index writes byte-wise
straight to the destination, so every write of compact.go / binary.go / encode.go is a site of the
byte path (seeded change C14-3b dropped the error of one of them). -/

/-- writer-side thrift sites whose error does not flow to the return at the AST level (none on the
unchanged tree) -/
def allowedThrift : List String := []

/-- every call of an error-returning function or io leaf on the writer side of encoding/thrift
hands its error to its caller -/
theorem thrift_write_sites_propagate :
    thriftWriteSites.all (fun s => s.propagates || s.name ∈ allowedThrift) = true := by decide

/-- the table is not empty and holds the sites the long-form list header is written at -/
theorem thrift_sites_known :
    (thriftWriteSites.any (fun s => s.name == "compact.go:compactWriter.WriteList:w.binary.writeByte#2")) = true ∧
    (thriftWriteSites.any (fun s => s.name == "compact.go:compactWriter.WriteList:w.writeUvarint#1")) = true ∧
    30 ≤ thriftWriteSites.length := by decide

/-- discarded errors of the io leaves on the read path of file.go, each with the reason why no
failure of the source can be lost there -/
def allowedReadDrops : List String := [
  -- `Seek` of an `io.SectionReader`: fails only on an invalid whence / a negative position, never
  -- through the underlying io.ReaderAt (no I/O).
  "file.go:OpenFile:section.Seek#1",
  "file.go:OpenFile:section.Seek#2",
  "file.go:FileColumnChunk.readBloomFilter:section.Seek#1",
  -- `f.rbuf.Discard(…)` when an already loaded dictionary page is skipped: a failing source leaves
  -- the stream inside the dictionary page and the next page header decode reports an error (every
  -- fault of the `readat` sweep with history `dictfirst-pages` is reported), but the I/O error
  -- itself is lost; repair proposed (`fix: … Discard`). The entry is tolerated, not required:
  -- there is no tightness theorem for this list.
  "file.go:FilePages.readPageInSequence:f.rbuf.Discard#1"
]

/-- no other io leaf of file.go has its error discarded -/
theorem file_read_errors_not_dropped :
    fileReadDrops.all (fun s => s.name ∈ allowedReadDrops) = true := by decide

example : (runCalls (faultSink ⟨some 5, true, true, false⟩) siteTable (initW false (some 4))
    [[Op.store 0 [1, 2, 3]],
     closeSeq magicPAR1 [Op.drain "writer.writeRowGroup:io.Copy#1" 0 (some 2)] [] [[9]]
       "writer.close:w.buffer.Flush#1"]).2 = [false, true] := by decide

end PqModel.Props.FactsCheckC14
