import PqModel.C18Pending

/-! # C18, the column-oriented write API of an encrypting writer: rows wait for the ordinal, they are
not lost

"a file written with encryption reads back, given the right keys, as exactly the rows written": for
the row groups of `BeginRowGroup()` on an encrypting writer the column writers cannot seal a page
before Commit (the ordinal is in the AAD). These theorems say, on the mirror of
`ColumnWriter.WriteRowValues / Flush / Close` and of the row-group part of `writeRowGroup`
(`PqModel.C18Pending`), for EVERY history of calls on the column writers between BeginRowGroup (or
the previous Commit) and Commit:

* nothing is sealed before the ordinal is known (`nothing_sealed_before_commit`);
* every column writer holds exactly the rows written to it, whatever Flush and Close calls were
  made in between (`close_before_commit_keeps_values`), with or without encryption;
* Commit hands exactly those rows, per column, to the file and leaves fresh column writers
  (`commit_writes_the_written_rows`);
* the guard of `Close` is what this rests on: without `|| c.awaitOrdinal` a Close before Commit
  empties the buffer, Commit sees 0 rows and writes nothing, without an error
  (`slipped_guard_loses_values`, `slipped_guard_drops_row_group`); the slip is invisible on a writer
  that does not encrypt (`slipped_guard_same_without_await`). -/
namespace PqModel.C18Pending

variable {X : Type}

/-- every history of one column writer: the rows it holds are the rows written, in order. `enc =
    true` is the awaiting column writer of an encrypting writer, `enc = false` the plaintext one
    (Close flushes a page first). -/
theorem close_before_commit_keeps_values (enc : Bool) (es : List (Ev X)) :
    held (runCol true (fresh enc) es) = Spec.written es := by
  rw [held_runCol_guarded]; simp [held, fresh]

example : held (runCol true (fresh true) [.write [1, 2], .close, .flush, .write [3], .close]) = [1, 2, 3] := by
  decide

/-- while the ordinal is awaited no call on the column writer seals a page -/
theorem nothing_sealed_before_commit (g : Bool) (es : List (Ev X)) :
    (runCol g (fresh true) es).pages = [] ∧ (runCol g (fresh true) es).await = true := by
  suffices h : ∀ c : Col X, c.pages = [] → c.await = true →
      (runCol g c es).pages = [] ∧ (runCol g c es).await = true from h _ rfl rfl
  induction es with
  | nil => intro c hp ha; exact ⟨hp, ha⟩
  | cons e es ih =>
    intro c hp ha
    simp only [runCol, List.foldl_cons]
    apply ih
    · cases e with
      | write xs => exact hp
      | flush => simp [stepCol, flushCol, ha, hp]
      | close =>
        cases g
        · simp [stepCol, closeCol, flushCol, ha, hp]
        · simp [stepCol, closeCol, ha, hp]
    · rw [stepCol_await]; exact ha

/-- events for another column do not touch a column writer; events for it are its own history -/
theorem runRg_get (g : Bool) (rg : Rg X) (es : List (Nat × Ev X)) (i : Nat) :
    (runRg g rg es)[i]? = rg[i]?.map (fun c => runCol g c (Spec.ofCol i es)) := by
  induction es generalizing rg with
  | nil => simp [runRg, runCol, Spec.ofCol]
  | cons e es ih =>
    have h := ih (stepRg g rg e)
    simp only [runRg, List.foldl_cons] at h ⊢
    rw [h]
    obtain ⟨j, ev⟩ := e
    unfold stepRg
    simp only
    by_cases hji : j = i
    · subst hji
      cases hc : rg[j]? with
      | none => simp [hc]
      | some c =>
        have hlt : j < rg.length := by
          cases Nat.lt_or_ge j rg.length with
          | inl h => exact h
          | inr h => simp [List.getElem?_eq_none h] at hc
        simp [Spec.ofCol, runCol, hlt]
    · have hne : (j == i) = false := by simpa using hji
      cases hc : rg[j]? with
      | none => simp [Spec.ofCol, hne]
      | some c => simp [Spec.ofCol, hne, hji]

theorem runRg_length (g : Bool) (rg : Rg X) (es : List (Nat × Ev X)) :
    (runRg g rg es).length = rg.length := by
  induction es generalizing rg with
  | nil => rfl
  | cons e es ih =>
    simp only [runRg, List.foldl_cons] at ih ⊢
    rw [ih]
    unfold stepRg
    split <;> simp

/-- the column writers of a row group after any history of column-addressed calls: column `i`
    holds exactly the rows written to column `i` -/
theorem rowgroup_columns_hold_written (enc : Bool) (n : Nat) (es : List (Nat × Ev X)) (i : Nat)
    (hi : i < n) :
    ((runRg true (List.replicate n (fresh enc)) es)[i]?).map held = some (Spec.written (Spec.ofCol i es)) := by
  rw [runRg_get]
  simp [hi, close_before_commit_keeps_values]

/-- Commit after any history: when rows were written to column 0 the file receives, for every
    column, exactly the rows written to it, and the column writers are fresh again (reusable);
    when none were, nothing is written. -/
theorem commit_writes_the_written_rows (enc : Bool) (n : Nat) (es : List (Nat × Ev X)) (hn : 0 < n) :
    commitRg enc (runRg true (List.replicate n (fresh enc)) es) =
      if Spec.written (Spec.ofCol 0 es) = [] then none
      else some ((List.range n).map (fun i => Spec.written (Spec.ofCol i es)),
                 List.replicate n (fresh enc)) := by
  have hlen := runRg_length true (List.replicate n (fresh (X := X) enc)) es
  have hcols : ∀ i, i < n → ((runRg true (List.replicate n (fresh enc)) es)[i]?).map held
      = some (Spec.written (Spec.ofCol i es)) := fun i hi => rowgroup_columns_hold_written enc n es i hi
  generalize runRg true (List.replicate n (fresh enc)) es = rg at hlen hcols
  simp only [List.length_replicate] at hlen
  match rg, hlen with
  | [], h => simp at h; omega
  | c0 :: cs, hlen =>
    have h0 := hcols 0 hn
    simp only [List.getElem?_cons_zero, Option.map_some, Option.some.injEq] at h0
    unfold commitRg
    simp only [total_eq_length_held, h0, held_flush_unawaited]
    by_cases hw : Spec.written (Spec.ofCol 0 es) = []
    · simp [hw]
    · have hlen0 : ¬ (Spec.written (Spec.ofCol 0 es)).length = 0 := by
        intro h; exact hw (List.length_eq_zero_iff.mp h)
      simp only [beq_iff_eq, hlen0, if_false, hw]
      congr 1
      refine Prod.ext ?_ ?_
      · apply List.ext_getElem?
        intro i
        by_cases hi : i < n
        · have := hcols i hi
          simp only [List.getElem?_map] at this ⊢
          rw [this]; simp [hi]
        · have h1 : (c0 :: cs).length ≤ i := by omega
          simp only [List.length_cons] at h1
          simp [hi]; omega
      · simp only
        rw [← hlen]
        simp [List.map_const', List.replicate_succ]

example : commitRg true (runRg true (List.replicate 2 (fresh true))
    [(0, .write [1, 2]), (1, .write [7, 8]), (0, .close), (1, .flush), (1, .close)])
    = some ([[1, 2], [7, 8]], [fresh true, fresh true]) := by decide

/-! ## the guard of Close -/

/-- WITNESS for the slipped guard (`if c.columnBuffer == nil { return nil }`): on an awaiting column
    writer Close after a write leaves nothing, and no page either -/
theorem slipped_guard_loses_values :
    held (runCol false (fresh true) [.write [1, 2, 3], .close]) = ([] : List Nat)
    ∧ held (runCol true (fresh true) [.write [1, 2, 3], .close]) = [1, 2, 3] := by decide

/-- ... and the row group: column-parallel filling, every column closed when complete, then Commit:
    0 rows by the count of column 0, nothing is written and nothing reports it -/
theorem slipped_guard_drops_row_group :
    commitRg true (runRg false (List.replicate 2 (fresh true))
      [(0, .write [1, 2]), (1, .write [7, 8]), (0, .close), (1, .close)]) = (none : Option (List (List Nat) × Rg Nat))
    ∧ commitRg true (runRg true (List.replicate 2 (fresh true))
      [(0, .write [1, 2]), (1, .write [7, 8]), (0, .close), (1, .close)])
      = some ([[1, 2], [7, 8]], [fresh true, fresh true]) := by decide

/-- why no plaintext test sees the slip: on a column writer that does not await an ordinal the two
    forms of Close are the same function -/
theorem slipped_guard_same_without_await (c : Col X) (h : c.await = false) :
    closeCol false c = closeCol true c := by
  simp [closeCol, h]

example : ∃ c : Col Nat, c.await = false := ⟨fresh false, rfl⟩

end PqModel.C18Pending
