import PqModel.BloomWriter
import PqModel.Props.C07

/-! # C07, writer side — every way the writer builds, sizes, stores or copies a filter keeps every
written value findable

Definitions: `PqModel/BloomWriter.lean`. Only property theorems here. -/
namespace PqModel.Props.C07Writer
open PqModel.XxHash PqModel.Bloom PqModel.BloomWriter PqModel.Props.C07

/-! ## 1. sizing (`NumSplitBlocksOf`, `splitBlockFilter.Size`) -/

/-- Go's 64-bit `uint` arithmetic computes the exact value as long as `numValues*bits + 7` fits. -/
theorem filter_size_no_wraparound (n b : Nat) (h : n * b + 7 < 2 ^ 64) :
    (numSplitBlocksOfGo (UInt64.ofNat n) (UInt64.ofNat b)).toNat = numSplitBlocksOf n b :=
  numSplitBlocksOfGo_eq n b h

example : (1000000 : Nat) * 10 + 7 < 2 ^ 64 := by decide

/-- at least one value at at least one bit per value ⇒ at least one block -/
theorem filter_size_at_least_one_block (n b : Nat) (hn : 1 ≤ n) (hb : 1 ≤ b) : 1 ≤ numSplitBlocksOf n b :=
  numSplitBlocksOf_pos n b hn hb

/-- monotone in the number of values and in the bits per value -/
theorem filter_size_monotone (n n' b b' : Nat) (hn : n ≤ n') (hb : b ≤ b') :
    numSplitBlocksOf n b ≤ numSplitBlocksOf n' b' :=
  numSplitBlocksOf_mono n n' b b' hn hb

/-- the filter really holds `bitsPerValue` bits per value (256 bits per block) -/
theorem filter_size_capacity (n b : Nat) : n * b ≤ 256 * numSplitBlocksOf n b :=
  numSplitBlocksOf_capacity n b

/-- with zero values (or zero bits per value) the filter is empty: 0 blocks -/
theorem filter_size_zero (b : Nat) : numSplitBlocksOf 0 b = 0 := by simp [numSplitBlocksOf]

/-- PRE-SIZING (`WriteRowGroup` → `configureBloomFilters`): whatever the source announces, the filter
    allocated ahead of the first output row group is a whole number of blocks — the `presizedBlocks`
    hypothesis of `ChunkOk` holds for every pre-sized chunk -/
theorem presized_filter_whole_blocks (bits : Nat) (exact : Bool) (srcValues numRows maxRows : Nat) (repeated : Bool) :
    presize bits exact srcValues numRows maxRows repeated % 32 = 0 :=
  presize_whole_blocks bits exact srcValues numRows maxRows repeated

/-- … and it holds `bits` bits for each of the `n` values of that row group (`n` at most the source's
    count; one value per row at most unless the column is repeated — then a split input is not
    pre-sized at all) -/
theorem presized_filter_capacity (bits : Nat) (exact : Bool) (srcValues numRows maxRows : Nat) (repeated : Bool)
    (n : Nat) (hsv : n ≤ srcValues) (hrow : repeated = false → n ≤ maxRows)
    (hpos : 0 < presize bits exact srcValues numRows maxRows repeated) :
    n * bits ≤ 8 * presize bits exact srcValues numRows maxRows repeated :=
  presize_capacity bits exact srcValues numRows maxRows repeated n hsv hrow hpos

example : presize 10 true 1000 1000 300 false = 384 := by decide   -- split input: sized for 300 values
example : presize 10 true 1000 1000 300 true = 0 := by decide      -- repeated column: left to flushFilterPages
example : presize 10 true 1000 1000 5000 true = 1280 := by decide

/-! ## 2. the three build strategies insert exactly the hashes of the chunk's values -/

theorem mem_pageHashes (kind : Kind) (values : List Value) (hv : ∀ v ∈ values, v.kindOk kind = true)
    (v : Value) (hm : v ∈ values) : hashRead v ∈ pageHashes kind values := by
  unfold pageHashes
  rw [hashWriteStaged_eq]
  exact hash_sides_agree kind values hv v hm

theorem of_mem_pageHashes (kind : Kind) (hk : kind ≠ .boolean) (values : List Value)
    (hv : ∀ v ∈ values, v.kindOk kind = true) (h : UInt64) (hh : h ∈ pageHashes kind values) :
    ∃ v ∈ values, h = hashRead v := by
  unfold pageHashes at hh
  rw [hashWriteStaged_eq] at hh
  exact hash_sides_exact kind hk values hv h hh

/-- ⊇ (what C07 needs): whichever strategy `flushFilterPages` ends up with — incremental insertion
    into a pre-sized filter, the dictionary alone, the dictionary plus the non-dictionary pages after
    a fallback to PLAIN (pre-sized or re-read), or re-reading every page — the read-side hash of every
    value of the chunk has been inserted. -/
theorem strategies_agree (c : ChunkWrite) (ok : ChunkOk c) (v : Value) (hm : v ∈ c.values) :
    hashRead v ∈ (flushFilter c).2 := by
  rcases List.mem_flatMap.mp hm with ⟨p, hp, hvp⟩
  have hpk := ok.kinds p hp
  have hpage : hashRead v ∈ pageHashes c.kind p.values := mem_pageHashes c.kind p.values hpk v hvp
  have hne : c.pages.isEmpty = false := by
    cases hps : c.pages with
    | nil => rw [hps] at hp; simp at hp
    | cons _ _ => rfl
  unfold flushFilter
  cases hd : c.dictionary with
  | some d =>
    have hdict : p.indexed = true → hashRead v ∈ pageHashes c.kind d := fun hi =>
      mem_pageHashes c.kind d (ok.dictKinds d hd) v (ok.covers d hd p hp hi v hvp)
    simp only
    by_cases hs : c.switched = true
    · simp only [hs, Bool.not_true, Bool.false_eq_true, if_false]
      by_cases hz : c.presized > 0
      · simp only [hz, if_true]
        apply List.mem_append.mpr
        by_cases hi : p.indexed = true
        · exact Or.inr (hdict hi)
        · left
          unfold incremental
          refine List.mem_flatMap.mpr ⟨p, hp, ?_⟩
          simp only [Bool.not_eq_true] at hi
          simp [hi, hz, hpage]
      · simp only [hz, if_false, hne, Bool.false_eq_true]
        apply List.mem_append.mpr
        by_cases hi : p.indexed = true
        · exact Or.inl (hdict hi)
        · right
          unfold reread
          refine List.mem_flatMap.mpr ⟨p, hp, ?_⟩
          simp only [Bool.not_eq_true] at hi
          simp [hi, hpage]
    · simp only [Bool.not_eq_true] at hs
      simp only [hs, Bool.not_false, if_true]
      exact hdict (ok.allIndexed hs (by simp [hd]) p hp)
  | none =>
    have hi : p.indexed = false := ok.noDict hd p hp
    simp only
    by_cases hz : c.presized > 0
    · simp only [hz, if_true]
      unfold incremental
      refine List.mem_flatMap.mpr ⟨p, hp, ?_⟩
      simp [hi, hz, hpage]
    · simp only [hz, if_false, hne, Bool.false_eq_true]
      unfold reread
      refine List.mem_flatMap.mpr ⟨p, hp, ?_⟩
      simp [hpage]

/-- ⊆ (every kind except BOOLEAN, whose padding bits may add `false`): nothing but hashes of values of
    the chunk is inserted — together with `strategies_agree`, every strategy inserts the same hash
    *set*, the set of hashes of the chunk's values. -/
theorem strategies_agree_exact (c : ChunkWrite) (ok : ChunkOk c) (hk : c.kind ≠ .boolean) (h : UInt64)
    (hh : h ∈ (flushFilter c).2) : ∃ v ∈ c.values, h = hashRead v := by
  have fromPage : ∀ p ∈ c.pages, h ∈ pageHashes c.kind p.values → ∃ v ∈ c.values, h = hashRead v := by
    intro p hp hx
    rcases of_mem_pageHashes c.kind hk p.values (ok.kinds p hp) h hx with ⟨v, hv, e⟩
    exact ⟨v, List.mem_flatMap.mpr ⟨p, hp, hv⟩, e⟩
  have fromInc : h ∈ incremental c → ∃ v ∈ c.values, h = hashRead v := by
    intro hx
    unfold incremental at hx
    rcases List.mem_flatMap.mp hx with ⟨p, hp, hx⟩
    split at hx
    · exact fromPage p hp hx
    · simp at hx
  have fromReread : ∀ skip, h ∈ reread c skip → ∃ v ∈ c.values, h = hashRead v := by
    intro skip hx
    unfold reread at hx
    rcases List.mem_flatMap.mp hx with ⟨p, hp, hx⟩
    split at hx
    · simp at hx
    · exact fromPage p hp hx
  unfold flushFilter at hh
  cases hd : c.dictionary with
  | some d =>
    have fromDict : h ∈ pageHashes c.kind d → ∃ v ∈ c.values, h = hashRead v := by
      intro hx
      rcases of_mem_pageHashes c.kind hk d (ok.dictKinds d hd) h hx with ⟨v, hv, e⟩
      exact ⟨v, ok.dictWritten d hd v hv, e⟩
    rw [hd] at hh
    simp only at hh
    split at hh
    · exact fromDict hh
    · split at hh
      · rcases List.mem_append.mp hh with hx | hx
        · exact fromInc hx
        · exact fromDict hx
      · split at hh
        · simp at hh
        · rcases List.mem_append.mp hh with hx | hx
          · exact fromDict hx
          · exact fromReread true hx
  | none =>
    rw [hd] at hh
    simp only at hh
    split at hh
    · exact fromInc hh
    · split at hh
      · simp at hh
      · exact fromReread false hh

/-- every strategy ends with a filter of at least one block as soon as the chunk holds a value -/
theorem strategy_filter_has_a_block (c : ChunkWrite) (ok : ChunkOk c) (hb : 1 ≤ c.bits) (v : Value)
    (hm : v ∈ c.values) : 1 ≤ (flushFilter c).1 / 32 := by
  rcases List.mem_flatMap.mp hm with ⟨p, hp, hvp⟩
  have hne : c.pages.isEmpty = false := by
    cases hps : c.pages with
    | nil => rw [hps] at hp; simp at hp
    | cons _ _ => rfl
  have hnum : 1 ≤ c.numValues := by
    have h1 : 1 ≤ c.values.length := List.length_pos_of_mem hm
    have := ok.count
    omega
  have sized : ∀ n, 1 ≤ n → 1 ≤ filterSize c.bits n / 32 := by
    intro n hn
    unfold filterSize
    rw [Nat.mul_div_cancel_left _ (by decide : 0 < 32)]
    exact numSplitBlocksOf_pos n c.bits hn hb
  have pres : c.presized > 0 → 1 ≤ c.presized / 32 := by
    intro hz
    have := ok.presizedBlocks
    omega
  unfold flushFilter
  cases hd : c.dictionary with
  | some d =>
    simp only
    by_cases hs : c.switched = true
    · simp only [hs, Bool.not_true, Bool.false_eq_true, if_false]
      by_cases hz : c.presized > 0
      · simp only [hz, if_true]; exact pres hz
      · simp only [hz, if_false, hne, Bool.false_eq_true]; exact sized _ hnum
    · simp only [Bool.not_eq_true] at hs
      simp only [hs, Bool.not_false, if_true]
      have hv : v ∈ d := ok.covers d hd p hp (ok.allIndexed hs (by simp [hd]) p hp) v hvp
      exact sized _ (List.length_pos_of_mem hv)
  | none =>
    simp only
    by_cases hz : c.presized > 0
    · simp only [hz, if_true]; exact pres hz
    · simp only [hz, if_false, hne, Bool.false_eq_true]; exact sized _ hnum

/-- END TO END, every strategy: the filter `flushFilterPages` leaves behind (its size, the hashes it
    holds), serialised as in the file and probed as the reader does, answers true for every value
    written to the chunk. -/
theorem written_value_is_found_every_strategy (c : ChunkWrite) (ok : ChunkOk c) (hb : 1 ≤ c.bits)
    (v : Value) (hm : v ∈ c.values) :
    checkBytes (filterBytes (build ((flushFilter c).1 / 32) ((flushFilter c).2.map UInt64.toBitVec)))
      (hashRead v).toBitVec = true := by
  apply no_false_negative_bytes _ (strategy_filter_has_a_block c ok hb v hm)
  exact List.mem_map_of_mem (strategies_agree c ok v hm)

/-! ### a chunk that fell back to PLAIN: 200 distinct int64, the dictionary holds the first 20 -/

def fallbackValues : List Value := (List.range 200).map (fun i => Value.int64 (UInt64.ofNat (i * 1000003)))

def fallbackPages : List WPage :=
  (List.range 20).map (fun k => { values := (fallbackValues.drop (10 * k)).take 10, indexed := decide (k < 2) })

/-- `DictionaryMaxBytes(64)`, `PageBufferSize(64)`, written through `Write`: 2 dictionary pages, then
    18 PLAIN pages; the filter was not pre-sized -/
def fallbackChunk : ChunkWrite :=
  { kind := .int64, bits := 10, pages := fallbackPages, dictionary := some (fallbackValues.take 20),
    switched := true, presized := 0, numValues := 200 }

def missing (c : ChunkWrite) (b : Built) : Nat :=
  (c.values.filter (fun v =>
    !checkBytes (filterBytes (build (b.1 / 32) (b.2.map UInt64.toBitVec))) (hashRead v).toBitVec)).length

set_option maxRecDepth 100000 in
example : ChunkOk fallbackChunk where
  kinds := by decide +kernel
  noDict := by intro h; cases h
  covers := by intro d h; cases h; decide +kernel
  dictKinds := by intro d h; cases h; decide +kernel
  dictWritten := by intro d h; cases h; decide +kernel
  allIndexed := by intro h; cases h
  count := by decide
  presizedBlocks := by decide

/-- BEFORE fix d2487f3 (finding F23) the property was FALSE: the filter was rebuilt from the dictionary
    alone and 180 of the 200 written values were reported absent (the number the real library gave). -/
theorem dict_fallback_false_negatives_before_fix :
    missing fallbackChunk (flushFilterBeforeFix fallbackChunk) = 180 := by
  decide +kernel

/-- the repaired `flushFilterPages` on the same chunk misses nothing -/
theorem dict_fallback_repaired_misses_nothing : missing fallbackChunk (flushFilter fallbackChunk) = 0 := by
  decide +kernel

/-! ## 3. storage (plain or gzip), reading back, verbatim copy -/

/-- What is ASSUMED of gzip is exactly `GzipRoundTrip`. Under it, a gzip-stored filter read back by
    `newBloomFilter` + `Check` (block count from the DECOMPRESSED length) answers as the filter that
    was built. -/
theorem gzip_roundtrip_assumed (enc : List UInt8 → List UInt8) (dec : List UInt8 → Option (List UInt8))
    (hrt : GzipRoundTrip enc dec) (filter : List UInt8) (h : BitVec 64) :
    readCheck dec (store enc true filter) h = some (checkBytes filter h) := by
  simp only [readCheck, store, if_true, List.take_length, hrt filter, checkSplitBlock_length]

/-- toy codec: append 32 zero bytes / strip the last 32 bytes -/
def toyEnc (b : List UInt8) : List UInt8 := b ++ List.replicate 32 0
def toyDec (s : List UInt8) : Option (List UInt8) := some (s.take (s.length - 32))

theorem toy_roundtrip : GzipRoundTrip toyEnc toyDec := by
  intro b
  simp only [toyDec, toyEnc, List.length_append, List.length_replicate, Nat.add_sub_cancel]
  rw [List.take_left' rfl]

example : GzipRoundTrip toyEnc toyDec := toy_roundtrip

/-- an uncompressed filter needs no assumption -/
theorem stored_uncompressed_answers (enc : List UInt8 → List UInt8) (dec : List UInt8 → Option (List UInt8))
    (filter : List UInt8) (h : BitVec 64) :
    readCheck dec (store enc false filter) h = some (checkBytes filter h) := by
  simp only [readCheck, store, Bool.false_eq_true, if_false, List.take_length, checkSplitBlock_length]

/-- Hence a written value is found whichever way the filter is stored. -/
theorem written_value_is_found_stored (enc : List UInt8 → List UInt8) (dec : List UInt8 → Option (List UInt8))
    (hrt : GzipRoundTrip enc dec) (gzip : Bool) (c : ChunkWrite) (ok : ChunkOk c) (hb : 1 ≤ c.bits)
    (v : Value) (hm : v ∈ c.values) :
    readCheck dec (store enc gzip
        (filterBytes (build ((flushFilter c).1 / 32) ((flushFilter c).2.map UInt64.toBitVec))))
      (hashRead v).toBitVec = some true := by
  cases gzip with
  | true => rw [gzip_roundtrip_assumed enc dec hrt, written_value_is_found_every_strategy c ok hb v hm]
  | false => rw [stored_uncompressed_answers, written_value_is_found_every_strategy c ok hb v hm]

/-- Why the block count must come from the decompressed length: with a codec satisfying the round
    trip, probing the decompressed bytes with the COMPRESSED size reports an inserted hash absent. -/
theorem probing_with_compressed_size_misses :
    ∃ (enc : List UInt8 → List UInt8) (dec : List UInt8 → Option (List UInt8)) (n : Nat) (h : BitVec 64),
      GzipRoundTrip enc dec ∧
      readCheck dec (store enc true (filterBytes (build n [h]))) h = some true ∧
      readCheckCompressedSize dec (store enc true (filterBytes (build n [h]))) h = some false :=
  ⟨toyEnc, toyDec, 2, 0xC000000000000001#64, toy_roundtrip, by decide, by decide⟩

/-- VERBATIM COPY: the bytes found in the output at the recorded offset are the source's filter
    section (thrift header + bitset), whatever is written after them. Assumed: `io.Copy`/`ReadFrom`
    transfer the range unchanged, and the range lies inside the source. -/
theorem copied_filter_same_bytes (out src post : List UInt8) (off len : Nat) (hin : off + len ≤ src.length) :
    fileSection ((copyFilterSection out src off len).1 ++ post) (copyFilterSection out src off len).2 len
      = fileSection src off len := by
  have hl : (fileSection src off len).length = len := by
    simp only [fileSection, List.length_take, List.length_drop]; omega
  simp only [copyFilterSection]
  unfold fileSection at hl ⊢
  rw [List.append_assoc, List.drop_left' rfl]
  exact List.take_left' hl

example : (3 : Nat) + 2 ≤ ([1, 2, 3, 4, 5, 6] : List UInt8).length := by decide

/-- … hence, however the header is decoded (`parse`), the copied filter gives the answers of the
    source's filter: it has no false negative for the (verbatim copied) values iff the source had none. -/
theorem copied_filter_same_answers (parse : List UInt8 → Option Stored)
    (dec : List UInt8 → Option (List UInt8)) (out src post : List UInt8) (off len : Nat)
    (hin : off + len ≤ src.length) (h : BitVec 64) :
    (parse (fileSection ((copyFilterSection out src off len).1 ++ post) (copyFilterSection out src off len).2 len)).map
        (fun s => readCheck dec s h)
      = (parse (fileSection src off len)).map (fun s => readCheck dec s h) := by
  rw [copied_filter_same_bytes out src post off len hin]

/-- The copy is only taken (C11's `bloomFilterIsCopyable`) for an uncompressed split-block/xxhash
    source filter that has exactly the size a freshly built one would have. -/
theorem copied_filter_has_fresh_size (d : PqModel.CopyPath.DstCol) (bpv : Nat) (c : PqModel.CopyPath.ChunkMeta)
    (hc : PqModel.CopyPath.bloomFilterIsCopyable d bpv c = true) :
    ∃ hd, c.bloomHeader = some hd ∧ hd.uncompressed = true ∧ hd.splitBlock = true ∧ hd.xxhash = true ∧
      hd.numBytes = filterSize bpv c.numValues ∧ d.filterCompressed = false := by
  unfold PqModel.CopyPath.bloomFilterIsCopyable at hc
  split at hc
  · simp at hc
  · split at hc
    · simp at hc
    · rename_i hfc
      cases hh : c.bloomHeader with
      | none => rw [hh] at hc; simp at hc
      | some hd =>
        rw [hh] at hc
        simp only at hc
        split at hc
        · simp at hc
        · rename_i h1
          split at hc
          · simp at hc
          · rename_i h2
            refine ⟨hd, rfl, ?_, ?_, ?_, ?_, ?_⟩
            · simpa using h2
            · cases hsb : hd.splitBlock <;> simp_all
            · cases hx : hd.xxhash <;> simp_all
            · simpa [filterSize_eq_copyPath] using hc
            · simpa using hfc

end PqModel.Props.C07Writer
