import PqModel.SortCmp

/-! # C10 — Sorting buffers output a correctly ordered permutation

Model: `PqModel/SortBuf.lean` (optional column buffer: `write`, `swap`, `page`, range kernel) and
`PqModel/SortCmp.lean` (`Buffer`, column-wise `Less` chain, `compare.go` comparator).
`sort.Sort` is abstracted as *any* sequence of `Less`/`Swap` calls after which no adjacent pair is
out of order. Every theorem is unbounded (all buffers, histories, value types with an antisymmetric
— for pairwise order: transitive — comparison). The negation witnesses `…_F13/_F14/_F24` are about
the transliterations of the code *as found*; the library was repaired and the mirror follows it. -/
namespace PqModel.Props.C10
open PqModel.SortBuf

/-! ## sample instances for the non-vacuity examples -/

def intOrd : VOrd Int where
  lt := fun a b => decide (a < b)
  cmp := fun a b => a - b
  lt_iff := by intro a b; simp; omega
  anti := by intro a b; omega

theorem intOrd_trans : intOrd.Trans := by
  intro a b c h1 h2; simp only [intOrd] at *; omega

/-- rows written: 5, 3, null, 4 (max definition level 1) -/
def sampleCol : OptCol Int :=
  ((OptCol.empty.write rangeFrom 1 (.vals [5, 3])).write rangeFrom 1 (.nulls 0 1)).write rangeFrom 1 (.vals [4])

theorem sampleCol_inv : sampleCol.Inv 1 :=
  ((OptCol.Inv.empty 1).write_vals [5, 3] rfl |>.write_nulls rangeFrom (by decide) 1 (by decide)).write_vals [4] rfl

def sampleBuf : Buffer Int :=
  { cols := [.opt 1 sampleCol, .req [10, 11, 12, 13]], sorting := [⟨0, true, false⟩, ⟨1, false, false⟩] }

theorem sampleBuf_inv : sampleBuf.BInv 4 := by
  intro c hc
  simp only [sampleBuf, List.mem_cons, List.not_mem_nil, or_false] at hc
  rcases hc with rfl | rfl
  · exact ⟨sampleCol_inv, by decide⟩
  · exact ⟨trivial, by decide⟩

/-! ## 1. the range kernel (`broadcastRangeInt32`) -/

/-- the assembly routine (AVX2 body + scalar tail, as repaired) computes what the portable loop computes -/
theorem broadcast_asm_eq_purego (base : BitVec 32) (n : Nat) : bcastAsm base n = bcastScalar base n :=
  bcastAsm_eq_scalar base n

/-- both builds append `baseLen, baseLen+1, …` to the row index (no int32 wraparound below 2^31 rows) -/
theorem kernel_ok {b n : Nat} (h : b + n ≤ 2 ^ 31) :
    kernelOf bcastAsm b n = rangeFrom b n ∧ kernelOf bcastScalar b n = rangeFrom b n :=
  ⟨kernelOf_asm h, kernelOf_scalar h⟩

example : (2 : Nat) + 9 ≤ 2 ^ 31 := by decide

/-- F14 (as found): `broadcastRangeInt32AVX2(dst[:9], 2)` stores 18 in `dst[8]` (should be 10) … -/
theorem broadcast_avx2_tail_F14 :
    bcastAsmF14 2 9 ≠ bcastScalar 2 9 ∧ (bcastAsmF14 2 9)[8]? = some 18 := by decide

/-- … so writing a run of 9 values after 2 breaks the invariant: a row points outside the base column -/
theorem inv_broken_F14 :
    ¬ ((OptCol.empty.write rangeFrom 1 (.vals [7, 5])).write (kernelOf bcastAsmF14) 1
        (.vals [100, 99, 98, 97, 96, 95, 94, 93, 92] : WOp Int)).Inv 1 := by
  intro h
  have := h.row_lt (r := 18) (by decide) (by decide)
  revert this
  decide

/-! ## 2. the invariant -/

theorem inv_empty {V : Type} (m : Nat) : (OptCol.empty : OptCol V).Inv m := OptCol.Inv.empty m

/-- `write` keeps the invariant: null rows carry a level below the maximum; for a run of values
    the kernel must deliver `baseLen + i` (true for both builds, `kernel_ok`) -/
theorem inv_write {V : Type} {m : Nat} {c : OptCol V} {k : Kernel} (h : c.Inv m) (op : WOp V)
    (hd : ∀ d n mark, op = .nulls d n mark → d ≠ m ∧ mark < 0)
    (hk : ∀ vs, op = .vals vs → k c.base.length vs.length = rangeFrom c.base.length vs.length) :
    (c.write k m op).Inv m := by
  cases op with
  | nulls d n mark => exact h.write_nulls k (hd d n mark rfl).1 n (hd d n mark rfl).2
  | vals vs => exact h.write_vals vs (hk vs rfl)

example : (sampleCol.write rangeFrom 1 (.vals [9, 9])).Inv 1 :=
  inv_write sampleCol_inv _ (by intro d n mark h; cases h) (by intro vs _; rfl)

/-- the marks both builds store for a null row are negative -/
example : (sampleCol.write rangeFrom 1 (.nulls 0 9 (nullMark true))).Inv 1 :=
  inv_write sampleCol_inv _ (by intro d n mark h; cases h; exact ⟨by decide, nullMark_neg true⟩) (by intro vs h; cases h)

/-- `Swap` keeps the invariant (any indexes) -/
theorem inv_swap {V : Type} {m : Nat} {c : OptCol V} (h : c.Inv m) (i j : Nat) : (c.swap i j).Inv m :=
  h.swap i j

example : (sampleCol.swap 0 2).Inv 1 := inv_swap sampleCol_inv 0 2

/-- the invariant in indexed form: levels and row index agree, non-null rows point into the base column -/
theorem inv_indexed {V : Type} {m : Nat} {c : OptCol V} (h : c.Inv m) {i : Nat} (hi : i < c.rows.length) :
    ∃ r d, c.rows[i]? = some r ∧ c.defs[i]? = some d ∧ (d = m ↔ 0 ≤ r) ∧ (0 ≤ r → r.toNat < c.base.length) := by
  have hd : i < c.defs.length := by rw [← h.len]; exact hi
  refine ⟨c.rows[i], c.defs[i], List.getElem?_eq_getElem hi, List.getElem?_eq_getElem hd, ?_, fun h0 => h.row_lt (List.getElem_mem hi) h0⟩
  have hz : (c.rows.zip c.defs)[i]? = some (c.rows[i], c.defs[i]) := by
    rw [List.getElem?_zip_eq_some]; exact ⟨List.getElem?_eq_getElem hi, List.getElem?_eq_getElem hd⟩
  exact h.lvl _ (List.mem_iff_getElem?.mpr ⟨i, hz⟩)

/-- the rows held after a write are the rows held before followed by the rows written -/
theorem view_write {V : Type} {m : Nat} {c : OptCol V} {k : Kernel} (h : c.Inv m) (op : WOp V)
    (hm : ∀ d n mark, op = .nulls d n mark → mark < 0)
    (hk : ∀ vs, op = .vals vs → k c.base.length vs.length = rangeFrom c.base.length vs.length) :
    (c.write k m op).view = c.view ++ op.cells m :=
  OptCol.view_write h op hm hk

example : sampleCol.view = [(1, some 5), (1, some 3), (0, none), (1, some 4)] := by decide

/-! ## 3. `Page()` -/

/-- under the invariant the cyclic reorder terminates within the fuel (= number of values) and the
    page lists the values in row order: the invariant is kept, the logical rows and the levels are
    unchanged, the row index becomes the identity on the non-null rows, and the base column is the
    list of the non-null rows' values in row order. Connects to `Reorder.reorder_correct`. -/
theorem page_spec {V : Type} {m : Nat} {c : OptCol V} (h : c.Inv m) :
    (c.page m).Inv m ∧ (c.page m).reordered = false ∧ (c.page m).view = c.view ∧ (c.page m).defs = c.defs ∧
    nn (c.page m).rows = List.range (c.page m).base.length ∧
    (c.page m).base.map some = (nn c.rows).map (fun (k : Nat) => c.base[k]?) :=
  OptCol.page_spec h

example : ((sampleCol.swap 0 3).swap 1 2).page 1 =
    { base := [4, 3, 5], rows := [0, -1, 1, 2], defs := [1, 0, 1, 1], reordered := false } := by decide

/-- F24 (as found): the renumbering loop of `Page()` stored at the counter, not at the position read:
    rows `null, 5, 3` sorted to `null, 3, 5` leave `rows = [0, 1, 0]`: a null row with a non-negative
    index and two rows on the same value — the invariant is lost after the first `Page()`. -/
theorem page_renumber_F24 :
    let c : OptCol Int := { base := [5, 3], rows := [-1, 1, 0], defs := [0, 1, 1], reordered := true }
    c.Inv 1 ∧ (c.pageF24 1).rows = [0, 1, 0] ∧ ¬ (c.pageF24 1).Inv 1 ∧ (c.page 1).rows = [-1, 0, 1] := by
  refine ⟨⟨rfl, ?_, by decide, by intro h; cases h⟩, by decide, ?_, by decide⟩
  · exact List.Perm.swap 0 1 []
  · intro h
    have := h.lvl (0, 0) (by decide)
    revert this
    decide

/-! ## 4. rows stay intact -/

/-- swapping rows i and j in every column swaps whole rows: row `k` of the new buffer equals row
    `tr i j k` of the old buffer in all columns (values and levels) -/
theorem swap_rows_intact {V : Type} {b : Buffer V} {n : Nat} (h : b.BInv n) {i j : Nat} (hi : i < n) (hj : j < n) (k : Nat) :
    (b.swap i j).fullRow k = b.fullRow (tr i j k) ∧ (b.swap i j).BInv n :=
  ⟨Buffer.fullRow_swap h hi hj k, h.swap i j⟩

example : (sampleBuf.swap 0 2).fullRow 0 = sampleBuf.fullRow 2 :=
  (swap_rows_intact sampleBuf_inv (by decide) (by decide) 0).1

/-! ## 5. the column-wise `Less` chain is the comparator -/

/-- `Buffer.Less(i, j)` (first sorting column that orders the rows decides; nulls first/last as
    declared; descending reverses values only) ⇔ `Schema.Comparator(sorting…)(row i, row j) < 0`,
    for asc/desc × nulls first/last on every sorting column -/
theorem less_agrees {V : Type} (o : VOrd V) {b : Buffer V} {n : Nat} (h : b.BInv n)
    (hs : ∀ sc ∈ b.sorting, sc.col < b.cols.length) {i j : Nat} (hi : i < n) (hj : j < n) :
    b.less o.lt i j = true ↔ cmpRows o.cmp b.sorting (b.row i) (b.row j) < 0 :=
  Buffer.less_agrees o h hs hi hj

example : sampleBuf.less intOrd.lt 0 2 = true ∧ cmpRows intOrd.cmp sampleBuf.sorting (sampleBuf.row 0) (sampleBuf.row 2) < 0 := by
  decide

/-- F13 (as found): with `reversedColumnBuffer` around the optional column, a descending
    nulls-last column puts the null row first: `Less(null, 5)` holds although the comparator says
    the null row is greater. -/
theorem less_disagrees_F13 :
    let b : Buffer Int := { cols := [.opt 1 { base := [5], rows := [-1, 0], defs := [0, 1] }], sorting := [⟨0, true, false⟩] }
    b.BInv 2 ∧ b.lessF13 intOrd.lt 0 1 = true ∧ ¬ (cmpRows intOrd.cmp b.sorting (b.row 0) (b.row 1) < 0) ∧
    b.less intOrd.lt 0 1 = false := by
  refine ⟨?_, by decide, by decide, by decide⟩
  intro c hc
  simp only [List.mem_cons, List.not_mem_nil, or_false] at hc
  subst hc
  refine ⟨⟨rfl, List.Perm.refl _, by decide, fun _ => rfl⟩, by decide⟩

/-! ## 6. sorting -/

/-- For ANY sequence of `Swap` calls (interleaved with any `Less` calls) after which no adjacent
    pair is out of order (`∀ i, ¬ Less (i+1) i`), the buffer holds a permutation of the rows written
    (whole rows, all columns and levels) and adjacent rows are ordered by the comparator. -/
theorem sort_adjacent {V : Type} (o : VOrd V) {b0 : Buffer V} {n : Nat} (h0 : b0.BInv n)
    (hs : ∀ sc ∈ b0.sorting, sc.col < b0.cols.length) (ops : List (Nat × Nat))
    (hfin : ∀ i, i + 1 < n → (b0.run ops).less o.lt (i + 1) i = false) :
    ((b0.run ops).rows n).Perm (b0.rows n) ∧
    ∀ i, i + 1 < n → cmpRows o.cmp b0.sorting ((b0.run ops).row i) ((b0.run ops).row (i + 1)) ≤ 0 := by
  refine ⟨Buffer.rows_run_perm ops h0, ?_⟩
  intro i hi
  have hb := Buffer.BInv.run ops h0
  have hs' : ∀ sc ∈ (b0.run ops).sorting, sc.col < (b0.run ops).cols.length := by
    rw [Buffer.run_sorting, Buffer.run_cols_length]; exact hs
  have hag := Buffer.less_agrees o hb hs' (i := i + 1) (j := i) hi (by omega)
  have hnot : ¬ cmpRows o.cmp (b0.run ops).sorting ((b0.run ops).row (i + 1)) ((b0.run ops).row i) < 0 := by
    intro hlt
    have := hag.mpr hlt
    rw [hfin i hi] at this
    exact Bool.false_ne_true this
  rw [Buffer.run_sorting, cmpRows_anti] at hnot
  omega

/-- … and with a transitive value order the rows are pairwise ordered: a sorted permutation. -/
theorem sort_correct {V : Type} (o : VOrd V) (ht : o.Trans) {b0 : Buffer V} {n : Nat} (h0 : b0.BInv n)
    (hs : ∀ sc ∈ b0.sorting, sc.col < b0.cols.length) (ops : List (Nat × Nat))
    (hfin : ∀ i, i + 1 < n → (b0.run ops).less o.lt (i + 1) i = false) :
    ((b0.run ops).rows n).Perm (b0.rows n) ∧
    ∀ i j, i < j → j < n → cmpRows o.cmp b0.sorting ((b0.run ops).row i) ((b0.run ops).row j) ≤ 0 := by
  obtain ⟨hp, hadj⟩ := sort_adjacent o h0 hs ops hfin
  refine ⟨hp, ?_⟩
  intro i j hij hj
  have := sorted_of_adjacent (fun r1 r2 => cmpRows o.cmp b0.sorting r1 r2 ≤ 0)
    (fun a b c => cmpRows_trans o ht b0.sorting a b c) (fun k => (b0.run ops).row k) n hadj (j - i - 1) i (by omega)
  rwa [show i + (j - i - 1) + 1 = j by omega] at this

/-- non-vacuity: a history of three swaps sorts the sample buffer (descending, nulls last, on the
    optional column): 5, 4, 3, null -/
example : ∀ i, i + 1 < 4 → (sampleBuf.run [(1, 3), (2, 3)]).less intOrd.lt (i + 1) i = false := by
  intro i hi
  have : i = 0 ∨ i = 1 ∨ i = 2 := by omega
  rcases this with rfl | rfl | rfl <;> decide

example : (List.range 4).map (fun k => (sampleBuf.run [(1, 3), (2, 3)]).row k 0) = [some 5, some 4, some 3, none] := by decide

/-- after sorting, `Page()` on every optional column keeps every row (the written file holds the
    sorted rows): stated per column in `page_spec` (`view` unchanged). -/
theorem page_keeps_rows {V : Type} {m : Nat} {c : OptCol V} (h : c.Inv m) (k : Nat) :
    (Col.opt m (c.page m)).view[k]? = (Col.opt m c).view[k]? := by
  simp only [Col.view]; rw [(OptCol.page_spec h).2.2.1]

-- OPEN (outside this slice): the SortingWriter corollary — sorted runs + `MergeRowGroups` yield a sorted
-- permutation, and with `DropDuplicatedRows` one row per key — composes `sort_correct` with the merge /
-- dedupe theorems of C09 (`MergeTree.lean`); here it is covered by the L1 check only.
-- NOT modelled: `repeatedColumnBuffer` (sorting on a repeated leaf) — L1 only.

end PqModel.Props.C10
