import PqModel.SortCmp
import PqModel.SortWriter
import PqModel.SortNested
import PqModel.SortCuts
import PqModel.Props.C09

/-! # C10 — Sorting buffers output a correctly ordered permutation

Model: `PqModel/SortBuf.lean` (optional column buffer: `write`, `swap`, `page`, range kernel) and
`PqModel/SortCmp.lean` (`Buffer`, column-wise `Less` chain, `compare.go` comparator).
`sort.Sort` is abstracted as *any* sequence of `Less`/`Swap` calls after which no adjacent pair is
out of order. Every theorem is unbounded (all buffers, histories, value types with an antisymmetric
— for pairwise order: transitive — comparison). The negation witnesses `…_F13/_F14/_F24` are about
the transliterations of the code *as found*; the library was repaired and the mirror follows it. -/
namespace PqModel.Props.C10
open PqModel.SortBuf

/-! ## sample instances for the non-vacuity examples -/

def intOrd : VOrd Int where
  lt := fun a b => decide (a < b)
  cmp := fun a b => a - b
  lt_iff := by intro a b; simp; omega
  anti := by intro a b; omega

theorem intOrd_trans : intOrd.Trans := by
  intro a b c h1 h2; simp only [intOrd] at *; omega

/-- rows written: 5, 3, null, 4 (max definition level 1) -/
def sampleCol : OptCol Int :=
  ((OptCol.empty.write rangeFrom 1 (.vals [5, 3])).write rangeFrom 1 (.nulls 0 1)).write rangeFrom 1 (.vals [4])

theorem sampleCol_inv : sampleCol.Inv 1 :=
  ((OptCol.Inv.empty 1).write_vals [5, 3] rfl |>.write_nulls rangeFrom (by decide) 1 (by decide)).write_vals [4] rfl

def sampleBuf : Buffer Int :=
  { cols := [.opt 1 sampleCol, .req [10, 11, 12, 13]], sorting := [⟨0, true, false⟩, ⟨1, false, false⟩] }

theorem sampleBuf_inv : sampleBuf.BInv 4 := by
  intro c hc
  simp only [sampleBuf, List.mem_cons, List.not_mem_nil, or_false] at hc
  rcases hc with rfl | rfl
  · exact ⟨sampleCol_inv, by decide⟩
  · exact ⟨trivial, by decide⟩

/-! ## 1. the range kernel (`broadcastRangeInt32`) -/

/-- the assembly routine (AVX2 body + scalar tail, as repaired) computes what the portable loop computes -/
theorem broadcast_asm_eq_purego (base : BitVec 32) (n : Nat) : bcastAsm base n = bcastScalar base n :=
  bcastAsm_eq_scalar base n

/-- both builds append `baseLen, baseLen+1, …` to the row index (no int32 wraparound below 2^31 rows) -/
theorem kernel_ok {b n : Nat} (h : b + n ≤ 2 ^ 31) :
    kernelOf bcastAsm b n = rangeFrom b n ∧ kernelOf bcastScalar b n = rangeFrom b n :=
  ⟨kernelOf_asm h, kernelOf_scalar h⟩

example : (2 : Nat) + 9 ≤ 2 ^ 31 := by decide

/-- F14 (as found): `broadcastRangeInt32AVX2(dst[:9], 2)` stores 18 in `dst[8]` (should be 10) … -/
theorem broadcast_avx2_tail_F14 :
    bcastAsmF14 2 9 ≠ bcastScalar 2 9 ∧ (bcastAsmF14 2 9)[8]? = some 18 := by decide

/-- … so writing a run of 9 values after 2 breaks the invariant: a row points outside the base column -/
theorem inv_broken_F14 :
    ¬ ((OptCol.empty.write rangeFrom 1 (.vals [7, 5])).write (kernelOf bcastAsmF14) 1
        (.vals [100, 99, 98, 97, 96, 95, 94, 93, 92] : WOp Int)).Inv 1 := by
  intro h
  have := h.row_lt (r := 18) (by decide) (by decide)
  revert this
  decide

/-! ## 2. the invariant -/

theorem inv_empty {V : Type} (m : Nat) : (OptCol.empty : OptCol V).Inv m := OptCol.Inv.empty m

/-- `write` keeps the invariant: null rows carry a level below the maximum; for a run of values
    the kernel must deliver `baseLen + i` (true for both builds, `kernel_ok`) -/
theorem inv_write {V : Type} {m : Nat} {c : OptCol V} {k : Kernel} (h : c.Inv m) (op : WOp V)
    (hd : ∀ d n mark, op = .nulls d n mark → d ≠ m ∧ mark < 0)
    (hk : ∀ vs, op = .vals vs → k c.base.length vs.length = rangeFrom c.base.length vs.length) :
    (c.write k m op).Inv m := by
  cases op with
  | nulls d n mark => exact h.write_nulls k (hd d n mark rfl).1 n (hd d n mark rfl).2
  | vals vs => exact h.write_vals vs (hk vs rfl)

example : (sampleCol.write rangeFrom 1 (.vals [9, 9])).Inv 1 :=
  inv_write sampleCol_inv _ (by intro d n mark h; cases h) (by intro vs _; rfl)

/-- the marks both builds store for a null row are negative -/
example : (sampleCol.write rangeFrom 1 (.nulls 0 9 (nullMark true))).Inv 1 :=
  inv_write sampleCol_inv _ (by intro d n mark h; cases h; exact ⟨by decide, nullMark_neg true⟩) (by intro vs h; cases h)

/-- `Swap` keeps the invariant (any indexes) -/
theorem inv_swap {V : Type} {m : Nat} {c : OptCol V} (h : c.Inv m) (i j : Nat) : (c.swap i j).Inv m :=
  h.swap i j

example : (sampleCol.swap 0 2).Inv 1 := inv_swap sampleCol_inv 0 2

/-- the invariant in indexed form: levels and row index agree, non-null rows point into the base column -/
theorem inv_indexed {V : Type} {m : Nat} {c : OptCol V} (h : c.Inv m) {i : Nat} (hi : i < c.rows.length) :
    ∃ r d, c.rows[i]? = some r ∧ c.defs[i]? = some d ∧ (d = m ↔ 0 ≤ r) ∧ (0 ≤ r → r.toNat < c.base.length) := by
  have hd : i < c.defs.length := by rw [← h.len]; exact hi
  refine ⟨c.rows[i], c.defs[i], List.getElem?_eq_getElem hi, List.getElem?_eq_getElem hd, ?_, fun h0 => h.row_lt (List.getElem_mem hi) h0⟩
  have hz : (c.rows.zip c.defs)[i]? = some (c.rows[i], c.defs[i]) := by
    rw [List.getElem?_zip_eq_some]; exact ⟨List.getElem?_eq_getElem hi, List.getElem?_eq_getElem hd⟩
  exact h.lvl _ (List.mem_iff_getElem?.mpr ⟨i, hz⟩)

/-- the rows held after a write are the rows held before followed by the rows written -/
theorem view_write {V : Type} {m : Nat} {c : OptCol V} {k : Kernel} (h : c.Inv m) (op : WOp V)
    (hm : ∀ d n mark, op = .nulls d n mark → mark < 0)
    (hk : ∀ vs, op = .vals vs → k c.base.length vs.length = rangeFrom c.base.length vs.length) :
    (c.write k m op).view = c.view ++ op.cells m :=
  OptCol.view_write h op hm hk

example : sampleCol.view = [(1, some 5), (1, some 3), (0, none), (1, some 4)] := by decide

/-! ## 3. `Page()` -/

/-- under the invariant the cyclic reorder terminates within the fuel (= number of values) and the
    page lists the values in row order: the invariant is kept, the logical rows and the levels are
    unchanged, the row index becomes the identity on the non-null rows, and the base column is the
    list of the non-null rows' values in row order. Connects to `Reorder.reorder_correct`. -/
theorem page_spec {V : Type} {m : Nat} {c : OptCol V} (h : c.Inv m) :
    (c.page m).Inv m ∧ (c.page m).reordered = false ∧ (c.page m).view = c.view ∧ (c.page m).defs = c.defs ∧
    nn (c.page m).rows = List.range (c.page m).base.length ∧
    (c.page m).base.map some = (nn c.rows).map (fun (k : Nat) => c.base[k]?) :=
  OptCol.page_spec h

example : ((sampleCol.swap 0 3).swap 1 2).page 1 =
    { base := [4, 3, 5], rows := [0, -1, 1, 2], defs := [1, 0, 1, 1], reordered := false } := by decide

/-- F24 (as found): the renumbering loop of `Page()` stored at the counter, not at the position read:
    rows `null, 5, 3` sorted to `null, 3, 5` leave `rows = [0, 1, 0]`: a null row with a non-negative
    index and two rows on the same value — the invariant is lost after the first `Page()`. -/
theorem page_renumber_F24 :
    let c : OptCol Int := { base := [5, 3], rows := [-1, 1, 0], defs := [0, 1, 1], reordered := true }
    c.Inv 1 ∧ (c.pageF24 1).rows = [0, 1, 0] ∧ ¬ (c.pageF24 1).Inv 1 ∧ (c.page 1).rows = [-1, 0, 1] := by
  refine ⟨⟨rfl, ?_, by decide, by intro h; cases h⟩, by decide, ?_, by decide⟩
  · exact List.Perm.swap 0 1 []
  · intro h
    have := h.lvl (0, 0) (by decide)
    revert this
    decide

/-! ## 4. rows stay intact -/

/-- swapping rows i and j in every column swaps whole rows: row `k` of the new buffer equals row
    `tr i j k` of the old buffer in all columns (values and levels) -/
theorem swap_rows_intact {V : Type} {b : Buffer V} {n : Nat} (h : b.BInv n) {i j : Nat} (hi : i < n) (hj : j < n) (k : Nat) :
    (b.swap i j).fullRow k = b.fullRow (tr i j k) ∧ (b.swap i j).BInv n :=
  ⟨Buffer.fullRow_swap h hi hj k, h.swap i j⟩

example : (sampleBuf.swap 0 2).fullRow 0 = sampleBuf.fullRow 2 :=
  (swap_rows_intact sampleBuf_inv (by decide) (by decide) 0).1

/-! ## 5. the column-wise `Less` chain is the comparator -/

/-- `Buffer.Less(i, j)` (first sorting column that orders the rows decides; nulls first/last as
    declared; descending reverses values only) ⇔ `Schema.Comparator(sorting…)(row i, row j) < 0`,
    for asc/desc × nulls first/last on every sorting column -/
theorem less_agrees {V : Type} (o : VOrd V) {b : Buffer V} {n : Nat} (h : b.BInv n)
    (hs : ∀ sc ∈ b.sorting, sc.col < b.cols.length) {i j : Nat} (hi : i < n) (hj : j < n) :
    b.less o.lt i j = true ↔ cmpRows o.cmp b.sorting (b.row i) (b.row j) < 0 :=
  Buffer.less_agrees o h hs hi hj

example : sampleBuf.less intOrd.lt 0 2 = true ∧ cmpRows intOrd.cmp sampleBuf.sorting (sampleBuf.row 0) (sampleBuf.row 2) < 0 := by
  decide

/-- F13 (as found): with `reversedColumnBuffer` around the optional column, a descending
    nulls-last column puts the null row first: `Less(null, 5)` holds although the comparator says
    the null row is greater. -/
theorem less_disagrees_F13 :
    let b : Buffer Int := { cols := [.opt 1 { base := [5], rows := [-1, 0], defs := [0, 1] }], sorting := [⟨0, true, false⟩] }
    b.BInv 2 ∧ b.lessF13 intOrd.lt 0 1 = true ∧ ¬ (cmpRows intOrd.cmp b.sorting (b.row 0) (b.row 1) < 0) ∧
    b.less intOrd.lt 0 1 = false := by
  refine ⟨?_, by decide, by decide, by decide⟩
  intro c hc
  simp only [List.mem_cons, List.not_mem_nil, or_false] at hc
  subst hc
  refine ⟨⟨rfl, List.Perm.refl _, by decide, fun _ => rfl⟩, by decide⟩

/-! ## 6. sorting -/

/-- For ANY sequence of `Swap` calls (interleaved with any `Less` calls) after which no adjacent
    pair is out of order (`∀ i, ¬ Less (i+1) i`), the buffer holds a permutation of the rows written
    (whole rows, all columns and levels) and adjacent rows are ordered by the comparator. -/
theorem sort_adjacent {V : Type} (o : VOrd V) {b0 : Buffer V} {n : Nat} (h0 : b0.BInv n)
    (hs : ∀ sc ∈ b0.sorting, sc.col < b0.cols.length) (ops : List (Nat × Nat))
    (hfin : ∀ i, i + 1 < n → (b0.run ops).less o.lt (i + 1) i = false) :
    ((b0.run ops).rows n).Perm (b0.rows n) ∧
    ∀ i, i + 1 < n → cmpRows o.cmp b0.sorting ((b0.run ops).row i) ((b0.run ops).row (i + 1)) ≤ 0 := by
  refine ⟨Buffer.rows_run_perm ops h0, ?_⟩
  intro i hi
  have hb := Buffer.BInv.run ops h0
  have hs' : ∀ sc ∈ (b0.run ops).sorting, sc.col < (b0.run ops).cols.length := by
    rw [Buffer.run_sorting, Buffer.run_cols_length]; exact hs
  have hag := Buffer.less_agrees o hb hs' (i := i + 1) (j := i) hi (by omega)
  have hnot : ¬ cmpRows o.cmp (b0.run ops).sorting ((b0.run ops).row (i + 1)) ((b0.run ops).row i) < 0 := by
    intro hlt
    have := hag.mpr hlt
    rw [hfin i hi] at this
    exact Bool.false_ne_true this
  rw [Buffer.run_sorting, cmpRows_anti] at hnot
  omega

/-- … and with a transitive value order the rows are pairwise ordered: a sorted permutation. -/
theorem sort_correct {V : Type} (o : VOrd V) (ht : o.Trans) {b0 : Buffer V} {n : Nat} (h0 : b0.BInv n)
    (hs : ∀ sc ∈ b0.sorting, sc.col < b0.cols.length) (ops : List (Nat × Nat))
    (hfin : ∀ i, i + 1 < n → (b0.run ops).less o.lt (i + 1) i = false) :
    ((b0.run ops).rows n).Perm (b0.rows n) ∧
    ∀ i j, i < j → j < n → cmpRows o.cmp b0.sorting ((b0.run ops).row i) ((b0.run ops).row j) ≤ 0 := by
  obtain ⟨hp, hadj⟩ := sort_adjacent o h0 hs ops hfin
  refine ⟨hp, ?_⟩
  intro i j hij hj
  have := sorted_of_adjacent (fun r1 r2 => cmpRows o.cmp b0.sorting r1 r2 ≤ 0)
    (fun a b c => cmpRows_trans o ht b0.sorting a b c) (fun k => (b0.run ops).row k) n hadj (j - i - 1) i (by omega)
  rwa [show i + (j - i - 1) + 1 = j by omega] at this

/-- non-vacuity: a history of three swaps sorts the sample buffer (descending, nulls last, on the
    optional column): 5, 4, 3, null -/
example : ∀ i, i + 1 < 4 → (sampleBuf.run [(1, 3), (2, 3)]).less intOrd.lt (i + 1) i = false := by
  intro i hi
  have : i = 0 ∨ i = 1 ∨ i = 2 := by omega
  rcases this with rfl | rfl | rfl <;> decide

example : (List.range 4).map (fun k => (sampleBuf.run [(1, 3), (2, 3)]).row k 0) = [some 5, some 4, some 3, none] := by decide

/-- after sorting, `Page()` on every optional column keeps every row (the written file holds the
    sorted rows): stated per column in `page_spec` (`view` unchanged). -/
theorem page_keeps_rows {V : Type} {m : Nat} {c : OptCol V} (h : c.Inv m) (k : Nat) :
    (Col.opt m (c.page m)).view[k]? = (Col.opt m c).view[k]? := by
  simp only [Col.view]; rw [(OptCol.page_spec h).2.2.1]

/-! ## 7. the repeated column buffer (`column_buffer_repeated.go`) -/

/-- two rows of a list column: [1, 9] and [1, 3] (max definition level 1) -/
def sampleRep : RepCol Int :=
  (RepCol.empty.writeRow [(0, 1, some 1), (1, 1, some 9)]).writeRow [(0, 1, some 1), (1, 1, some 3)]

theorem sampleRep_inv : sampleRep.RInv 1 :=
  (RepCol.view_writeRow (RepCol.view_writeRow (RepCol.RInv.empty 1) (by simp [RowWF])).2 (by simp [RowWF])).2

/-- `writeRow` of a well-formed row keeps the invariant and appends exactly that row -/
theorem repeated_write {V : Type} {m : Nat} {c : RepCol V} (h : c.RInv m) {row : List (RCell V)} (hw : RowWF m row) :
    (c.writeRow row).view m = c.view m ++ [row] ∧ (c.writeRow row).RInv m :=
  RepCol.view_writeRow h hw

example : sampleRep.view 1 = [[(0, 1, some 1), (1, 1, some 9)], [(0, 1, some 1), (1, 1, some 3)]] := by decide

/-- `Swap` exchanges whole rows (all their values and levels) and keeps the invariant -/
theorem repeated_swap {V : Type} {m : Nat} {c : RepCol V} (h : c.RInv m) (i j : Nat) :
    (c.swap i j).view m = swapL (c.view m) i j ∧ (c.swap i j).RInv m :=
  ⟨RepCol.view_swap m c i j, h.swap i j⟩

/-- `Page()` of the repeated buffer: keeps the invariant and the rows held; after swaps, the level
    arrays and the base column list the rows' levels and values in row order -/
theorem repeated_page_spec {V : Type} {m : Nat} {c : RepCol V} (h : c.RInv m) :
    (c.page m).RInv m ∧ (c.page m).view m = c.view m ∧ (c.page m).reordered = false ∧
    (c.reordered = true →
      (c.page m).lv = (c.view m).flatten.map (fun x => (x.1, x.2.1)) ∧
      (c.page m).base = (c.view m).flatten.filterMap (fun x => x.2.2)) :=
  RepCol.page_spec h

example : ((sampleRep.swap 0 1).page 1).base = [1, 3, 1, 9] ∧ ((sampleRep.swap 0 1).page 1).rows = [(0, 0), (2, 2)] := by decide

/-- `repeatedColumnBuffer.Less(i, j)` (as repaired: every value of the two rows, then the shorter
    row first) ⇔ the comparator on the two rows' value lists is negative, asc/desc × nulls first/last -/
theorem repeated_less_agrees {V : Type} (o : VOrd V) (sc : SortCol) {m : Nat} {c : RepCol V} (h : c.RInv m)
    {i j : Nat} (hi : i < c.rows.length) (hj : j < c.rows.length) :
    c.less o.lt sc.desc sc.nullsFirst m i j = true ↔ cmpList (cmpCell o.cmp sc) (c.key m i) (c.key m j) < 0 :=
  RepCol.less_agrees o sc h hi hj

example : sampleRep.less intOrd.lt false false 1 1 0 = true ∧
    cmpList (cmpCell intOrd.cmp ⟨0, false, false⟩) (sampleRep.key 1 1) (sampleRep.key 1 0) < 0 := by decide

/-- F23 (as found): `Less` re-read the rows' first base value for every position, so `[1, 3] < [1, 9]`
    was not seen (nor the converse): the rows compared as equal -/
theorem repeated_less_F23 :
    sampleRep.lessF23 intOrd.lt false false 1 1 0 = false ∧ sampleRep.lessF23 intOrd.lt false false 1 0 1 = false ∧
    cmpList (cmpCell intOrd.cmp ⟨0, false, false⟩) (sampleRep.key 1 1) (sampleRep.key 1 0) < 0 := by decide

/-! ## 8. the row comparator on list-valued keys; `RowBuffer` -/

/-- `Schema.Comparator(sorting…)` (every sorting column's values position by position, proper
    prefix first; asc/desc × nulls first/last) is a total preorder whenever the value order is -/
theorem comparator_total_preorder {V : Type} (o : VOrd V) (ht : o.Trans) (s : List SortCol) : CmpOk (cmpRowsL o.cmp s) :=
  cmpRowsL_ok o ht s

/-- on non-repeated sorting columns it is the comparator of `less_agrees` -/
theorem comparator_singleton {V : Type} (cmp : V → V → Int) (s : List SortCol) (r1 r2 : Nat → Option V) :
    cmpRowsL cmp s (fun c => [r1 c]) (fun c => [r2 c]) = cmpRows cmp s r1 r2 :=
  cmpRowsL_singleton cmp s r1 r2

/-- `RowBuffer[T]`: for ANY history of `Swap` calls after which `Less(i+1, i)` holds nowhere, the
    buffer holds a permutation of the rows written, pairwise ordered by the comparator -/
theorem rowbuffer_sort_correct {R : Type} (cmp : R → R → Int) (hc : CmpOk cmp) (b0 : RowBuf R) (ops : List (Nat × Nat))
    (hfin : ∀ i, i + 1 < (b0.run ops).rows.length → (b0.run ops).less cmp (i + 1) i = false) :
    (b0.run ops).rows.Perm b0.rows ∧ (b0.run ops).rows.Pairwise (fun a b => cmp a b ≤ 0) :=
  RowBuf.sort_correct cmp hc b0 ops hfin

/-- … in particular with `Schema.Comparator` on rows with list-valued columns -/
theorem rowbuffer_sort_correct_schema {V : Type} (o : VOrd V) (ht : o.Trans) (s : List SortCol)
    (b0 : RowBuf (Nat → List (Option V))) (ops : List (Nat × Nat))
    (hfin : ∀ i, i + 1 < (b0.run ops).rows.length → (b0.run ops).less (cmpRowsL o.cmp s) (i + 1) i = false) :
    (b0.run ops).rows.Perm b0.rows ∧ (b0.run ops).rows.Pairwise (fun a b => cmpRowsL o.cmp s a b ≤ 0) :=
  RowBuf.sort_correct _ (cmpRowsL_ok o ht s) b0 ops hfin

example : (∀ i, i + 1 < ((RowBuf.mk [3, 1, 2]).run [(0, 1), (1, 2)]).rows.length →
      ((RowBuf.mk [3, 1, 2]).run [(0, 1), (1, 2)]).less intOrd.cmp (i + 1) i = false) ∧
    ((RowBuf.mk [3, 1, 2]).run [(0, 1), (1, 2)]).rows = [1, 2, 3] := by
  refine ⟨?_, by decide⟩
  intro i hi
  have : i = 0 ∨ i = 1 := by
    have : ((RowBuf.mk [3, 1, 2]).run [(0, 1), (1, 2)]).rows.length = 3 := by decide
    omega
  rcases this with rfl | rfl <;> decide

/-! ## 9. the `SortingWriter` composition (sorted runs → C09 merge → duplicate dropping)

Linking hypotheses, all explicit:
* `hsort`: every run comes out of its buffer as a sorted permutation. For the `SortingWriter` the
  buffer is a `RowBuffer` sorted by `Schema.Comparator` itself: this is `rowbuffer_sort_correct`
  (no `less_agrees` needed). When runs are sorted in a column `Buffer`/`GenericBuffer`
  (`sort_correct`), `less_agrees` / `repeated_less_agrees` are what turn "no `Buffer.Less(i+1, i)`"
  into "ordered by the comparator".
* `Ranked cmp rank`: the comparator is represented by integer ranks (the C09 merge model sorts by
  an `Int` key); such a rank exists for every finite set of rows under a total preorder.
* the merge is any `IsMerge` of the runs (`merge_output_sorted_perm`); instantiated with the C09
  row readers for every refill pattern and batch-size sequence (`sorting_writer_correct`). The
  segment plans of `WriteRowGroup(merged)` are `IsMerge` too by C09 `refined_plan_is_merge`. -/

/-- any correct merge (C09 `IsMerge`) of sorted runs reads back as a sorted permutation of their rows -/
theorem merge_output_sorted_perm {R : Type} (rank : R → Int) (ss : List (List R)) {out : List PqModel.Merge.Row}
    (hm : PqModel.Merge.IsMerge (PqModel.Merge.tagInputs (keysOf rank ss)) out) :
    (untag ss out).Perm ss.flatten ∧ (untag ss out).Pairwise (fun a b => rank a ≤ rank b) :=
  untag_isMerge rank ss hm

theorem keysOf_sorted {R : Type} {cmp : R → R → Int} {rank : R → Int} (hr : Ranked cmp rank) (ss : List (List R))
    (hs : ∀ s ∈ ss, s.Pairwise (fun a b => cmp a b ≤ 0)) : ∀ ks ∈ keysOf rank ss, ks.Pairwise (· ≤ ·) := by
  intro ks hks
  obtain ⟨s, hs', rfl⟩ := List.mem_map.mp hks
  rw [List.pairwise_map]
  exact (hs s hs').imp (fun h => (hr.le_iff _ _).mp h)

/-- **SortingWriter**: for every list of runs (in particular the chunks of `n ≥ 1` rows of any input),
    every sorter of the runs that yields sorted permutations, every refill pattern of the temporary
    row groups and every sequence of positive read batch sizes long enough to drain them, the rows
    written to the output are a permutation of the rows written to the writer, pairwise ordered by
    the comparator. -/
theorem sorting_writer_correct {R : Type} (cmp : R → R → Int) (rank : R → Int) (hr : Ranked cmp rank)
    (sortRun : List R → List R)
    (hsort : ∀ run, (sortRun run).Perm run ∧ (sortRun run).Pairwise (fun a b => cmp a b ≤ 0))
    (runs : List (List R)) (refills : List (List Nat)) (batches : List Nat) (hpos : ∀ b ∈ batches, 1 ≤ b)
    (hlen : (PqModel.Merge.tagInputs (keysOf rank (runs.map sortRun))).flatten.length < batches.length) :
    let ss := runs.map sortRun
    let out := untag ss ((PqModel.Merge.Reader.new (PqModel.Merge.tagInputs (keysOf rank ss)) refills).session batches).1.flatten
    out.Perm runs.flatten ∧ out.Pairwise (fun a b => cmp a b ≤ 0) := by
  intro ss out
  have hks := keysOf_sorted hr ss (by
    intro s hs; obtain ⟨run, _, rfl⟩ := List.mem_map.mp hs; exact (hsort run).2)
  have hm := PqModel.Props.C09.merge_at_eof (keysOf rank ss) refills batches hks
    (PqModel.Props.C09.merge_reaches_eof (keysOf rank ss) refills batches hks hpos hlen)
  obtain ⟨p, q⟩ := untag_isMerge rank ss hm
  exact ⟨p.trans (perm_flatten_map sortRun (fun l => (hsort l).1) runs), q.imp (fun h => (hr.le_iff _ _).mpr h)⟩

/-- … for the runs the writer really forms: consecutive chunks of `n` rows -/
theorem sorting_writer_correct_chunks {R : Type} (cmp : R → R → Int) (rank : R → Int) (hr : Ranked cmp rank)
    (sortRun : List R → List R)
    (hsort : ∀ run, (sortRun run).Perm run ∧ (sortRun run).Pairwise (fun a b => cmp a b ≤ 0))
    (rows : List R) (n : Nat) (hn : 1 ≤ n) (refills : List (List Nat)) (batches : List Nat) (hpos : ∀ b ∈ batches, 1 ≤ b)
    (hlen : (PqModel.Merge.tagInputs (keysOf rank ((chunks n rows.length rows).map sortRun))).flatten.length < batches.length) :
    let ss := (chunks n rows.length rows).map sortRun
    let out := untag ss ((PqModel.Merge.Reader.new (PqModel.Merge.tagInputs (keysOf rank ss)) refills).session batches).1.flatten
    out.Perm rows ∧ out.Pairwise (fun a b => cmp a b ≤ 0) := by
  intro ss out
  have := sorting_writer_correct cmp rank hr sortRun hsort (chunks n rows.length rows) refills batches hpos hlen
  rw [chunks_flatten hn rows.length rows (Nat.le_refl _)] at this
  exact this

/-- **SortingWriter with `DropDuplicatedRows`**: every run is deduplicated after sorting, the merged
    stream again: exactly one row per key remains — the output keys are strictly increasing, every
    output row was written, and every row written has its key in the output. -/
theorem sorting_writer_dedupe_correct {R : Type} (cmp : R → R → Int) (rank : R → Int) (hr : Ranked cmp rank)
    (sortRun : List R → List R)
    (hsort : ∀ run, (sortRun run).Perm run ∧ (sortRun run).Pairwise (fun a b => cmp a b ≤ 0))
    (runs : List (List R)) (refills : List (List Nat)) (batches : List Nat) (hpos : ∀ b ∈ batches, 1 ≤ b)
    (hlen : (PqModel.Merge.tagInputs (keysOf rank (runs.map (fun run => dedupRun cmp none (sortRun run))))).flatten.length < batches.length) :
    let ss := runs.map (fun run => dedupRun cmp none (sortRun run))
    let out := untag ss (PqModel.Merge.dedupeReader none
      ((PqModel.Merge.Reader.new (PqModel.Merge.tagInputs (keysOf rank ss)) refills).session batches).1)
    out.Pairwise (fun a b => cmp a b < 0) ∧ (∀ y ∈ out, y ∈ runs.flatten) ∧ (∀ x ∈ runs.flatten, ∃ y ∈ out, cmp x y = 0) := by
  intro ss out
  have hspec : ∀ run, let s := sortRun run
      (dedupRun cmp none s).Sublist s ∧ (dedupRun cmp none s).Pairwise (fun a b => rank a < rank b) ∧
      (∀ x ∈ s, ∃ y ∈ dedupRun cmp none s, rank y = rank x) := by
    intro run s
    obtain ⟨a, b, _, d⟩ := dedupRun_spec hr s none ((hsort run).2.imp (fun h => (hr.le_iff _ _).mp h)) (by intro la hla; simp at hla)
    refine ⟨a, b, ?_⟩
    intro x hx
    rcases d x hx with h | ⟨la, hla, _⟩
    · exact h
    · simp at hla
  have hks : ∀ ks ∈ keysOf rank ss, ks.Pairwise (· ≤ ·) := by
    intro ks hks
    obtain ⟨s, hs', rfl⟩ := List.mem_map.mp hks
    obtain ⟨run, _, rfl⟩ := List.mem_map.mp hs'
    rw [List.pairwise_map]
    exact (hspec run).2.1.imp (fun h => Int.le_of_lt h)
  obtain ⟨d1, d2, d3⟩ := PqModel.Props.C09.merge_dedupe_one_row_per_key (keysOf rank ss) refills batches hks hpos hlen
  have hlt : ∀ a b : R, rank a < rank b → cmp a b < 0 := by
    intro a b h
    have h1 := hr.le_iff a b
    have h2 := hr.le_iff b a
    have h3 := hr.anti a b
    have : ¬ cmp b a ≤ 0 := fun e => by have := h2.mp e; omega
    omega
  refine ⟨?_, ?_, ?_⟩
  · refine List.Pairwise.filterMap (lookup ss) ?_ (List.Pairwise.and_mem.mp d1)
    intro a a' ⟨ha, ha', hk⟩ b hb b' hb'
    obtain ⟨x, hx, ex⟩ := tagInputs_key rank ss a (d2 a ha)
    obtain ⟨x', hx', ex'⟩ := tagInputs_key rank ss a' (d2 a' ha')
    rw [hx] at hb; rw [hx'] at hb'
    simp at hb hb'
    subst hb; subst hb'
    exact hlt _ _ (by omega)
  · intro y hy
    obtain ⟨r, hr', hl⟩ := List.mem_filterMap.mp hy
    have hy' : y ∈ ss.flatten := by
      rw [← tagInputs_lookup rank ss]
      exact List.mem_filterMap.mpr ⟨r, d2 r hr', hl⟩
    obtain ⟨s, hs, hys⟩ := List.mem_flatten.mp hy'
    obtain ⟨run, hrun, rfl⟩ := List.mem_map.mp hs
    exact List.mem_flatten.mpr ⟨run, hrun, (hsort run).1.mem_iff.mp ((hspec run).1.subset hys)⟩
  · intro x hx
    obtain ⟨run, hrun, hxr⟩ := List.mem_flatten.mp hx
    obtain ⟨y, hy, ey⟩ := (hspec run).2.2 x ((hsort run).1.mem_iff.mpr hxr)
    have hy' : y ∈ ss.flatten := List.mem_flatten.mpr ⟨_, List.mem_map.mpr ⟨run, hrun, rfl⟩, hy⟩
    rw [← tagInputs_lookup rank ss] at hy'
    obtain ⟨r, hr', hl⟩ := List.mem_filterMap.mp hy'
    obtain ⟨z, hz, ez⟩ := tagInputs_key rank ss r hr'
    rw [hl] at hz
    obtain ⟨r2, hr2, ek⟩ := d3 r hr'
    obtain ⟨z2, hz2, ez2⟩ := tagInputs_key rank ss r2 (d2 r2 hr2)
    refine ⟨z2, List.mem_filterMap.mpr ⟨r2, hr2, hz2⟩, (hr.eq_iff x z2).mpr ?_⟩
    have : z = y := by simpa using hz.symm
    subst this
    omega

/-- non-vacuity: integer rows ranked by themselves; runs `[3,1] [2,3]`, sorter = model sort -/
example : Ranked intOrd.cmp (fun x => x) := ⟨by intro a b; simp [intOrd]; omega, intOrd.anti⟩

example : untag [[1, 3], [2, 3]]
    ((PqModel.Merge.Reader.new (PqModel.Merge.tagInputs (keysOf (fun x => x) [[1, 3], [2, 3]])) []).session [2, 2, 2, 2, 2]).1.flatten
      = ([1, 2, 3, 3] : List Int) ∧
    untag [[1, 3], [2, 3]] (PqModel.Merge.dedupeReader none
      ((PqModel.Merge.Reader.new (PqModel.Merge.tagInputs (keysOf (fun x => x) [[1, 3], [2, 3]])) []).session [2, 2, 2, 2, 2]).1)
      = ([1, 2, 3] : List Int) := by decide

/-! ## 10. nested sorting columns: what `Buffer.configure` does with a leaf's inherited levels

A required leaf below an optional group has `maxDefinitionLevel > 0`: it lives in an optional column
buffer and is null wherever the group is absent; below a repeated group it lives in a repeated
column buffer. `configure` must decide from the *levels*, not from the leaf's own repetition type. -/

/-- for EVERY leaf (any levels, any own repetition type), sorting direction and null placement: the
    `Less` of the sorted column as `configure` sets it up (buffer kind from the levels, null ordering
    function, `reversedColumnBuffer` iff descending and not nullable) ⇔ the comparator is negative -/
theorem configure_less_agrees {V : Type} (o : VOrd V) (l : Leaf) (sc : SortCol) {c : Col V} (h : c.CInv)
    (hk : c.KindOf l) {i j : Nat} (hi : i < c.view.length) (hj : j < c.view.length) :
    Col.lessConf o.lt (configure l (some sc)) c i j = true ↔ cmpCell o.cmp sc (c.val i) (c.val j) < 0 := by
  rw [Col.lessConf_configure o.lt l sc hk]
  exact Col.less_agrees o h sc hi hj

/-- a required leaf (`ownOptional = ownRepeated = false`) inside an optional group, group absent in
    row 0, value 5 in row 1; descending, nulls last: `Less(1, 0)` holds and `Less(0, 1)` does not -/
example :
    let l : Leaf := { maxRep := 0, maxDef := 1 }
    let c : Col Int := .opt 1 { base := [5], rows := [-1, 0], defs := [0, 1] }
    c.KindOf l ∧ Col.lessConf intOrd.lt (configure l (some ⟨0, true, false⟩)) c 1 0 = true ∧
    Col.lessConf intOrd.lt (configure l (some ⟨0, true, false⟩)) c 0 1 = false := by
  intro l c
  exact ⟨⟨rfl, rfl, by decide⟩, by decide, by decide⟩

/-- the same for a leaf with inherited repetition (a leaf of a repeated group, or a repeated leaf):
    `configure` never reverses such a column, the configured `Less` ⇔ the comparator on the rows'
    value lists is negative -/
theorem configure_repeated_less_agrees {V : Type} (o : VOrd V) (l : Leaf) (hr : 0 < l.maxRep) (sc : SortCol) {m : Nat}
    {c : RepCol V} (h : c.RInv m) {i j : Nat} (hi : i < c.rows.length) (hj : j < c.rows.length) :
    RepCol.lessConf o.lt (configure l (some sc)) m c i j = true ↔
      cmpList (cmpCell o.cmp sc) (c.key m i) (c.key m j) < 0 := by
  rw [RepCol.lessConf_configure o.lt l sc hr]
  exact RepCol.less_agrees o sc h hi hj

example : (0 : Nat) < ({ maxRep := 1, maxDef := 1 } : Leaf).maxRep := by decide

/-- the buffer kind follows the inherited levels; the reversing wrapper is used exactly for
    descending columns that cannot hold a null -/
theorem configure_kinds (l : Leaf) (sc : SortCol) :
    ((configure l (some sc)).wrap = .plain ↔ l.maxRep = 0 ∧ l.maxDef = 0) ∧
    ((configure l (some sc)).wrap = .optional ↔ l.maxRep = 0 ∧ 0 < l.maxDef) ∧
    ((configure l (some sc)).wrap = .repeated ↔ 0 < l.maxRep) ∧
    ((configure l (some sc)).reversed = true ↔ sc.desc = true ∧ l.maxRep = 0 ∧ l.maxDef = 0) :=
  ⟨(configure_wrap l (some sc)).1, (configure_wrap l (some sc)).2.1, (configure_wrap l (some sc)).2.2, configure_reversed l sc⟩

/-- the whole `Buffer.Less` over the columns as configured from ANY schema equals the `Less` chain
    that `less_agrees`/`sort_correct` are about (hence both hold for nested sorting columns) -/
theorem buffer_less_configured {V : Type} (o : VOrd V) (leaves : Nat → Leaf) {b : Buffer V} {n : Nat} (h : b.BInv n)
    (hk : ∀ (k : Nat) (c : Col V), b.cols[k]? = some c → c.KindOf (leaves k))
    (hs : ∀ sc ∈ b.sorting, sc.col < b.cols.length) {i j : Nat} (hi : i < n) (hj : j < n) :
    b.lessConfigured o.lt leaves i j = true ↔ cmpRows o.cmp b.sorting (b.row i) (b.row j) < 0 := by
  rw [Buffer.lessConfigured_eq o.lt leaves b hk]
  exact Buffer.less_agrees o h hs hi hj

example : ∀ (k : Nat) (c : Col Int), sampleBuf.cols[k]? = some c →
    c.KindOf ((fun k => if k = 0 then ({ maxRep := 0, maxDef := 1 } : Leaf) else { maxRep := 0, maxDef := 0 }) k) := by
  intro k c hc
  match k, hc with
  | 0, hc => simp [sampleBuf] at hc; subst hc; simp [Col.KindOf]
  | 1, hc => simp [sampleBuf] at hc; subst hc; simp [Col.KindOf]
  | k + 2, hc => simp [sampleBuf] at hc

/-- NEGATION for the variant that derives `nullable` from the leaf's OWN repetition type
    (`leaf.node.Optional() || leaf.node.Repeated()`): the required leaf of an optional group is
    then wrapped in `reversedColumnBuffer`, and for a descending nulls-last column the null row
    sorts first although the comparator says it is greater -/
theorem configure_own_repetition_disagrees :
    let l : Leaf := { maxRep := 0, maxDef := 1, ownOptional := false, ownRepeated := false }
    let sc : SortCol := ⟨0, true, false⟩
    let c : Col Int := .opt 1 { base := [5], rows := [-1, 0], defs := [0, 1] }
    (configureOwn l (some sc)).reversed = true ∧ (configure l (some sc)).reversed = false ∧
    Col.lessConf intOrd.lt (configureOwn l (some sc)) c 0 1 = true ∧
    ¬ (cmpCell intOrd.cmp sc (c.val 0) (c.val 1) < 0) := by decide

/-- the probe the correspondence check identifies a null ordering function with tells the four apart -/
theorem null_ordering_probe_injective (a b c d : Bool) : ordTable a b = ordTable c d → a = c ∧ b = d :=
  ordTable_injective a b c d

/-! ## 11. where the `SortingWriter` cuts its runs (`writeRows`, `Flush`, `Close`) -/

/-- for EVERY history of `Write`/`WriteRows`/`Flush` calls on a fresh writer with `sortRowCount ≥ 1`:
    the `writeRows` loop terminates within `len(rows)` iterations per call (the fuel of `SW.step`),
    the runs handed to the temporary file are consecutive pieces of the rows written (concatenated:
    the input, in order), none empty, none longer than `sortRowCount`, the buffer is empty at `Close` -/
theorem sorting_writer_runs_partition {R : Type} {maxRows : Nat} (h1 : 1 ≤ maxRows) (ops : List (SWOp R)) :
    (cutRuns maxRows ops).flatten = written ops ∧ (∀ r ∈ cutRuns maxRows ops, r ≠ [] ∧ r.length ≤ maxRows) ∧
    ((SW.empty.run maxRows ops).close).buf = [] :=
  cutRuns_partition h1 ops

example : cutRuns 3 [.write [1, 2], .write [3, 4, 5, 6, 7], .flush, .flush, .write [8]] = ([[1, 2, 3], [4, 5, 6], [7], [8]] : List (List Nat)) := by
  decide

/-- without explicit `Flush` calls the runs are the chunks of `sortRowCount` rows, whatever the
    batch sizes of the `Write` calls (this is the `chunks` of `sorting_writer_correct_chunks`) -/
theorem sorting_writer_runs_chunks {R : Type} {maxRows : Nat} (h1 : 1 ≤ maxRows) (ops : List (SWOp R))
    (hw : ∀ op ∈ ops, ∃ rows, op = .write rows) :
    cutRuns maxRows ops = chunks maxRows (written ops).length (written ops) :=
  cutRuns_eq_chunks h1 ops hw

example : cutRuns 3 [.write [1, 2], .write [3, 4, 5, 6, 7]] = chunks 3 7 ([1, 2, 3, 4, 5, 6, 7] : List Nat) := by decide

/-- `sortRowCount = 0` is outside the theorems: the loop never takes a row, for any fuel (the
    library's `Write` does not return) -/
theorem sorting_writer_zero_run_size_spins {R : Type} (fuel : Nat) (w : SW R) (rows : List R) :
    (w.writeLoop 0 fuel rows).2 = rows :=
  SW.writeLoop_zero fuel w rows

/-- **SortingWriter, any call history**: for every history of `Write`/`WriteRows`/`Flush` calls with
    `sortRowCount ≥ 1`, the runs cut by the writer, sorted by any sorter yielding sorted
    permutations, merged by the C09 readers (every refill pattern, every sequence of positive read
    batch sizes long enough), give a permutation of the rows written, pairwise ordered -/
theorem sorting_writer_correct_history {R : Type} (cmp : R → R → Int) (rank : R → Int) (hr : Ranked cmp rank)
    (sortRun : List R → List R)
    (hsort : ∀ run, (sortRun run).Perm run ∧ (sortRun run).Pairwise (fun a b => cmp a b ≤ 0))
    {maxRows : Nat} (h1 : 1 ≤ maxRows) (ops : List (SWOp R))
    (refills : List (List Nat)) (batches : List Nat) (hpos : ∀ b ∈ batches, 1 ≤ b)
    (hlen : (PqModel.Merge.tagInputs (keysOf rank ((cutRuns maxRows ops).map sortRun))).flatten.length < batches.length) :
    let ss := (cutRuns maxRows ops).map sortRun
    let out := untag ss ((PqModel.Merge.Reader.new (PqModel.Merge.tagInputs (keysOf rank ss)) refills).session batches).1.flatten
    out.Perm (written ops) ∧ out.Pairwise (fun a b => cmp a b ≤ 0) := by
  intro ss out
  have := sorting_writer_correct cmp rank hr sortRun hsort (cutRuns maxRows ops) refills batches hpos hlen
  rw [(cutRuns_partition h1 ops).1] at this
  exact this

/-- … and when `WriteRowGroup(merged)` goes through a segment plan instead of the row readers (parts
    of the temporary row groups that do not overlap in key space are copied, overlapping parts are
    merged): for every plan that is `Good` in the sense of C09 (`refined_plan_is_merge`) over the
    sorted runs of ANY call history, the output is again a sorted permutation of the rows written.
    (That the cuts computed from the page indexes form a `Good` plan is C09's
    `cuts_form_good_plan_partial` + its correspondence check.) -/
theorem sorting_writer_correct_plan {R : Type} (cmp : R → R → Int) (rank : R → Int) (hr : Ranked cmp rank)
    (sortRun : List R → List R)
    (hsort : ∀ run, (sortRun run).Perm run ∧ (sortRun run).Pairwise (fun a b => cmp a b ≤ 0))
    {maxRows : Nat} (h1 : 1 ≤ maxRows) (ops : List (SWOp R)) {k : Nat}
    (segments : List (List (List PqModel.Merge.Row))) (outs : List (List PqModel.Merge.Row))
    (hgood : PqModel.Merge.Plan.Good (k := k) segments outs)
    (hjoin : PqModel.Merge.joinSegments k segments = PqModel.Merge.tagInputs (keysOf rank ((cutRuns maxRows ops).map sortRun))) :
    let out := untag ((cutRuns maxRows ops).map sortRun) outs.flatten
    out.Perm (written ops) ∧ out.Pairwise (fun a b => cmp a b ≤ 0) := by
  intro out
  have hm := PqModel.Props.C09.refined_plan_is_merge segments outs hgood
  rw [hjoin] at hm
  obtain ⟨p, q⟩ := untag_isMerge rank ((cutRuns maxRows ops).map sortRun) hm
  refine ⟨?_, q.imp (fun h => (hr.le_iff _ _).mpr h)⟩
  have := p.trans (perm_flatten_map sortRun (fun l => (hsort l).1) (cutRuns maxRows ops))
  rwa [(cutRuns_partition h1 ops).1] at this

-- NOT modelled: the typed/reflection ingestion into the buffers (C03), the temporary file encoding
-- (C01: each run is one row group of a file written and read back by the generic writer/reader), the
-- computation of the segment cuts of `WriteRowGroup(merged)` from indexes (C09, L2 there).

end PqModel.Props.C10
