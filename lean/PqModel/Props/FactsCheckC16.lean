import PqModel.Generated.Facts

/-! # C16 — source-level facts: no Write entry point stores through the caller's rows; clones and
    reconstructed Go values are fresh

`Generated/Facts.lean` is rewritten by `tools/factgen` (family `callerwrites`) from the current source
on every run: for every method `WriteRows` / `WriteValues` / `WriteRowValues` of the root package taking
a `[]Row` or `[]Value`, the statements through which memory of that argument (the slice's own backing
array, or the `[]Value` arrays of the rows of a `[]Row`) may be written, found by a name-based,
flow-insensitive alias analysis over go/ast with summaries for the functions of the package
(`clearValues`, `clearRows`, `deduplicate`, ...). The repaired tree has none. Before the repair of
`filterRowWriter.WriteRows` the table was
`[("filterRowWriter.WriteRows", "clearValues(clear[i])")]` (filter.go:56).

The analysis is trusted (AST level, no types): it assumes that calls through the entry-point names and
through func-typed fields keep the documented contract, and it does not follow memory behind
`unsafe` casts or byte slices of BYTE_ARRAY values. -/
namespace PqModel.Props.FactsCheckC16
open PqModel.Generated

/-- the source has no statement that stores into memory of the rows / values passed to a Write
    entry point -/
theorem no_caller_write_sites : callerWriteSites = [] := by decide

/-- the entry points of the reviewed source: a new `WriteRows` / `WriteValues` / `WriteRowValues`
    method changes the table and must be added to the L1 sweep (sub-check `writeside`) -/
def expectedEntryPoints : List String := [
  "Buffer.WriteRows", "ColumnWriter.WriteRowValues", "ConcurrentRowGroupWriter.WriteRows",
  "GenericBuffer.WriteRows", "GenericWriter.WriteRows", "RowBuffer.WriteRows", "RowWriterFunc.WriteRows",
  "SortingWriter.WriteRows", "ValueWriterFunc.WriteValues", "Writer.WriteRows",
  "be128ColumnBuffer.WriteValues", "booleanColumnBuffer.WriteValues", "bufferWriter.WriteRows",
  "bufferWriter.WriteValues", "byteArrayColumnBuffer.WriteValues", "dedupeRowWriter.WriteRows",
  "doubleColumnBuffer.WriteValues", "filterRowWriter.WriteRows", "fixedLenByteArrayColumnBuffer.WriteValues",
  "floatColumnBuffer.WriteValues", "indexedColumnBuffer.WriteValues", "int32ColumnBuffer.WriteValues",
  "int64ColumnBuffer.WriteValues", "int96ColumnBuffer.WriteValues", "multiRowWriter.WriteRows",
  "nullColumnBuffer.WriteValues", "optionalColumnBuffer.WriteValues", "repeatedColumnBuffer.WriteValues",
  "transformRowWriter.WriteRows", "uint32ColumnBuffer.WriteValues", "uint64ColumnBuffer.WriteValues",
  "writer.WriteRows", "writer.WriteValues"]

theorem write_entry_points_expected : writeEntryPoints = expectedEntryPoints := by decide

/-- the wrappers mirrored in `PqModel.WriteOwn` are entry points the analysis looked at -/
theorem mirrored_writers_are_entry_points :
    ∀ n ∈ ["filterRowWriter.WriteRows", "transformRowWriter.WriteRows", "dedupeRowWriter.WriteRows",
           "multiRowWriter.WriteRows", "RowBuffer.WriteRows"], n ∈ writeEntryPoints := by decide

/-! ## read side: clones and reconstructed Go values are fresh copies (family `freshcopies`)

The pool model's `clone` / `readGo` operations allocate (theorems `read_copies`, `readGo_allocates` of
`Props/C16.lean`). The two source facts that make this true of the code: -/

/-- `Value.Clone` (value.go) gives the clone its own copy of the bytes for exactly the kinds whose
    `Value` points to memory outside of it (`ByteArray`, `FixedLenByteArray`; all other kinds keep
    their payload in the `u64` field) -/
theorem clone_copies_every_pointer_kind : cloneCopiedKinds = ["ByteArray", "FixedLenByteArray"] := by decide

/-- constructors of fresh memory in package reflect -/
def freshConstructors : List String :=
  ["reflect.MakeSlice", "reflect.Zero", "reflect.New", "reflect.MakeMap", "reflect.MakeMapWithSize", "reflect.ValueOf"]

/-- every place where the Go-value reconstruction of row.go (`setMakeSlice`, `setNullSlice`,
    `reconstructFuncOf*`) sets the destination sets it to freshly constructed memory: a destination
    slice, map or pointer is never refilled in place, so rows kept from an earlier `Read` into the
    same destination cannot be reached by a later one -/
theorem destinations_are_set_to_fresh_memory :
    ∀ s ∈ destinationSetSites, s.2.1 ∈ freshConstructors := by decide

/-- the slice, the map and the pointer destinations are all among the sites (the fact is not vacuous) -/
theorem destination_sites_cover_slice_map_pointer :
    ("setMakeSlice", "reflect.MakeSlice", "v.Set(s)") ∈ destinationSetSites ∧
    ("reconstructFuncOfMap", "reflect.MakeMapWithSize", "value.Set(m)") ∈ destinationSetSites ∧
    ("reconstructFuncOfOptional", "reflect.New", "value.Set(reflect.New(value.Type().Elem()))") ∈ destinationSetSites := by
  decide

/-! ### the leaves: `Type.AssignValue` (type*.go)

The reconstruction functions above end in `typ.AssignValue(value, column[0])` (`reconstructFuncOfLeaf`),
where the leaf type of the READER'S schema meets whatever Go kind the destination field has ([]byte for
a FIXED_LEN_BYTE_ARRAY leaf when the schema is handed over explicitly). A destination slice that is
refilled in place when its capacity suffices (the change of seed C16-5a) overwrites the bytes of the
row the caller kept from the previous `Read` into the same batch. -/

/-- every `dst.SetBytes(x)` of an `AssignValue` method is given a fresh copy of the bytes -/
theorem assign_value_sets_fresh_bytes :
    ∀ s ∈ assignValueSetBytesSites, s.2 = "copyBytes" := by decide

/-- no `AssignValue` method looks at or resizes the memory its destination already has: a slice
    destination is never refilled in place -/
theorem assign_value_never_reuses_destination : assignValueReuseSites = [] := by decide

/-- the two byte-slice cells (BYTE_ARRAY and FIXED_LEN_BYTE_ARRAY leaves) are among the sites -/
theorem assign_value_sites_cover_both_byte_leaves :
    ("byteArrayType.AssignValue", "copyBytes") ∈ assignValueSetBytesSites ∧
    ("fixedLenByteArrayType.AssignValue", "copyBytes") ∈ assignValueSetBytesSites ∧
    assignValueMethods ≥ 20 := by decide

/-- the slip of seed C16-5a on the extracted shape: a method with `SetLen` / `Bytes` on its destination
    is refused by the fact -/
example : [("fixedLenByteArrayType.AssignValue", "Cap"), ("fixedLenByteArrayType.AssignValue", "SetLen"),
           ("fixedLenByteArrayType.AssignValue", "Bytes")] ≠ ([] : List (String × String)) := by decide

end PqModel.Props.FactsCheckC16
