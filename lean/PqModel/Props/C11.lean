import PqModel.CopyPathProofs

/-! # C11 — Row-group copy and re-encode fast paths are indistinguishable from the row path

Mirror: `choosePathV`, `plan`, `pack`, `copyable`, `columnChunkIsCopyable`, … (`PqModel/CopyPath.lean`,
transliterating writer.go:549-597, writer_copy.go, writer_reencode.go), in the variants `.asIs`
(library before the F9 repair) and `.repaired`.
Spec: `Conforms` (= `ConformsCore` ∧ `ConformsStats`), `RG.rowsOf` on leaves, `WellFormed`, `Step.out`.
`Variant` is the library version: `.asIs` before the two repairs reported under C11, `.repaired` after. -/
namespace PqModel.Props.C11
open PqModel.CopyPath
variable {α : Type}

/-- What is assumed of a source row group backed by a file: its `EncodingStats` describe its pages
    and the chunk metadata carry the row group's row count. -/
structure SourceFaithful (rg : RG α) : Prop where
  stats : ∀ m ∈ fileMetas rg.chunks, EncStatsFaithful m
  rows  : ∀ m ∈ fileMetas rg.chunks, m.rows = rg.numRows

/-- every destination column is paired with a file chunk whose copy satisfies `P` -/
abbrev EveryColumn (g : DstCfg) (rg : RG α) (P : DstCol → ChunkMeta → Prop) : Prop :=
  Forall2 (fun d ch => ∃ m, ch = Chunk.file m ∧ P d (copied d m)) g.cols rg.chunks

/-! ## Verbatim copy honours the destination settings -/

/-- REPAIRED mirror: when `WriteRowGroup` splices a row group verbatim, every output chunk is what
    the row path would have produced under the destination's settings at the metadata level:
    codec, data page version and encoding of every page, dictionary presence, bloom filter
    presence/algorithm/size, row count within `MaxRowsPerRowGroup`, no encryption — AND the
    statistics settings (page-header statistics iff `DataPageStatistics`, column-index values within
    `ColumnIndexSizeLimit`, a column index and chunk bounds iff not `SkipPageBounds`, deprecated
    min/max iff configured). -/
theorem verbatim_conforms (g : DstCfg) (rg : RG α)
    (h : choosePathV .repaired g rg = .verbatim) (hs : SourceFaithful rg) :
    EveryColumn g rg (Conforms g) := by
  obtain ⟨henc, hmax, hall⟩ := copyable_parts (verbatim_copyable h)
  refine allCopyable_every (g := g) (Conforms g) ?_ g.cols rg.chunks hall ?_
  · intro d m hc hf hr
    exact ⟨copyable_col_core hc henc hr hf, copyable_col_stats hc⟩
  · intro m hm
    exact ⟨hs.stats m hm, by rw [hs.rows m hm]; exact hmax⟩

/-- AS-IS mirror, everything except the statistics conjunct (holds for both variants). -/
theorem verbatim_conforms_partial (v : Variant) (g : DstCfg) (rg : RG α)
    (h : choosePathV v g rg = .verbatim) (hs : SourceFaithful rg) :
    EveryColumn g rg (ConformsCore g) := by
  obtain ⟨henc, hmax, hall⟩ := copyable_parts (verbatim_copyable h)
  refine allCopyable_every (g := g) (ConformsCore g) ?_ g.cols rg.chunks hall ?_
  · intro d m hc hf hr
    exact copyable_col_core hc henc hr hf
  · intro m hm
    exact ⟨hs.stats m hm, by rw [hs.rows m hm]; exact hmax⟩

/-! ### F9: the as-is predicate does not look at the statistics settings -/

/-- source: BYTE_ARRAY column, DELTA_LENGTH_BYTE_ARRAY v2 pages with header statistics, column index
    values of 33 bytes (written with `ColumnIndexSizeLimit` 64) -/
def f9Source : ChunkMeta :=
  { type := 6, codec := 0, encStats := [⟨3, 6, 1⟩], columnIndexOffset := 100, offsetIndexOffset := 200,
    bloomOffset := 0, bloomLength := 0, bloomHeader := none, encrypted := false, numValues := 100,
    nullCount := 0, rows := 100, hasDictPage := false,
    pages := [⟨3, 6, true, false, 0, 33, 33⟩], hasMinMax := true, hasDeprecated := false }

/-- destination: same column, `DataPageStatistics(false)`, `ColumnIndexSizeLimit` 8 -/
def f9Col : DstCol :=
  { kind := 6, codec := 0, encoding := 6, dict := false, pageType := 3, filterBpv := none,
    filterCompressed := false, encrypted := false, pageStats := false, pageBounds := true,
    deprecatedStats := false, indexLimit := 8 }

def f9Dst : DstCfg :=
  { disableCopy := false, disableReencode := false, encrypting := false, maxRows := 1000, cols := [f9Col] }

def f9RowGroup : RG Unit := .leaf .file 100 [.file f9Source] [] []

theorem f9_sourceFaithful : SourceFaithful f9RowGroup := by
  refine ⟨?_, ?_⟩ <;> intro m hm <;> simp [f9RowGroup, RG.chunks, fileMetas] at hm <;> subst hm
  · refine ⟨?_, ?_⟩
    · intro p hp
      simp [f9Source] at hp
      subst hp
      exact ⟨by decide, ⟨3, 6, 1⟩, by simp [f9Source], rfl, rfl⟩
    · constructor
      · intro h; simp [f9Source] at h
      · rintro ⟨s, hs, h2⟩
        simp [f9Source] at hs
        subst hs
        simp at h2
  · rfl

/-- NEGATION WITNESS (F9): on the unchanged library the cascade splices the source verbatim
    although the output then carries page-header statistics the destination disabled (and
    33-byte column-index values under a limit of 8). -/
theorem verbatim_conforms_fails_asIs :
    choosePathV .asIs f9Dst f9RowGroup = .verbatim ∧ SourceFaithful f9RowGroup ∧
    ¬ EveryColumn f9Dst f9RowGroup (Conforms f9Dst) := by
  refine ⟨by decide, f9_sourceFaithful, ?_⟩
  intro h
  cases h with
  | cons hR _ =>
    obtain ⟨m, hm, hc⟩ := hR
    cases hm
    have := hc.2.pageStats ⟨3, 6, true, false, 0, 33, 33⟩ (by simp [copied, f9Col, f9Source])
    simp [f9Col] at this

/-- the same witness also breaks the `ColumnIndexSizeLimit` conjunct -/
theorem verbatim_asIs_ignores_index_limit :
    ¬ ConformsStats f9Col (copied f9Col f9Source) := by
  intro h
  have := h.indexLimit (by decide) ⟨3, 6, true, false, 0, 33, 33⟩ (by simp [copied, f9Col, f9Source])
  simp [f9Col] at this

/-- the repaired cascade demotes the F9 witness to the column-oriented re-encode path -/
theorem f9_repaired_demotes : choosePathV .repaired f9Dst f9RowGroup = .reencode := by decide

/-- non-vacuity of `verbatim_conforms`: a source written under the destination's own settings
    is still spliced by the repaired cascade -/
def okSource : ChunkMeta :=
  { f9Source with pages := [⟨3, 6, false, false, 0, 8, 8⟩] }
example : choosePathV .repaired f9Dst (.leaf .file 100 [.file okSource] ([] : List Unit) []) = .verbatim := by
  decide

/-! ## Wrappers are never bypassed -/

/-- A row group type that does not carry the package-private transparency marker and does not
    offer at least two ordered segments always takes the row path, whatever the destination and
    the chunks look like: dedup, converted and foreign row groups, heap merges, deduplicating
    sorted merges. -/
theorem wrappers_never_bypassed (v : Variant) (g : DstCfg) (rg : RG α)
    (ht : chunkTransparent rg = false) (hs : ((segmentsOf rg).getD []).length ≤ 1) :
    choosePathV v g rg = .rows := by
  have h1 : splittable v g rg = none := splittable_opaque hs
  have h2 : copyable v g rg = false := by
    unfold copyable
    simp [ht]
  have h3 : reencodable g rg = false := by
    unfold reencodable columnOrientedRG
    simp [ht]
  simp [choosePathV, h1, h2, h3]

/-- instances: the wrapper kinds of the library and foreign implementations -/
theorem wrapper_kinds_take_rows (v : Variant) (g : DstCfg) (k : LeafKind) (n : Nat) (cs : List Chunk)
    (cr r : List α) (hk : k = .dedup ∨ k = .converted ∨ k = .foreign ∨ k = .merged ∨ k = .sortedDedup ∨ k = .other) :
    choosePathV v g (.leaf k n cs cr r) = .rows := by
  apply wrappers_never_bypassed
  · rcases hk with rfl | rfl | rfl | rfl | rfl | rfl <;> rfl
  · rcases hk with rfl | rfl | rfl | rfl | rfl | rfl <;> simp [segmentsOf]

example : choosePathV .asIs f9Dst (.leaf .dedup 100 [.file okSource] ([] : List Unit) []) = .rows := by decide

/-- Through the whole recursion of `WriteRowGroup` over segmented row groups: only row groups
    carrying the marker are ever spliced or re-encoded column-wise, and every such output row
    group respects `MaxRowsPerRowGroup`. -/
theorem fast_steps_transparent_and_bounded (v : Variant) (g : DstCfg) :
    ∀ (fuel : Nat) (rg : RG α) (s : Step α), s ∈ plan v g fuel rg →
      match s with
      | .verbatim r => chunkTransparent r = true ∧ r.numRows ≤ g.maxRows
      | .reencode rs => (∀ r ∈ rs, chunkTransparent r = true) ∧ numRowsL rs ≤ g.maxRows
      | .rows _ => True
  | 0, rg, s, hs => by
    simp [plan] at hs
    subst hs
    trivial
  | fuel + 1, rg, s, hs => by
    simp only [plan] at hs
    split at hs
    · rename_i segs hsp
      obtain ⟨b, hb, hsb⟩ := List.mem_flatMap.1 hs
      cases b with
      | single x => exact fast_steps_transparent_and_bounded v g fuel x s hsb
      | packed ss =>
        simp at hsb
        subst hsb
        obtain ⟨ho, hr, _⟩ := pack_packed g segs ss hb
        exact ⟨fun r hr' => columnOriented_transparent (ho r hr'), hr⟩
    · split at hs
      · rename_i hc
        simp at hs
        subst hs
        exact ⟨copyable_transparent hc, copyable_maxRows hc⟩
      · split at hs
        · rename_i hr
          simp at hs
          subst hs
          have hco := reencodable_columnOriented hr
          refine ⟨?_, ?_⟩
          · intro r hr'
            simp at hr'
            subst hr'
            exact columnOriented_transparent hco
          · simpa [numRowsL] using columnOriented_maxRows hco
        · simp at hs
          subst hs
          trivial

/-! ## Segments are written in order; the file holds the rows of `Rows()` -/

/-- `writeSegmentsPacked` cuts the segments into consecutive batches: concatenating the batches
    gives back the segments in order (nothing dropped, duplicated or reordered). -/
theorem segments_order (g : DstCfg) (segs : List (RG α)) :
    (pack g segs).flatMap Batch.members = segs :=
  pack_members g segs

/-- MAIN: whatever path the cascade takes at every level of a (nested) segmented row group —
    splice, column-wise re-encode, packing of several segments, or the row path — the rows stored,
    in order, are exactly the rows `Rows()` yields. Wrapper row groups are unconstrained here
    (`WellFormed` only speaks about the library's own marker types), so their `Rows()` semantics
    are preserved; the disable switches are part of `g` and universally quantified. For the
    repaired library (`v = .repaired`) there is no condition on `MultiRowGroup` children; for the
    library as it was, `WellFormed .asIs` demands that they read their chunks in order. -/
theorem write_equals_rows (v : Variant) (g : DstCfg) :
    ∀ (fuel : Nat) (rg : RG α), WellFormed v rg → outputOf v (plan v g fuel rg) = rg.rowsOf v
  | 0, rg, _ => by simp [plan, outputOf, Step.out]
  | fuel + 1, rg, hw => by
    simp only [plan]
    split
    · rename_i segs hsp
      obtain ⟨k, rfl⟩ := splittable_segments hsp
      have hchildren : ∀ c ∈ segs, WellFormed v c := by
        cases k with
        | multi =>
          cases v with
          | asIs =>
            simp only [WellFormed] at hw
            exact fun c hc => ((wellFormedFaithfulL_iff .asIs segs).1 hw c hc).1
          | repaired =>
            simp only [WellFormed] at hw
            exact (wellFormedL_iff .repaired segs).1 hw
        | sorted =>
          simp only [WellFormed] at hw
          exact (wellFormedL_iff v segs).1 hw
      rw [outputOf_batches v _ (pack g segs), pack_members]
      · cases k with
        | sorted => simp [RG.rowsOf, rowsL_eq]
        | multi =>
          cases v with
          | asIs =>
            simp only [WellFormed] at hw
            simp only [RG.rowsOf, chunkRowsL_eq]
            exact flatMap_congr' segs (fun c hc => ((wellFormedFaithfulL_iff .asIs segs).1 hw c hc).2)
          | repaired =>
            simp only [RG.rowsOf]
            split
            · rename_i hin
              rw [chunkRowsL_eq]
              apply flatMap_congr'
              intro c hc
              have hio := (readsInOrderL_iff segs).1 hin c hc
              cases c with
              | leaf kk n cs cr r =>
                exact transparent_rows (rg := .leaf kk n cs cr r) hio (hchildren _ hc)
              | seg kk cs =>
                cases kk with
                | multi =>
                  simp only [readsInOrder] at hio
                  simp [RG.rowsOf, RG.chunkRowsOf, hio]
                | sorted => simp [readsInOrder] at hio
            · rw [rowsL_eq]
      · intro b hb
        cases b with
        | single s =>
          have hs : s ∈ segs := mem_pack_mem hb (by simp [Batch.members])
          simp only [Batch.members, List.flatMap_cons, List.flatMap_nil, List.append_nil]
          exact write_equals_rows v g fuel s (hchildren s hs)
        | packed ss =>
          obtain ⟨ho, _, _⟩ := pack_packed g segs ss hb
          simp only [Batch.members, outputOf, List.flatMap_cons, List.flatMap_nil, List.append_nil, Step.out,
            chunkRowsL_eq]
          apply flatMap_congr'
          intro s hs
          have hmem : s ∈ segs := mem_pack_mem hb (by simpa [Batch.members] using hs)
          exact (transparent_rows (columnOriented_transparent (ho s hs)) (hchildren s hmem)).symm
    · split
      · rename_i hc
        simp [outputOf, Step.out, transparent_rows (copyable_transparent hc) hw]
      · split
        · rename_i hr
          simp [outputOf, Step.out, chunkRowsL,
            transparent_rows (columnOriented_transparent (reencodable_columnOriented hr)) hw]
        · simp [outputOf, Step.out]

/-- non-vacuity + a run of the cascade: a sorted merge of a dedup wrapper (rows 1,2 out of chunk
    rows 1,1,2) and a file row group: the wrapper goes through the row path, the file is spliced -/
def exDst : DstCfg := { f9Dst with cols := [{ f9Col with pageStats := true, indexLimit := 64 }] }
def exMerge : RG Nat :=
  .seg .sorted [.leaf .dedup 3 [.file f9Source] [1, 1, 2] [1, 2], .leaf .file 2 [.file f9Source] [5, 6] [5, 6]]
example : WellFormed .repaired exMerge := by simp [exMerge, WellFormed, WellFormedL, LeafKind.marker]
example : outputOf .repaired (plan .repaired exDst 2 exMerge) = [1, 2, 5, 6] := by decide
example : copyCount (plan .repaired exDst 2 exMerge) = 1 ∧ reencodeCount (plan .repaired exDst 2 exMerge) = 0 := by
  decide

/-- a `MultiRowGroup` whose first child is a dedup wrapper (chunk rows 1,1,2, `Rows()` 1,2) -/
def exMultiWrapper : RG Nat :=
  .seg .multi [.leaf .dedup 3 [.file f9Source] [1, 1, 2] [1, 2], .leaf .file 2 [.file f9Source] [5, 6] [5, 6]]

/-- NEGATION WITNESS (second finding): on the unchanged library `multiRowGroup.Rows()` reads the
    children's column chunks (3 rows of the dedup wrapper) while the segment path of
    `WriteRowGroup` writes the wrapper through its own `Rows()` (2 rows): the file does not hold
    the rows of `Rows()`; with both fast paths disabled it does. The `WellFormed .asIs` hypothesis
    of `write_equals_rows` on `MultiRowGroup` children is therefore needed for that version. -/
theorem multi_over_wrapper_diverges :
    outputOf .asIs (plan .asIs exDst 2 exMultiWrapper) = [1, 2, 5, 6] ∧
    exMultiWrapper.rowsOf .asIs = [1, 1, 2, 5, 6] ∧
    outputOf .asIs (plan .asIs { exDst with disableCopy := true, disableReencode := true } 2 exMultiWrapper)
      = [1, 1, 2, 5, 6] := by
  decide

/-- the repaired `multiRowGroup.Rows()` agrees with what `WriteRowGroup` stores -/
example : WellFormed .repaired exMultiWrapper ∧
    outputOf .repaired (plan .repaired exDst 2 exMultiWrapper) = exMultiWrapper.rowsOf .repaired := by
  refine ⟨by simp [exMultiWrapper, WellFormed, WellFormedL, LeafKind.marker], by decide⟩

/-! ## The disable switches and the fuel -/

/-- with both switches on, `WriteRowGroup` is the row path -/
theorem disabled_is_row_path (v : Variant) (g : DstCfg) (h1 : g.disableCopy = true)
    (h2 : g.disableReencode = true) (fuel : Nat) (rg : RG α) : plan v g fuel rg = [.rows rg] := by
  cases fuel with
  | zero => rfl
  | succ f =>
    simp [plan, splittable_disabled h1 h2, copyable, reencodable, h1, h2]

/-- the fuel of `plan` only has to exceed the nesting depth of segmented row groups -/
theorem plan_fuel_irrelevant (v : Variant) (g : DstCfg) :
    ∀ (f f' : Nat) (rg : RG α), rg.depth < f → rg.depth < f' → plan v g f rg = plan v g f' rg
  | 0, _, _, h, _ => by omega
  | _ + 1, 0, _, _, h => by omega
  | f + 1, f' + 1, rg, h, h' => by
    simp only [plan]
    split
    · rename_i segs hsp
      obtain ⟨k, rfl⟩ := splittable_segments hsp
      apply flatMap_congr'
      intro b hb
      cases b with
      | packed ss => rfl
      | single s =>
        have hs : s ∈ segs := mem_pack_mem hb (by simp [Batch.members])
        have := depth_lt_of_mem hs
        simp only [RG.depth] at h h'
        exact plan_fuel_irrelevant v g f f' s (by omega) (by omega)
    · rfl

/-! ### Round 5: the pre-sized bloom filter of a packed row group (seed C11-5a)

One column of `packSegmentsByColumn`: a segment is `(chunk.NumValues(), chunkNumValuesIsExact(chunk),
values the segment really yields)`. MIRROR `configureBloomFiltersForSegments`
(writer_reencode.go:177-193): `some total` = `resizeBloomFilter(total)`, `none` = the filter stays
unallocated and `flushFilterPages` sizes it from the values written. -/

structure PackSeg where
  numValues : Nat   -- `chunk.NumValues()` (an upper bound for row-range views of repeated columns)
  exact     : Bool  -- `chunkNumValuesIsExact(chunk)`
  written   : Nat   -- the values `copyColumnValues` hands to the column writer

def presizeTotal (segs : List PackSeg) : Option Nat :=
  if segs.all (·.exact) then some ((segs.map (·.numValues)).sum) else none

/-- the slip of seed C11-5a: `exact = chunkNumValuesIsExact(chunk)`, the last segment decides -/
def presizeTotalLastOnly (segs : List PackSeg) : Option Nat :=
  if (segs.getLast?.map (·.exact)).getD true then some ((segs.map (·.numValues)).sum) else none

/-- SPEC side: a chunk announced exact yields exactly the values it announces -/
def PackSeg.Honest (s : PackSeg) : Prop := s.exact = true → s.written = s.numValues

/-- a packed row group is pre-sized only for the number of values it is going to hold: the filter has
    the size the bits-per-value setting prescribes for the chunk (`bloomSize bpv` of its values) -/
theorem presize_is_values_written (segs : List PackSeg) (h : ∀ s ∈ segs, s.Honest) (t : Nat)
    (ht : presizeTotal segs = some t) : t = (segs.map (·.written)).sum := by
  unfold presizeTotal at ht
  split at ht
  · rename_i hall
    injection ht with ht
    subst ht
    induction segs with
    | nil => rfl
    | cons s rest ih =>
      simp only [List.all_cons, Bool.and_eq_true] at hall
      have hs := h s (by simp) hall.1
      simp only [List.map_cons, List.sum_cons]
      rw [ih (fun x hx => h x (by simp [hx])) hall.2, hs]
  · cases ht

/-- hypotheses satisfiable: two exact segments -/
example : presizeTotal [⟨7, true, 7⟩, ⟨5, true, 5⟩] = some 12 ∧ ∀ s ∈ [(⟨7, true, 7⟩ : PackSeg), ⟨5, true, 5⟩], s.Honest := by
  refine ⟨by decide, ?_⟩
  intro s hs
  simp at hs
  rcases hs with rfl | rfl <;> intro _ <;> rfl

/-- the slip is refuted: a range view (12000 announced, 5856 yielded) followed by a whole row group of
    12000 values is pre-sized for 24000 values, 30016 bytes where 10 bits per value prescribe 22336 -/
theorem presize_last_only_oversizes :
    let segs : List PackSeg := [⟨12000, false, 5856⟩, ⟨12000, true, 12000⟩]
    presizeTotal segs = none ∧ presizeTotalLastOnly segs = some 24000 ∧
      bloomSize 10 24000 = 30016 ∧ bloomSize 10 ((segs.map (·.written)).sum) = 22336 := by decide

end PqModel.Props.C11
