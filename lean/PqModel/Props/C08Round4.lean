import PqModel.SeekColumn
import PqModel.MultiNest
import PqModel.Props.C08Layers

/-! # C08 — round 4: `Column.Pages()` and nested multi row groups

* `columnPages` (column.go), the reader `Column.Pages()` returns: one `FilePages` per row group
  kept for the reader's whole life; `SeekToRow` positions one of them and rewinds the later ones.
  It is a function from refining machines to a refining machine (`columnM`), like `rangePages` and
  `multiPages` (`Props/C08Layers.lean`).
* `MultiRowGroup` applied to multi row groups to any depth: `init` flattens the chunks and carries
  their row counts; the row-count walk of `multiPages.SeekToRow` is then the one of `multiPages` over
  the flattened chunks, so `multi_seek_refines` applies to it. -/
namespace PqModel.Props.C08
open PqModel.Seek (Op Chunk)
open PqModel.SeekLayers

universe u

/-- **column_seek_refines.** `columnPages` over the chunk readers of a column in any number of row
    groups — each any reader refining the reference reader, with its own position that survives
    seeks elsewhere — refines the reference reader over the concatenation `R` of all their rows: in
    every reachable state (any history of seeks forward, backward, into a row group already read
    in part or completely, to the end, and reads) `seek k` makes it deliver `R.drop k` and is never
    refused; reads pop non-empty prefixes, EOF comes exactly at the end. -/
theorem column_seek_refines {α} (ms : List Machine.{u}) (R : List α) (hR : R.length = (columnM ms).total)
    (s : (columnM ms).σ) (h : (columnM ms).Reach s) : (columnM ms).Refines R s :=
  Machine.seek_refines _ _ hR s (Machine.reach_inv _ s h)

theorem column_history_refines (ms : List Machine.{u}) (ops : List Op) :
    Machine.RunOK (columnM ms).total (some 0) ops ((columnM ms).outs (columnM ms).init ops) :=
  Machine.history_refines (columnM ms) ops

/-- `Column.Pages()` of a file: one `FilePages` per row group -/
example (hi : Bool) (cs : List GoodChunk) (ops : List Op) :
    Machine.RunOK ((cs.map (pagesOf hi)).map (·.total)).sum (some 0) ops
      ((columnM (cs.map (pagesOf hi))).outs (columnM (cs.map (pagesOf hi))).init ops) :=
  column_history_refines _ ops

theorem column_lenient (ms : List Machine.{u}) : (columnM ms).Lenient := columnM_lenient ms

/-- **nested_multi_wf.** Whatever `MultiRowGroup` returns, at any nesting depth: the row counts its
    column chunk carries are those of its chunks (the leaves from left to right), and `NumRows()`
    is their sum. -/
theorem nested_multi_wf {χ : Type u} (rows : χ → Nat) (g : Nest.Node χ) (h : Nest.Built rows g) :
    Nest.NodeWF rows g := Nest.built_wf rows g h

/-- one more level of `MultiRowGroup`: the chunks are the children's chunks in order -/
theorem nested_multi_chunks {χ : Type u} (rows : χ → Nat) (gs : List (Nest.Node χ)) (hne : gs ≠ [])
    (h : ∀ g ∈ gs, Nest.Built rows g) :
    Nest.WF rows (Nest.initM rows gs) ∧ (Nest.initM rows gs).chunks = (gs.map Nest.Node.leaves).flatten :=
  Nest.init_wf rows gs hne (fun g hg => Nest.built_wf rows g (h g hg))

/-- **nested_multi_seek_refines.** `multiPages` of a column of nested `MultiRowGroup` calls (the
    mirror `Nest.step`: the scan over `rowCounts` with its fallback) behaves, on every history, as
    `multiPages` over the flattened chunks — a run of the reference reader over all their rows. -/
theorem nested_multi_seek_refines (c : Nest.MCC Machine.{u}) (h : Nest.Built (·.total) (.multi c)) (ops : List Op) :
    Nest.outs c (multiM c.chunks).init ops = (multiM c.chunks).outs (multiM c.chunks).init ops ∧
    Machine.RunOK (Multi.total c.chunks) (some 0) ops (Nest.outs c (multiM c.chunks).init ops) := by
  have hw : Nest.WF (·.total) c := Nest.built_wf _ _ h
  have e := Nest.outs_eq_multi c hw.1 ops (multiM c.chunks).init
  exact ⟨e, by rw [e]; exact multi_history_refines c.chunks ops⟩

/-- three levels: `MultiRowGroup(MultiRowGroup(MultiRowGroup(a, b), c), d)` -/
example (a b c d : Machine.{u}) (ops : List Op) :
    let m := Nest.initM (·.total) [.multi (Nest.initM (·.total) [.multi (Nest.initM (·.total) [.leaf a, .leaf b]), .leaf c]), .leaf d]
    m.chunks = [a, b, c, d] ∧ m.rowCounts = [a.total, b.total, c.total, d.total] ∧
    Machine.RunOK (Multi.total m.chunks) (some 0) ops (Nest.outs m (multiM m.chunks).init ops) := by
  intro m
  have hb : Nest.Built (·.total) (.multi m) := by
    refine .multi _ (by simp) ?_
    intro g hg
    simp only [List.mem_cons, List.not_mem_nil, or_false] at hg
    rcases hg with rfl | rfl
    · refine .multi _ (by simp) ?_
      intro g hg
      simp only [List.mem_cons, List.not_mem_nil, or_false] at hg
      rcases hg with rfl | rfl
      · refine .multi _ (by simp) ?_
        intro g hg
        simp only [List.mem_cons, List.not_mem_nil, or_false] at hg
        rcases hg with rfl | rfl <;> exact .leaf _
      · exact .leaf _
    · exact .leaf _
  exact ⟨rfl, rfl, (nested_multi_seek_refines m hb ops).2⟩

/-- the variant of `init` that always recomputes the row counts from the nested row groups (seed
    C08-4a) is right for two levels and wrong at the third -/
theorem nested_multi_nocopy_refuted :
    Nest.WF id (Nest.initNoCopy id [.multi (Nest.initNoCopy id [.leaf 3, .leaf 2]), .leaf 4]) ∧
    ¬ Nest.WF id (Nest.initNoCopy id [.multi (Nest.initNoCopy id [.multi (Nest.initNoCopy id [.leaf 3, .leaf 2]), .leaf 4]), .leaf 5]) :=
  Nest.noCopy_refuted

end PqModel.Props.C08
