import PqModel.AadReader
import PqModel.Props.C18

/-! # C18 — the page reader at the level of its API (`ReadPage`, `SeekToRow`, `ReadDictionary`)

Theorems over the MIRROR `AadReader.prun`: every module any API history opens — pages met on the
stream, pages opened and dropped while skipping to a row, the dictionary read out of band because a
seek jumped over it — is opened with the AAD arguments of the slot it stands in; composed with the
writer state machine and the ideal AEAD: it opens. Tied to the code by the `reader` sub-check (op
`aad.prun`): exact API histories on real `FilePages`, with one module of the chunk damaged, must fail
at exactly the call at which the model opens that module, and nowhere else. -/
namespace PqModel.Props.C18Reader
open PqModel.Aad PqModel.Props.C18

/-- Whatever sequence of `ReadPage`, `SeekToRow` (with or without offset index, to any row) and
    `ReadDictionary` calls a `FilePages` goes through, on any chunk (any page sizes, any mix of
    dictionary-encoded and plain pages), every module it opens is opened with the AAD arguments
    of the module it is positioned on. -/
theorem api_reader_ordinals_agree (pc : PChunk) (ops : List POp) :
    ∀ e ∈ (prun pc ops).1.r.log, e.used = e.slot.used :=
  (prun_inv pc ops).log

/-- in particular the dictionary modules are always opened with page ordinal 0, whatever the data
    page ordinal of the reader is at that moment -/
theorem lazy_dictionary_uses_ordinal_zero (pc : PChunk) (ops : List POp) (e : Ev)
    (he : e ∈ (prun pc ops).1.r.log) (rg col : Nat)
    (hs : e.slot = .dictPageHeader rg col ∨ e.slot = .dictPage rg col) :
    e.used.ords = [rg, col, 0] := by
  rw [api_reader_ordinals_agree pc ops e he]
  rcases hs with h | h <;> rw [h] <;> rfl

/-- non-vacuity: a seek (with offset index) into the third page of a dictionary chunk: `ReadPage`
    opens data page 2 and then — the dictionary page was jumped over — the dictionary modules, while
    the reader's data page ordinal is 3; the caller gets page 2 without its first 50 rows -/
example :
    let pc : PChunk := { c := { rg := 1, col := 4, hasDict := true, npages := 4 }, rows := [100, 100, 100, 100],
                         dictEnc := [true, true, true, false], indexed := true }
    let out := prun pc [.seek 250, .readPage]
    out.1.r.log.map (·.slot) = [.dataPageHeader 1 4 2, .dataPage 1 4 2, .dictPageHeader 1 4, .dictPage 1 4] ∧
    out.1.r.ord = 3 ∧ out.2 = [(.done, 0), (.page 2 50, 4)] := by decide

/-- sensitivity witness (NOT the code — seed C18-4b): the dictionary modules opened with the
    reader's data page ordinal are opened with other arguments than the ones they were sealed with
    as soon as one data page has been read -/
theorem dictionary_with_data_page_ordinal_is_wrong (rg col ord : Nat) (h : ord ≠ 0) :
    (Used.mk .dictPageHeader [rg, col, ord]) ≠ (Module.dictPageHeader rg col).used := by
  intro hc
  simp [Module.used, Module.type, Module.ords] at hc
  exact h hc

/-- non-vacuity: without offset index a seek rewinds, and `ReadPage` opens every page before the
    target row; `ReadDictionary` first, so the stream's dictionary page is never met and not needed -/
example :
    let pc : PChunk := { c := { rg := 0, col := 0, hasDict := true, npages := 3 }, rows := [10, 10, 10],
                         dictEnc := [true, true, true], indexed := false }
    let out := prun pc [.readDictionary, .seek 25, .readPage, .readPage]
    out.1.r.log.map (·.slot) = [.dictPageHeader 0 0, .dictPage 0 0, .dataPageHeader 0 0 0, .dataPage 0 0 0,
      .dataPageHeader 0 0 1, .dataPage 0 0 1, .dataPageHeader 0 0 2, .dataPage 0 0 2] ∧
    out.2 = [(.done, 2), (.done, 2), (.page 2 5, 8), (.eof, 8)] := by decide

/-- the cached page is served without opening anything -/
example :
    let pc : PChunk := { c := { rg := 0, col := 0, hasDict := false, npages := 3 }, rows := [10, 10, 10],
                         dictEnc := [false, false, false], indexed := true }
    (prun pc [.readPage, .readPage, .seek 17, .readPage, .readPage]).2 =
      [(.page 0 0, 2), (.page 1 0, 4), (.done, 4), (.page 1 7, 4), (.page 2 0, 6)] := by decide

section aead
variable {K N C : Type} (A : AEAD K N C)

/-- **Round trip at the level of the API**: a module sealed by the writer (any write history, Reset
    and BeginRowGroup included) in some slot is opened by a reader that reaches that slot through
    any history of API calls, and yields the plaintext. -/
theorem api_roundtrip (hI : Ideal A) (cfg : WCfg) (wops : List WOp)
    (pc : PChunk) (ops : List POp) (pfx : Bytes) (fuOf : Nat → Bytes)
    (ew : WEv) (hw : ew ∈ wclose cfg (wrun cfg wops)) (er : Ev) (hr : er ∈ (prun pc ops).1.r.log)
    (hslot : ew.slot = er.slot) (k : K) (n : N) (p : Bytes) :
    openModule A k (er.used.aad pfx (fuOf (wrun cfg wops).gen)) (sealModule A k n (ew.aad pfx fuOf) p) = some p := by
  rw [writer_aad_is_slot_aad cfg wops pfx fuOf ew hw, api_reader_ordinals_agree pc ops er hr, hslot]
  exact hI.open_seal k n _ p

end aead

example : Ideal symAEAD := symAEAD_ideal

end PqModel.Props.C18Reader
