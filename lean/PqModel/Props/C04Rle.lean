import PqModel.RleLemmas
import PqModel.BitPackedLemmas
import PqModel.RleDecodeLemmas
import PqModel.RlePackLemmas

/-! # C04 (part rle) — the RLE / bit-packed hybrid is lossless and matches the format

SPEC side: `specDecode*` (written from Encodings.md), `ValidRle` (every conformant segmentation).
MIRROR side: `encodeLevels` (`encodeBytes`), `encodeInt32With stop` (`encodeInt32`, `stop` = the
group test of the portable code or of the AVX2 kernel), `encodeBoolean`/`encodeBits`, `encodeDict`.
`e >>= d = .ok v` reads: the encoder accepts the input, and the decoder returns `v` on its output.
`n` is the value count the reader takes from the page header; `n = xs.length` gives `xs` back. -/
namespace PqModel.Props.C04Rle
open PqModel.Rle PqModel.Bits

/-- Soundness of the oracle: the spec decoder reads every conformant encoding of `xs` (any run
segmentation, trailing padding of the last bit-packed run) back as `xs`. -/
theorem specDecode_of_valid {w : Nat} {xs bs : List Nat} (h : ValidRle w xs bs) (n : Nat)
    (hn : n ≤ xs.length) : specDecode w n bs = .ok (xs.take n) := by
  obtain ⟨rs, hwf, rfl, rfl⟩ := h
  exact specDecode_serialize w n rs hwf hn

example : ValidRle 1 [1, 1, 1] [6, 1] :=
  ⟨[.rle 3 [1]], by simp [Run.WF], by simp [runsValues, Run.values, leNat], by
    simp [serialize, Run.bytes, uvarint_small]⟩

/-- `encodeBytes` (levels) at a width `1..8` never rejects, and its output is a conformant
encoding of the input masked to the width (so: of the input itself when it fits). -/
theorem encodeLevels_valid (w : Nat) (xs : List Nat) (h1 : 1 ≤ w) (h8 : w ≤ 8) :
    ∃ bs, encodeLevels w xs = .ok bs ∧ ValidRle w (xs.map (· % 2 ^ w)) bs := by
  have hs := groups_tail_spec w (fun v => [v]) scanLevels (encOK_levels w h1 h8) scanLevels_le xs
  refine ⟨_, ?_, ⟨_, hs.1, hs.2, rfl⟩⟩
  have a : ¬ w > 8 := by omega
  have b : ¬ w = 0 := by omega
  simp only [encodeLevels, a, b, if_false, levelsLoop]

example : (1 : Nat) ≤ 3 ∧ 3 ≤ 8 := by decide

/-- `encodeInt32` at a width `1..32`, for the portable group test and for the AVX2 kernel's. -/
theorem encodeInt32_valid (stop : List Nat → Bool) (w : Nat) (xs : List Nat) (h1 : 1 ≤ w) (h32 : w ≤ 32) :
    ∃ bs, encodeInt32With stop w xs = .ok bs ∧ ValidRle w (xs.map (· % 2 ^ w)) bs := by
  have hs := groups_tail_spec w (leBytes ((w + 7) / 8))
    (fun _ gs => (gs.takeWhile (fun g => !stop g)).length) (encOK_int32 w)
    (fun _ gs => length_takeWhile_le _ gs) xs
  refine ⟨_, ?_, ⟨_, hs.1, hs.2, rfl⟩⟩
  have a : ¬ w > 32 := by omega
  have b : ¬ w = 0 := by omega
  simp only [encodeInt32With, a, b, if_false, int32Loop]

example : (1 : Nat) ≤ 17 ∧ 17 ≤ 32 := by decide

/-- width 0 (both encoders share the branch): all-zero input is accepted and conformant -/
theorem encodeLevels_valid_zero (xs : List Nat) (h : ∀ x ∈ xs, x = 0) :
    ∃ bs, encodeLevels 0 xs = .ok bs ∧ ValidRle 0 xs bs := by
  have hall : xs.all (· == 0) = true := by
    rw [List.all_eq_true]; intro x hx; simp [h x hx]
  exact ⟨_, by simp [encodeLevels, hall], zeroWidth_stream xs hall⟩

theorem encodeInt32_valid_zero (stop : List Nat → Bool) (xs : List Nat) (h : ∀ x ∈ xs, x = 0) :
    ∃ bs, encodeInt32With stop 0 xs = .ok bs ∧ ValidRle 0 xs bs := by
  have hall : xs.all (· == 0) = true := by
    rw [List.all_eq_true]; intro x hx; simp [h x hx]
  exact ⟨_, by simp [encodeInt32With, hall], zeroWidth_stream xs hall⟩

example : ∀ x ∈ [0, 0, 0], x = 0 := by decide

/-- `encodeBits` on a non-empty input: conformant width-1 encoding of the bits of the bytes
(LSB first). RLE runs store the packed byte `0xFF` for `true` (note N1): conformant only because
the grammar, like the spec decoder, reads an RLE value modulo `2^w`. -/
theorem encodeBits_valid (src : List Nat) (hne : src ≠ []) :
    ValidRle 1 ((bytesToBits src).map b2n) (encodeBits src) := by
  cases src with
  | nil => exact absurd rfl hne
  | cons a rest =>
    simp only [encodeBits]
    split
    · -- all 00 or all FF: one RLE run
      rename_i hc
      have hrep : ∃ v, (v = 0 ∨ v = 0xFF) ∧ a :: rest = List.replicate (a :: rest).length v := by
        simp only [Bool.or_eq_true] at hc
        rcases hc with hc | hc
        · exact ⟨0, Or.inl rfl, all_zero_eq_replicate _ hc⟩
        · refine ⟨0xFF, Or.inr rfl, ?_⟩
          rw [List.eq_replicate_iff]
          refine ⟨rfl, fun b hb => ?_⟩
          have := (List.all_eq_true.mp hc) b hb
          simpa using this
      obtain ⟨v, hv, hrepl⟩ := hrep
      have hav : a = v := by
        have : (a :: rest).head? = some v := by rw [hrepl]; simp [List.replicate_succ]
        simpa using this
      refine ⟨[.rle (8 * (a :: rest).length) [a]], ?_, ?_, ?_⟩
      · intro r hr; simp at hr; subst hr; simp [Run.WF]
      · rw [hrepl, bytesToBits_replicate _ _ hv, hav]
        simp [runsValues, Run.values, leNat]
      · simp [serialize, Run.bytes]
    · obtain ⟨h1, h2⟩ := bitsLoop_spec (a :: rest).length (a :: rest) (Nat.le_refl _)
      exact ⟨_, h1, h2, rfl⟩

example : [0xFF, 0x12] ≠ ([] : List Nat) := by decide

/-! ## Round trips -/

/-- Levels (`EncodeLevels`, width ≤ 8): the spec decoder returns the input for every in-range list. -/
theorem rle_roundtrip_levels (w : Nat) (xs : List Nat) (n : Nat) (hw : w ≤ 8)
    (hx : ∀ x ∈ xs, x < 2 ^ w) (hn : n ≤ xs.length) :
    encodeLevels w xs >>= specDecode w n = .ok (xs.take n) := by
  by_cases h0 : w = 0
  · subst h0
    obtain ⟨bs, he, hv⟩ := encodeLevels_valid_zero xs (fun x hx' => by have := hx x hx'; omega)
    rw [he]; exact specDecode_of_valid hv n hn
  · obtain ⟨bs, he, hv⟩ := encodeLevels_valid w xs (by omega) hw
    rw [map_mod_of_lt w xs hx] at hv
    rw [he]; exact specDecode_of_valid hv n hn

example : (∀ x ∈ [0, 3, 3, 3, 3, 3, 3, 3, 3, 1], x < 2 ^ 2) ∧ 10 ≤ [0, 3, 3, 3, 3, 3, 3, 3, 3, 1].length := by decide

/-- Int32 (`EncodeInt32`, width ≤ 32), portable and AVX2 segmentation alike. -/
theorem rle_roundtrip_int32 (stop : List Nat → Bool) (w : Nat) (xs : List Nat) (n : Nat) (hw : w ≤ 32)
    (hx : ∀ x ∈ xs, x < 2 ^ w) (hn : n ≤ xs.length) :
    encodeInt32With stop w xs >>= specDecode w n = .ok (xs.take n) := by
  by_cases h0 : w = 0
  · subst h0
    obtain ⟨bs, he, hv⟩ := encodeInt32_valid_zero stop xs (fun x hx' => by have := hx x hx'; omega)
    rw [he]; exact specDecode_of_valid hv n hn
  · obtain ⟨bs, he, hv⟩ := encodeInt32_valid stop w xs (by omega) hw
    rw [map_mod_of_lt w xs hx] at hv
    rw [he]; exact specDecode_of_valid hv n hn

example : (∀ x ∈ [5, 5, 5, 5, 9, 9, 9, 9, 70000], x < 2 ^ 17) := by decide

/-- Booleans (`EncodeBoolean`): 4-byte length prefix + hybrid at width 1; the spec decoder returns
the bits of the packed input (any count `n` up to `8 * len`), provided the body is shorter than
4 GiB (the prefix is a `uint32`). -/
theorem rle_roundtrip_boolean (src : List Nat) (n : Nat) (hlen : (encodeBits src).length < 2 ^ 32)
    (hn : n ≤ 8 * src.length) :
    specDecodeBoolean n (encodeBoolean src) = .ok (((bytesToBits src).map b2n).take n) := by
  simp only [specDecodeBoolean, encodeBoolean]
  rw [prefix_strip 1 n _ hlen]
  cases src with
  | nil =>
    have : n = 0 := by simpa using hn
    subst this
    simp [specDecode, decodeRuns]
  | cons a rest =>
    exact specDecode_of_valid (encodeBits_valid (a :: rest) (by simp)) n
      (by rw [List.length_map, bytesToBits_length]; exact hn)

example : (encodeBits [0xFF, 0xFF, 0x12]).length < 2 ^ 32 := by
  simp [encodeBits, bitsLoop, scanBits, serialize, Run.bytes, uvarint_small]

/-- RLE_DICTIONARY index pages (`DictionaryEncoding.EncodeInt32`): the width byte is `bits.Len32`
of the largest index, so every `uint32` list round-trips with no further hypothesis. -/
theorem rle_roundtrip_dict (xs : List Nat) (n : Nat) (hx : ∀ x ∈ xs, x < 2 ^ 32) (hn : n ≤ xs.length) :
    encodeDict xs >>= specDecodeDict n = .ok (xs.take n) := by
  have hW : maxLen xs ≤ 32 := maxLen_le xs 32 hx
  have h := rle_roundtrip_int32 constGroup (maxLen xs) xs n hW (lt_pow_maxLen xs) hn
  simp only [encodeDict, encodeInt32]
  cases he : encodeInt32With constGroup (maxLen xs) xs with
  | error e => rw [he] at h; simp [bind, Except.bind] at h
  | ok bs =>
    rw [he] at h
    have a : ¬ maxLen xs > 32 := by omega
    simpa [bind, Except.bind, Except.map, specDecodeDict, a] using h

example : ∀ x ∈ [0, 7, 4000000000], x < 2 ^ 32 := by decide

/-! ## What the encoders do with input that does not fit the width -/

/-- At widths `1..8` `encodeBytes` never rejects: values are silently reduced modulo `2^w`
(bit-packed runs mask; RLE runs store the whole byte, which the format reads modulo `2^w`). -/
theorem levels_out_of_range_is_masked (w : Nat) (xs : List Nat) (h1 : 1 ≤ w) (h8 : w ≤ 8) :
    encodeLevels w xs >>= specDecode w xs.length = .ok (xs.map (· % 2 ^ w)) := by
  obtain ⟨bs, he, hv⟩ := encodeLevels_valid w xs h1 h8
  rw [he]
  have := specDecode_of_valid hv xs.length (by simp)
  rw [List.take_of_length_le (by simp)] at this
  exact this

theorem int32_out_of_range_is_masked (stop : List Nat → Bool) (w : Nat) (xs : List Nat) (h1 : 1 ≤ w)
    (h32 : w ≤ 32) :
    encodeInt32With stop w xs >>= specDecode w xs.length = .ok (xs.map (· % 2 ^ w)) := by
  obtain ⟨bs, he, hv⟩ := encodeInt32_valid stop w xs h1 h32
  rw [he]
  have := specDecode_of_valid hv xs.length (by simp)
  rw [List.take_of_length_le (by simp)] at this
  exact this

/-- the only rejections: width 0 with a non-zero value, width above the type's maximum -/
theorem levels_width0_rejects_nonzero (xs : List Nat) (h : ∃ x ∈ xs, x ≠ 0) :
    encodeLevels 0 xs = .error .invalidBitWidth := by
  have : ¬ xs.all (· == 0) = true := by
    rw [List.all_eq_true]; intro hall
    obtain ⟨x, hx, hne⟩ := h
    have := hall x hx
    simp at this; exact hne this
  simp [encodeLevels, this]

theorem int32_width0_rejects_nonzero (stop : List Nat → Bool) (xs : List Nat) (h : ∃ x ∈ xs, x ≠ 0) :
    encodeInt32With stop 0 xs = .error .invalidBitWidth := by
  have : ¬ xs.all (· == 0) = true := by
    rw [List.all_eq_true]; intro hall
    obtain ⟨x, hx, hne⟩ := h
    have := hall x hx
    simp at this; exact hne this
  simp [encodeInt32With, this]

example : ∃ x ∈ [0, 0, 4], x ≠ 0 := by decide

theorem levels_width_above_8_rejects (w : Nat) (xs : List Nat) (h : 8 < w) :
    encodeLevels w xs = .error .invalidBitWidth := by
  simp [encodeLevels, h]

theorem int32_width_above_32_rejects (stop : List Nat → Bool) (w : Nat) (xs : List Nat) (h : 32 < w) :
    encodeInt32With stop w xs = .error .invalidBitWidth := by
  simp [encodeInt32With, h]

/-- Witness that "the encoder rejects, never truncates silently" (DESIGN C04) does NOT hold for the
code as written: width 1, values 2 and 3 are accepted and come back as 0 and 1. -/
theorem levels_silent_truncation_witness :
    encodeLevels 1 [2, 3, 2, 3, 2, 3, 2, 3] >>= specDecode 1 8 = .ok [0, 1, 0, 1, 0, 1, 0, 1] :=
  levels_out_of_range_is_masked 1 [2, 3, 2, 3, 2, 3, 2, 3] (by decide) (by decide)

/-- The group test of the AVX2 kernel as it was before the repair "AVX2 run detection of the RLE
encoder broadcasts the first value across both lanes" (`constGroupAVX2`, lane-local broadcast)
segments differently from the portable test on the smallest possible input: 16 values, the second
word of shape `a,a,a,a,b,b,b,b`. The kernel is repaired: asm output now equals the portable mirror
(histogram `rle.int32-asm-bytes`); the old test is kept as a second instance of the `stop`
parameter of the theorems and as a regression witness. -/
theorem int32_segmentations_differ :
    encodeInt32 1 [0, 1, 0, 1, 0, 1, 0, 1, 0, 0, 0, 0, 1, 1, 1, 1] ≠
    encodeInt32AVX2 1 [0, 1, 0, 1, 0, 1, 0, 1, 0, 0, 0, 0, 1, 1, 1, 1] := by
  simp [encodeInt32, encodeInt32AVX2, encodeInt32With, int32Loop, groupLoop, groups8, tailLoop,
    constGroup, constGroupAVX2, serialize, Run.bytes, uvarint_small, packBytes, packBits, toBits,
    bitsToBytes, fromBits]

/-! ## The (repaired) Go boolean decoder reads every conformant stream -/

/-- Mirror of `decodeBits` after the fix "DecodeBoolean expands RLE runs per value": on every
conformant width-1 stream (any segmentation, RLE runs of any length ≥ 1 — multiples of 8 or not —,
any stored value byte: `01`, `ff`, ..., bit-packed runs at any bit offset) it returns exactly the
encoded values. (`dst` is modelled as a bit list; the byte-level shifting is tied by L2.) -/
theorem decodeBoolean_of_valid {xs bs : List Nat} (h : ValidRleGo xs bs) :
    goDecodeBitValues bs = .ok xs := by
  obtain ⟨rs, hwf, hgo, rfl, rfl⟩ := h
  simp only [goDecodeBitValues]
  rw [goLoop_serialize rs _ [] hwf hgo (by have := serialize_length_ge rs; omega)]
  simp [Except.map, goBits_values rs hwf]

/-- the bytes returned are those values packed 8 per byte, LSB first, zero padded -/
theorem decodeBoolean_bytes_of_valid {xs bs : List Nat} (h : ValidRleGo xs bs) :
    ∃ bits : List Bool, bits.map b2n = xs ∧ goDecodeBits bs = .ok (bitsToBytes bits.length bits) := by
  obtain ⟨rs, hwf, hgo, rfl, rfl⟩ := h
  refine ⟨(rs.map Run.goBits).flatten, goBits_values rs hwf, ?_⟩
  simp only [goDecodeBits]
  rw [goLoop_serialize rs _ [] hwf hgo (by have := serialize_length_ge rs; omega)]
  simp [Except.map]

/-- the input of the fix commit: 8 × true stored as `01` -/
example : ValidRleGo [1, 1, 1, 1, 1, 1, 1, 1] [0x10, 0x01] :=
  ⟨[.rle 8 [1]], by simp [Run.WF], by simp [Run.GoOK], by simp [runsValues, Run.values, leNat],
    by simp [serialize, Run.bytes, uvarint_small]⟩

/-! ## The Go decoders of levels and int32 / dictionary indexes (mirrors of `decodeBytes`, `decodeInt32`) -/

/-- Mirror of `decodeBytes` (levels, width ≤ 8): on every conformant stream whose runs it frames like
the format (`ValidRleGoW`: no empty RLE run, canonical RLE values, run lengths ≤ MaxInt32) it
returns exactly the encoded values, bit-packed padding of the last run included. -/
theorem goDecodeLevels_of_valid {w : Nat} {xs bs : List Nat} (hw : w ≤ 8) (h : ValidRleGoW w xs bs) :
    goDecodeLevels w bs = .ok xs := by
  obtain ⟨rs, hwf, hgo, rfl, rfl⟩ := h
  have a : ¬ w > 8 := by omega
  simp only [goDecodeLevels, a, if_false]
  rw [goLevelsLoop_serialize w hw rs _ [] hwf hgo (by have := serialize_length_ge rs; omega)]
  simp

/-- Mirror of `decodeInt32` (width ≤ 32), with the portable `bitpack.Unpack` word loop inside. -/
theorem goDecodeInt32_of_valid {w : Nat} {xs bs : List Nat} (hw : w ≤ 32) (h : ValidRleGoW w xs bs) :
    goDecodeInt32 w bs = .ok xs := by
  obtain ⟨rs, hwf, hgo, rfl, rfl⟩ := h
  have a : ¬ w > 32 := by omega
  simp only [goDecodeInt32, a, if_false]
  rw [goInt32Loop_serialize w hw rs _ [] hwf hgo (by have := serialize_length_ge rs; omega)]
  simp

example : ValidRleGoW 3 [5, 5, 5] [6, 5] :=
  ⟨[.rle 3 [5]], by simp [Run.WF], by simp [Run.GoOKW, leNat], by simp [runsValues, Run.values, leNat],
    by simp [serialize, Run.bytes, uvarint_small]⟩

/-- the mirror encoders only emit streams in the decoders' domain -/
theorem encodeLevels_validGo (w : Nat) (xs : List Nat) (h1 : 1 ≤ w) (h8 : w ≤ 8)
    (hx : ∀ x ∈ xs, x < 2 ^ w) (hl : xs.length ≤ 2 ^ 31 - 1) :
    ∃ bs, encodeLevels w xs = .ok bs ∧ ValidRleGoW w xs bs := by
  have hs := groups_tail_spec w (fun v => [v]) scanLevels (encOK_levels w h1 h8) scanLevels_le xs
  have hg := groups_tail_goOK w (fun v => [v]) scanLevels (fun v hv => by simpa [leNat] using hv)
    scanLevels_le xs hx hl
  refine ⟨_, ?_, ⟨_, hs.1, hg, ?_, rfl⟩⟩
  · have a : ¬ w > 8 := by omega
    have b : ¬ w = 0 := by omega
    simp only [encodeLevels, a, b, if_false, levelsLoop]
  · rw [hs.2, map_mod_of_lt w xs hx]

theorem encodeInt32_validGo (stop : List Nat → Bool) (w : Nat) (xs : List Nat) (h1 : 1 ≤ w) (h32 : w ≤ 32)
    (hx : ∀ x ∈ xs, x < 2 ^ w) (hl : xs.length ≤ 2 ^ 31 - 1) :
    ∃ bs, encodeInt32With stop w xs = .ok bs ∧ ValidRleGoW w xs bs := by
  have hs := groups_tail_spec w (leBytes ((w + 7) / 8))
    (fun _ gs => (gs.takeWhile (fun g => !stop g)).length) (encOK_int32 w)
    (fun _ gs => length_takeWhile_le _ gs) xs
  have hg := groups_tail_goOK w (leBytes ((w + 7) / 8))
    (fun _ gs => (gs.takeWhile (fun g => !stop g)).length)
    (fun v hv => by rw [leNat_leBytes]; exact Nat.lt_of_le_of_lt (Nat.mod_le _ _) hv)
    (fun _ gs => length_takeWhile_le _ gs) xs hx hl
  refine ⟨_, ?_, ⟨_, hs.1, hg, ?_, rfl⟩⟩
  · have a : ¬ w > 32 := by omega
    have b : ¬ w = 0 := by omega
    simp only [encodeInt32With, a, b, if_false, int32Loop]
  · rw [hs.2, map_mod_of_lt w xs hx]

example : (∀ x ∈ [1, 0, 1, 1, 1, 1, 1, 1, 1, 1], x < 2 ^ 1) ∧ [1, 0, 1, 1, 1, 1, 1, 1, 1, 1].length ≤ 2 ^ 31 - 1 := by decide

/-- width 0: `uvarint (2 * len)` decodes to `len` zeros (one RLE run, or nothing when empty) -/
theorem zeroWidth_go (xs : List Nat) (hall : xs.all (· == 0) = true) (hl : xs.length ≤ 2 ^ 31 - 1) :
    goDecodeLevels 0 (uvarint (2 * xs.length)) = .ok xs ∧ goDecodeInt32 0 (uvarint (2 * xs.length)) = .ok xs := by
  by_cases he : xs = []
  · subst he
    simp [goDecodeLevels, goDecodeInt32, goDecodeLevelsLoop, goDecodeInt32Loop, uvarint_small, goUvarint]
  · have hpos : 1 ≤ xs.length := by
      cases xs with
      | nil => exact absurd rfl he
      | cons _ _ => simp
    have hv : ValidRleGoW 0 xs (uvarint (2 * xs.length)) := by
      refine ⟨[.rle xs.length []], ?_, ?_, ?_, ?_⟩
      · intro r hr; simp at hr; subst hr; simp [Run.WF]
      · intro r hr; simp at hr; subst hr; exact ⟨hpos, hl, by simp [leNat]⟩
      · simp only [runsValues, List.map_cons, List.map_nil, List.flatten_cons, List.flatten_nil,
          List.append_nil, Run.values, leNat]
        exact (all_zero_eq_replicate xs hall).symm
      · simp [serialize, Run.bytes]
    exact ⟨goDecodeLevels_of_valid (by omega) hv, goDecodeInt32_of_valid (by omega) hv⟩

/-- In-library round trip on the model of both sides: `decodeBytes (encodeBytes xs) = xs` for every
width ≤ 8 and every in-range list shorter than 2^31. -/
theorem go_roundtrip_levels (w : Nat) (xs : List Nat) (hw : w ≤ 8) (hx : ∀ x ∈ xs, x < 2 ^ w)
    (hl : xs.length ≤ 2 ^ 31 - 1) : encodeLevels w xs >>= goDecodeLevels w = .ok xs := by
  by_cases h0 : w = 0
  · subst h0
    have hall : xs.all (· == 0) = true := by
      rw [List.all_eq_true]; intro x hx'; have := hx x hx'; simp at this; simp [this]
    have he : encodeLevels 0 xs = .ok (uvarint (2 * xs.length)) := by simp [encodeLevels, hall]
    rw [he]; exact (zeroWidth_go xs hall hl).1
  · obtain ⟨bs, he, hv⟩ := encodeLevels_validGo w xs (by omega) hw hx hl
    rw [he]; exact goDecodeLevels_of_valid hw hv

/-- `decodeInt32 (encodeInt32 xs) = xs`, width ≤ 32, portable and AVX2 segmentation -/
theorem go_roundtrip_int32 (stop : List Nat → Bool) (w : Nat) (xs : List Nat) (hw : w ≤ 32)
    (hx : ∀ x ∈ xs, x < 2 ^ w) (hl : xs.length ≤ 2 ^ 31 - 1) :
    encodeInt32With stop w xs >>= goDecodeInt32 w = .ok xs := by
  by_cases h0 : w = 0
  · subst h0
    have hall : xs.all (· == 0) = true := by
      rw [List.all_eq_true]; intro x hx'; have := hx x hx'; simp at this; simp [this]
    have he : encodeInt32With stop 0 xs = .ok (uvarint (2 * xs.length)) := by simp [encodeInt32With, hall]
    rw [he]; exact (zeroWidth_go xs hall hl).2
  · obtain ⟨bs, he, hv⟩ := encodeInt32_validGo stop w xs (by omega) hw hx hl
    rw [he]; exact goDecodeInt32_of_valid hw hv

/-- dictionary index pages: `DictionaryEncoding.DecodeInt32 (EncodeInt32 xs) = xs` -/
theorem go_roundtrip_dict (xs : List Nat) (hx : ∀ x ∈ xs, x < 2 ^ 32) (hl : xs.length ≤ 2 ^ 31 - 1) :
    encodeDict xs >>= goDecodeDict = .ok xs := by
  have hW : maxLen xs ≤ 32 := maxLen_le xs 32 hx
  have h := go_roundtrip_int32 constGroup (maxLen xs) xs hW (lt_pow_maxLen xs) hl
  simp only [encodeDict, encodeInt32]
  cases he : encodeInt32With constGroup (maxLen xs) xs with
  | error e => rw [he] at h; simp [bind, Except.bind] at h
  | ok bs =>
    rw [he] at h
    simpa [bind, Except.bind, Except.map, goDecodeDict] using h

example : (∀ x ∈ [3, 3, 70000], x < 2 ^ 32) ∧ [3, 3, 70000].length ≤ 2 ^ 31 - 1 := by decide

/-- the boolean encoder only emits streams in the boolean decoder's domain -/
theorem encodeBits_validGo (src : List Nat) (hne : src ≠ []) (hl : 8 * src.length ≤ 2 ^ 31 - 1) :
    ValidRleGo ((bytesToBits src).map b2n) (encodeBits src) := by
  cases src with
  | nil => exact absurd rfl hne
  | cons a rest =>
    simp only [encodeBits]
    split
    · rename_i hc
      have hrep : ∃ v, (v = 0 ∨ v = 0xFF) ∧ a :: rest = List.replicate (a :: rest).length v := by
        simp only [Bool.or_eq_true] at hc
        rcases hc with hc | hc
        · exact ⟨0, Or.inl rfl, all_zero_eq_replicate _ hc⟩
        · refine ⟨0xFF, Or.inr rfl, ?_⟩
          rw [List.eq_replicate_iff]
          refine ⟨rfl, fun b hb => ?_⟩
          have := (List.all_eq_true.mp hc) b hb
          simpa using this
      obtain ⟨v, hv, hrepl⟩ := hrep
      have hav : a = v := by
        have : (a :: rest).head? = some v := by rw [hrepl]; simp [List.replicate_succ]
        simpa using this
      refine ⟨[.rle (8 * (a :: rest).length) [a]], ?_, ?_, ?_, ?_⟩
      · intro r hr; simp at hr; subst hr; simp [Run.WF]
      · intro r hr; simp at hr; subst hr
        simp only [Run.GoOK, List.length_cons] at hl ⊢; omega
      · rw [hrepl, bytesToBits_replicate _ _ hv, hav]
        simp [runsValues, Run.values, leNat]
      · simp [serialize, Run.bytes]
    · obtain ⟨h1, h2⟩ := bitsLoop_spec (a :: rest).length (a :: rest) (Nat.le_refl _)
      exact ⟨_, h1, bitsLoop_goOK _ _ hl, h2, rfl⟩

/-- `DecodeBoolean (EncodeBoolean src) = src` on the models of both sides (repaired decoder): every
byte string shorter than 2^28 bytes whose encoding is shorter than 4 GiB. -/
theorem go_roundtrip_boolean (src : List Nat) (hb : ∀ b ∈ src, b < 256)
    (hl : 8 * src.length ≤ 2 ^ 31 - 1) (hlen : (encodeBits src).length < 2 ^ 32) :
    goDecodeBoolean (encodeBoolean src) = .ok src := by
  have hpos : 1 ≤ (encodeBits src).length := by
    cases src with
    | nil => simp [encodeBits, uvarint_small]
    | cons a rest =>
      simp only [encodeBits]
      split
      · simp
      · have := serialize_length_ge (bitsLoop (a :: rest).length (a :: rest))
        have h1 : 1 ≤ (bitsLoop (a :: rest).length (a :: rest)).length := by
          simp only [List.length_cons, bitsLoop]; split <;> simp
        omega
  have h4 : (leBytes 4 (encodeBits src).length).length = 4 := leBytes_length _ _
  have hle : leNat (leBytes 4 (encodeBits src).length) = (encodeBits src).length := by
    rw [leNat_leBytes]; exact Nat.mod_eq_of_lt hlen
  have a1 : ¬ (leBytes 4 (encodeBits src).length ++ encodeBits src).length = 4 := by
    rw [List.length_append]; omega
  have a2 : ¬ (leBytes 4 (encodeBits src).length ++ encodeBits src).length < 4 := by
    rw [List.length_append]; omega
  simp only [goDecodeBoolean, encodeBoolean, a1, a2, if_false, List.take_left' h4, List.drop_left' h4, hle,
    Nat.lt_irrefl, List.take_length]
  cases src with
  | nil => simp [encodeBits, uvarint_small, goDecodeBits, goDecodeBitsLoop, goUvarint, bitsToBytes, Except.map]
  | cons a rest =>
    obtain ⟨bits, hbits, hdec⟩ := decodeBoolean_bytes_of_valid (encodeBits_validGo (a :: rest) (by simp) hl)
    have := map_b2n_inj _ _ hbits
    subst this
    rw [hdec, bitsToBytes_bytesToBits (a :: rest) hb _ (by rw [bytesToBits_length]; omega)]

example : (∀ b ∈ [0xFF, 0xFF, 0x12], b < 256) ∧ 8 * [0xFF, 0xFF, 0x12].length ≤ 2 ^ 31 - 1 := by decide

/-! ## The portable bit-packing kernels are LSB-first packing / unpacking (`Bits.lean`) -/

/-- `encodeBytesBitpackDefault` (levels encoder kernel): the transliterated word loop equals the
`packBytes` the encoder mirror uses, for every width and every list of 8-value words. -/
theorem levels_pack_kernel (w : Nat) (gs : List (List Nat)) (h : ∀ g ∈ gs, g.length = 8) :
    goEncodeBytesBitpack w gs = packBytes w gs.flatten :=
  goEncodeBytesBitpack_eq w gs h

/-- `decodeBytesBitpackDefault` (levels decoder kernel) equals `Bits.unpackBits` on the packed bytes. -/
theorem levels_unpack_kernel (w g : Nat) (p : List Nat) (hl : p.length = g * w) (hb : ∀ b ∈ p, b < 256) :
    goDecodeBytesBitpack w g p = unpackBits w (8 * g) (bytesToBits p) :=
  goDecodeBytesBitpack_eq w g p hl hb

/-- `bitpack.Unpack` for int32 (portable `unpackInt32`, 32-bit words with straddling values) equals
`Bits.unpackBits` for every width ≤ 32. -/
theorem int32_unpack_kernel (w n : Nat) (p : List Nat) (hw : w ≤ 32) (hb : ∀ b ∈ p, b < 256)
    (hn : n * w ≤ 8 * p.length) : goUnpackInt32 w n p = unpackBits w n (bytesToBits p) :=
  goUnpackInt32_eq w n p hw hb hn

example : (17 : Nat) ≤ 32 ∧ (∀ b ∈ [1, 2, 3, 255, 0, 9, 9, 9, 9], b < 256) ∧ 4 * 17 ≤ 8 * [1, 2, 3, 255, 0, 9, 9, 9, 9].length := by decide

/-- `bitpack.Pack` for int32 (portable `packInt32Default`: 64-bit accumulator flushed 32 bits at a
time, then the tail bytes), as called by `encodeInt32BitpackDefault`, equals the `packBytes` the
encoder mirror uses, for every width ≤ 32 and every value list. -/
theorem int32_pack_kernel (w : Nat) (hw : w ≤ 32) (src : List Nat) : goPackInt32 w src = packBytes w src :=
  goPackInt32_eq w hw src

example : (32 : Nat) ≤ 32 := by decide

/-! ## Legacy BIT_PACKED levels (encoding/bitpacked) -/

/-- The spec decoder of the deprecated BIT_PACKED encoding (values and bytes most significant bit
first) reads back every in-range list from the model of `bitpacked.encodeLevels`, for every width
`1..` and non-empty input (for width 0 or empty input the Go code emits the single byte `00`). -/
theorem bitpacked_roundtrip (w : Nat) (xs : List Nat) (hw : 1 ≤ w) (hne : xs ≠ [])
    (hx : ∀ x ∈ xs, x < 2 ^ w) :
    specDecodeBitPacked w xs.length (encodeBitPacked w xs) = .ok xs :=
  bitpacked_roundtrip_lemma w xs hw hne hx

example : (1 : Nat) ≤ 3 ∧ [1, 2, 3, 4, 5] ≠ ([] : List Nat) ∧ ∀ x ∈ [1, 2, 3, 4, 5], x < 2 ^ 3 := by decide

end PqModel.Props.C04Rle
