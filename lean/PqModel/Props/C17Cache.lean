import PqModel.SchemaCache

/-! # C17 — process-wide caches: results are a function of (type, options) iff the stores are keyed
    by everything the value depends on

"Output bytes are a function of input and options only" quantifies over the histories of the
process. A writer derives its schema through `schemaOf`, which reads and writes the package-level
`cachedSchemas`; what earlier calls with OTHER options stored there is part of the history.

* `cache_invisible_iff` (SPEC shape `call`, any key function): for EVERY history of calls from an
  empty cache every result is the uncached derivation of its own input, if and only if the key
  determines the value (`KeySound`).
* `schemaOf_is_keyed_call` / `schemaOf_history_independent` (MIRROR of schema.go:198-221): the code
  is such a cache keyed by the Go type for calls WITHOUT replacements only, so for every history of
  `schemaOf` calls (any types, any replacement lists) each result is `derive type replacements`.
* `flat_store_breaks_it`, `flat_not_history_independent`: the variant that stores derivations with
  replacements under the bare type (seed C17-6a) is refuted by the two-call history
  [derive T with a replacement; derive T].

Tied to the source by `Props/FactsCheckC17` (factgen family `globalcaches`: the only store into
`cachedSchemas` is under `cacheable`, keyed by `model`; `cacheable` is `len(tagReplacements) == 0`)
and to the library by sub-check `cache` (L1, fresh worker processes). -/

namespace PqModel.Props.C17Cache
open PqModel.SchemaCache

/-- **cache_invisible_iff**: lookup results are a function of the input alone, for all histories,
    exactly when stores are keyed by everything the value depends on. -/
theorem cache_invisible_iff {I K S : Type} [DecidableEq K] (keyOf : I → Option K) (derive : I → S) :
    (∀ hist : List I, results (call keyOf derive) ([] : Cache K S) hist = hist.map derive) ↔
      KeySound keyOf derive := by
  constructor
  · intro h a b k ha hb
    have h2 := h [a, b]
    simp only [results, call, ha, hb, lookup, List.map_cons, List.map_nil, if_true] at h2
    injection h2 with _ h3
    injection h3 with h4 _
  · intro hs hist
    exact results_of_good keyOf derive hs hist [] (good_nil keyOf derive)

/-- the hypotheses are satisfiable: a cache keyed by the whole input is always sound -/
example : KeySound (fun i : Nat × Nat => some i) (fun i => i.1 + i.2) := by
  intro a b k ha hb
  cases ha; cases hb; rfl

/-- the mirror of `schemaOf` IS the keyed cache with key = the Go type for calls without
    replacements, no key otherwise -/
theorem schemaOf_is_keyed_call {Ty R S : Type} [DecidableEq Ty] (derive : Ty → List R → S)
    (c : Cache Ty S) (i : Ty × List R) :
    schemaOf derive false c i = call schemaKey (fun j => derive j.1 j.2) c i := by
  unfold schemaOf call schemaKey loadOrStore
  cases he : i.2.isEmpty with
  | false => simp
  | true =>
    simp only [if_true]
    cases hl : lookup c i.1 with
    | none => simp
    | some s => simp

theorem schemaKey_sound {Ty R S : Type} (derive : Ty → List R → S) :
    KeySound (schemaKey (Ty := Ty) (R := R)) (fun j => derive j.1 j.2) := by
  intro a b k ha hb
  unfold schemaKey at ha hb
  split at ha <;> split at hb <;> simp_all

/-- **schemaOf_history_independent**: whatever the process derived before — any Go types, with any
    struct-tag replacements, in any order — every `schemaOf` call returns the derivation of its own
    (type, replacements). -/
theorem schemaOf_history_independent {Ty R S : Type} [DecidableEq Ty] (derive : Ty → List R → S)
    (hist : List (Ty × List R)) :
    results (schemaOf derive false) ([] : Cache Ty S) hist = hist.map (fun j => derive j.1 j.2) := by
  have hf : schemaOf derive false = call schemaKey (fun j => derive j.1 j.2) := by
    funext c i
    exact schemaOf_is_keyed_call derive c i
  rw [hf]
  exact (cache_invisible_iff schemaKey (fun j => derive j.1 j.2)).2 (schemaKey_sound derive) hist

/-- a derivation that shows its inputs: type 0 with replacement 1, then type 0 without -/
def showDerive (t : Nat) (o : List Nat) : Nat × List Nat := (t, o)

example : results (schemaOf showDerive false) [] [(0, [1]), (0, [])] = [(0, [1]), (0, [])] := by decide

/-- **flat_store_breaks_it** (seed C17-6a): with the store hoisted out of `if cacheable`, the
    default derivation of a type whose FIRST derivation carried a replacement returns the
    tag-replaced schema. -/
theorem flat_store_breaks_it :
    results (schemaOf showDerive true) [] [(0, [1]), (0, [])] = [(0, [1]), (0, [1])] := by decide

theorem flat_not_history_independent :
    ¬ ∀ hist : List (Nat × List Nat),
        results (schemaOf showDerive true) [] hist = hist.map (fun j => showDerive j.1 j.2) := by
  intro h
  exact absurd (h [(0, [1]), (0, [])]) (by decide)

/-- the order of the history matters: an untagged derivation first protects the entry -/
example : results (schemaOf showDerive true) [] [(0, []), (0, [1]), (0, [])] = [(0, []), (0, [1]), (0, [])] := by
  decide

end PqModel.Props.C17Cache
