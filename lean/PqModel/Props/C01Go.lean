import PqModel.FileCodecsGo
import PqModel.Props.C01
import PqModel.Props.C04PlainDict
import PqModel.Props.C04Delta

/-! # C01 with the Go decoders on the read path

`Props/C01.lean` (`roundtrip_typed`) reads the written file with the SPEC decoders. Here the reader
is built from the MIRRORS of the Go decoders (`PqModel/FileCodecsGo.lean`): for every physical type
× encoding parquet-go accepts, every stale content of the recycled decode buffers, both data page
layouts, the Go read path returns exactly the written rows. Each codec statement is discharged from
the C04 theorem about that Go decoder (`plain_go_decoder_*`, `bss_go_*`, `goDecode32/64_mirrorEncode`,
`goDecodeDLBA/DBA_eq_spec`, `go_roundtrip_levels/dict/boolean`, `goNewIndexedPage_eq`). -/
namespace PqModel.Props.C01Go
open PqModel PqModel.Bits PqModel.Dremel PqModel.FileModel PqModel.Props PqModel.Props.C01Codecs

/-! ## decoders that agree with the SPEC decoder on every input -/

/-- PLAIN fixed width: the Go page reader is the SPEC page reader, on every byte string -/
theorem goPlainFixed_dec_eq (k : Nat) (hk : 0 < k) (cnt : Nat) (bs : List Nat) :
    (goPlainFixed k).dec cnt bs = (plainFixed k).dec cnt bs := by
  simp only [goPlainFixed, plainFixed, PlainDict.goDecFixed_eq_spec k hk]
  cases Plain.specDecFixed k (toB bs) <;> rfl
example : (0 : Nat) < 4 := by decide

theorem goPlainFLBA_dec_eq (n : Nat) (hn : 0 < n) (cnt : Nat) (bs : List Nat) :
    (goPlainFLBA n).dec cnt bs = (plainFixed n).dec cnt bs := by
  have hn0 : ¬ n = 0 := by omega
  simp only [goPlainFLBA, plainFixed, PlainDict.goDecFLBA, Plain.specDecFixed, Plain.specDecFixedBytes, hn0,
    if_false]
  split <;> simp [goOk, flatValues]
example : (0 : Nat) < 16 := by decide

theorem goBssFixed_dec_eq (k : Nat) (hk : 0 < k) (cnt : Nat) (bs : List Nat) :
    (goBssFixed k).dec cnt bs = (bssFixed k).dec cnt bs := by
  simp only [goBssFixed, bssFixed, PlainDict.goBssDecFixed_eq_spec k hk]
  cases Plain.bssSpecDecFixed k (toB bs) <;> rfl
example : (0 : Nat) < 8 := by decide

theorem getD_take (bs : Plain.Bytes) (m j : Nat) (h : j < m) : (bs.take m).getD j 0 = bs.getD j 0 := by
  simp [List.getD_eq_getElem?_getD, h]

/-- the boolean page over `bytes` is the SPEC reading of PLAIN BOOLEAN, on every byte string -/
theorem goBoolPage_eq (cnt : Nat) (bytes : Plain.Bytes) :
    goBoolPage cnt bytes = (Plain.specDecBool cnt bytes).map (·.map Rle.b2n) := by
  unfold goBoolPage Plain.specDecBool
  by_cases h : bytes.length < (cnt + 7) / 8
  · have : bytes.length * 8 < cnt := by omega
    simp [h, this]
  · have : ¬ bytes.length * 8 < cnt := by omega
    simp only [h, this, if_false, Option.map_some, List.map_map, Option.some.injEq]
    apply List.map_congr_left
    intro i hi
    have hi' : i < cnt := List.mem_range.mp hi
    simp only [Function.comp, Plain.bitAt]
    rw [getD_take _ _ _ (by omega)]

theorem goPlainBool_dec_eq (cnt : Nat) (bs : List Nat) : goPlainBool.dec cnt bs = plainBool.dec cnt bs := by
  simp only [goPlainBool, plainBool, goBoolPage_eq]

/-! ## round trips -/

theorem goPlainFixed_ok (k : Nat) (hk : 0 < k) : (goPlainFixed k).OK := by
  intro xs hx hp
  rw [goPlainFixed_dec_eq k hk]
  exact plainFixed_ok k hk xs hx hp

theorem goPlainFLBA_ok (n : Nat) (hn : 0 < n) : (goPlainFLBA n).OK := by
  intro xs hx hp
  rw [goPlainFLBA_dec_eq n hn]
  exact plainFixed_ok n hn xs hx hp

theorem goBssFixed_ok (k : Nat) (hk : 0 < k) : (goBssFixed k).OK := by
  intro xs hx hp
  rw [goBssFixed_dec_eq k hk]
  exact bssFixed_ok k hk xs hx hp

theorem goPlainBool_ok : goPlainBool.OK := by
  intro xs hx hp
  rw [goPlainBool_dec_eq]
  exact plainBool_ok xs hx hp

/-- BYTE_STREAM_SPLIT FIXED_LEN_BYTE_ARRAY(n), for every former content of the destination
    (C04 `bss_go_roundtrip_flba`) -/
theorem goBssFLBA_ok (n : Nat) (hn : 0 < n) (stale : Plain.Bytes) : (goBssFLBA n stale).OK := by
  intro xs hx _
  have hlen : ∀ v ∈ xs.map (Plain.leBytes n), v.length = n := by
    intro v hv
    obtain ⟨x, _, rfl⟩ := List.mem_map.mp hv
    exact Plain.leBytes_length n x
  have hrt := C04PlainDict.bss_go_roundtrip_flba n hn stale (xs.map (Plain.leBytes n)) hlen
  have hfl := Plain.flatten_length_const n _ hlen
  have hd : (xs.map (Plain.leBytes n)).flatten.length / n = xs.length := by
    rw [hfl, List.length_map]; exact Nat.mul_div_cancel_left _ hn
  have hch := Plain.chunks_flatten n (xs.map (Plain.leBytes n)) [] hlen
  simp only [List.append_nil, List.length_map] at hch
  have hv : (xs.map (Plain.leBytes n)).map Plain.leVal = xs := by
    rw [List.map_map]
    exact map_id_of (fun x hx' => Plain.leVal_leBytes n x (by simpa [goBssFLBA, bssFixed] using hx x hx'))
  simp only [goBssFLBA, bssFixed, toB_toN, Plain.bssEncFixed, hrt, goOk, Option.map_some, flatValues, hd, hch, hv,
    exactly, Option.bind_some, ↓reduceIte]
example : (0 : Nat) < 16 := by decide

/-- DELTA_BINARY_PACKED INT32 through `goDecode32` (C04 `goDecode32_mirrorEncode32`) -/
theorem goDelta32_ok : goDelta32.OK := by
  intro xs hx hp
  have hl : (xs.map (BitVec.ofNat 32)).length < 2 ^ 31 := by simpa [goDelta32, okCount] using hp
  have hv := ofNat_toNat_id 32 xs (fun x h => by simpa [goDelta32, delta32] using hx x h)
  have h := C04Delta.goDecode32_mirrorEncode32 (xs.map (BitVec.ofNat 32)) [] hl
  simp only [List.append_nil] at h
  simp only [goDelta32, delta32, h, List.length_map, ↓reduceIte, hv]
example : goDelta32.okP [0, 0xffffffff] = true := by decide

theorem goDelta64_ok : goDelta64.OK := by
  intro xs hx hp
  have hl : (xs.map (BitVec.ofNat 64)).length < 2 ^ 31 := by simpa [goDelta64, okCount] using hp
  have hv := ofNat_toNat_id 64 xs (fun x h => by simpa [goDelta64, delta64, isInt64] using hx x h)
  have h := C04Delta.goDecode64_mirrorEncode64 (xs.map (BitVec.ofNat 64)) [] hl
  simp only [List.append_nil] at h
  simp only [goDelta64, delta64, deltaInt64Enc, h, List.length_map, ↓reduceIte, hv]
example : goDelta64.okP [0, 2 ^ 64 - 1] = true := by decide

/-- RLE BOOLEAN through `goDecodeBoolean` (C04 `go_roundtrip_boolean`) and the boolean page -/
theorem goRleBool_ok : goRleBool.OK := by
  intro xs hx hp
  simp only [goRleBool, Bool.and_eq_true, decide_eq_true_eq] at hp
  have hlen : (Rle.encodeBits (boolPack xs)).length < 2 ^ 32 := by simpa [rleBool] using hp.1
  have hb : ∀ b ∈ boolPack xs, b < 256 := by
    intro b hb
    unfold boolPack at hb
    exact Rle.bitsToBytes_lt _ _ b hb
  have hrt := C04Rle.go_roundtrip_boolean (boolPack xs) hb hp.2 hlen
  obtain ⟨pad, hpad⟩ := bytes_bits xs.length (xs.map (· == 1)) (by simp)
  have hbl : (boolPack xs).length = (xs.length + 7) / 8 := by
    unfold boolPack
    rw [Rle.bitsToBytes_length _ _ (by simp)]; simp
  have hv : ((bytesToBits (boolPack xs)).map Rle.b2n).take xs.length = xs := by
    unfold boolPack
    rw [hpad, List.map_append, List.take_left' (by simp)]
    exact b2n_eq1 xs (fun x h => by simpa [goRleBool, rleBool] using hx x h)
  have hlt : ¬ (boolPack xs).length < (xs.length + 7) / 8 := by omega
  simp only [goRleBool, rleBool, hrt, goBoolPageN, ← hbl, List.take_length, hv, Nat.lt_irrefl, if_false]
example : goRleBool.okP [1, 1, 1, 1, 1, 1, 1, 1, 1, 0, 1] = true := by decide +kernel

/-! ## BYTE_ARRAY -/

/-- PLAIN BYTE_ARRAY through `goDecByteArray` (C04 `goDecByteArray_roundtrip`) -/
theorem goPlainBA_ok : goPlainBA.OK := by
  intro xs hx _
  have hl : ∀ v ∈ xs.map (fun x => toB (bytesOfNat x)), v.length < 2 ^ 32 := by
    intro v hv
    obtain ⟨x, hx', rfl⟩ := List.mem_map.mp hv
    have := hx x hx'
    simp only [goPlainBA, plainBA, decide_eq_true_eq] at this
    rwa [toB_length]
  have hv : ((xs.map fun x => toB (bytesOfNat x)).map fun v => natOfBytes (toN v)) = xs := by
    rw [List.map_map]
    exact map_id_of (fun x _ => by
      simp only [Function.comp, toN_toB _ (bytesOfNat_lt x), natOfBytes_bytesOfNat])
  simp only [goPlainBA, plainBA, toB_toN, C04Plain.goDecByteArray_roundtrip _ hl, goOk, Option.map_some, hv,
    exactly, Option.bind_some, ↓reduceIte]
example : goPlainBA.okV (natOfBytes [0xff, 0, 0xff]) = true := by decide

/-- cutting the flat buffer at the offsets of back-to-back values returns the values -/
theorem sliceFrom_offsets : ∀ (vs : List (List Nat)) (o : Nat),
    ∃ tl, Delta.offsetsFrom o vs = o :: tl ∧
      ∀ flat rest, flat.drop o = vs.flatten ++ rest → sliceFrom flat o tl = vs
  | [], o => ⟨[], rfl, fun _ _ _ => rfl⟩
  | v :: vs, o => by
    obtain ⟨tl, htl, hs⟩ := sliceFrom_offsets vs (o + v.length)
    refine ⟨(o + v.length) :: tl, by simp [Delta.offsetsFrom, htl], ?_⟩
    intro flat rest hf
    simp only [List.flatten_cons, List.append_assoc] at hf
    have h1 : (flat.drop o).take (o + v.length - o) = v := by
      rw [hf, Nat.add_sub_cancel_left, List.take_left' rfl]
    have h2 : flat.drop (o + v.length) = vs.flatten ++ rest := by
      rw [← List.drop_drop, hf, List.drop_left' rfl]
    simp only [sliceFrom, h1, hs flat rest h2]

theorem sliceOffs_offsets (vs : List (List Nat)) : sliceOffs vs.flatten (Delta.offsetsFrom 0 vs) = vs := by
  obtain ⟨tl, htl, hs⟩ := sliceFrom_offsets vs 0
  rw [htl]
  exact hs vs.flatten [] (by simp)

theorem msb_ofNat_lt (k : Nat) (h : k < 2 ^ 31) : (BitVec.ofNat 32 k).msb = false := by
  rw [BitVec.msb_eq_decide]
  simp only [BitVec.toNat_ofNat, decide_eq_false_iff_not, Nat.not_le]
  have : k % 2 ^ 32 = k := Nat.mod_eq_of_lt (by omega)
  omega

/-- DELTA_LENGTH_BYTE_ARRAY through `goDecodeDLBA` (C04 `goDecode32_mirrorEncode32`,
    `goLengthOffsets_of`, `offsetsFrom_last`): values shorter than 2 GiB, pages below 4 GiB -/
theorem goDecodeDLBA_mirrorEncodeDLBA (vs : List (List Nat)) (hl : ∀ v ∈ vs, v.length < 2 ^ 31)
    (hn : vs.length < 2 ^ 31) (hb : vs.flatten.length < 2 ^ 32) :
    Delta.goDecodeDLBA (Delta.mirrorEncodeDLBA vs) = .ok (vs.flatten, Delta.offsetsFrom 0 vs) := by
  have hdec : Delta.goDecode 32 (Delta.mirrorEncode32 (vs.map fun v => BitVec.ofNat 32 v.length) ++ vs.flatten) =
      .ok (vs.map fun v => BitVec.ofNat 32 v.length, vs.flatten) :=
    C04Delta.goDecode32_mirrorEncode32 _ vs.flatten (by simpa using hn)
  have hpos : ∀ l ∈ vs.map (fun v => BitVec.ofNat 32 v.length), l.msb = false := by
    intro l hl'
    obtain ⟨v, hv, rfl⟩ := List.mem_map.mp hl'
    exact msb_ofNat_lt _ (hl v hv)
  have hmap : vs.map List.length = (vs.map fun v => BitVec.ofNat 32 v.length).map BitVec.toNat := by
    simp only [List.map_map]
    apply List.map_congr_left
    intro v hv
    simp only [Function.comp, BitVec.toNat_ofNat]
    exact (Nat.mod_eq_of_lt (by have := hl v hv; omega)).symm
  have ho := Delta.goLengthOffsets_of _ vs 0 hpos hmap (by omega)
  have hlast : (Delta.offsetsFrom 0 vs).getLastD 0 = vs.flatten.length := by
    rw [Delta.offsetsFrom_last]; omega
  simp only [Delta.goDecodeDLBA, Delta.mirrorEncodeDLBA, hdec, ho, hlast, Nat.lt_irrefl, if_false, List.take_length]
example : (∀ v ∈ [[1, 2], []], (v : List Nat).length < 2 ^ 31) := by decide

theorem goDlba_ok : goDlba.OK := by
  intro xs hx hp
  simp only [goDlba, Bool.and_eq_true, decide_eq_true_eq, okCount] at hp
  have hl : ∀ v ∈ xs.map bytesOfNat, v.length < 2 ^ 31 := by
    intro v hv
    obtain ⟨x, hx', rfl⟩ := List.mem_map.mp hv
    simpa [goDlba, dlba] using hx x hx'
  have hgo := goDecodeDLBA_mirrorEncodeDLBA (xs.map bytesOfNat) hl (by simpa using hp.1) hp.2
  simp only [goDlba, dlba, hgo, sliceOffs_offsets, List.length_map, ↓reduceIte, natOfBytes_map]
example : goDlba.okV (natOfBytes []) = true ∧ goDlba.okP [natOfBytes [1, 2], natOfBytes []] = true := by decide

theorem dbaPrefixes_length : ∀ (vs : List (List Nat)) (prev : List Nat), (Delta.dbaPrefixes prev vs).length = vs.length
  | [], _ => rfl
  | v :: vs, _ => by simp [Delta.dbaPrefixes, dbaPrefixes_length vs v]

theorem dbaSuffixes_length : ∀ (vs : List (List Nat)) (prev : List Nat), (Delta.dbaSuffixes prev vs).length = vs.length
  | [], _ => rfl
  | v :: vs, _ => by simp [Delta.dbaSuffixes, dbaSuffixes_length vs v]

theorem goJoin_error_not_limit : ∀ (ps ss : List (BitVec 32)) (lastV src : List Nat) (e : Delta.GoErr),
    Delta.goJoin lastV ps ss src = .error e → e.isLimit = false
  | [], _, _, _, e, h => by simp [Delta.goJoin] at h
  | _ :: _, [], _, _, e, h => by simp [Delta.goJoin] at h
  | p :: ps, s :: ss, lastV, src, e, h => by
    simp only [Delta.goJoin] at h
    split at h
    · cases h; rfl
    · split at h
      · cases h; rfl
      · split at h
        · cases h; rfl
        · split at h
          · cases h; rfl
          · split at h
            · next e' he =>
              cases h
              exact goJoin_error_not_limit ps ss _ _ _ he
            · cases h

/-- the portable Go DELTA_BYTE_ARRAY decoder on the mirror encoder's stream (C04 `dba_roundtrip`,
    `goDecodeDBA_eq_spec`; the limit alternative is excluded: both length streams decode, and the
    copy loop has no limit error) -/
theorem goDecodeDBA_mirrorEncodeDBA (vs : List (List Nat)) (h : ∀ v ∈ vs, v.length < 2 ^ 31)
    (hn : vs.length < 2 ^ 31) : Delta.goDecodeDBA (Delta.mirrorEncodeDBA vs) = .ok vs := by
  rcases C04Delta.goDecodeDBA_eq_spec _ vs [] (C04Delta.dba_roundtrip vs h) with g | ⟨e, g, he⟩
  · exact g
  · exfalso
    have hpl : (Delta.dbaPrefixes [] vs).length = vs.length := dbaPrefixes_length vs []
    have hsl : (Delta.dbaSuffixes [] vs).length = vs.length := dbaSuffixes_length vs []
    have h1 := C04Delta.goDecode32_mirrorEncode32 ((Delta.dbaPrefixes [] vs).map (BitVec.ofNat 32))
      (Delta.mirrorEncode32 ((Delta.dbaSuffixes [] vs).map fun s => BitVec.ofNat 32 s.length) ++
        (Delta.dbaSuffixes [] vs).flatten) (by simpa [hpl] using hn)
    have h2 := C04Delta.goDecode32_mirrorEncode32 ((Delta.dbaSuffixes [] vs).map fun s => BitVec.ofNat 32 s.length)
      (Delta.dbaSuffixes [] vs).flatten (by simpa [hsl] using hn)
    have h1' : Delta.goDecode 32 _ = _ := h1
    have h2' : Delta.goDecode 32 _ = _ := h2
    simp only [Delta.goDecodeDBA, Delta.mirrorEncodeDBA, List.append_assoc, h1', h2', List.length_map, hpl, hsl,
      ne_eq, not_true_eq_false, if_false] at g
    have := goJoin_error_not_limit _ _ _ _ _ g
    rw [this] at he
    cases he
example : (∀ v ∈ [[1, 2], [1, 3]], (v : List Nat).length < 2 ^ 31) := by decide

/-- DELTA_BYTE_ARRAY through the portable `goDecodeDBA` -/
theorem goDba_ok : goDba.OK := by
  intro xs hx hp
  have hl : ∀ v ∈ xs.map bytesOfNat, v.length < 2 ^ 31 := by
    intro v hv
    obtain ⟨x, hx', rfl⟩ := List.mem_map.mp hv
    simpa [goDba, dba] using hx x hx'
  have hn : (xs.map bytesOfNat).length < 2 ^ 31 := by simpa [goDba, okCount] using hp
  simp only [goDba, dba, goDecodeDBA_mirrorEncodeDBA _ hl hn, List.length_map, ↓reduceIte, natOfBytes_map]
example : goDba.okV (natOfBytes [1, 2, 3]) = true ∧ goDba.okP [5, 6] = true := by decide

/-- DELTA_BYTE_ARRAY of FIXED_LEN_BYTE_ARRAY(n) through `goDecodeDBA`, the page re-cutting the
    concatenation -/
theorem goDbaFixed_ok (n : Nat) (hn : 0 < n) (hb : n < 2 ^ 31) : (goDbaFixed n).OK := by
  intro xs hx hp
  have hlen : ∀ v ∈ xs.map (Rle.leBytes n), v.length = n := by
    intro v hv
    obtain ⟨x, _, rfl⟩ := List.mem_map.mp hv
    exact Rle.leBytes_length n x
  have hch := chunksOf_flatten_eq n hn (xs.map (Rle.leBytes n)) _ hlen (Nat.le_refl _)
  have hl : ∀ v ∈ xs.map (Rle.leBytes n), v.length < 2 ^ 31 := fun v hv => by rw [hlen v hv]; exact hb
  have hcnt : (xs.map (Rle.leBytes n)).length < 2 ^ 31 := by simpa [goDbaFixed, okCount] using hp
  have hv := leNat_leBytes_id n xs (fun x h => by simpa [goDbaFixed, dbaFixed] using hx x h)
  have hmod : (xs.map (Rle.leBytes n)).flatten.length % n = 0 := by
    have : ∀ (L : List (List Nat)), (∀ v ∈ L, v.length = n) → L.flatten.length % n = 0 := by
      intro L
      induction L with
      | nil => intro _; simp
      | cons a L ih =>
        intro h
        have ha := h a (by simp)
        have := ih (fun v hv => h v (by simp [hv]))
        simp only [List.flatten_cons, List.length_append, ha, Nat.add_mod_left]
        exact this
    exact this _ hlen
  simp only [goDbaFixed, dbaFixed, Delta.mirrorEncodeFLBA, hch, goDecodeDBA_mirrorEncodeDBA _ hl hcnt, List.length_map,
    hmod, and_self, ↓reduceIte, hv]
example : (0 : Nat) < 16 ∧ 16 < 2 ^ 31 := by decide

/-! ## the table -/

/-- admissible pages of the Go read path: those of the SPEC reader, and below the Go decoders'
    count / size limits -/
theorem goVal_okP_le (stale : Plain.Bytes) (c : ColSpec) (xs : List Nat) (h : (c.goVal stale).okP xs = true) :
    c.val.okP xs = true := by
  obtain ⟨t, e⟩ := c
  cases t <;> cases e <;>
    simp_all [ColSpec.goVal, ColSpec.val, goValCodecOf, valCodecOf, goPlainOf, plainOf, goPlainBool, plainBool,
      goPlainFixed, plainFixed, goPlainBA, plainBA, goPlainFLBA, goRleBool, goDelta32, delta32, goDelta64, delta64,
      goBssFixed, bssFixed, goBssFLBA, goDlba, dlba, goDba, dba, goDbaFixed, dbaFixed]

/-- **Every physical type × encoding parquet-go accepts, read by the Go decoders**: the value codec
    round-trips on admissible pages, and so does the PLAIN codec of the type (its dictionary page),
    which has no page limit and a domain containing the column's; the value domain is the SPEC
    column's. -/
theorem goValCodecOf_ok (stale : Plain.Bytes) (c : ColSpec) (h : c.supported = true) :
    (c.goVal stale).OK ∧ (goPlainOf c.t).OK ∧ (∀ x, (c.goVal stale).okV x = true → (goPlainOf c.t).okV x = true) ∧
      (∀ xs, (goPlainOf c.t).okP xs = true) ∧ (c.goVal stale).okV = c.val.okV := by
  obtain ⟨t, e⟩ := c
  have hplain : ∀ t', (match t' with | .flba n => 0 < n | _ => True) →
      (goPlainOf t').OK ∧ ∀ xs, (goPlainOf t').okP xs = true := by
    intro t' ht
    cases t' with
    | boolean => exact ⟨goPlainBool_ok, fun _ => rfl⟩
    | int32 => exact ⟨goPlainFixed_ok 4 (by decide), fun _ => rfl⟩
    | int64 => exact ⟨goPlainFixed_ok 8 (by decide), fun _ => rfl⟩
    | int96 => exact ⟨goPlainFixed_ok 12 (by decide), fun _ => rfl⟩
    | float => exact ⟨goPlainFixed_ok 4 (by decide), fun _ => rfl⟩
    | double => exact ⟨goPlainFixed_ok 8 (by decide), fun _ => rfl⟩
    | byteArray => exact ⟨goPlainBA_ok, fun _ => rfl⟩
    | flba n => exact ⟨goPlainFLBA_ok n ht, fun _ => rfl⟩
  cases t <;> cases e <;>
    simp only [ColSpec.supported, valCodecOf, Option.isSome_some, Option.isSome_none, Bool.true_and,
      Bool.false_and, Bool.and_eq_true, decide_eq_true_eq, Bool.false_eq_true] at h <;>
    first
    | (refine ⟨?_, (hplain _ (by first | trivial | exact h.1)).1, ?_, (hplain _ (by first | trivial | exact h.1)).2, ?_⟩
       · simp only [ColSpec.goVal, goValCodecOf, Option.getD_some, goPlainOf]
         first
         | exact goPlainBool_ok
         | exact goRleBool_ok
         | exact goPlainBA_ok
         | exact goDlba_ok
         | exact goDba_ok
         | exact goDelta32_ok
         | exact goDelta64_ok
         | exact goPlainFixed_ok _ (by decide)
         | exact goPlainFLBA_ok _ h.1
         | exact goBssFixed_ok _ (by decide)
         | exact goBssFLBA_ok _ h.1 stale
         | exact goDbaFixed_ok _ h.1 h.2
       · intro x hx
         simp only [ColSpec.goVal, goValCodecOf, Option.getD_some, goPlainOf, goPlainBool, plainBool, goRleBool, rleBool,
           goPlainBA, plainBA, goDlba, dlba, goDba, dba, goDelta32, delta32, goDelta64, delta64, isInt64, goPlainFixed,
           goPlainFLBA, plainFixed, goBssFixed, goBssFLBA, bssFixed, goDbaFixed, dbaFixed, decide_eq_true_eq] at hx ⊢
         first
         | exact hx
         | omega
       · rfl)
example : (ColSpec.mk (.flba 16) .byteStreamSplit).supported = true := by decide

/-! ## levels, dictionary indexes, the column -/

/-- levels `≤ m ≤ 255` of a page with fewer than 2^31 entries through `goDecodeLevels`
    (C04 `go_roundtrip_levels`) -/
theorem goLv_ok (m : Nat) (xs : List Nat) (hm : m ≤ 255) (hx : ∀ x ∈ xs, x ≤ m) (hn : okCount xs.length = true) :
    goLvDec m xs.length (lvEnc m xs) = some xs := by
  by_cases h0 : m = 0
  · subst h0
    simp only [goLvDec, ↓reduceIte, Option.some.injEq]
    exact (List.eq_replicate_iff.mpr ⟨rfl, fun x hx' => by have := hx x hx'; omega⟩).symm
  · simp only [goLvDec, lvEnc, if_neg h0]
    have hw : Rle.maxLen [m] ≤ 8 := Rle.maxLen_le [m] 8 (by
      intro x hx'
      simp only [List.mem_singleton] at hx'
      subst hx'
      exact Nat.lt_of_le_of_lt hm (by decide))
    have hlt : ∀ x ∈ xs, x < 2 ^ Rle.maxLen [m] := fun x hx' =>
      Nat.lt_of_le_of_lt (hx x hx') (Rle.lt_pow_maxLen [m] m (by simp))
    have hl : xs.length ≤ 2 ^ 31 - 1 := by simp only [okCount, decide_eq_true_eq] at hn; omega
    have h := C04Rle.go_roundtrip_levels (Rle.maxLen [m]) xs hw hlt hl
    simp only [rleEncL]
    cases he : Rle.encodeLevels (Rle.maxLen [m]) xs with
    | error e => rw [he] at h; simp [bind, Except.bind] at h
    | ok bs =>
      rw [he] at h
      simp only [bind, Except.bind] at h
      simp only [h, Nat.lt_irrefl, if_false, List.take_length]
example : (∀ x ∈ [0, 3, 3, 1], x ≤ 3) ∧ okCount [0, 3, 3, 1].length = true := by decide

/-- RLE_DICTIONARY index pages through `goDecodeDict` and `newIndexedPage`, for every content of
    the pooled index buffer (C04 `go_roundtrip_dict`, `goNewIndexedPage_eq`) -/
theorem goIdx_ok (stale : List Nat) (xs : List Nat) (hx : ∀ x ∈ xs, x < 2 ^ 32) (hn : okCount xs.length = true) :
    goIdxDec stale xs.length (rleIdxEnc xs) = some xs := by
  have hl : xs.length ≤ 2 ^ 31 - 1 := by simp only [okCount, decide_eq_true_eq] at hn; omega
  have h := C04Rle.go_roundtrip_dict xs hx hl
  simp only [rleIdxEnc, goIdxDec]
  cases he : Rle.encodeDict xs with
  | error e => rw [he] at h; simp [bind, Except.bind] at h
  | ok bs =>
    rw [he] at h
    simp only [bind, Except.bind] at h
    simp only [h, PlainDict.goNewIndexedPage_eq, List.take_length, Nat.sub_self, List.replicate_zero,
      List.append_nil]
example : (∀ x ∈ [0, 7, 4000000000], x < 2 ^ 32) := by decide

/-- A column read by the Go decoders satisfies every codec hypothesis of the composition theorem on
    admissible pages (fewer than 2^31 entries), in both page layouts, for every stale content of the
    index buffer; only the compressor stays a hypothesis (C20). -/
theorem mkCodecGo_ok (v d : ValCodec) (hv : v.OK) (hd : d.OK) (hvd : ∀ x, v.okV x = true → d.okV x = true)
    (hdp : ∀ xs, d.okP xs = true) (staleIdx : List Nat) (v1 : Bool) (lv : Nat × Nat) (comp : List Nat → List Nat)
    (decomp : List Nat → Option (List Nat)) (hcmp : ∀ b, decomp (comp b) = some b) :
    (mkCodecGo v d staleIdx v1 lv comp decomp).OKOn 255 okCount v.okP (okSOf v1 lv) := by
  refine ⟨fun m xs hm hx hn => goLv_ok m xs hm hx hn, fun xs hx hp => hv xs hx hp,
    fun xs hx => hd xs (fun x h => hvd x (hx x h)) (hdp xs), fun xs hx hn => goIdx_ok staleIdx xs hx hn, hcmp, ?_⟩
  intro p hp
  cases v1 with
  | true => exact unpackV1_packV1 lv comp decomp hcmp p (by simpa [okSOf] using hp)
  | false => simp [mkCodecGo, mkCodec, packSections, unpackSections, hcmp]
example : ∀ b : List Nat, (some : List Nat → Option (List Nat)) (id b) = some b := fun _ => rfl

/-! ## the file -/

/-- **C01 with the Go decoders on the read path.** Same quantification as `C01.roundtrip_typed`
    (every well-formed schema with levels `≤ 255`, conforming rows, row-group partition, page cuts
    at row boundaries, fallback points, physical type × encoding per column, v1/v2 layout, lossless
    compressor) and additionally every former content `stale` / `staleIdx` of the recycled decode
    buffers: reading the written file with the MIRRORS of the Go decoders (levels, values,
    dictionary page, dictionary indexes) returns exactly the rows, provided every written page is
    admissible for them (`pagesOK … okCount`: fewer than 2^31 entries per page, DELTA_LENGTH pages
    below 4 GiB, and the format limits of `roundtrip_typed`). -/
theorem roundtrip_typed_go (n : Node) (cols : Nat → ColSpec) (stale : Plain.Bytes) (staleIdx : List Nat)
    (v1 : Bool) (comp : List Nat → List Nat)
    (decomp : List Nat → Option (List Nat)) (hcmp : ∀ b, decomp (comp b) = some b)
    (gs : List GroupCfg) (rows : List Val)
    (hwf : wfN n = true) (hconf : ∀ v ∈ rows, confN n v = true) (hB : levelsBounded 255 n = true)
    (hsup : ∀ j, j < leavesN n → (cols j).supported = true)
    (hdom : ∀ v ∈ rows, valsIn (fun j => ((cols j).goVal stale).okV) 0 (shredN n 0 0 0 v) = true)
    (hpages : pagesOK n (typedCodecGo n cols stale staleIdx v1 comp decomp) okCount
      (fun j => ((cols j).goVal stale).okP)
      (fun j => okSOf v1 ((levelsN n 0 0).getD j (0, 0))) gs rows = true)
    (hcuts : cutsAligned n gs rows = true) :
    readFile n (typedCodecGo n cols stale staleIdx v1 comp decomp)
      (writeFile n (typedCodecGo n cols stale staleIdx v1 comp decomp) gs rows) = some rows :=
  C01.roundtrip_limits n _ 255 _ _ _ gs rows hwf hconf hB
    (fun j hj =>
      have h := goValCodecOf_ok stale (cols j) (hsup j hj)
      mkCodecGo_ok _ _ h.1 h.2.1 h.2.2.1 h.2.2.2.1 staleIdx v1 _ comp decomp hcmp)
    hdom hpages hcuts

/-! ### non-vacuity: the typed witness of `Props/C01.lean`, dirty decode buffers -/
section Witness
open C01

example : (∀ v ∈ typedRows, valsIn (fun j => ((typedCols j).goVal [0xAA, 0xBB, 0xCC]).okV) 0
      (shredN witnessSchema 0 0 0 v) = true) := by decide +kernel

example : pagesOK witnessSchema (typedCodecGo witnessSchema typedCols [0xAA, 0xBB, 0xCC] [7, 7, 7] true id some)
    okCount (fun j => ((typedCols j).goVal [0xAA, 0xBB, 0xCC]).okP)
    (fun j => okSOf true ((levelsN witnessSchema 0 0).getD j (0, 0))) witnessGroups typedRows = true := by
  decide +kernel

/-- all hypotheses at once: the theorem applies to the witness file (BOOLEAN/RLE, BYTE_ARRAY/
    DELTA_BYTE_ARRAY, FLBA(2)/BYTE_STREAM_SPLIT, DOUBLE/PLAIN; data page v1 framing) -/
example : readFile witnessSchema (typedCodecGo witnessSchema typedCols [0xAA, 0xBB, 0xCC] [7, 7, 7] true id some)
    (writeFile witnessSchema (typedCodecGo witnessSchema typedCols [0xAA, 0xBB, 0xCC] [7, 7, 7] true id some)
      witnessGroups typedRows) = some typedRows :=
  roundtrip_typed_go witnessSchema typedCols [0xAA, 0xBB, 0xCC] [7, 7, 7] true id some (fun _ => rfl)
    witnessGroups typedRows (by decide) (by decide) (by decide)
    (fun j hj => by
      have : j < 4 := hj
      match j, this with
      | 0, _ => decide
      | 1, _ => decide
      | 2, _ => decide
      | 3, _ => decide)
    (by decide +kernel) (by decide +kernel) (by decide)
end Witness

end PqModel.Props.C01Go
